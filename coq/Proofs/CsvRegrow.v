(* Proofs/CsvRegrow.v — the byte-level FSM with arbitrary (positive) value budgets: a call stops at the
   end of its window, when the index buffer is full, or at the first byte that fills a column's budget;
   in every case the records committed so far are intact in the staging buffers. *)
From Coq Require Import ZArith List Lia Bool.
From EV Require Import Res Arr Csv CsvSpec CsvBase CsvKernel CsvTable CsvRows CsvPrefix.
Import ListNotations.
Open Scope Z_scope.

Lemma lt_succ_fun' c r x : (if x =? c then r + 1 else if x <? c then r + 1 else r) = if x <? c + 1 then r + 1 else r.
Proof.
  destruct (x =? c) eqn:E1.
  - apply Z.eqb_eq in E1. subst x. destruct (c <? c + 1) eqn:E2; [reflexivity|apply Z.ltb_ge in E2; lia].
  - apply Z.eqb_neq in E1. destruct (x <? c) eqn:E2; destruct (x <? c + 1) eqn:E3; try reflexivity.
    + apply Z.ltb_lt in E2. apply Z.ltb_ge in E3. lia.
    + apply Z.ltb_ge in E2. apply Z.ltb_lt in E3. lia.
Qed.

Section Gen.
Variables (src offs : list Z) (maxrow ncols : Z).
Let w := maxrow + 1.

Notation runn := (runn src offs maxrow).
Notation step := (fsm_step src offs maxrow).
Notation reaches := (reaches src offs maxrow).

(* a writing step that fills the budget of the column: lines 257-263 raise `values full` *)
Lemma step_inner_ovf i e c r vfc esc cand k cs ic coff cvc inds vals b t esc' cand' :
  0 <= i -> suf src i = b :: t ->
  classify src i b esc cand ic e = Ok (true, false, false, esc', cand', e) ->
  0 <= r -> 0 <= coff + cs + k < len vals -> cs + (k + 1) >= cvc ->
  step (mkSt i e c r vfc esc cand k cs ic false false coff cvc inds vals) =
  Ok (mkSt (i + 1) e c r c esc' cand' (k + 1) cs ic false true coff cvc inds (upd vals (coff + cs + k) b)).
Proof.
  intros Hi H Hc Hr Hb Hov. destruct (suf_cons src i b t Hi H) as (_ & _ & _ & Hg).
  unfold fsm_step. cbn [s_index s_esc s_cand s_icstart s_eol s_row s_vals s_coff s_cstart s_count s_cvc s_col s_vfull s_vfc s_inds s_ifull].
  rewrite Hg. cbn [bind]. rewrite Hc. cbn [bind andb].
  assert (Er : (0 <=? r) = true) by (apply Z.leb_le; lia). rewrite Er.
  rewrite set_ok by lia. cbn [bind].
  destruct (cs + (k + 1) >=? cvc) eqn:E2; [|rewrite Z.geb_leb in E2; apply Z.leb_gt in E2; lia]. reflexivity.
Qed.

(* ---- one cell with a limited budget ---------------------------------------------------------- *)
Section CellG.
Variables (e c r vfc cs ic coff cvc L : Z) (inds : arr2).
Hypothesis Hr : 0 <= r.
Hypothesis Hcoff : 0 <= coff.
Hypothesis Hcs : 0 <= cs.
Hypothesis HL : coff + cvc <= L.

Definition Sv (i:Z) (esc cand:bool) (k:Z) (vals:list Z) : st := S0 e c r vfc cs ic coff cvc inds i esc cand k vals.

(* the call stops inside the cell: only the prefix tp of its text has been written; vf says why *)
Definition cstop (cut:bool) (vals:list Z) (k0:Z) (t:list Z) (s:st) : Prop :=
  exists (idx:Z) (esc cand:bool) (k:Z) (vf:bool) (tp tq:list Z), t = tp ++ tq /\ cs + k0 + len tp <= cvc /\
    s = mkSt idx e c r (if vf then c else vfc) esc cand k cs ic false vf coff cvc inds (wrs vals (coff + cs + k0) tp) /\
    (if vf then idx <= len src /\ cvc <= cs + k0 + len tp else idx = len src /\ cut = true).

Lemma cstop_cons cut vals k0 b t s :
  cstop cut (upd vals (coff + cs + k0) b) (k0 + 1) t s -> cstop cut vals k0 (b :: t) s.
Proof.
  intros (idx & esc & cand & k & vf & tp & tq & Et & Hle & Es & Hv).
  exists idx, esc, cand, k, vf, (b :: tp), tq. rewrite len_cons.
  split; [rewrite Et; reflexivity|]. split; [lia|]. split.
  - rewrite Es. cbn [wrs]. replace (coff + cs + (k0 + 1)) with (coff + cs + k0 + 1) by lia. reflexivity.
  - destruct vf; [destruct Hv; split; lia|exact Hv].
Qed.

Lemma cstop_app cut vals k0 t t2 s : cstop cut vals k0 t s -> cstop cut vals k0 (t ++ t2) s.
Proof.
  intros (idx & esc & cand & k & vf & tp & tq & Et & Hle & Es & Hv).
  exists idx, esc, cand, k, vf, tp, (tq ++ t2). split; [rewrite Et, app_assoc; reflexivity|]. auto.
Qed.

(* either the whole text t is written and the scanner stands at byte iend, or the call stops inside *)
Definition outc (cut:bool) (s0:st) (k:Z) (vals:list Z) (t:list Z) (iend:Z) : Prop :=
  (cut = false /\ cs + k + len t < cvc /\
   exists n, runn n s0 (Sv iend false false (k + len t) (wrs vals (coff + cs + k) t)))
  \/ (exists s, reaches s0 s /\ cstop cut vals k t s).

Lemma outc_write cut i esc cand esc' cand' k vals b l' t' iend :
  0 <= i -> 0 <= k -> suf src i = b :: l' ->
  classify src i b esc cand ic e = Ok (true, false, false, esc', cand', e) ->
  cs + k < cvc -> len vals = L ->
  (l' = [] -> cut = true) ->
  (l' <> [] -> cs + k + 1 < cvc ->
   outc cut (Sv (i + 1) esc' cand' (k + 1) (upd vals (coff + cs + k) b)) (k + 1) (upd vals (coff + cs + k) b) t' iend) ->
  outc cut (Sv i esc cand k vals) k vals (b :: t') iend.
Proof.
  intros Hi Hk H Hcl Hroom Hlen Hcut Hcont.
  destruct (suf_cons src i b l' Hi H) as (Hlt & _ & Hs & _).
  assert (Er : (0 <=? r) = true) by (apply Z.leb_le; lia).
  destruct (Z_lt_ge_dec (cs + k + 1) cvc) as [Hfit|Hov].
  - pose proof (step_inner src offs maxrow i e c r vfc esc cand k cs ic coff cvc inds vals b l' true esc' cand' Hi H Hcl) as Hst.
    cbn [andb] in Hst. rewrite Er in Hst. specialize (Hst ltac:(intros _; lia)).
    destruct l' as [|x l''].
    + right. apply suf_nil_iff in Hs; try lia. eexists. split; [apply reaches_step; exact Hst|].
      exists (i + 1), esc', cand', (k + 1), false, [b], t'. rewrite len_cons, len_nil.
      split; [reflexivity|]. split; [lia|]. split; [reflexivity|]. split; [lia|apply Hcut; reflexivity].
    + assert (Hn : noexit src (Sv (i + 1) esc' cand' (k + 1) (upd vals (coff + cs + k) b))).
      { eapply (noexit_S0 src maxrow); [|exact Hs]. lia. }
      destruct (Hcont ltac:(discriminate) Hfit) as [(Hc & Hf & n & R)|(s & R & Hst2)].
      * left. split; [exact Hc|]. rewrite len_cons. split; [lia|]. exists (S n).
        eapply runnS; [exact Hst|exact Hn|].
        replace (k + (len t' + 1)) with (k + 1 + len t') by lia. cbn [wrs].
        replace (coff + cs + k + 1) with (coff + cs + (k + 1)) by lia. exact R.
      * right. exists s. split; [eapply reaches_cons; [exact Hst|exact Hn|exact R]|]. apply cstop_cons. exact Hst2.
  - right. pose proof (step_inner_ovf i e c r vfc esc cand k cs ic coff cvc inds vals b l' esc' cand' Hi H Hcl Hr ltac:(lia) ltac:(lia)) as Hst.
    eexists. split; [apply reaches_step; exact Hst|].
    exists (i + 1), esc', cand', (k + 1), true, [b], t'. rewrite len_cons, len_nil.
    split; [reflexivity|]. split; [lia|]. split; [reflexivity|]. split; lia.
Qed.

Lemma outc_nowrite cut i esc cand esc' cand' k vals b l' t iend :
  0 <= i -> suf src i = b :: l' ->
  classify src i b esc cand ic e = Ok (false, false, false, esc', cand', e) ->
  cs + k <= cvc ->
  (l' = [] -> cut = true) ->
  (l' <> [] -> outc cut (Sv (i + 1) esc' cand' k vals) k vals t iend) ->
  outc cut (Sv i esc cand k vals) k vals t iend.
Proof.
  intros Hi H Hcl Hroom Hcut Hcont.
  destruct (suf_cons src i b l' Hi H) as (Hlt & _ & Hs & _).
  pose proof (step_inner src offs maxrow i e c r vfc esc cand k cs ic coff cvc inds vals b l' false esc' cand' Hi H Hcl) as Hst.
  cbn [andb] in Hst. specialize (Hst ltac:(discriminate)).
  destruct l' as [|x l''].
  - right. apply suf_nil_iff in Hs; try lia. eexists. split; [apply reaches_step; exact Hst|].
    exists (i + 1), esc', cand', k, false, [], t. rewrite len_nil.
    split; [reflexivity|]. split; [lia|]. split; [reflexivity|]. split; [lia|apply Hcut; reflexivity].
  - assert (Hn : noexit src (Sv (i + 1) esc' cand' k vals)).
    { eapply (noexit_S0 src maxrow); [|exact Hs]. lia. }
    destruct (Hcont ltac:(discriminate)) as [(Hc & Hf & n & R)|(s & R & Hst2)].
    + left. split; [exact Hc|]. split; [exact Hf|]. exists (S n). eapply runnS; [exact Hst|exact Hn|exact R].
    + right. exists s. split; [eapply reaches_cons; [exact Hst|exact Hn|exact R]|exact Hst2].
Qed.

(* plain bytes *)
Lemma run_plain_g (cut:bool) bs : forall i k vals l',
  0 <= i -> 0 <= k -> suf src i = bs ++ l' -> forallb (fun b => negb (special b)) bs = true ->
  cs + k < cvc -> len vals = L ->
  (if cut then l' = [] /\ bs <> [] else l' <> []) ->
  outc cut (Sv i false false k vals) k vals bs (i + len bs).
Proof.
  induction bs as [|b bs IH]; intros i k vals l' Hi Hk H Hall Hroom Hlen Hm.
  - destruct cut; [destruct Hm as (_ & Hm); contradiction|].
    left. split; [reflexivity|]. rewrite len_nil, !Z.add_0_r. split; [lia|]. exists 0%nat. cbn [wrs]. constructor.
  - cbn [forallb] in Hall. apply andb_prop in Hall. destruct Hall as (Hb & Hall). apply negb_true_iff in Hb.
    cbn [app] in H.
    apply (outc_write cut i false false false false k vals b (bs ++ l') bs (i + len (b :: bs))); try assumption.
    + apply cl_plain. exact Hb.
    + intros E. apply app_eq_nil in E. destruct E as (_ & E). destruct cut; [reflexivity|contradiction].
    + intros Hne Hfit. destruct (suf_cons src i b _ Hi H) as (_ & _ & Hs & _).
      rewrite len_cons. replace (i + (len bs + 1)) with (i + 1 + len bs) by lia.
      apply (IH (i + 1) (k + 1) _ l'); try lia; try assumption.
      * rewrite len_upd. exact Hlen.
      * destruct cut; [|exact Hm]. destruct Hm as (Hm & _). split; [exact Hm|].
        intros E. subst bs l'. contradiction.
Qed.

(* the body of a quoted cell: what is left of it in the window *)
Definition Q (cut:bool) (t l:list Z) : Prop :=
  if cut then l <> [] /\ exists q2, escape_quotes t ++ [ESC] = l ++ q2
  else exists d rest, l = escape_quotes t ++ ESC :: d :: rest /\ (d = SEP \/ d = NL).

Lemma Q_nil cut l : Q cut [] l ->
  if cut then l = [ESC] else exists d rest, l = ESC :: d :: rest /\ (d = SEP \/ d = NL).
Proof.
  unfold Q. destruct cut; [|auto]. intros (Hne & q2 & E). cbn [escape_quotes app] in E.
  destruct l as [|x l]; [contradiction|]. cbn [app] in E. inversion E as [[Hx Hl]].
  destruct l; [reflexivity|discriminate].
Qed.

Lemma Q_cons cut b t' l : Q cut (b :: t') l -> b <> ESC ->
  exists l', l = b :: l' /\ ((l' = [] /\ cut = true) \/ Q cut t' l').
Proof.
  unfold Q. intros H Hb. cbn [escape_quotes] in H.
  destruct (b =? ESC) eqn:Eb; [apply Z.eqb_eq in Eb; contradiction|].
  destruct cut.
  - destruct H as (Hne & q2 & E). destruct l as [|x l']; [contradiction|]. cbn [app] in E.
    inversion E as [[Hx Hl]]. exists l'. split; [reflexivity|].
    destruct l' as [|y l'']; [left; auto|right]. split; [discriminate|]. exists q2. exact Hl.
  - destruct H as (d & rest & E & Hd). cbn [app] in E. exists (escape_quotes t' ++ ESC :: d :: rest).
    split; [exact E|right]. exists d, rest. auto.
Qed.

Lemma Q_esc cut t' l : Q cut (ESC :: t') l ->
  exists l', l = ESC :: l' /\ ((l' = [] /\ cut = true) \/
    exists l'', l' = ESC :: l'' /\ ((l'' = [] /\ cut = true) \/ Q cut t' l'')).
Proof.
  unfold Q. intros H. cbn [escape_quotes] in H. rewrite Z.eqb_refl in H.
  destruct cut.
  - destruct H as (Hne & q2 & E). destruct l as [|x l']; [contradiction|]. cbn [app] in E.
    inversion E as [[Hx Hl]]. exists l'. split; [reflexivity|].
    destruct l' as [|y l'']; [left; auto|right]. cbn [app] in Hl. inversion Hl as [[Hy Hl2]].
    exists l''. split; [reflexivity|]. destruct l'' as [|z l3]; [left; auto|right].
    split; [discriminate|]. exists q2. exact Hl2.
  - destruct H as (d & rest & E & Hd). cbn [app] in E. exists (ESC :: escape_quotes t' ++ ESC :: d :: rest).
    split; [exact E|right]. exists (escape_quotes t' ++ ESC :: d :: rest). split; [reflexivity|right].
    exists d, rest. auto.
Qed.

Lemma run_qbody_g (cut:bool) t : forall i k vals l,
  0 <= i -> 0 <= k -> suf src i = l -> Q cut t l -> cs + k < cvc -> len vals = L ->
  outc cut (Sv i true false k vals) k vals t (i + len (escape_quotes t) + 1).
Proof.
  induction t as [|b t IH]; intros i k vals l Hi Hk H HQ Hroom Hlen.
  - apply Q_nil in HQ. cbn [escape_quotes]. rewrite len_nil, Z.add_0_r. destruct cut.
    + rewrite HQ in H. apply (outc_nowrite true i true false true false k vals ESC [] [] (i + 1) Hi H); try lia; auto.
      * apply cl_retry0. apply (suf_last src maxrow i ESC Hi H).
      * intros Hc; contradiction.
    + destruct HQ as (d & rest & El & Hd). rewrite El in H.
      apply (outc_nowrite false i true false false false k vals ESC (d :: rest) [] (i + 1) Hi H); try lia.
      * eapply cl_close; eauto.
      * discriminate.
      * intros _. left. split; [reflexivity|]. rewrite len_nil, !Z.add_0_r. split; [lia|]. exists 0%nat. cbn [wrs]. constructor.
  - destruct (Z.eq_dec b ESC) as [->|Hb].
    + (* a doubled quote *)
      destruct (Q_esc cut t l HQ) as (l' & El & Hl'). rewrite El in H.
      cbn [escape_quotes]. rewrite Z.eqb_refl. rewrite !len_cons.
      destruct Hl' as [(-> & Hc)|(l'' & -> & Hl'')].
      * (* the window ends between the two quotes *)
        apply (outc_nowrite cut i true false true false k vals ESC [] _ _ Hi H); try lia; auto.
        -- apply cl_retry0. apply (suf_last src maxrow i ESC Hi H).
        -- intros Hc2; contradiction.
      * destruct (suf_cons src i ESC _ Hi H) as (_ & _ & Hs & _).
        apply (outc_nowrite cut i true false true true k vals ESC (ESC :: l'') _ _ Hi H); try lia.
        -- apply (cl_q1 src maxrow i l'' ic e Hi H).
        -- discriminate.
        -- intros _.
           apply (outc_write cut (i + 1) true true true false k vals ESC l'' t _ ltac:(lia) Hk Hs); try assumption.
           ++ apply cl_q2.
           ++ destruct Hl'' as [(-> & Hc)|HQ']; [auto|]. intros ->. unfold Q in HQ'. destruct cut; [reflexivity|].
              destruct HQ' as (d & rest & E & _). destruct (escape_quotes t); discriminate.
           ++ intros Hne Hfit. destruct Hl'' as [(-> & _)|HQ']; [contradiction|].
              destruct (suf_cons src (i + 1) ESC _ ltac:(lia) Hs) as (_ & _ & Hs2 & _).
              replace (i + (len (escape_quotes t) + 1 + 1) + 1) with (i + 1 + 1 + len (escape_quotes t) + 1) by lia.
              apply (IH (i + 1 + 1) (k + 1) _ l''); try lia; try assumption. rewrite len_upd. exact Hlen.
    + (* an ordinary byte inside the quotes *)
      destruct (Q_cons cut b t l HQ Hb) as (l' & El & Hl'). rewrite El in H.
      cbn [escape_quotes]. destruct (b =? ESC) eqn:Eb; [apply Z.eqb_eq in Eb; contradiction|]. rewrite len_cons.
      apply (outc_write cut i true false true false k vals b l' t _ Hi Hk H); try assumption.
      * apply cl_in. exact Hb.
      * destruct Hl' as [(-> & Hc)|HQ']; [auto|]. intros ->. unfold Q in HQ'. destruct cut; [reflexivity|].
        destruct HQ' as (d & rest & E & _). destruct (escape_quotes t); discriminate.
      * intros Hne Hfit. destruct Hl' as [(-> & _)|HQ']; [contradiction|].
        destruct (suf_cons src i b _ Hi H) as (_ & _ & Hs & _).
        replace (i + (len (escape_quotes t) + 1) + 1) with (i + 1 + len (escape_quotes t) + 1) by lia.
        apply (IH (i + 1) (k + 1) _ l'); try lia; try assumption. rewrite len_upd. exact Hlen.
Qed.

(* a rendered cell: complete (followed by its delimiter) or cut by the end of the window *)
Definition C (cut:bool) (cl:cell) (l:list Z) : Prop :=
  if cut then l <> [] /\ exists q2, render_cell cl = l ++ q2
  else exists d rest, l = render_cell cl ++ d :: rest /\ (d = SEP \/ d = NL).

Lemma run_cell_g (cut:bool) (cl:cell) i vals l : ic = i ->
  0 <= i -> suf src i = l -> C cut cl l -> cs < cvc -> len vals = L ->
  outc cut (Sv i false false 0 vals) 0 vals (snd cl) (i + len (render_cell cl)).
Proof.
  intros Eic Hi H HC Hroom Hlen. unfold C, render_cell in *. destruct (fst cl || needs_quote (snd cl)) eqn:E.
  - (* quoted *)
    assert (Hl : exists l', l = ESC :: l' /\ ((l' = [] /\ cut = true) \/ Q cut (snd cl) l')).
    { destruct cut.
      - destruct HC as (Hne & q2 & Eq). destruct l as [|x l']; [contradiction|]. cbn [app] in Eq.
        inversion Eq as [[Hx Hl]]. exists l'. split; [reflexivity|].
        destruct l' as [|y l'']; [left; auto|right]. unfold Q. split; [discriminate|]. exists q2. exact Hl.
      - destruct HC as (d & rest & El & Hd). cbn [app] in El. rewrite <- app_assoc in El. cbn [app] in El.
        exists (escape_quotes (snd cl) ++ ESC :: d :: rest). split; [exact El|right]. unfold Q. exists d, rest. auto. }
    destruct Hl as (l' & -> & Hl').
    assert (Hcl : classify src i ESC false false ic e = Ok (false, false, false, true, false, e)) by (rewrite Eic; apply cl_open).
    apply (outc_nowrite cut i false false true false 0 vals ESC l' _ _ Hi H Hcl); try lia.
    + destruct Hl' as [(-> & Hc)|HQ']; [auto|]. intros ->. unfold Q in HQ'. destruct cut; [reflexivity|].
      destruct HQ' as (d & rest & E2 & _). destruct (escape_quotes (snd cl)); discriminate.
    + intros Hne. destruct Hl' as [(-> & _)|HQ']; [contradiction|].
      destruct (suf_cons src i ESC _ Hi H) as (_ & _ & Hs & _).
      replace (i + len (ESC :: escape_quotes (snd cl) ++ [ESC])) with (i + 1 + len (escape_quotes (snd cl)) + 1)
        by (rewrite len_cons, len_app; unfold len at 3; cbn [length]; lia).
      apply (run_qbody_g cut (snd cl) (i + 1) 0 vals l'); try lia; assumption.
  - (* plain *)
    apply orb_false_elim in E. destruct E as (_ & E). unfold needs_quote in E.
    apply orb_false_elim in E. destruct E as (E & _). pose proof (plain_of_noquote _ E) as Hall.
    destruct cut.
    + destruct HC as (Hne & q2 & Eq). rewrite Eq in Hall. rewrite forallb_app in Hall.
      apply andb_prop in Hall. destruct Hall as (Hall & _).
      assert (Hsuf : suf src i = l ++ []) by (rewrite app_nil_r; exact H).
      destruct (run_plain_g true l i 0 vals [] Hi ltac:(lia) Hsuf Hall ltac:(lia) Hlen (conj eq_refl Hne))
        as [(Hc & _)|(s & R & Hst)]; [discriminate|].
      right. exists s. split; [exact R|]. rewrite Eq. apply cstop_app. exact Hst.
    + destruct HC as (d & rest & El & Hd). rewrite El in H.
      apply (run_plain_g false (snd cl) i 0 vals (d :: rest)); try lia; try assumption. discriminate.
Qed.

End CellG.

Hypothesis Hoffs : len offs = ncols + 1.
Hypothesis Hncols : 0 < ncols.
Hypothesis Hmaxrow : 0 < maxrow.

Lemma reaches_index a b : reaches a b -> s_index a < s_index b.
Proof.
  intros (n & sp & R & H). pose proof (runn_index _ _ _ _ _ _ R). pose proof (step_index _ _ _ _ _ H). lia.
Qed.

(* ---- the staging buffers, with budgets that need not hold the whole column ------------------ *)
Section DataG.
Variables (V : Z) (rows : list (list cell)).
Let nrows := len rows.
Hypothesis Hoffs0 : nthZ offs 0 = 0.
Hypothesis Hb1 : forall c, 0 <= c < ncols -> nthZ offs c + 1 <= nthZ offs (c + 1).
Hypothesis HV : nthZ offs ncols <= V.
Hypothesis Hrect : Forall (fun rw : list cell => len rw = ncols) rows.

Definition bud (c:Z) : Z := nthZ offs (c + 1) - nthZ offs c.

Lemma offs_mono1_nat n : forall c, 0 <= c -> c + Z.of_nat n <= ncols -> nthZ offs c <= nthZ offs (c + Z.of_nat n).
Proof.
  induction n as [|n IH]; intros c Hc H.
  - rewrite Z.add_0_r. lia.
  - specialize (IH c Hc ltac:(lia)). pose proof (Hb1 (c + Z.of_nat n) ltac:(lia)) as Hs.
    replace (c + Z.of_nat (S n)) with (c + Z.of_nat n + 1) by lia. lia.
Qed.

Lemma offs_mono1 c c' : 0 <= c -> c <= c' -> c' <= ncols -> nthZ offs c <= nthZ offs c'.
Proof. intros H1 H2 H3. replace c' with (c + Z.of_nat (Z.to_nat (c' - c))) by lia. apply offs_mono1_nat; lia. Qed.

Lemma offs_nonneg1 c : 0 <= c <= ncols -> 0 <= nthZ offs c.
Proof. intros H. rewrite <- Hoffs0. apply offs_mono1; lia. Qed.

Definition GoodL (f:Z -> Z) (inds:arr2) (vals:list Z) : Prop :=
  shape ncols w inds /\ len vals = V /\
  forall c, 0 <= c < ncols ->
    0 <= f c <= nrows /\ P rows c (f c) < bud c /\
    (forall k, 0 <= k <= f c -> I2 inds c k = P rows c k) /\
    (forall j, 0 <= j < P rows c (f c) -> nthZ vals (nthZ offs c + j) = nthZ (CB rows c) j).

Lemma GoodL_ext f g inds vals : (forall c, 0 <= c < ncols -> f c = g c) -> GoodL f inds vals -> GoodL g inds vals.
Proof.
  intros E (Hs & Hv & H). split; [exact Hs|]. split; [exact Hv|]. intros c Hc. rewrite <- (E c Hc). apply (H c Hc).
Qed.

Lemma GoodL_Good f inds vals : GoodL f inds vals -> Good ncols w V offs rows f inds vals.
Proof.
  intros (Hs & Hv & H). split; [exact Hs|]. split; [exact Hv|]. intros c Hc. destruct (H c Hc) as (A & _ & B & D). auto.
Qed.

Lemma GoodL_init inds vals : shape ncols w inds -> len vals = V ->
  (forall c, 0 <= c < ncols -> I2 inds c 0 = 0) -> GoodL (fun _ => 0) inds vals.
Proof.
  intros Hs Hv H0. split; [exact Hs|]. split; [exact Hv|]. intros c Hc.
  split; [split; [lia|unfold nrows; apply len_nonneg]|]. rewrite P_0. split; [unfold bud; pose proof (Hb1 c Hc); lia|]. split.
  - intros k Hk. assert (k = 0) by lia. subst. rewrite P_0. apply H0. assumption.
  - intros j Hj. lia.
Qed.

Lemma GoodL_weaken f g inds vals : GoodL f inds vals -> (forall c, 0 <= c < ncols -> 0 <= g c <= f c) -> GoodL g inds vals.
Proof.
  intros (Hs & Hv & H) Hg. split; [exact Hs|]. split; [exact Hv|]. intros c Hc.
  destruct (H c Hc) as (Hf & Hbd & Hi & Hb). specialize (Hg c Hc).
  pose proof (P_mono maxrow rows c (g c) (f c) ltac:(lia)) as Hm.
  split; [lia|]. split; [lia|]. split.
  - intros k Hk. apply Hi. lia.
  - intros j Hj. apply Hb. lia.
Qed.

(* bytes written beyond the committed part of column c, inside its budget, disturb nothing *)
Lemma GoodL_write f inds vals c r tp : GoodL f inds vals -> 0 <= c < ncols -> f c = r ->
  P rows c r + len tp <= bud c -> GoodL f inds (wrs vals (nthZ offs c + P rows c r) tp).
Proof.
  intros (Hs & Hv & H) Hc Hf Hfit. pose proof (len_nonneg tp) as Hp.
  pose proof (offs_nonneg1 c ltac:(lia)) as Hon. pose proof (P_nonneg rows c r) as Hpn.
  split; [exact Hs|]. split; [rewrite len_wrs; exact Hv|].
  intros c' Hc'. destruct (H c' Hc') as (Hf' & Hbd' & Hi' & Hb'). split; [exact Hf'|]. split; [exact Hbd'|]. split; [exact Hi'|].
  intros j Hj. rewrite nth_wrs_out; [apply Hb'; exact Hj| | |].
  - lia.
  - pose proof (offs_nonneg1 c' ltac:(lia)). lia.
  - unfold bud in *. destruct (Z.eq_dec c' c) as [->|Hne].
    + left. rewrite Hf in Hj. lia.
    + destruct (Z_lt_ge_dec c' c) as [Hlt|Hge].
      * left. pose proof (offs_mono1 (c' + 1) c ltac:(lia) ltac:(lia) ltac:(lia)). lia.
      * right. pose proof (offs_mono1 (c + 1) c' ltac:(lia) ltac:(lia) ltac:(lia)). lia.
Qed.

Lemma GoodL_cell f inds vals c r : GoodL f inds vals -> 0 <= c < ncols -> f c = r -> 0 <= r < nrows -> r + 1 < w ->
  P rows c r + len (cell_text rows r c) < bud c ->
  GoodL (fun x => if x =? c then r + 1 else f x)
        (put2 inds c (r + 1) (P rows c r + len (cell_text rows r c)))
        (wrs vals (nthZ offs c + P rows c r) (cell_text rows r c)).
Proof.
  intros HG Hc Hf Hr Hw Hfit.
  pose proof (GoodL_write f inds vals c r (cell_text rows r c) HG Hc Hf ltac:(lia)) as (_ & Hv2 & H2).
  destruct HG as (Hs & Hv & H). pose proof (offs_nonneg1 c ltac:(lia)) as Hon. pose proof (P_nonneg rows c r) as Hpn.
  pose proof (offs_mono1 (c + 1) ncols ltac:(lia) ltac:(lia) ltac:(lia)) as Hm.
  split; [apply shape_put2; assumption|]. split; [exact Hv2|].
  intros c' Hc'. destruct (H2 c' Hc') as (Hf' & Hbd' & Hi' & Hb').
  destruct (c' =? c) eqn:E.
  - apply Z.eqb_eq in E. subst c'. rewrite (P_succ rows c r Hr). split; [lia|]. split; [exact Hfit|]. split.
    + intros k Hk. destruct (Z.eq_dec k (r + 1)) as [->|Hne].
      * rewrite (I2_put2_same ncols w) by (try assumption; lia). symmetry. apply P_succ. exact Hr.
      * rewrite (I2_put2_other ncols w) by (try assumption; lia). apply Hi'. lia.
    + intros j Hj. destruct (Z_lt_ge_dec j (P rows c r)) as [Hlt|Hge].
      * apply Hb'. rewrite Hf. lia.
      * replace (nthZ offs c + j) with (nthZ offs c + P rows c r + (j - P rows c r)) by lia.
        unfold bud in Hfit. rewrite nth_wrs_in by lia. replace j with (P rows c r + (j - P rows c r)) at 2 by lia.
        symmetry. apply CB_at; [exact Hr|lia].
  - apply Z.eqb_neq in E. split; [exact Hf'|]. split; [exact Hbd'|]. split.
    + intros k Hk. rewrite (I2_put2_other ncols w) by (try assumption; lia). apply Hi'. exact Hk.
    + exact Hb'.
Qed.

Lemma GoodL_drop c r inds vals : 0 <= r -> GoodL (fun x => if x <? c then r + 1 else r) inds vals -> GoodL (fun _ => r) inds vals.
Proof. intros Hr HG. eapply GoodL_weaken; [exact HG|]. intros x Hx. cbv beta. destruct (x <? c); lia. Qed.

Notation cstate := (CsvRows.cstate offs).
Notation cstate_f := (cstate_f offs).

(* what is left of a record (from some column on) in the window *)
Definition R (cut:bool) (cells:list cell) (l:list Z) : Prop :=
  if cut then l <> [] /\ exists q, q <> [] /\ render_row cells = l ++ q
  else exists rest, l = render_row cells ++ rest /\ nows rest.

Lemma nows_row cells : cells <> [] -> nows (render_row cells).
Proof. intros H. rewrite <- (app_nil_r (render_row cells)). apply nows_render_row. exact H. Qed.

Lemma R_cons cut cl cells l : R cut (cl :: cells) l ->
  (cut = true /\ C true cl l)
  \/ (cells = [] /\ cut = false /\ exists rest, l = render_cell cl ++ NL :: rest /\ nows rest)
  \/ (cells <> [] /\ exists l'', l = render_cell cl ++ SEP :: l'' /\ nows l'' /\ ((l'' = [] /\ cut = true) \/ R cut cells l'')).
Proof.
  unfold R, C. destruct cut.
  - intros (Hne & q & Hq & E).
    assert (Hrow : exists d Rr, render_row (cl :: cells) = render_cell cl ++ d :: Rr /\
                     ((Rr = [] /\ cells = []) \/ (d = SEP /\ Rr = render_row cells /\ cells <> []))).
    { destruct cells as [|cl2 cells'].
      - exists NL, []. split; [reflexivity|left; auto].
      - exists SEP, (render_row (cl2 :: cells')). split; [reflexivity|right]. repeat split. discriminate. }
    destruct Hrow as (d & Rr & Erow & Hd). rewrite Erow in E.
    destruct (app_eq_app _ _ _ _ E) as (x & [(E1 & E2)|(E1 & E2)]).
    + left. split; [reflexivity|]. split; [exact Hne|]. exists x. exact E1.
    + destruct x as [|d' l''].
      * left. split; [reflexivity|]. split; [exact Hne|]. exists []. rewrite app_nil_r in *. symmetry. exact E1.
      * cbn [app] in E2. inversion E2 as [[Hd' HR]]. subst d'.
        destruct Hd as [(HR0 & _)|(Hd & HRr & Hmore)].
        { exfalso. rewrite HR0 in HR. destruct l''; [cbn in HR; subst q; contradiction|discriminate]. }
        subst d. right. right. split; [exact Hmore|]. exists l''. split; [exact E1|].
        assert (Hnw : nows l'') by (apply (nows_app_l l'' q); rewrite <- HR, HRr; apply nows_row; exact Hmore).
        split; [exact Hnw|]. destruct l'' as [|z l3]; [left; auto|right].
        split; [discriminate|]. exists q. split; [exact Hq|]. rewrite <- HRr. exact HR.
  - intros (rest & E & Hn). destruct cells as [|cl2 cells'].
    + right. left. split; [reflexivity|]. split; [reflexivity|]. exists rest. cbn [render_row] in E. rewrite <- app_assoc in E. auto.
    + right. right. split; [discriminate|]. exists (render_row (cl2 :: cells') ++ rest).
      change (render_row (cl :: cl2 :: cells')) with (render_cell cl ++ SEP :: render_row (cl2 :: cells')) in E.
      rewrite <- app_assoc in E. cbn [app] in E. split; [exact E|]. split; [apply nows_render_row; discriminate|].
      right. exists rest. auto.
Qed.

(* the call stops inside record r (values full, or the window ends): r records are committed *)
Definition HaltR (cut:bool) (r e:Z) (s:st) : Prop :=
  s_index s <= len src /\ e + 1 < s_index s /\ s_eol s = e /\ s_row s = r /\ s_ifull s = false /\
  GoodL (fun _ => r) (s_inds s) (s_vals s) /\
  ((s_vfull s = true /\ 0 <= s_vfc s < ncols /\ bud (s_vfc s) <= len (CB rows (s_vfc s)))
   \/ (s_vfull s = false /\ s_index s = len src /\ cut = true)).

Lemma run_cells_g r : 0 <= r < nrows -> r + 1 <= maxrow -> forall cells c i e inds vals l cut,
  cells <> [] -> 0 <= c -> c + len cells = ncols -> 0 <= i -> e < i ->
  suf src i = l -> R cut cells l ->
  (forall j, 0 <= j < len cells -> snd (nthd (false, []) cells j) = cell_text rows r (c + j)) ->
  GoodL (fun x => if x <? c then r + 1 else r) inds vals ->
  (cut = false /\ exists n s_pre inds' vals',
     runn n (cstate i e c r inds vals) s_pre /\
     step s_pre = Ok (cstate_f (r + 1 =? maxrow) (i + len (render_row cells)) (i + len (render_row cells) - 1) 0 (r + 1) inds' vals') /\
     GoodL (fun _ => r + 1) inds' vals')
  \/ (exists s, reaches (cstate i e c r inds vals) s /\ HaltR cut r e s).
Proof.
  intros Hr Hrm. assert (Er : (0 <=? r) = true) by (apply Z.leb_le; lia).
  assert (Er2 : (r <? 0) = false) by (apply Z.ltb_ge; lia).
  induction cells as [|cl cells IH]; intros c i e inds vals l cut Hne Hc Hlen Hi Hei H HR Htxt HG; [contradiction|].
  assert (Htc : snd cl = cell_text rows r c).
  { specialize (Htxt 0). rewrite Z.add_0_r in Htxt. apply Htxt. rewrite len_cons. pose proof (len_nonneg cells). lia. }
  assert (Hcn : 0 <= c < ncols) by (rewrite len_cons in Hlen; pose proof (len_nonneg cells); lia).
  assert (Hfc : (if c <? c then r + 1 else r) = r) by (rewrite Z.ltb_irrefl; reflexivity).
  destruct HG as (Hsh & Hlv & HGc). pose proof (HGc c Hcn) as (_ & Hbd & Hk & _). rewrite Hfc in Hbd, Hk.
  assert (HG : GoodL (fun x => if x <? c then r + 1 else r) inds vals) by (split; [exact Hsh|split; [exact Hlv|exact HGc]]).
  assert (Hcs : I2 inds c r = P rows c r) by (apply Hk; lia).
  pose proof (P_nonneg rows c r) as Hpn. pose proof (offs_nonneg1 c ltac:(lia)) as Hon.
  pose proof (offs_mono1 (c + 1) ncols ltac:(lia) ltac:(lia) ltac:(lia)) as Hm.
  pose proof (len_nonneg (render_cell cl)) as Hl.
  assert (HLb : nthZ offs c + bud c <= V) by (unfold bud; lia).
  (* the possible outcomes of this cell *)
  assert (Hcell : forall cut', C cut' cl l ->
            outc e c r (-1) (P rows c r) i (nthZ offs c) (bud c) inds cut'
                 (Sv e c r (-1) (P rows c r) i (nthZ offs c) (bud c) inds i false false 0 vals) 0 vals (snd cl) (i + len (render_cell cl))).
  { intros cut' HC. exact (run_cell_g e c r (-1) (P rows c r) i (nthZ offs c) (bud c) V inds (proj1 Hr) Hon Hpn HLb cut' cl i vals l
                             eq_refl Hi H HC Hbd Hlv). }
  assert (Est : Sv e c r (-1) (P rows c r) i (nthZ offs c) (bud c) inds i false false 0 vals = cstate i e c r inds vals).
  { unfold Sv, S0, CsvRows.cstate, bud. rewrite Hcs. reflexivity. }
  rewrite Est in Hcell.
  (* a stop inside the cell *)
  assert (Hstop : forall cut' s, (cut' = true -> cut = true) -> reaches (cstate i e c r inds vals) s ->
            cstop e c r (-1) (P rows c r) i (nthZ offs c) (bud c) inds cut' vals 0 (snd cl) s -> HaltR cut r e s).
  { intros cut' s Hcc Rs (idx & esc & cand & k & vf & tp & tq & Et & Hle & Es & Hv).
    pose proof (reaches_index _ _ Rs) as Hidx. unfold CsvRows.cstate in Hidx. cbn [s_index] in Hidx.
    rewrite Z.add_0_r in Hle, Es. subst s. cbn [s_index s_eol s_row s_ifull s_vfull s_vfc s_inds s_vals] in *.
    assert (HGw : GoodL (fun _ => r) inds (wrs vals (nthZ offs c + P rows c r) tp)).
    { apply (GoodL_drop c r); [lia|]. apply (GoodL_write _ inds vals c r tp HG Hcn Hfc). lia. }
    assert (Hlt : len tp <= len (cell_text rows r c)).
    { rewrite <- Htc, Et, len_app. pose proof (len_nonneg tq). lia. }
    unfold HaltR. cbn [s_index s_eol s_row s_ifull s_vfull s_vfc s_inds s_vals].
    destruct vf.
    - destruct Hv as (Hv1 & Hv2). split; [exact Hv1|]. split; [lia|]. do 3 (split; [reflexivity|]). split; [exact HGw|].
      left. split; [reflexivity|]. split; [exact Hcn|].
      pose proof (P_succ rows c r Hr) as Hps. pose proof (P_le rows c (r + 1) ltac:(unfold nrows in Hr; lia)) as Hple. lia.
    - destruct Hv as (Hv1 & Hv2). split; [lia|]. split; [lia|]. do 3 (split; [reflexivity|]). split; [exact HGw|].
      right. split; [reflexivity|]. split; [exact Hv1|apply Hcc; exact Hv2]. }
  destruct (R_cons cut cl cells l HR) as [(Hcut & HC)|[(Hcells & Hcut & rest & El & Hn)|(Hmore & l'' & El & Hnw & Hl'')]].
  - (* the window ends inside this cell *)
    right. destruct (Hcell true HC) as [(Hc0 & _)|(s & Rs & Hst)]; [discriminate|].
    exists s. split; [exact Rs|]. apply (Hstop true s); auto.
  - (* last cell of a complete record *)
    subst cells cut.
    assert (HC : C false cl l) by (unfold C; exists NL, rest; auto).
    destruct (Hcell false HC) as [(_ & Hfit & n & Rn)|(s & Rs & Hst)].
    + left. split; [reflexivity|]. rewrite Z.add_0_l, !Z.add_0_r in *.
      pose proof (GoodL_cell _ inds vals c r HG Hcn Hfc Hr ltac:(unfold w; lia) ltac:(rewrite <- Htc; lia)) as HG1.
      rewrite El in H. pose proof (suf_app_len src i _ _ Hi H) as Hs.
      replace (len [cl]) with 1 in Hlen by reflexivity.
      exists n. eexists. exists (put2 inds c (r + 1) (P rows c r + len (cell_text rows r c))),
                                (wrs vals (nthZ offs c + P rows c r) (cell_text rows r c)).
      split; [exact Rn|]. split.
      * unfold Sv, S0. rewrite (step_nl src offs maxrow ncols Hoffs (i + len (render_cell cl)) e c r (-1) (len (snd cl)) (P rows c r) i
                           (nthZ offs c) (bud c) inds _ rest); try assumption; try lia.
        rewrite Er. cbv zeta. unfold CsvPrefix.cstate_f. cbn [render_row].
        replace (len (render_cell cl ++ [NL])) with (len (render_cell cl) + 1) by (rewrite len_app; reflexivity).
        rewrite Htc. replace (0 + 1) with 1 by lia.
        destruct (r + 1 =? maxrow); f_equal; f_equal; lia.
      * eapply GoodL_ext; [|exact HG1]. intros x Hx. cbv beta.
        destruct (x =? c) eqn:E1; [reflexivity|]. apply Z.eqb_neq in E1.
        destruct (x <? c) eqn:E2; [reflexivity|]. apply Z.ltb_ge in E2. lia.
    + right. exists s. split; [exact Rs|]. apply (Hstop false s); auto; discriminate.
  - (* a cell followed by a separator *)
    assert (HC : C false cl l) by (unfold C; exists SEP, l''; auto).
    assert (Hlm : len (cl :: cells) = len cells + 1) by apply len_cons.
    assert (Hlm0 : 1 <= len cells) by (destruct cells; [contradiction|rewrite len_cons; pose proof (len_nonneg cells); lia]).
    rewrite Hlm in Hlen.
    destruct (Hcell false HC) as [(_ & Hfit & n & Rn)|(s & Rs & Hst)].
    + rewrite Z.add_0_l, !Z.add_0_r in *.
      pose proof (GoodL_cell _ inds vals c r HG Hcn Hfc Hr ltac:(unfold w; lia) ltac:(rewrite <- Htc; lia)) as HG1.
      rewrite El in H. pose proof (suf_app_len src i _ _ Hi H) as Hs.
      pose proof (step_sep src offs maxrow ncols Hoffs (i + len (render_cell cl)) e c r (-1) (len (snd cl)) (P rows c r) i
                    (nthZ offs c) (bud c) inds (wrs vals (nthZ offs c + P rows c r) (snd cl))
                    l'' ltac:(lia) Hs Hnw Hsh Hc ltac:(lia) ltac:(lia) ltac:(unfold w; lia)) as Hst.
      rewrite Er, Er2 in Hst. cbv zeta in Hst. rewrite Htc in Hst.
      set (inds1 := put2 inds c (r + 1) (P rows c r + len (cell_text rows r c))) in *.
      set (vals1 := wrs vals (nthZ offs c + P rows c r) (cell_text rows r c)) in *.
      destruct (suf_cons src (i + len (render_cell cl)) SEP _ ltac:(lia) Hs) as (Hlt & _ & Hs2 & _).
      assert (HG2 : GoodL (fun x => if x <? c + 1 then r + 1 else r) inds1 vals1).
      { eapply GoodL_ext; [|exact HG1]. intros x Hx. cbv beta. apply lt_succ_fun'. }
      assert (Hst' : step (Sv e c r (-1) (P rows c r) i (nthZ offs c) (bud c) inds (i + len (render_cell cl)) false false (len (snd cl))
                              (wrs vals (nthZ offs c + P rows c r) (snd cl))) =
                     Ok (cstate (i + len (render_cell cl) + 1) e (c + 1) r inds1 vals1)).
      { unfold Sv, S0. rewrite Htc. fold vals1. rewrite Hst. unfold CsvRows.cstate.
        replace (c + 1 + 1) with (c + 2) by lia. reflexivity. }
      assert (Erow : render_row (cl :: cells) = render_cell cl ++ SEP :: render_row cells).
      { destruct cells; [contradiction|reflexivity]. }
      destruct Hl'' as [(El'' & Hcut)|HR'].
      * (* the separator is the last byte of the window *)
        subst l''. apply suf_nil_iff in Hs2; try lia. right.
        exists (cstate (i + len (render_cell cl) + 1) e (c + 1) r inds1 vals1). split.
        -- eapply reaches_runn; [exact Rn|]. apply reaches_step. exact Hst'.
        -- unfold HaltR, CsvRows.cstate. cbn [s_index s_eol s_row s_ifull s_vfull s_vfc s_inds s_vals].
           split; [lia|]. split; [lia|]. do 3 (split; [reflexivity|]). split; [apply (GoodL_drop (c + 1) r); [lia|exact HG2]|].
           right. split; [reflexivity|]. split; [lia|exact Hcut].
      * assert (Hl''ne : l'' <> []).
        { intros ->. unfold R in HR'. destruct cut; [destruct HR' as (HH & _); contradiction|].
          destruct HR' as (rest & E & _). symmetry in E. apply app_eq_nil in E. destruct E as (E & _).
          apply (render_row_nonnil cells E). }
        assert (Hn1 : noexit src (cstate (i + len (render_cell cl) + 1) e (c + 1) r inds1 vals1)).
        { unfold noexit, CsvRows.cstate. cbn [s_index s_ifull s_vfull]. destruct l'' as [|z l3]; [contradiction|].
          destruct (suf_cons src (i + len (render_cell cl) + 1) _ _ ltac:(lia) Hs2) as (Hlt2 & _). repeat split; lia. }
        destruct (IH (c + 1) (i + len (render_cell cl) + 1) e inds1 vals1 l'' cut Hmore ltac:(lia) ltac:(lia) ltac:(lia) ltac:(lia) Hs2 HR')
          as [(Hcut & n2 & s_pre & inds' & vals' & R2 & Hfin & HG3)|(s & Rs & Hh)].
        { intros j Hj. specialize (Htxt (j + 1)). rewrite Hlm in Htxt. specialize (Htxt ltac:(lia)).
          rewrite nthd_cons_succ in Htxt by lia. rewrite Htxt. f_equal. lia. }
        { exact HG2. }
        -- left. split; [exact Hcut|]. exists (n + (1 + n2))%nat, s_pre, inds', vals'. split; [|split].
           ++ eapply runn_trans; [exact Rn|]. eapply runn_trans; [|exact R2]. apply runn_one; [exact Hst'|exact Hn1].
           ++ rewrite Hfin. rewrite Erow, len_app, len_cons. f_equal. f_equal; lia.
           ++ exact HG3.
        -- right. exists s. split; [|exact Hh].
           eapply reaches_runn; [exact Rn|]. eapply reaches_cons; [exact Hst'|exact Hn1|exact Rs].
    + right. exists s. split; [exact Rs|]. apply (Hstop false s); auto; discriminate.
Qed.

(* how a call ends: r records are committed, the last of them ends at byte e *)
Definition Fin (r e:Z) (s:st) : Prop :=
  s_index s <= len src /\ stops src s = true /\ s_eol s = e /\ s_row s = r /\ r <= maxrow /\
  GoodL (fun _ => r) (s_inds s) (s_vals s) /\
  ((s_vfull s = true /\ s_ifull s = false /\ 0 <= s_vfc s < ncols /\ bud (s_vfc s) <= len (CB rows (s_vfc s)) /\ e + 1 < len src)
   \/ (s_vfull s = false /\ s_ifull s = true /\ r = maxrow)
   \/ (s_vfull s = false /\ s_ifull s = false /\ s_index s = len src)).

Lemma HaltR_Fin cut r e s : r < maxrow -> HaltR cut r e s -> Fin r e s.
Proof.
  intros Hr (H1 & H2 & H3 & H4 & H5 & H6 & H7). unfold Fin, stops.
  split; [exact H1|]. split.
  - destruct H7 as [(Hv & _)|(_ & Hi & _)]; [rewrite Hv; apply orb_true_r|rewrite Hi, Z.eqb_refl; reflexivity].
  - split; [exact H3|]. split; [exact H4|]. split; [lia|]. split; [exact H6|].
    destruct H7 as [(Hv & Hc & Hb)|(Hv & Hi & _)].
    + left. split; [exact Hv|]. split; [exact H5|]. split; [exact Hc|]. split; [exact Hb|lia].
    + right. right. auto.
Qed.

(* the window cuts record k of the table *)
Definition cutp (k:nat) (p:list Z) : Prop :=
  p = [] \/ ((k < length rows)%nat /\ exists q, q <> [] /\ render_row (nth k rows []) = p ++ q).

Lemma nth_rect' k : (k < length rows)%nat -> len (nth k rows []) = ncols.
Proof. intros H. rewrite Forall_forall in Hrect. apply Hrect. apply nth_In. exact H. Qed.

Lemma nth_nonnil k : (k < length rows)%nat -> nth k rows [] <> [].
Proof. intros H E. pose proof (nth_rect' k H) as Hl. rewrite E in Hl. unfold len in Hl; cbn in Hl; lia. Qed.

Lemma nows_cutp k p : cutp k p -> nows p.
Proof.
  intros [->|(Hk & q & _ & E)]; [exact I|]. apply (nows_app_l p q). rewrite <- E. apply nows_row. apply nth_nonnil. exact Hk.
Qed.

Lemma skipn_nth_cons {A} (d:A) r (l:list A) : (r < length l)%nat -> skipn r l = nth r l d :: skipn (S r) l.
Proof.
  revert l. induction r as [|r IH]; intros l H; destruct l as [|x l]; cbn in H; try lia; [reflexivity|].
  cbn [skipn nth]. apply IH. lia.
Qed.

Lemma rect_firstn_skipn n r : Forall (fun rw : list cell => len rw = ncols) (firstn n (skipn r rows)).
Proof.
  apply Forall_firstn_. clear -Hrect. revert rows Hrect. induction r as [|r IH]; intros l H; [exact H|].
  destruct l as [|x l]; [constructor|]. cbn [skipn]. apply IH. inversion H; assumption.
Qed.

Lemma nows_file_app' rws rest : Forall (fun rw : list cell => len rw = ncols) rws -> nows rest -> nows (render_file rws ++ rest).
Proof.
  intros H Hn. destruct rws as [|r0 rws]; [exact Hn|]. rewrite render_file_cons, <- app_assoc.
  apply nows_render_row. pose proof (Forall_inv H) as Hr. cbv beta in Hr. intros E. rewrite E in Hr. unfold len in Hr; cbn in Hr; lia.
Qed.

Lemma run_rows_g : forall (n r:nat) i e inds vals p,
  (r + n <= length rows)%nat -> Z.of_nat r < maxrow -> 0 <= i -> e = i - 1 ->
  suf src i = render_file (firstn n (skipn r rows)) ++ p -> (n <> 0%nat \/ p <> []) -> cutp (r + n) p ->
  GoodL (fun _ => Z.of_nat r) inds vals ->
  exists (j:nat) s, (j <= n)%nat /\ reaches (cstate i e 0 (Z.of_nat r) inds vals) s /\
    Fin (Z.of_nat (r + j)) (i + len (render_file (firstn j (skipn r rows))) - 1) s /\
    (s_vfull s = false -> s_ifull s = false -> j = n).
Proof.
  induction n as [|n IH]; intros r i e inds vals p Hrn Hrm Hi He H Hne Hcut HG.
  - (* only the cut record is left *)
    destruct Hne as [Hne|Hne]; [contradiction|]. rewrite Nat.add_0_r in Hcut.
    destruct Hcut as [->|(Hk & q & Hq & Eq)]; [contradiction|].
    cbn [firstn render_file map concat app] in H.
    destruct (run_cells_g (Z.of_nat r) ltac:(unfold nrows, len; lia) ltac:(lia) (nth r rows []) 0 i e inds vals p true
                (nth_nonnil r Hk) ltac:(lia) ltac:(rewrite nth_rect' by exact Hk; lia) Hi ltac:(lia) H)
      as [(Hc & _)|(s & Rs & Hh)].
    { unfold R. split; [exact Hne|]. exists q. auto. }
    { intros j Hj. rewrite cell_text_eq. rewrite Z.add_0_l, Nat2Z.id. reflexivity. }
    { eapply GoodL_ext; [|exact HG]. intros x Hx. cbv beta. destruct (x <? 0) eqn:E0; [apply Z.ltb_lt in E0; lia|reflexivity]. }
    { discriminate. }
    exists 0%nat, s. split; [lia|]. split; [exact Rs|]. rewrite Nat.add_0_r. cbn [firstn render_file map concat].
    replace (len (@nil Z)) with 0 by reflexivity. replace (i + 0 - 1) with e by lia.
    split; [apply (HaltR_Fin true); [lia|exact Hh]|]. intros; reflexivity.
  - assert (Hr : (r < length rows)%nat) by lia.
    set (row := nth r rows []).
    assert (Esk : skipn r rows = row :: skipn (S r) rows) by (apply skipn_nth_cons; exact Hr).
    rewrite Esk in H. cbn [firstn] in H. rewrite render_file_cons, <- app_assoc in H.
    assert (Hnw : nows (render_file (firstn n (skipn (S r) rows)) ++ p)).
    { apply nows_file_app'; [apply rect_firstn_skipn|]. eapply nows_cutp. exact Hcut. }
    destruct (run_cells_g (Z.of_nat r) ltac:(unfold nrows, len; lia) ltac:(lia) row 0 i e inds vals _ false
                (nth_nonnil r Hr) ltac:(lia) ltac:(unfold row; rewrite nth_rect' by exact Hr; lia) Hi ltac:(lia) H)
      as [(_ & n1 & s_pre & inds' & vals' & R1 & Hfin & HG')|(s & Rs & Hh)].
    { unfold R. eexists. split; [reflexivity|exact Hnw]. }
    { intros j Hj. rewrite cell_text_eq. rewrite Z.add_0_l, Nat2Z.id. reflexivity. }
    { eapply GoodL_ext; [|exact HG]. intros x Hx. cbv beta. destruct (x <? 0) eqn:E0; [apply Z.ltb_lt in E0; lia|reflexivity]. }
    + (* record r is committed *)
      pose proof (suf_app_len src i _ _ Hi H) as Hs. pose proof (len_nonneg (render_row row)) as Hlr.
      set (i1 := i + len (render_row row)) in *.
      assert (Hi1 : i1 <= len src).
      { assert (Hnn : render_row row ++ render_file (firstn n (skipn (S r) rows)) ++ p <> []).
        { intros E0. apply app_eq_nil in E0. destruct E0 as (E0 & _). apply (render_row_nonnil row E0). }
        pose proof (suf_full src i _ Hi H Hnn) as Hfull. rewrite len_app in Hfull.
        pose proof (len_nonneg (render_file (firstn n (skipn (S r) rows)) ++ p)). unfold i1. lia. }
      assert (Efs : forall j, firstn (S j) (skipn r rows) = row :: firstn j (skipn (S r) rows)) by (intros j; rewrite Esk; reflexivity).
      destruct (Z.of_nat r + 1 =? maxrow) eqn:Efl.
      * (* the index buffer is full *)
        apply Z.eqb_eq in Efl. eexists 1%nat, _. split; [lia|]. split; [exists n1, s_pre; split; [exact R1|exact Hfin]|].
        rewrite Efs. cbn [firstn]. rewrite render_file_cons. cbn [render_file map concat]. rewrite app_nil_r. fold i1.
        split.
        -- unfold Fin, stops, CsvPrefix.cstate_f. cbn [s_index s_eol s_row s_ifull s_vfull s_vfc s_inds s_vals].
           split; [exact Hi1|]. split; [rewrite orb_true_r; reflexivity|]. split; [reflexivity|]. split; [lia|]. split; [lia|].
           split; [replace (Z.of_nat (r + 1)) with (Z.of_nat r + 1) by lia; exact HG'|]. right. left. split; [reflexivity|]. split; [reflexivity|lia].
        -- unfold CsvPrefix.cstate_f. cbn [s_ifull]. discriminate.
      * apply Z.eqb_neq in Efl.
        change (cstate_f false i1 (i1 - 1) 0 (Z.of_nat r + 1) inds' vals') with (cstate i1 (i1 - 1) 0 (Z.of_nat r + 1) inds' vals') in Hfin.
        replace (Z.of_nat r + 1) with (Z.of_nat (S r)) in Hfin, HG' by lia.
        assert (Hcase : (n = 0%nat /\ p = []) \/ (n <> 0%nat \/ p <> [])).
        { destruct n; [|right; left; discriminate]. destruct p; [left; auto|right; right; discriminate]. }
        destruct Hcase as [(En & Ep)|Hne2].
        -- (* the window ends exactly here *)
           subst n p. cbn [firstn render_file map concat app] in Hs. apply suf_nil_iff in Hs; try lia.
           eexists 1%nat, _. split; [lia|]. split; [exists n1, s_pre; split; [exact R1|exact Hfin]|].
           rewrite Efs. cbn [firstn]. rewrite render_file_cons. cbn [render_file map concat]. rewrite app_nil_r. fold i1.
           split; [|intros; reflexivity].
           unfold Fin, stops, CsvRows.cstate. cbn [s_index s_eol s_row s_ifull s_vfull s_vfc s_inds s_vals].
           split; [lia|]. split; [rewrite Hs, Z.eqb_refl; reflexivity|]. split; [reflexivity|]. split; [lia|]. split; [lia|].
           split; [replace (Z.of_nat (r + 1)) with (Z.of_nat (S r)) by lia; exact HG'|]. right. right. auto.
        -- assert (Hn1 : noexit src (cstate i1 (i1 - 1) 0 (Z.of_nat (S r)) inds' vals')).
           { unfold noexit, CsvRows.cstate. cbn [s_index s_ifull s_vfull].
             destruct (render_file (firstn n (skipn (S r) rows)) ++ p) as [|x1 t1] eqn:E1.
             { exfalso. apply app_eq_nil in E1. destruct E1 as (E1 & E2). destruct Hne2 as [Hn0|Hp0]; [|contradiction].
               destruct n; [contradiction|]. rewrite (skipn_nth_cons [] (S r) rows) in E1 by lia. cbn [firstn] in E1.
               rewrite render_file_cons in E1. apply app_eq_nil in E1. destruct E1 as (E1 & _). apply (render_row_nonnil _ E1). }
             destruct (suf_cons src i1 x1 t1 ltac:(lia) Hs) as (Hlt & _). repeat split; lia. }
           destruct (IH (S r) i1 (i1 - 1) inds' vals' p ltac:(lia) ltac:(lia) ltac:(lia) eq_refl Hs Hne2) as (j & s & Hj & Rs & HF & Hall).
           { replace (S r + n)%nat with (r + S n)%nat by lia. exact Hcut. }
           { exact HG'. }
           exists (S j), s. split; [lia|]. split.
           ++ eapply reaches_trans; [exists n1, s_pre; split; [exact R1|exact Hfin]|exact Hn1|exact Rs].
           ++ rewrite Efs, render_file_cons, len_app. replace (r + S j)%nat with (S r + j)%nat by lia.
              replace (i + (len (render_row row) + len (render_file (firstn j (skipn (S r) rows)))) - 1)
                with (i1 + len (render_file (firstn j (skipn (S r) rows))) - 1) by (unfold i1; lia).
              split; [exact HF|]. intros Hv Hif. f_equal. apply Hall; assumption.
    + (* values full inside record r *)
      exists 0%nat, s. split; [lia|]. split; [exact Rs|]. rewrite Nat.add_0_r. cbn [firstn render_file map concat].
      replace (len (@nil Z)) with 0 by reflexivity. replace (i + 0 - 1) with e by lia.
      split; [apply (HaltR_Fin false); [lia|exact Hh]|].
      intros Hv. destruct Hh as (_ & _ & _ & _ & _ & _ & [(Hv2 & _)|(_ & _ & Hc)]); [congruence|discriminate].
Qed.

(* what a kernel call returns, whatever the budgets: j records committed, and why it stopped *)
Definition KOut (k:nat) (base:Z) (out:fout) : Prop :=
  exists j:nat, (j <= k)%nat /\ f_rows out = Z.of_nat j /\ Z.of_nat j <= maxrow /\
    f_next out = base + len (render_file (firstn j rows)) /\
    GoodL (fun _ => Z.of_nat j) (f_inds out) (f_vals out) /\
    ((f_vfull out = true /\ f_ifull out = false /\ 0 <= f_vfc out < ncols /\
      bud (f_vfc out) <= len (CB rows (f_vfc out)) /\ f_next out < len src)
     \/ (f_vfull out = false /\ f_ifull out = true /\ Z.of_nat j = maxrow)
     \/ (f_vfull out = false /\ f_ifull out = false /\ j = k)).

Lemma Fin_KOut k j base s : (j <= k)%nat -> Fin (Z.of_nat j) (base + len (render_file (firstn j rows)) - 1) s ->
  (s_vfull s = false -> s_ifull s = false -> j = k) -> KOut k base (out_of s).
Proof.
  intros Hj (H1 & H2 & H3 & H4 & H5 & H6 & H7) Hall. exists j. unfold out_of.
  cbn [f_next f_rows f_ifull f_vfull f_vfc f_inds f_vals]. split; [exact Hj|]. split; [exact H4|]. split; [exact H5|].
  split; [rewrite H3; lia|]. split; [exact H6|].
  destruct H7 as [(A & B & C0 & D & E)|[(A & B & C0)|(A & B & C0)]].
  - left. rewrite H3. repeat split; try assumption; lia.
  - right. left. auto.
  - right. right. auto.
Qed.

Lemma skip_ws0_stay' n i x t : 0 <= i -> suf src i = x :: t -> x <> WS -> skip_ws0 n src i = Ok i.
Proof.
  intros Hi H Hx. destruct (suf_cons src i x t Hi H) as (Hlt & _ & _ & Hg).
  assert (E : (i <? len src) = true) by (apply Z.ltb_lt; lia).
  assert (Ex : (x =? WS) = false) by (apply Z.eqb_neq; exact Hx).
  destruct n; cbn [skip_ws0]; rewrite E, Hg; cbn [bind]; rewrite Ex; reflexivity.
Qed.

Lemma file_cut_nonnil k p : (k <= length rows)%nat -> (k <> 0%nat \/ p <> []) -> render_file (firstn k rows) ++ p <> [].
Proof.
  intros Hk Hne E. apply app_eq_nil in E. destruct E as (E1 & E2). destruct Hne as [Hne|Hne]; [|contradiction].
  destruct k; [contradiction|]. destruct rows as [|r0 rows']; [cbn in Hk; lia|].
  cbn [firstn] in E1. rewrite render_file_cons in E1. apply app_eq_nil in E1. destruct E1 as (E1 & _). apply (render_row_nonnil _ E1).
Qed.

(* the kernel re-entered (or entered without header) at byte i0, the first byte of a record *)
Theorem kernel_gen_nohdr (k:nat) i0 inds vals p :
  (k <= length rows)%nat -> 0 <= i0 <= len src ->
  suf src i0 = render_file (firstn k rows) ++ p -> cutp k p ->
  shape ncols w inds -> (forall c, 0 <= c < ncols -> I2 inds c 0 = 0) -> len vals = V ->
  exists out, fast_csv_reader (fsm_fuel src i0) src i0 inds vals offs false = Ok out /\ KOut k i0 out.
Proof.
  intros Hk Hi0 H Hcut Hsh H0 Hv.
  assert (HG0 : GoodL (fun _ => 0) inds vals) by (apply GoodL_init; assumption).
  unfold fast_csv_reader, fsm_init. cbn [Z.leb Z.compare bind].
  rewrite (get2_ok 9 ncols w) by (try assumption; unfold w; lia). cbn [bind].
  replace (fst inds - 1) with maxrow by (destruct Hsh as (Hf & _); unfold w in Hf; lia).
  assert (Hcase : (k = 0%nat /\ p = []) \/ (k <> 0%nat \/ p <> [])).
  { destruct k; [|right; left; discriminate]. destruct p; [left; auto|right; right; discriminate]. }
  destruct Hcase as [(Ek & Ep)|Hne].
  - subst k p. cbn [firstn render_file map concat app] in *.
    assert (Ei : i0 = len src) by (apply suf_nil_iff in H; lia).
    assert (Esk : skip_ws0 (length src) src i0 = Ok i0).
    { destruct (length src); cbn [skip_ws0]; (destruct (i0 <? len src) eqn:E; [apply Z.ltb_lt in E; lia|reflexivity]). }
    rewrite Esk. cbn [bind]. rewrite getZ_ok by lia. cbn [bind s_index]. rewrite Ei, Z.eqb_refl.
    eexists. split; [reflexivity|]. exists 0%nat. cbn [f_next f_rows f_ifull f_vfull f_inds f_vals s_row firstn render_file map concat].
    replace (len (@nil Z)) with 0 by reflexivity.
    split; [lia|]. split; [reflexivity|]. split; [cbn; lia|]. split; [lia|]. split; [exact HG0|]. right. right. auto.
  - pose proof (nows_file_app' (firstn k rows) p (Forall_firstn_ _ k rows Hrect) (nows_cutp k p Hcut)) as Hnw.
    pose proof (file_cut_nonnil k p Hk Hne) as Hnn.
    destruct (render_file (firstn k rows) ++ p) as [|x0 t0] eqn:E0; [contradiction|].
    cbn [nows] in Hnw. destruct (suf_cons src i0 x0 t0 ltac:(lia) H) as (Hlt0 & _).
    rewrite (skip_ws0_stay' _ i0 x0 t0) by (try lia; assumption). cbn [bind].
    rewrite getZ_ok by lia. cbn [bind s_index].
    destruct (i0 =? len src) eqn:El; [apply Z.eqb_eq in El; lia|].
    rewrite <- E0 in H.
    destruct (run_rows_g k 0 i0 (i0 - 1) inds vals p ltac:(lia) ltac:(lia) ltac:(lia) eq_refl H Hne Hcut HG0) as (j & s & Hj & R & HF & Hall).
    assert (Est : mkSt i0 (i0 - 1) 0 0 (-1) false false 0 (I2 inds 0 0) i0 false false 0 (nthZ offs 1) inds vals =
                  cstate i0 (i0 - 1) 0 0 inds vals).
    { unfold CsvRows.cstate. rewrite Hoffs0. replace (0 + 1) with 1 by lia. f_equal. lia. }
    rewrite Est. cbn [Nat.add skipn] in HF. change (Z.of_nat 0) with 0 in R. pose proof HF as (Hle & Hstop & _).
    rewrite (reaches_loop src offs maxrow _ s i0 R Hstop Hle) by (unfold CsvRows.cstate; cbn [s_index]; lia).
    eexists. split; [reflexivity|]. apply (Fin_KOut k j i0 s Hj HF Hall).
Qed.

(* the first call: header line, then records *)
Theorem kernel_gen_hdr hdr (k:nat) inds vals p :
  (k <= length rows)%nat -> len hdr = ncols ->
  src = render_row hdr ++ render_file (firstn k rows) ++ p -> cutp k p ->
  shape ncols w inds -> (forall c, 0 <= c < ncols -> I2 inds c 0 = 0) -> len vals = V ->
  exists out, fast_csv_reader (fsm_fuel src 0) src 0 inds vals offs true = Ok out /\ KOut k (len (render_row hdr)) out.
Proof.
  intros Hk Hhdr Hsrc Hcut Hsh H0 Hv.
  assert (HG0 : GoodL (fun _ => 0) inds vals) by (apply GoodL_init; assumption).
  assert (Hhdr_ne : hdr <> []) by (intros ->; unfold len in Hhdr; cbn in Hhdr; lia).
  assert (Hsuf : suf src 0 = render_row hdr ++ (render_file (firstn k rows) ++ p)) by (rewrite suf_0; exact Hsrc).
  pose proof (nows_file_app' (firstn k rows) p (Forall_firstn_ _ k rows Hrect) (nows_cutp k p Hcut)) as Hnw.
  pose proof (nows_render_row hdr (render_file (firstn k rows) ++ p) Hhdr_ne) as Hnw0.
  destruct (render_row hdr ++ render_file (firstn k rows) ++ p) as [|x0 t0] eqn:E0.
  { destruct (render_row_nonnil hdr). destruct (render_row hdr); [reflexivity|discriminate]. }
  cbn [nows] in Hnw0.
  destruct (suf_cons src 0 x0 t0 ltac:(lia) Hsuf) as (Hlt0 & _).
  rewrite <- E0 in Hsuf.
  unfold fast_csv_reader, fsm_init. cbn [Z.leb Z.compare bind].
  replace (fst inds - 1) with maxrow by (destruct Hsh as (Hf & _); unfold w in Hf; lia).
  rewrite (skip_ws0_stay' _ 0 x0 t0) by (try lia; try assumption; rewrite Hsuf, E0; reflexivity). cbn [bind].
  rewrite getZ_ok by lia. cbn [bind s_index].
  destruct (0 =? len src) eqn:El; [apply Z.eqb_eq in El; lia|].
  destruct (run_header_cells src offs maxrow ncols Hoffs Hncols Hmaxrow inds vals Hsh hdr 0 0 (0 - 1) 0 0 (nthZ offs 1)
              (render_file (firstn k rows) ++ p) Hhdr_ne ltac:(lia) ltac:(lia) ltac:(lia) Hsuf Hnw)
    as (n1 & s_pre1 & R1 & Hfin1).
  pose proof (len_nonneg (render_row hdr)) as Hlh. rewrite Z.add_0_l in Hfin1.
  set (i1 := len (render_row hdr)) in *.
  assert (Hrow0 : row0 offs inds vals i1 = cstate i1 (i1 - 1) 0 0 inds vals).
  { unfold row0, CsvRows.cstate. replace (0 + 1) with 1 by lia. reflexivity. }
  rewrite Hrow0 in Hfin1.
  pose proof (suf_app_len src 0 _ _ ltac:(lia) Hsuf) as Hs1. rewrite Z.add_0_l in Hs1. fold i1 in Hs1.
  assert (Hlsrc : len src = i1 + len (render_file (firstn k rows) ++ p)).
  { rewrite (suf_full src 0 _ ltac:(lia) Hsuf) by (rewrite E0; discriminate). rewrite len_app. unfold i1. lia. }
  assert (Hcase : (k = 0%nat /\ p = []) \/ (k <> 0%nat \/ p <> [])).
  { destruct k; [|right; left; discriminate]. destruct p; [left; auto|right; right; discriminate]. }
  assert (Hfinal : exists (j:nat) s, (j <= k)%nat /\
             reaches (mkSt 0 (0 - 1) 0 (-1) (-1) false false 0 0 0 false false 0 (nthZ offs 1) inds vals) s /\
             Fin (Z.of_nat j) (i1 + len (render_file (firstn j rows)) - 1) s /\ (s_vfull s = false -> s_ifull s = false -> j = k)).
  { destruct Hcase as [(Ek & Ep)|Hne].
    - subst k p. cbn [firstn render_file map concat app] in *.
      assert (Ei : i1 = len src) by (rewrite Hlsrc; replace (len (@nil Z)) with 0 by reflexivity; lia).
      exists 0%nat. eexists. split; [lia|]. split; [exists n1, s_pre1; split; [exact R1|exact Hfin1]|].
      cbn [firstn render_file map concat]. replace (len (@nil Z)) with 0 by reflexivity.
      split; [|intros; reflexivity].
      unfold Fin, stops, CsvRows.cstate. cbn [s_index s_eol s_row s_ifull s_vfull s_vfc s_inds s_vals].
      split; [lia|]. split; [rewrite Ei, Z.eqb_refl; reflexivity|]. split; [lia|]. split; [reflexivity|].
      split; [cbn; lia|]. split; [exact HG0|]. right. right. auto.
    - destruct (run_rows_g k 0 i1 (i1 - 1) inds vals p ltac:(lia) ltac:(lia) ltac:(lia) eq_refl Hs1 Hne Hcut HG0) as (j & s & Hj & R & HF & Hall).
      cbn [Nat.add skipn] in HF. change (Z.of_nat 0) with 0 in R.
      exists j, s. split; [exact Hj|]. split; [|split; [exact HF|exact Hall]].
      eapply reaches_trans; [exists n1, s_pre1; split; [exact R1|exact Hfin1]| |exact R].
      unfold noexit, CsvRows.cstate. cbn [s_index s_ifull s_vfull].
      pose proof (file_cut_nonnil k p Hk Hne) as Hnn.
      destruct (render_file (firstn k rows) ++ p) as [|x1 t1] eqn:E1; [contradiction|].
      destruct (suf_cons src i1 x1 t1 ltac:(lia) Hs1) as (Hlt & _). repeat split; lia. }
  destruct Hfinal as (j & s & Hj & R & HF & Hall). pose proof HF as (Hle & Hstop & _).
  rewrite (reaches_loop src offs maxrow _ s 0 R Hstop Hle) by (cbn [s_index]; lia).
  eexists. split; [reflexivity|]. apply (Fin_KOut k j i1 s Hj HF Hall).
Qed.

End DataG.

End Gen.

(* both entry modes in one statement *)
Theorem kernel_any_budget :
  forall (src offs : list Z) (maxrow ncols : Z),
  len offs = ncols + 1 -> 0 < ncols -> 0 < maxrow ->
  forall (V : Z) (rows : list (list cell)),
  nthZ offs 0 = 0 ->
  (forall c, 0 <= c < ncols -> nthZ offs c + 1 <= nthZ offs (c + 1)) ->
  nthZ offs ncols <= V ->
  Forall (fun rw : list cell => len rw = ncols) rows ->
  forall (hasHeader : bool) (hdr : list cell) (k : nat) (i0 : Z) (inds : arr2) (vals p : list Z),
  (k <= length rows)%nat -> 0 <= i0 <= len src ->
  (hasHeader = true -> i0 = 0 /\ len hdr = ncols) ->
  suf src i0 = (if hasHeader then render_row hdr else []) ++ render_file (firstn k rows) ++ p ->
  cutp rows k p ->
  shape ncols (maxrow + 1) inds -> (forall c, 0 <= c < ncols -> I2 inds c 0 = 0) -> len vals = V ->
  exists out, fast_csv_reader (fsm_fuel src i0) src i0 inds vals offs hasHeader = Ok out /\
    KOut src offs maxrow ncols V rows k (i0 + len (if hasHeader then render_row hdr else [])) out.
Proof.
  intros src offs maxrow ncols Hoffs Hncols Hmaxrow V rows Hoffs0 Hb1 HV Hrect hasHeader hdr k i0 inds vals p
         Hk Hi0 Hh Hsuf Hcut Hsh H0 Hv.
  destruct hasHeader.
  - destruct (Hh eq_refl) as (-> & Hhdr). rewrite suf_0 in Hsuf. rewrite Z.add_0_l.
    exact (kernel_gen_hdr src offs maxrow ncols Hoffs Hncols Hmaxrow V rows Hoffs0 Hb1 HV Hrect hdr k inds vals p
             Hk Hhdr Hsuf Hcut Hsh H0 Hv).
  - cbn [app] in Hsuf. replace (len (@nil Z)) with 0 by reflexivity. rewrite Z.add_0_r.
    exact (kernel_gen_nohdr src offs maxrow ncols Hoffs Hncols Hmaxrow V rows Hoffs0 Hb1 HV Hrect k i0 inds vals p
             Hk Hi0 Hsuf Hcut Hsh H0 Hv).
Qed.
