(* Proofs/CsvRows.v — the FSM on a rendered record, on a rendered file; the kernel round-trip *)
From Coq Require Import ZArith List Lia Bool.
From EV Require Import Res Arr Csv CsvSpec CsvBase CsvKernel CsvTable.
Import ListNotations.
Open Scope Z_scope.

(* ---- shape of rendered text ---------------------------------------------------------- *)
Lemma plain_of_noquote t : existsb special t = false -> forallb (fun b => negb (special b)) t = true.
Proof.
  induction t as [|b t IH]; cbn; [reflexivity|]. intros H. apply orb_false_elim in H. destruct H as (H1 & H2).
  rewrite H1, IH by assumption. reflexivity.
Qed.

Lemma nows_render_cell cl d rest : d = SEP \/ d = NL -> nows (render_cell cl ++ d :: rest).
Proof.
  intros Hd. unfold render_cell. destruct (fst cl || needs_quote (snd cl)) eqn:E.
  - cbn. unfold ESC, WS. lia.
  - apply orb_false_elim in E. destruct E as (_ & E). unfold needs_quote in E.
    apply orb_false_elim in E. destruct E as (_ & E). destruct (snd cl) as [|x t]; cbn.
    + destruct Hd as [-> | ->]; unfold SEP, NL, WS; lia.
    + apply Z.eqb_neq. exact E.
Qed.

Lemma render_row_split cl cls rest : exists d rest',
  render_row (cl :: cls) ++ rest = render_cell cl ++ d :: rest' /\ (d = SEP \/ d = NL).
Proof.
  destruct cls as [|c2 cls].
  - exists NL, rest. cbn [render_row]. rewrite <- app_assoc. auto.
  - exists SEP, (render_row (c2 :: cls) ++ rest). cbn [render_row]. rewrite <- app_assoc. auto.
Qed.

Lemma nows_render_row cells rest : cells <> [] -> nows (render_row cells ++ rest).
Proof.
  destruct cells as [|cl cls]; [contradiction|]. intros _.
  destruct (render_row_split cl cls rest) as (d & rest' & E & Hd). rewrite E. apply nows_render_cell. exact Hd.
Qed.

Lemma nows_render_file rws : Forall (fun r => r <> []) rws -> nows (render_file rws).
Proof.
  destruct rws as [|r rws]; [cbn; auto|]. intros H. inversion H; subst. unfold render_file. cbn [map concat].
  apply nows_render_row. assumption.
Qed.

Lemma render_row_nonnil cells : render_row cells <> [].
Proof.
  destruct cells as [|c [|c2 t]]; cbn; try discriminate.
  - destruct (render_cell c); discriminate.
  - destruct (render_cell c); discriminate.
Qed.

Lemma suf_full src i l : 0 <= i -> suf src i = l -> l <> [] -> len src = i + len l.
Proof.
  intros Hi H Hn. destruct (Z_le_gt_dec i (len src)) as [Hle|Hgt].
  - rewrite <- H. rewrite suf_len by lia. lia.
  - exfalso. apply Hn. rewrite <- H. unfold suf. apply skipn_all2. unfold len in Hgt. lia.
Qed.

Section Rows.
Variables (src offs : list Z) (maxrow ncols : Z).
Let w := maxrow + 1.
Hypothesis Hoffs : len offs = ncols + 1.
Hypothesis Hncols : 0 < ncols.
Hypothesis Hmaxrow : 0 < maxrow.

Notation runn := (runn src offs maxrow).
Notation step := (fsm_step src offs maxrow).

(* ---- one cell, from its first byte to its delimiter ------------------------------------ *)
Lemma run_cell e c r vfc cs coff cvc inds (cl:cell) i vals d rest :
  0 <= i -> suf src i = render_cell cl ++ d :: rest -> d = SEP \/ d = NL ->
  fits r cs coff cvc 0 vals (snd cl) ->
  exists n, runn n (S0 e c r vfc cs i coff cvc inds i false false 0 vals)
       (S0 e c r vfc cs i coff cvc inds (i + len (render_cell cl)) false false
           (if 0 <=? r then len (snd cl) else 0)
           (if 0 <=? r then wrs vals (coff + cs) (snd cl) else vals)).
Proof.
  intros Hi H Hd Hfit. unfold render_cell in *. destruct (fst cl || needs_quote (snd cl)) eqn:E.
  - (* quoted *)
    cbn [app] in H. rewrite <- app_assoc in H. cbn [app] in H.
    destruct (suf_cons src i ESC _ Hi H) as (_ & _ & Hs & _).
    exists (1 + (length (escape_quotes (snd cl)) + 1))%nat.
    eapply runn_trans.
    + apply runn_one.
      * unfold S0. apply (step_inner src offs maxrow i e c r vfc false false 0 cs i coff cvc inds vals ESC _ false true false Hi H).
        -- apply cl_open.
        -- cbn [andb]. discriminate.
      * cbn [andb]. destruct (escape_quotes (snd cl) ++ ESC :: d :: rest) as [|x0 t0] eqn:E2; [destruct (escape_quotes (snd cl)); discriminate|].
        apply (noexit_S0 src maxrow e c r vfc cs i coff cvc inds (i + 1) true false 0 vals x0 t0); [lia|exact Hs].
    + cbn [andb].
      pose proof (run_qbody src offs maxrow e c r vfc cs i coff cvc inds (snd cl) (i + 1) 0 vals d rest ltac:(lia) ltac:(lia) Hs Hd Hfit) as R.
      assert (Hl : i + len (ESC :: escape_quotes (snd cl) ++ [ESC]) = i + 1 + len (escape_quotes (snd cl)) + 1).
      { rewrite len_cons, len_app. unfold len at 2. cbn [length]. lia. }
      rewrite Hl. rewrite Z.add_0_r in R. rewrite !Z.add_0_l in R. exact R.
  - (* plain *)
    apply orb_false_elim in E. destruct E as (_ & E). unfold needs_quote in E.
    apply orb_false_elim in E. destruct E as (E & _).
    exists (length (snd cl)).
    pose proof (run_plain src offs maxrow e c r vfc cs i coff cvc inds (snd cl) i 0 vals (d :: rest) Hi ltac:(lia) H
                  ltac:(discriminate) (plain_of_noquote _ E) Hfit) as R.
    rewrite Z.add_0_r in R. rewrite !Z.add_0_l in R. exact R.
Qed.

(* ---- the header record: nothing is stored ---------------------------------------------- *)
Section Header.
Variables (inds : arr2) (vals : list Z).
Hypothesis Hshape : shape ncols w inds.

Definition row0 (i:Z) : st :=
  mkSt i (i - 1) 0 0 (-1) false false 0 (I2 inds 0 0) i false false (nthZ offs 0) (nthZ offs 1 - nthZ offs 0) inds vals.

Lemma run_header_cells : forall cells c i e cs coff cvc rest,
  cells <> [] -> 0 <= c -> c + len cells = ncols -> 0 <= i ->
  suf src i = render_row cells ++ rest -> nows rest ->
  exists n s_pre, runn n (mkSt i e c (-1) (-1) false false 0 cs i false false coff cvc inds vals) s_pre /\
    step s_pre = Ok (row0 (i + len (render_row cells))).
Proof.
  induction cells as [|cl cells IH]; intros c i e cs coff cvc rest Hne Hc Hlen Hi H Hn; [contradiction|].
  destruct cells as [|cl2 cells].
  - (* last cell of the header *)
    cbn [render_row] in *. rewrite <- app_assoc in H. cbn [app] in H.
    destruct (run_cell e c (-1) (-1) cs coff cvc inds cl i vals NL rest Hi H ltac:(auto)) as (n & R).
    { unfold fits. cbn. discriminate. }
    cbn [Z.leb Z.compare] in R.
    pose proof (suf_app_len src i _ _ Hi H) as Hs.
    pose proof (len_nonneg (render_cell cl)) as Hl.
    exists n. eexists. split; [exact R|].
    unfold S0. rewrite (step_nl src offs maxrow ncols Hoffs (i + len (render_cell cl)) e c (-1) (-1) 0 cs i coff cvc inds vals rest);
      try assumption; try lia.
    + cbn [Z.leb Z.compare]. cbv zeta. unfold row0.
      replace (len (render_cell cl ++ [NL])) with (len (render_cell cl) + 1) by (rewrite len_app; reflexivity).
      replace (-1 + 1) with 0 by lia.
      destruct (0 =? maxrow) eqn:E0; [apply Z.eqb_eq in E0; lia|].
      f_equal. f_equal; lia.
    + replace (len [cl]) with 1 in Hlen by reflexivity. lia.
  - (* a cell followed by a separator *)
    remember (cl2 :: cells) as more eqn:Em.
    assert (Hmore : more <> []) by (subst; discriminate).
    assert (Erow : render_row (cl :: more) = render_cell cl ++ SEP :: render_row more) by (subst more; reflexivity).
    rewrite Erow in *. rewrite <- app_assoc in H. cbn [app] in H.
    destruct (run_cell e c (-1) (-1) cs coff cvc inds cl i vals SEP (render_row more ++ rest) Hi H ltac:(auto)) as (n & R).
    { unfold fits. cbn. discriminate. }
    cbn [Z.leb Z.compare] in R.
    pose proof (suf_app_len src i _ _ Hi H) as Hs.
    pose proof (len_nonneg (render_cell cl)) as Hl.
    assert (Hlm : len (cl :: more) = len more + 1) by apply len_cons.
    assert (Hlm0 : 1 <= len more) by (rewrite Em, len_cons; pose proof (len_nonneg cells); lia).
    rewrite Hlm in Hlen.
    pose proof (step_sep src offs maxrow ncols Hoffs (i + len (render_cell cl)) e c (-1) (-1) 0 cs i coff cvc inds vals
                  (render_row more ++ rest) ltac:(lia) Hs (nows_render_row more rest Hmore) Hshape Hc
                  ltac:(lia) ltac:(lia) ltac:(unfold w; lia)) as Hst.
    cbn [Z.leb Z.compare Z.ltb] in Hst. cbv zeta in Hst.
    destruct (suf_cons src (i + len (render_cell cl)) SEP _ ltac:(lia) Hs) as (_ & _ & Hs2 & _).
    destruct (IH (c + 1) (i + len (render_cell cl) + 1) e (I2 inds (c + 1) (-1 + w)) (nthZ offs (c + 1))
                 (nthZ offs (c + 2) - nthZ offs (c + 1)) rest Hmore ltac:(lia) ltac:(lia) ltac:(lia) Hs2 Hn)
      as (n2 & s_pre & R2 & Hfin).
    exists (n + (1 + n2))%nat, s_pre. split.
    + eapply runn_trans; [exact R|]. eapply runn_trans; [|exact R2].
      apply runn_one; [exact Hst|].
      unfold noexit. cbn [s_index s_ifull s_vfull].
      destruct (render_row more ++ rest) eqn:E2; [destruct (render_row_nonnil more); destruct (render_row more); [reflexivity|discriminate]|].
      destruct (suf_cons src (i + len (render_cell cl) + 1) _ _ ltac:(lia) Hs2) as (Hlt & _). repeat split; lia.
    + rewrite Hfin. f_equal. f_equal. rewrite len_app, len_cons. lia.
Qed.

End Header.

(* ---- data records ---------------------------------------------------------------------- *)
Section Data.
Variables (V : Z) (rows : list (list cell)).
Let nrows := len rows.
Hypothesis Hoffs0 : nthZ offs 0 = 0.
Hypothesis Hbudget : forall c, 0 <= c < ncols -> nthZ offs c + len (CB rows c) < nthZ offs (c + 1).
Hypothesis HV : nthZ offs ncols <= V.
Hypothesis Hrows : nrows < maxrow.

Notation Good := (Good ncols w V offs rows).

Definition cstate (i e c r:Z) (inds:arr2) (vals:list Z) : st :=
  mkSt i e c r (-1) false false 0 (I2 inds c r) i false false (nthZ offs c) (nthZ offs (c + 1) - nthZ offs c) inds vals.

Lemma run_data_cells r : 0 <= r < nrows -> forall cells c i e inds vals rest,
  cells <> [] -> 0 <= c -> c + len cells = ncols -> 0 <= i ->
  suf src i = render_row cells ++ rest -> nows rest ->
  (forall j, 0 <= j < len cells -> snd (nthd (false, []) cells j) = cell_text rows r (c + j)) ->
  Good (fun x => if x <? c then r + 1 else r) inds vals ->
  exists n s_pre inds' vals',
    runn n (cstate i e c r inds vals) s_pre /\
    step s_pre = Ok (cstate (i + len (render_row cells)) (i + len (render_row cells) - 1) 0 (r + 1) inds' vals') /\
    Good (fun _ => r + 1) inds' vals'.
Proof.
  intros Hr. assert (Er : (0 <=? r) = true) by (apply Z.leb_le; lia).
  assert (Er2 : (r <? 0) = false) by (apply Z.ltb_ge; lia).
  induction cells as [|cl cells IH]; intros c i e inds vals rest Hne Hc Hlen Hi H Hn Htxt HG; [contradiction|].
  assert (Htc : snd cl = cell_text rows r c).
  { specialize (Htxt 0). rewrite Z.add_0_r in Htxt. apply Htxt. rewrite len_cons. pose proof (len_nonneg cells). lia. }
  assert (Hcn : 0 <= c < ncols) by (rewrite len_cons in Hlen; pose proof (len_nonneg cells); lia).
  assert (Hfc : (if c <? c then r + 1 else r) = r) by (rewrite Z.ltb_irrefl; reflexivity).
  pose proof (Good_fits ncols w V offs rows Hoffs0 Hbudget HV _ inds vals c r HG Hcn Hr) as (F1 & F2 & F3).
  assert (Hcs : I2 inds c r = P rows c r).
  { destruct HG as (_ & _ & HGc). destruct (HGc c Hcn) as (_ & Hk & _). apply Hk. rewrite Hfc. lia. }
  assert (Hsh : shape ncols w inds) by (destruct HG as (Hsh & _); exact Hsh).
  pose proof (Good_cell ncols w V offs rows Hoffs0 Hbudget HV _ inds vals c r HG Hcn Hfc Hr ltac:(unfold w; lia)) as HG1.
  assert (Hfit : fits r (I2 inds c r) (nthZ offs c) (nthZ offs (c + 1) - nthZ offs c) 0 vals (snd cl)).
  { unfold fits. intros _. rewrite Hcs, Htc. lia. }
  pose proof (len_nonneg (render_cell cl)) as Hl.
  destruct cells as [|cl2 cells].
  - (* last cell of the record *)
    cbn [render_row] in *. rewrite <- app_assoc in H. cbn [app] in H.
    destruct (run_cell e c r (-1) (I2 inds c r) (nthZ offs c) (nthZ offs (c + 1) - nthZ offs c) inds cl i vals NL rest Hi H
                ltac:(auto) Hfit) as (n & R).
    rewrite Er in R.
    pose proof (suf_app_len src i _ _ Hi H) as Hs.
    replace (len [cl]) with 1 in Hlen by reflexivity.
    exists n. eexists. exists (put2 inds c (r + 1) (P rows c r + len (cell_text rows r c))),
                              (wrs vals (nthZ offs c + P rows c r) (cell_text rows r c)).
    split; [exact R|]. split.
    + unfold S0. rewrite (step_nl src offs maxrow ncols Hoffs (i + len (render_cell cl)) e c r (-1) (len (snd cl)) (I2 inds c r) i
                           (nthZ offs c) (nthZ offs (c + 1) - nthZ offs c) inds _ rest); try assumption; try lia.
      * rewrite Er. cbv zeta. unfold cstate.
        replace (len (render_cell cl ++ [NL])) with (len (render_cell cl) + 1) by (rewrite len_app; reflexivity).
        destruct (r + 1 =? maxrow) eqn:E0; [apply Z.eqb_eq in E0; lia|].
        rewrite Hcs, Htc. replace (0 + 1) with 1 by lia.
        f_equal. f_equal; lia.
    + eapply Good_ext; [|exact HG1]. intros x Hx. cbv beta.
      destruct (x =? c) eqn:E1; [reflexivity|]. apply Z.eqb_neq in E1.
      destruct (x <? c) eqn:E2; [reflexivity|]. apply Z.ltb_ge in E2. lia.
  - (* a cell followed by a separator *)
    remember (cl2 :: cells) as more eqn:Em.
    assert (Hmore : more <> []) by (subst; discriminate).
    assert (Erow : render_row (cl :: more) = render_cell cl ++ SEP :: render_row more) by (subst more; reflexivity).
    rewrite Erow in *. rewrite <- app_assoc in H. cbn [app] in H.
    destruct (run_cell e c r (-1) (I2 inds c r) (nthZ offs c) (nthZ offs (c + 1) - nthZ offs c) inds cl i vals SEP
                (render_row more ++ rest) Hi H ltac:(auto) Hfit) as (n & R).
    rewrite Er in R.
    pose proof (suf_app_len src i _ _ Hi H) as Hs.
    assert (Hlm : len (cl :: more) = len more + 1) by apply len_cons.
    assert (Hlm0 : 1 <= len more) by (rewrite Em, len_cons; pose proof (len_nonneg cells); lia).
    rewrite Hlm in Hlen.
    pose proof (step_sep src offs maxrow ncols Hoffs (i + len (render_cell cl)) e c r (-1) (len (snd cl)) (I2 inds c r) i
                  (nthZ offs c) (nthZ offs (c + 1) - nthZ offs c) inds (wrs vals (nthZ offs c + I2 inds c r) (snd cl))
                  (render_row more ++ rest) ltac:(lia) Hs (nows_render_row more rest Hmore) Hsh Hc
                  ltac:(lia) ltac:(lia) ltac:(unfold w; lia)) as Hst.
    rewrite Er, Er2 in Hst. cbv zeta in Hst. rewrite Hcs, Htc in Hst.
    set (inds1 := put2 inds c (r + 1) (P rows c r + len (cell_text rows r c))) in *.
    set (vals1 := wrs vals (nthZ offs c + P rows c r) (cell_text rows r c)) in *.
    destruct (suf_cons src (i + len (render_cell cl)) SEP _ ltac:(lia) Hs) as (_ & _ & Hs2 & _).
    assert (HG2 : Good (fun x => if x <? c + 1 then r + 1 else r) inds1 vals1).
    { eapply Good_ext; [|exact HG1]. intros x Hx. cbv beta.
      destruct (x =? c) eqn:E1.
      - apply Z.eqb_eq in E1. subst x. destruct (c <? c + 1) eqn:E2; [reflexivity|apply Z.ltb_ge in E2; lia].
      - apply Z.eqb_neq in E1. destruct (x <? c) eqn:E2; destruct (x <? c + 1) eqn:E3; try reflexivity.
        + apply Z.ltb_lt in E2. apply Z.ltb_ge in E3. lia.
        + apply Z.ltb_ge in E2. apply Z.ltb_lt in E3. lia. }
    destruct (IH (c + 1) (i + len (render_cell cl) + 1) e inds1 vals1 rest Hmore ltac:(lia) ltac:(lia) ltac:(lia) Hs2 Hn)
      as (n2 & s_pre & inds' & vals' & R2 & Hfin & HG3).
    { intros j Hj. specialize (Htxt (j + 1)). rewrite Hlm in Htxt. specialize (Htxt ltac:(lia)).
      rewrite nthd_cons_succ in Htxt by lia. rewrite Htxt. f_equal. lia. }
    { exact HG2. }
    exists (n + (1 + n2))%nat, s_pre, inds', vals'. split; [|split].
    + eapply runn_trans; [exact R|]. eapply runn_trans; [|exact R2].
      apply runn_one.
      * unfold S0. rewrite Hcs, Htc. fold vals1. rewrite Hst. unfold cstate.
        replace (c + 1 + 1) with (c + 2) by lia. reflexivity.
      * unfold noexit, cstate. cbn [s_index s_ifull s_vfull].
        destruct (render_row more ++ rest) eqn:E2; [destruct (render_row_nonnil more); destruct (render_row more); [reflexivity|discriminate]|].
        destruct (suf_cons src (i + len (render_cell cl) + 1) _ _ ltac:(lia) Hs2) as (Hlt & _). repeat split; lia.
    + rewrite Hfin. f_equal. rewrite len_app, len_cons. f_equal; lia.
    + exact HG3.
Qed.

Lemma cell_text_eq r c : cell_text rows r c = snd (nth (Z.to_nat c) (nth (Z.to_nat r) rows []) (false, [])).
Proof.
  unfold cell_text, colt, column, text.
  set (f := fun r0 : list cell => snd (nth (Z.to_nat c) r0 (false, []))).
  assert (Hf0 : f [] = []) by (unfold f; destruct (Z.to_nat c); reflexivity).
  transitivity (nth (Z.to_nat r) (map f rows) (f [])); [rewrite Hf0; reflexivity|apply map_nth].
Qed.

Lemma run_data_rows : forall rws r i e inds vals,
  rws <> [] -> 0 <= r -> r + len rws = nrows -> 0 <= i ->
  suf src i = render_file rws ->
  (forall k, 0 <= k < len rws -> nthd [] rws k = nthd [] rows (r + k)) ->
  Forall (fun rw => len rw = ncols) rws ->
  Good (fun _ => r) inds vals ->
  exists n s_pre inds' vals',
    runn n (cstate i e 0 r inds vals) s_pre /\
    step s_pre = Ok (cstate (len src) (len src - 1) 0 nrows inds' vals') /\
    Good (fun _ => nrows) inds' vals'.
Proof.
  induction rws as [|row rws IH]; intros r i e inds vals Hne Hr Hlen Hi H Hnth Hrect HG; [contradiction|].
  pose proof (Forall_inv Hrect) as Hrow. pose proof (Forall_inv_tail Hrect) as Hrect'. cbv beta in Hrow.
  assert (Hrr : 0 <= r < nrows) by (rewrite len_cons in Hlen; pose proof (len_nonneg rws); lia).
  assert (Hrow_ne : row <> []) by (intros ->; unfold len in Hrow; cbn in Hrow; lia).
  assert (Htxt : forall j, 0 <= j < len row -> snd (nthd (false, []) row j) = cell_text rows r (0 + j)).
  { intros j Hj. rewrite cell_text_eq. rewrite Z.add_0_l.
    specialize (Hnth 0). rewrite Z.add_0_r in Hnth. unfold nthd in *. cbn [Z.to_nat nth] in Hnth.
    rewrite <- Hnth by (rewrite len_cons; pose proof (len_nonneg rws); lia). reflexivity. }
  assert (HG0 : Good (fun x => if x <? 0 then r + 1 else r) inds vals).
  { eapply Good_ext; [|exact HG]. intros x Hx. cbv beta. destruct (x <? 0) eqn:E; [apply Z.ltb_lt in E; lia|reflexivity]. }
  unfold render_file in H. cbn [map concat] in H. fold (render_file rws) in H.
  destruct rws as [|row2 rws].
  - (* last record of the file *)
    destruct (run_data_cells r Hrr row 0 i e inds vals (render_file []) Hrow_ne ltac:(lia) ltac:(lia) Hi H I Htxt HG0)
      as (n & s_pre & inds' & vals' & R & Hfin & HG').
    pose proof (suf_full src i _ Hi H) as Hfull.
    cbn [render_file map concat] in Hfull. rewrite app_nil_r in Hfull. specialize (Hfull (render_row_nonnil row)).
    replace (len [row]) with 1 in Hlen by reflexivity.
    exists n, s_pre, inds', vals'. split; [exact R|]. split.
    + rewrite Hfin. rewrite <- Hfull. replace (r + 1) with nrows by lia. reflexivity.
    + replace nrows with (r + 1) by lia. exact HG'.
  - (* another record follows *)
    remember (row2 :: rws) as more eqn:Em.
    assert (Hmore : more <> []) by (subst; discriminate).
    assert (Hnw : nows (render_file more)).
    { apply nows_render_file. eapply Forall_impl; [|exact Hrect']. intros a Ha ->. unfold len in Ha; cbn in Ha; lia. }
    destruct (run_data_cells r Hrr row 0 i e inds vals (render_file more) Hrow_ne ltac:(lia) ltac:(lia) Hi H Hnw Htxt HG0)
      as (n & s_pre & inds1 & vals1 & R & Hfin & HG').
    pose proof (suf_app_len src i _ _ Hi H) as Hs.
    pose proof (len_nonneg (render_row row)) as Hl.
    assert (Hlm : len (row :: more) = len more + 1) by apply len_cons.
    destruct (IH (r + 1) (i + len (render_row row)) (i + len (render_row row) - 1) inds1 vals1 Hmore ltac:(lia) ltac:(lia) ltac:(lia) Hs)
      as (n2 & s_pre2 & inds' & vals' & R2 & Hfin2 & HG2).
    { intros k Hk. specialize (Hnth (k + 1)). rewrite Hlm in Hnth. specialize (Hnth ltac:(lia)).
      rewrite nthd_cons_succ in Hnth by lia. rewrite Hnth. f_equal. lia. }
    { exact Hrect'. }
    { exact HG'. }
    exists (n + (1 + n2))%nat, s_pre2, inds', vals'. split; [|split; assumption].
    eapply runn_trans; [exact R|]. eapply runn_trans; [|exact R2].
    apply runn_one; [exact Hfin|].
    unfold noexit, cstate. cbn [s_index s_ifull s_vfull].
    destruct (render_file more) as [|x t] eqn:E2.
    { exfalso. subst more. unfold render_file in E2. cbn [map concat] in E2.
      destruct (render_row_nonnil row2). destruct (render_row row2); [reflexivity|discriminate]. }
    destruct (suf_cons src (i + len (render_row row)) x t ltac:(lia) Hs) as (Hlt & _). repeat split; lia.
Qed.

Lemma skip_ws0_stay n i x t : 0 <= i -> suf src i = x :: t -> x <> WS -> skip_ws0 n src i = Ok i.
Proof.
  intros Hi H Hx. destruct (suf_cons src i x t Hi H) as (Hlt & _ & _ & Hg).
  assert (E : (i <? len src) = true) by (apply Z.ltb_lt; lia).
  assert (Ex : (x =? WS) = false) by (apply Z.eqb_neq; exact Hx).
  destruct n; cbn [skip_ws0]; rewrite E, Hg; cbn [bind]; rewrite Ex; reflexivity.
Qed.

(* the kernel on one window holding a whole rendered file *)
Theorem kernel_roundtrip hdr inds vals :
  len hdr = ncols -> Forall (fun rw => len rw = ncols) rows ->
  src = render_file (hdr :: rows) ->
  shape ncols w inds -> (forall c, 0 <= c < ncols -> I2 inds c 0 = 0) -> len vals = V ->
  exists out, fast_csv_reader (fsm_fuel src 0) src 0 inds vals offs true = Ok out /\
    f_next out = len src /\ f_rows out = nrows /\ f_ifull out = false /\ f_vfull out = false /\
    Good (fun _ => nrows) (f_inds out) (f_vals out).
Proof.
  intros Hhdr Hrect Hsrc Hsh H0 Hv.
  assert (Hhdr_ne : hdr <> []) by (intros ->; unfold len in Hhdr; cbn in Hhdr; lia).
  assert (Hsuf : suf src 0 = render_row hdr ++ render_file rows).
  { rewrite suf_0, Hsrc. reflexivity. }
  assert (Hnw : nows (render_file rows)).
  { apply nows_render_file. eapply Forall_impl; [|exact Hrect]. intros a Ha ->. unfold len in Ha; cbn in Ha; lia. }
  pose proof (nows_render_row hdr (render_file rows) Hhdr_ne) as Hnw0.
  destruct (render_row hdr ++ render_file rows) as [|x0 t0] eqn:E0.
  { destruct (render_row_nonnil hdr). destruct (render_row hdr); [reflexivity|discriminate]. }
  cbn [nows] in Hnw0.
  destruct (suf_cons src 0 x0 t0 ltac:(lia) Hsuf) as (Hlt0 & _).
  rewrite <- E0 in Hsuf.
  unfold fast_csv_reader, fsm_init. cbn [Z.leb Z.compare bind].
  replace (fst inds - 1) with maxrow by (destruct Hsh as (Hf & _); unfold w in Hf; lia).
  rewrite (skip_ws0_stay _ 0 x0 t0) by (try lia; try assumption; rewrite Hsuf, E0; reflexivity). cbn [bind].
  rewrite getZ_ok by lia. cbn [bind s_index].
  destruct (0 =? len src) eqn:El; [apply Z.eqb_eq in El; lia|].
  destruct (run_header_cells inds vals Hsh hdr 0 0 (0 - 1) 0 0 (nthZ offs 1) (render_file rows) Hhdr_ne ltac:(lia) ltac:(lia) ltac:(lia) Hsuf Hnw)
    as (n1 & s_pre1 & R1 & Hfin1).
  pose proof (len_nonneg (render_row hdr)) as Hlh. rewrite Z.add_0_l in Hfin1.
  assert (Hrow0 : row0 inds vals (len (render_row hdr)) = cstate (len (render_row hdr)) (len (render_row hdr) - 1) 0 0 inds vals).
  { unfold row0, cstate. replace (0 + 1) with 1 by lia. reflexivity. }
  pose proof (suf_app_len src 0 _ _ ltac:(lia) Hsuf) as Hs1. rewrite Z.add_0_l in Hs1.
  assert (HG0 : Good (fun _ => 0) inds vals) by (apply Good_init; try assumption; unfold w; lia).
  assert (Hcase : rows = [] \/ rows <> []) by (destruct rows; [left; reflexivity|right; discriminate]).
  destruct Hcase as [Erows|Hrne].
  - (* no data record *)
    pose proof (suf_full src 0 _ ltac:(lia) Hsuf ltac:(rewrite E0; discriminate)) as Hfull.
    rewrite Erows in Hfull. cbn [render_file map concat] in Hfull. rewrite app_nil_r, Z.add_0_l in Hfull. clear Hs1. assert (Hs1 : len (render_row hdr) = len src) by lia.
    pose proof (runn_index _ _ _ _ _ _ R1) as Hidx. pose proof (step_index _ _ _ _ _ Hfin1) as Hsi.
    cbn [s_index] in Hidx. unfold row0 in Hsi. cbn [s_index] in Hsi.
    exists (out_of (row0 inds vals (len (render_row hdr)))).
    split.
    + replace (fsm_fuel src 0) with (n1 + S (Z.to_nat (len src) - n1 - 0))%nat by (unfold fsm_fuel; lia).
      rewrite (loop_runn _ _ _ _ _ _ _ R1). apply loop_last; [exact Hfin1|]. unfold row0. cbn [s_index]. exact Hs1.
    + unfold out_of, row0. cbn [f_next f_rows f_ifull f_vfull f_inds f_vals s_eol s_row s_ifull s_vfull s_inds s_vals].
      split; [lia|]. split; [unfold nrows; rewrite Erows; reflexivity|]. split; [reflexivity|]. split; [reflexivity|].
      replace nrows with 0 by (unfold nrows; rewrite Erows; reflexivity). exact HG0.
  - (* at least one data record *)
    assert (Hrf : render_file rows <> []).
    { destruct rows as [|row1 rows']; [contradiction|]. unfold render_file; cbn [map concat]. intros E.
      destruct (render_row_nonnil row1). destruct (render_row row1); [reflexivity|discriminate]. }
    destruct (run_data_rows rows 0 (len (render_row hdr)) (len (render_row hdr) - 1) inds vals Hrne ltac:(lia) ltac:(unfold nrows; lia) ltac:(lia) Hs1)
      as (n2 & s_pre2 & inds' & vals' & R2 & Hfin2 & HG2).
    { intros k Hk. rewrite Z.add_0_l. reflexivity. }
    { exact Hrect. }
    { exact HG0. }
    assert (Rall : runn (n1 + (1 + n2)) (mkSt 0 (0 - 1) 0 (-1) (-1) false false 0 0 0 false false 0 (nthZ offs 1) inds vals) s_pre2).
    { eapply runn_trans; [exact R1|]. eapply runn_trans; [|exact R2]. apply runn_one; [rewrite Hfin1; f_equal; exact Hrow0|].
      unfold noexit, cstate. cbn [s_index s_ifull s_vfull].
      destruct (render_file rows) as [|x t] eqn:E2; [contradiction|].
      destruct (suf_cons src (len (render_row hdr)) x t ltac:(lia) Hs1) as (Hlt & _). repeat split; lia. }
    pose proof (runn_index _ _ _ _ _ _ Rall) as Hidx. pose proof (step_index _ _ _ _ _ Hfin2) as Hsi.
    cbn [s_index] in Hidx. unfold cstate in Hsi. cbn [s_index] in Hsi.
    exists (out_of (cstate (len src) (len src - 1) 0 nrows inds' vals')).
    split.
    + replace (fsm_fuel src 0) with ((n1 + (1 + n2)) + S (Z.to_nat (len src) - (n1 + (1 + n2)) - 0))%nat by (unfold fsm_fuel; lia).
      rewrite (loop_runn _ _ _ _ _ _ _ Rall). apply loop_last; [exact Hfin2|]. reflexivity.
    + unfold out_of, cstate. cbn [f_next f_rows f_ifull f_vfull f_inds f_vals s_eol s_row s_ifull s_vfull s_inds s_vals].
      split; [lia|]. split; [reflexivity|]. split; [reflexivity|]. split; [reflexivity|]. exact HG2.
Qed.

End Data.

End Rows.
