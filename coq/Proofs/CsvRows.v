(* Proofs/CsvRows.v — the FSM on a rendered record, on a rendered file; the kernel round-trip *)
From Coq Require Import ZArith List Lia Bool.
From EV Require Import Res Arr Csv CsvSpec CsvBase CsvKernel CsvTable.
Import ListNotations.
Open Scope Z_scope.

(* ---- shape of rendered text ---------------------------------------------------------- *)
Lemma plain_of_noquote t : existsb special t = false -> forallb (fun b => negb (special b)) t = true.
Proof.
  induction t as [|b t IH]; cbn; [reflexivity|]. intros H. apply orb_false_elim in H. destruct H as (H1 & H2).
  rewrite H1, IH by assumption. reflexivity.
Qed.

Lemma nows_render_cell cl d rest : d = SEP \/ d = NL -> nows (render_cell cl ++ d :: rest).
Proof.
  intros Hd. unfold render_cell. destruct (fst cl || needs_quote (snd cl)) eqn:E.
  - cbn. unfold ESC, WS. lia.
  - apply orb_false_elim in E. destruct E as (_ & E). unfold needs_quote in E.
    apply orb_false_elim in E. destruct E as (_ & E). destruct (snd cl) as [|x t]; cbn.
    + destruct Hd as [-> | ->]; unfold SEP, NL, WS; lia.
    + apply Z.eqb_neq. exact E.
Qed.

Lemma render_row_split cl cls rest : exists d rest',
  render_row (cl :: cls) ++ rest = render_cell cl ++ d :: rest' /\ (d = SEP \/ d = NL).
Proof.
  destruct cls as [|c2 cls].
  - exists NL, rest. cbn [render_row]. rewrite <- app_assoc. auto.
  - exists SEP, (render_row (c2 :: cls) ++ rest). cbn [render_row]. rewrite <- app_assoc. auto.
Qed.

Lemma nows_render_row cells rest : cells <> [] -> nows (render_row cells ++ rest).
Proof.
  destruct cells as [|cl cls]; [contradiction|]. intros _.
  destruct (render_row_split cl cls rest) as (d & rest' & E & Hd). rewrite E. apply nows_render_cell. exact Hd.
Qed.

Lemma nows_render_file rws : Forall (fun r => r <> []) rws -> nows (render_file rws).
Proof.
  destruct rws as [|r rws]; [cbn; auto|]. intros H. inversion H; subst. unfold render_file. cbn [map concat].
  apply nows_render_row. assumption.
Qed.

Lemma render_row_nonnil cells : render_row cells <> [].
Proof.
  destruct cells as [|c [|c2 t]]; cbn; try discriminate.
  - destruct (render_cell c); discriminate.
  - destruct (render_cell c); discriminate.
Qed.

Lemma suf_full src i l : 0 <= i -> suf src i = l -> l <> [] -> len src = i + len l.
Proof.
  intros Hi H Hn. destruct (Z_le_gt_dec i (len src)) as [Hle|Hgt].
  - rewrite <- H. rewrite suf_len by lia. lia.
  - exfalso. apply Hn. rewrite <- H. unfold suf. apply skipn_all2. unfold len in Hgt. lia.
Qed.

Section Rows.
Variables (src offs : list Z) (maxrow ncols : Z).
Let w := maxrow + 1.
Hypothesis Hoffs : len offs = ncols + 1.
Hypothesis Hncols : 0 < ncols.
Hypothesis Hmaxrow : 0 < maxrow.

Notation runn := (runn src offs maxrow).
Notation step := (fsm_step src offs maxrow).

(* ---- one cell, from its first byte to its delimiter ------------------------------------ *)
Lemma run_cell e c r vfc cs coff cvc inds (cl:cell) i vals d rest :
  0 <= i -> suf src i = render_cell cl ++ d :: rest -> d = SEP \/ d = NL ->
  fits r cs coff cvc 0 vals (snd cl) ->
  exists n, runn n (S0 e c r vfc cs i coff cvc inds i false false 0 vals)
       (S0 e c r vfc cs i coff cvc inds (i + len (render_cell cl)) false false
           (if 0 <=? r then len (snd cl) else 0)
           (if 0 <=? r then wrs vals (coff + cs) (snd cl) else vals)).
Proof.
  intros Hi H Hd Hfit. unfold render_cell in *. destruct (fst cl || needs_quote (snd cl)) eqn:E.
  - (* quoted *)
    cbn [app] in H. rewrite <- app_assoc in H. cbn [app] in H.
    destruct (suf_cons src i ESC _ Hi H) as (_ & _ & Hs & _).
    exists (1 + (length (escape_quotes (snd cl)) + 1))%nat.
    eapply runn_trans.
    + apply runn_one.
      * unfold S0. apply (step_inner src offs maxrow i e c r vfc false false 0 cs i coff cvc inds vals ESC _ false true false Hi H).
        -- apply cl_open.
        -- cbn [andb]. discriminate.
      * cbn [andb]. destruct (escape_quotes (snd cl) ++ ESC :: d :: rest) as [|x0 t0] eqn:E2; [destruct (escape_quotes (snd cl)); discriminate|].
        apply (noexit_S0 src maxrow e c r vfc cs i coff cvc inds (i + 1) true false 0 vals x0 t0); [lia|exact Hs].
    + cbn [andb].
      pose proof (run_qbody src offs maxrow e c r vfc cs i coff cvc inds (snd cl) (i + 1) 0 vals d rest ltac:(lia) ltac:(lia) Hs Hd Hfit) as R.
      assert (Hl : i + len (ESC :: escape_quotes (snd cl) ++ [ESC]) = i + 1 + len (escape_quotes (snd cl)) + 1).
      { rewrite len_cons, len_app. unfold len at 2. cbn [length]. lia. }
      rewrite Hl. rewrite Z.add_0_r in R. rewrite !Z.add_0_l in R. exact R.
  - (* plain *)
    apply orb_false_elim in E. destruct E as (_ & E). unfold needs_quote in E.
    apply orb_false_elim in E. destruct E as (E & _).
    exists (length (snd cl)).
    pose proof (run_plain src offs maxrow e c r vfc cs i coff cvc inds (snd cl) i 0 vals (d :: rest) Hi ltac:(lia) H
                  ltac:(discriminate) (plain_of_noquote _ E) Hfit) as R.
    rewrite Z.add_0_r in R. rewrite !Z.add_0_l in R. exact R.
Qed.

(* ---- the header record: nothing is stored ---------------------------------------------- *)
Section Header.
Variables (inds : arr2) (vals : list Z).
Hypothesis Hshape : shape ncols w inds.

Definition row0 (i:Z) : st :=
  mkSt i (i - 1) 0 0 (-1) false false 0 (I2 inds 0 0) i false false (nthZ offs 0) (nthZ offs 1 - nthZ offs 0) inds vals.

Lemma run_header_cells : forall cells c i e cs coff cvc rest,
  cells <> [] -> 0 <= c -> c + len cells = ncols -> 0 <= i ->
  suf src i = render_row cells ++ rest -> nows rest ->
  exists n s_pre, runn n (mkSt i e c (-1) (-1) false false 0 cs i false false coff cvc inds vals) s_pre /\
    step s_pre = Ok (row0 (i + len (render_row cells))).
Proof.
  induction cells as [|cl cells IH]; intros c i e cs coff cvc rest Hne Hc Hlen Hi H Hn; [contradiction|].
  destruct cells as [|cl2 cells].
  - (* last cell of the header *)
    cbn [render_row] in *. rewrite <- app_assoc in H. cbn [app] in H.
    destruct (run_cell e c (-1) (-1) cs coff cvc inds cl i vals NL rest Hi H ltac:(auto)) as (n & R).
    { unfold fits. cbn. discriminate. }
    cbn [Z.leb Z.compare] in R.
    pose proof (suf_app_len src i _ _ Hi H) as Hs.
    pose proof (len_nonneg (render_cell cl)) as Hl.
    exists n. eexists. split; [exact R|].
    unfold S0. rewrite (step_nl src offs maxrow ncols Hoffs (i + len (render_cell cl)) e c (-1) (-1) 0 cs i coff cvc inds vals rest);
      try assumption; try lia.
    + cbn [Z.leb Z.compare]. cbv zeta. unfold row0.
      replace (len (render_cell cl ++ [NL])) with (len (render_cell cl) + 1) by (rewrite len_app; reflexivity).
      replace (-1 + 1) with 0 by lia.
      destruct (0 =? maxrow) eqn:E0; [apply Z.eqb_eq in E0; lia|].
      f_equal. f_equal; lia.
    + replace (len [cl]) with 1 in Hlen by reflexivity. lia.
  - (* a cell followed by a separator *)
    remember (cl2 :: cells) as more eqn:Em.
    assert (Hmore : more <> []) by (subst; discriminate).
    assert (Erow : render_row (cl :: more) = render_cell cl ++ SEP :: render_row more) by (subst more; reflexivity).
    rewrite Erow in *. rewrite <- app_assoc in H. cbn [app] in H.
    destruct (run_cell e c (-1) (-1) cs coff cvc inds cl i vals SEP (render_row more ++ rest) Hi H ltac:(auto)) as (n & R).
    { unfold fits. cbn. discriminate. }
    cbn [Z.leb Z.compare] in R.
    pose proof (suf_app_len src i _ _ Hi H) as Hs.
    pose proof (len_nonneg (render_cell cl)) as Hl.
    assert (Hlm : len (cl :: more) = len more + 1) by apply len_cons.
    assert (Hlm0 : 1 <= len more) by (rewrite Em, len_cons; pose proof (len_nonneg cells); lia).
    rewrite Hlm in Hlen.
    pose proof (step_sep src offs maxrow ncols Hoffs (i + len (render_cell cl)) e c (-1) (-1) 0 cs i coff cvc inds vals
                  (render_row more ++ rest) ltac:(lia) Hs (nows_render_row more rest Hmore) Hshape Hc
                  ltac:(lia) ltac:(lia) ltac:(unfold w; lia)) as Hst.
    cbn [Z.leb Z.compare Z.ltb] in Hst. cbv zeta in Hst.
    destruct (suf_cons src (i + len (render_cell cl)) SEP _ ltac:(lia) Hs) as (_ & _ & Hs2 & _).
    destruct (IH (c + 1) (i + len (render_cell cl) + 1) e (I2 inds (c + 1) (-1 + w)) (nthZ offs (c + 1))
                 (nthZ offs (c + 2) - nthZ offs (c + 1)) rest Hmore ltac:(lia) ltac:(lia) ltac:(lia) Hs2 Hn)
      as (n2 & s_pre & R2 & Hfin).
    exists (n + (1 + n2))%nat, s_pre. split.
    + eapply runn_trans; [exact R|]. eapply runn_trans; [|exact R2].
      apply runn_one; [exact Hst|].
      unfold noexit. cbn [s_index s_ifull s_vfull].
      destruct (render_row more ++ rest) eqn:E2; [destruct (render_row_nonnil more); destruct (render_row more); [reflexivity|discriminate]|].
      destruct (suf_cons src (i + len (render_cell cl) + 1) _ _ ltac:(lia) Hs2) as (Hlt & _). repeat split; lia.
    + rewrite Hfin. f_equal. f_equal. rewrite len_app, len_cons. lia.
Qed.

End Header.

(* ---- data records ---------------------------------------------------------------------- *)
Section Data.
Variables (V : Z) (rows : list (list cell)).
Let nrows := len rows.
Hypothesis Hoffs0 : nthZ offs 0 = 0.
Hypothesis Hbudget : forall c, 0 <= c < ncols -> nthZ offs c + len (CB rows c) < nthZ offs (c + 1).
Hypothesis HV : nthZ offs ncols <= V.
Hypothesis Hrows : nrows < maxrow.

Notation Good := (Good ncols w V offs rows).

Definition cstate (i e c r:Z) (inds:arr2) (vals:list Z) : st :=
  mkSt i e c r (-1) false false 0 (I2 inds c r) i false false (nthZ offs c) (nthZ offs (c + 1) - nthZ offs c) inds vals.

Lemma run_data_cells r : 0 <= r < nrows -> forall cells c i e inds vals rest,
  cells <> [] -> 0 <= c -> c + len cells = ncols -> 0 <= i ->
  suf src i = render_row cells ++ rest -> nows rest ->
  (forall j, 0 <= j < len cells -> snd (nthd (false, []) cells j) = cell_text rows r (c + j)) ->
  Good (fun x => if x <? c then r + 1 else r) inds vals ->
  exists n s_pre inds' vals',
    runn n (cstate i e c r inds vals) s_pre /\
    step s_pre = Ok (cstate (i + len (render_row cells)) (i + len (render_row cells) - 1) 0 (r + 1) inds' vals') /\
    Good (fun _ => r + 1) inds' vals'.
Proof.
  intros Hr. assert (Er : (0 <=? r) = true) by (apply Z.leb_le; lia).
  assert (Er2 : (r <? 0) = false) by (apply Z.ltb_ge; lia).
  induction cells as [|cl cells IH]; intros c i e inds vals rest Hne Hc Hlen Hi H Hn Htxt HG; [contradiction|].
  assert (Htc : snd cl = cell_text rows r c).
  { specialize (Htxt 0). rewrite Z.add_0_r in Htxt. apply Htxt. rewrite len_cons. pose proof (len_nonneg cells). lia. }
  assert (Hcn : 0 <= c < ncols) by (rewrite len_cons in Hlen; pose proof (len_nonneg cells); lia).
  assert (Hfc : (if c <? c then r + 1 else r) = r) by (rewrite Z.ltb_irrefl; reflexivity).
  pose proof (Good_fits ncols w V offs rows Hoffs0 Hbudget HV _ inds vals c r HG Hcn Hr) as (F1 & F2 & F3).
  assert (Hcs : I2 inds c r = P rows c r).
  { destruct HG as (_ & _ & HGc). destruct (HGc c Hcn) as (_ & Hk & _). apply Hk. rewrite Hfc. lia. }
  assert (Hsh : shape ncols w inds) by (destruct HG as (Hsh & _); exact Hsh).
  pose proof (Good_cell ncols w V offs rows Hoffs0 Hbudget HV _ inds vals c r HG Hcn Hfc Hr ltac:(unfold w; lia)) as HG1.
  assert (Hfit : fits r (I2 inds c r) (nthZ offs c) (nthZ offs (c + 1) - nthZ offs c) 0 vals (snd cl)).
  { unfold fits. intros _. rewrite Hcs, Htc. lia. }
  pose proof (len_nonneg (render_cell cl)) as Hl.
  destruct cells as [|cl2 cells].
  - (* last cell of the record *)
    cbn [render_row] in *. rewrite <- app_assoc in H. cbn [app] in H.
    destruct (run_cell e c r (-1) (I2 inds c r) (nthZ offs c) (nthZ offs (c + 1) - nthZ offs c) inds cl i vals NL rest Hi H
                ltac:(auto) Hfit) as (n & R).
    rewrite Er in R.
    pose proof (suf_app_len src i _ _ Hi H) as Hs.
    replace (len [cl]) with 1 in Hlen by reflexivity.
    exists n. eexists. exists (put2 inds c (r + 1) (P rows c r + len (cell_text rows r c))),
                              (wrs vals (nthZ offs c + P rows c r) (cell_text rows r c)).
    split; [exact R|]. split.
    + unfold S0. rewrite (step_nl src offs maxrow ncols Hoffs (i + len (render_cell cl)) e c r (-1) (len (snd cl)) (I2 inds c r) i
                           (nthZ offs c) (nthZ offs (c + 1) - nthZ offs c) inds _ rest); try assumption; try lia.
      * rewrite Er. cbv zeta. unfold cstate.
        replace (len (render_cell cl ++ [NL])) with (len (render_cell cl) + 1) by (rewrite len_app; reflexivity).
        destruct (r + 1 =? maxrow) eqn:E0; [apply Z.eqb_eq in E0; lia|].
        rewrite Hcs, Htc. replace (0 + 1) with 1 by lia.
        f_equal. f_equal; lia.
    + eapply Good_ext; [|exact HG1]. intros x Hx. cbv beta.
      destruct (x =? c) eqn:E1; [reflexivity|]. apply Z.eqb_neq in E1.
      destruct (x <? c) eqn:E2; [reflexivity|]. apply Z.ltb_ge in E2. lia.
  - (* a cell followed by a separator *)
    remember (cl2 :: cells) as more eqn:Em.
    assert (Hmore : more <> []) by (subst; discriminate).
    assert (Erow : render_row (cl :: more) = render_cell cl ++ SEP :: render_row more) by (subst more; reflexivity).
    rewrite Erow in *. rewrite <- app_assoc in H. cbn [app] in H.
    destruct (run_cell e c r (-1) (I2 inds c r) (nthZ offs c) (nthZ offs (c + 1) - nthZ offs c) inds cl i vals SEP
                (render_row more ++ rest) Hi H ltac:(auto) Hfit) as (n & R).
    rewrite Er in R.
    pose proof (suf_app_len src i _ _ Hi H) as Hs.
    assert (Hlm : len (cl :: more) = len more + 1) by apply len_cons.
    assert (Hlm0 : 1 <= len more) by (rewrite Em, len_cons; pose proof (len_nonneg cells); lia).
    rewrite Hlm in Hlen.
    pose proof (step_sep src offs maxrow ncols Hoffs (i + len (render_cell cl)) e c r (-1) (len (snd cl)) (I2 inds c r) i
                  (nthZ offs c) (nthZ offs (c + 1) - nthZ offs c) inds (wrs vals (nthZ offs c + I2 inds c r) (snd cl))
                  (render_row more ++ rest) ltac:(lia) Hs (nows_render_row more rest Hmore) Hsh Hc
                  ltac:(lia) ltac:(lia) ltac:(unfold w; lia)) as Hst.
    rewrite Er, Er2 in Hst. cbv zeta in Hst. rewrite Hcs, Htc in Hst.
    set (inds1 := put2 inds c (r + 1) (P rows c r + len (cell_text rows r c))) in *.
    set (vals1 := wrs vals (nthZ offs c + P rows c r) (cell_text rows r c)) in *.
    destruct (suf_cons src (i + len (render_cell cl)) SEP _ ltac:(lia) Hs) as (_ & _ & Hs2 & _).
    assert (HG2 : Good (fun x => if x <? c + 1 then r + 1 else r) inds1 vals1).
    { eapply Good_ext; [|exact HG1]. intros x Hx. cbv beta.
      destruct (x =? c) eqn:E1.
      - apply Z.eqb_eq in E1. subst x. destruct (c <? c + 1) eqn:E2; [reflexivity|apply Z.ltb_ge in E2; lia].
      - apply Z.eqb_neq in E1. destruct (x <? c) eqn:E2; destruct (x <? c + 1) eqn:E3; try reflexivity.
        + apply Z.ltb_lt in E2. apply Z.ltb_ge in E3. lia.
        + apply Z.ltb_ge in E2. apply Z.ltb_lt in E3. lia. }
    destruct (IH (c + 1) (i + len (render_cell cl) + 1) e inds1 vals1 rest Hmore ltac:(lia) ltac:(lia) ltac:(lia) Hs2 Hn)
      as (n2 & s_pre & inds' & vals' & R2 & Hfin & HG3).
    { intros j Hj. specialize (Htxt (j + 1)). rewrite Hlm in Htxt. specialize (Htxt ltac:(lia)).
      rewrite nthd_cons_succ in Htxt by lia. rewrite Htxt. f_equal. lia. }
    { exact HG2. }
    exists (n + (1 + n2))%nat, s_pre, inds', vals'. split; [|split].
    + eapply runn_trans; [exact R|]. eapply runn_trans; [|exact R2].
      apply runn_one.
      * unfold S0. rewrite Hcs, Htc. fold vals1. rewrite Hst. unfold cstate.
        replace (c + 1 + 1) with (c + 2) by lia. reflexivity.
      * unfold noexit, cstate. cbn [s_index s_ifull s_vfull].
        destruct (render_row more ++ rest) eqn:E2; [destruct (render_row_nonnil more); destruct (render_row more); [reflexivity|discriminate]|].
        destruct (suf_cons src (i + len (render_cell cl) + 1) _ _ ltac:(lia) Hs2) as (Hlt & _). repeat split; lia.
    + rewrite Hfin. f_equal. rewrite len_app, len_cons. f_equal; lia.
    + exact HG3.
Qed.

End Data.

End Rows.
