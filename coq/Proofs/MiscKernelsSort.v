(* Proofs/MiscKernelsSort.v — streaming_sort_partial = merge_until over the remaining chunk contents *)
From Coq Require Import ZArith List Lia Bool.
From EV Require Import Res Arr MiscKernels MiscKernelsSpec MiscKernelsBase MiscKernelsInner.
Import ListNotations.
Open Scope Z_scope.

(* ------------------------------------------------------------------ generic list facts *)
Lemma slice_empty (v:list Z) a : slice v a a = [].
Proof. unfold slice. rewrite Z.sub_diag. reflexivity. Qed.

Lemma slice_cons (v:list Z) a b : 0 <= a -> a < b -> b <= len v ->
  slice v a b = nthZ v a :: slice v (a + 1) b.
Proof.
  intros Ha Hab Hb. unfold slice, nthZ, nthd.
  replace (Z.to_nat (b - a)) with (S (Z.to_nat (b - (a + 1)))) by lia.
  replace (Z.to_nat (a + 1)) with (S (Z.to_nat a)) by lia.
  assert (Hlt : (Z.to_nat a < length v)%nat) by (unfold len in Hb; lia).
  revert Hlt. generalize (Z.to_nat a) as n. generalize (Z.to_nat (b - (a + 1))) as m. clear.
  intros m n. revert v. induction n as [|n IH]; intros v Hlt; destruct v as [|x v]; cbn in Hlt; try lia.
  - reflexivity.
  - cbn [skipn nth]. apply IH. lia.
Qed.

Lemma nth_map_seq {B} (f:nat -> B) d : forall n s i, (i < n)%nat -> nth i (map f (seq s n)) d = f (s + i)%nat.
Proof.
  induction n as [|n IH]; intros s i Hi; [lia|]. cbn [seq map]. destruct i as [|i].
  - cbn. f_equal. lia.
  - cbn [nth]. rewrite IH by lia. f_equal. lia.
Qed.

Lemma length_map2 {A B C} (f:A -> B -> C) : forall a b, length (map2 f a b) = Nat.min (length a) (length b).
Proof. induction a as [|x a IH]; intros [|y b]; cbn; auto. Qed.

Lemma nth_map2 {A B C} (f:A -> B -> C) da db dc : forall a b i, (i < length a)%nat -> (i < length b)%nat ->
  nth i (map2 f a b) dc = f (nth i a da) (nth i b db).
Proof.
  induction a as [|x a IH]; intros [|y b] i Ha Hb; cbn in *; try lia.
  destruct i; [reflexivity|]. apply IH; lia.
Qed.

Lemma nthZ_upd_same l i v : 0 <= i < len l -> nthZ (upd l i v) i = v.
Proof. apply nthd_upd_same. Qed.
Lemma nthZ_upd_other l i j v : 0 <= i -> 0 <= j -> i <> j -> nthZ (upd l i v) j = nthZ l j.
Proof. apply nthd_upd_other. Qed.

(* ------------------------------------------------------------------ the invariant *)
Section SSP.
Variables (lens:list Z) (svals sidx:list (list Z)) (k:nat).

Definition St : Prop :=
  length lens = k /\ length svals = k /\ length sidx = k /\
  forall c, 0 <= c < Z.of_nat k -> nthZ lens c <= len (nthd [] svals c) /\ nthZ lens c <= len (nthd [] sidx c).
Definition Inv (idx:list Z) : Prop :=
  length idx = k /\ forall c, 0 <= c < Z.of_nat k -> 0 <= nthZ idx c <= nthZ lens c.

Notation rem idx c := (ssp_rem idx lens svals sidx c).
Notation rems idx := (ssp_rems idx lens svals sidx).

Lemma rems_length idx : length (rems idx) = length idx.
Proof. unfold ssp_rems. rewrite map_length, seq_length. reflexivity. Qed.

Lemma rems_nth idx c : 0 <= c < len idx -> nthd [] (rems idx) c = rem idx c.
Proof.
  intros Hc. unfold nthd, ssp_rems. unfold len in Hc.
  rewrite (nth_map_seq (fun c => rem idx (Z.of_nat c)) []) by lia. f_equal. lia.
Qed.

Lemma rem_empty idx c : nthZ idx c = nthZ lens c -> rem idx c = [].
Proof. intros H. unfold ssp_rem. rewrite H, !slice_empty. reflexivity. Qed.

Lemma rem_cons idx c : St -> Inv idx -> 0 <= c < Z.of_nat k -> nthZ idx c <> nthZ lens c ->
  rem idx c = (nthZ (nthd [] svals c) (nthZ idx c), nthZ (nthd [] sidx c) (nthZ idx c))
              :: rem (upd idx c (nthZ idx c + 1)) c.
Proof.
  intros (Hl & Hv & Hx & Hst) (Hi & Hinv) Hc Hne.
  specialize (Hst c Hc). specialize (Hinv c Hc).
  assert (Hu : nthZ (upd idx c (nthZ idx c + 1)) c = nthZ idx c + 1).
  { unfold nthZ at 1. apply nthd_upd_same. unfold len; lia. }
  unfold ssp_rem. rewrite Hu.
  rewrite (slice_cons (nthd [] svals c)) by (unfold nthZ in *; lia).
  rewrite (slice_cons (nthd [] sidx c)) by (unfold nthZ in *; lia).
  reflexivity.
Qed.

Lemma rem_other idx c c' v : 0 <= c -> 0 <= c' -> c <> c' -> rem (upd idx c v) c' = rem idx c'.
Proof. intros H0 H1 Hne. unfold ssp_rem, nthZ. rewrite nthd_upd_other by lia. reflexivity. Qed.

Lemma rem_len idx c : St -> Inv idx -> 0 <= c < Z.of_nat k -> len (rem idx c) = nthZ lens c - nthZ idx c.
Proof.
  intros (Hl & Hv & Hx & Hst) (Hi & Hinv) Hc. specialize (Hst c Hc). specialize (Hinv c Hc).
  unfold ssp_rem. unfold len at 1. rewrite combine_length.
  pose proof (len_slice (nthd [] svals c) (nthZ idx c) (nthZ lens c) ltac:(lia) ltac:(lia) ltac:(lia)) as H1.
  pose proof (len_slice (nthd [] sidx c) (nthZ idx c) (nthZ lens c) ltac:(lia) ltac:(lia) ltac:(lia)) as H2.
  unfold len in H1, H2. lia.
Qed.

Lemma rems_pop idx c : St -> Inv idx -> 0 <= c < Z.of_nat k -> nthZ idx c <> nthZ lens c ->
  rems (upd idx c (nthZ idx c + 1)) = pop (rems idx) c.
Proof.
  intros HSt HInv Hc Hne. pose proof HInv as (Hi & Hinv).
  apply (list_eq_nthd []).
  - unfold pop. rewrite len_upd. unfold len. rewrite !rems_length. unfold upd. rewrite upd_nat_length. reflexivity.
  - intros c' Hc'. unfold len in Hc'. rewrite rems_length in Hc'. unfold upd in Hc'. rewrite upd_nat_length in Hc'.
    rewrite rems_nth by (rewrite len_upd; unfold len; lia).
    unfold pop. destruct (Z.eq_dec c c') as [<-|Hcc].
    + rewrite nthd_upd_same by (unfold len; rewrite rems_length; lia).
      rewrite rems_nth by (unfold len; lia). rewrite (rem_cons idx c HSt HInv Hc Hne). reflexivity.
    + rewrite nthd_upd_other by lia. rewrite rems_nth by (unfold len; lia). apply rem_other; lia.
Qed.

Lemma inv_step idx c : Inv idx -> 0 <= c < Z.of_nat k -> nthZ idx c <> nthZ lens c ->
  Inv (upd idx c (nthZ idx c + 1)).
Proof.
  intros (Hi & Hinv) Hc Hne. split; [unfold upd; rewrite upd_nat_length; exact Hi|].
  intros c' Hc'. destruct (Z.eq_dec c c') as [<-|Hcc].
  - rewrite nthZ_upd_same by (unfold len; lia). specialize (Hinv c Hc). lia.
  - rewrite nthZ_upd_other by lia. apply Hinv. assumption.
Qed.

Lemma rems_idx idx : St -> Inv idx -> map2 (fun ln r => ln - len r) lens (rems idx) = idx.
Proof.
  intros HSt HInv. pose proof HSt as (Hl & _). pose proof HInv as (Hi & Hinv).
  apply (list_eq_nthd 0).
  - unfold len. rewrite length_map2, rems_length. lia.
  - intros c Hc. unfold len in Hc. rewrite length_map2, rems_length in Hc.
    unfold nthd at 1. rewrite (nth_map2 _ 0 []) by (try rewrite rems_length; lia).
    change (nth (Z.to_nat c) lens 0) with (nthZ lens c).
    change (nth (Z.to_nat c) (rems idx) []) with (nthd [] (rems idx) c).
    rewrite rems_nth by (unfold len; lia). rewrite rem_len by (try assumption; lia).
    specialize (Hinv c ltac:(lia)). unfold nthZ in *. lia.
Qed.

(* ------------------------------------------------------------------ the scan *)
Lemma scan_spec idx : St -> Inv idx -> forall n i minv mini, (i + n = k)%nat ->
  ssp_scan n idx lens svals (Z.of_nat i) minv mini =
  Ok (pick_scan (map (fun c => rem idx (Z.of_nat c)) (seq i n)) (Z.of_nat i) minv mini).
Proof.
  intros HSt HInv. pose proof HSt as (Hl & Hv & Hx & Hst). pose proof HInv as (Hi & Hinv).
  induction n as [|n IH]; intros i minv mini Hk; cbn [ssp_scan seq map pick_scan]; [reflexivity|].
  assert (Hc : 0 <= Z.of_nat i < Z.of_nat k) by lia.
  rewrite (getZ_ok 153 idx) by (unfold len; lia). rewrite (getZ_ok 154 lens) by (unfold len; lia). cbn [bind].
  destruct (nthZ idx (Z.of_nat i) =? nthZ lens (Z.of_nat i)) eqn:E.
  - apply Z.eqb_eq in E. rewrite (rem_empty idx _ E). reflexivity.
  - apply Z.eqb_neq in E. rewrite (rem_cons idx _ HSt HInv Hc E).
    rewrite (get_ok 155 []) by (unfold len; lia). cbn [bind].
    specialize (Hst _ Hc). specialize (Hinv _ Hc).
    rewrite (getZ_ok 156) by lia. cbn [bind].
    replace (Z.of_nat i + 1) with (Z.of_nat (S i)) by lia.
    destruct (nthZ (nthd [] svals (Z.of_nat i)) (nthZ idx (Z.of_nat i)) <? minv); apply IH; lia.
Qed.

Lemma pick_scan_inv : forall cs pos minv mini v c, pick_scan cs pos minv mini = Some (v, c) ->
  (v = minv /\ c = mini) \/
  (pos <= c < pos + len cs /\ exists x t, nthd [] cs (c - pos) = (v, x) :: t).
Proof.
  induction cs as [|ch cs IH]; intros pos minv mini v c H; cbn [pick_scan] in H.
  - inversion H. left. split; reflexivity.
  - destruct ch as [|[v0 x0] t0]; [discriminate|]. rewrite len_cons. pose proof (len_nonneg cs) as Hn.
    assert (Hshift : forall c, pos + 1 <= c -> nthd [] (((v0, x0) :: t0) :: cs) (c - pos) = nthd [] cs (c - (pos + 1))).
    { intros c0 Hc0. replace (c0 - pos) with ((c0 - (pos + 1)) + 1) by lia. apply nthd_cons_succ. lia. }
    destruct (v0 <? minv).
    + apply IH in H. destruct H as [(-> & ->)|(Hr & x & t & Hnth)].
      * right. split; [lia|]. exists x0, t0. rewrite Z.sub_diag. reflexivity.
      * right. split; [lia|]. exists x, t. rewrite Hshift by lia. exact Hnth.
    + apply IH in H. destruct H as [(-> & ->)|(Hr & x & t & Hnth)].
      * left. split; reflexivity.
      * right. split; [lia|]. exists x, t. rewrite Hshift by lia. exact Hnth.
Qed.

Lemma pick_inv cs v c : pick cs = Some (v, c) ->
  0 <= c < len cs /\ exists x t, nthd [] cs c = (v, x) :: t.
Proof.
  destruct cs as [|ch cs]; [discriminate|]. destruct ch as [|[v0 x0] t0]; [discriminate|]. cbn [pick].
  intros H. apply pick_scan_inv in H. rewrite len_cons. pose proof (len_nonneg cs).
  destruct H as [(-> & ->)|(Hr & x & t & Hnth)].
  - split; [lia|]. exists x0, t0. reflexivity.
  - split; [lia|]. exists x, t. replace c with ((c - 1) + 1) by lia. rewrite nthd_cons_succ by lia. exact Hnth.
Qed.

End SSP.

(* ------------------------------------------------------------------ valid input -> invariant *)
Lemma chunks_ok_inv : forall idx lens svals sidx, ssp_chunks_ok idx lens svals sidx = true ->
  St lens svals sidx (length idx) /\ Inv lens (length idx) idx.
Proof.
  induction idx as [|i idx IH]; intros lens svals sidx H.
  - destruct lens, svals, sidx; try discriminate. unfold St, Inv. cbn [length].
    repeat split; intros; lia.
  - destruct lens as [|n lens]; [discriminate|]. destruct svals as [|v svals]; [discriminate|].
    destruct sidx as [|x sidx]; [discriminate|]. cbn [ssp_chunks_ok] in H.
    apply andb_prop in H. destruct H as (H & Hrec). apply andb_prop in H. destruct H as (H & H4).
    apply andb_prop in H. destruct H as (H & H3). apply andb_prop in H. destruct H as (H1 & H2).
    apply Z.leb_le in H1, H2, H3, H4.
    specialize (IH _ _ _ Hrec). destruct IH as ((Hl & Hv & Hx & Hst) & (Hi & Hinv)).
    unfold St, Inv. cbn [length]. repeat split; try lia.
    + destruct (Z.eq_dec c 0) as [->|Hc0]; [exact H3|].
      replace c with ((c - 1) + 1) by lia. unfold nthZ. rewrite !nthd_cons_succ by lia. apply Hst. lia.
    + destruct (Z.eq_dec c 0) as [->|Hc0]; [exact H4|].
      replace c with ((c - 1) + 1) by lia. unfold nthZ. rewrite !nthd_cons_succ by lia. apply Hst. lia.
    + destruct (Z.eq_dec c 0) as [->|Hc0]; [exact H1|].
      replace c with ((c - 1) + 1) by lia. unfold nthZ. rewrite !nthd_cons_succ by lia. apply Hinv. lia.
    + destruct (Z.eq_dec c 0) as [->|Hc0]; [exact H2|].
      replace c with ((c - 1) + 1) by lia. unfold nthZ. rewrite !nthd_cons_succ by lia. apply Hinv. lia.
Qed.

(* ------------------------------------------------------------------ the main loop *)
Section Loop.
Variables (lens:list Z) (svals sidx:list (list Z)) (k:nat) (maxp:Z).
Hypothesis HSt : St lens svals sidx k.
Hypothesis Hk : 0 < maxp -> (0 < k)%nat.

Definition ssp_result (d:Z) (dvd dvr did dir:list Z) (r:list (Z * Z) * list (list (Z * Z))) :=
  (d + len (fst r), map2 (fun ln rem => ln - len rem) lens (snd r),
   dvd ++ overwrite dvr (map fst (fst r)), did ++ overwrite dir (map snd (fst r))).

Lemma ssp_stop idx dvd dvr did dir d : Inv lens k idx ->
  Ok (d, idx, dvd ++ dvr, did ++ dir) =
  Ok (ssp_result d dvd dvr did dir ([], ssp_rems idx lens svals sidx)).
Proof.
  intros HInv. unfold ssp_result. cbn [fst snd map]. rewrite !overwrite_nil, len_nil.
  rewrite (rems_idx lens svals sidx k idx HSt HInv). do 4 f_equal. lia.
Qed.

Lemma ssp_loop_spec : forall n idx dvd dvr did dir d fuel,
  n = Z.to_nat (maxp - d) -> (n < fuel)%nat -> Inv lens k idx ->
  len dvd = d -> len did = d -> maxp <= d + len dvr -> maxp <= d + len dir -> 0 <= d ->
  ssp_loop fuel maxp lens svals sidx idx (dvd ++ dvr) (did ++ dir) d =
  Ok (ssp_result d dvd dvr did dir (merge_until n (ssp_rems idx lens svals sidx))).
Proof.
  induction n as [|n IH]; intros idx dvd dvr did dir d fuel Hn Hf HInv Hdv Hdi Hcv Hci Hd0;
    (destruct fuel as [|fuel]; [lia|]); cbn [ssp_loop merge_until].
  - replace (d <? maxp) with false by (symmetry; apply Z.ltb_ge; lia). apply ssp_stop. assumption.
  - replace (d <? maxp) with true by (symmetry; apply Z.ltb_lt; lia).
    pose proof HSt as (Hl & Hv & Hx & Hst). pose proof HInv as (Hi & Hinv).
    assert (Hk1 : (0 < k)%nat) by (apply Hk; lia).
    assert (Hc0 : 0 <= 0 < Z.of_nat k) by lia.
    rewrite (getZ_ok 150 idx) by (unfold len; lia). rewrite (getZ_ok 151 lens) by (unfold len; lia). cbn [bind].
    assert (Hrems : ssp_rems idx lens svals sidx =
                    ssp_rem idx lens svals sidx 0 ::
                    map (fun c => ssp_rem idx lens svals sidx (Z.of_nat c)) (seq 1 (k - 1))).
    { unfold ssp_rems. rewrite Hi. replace k with (S (k - 1)) at 1 by lia. reflexivity. }
    destruct (nthZ idx 0 =? nthZ lens 0) eqn:E0.
    { apply Z.eqb_eq in E0. rewrite Hrems at 1. rewrite (rem_empty lens svals sidx idx 0 E0). cbn [pick].
      apply ssp_stop. assumption. }
    apply Z.eqb_neq in E0.
    pose proof (rem_cons lens svals sidx k idx 0 HSt HInv Hc0 E0) as Hr0.
    rewrite (get_ok 152 []) by (unfold len; lia). cbn [bind].
    pose proof (Hst 0 Hc0) as Hst0. pose proof (Hinv 0 Hc0) as Hinv0.
    rewrite (getZ_ok 163) by lia. cbn [bind].
    replace (Z.to_nat (len idx - 1)) with (k - 1)%nat by (unfold len; lia).
    rewrite (scan_spec lens svals sidx k idx HSt HInv (k - 1) 1%nat) by lia. cbn [bind].
    assert (Hpick : pick (ssp_rems idx lens svals sidx) =
                    pick_scan (map (fun c => ssp_rem idx lens svals sidx (Z.of_nat c)) (seq 1 (k - 1)))
                              (Z.of_nat 1) (nthZ (nthd [] svals 0) (nthZ idx 0)) 0).
    { rewrite Hrems, Hr0. reflexivity. }
    rewrite <- Hpick.
    destruct (pick (ssp_rems idx lens svals sidx)) as [[minv mini]|] eqn:Ep; [|apply ssp_stop; assumption].
    apply pick_inv in Ep. destruct Ep as (Hm & x & t & Hnth).
    unfold len in Hm. rewrite rems_length, Hi in Hm.
    rewrite rems_nth in Hnth by (unfold len; lia).
    assert (Em : nthZ idx mini <> nthZ lens mini).
    { intros E. rewrite (rem_empty lens svals sidx idx mini E) in Hnth. discriminate. }
    pose proof (rem_cons lens svals sidx k idx mini HSt HInv Hm Em) as Hrm.
    rewrite Hnth in Hrm. injection Hrm as Hv1 Hx1 Ht1.
    rewrite rems_nth by (unfold len; lia). rewrite Hnth.
    pose proof (Hst mini Hm) as Hstm. pose proof (Hinv mini Hm) as Hinvm.
    rewrite (get_ok 157 []) by (unfold len; lia). cbn [bind].
    rewrite (getZ_ok 158 idx) by (unfold len; lia). cbn [bind].
    rewrite (getZ_ok 159) by lia. cbn [bind]. rewrite <- Hx1.
    destruct dir as [|b dir']; [rewrite len_nil in Hci; lia|].
    destruct dvr as [|a dvr']; [rewrite len_nil in Hcv; lia|].
    rewrite (set_mid 160 did b dir' d _ Hdi). cbn [bind].
    rewrite (set_mid 161 dvd a dvr' d _ Hdv). cbn [bind].
    rewrite (set_ok 162) by (unfold len; lia). cbn [bind].
    rewrite <- (app_snoc dvd minv dvr'), <- (app_snoc did x dir').
    rewrite len_cons in Hcv, Hci.
    rewrite (IH (upd idx mini (nthZ idx mini + 1)) (dvd ++ [minv]) dvr' (did ++ [x]) dir' (d + 1) fuel);
      try (rewrite len_snoc; lia); try lia;
      [|apply (inv_step lens k idx mini HInv Hm Em)].
    rewrite (rems_pop lens svals sidx k idx mini HSt HInv Hm Em).
    unfold ssp_result. cbn [fst snd map]. rewrite !overwrite_cons, len_cons, <- !app_assoc. cbn [app].
    do 4 f_equal. lia.
Qed.

End Loop.

Lemma sumZ_pos_nonempty l : 0 < sumZ l -> (0 < length l)%nat.
Proof. destruct l; cbn; lia. Qed.

Theorem streaming_sort_partial_correct idx lens svals sidx dv di fuel :
  ssp_pre_b idx lens svals sidx dv di = true -> (ssp_fuel lens <= fuel)%nat ->
  streaming_sort_partial fuel idx lens svals sidx dv di = Ok (ssp_spec idx lens svals sidx dv di).
Proof.
  intros Hp Hf. unfold ssp_pre_b in Hp. apply andb_prop in Hp. destruct Hp as (Hp & Hdi).
  apply andb_prop in Hp. destruct Hp as (Hok & Hdv). apply Z.leb_le in Hdv, Hdi.
  apply chunks_ok_inv in Hok. destruct Hok as (HSt & HInv).
  unfold streaming_sort_partial, ssp_fuel in *.
  assert (Hk : 0 < sumZ lens -> (0 < length idx)%nat).
  { intros H. apply sumZ_pos_nonempty in H. destruct HSt as (Hl & _). lia. }
  pose proof (ssp_loop_spec lens svals sidx (length idx) (sumZ lens) HSt Hk (Z.to_nat (sumZ lens - 0))
                idx [] dv [] di 0 fuel eq_refl ltac:(lia) HInv eq_refl eq_refl ltac:(lia) ltac:(lia) ltac:(lia)) as H.
  cbn [app] in H. rewrite H. unfold ssp_result, ssp_spec. rewrite Z.sub_0_r. cbn [app]. do 4 f_equal.
Qed.

(* destination buffers shorter than the number of merged rows are overrun (outside the precondition) *)
Theorem streaming_sort_partial_short_dest_oob :
  exists idx lens svals sidx dv di,
    streaming_sort_partial (ssp_fuel lens) idx lens svals sidx dv di = OOB 160.
Proof. exists [0], [1], [[5]], [[7]], [0], []. reflexivity. Qed.
