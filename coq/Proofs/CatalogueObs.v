(* Proofs/CatalogueObs.v — from the state invariant to the verdicts computed on observations. *)
From Coq Require Import ZArith List Bool Lia.
From EV Require Import Res Catalogue CatalogueSpec CatalogueBase CatalogueInv CatalogueRename CatalogueStep.
Import ListNotations.
Open Scope Z_scope.

Lemma nodupb_true l : NoDup l -> nodupb l = true.
Proof.
  induction l as [|h t IH]; intros ND; cbn [nodupb]; [reflexivity|].
  inversion ND; subst. rewrite IH by assumption. rewrite (proj2 (nmem_false h t)) by assumption. reflexivity.
Qed.

Lemma nodupb_NoDup l : nodupb l = true -> NoDup l.
Proof.
  induction l as [|h t IH]; cbn [nodupb]; intros H; [constructor|].
  apply andb_true_iff in H. destruct H as [H1 H2]. constructor; [|apply IH; exact H2].
  apply nmem_false. destruct (nmem h t); [discriminate | reflexivity].
Qed.

Lemma subsetb_true a b : incl a b -> subsetb a b = true.
Proof. intros H. unfold subsetb. apply forallb_forall. intros x I. apply nmem_In. apply H. exact I. Qed.

Lemma subsetb_incl a b : subsetb a b = true -> incl a b.
Proof. unfold subsetb. intros H x I. apply nmem_In. eapply forallb_forall in H; eassumption. Qed.

Lemma same_names_true a b : NoDup a -> NoDup b -> incl a b -> incl b a -> same_names a b = true.
Proof.
  intros. unfold same_names. rewrite !nodupb_true, !subsetb_true by assumption. reflexivity.
Qed.

Lemma same_names_spec a b : same_names a b = true -> NoDup a /\ NoDup b /\ incl a b /\ incl b a.
Proof.
  unfold same_names. intros H. repeat (apply andb_true_iff in H; destruct H as [H ?]).
  repeat split; auto using nodupb_NoDup, subsetb_incl.
Qed.

Lemma same_map_keys_incl (a b:alist) : same_map a b -> incl (d_keys a) (d_keys b).
Proof.
  intros SM k I. destruct (d_find a k) as [v|] eqn:F.
  - rewrite (SM k) in F. eapply d_find_keys. exact F.
  - apply d_find_None in F. contradiction.
Qed.

Lemma same_map_sym (a b:alist) : same_map a b -> same_map b a.
Proof. intros H k. symmetry. apply H. Qed.

Lemma d_find_map_vals {V W} (F:V -> W) (l:dict V) k :
  d_find (map (fun kv => (fst kv, F (snd kv))) l) k = option_map F (d_find l k).
Proof.
  induction l as [|[k' v] t IH]; cbn [map d_find fst snd option_map]; [reflexivity|].
  destruct (name_eqb k k'); [reflexivity | exact IH].
Qed.

Lemma keys_map_vals {V W} (F:V -> W) (l:dict V) : d_keys (map (fun kv => (fst kv, F (snd kv))) l) = d_keys l.
Proof. unfold d_keys. rewrite map_map. reflexivity. Qed.

(* (1) the catalogue verdict holds in every state that satisfies the invariant *)
Theorem Inv_chk_inv s held : Inv s -> chk_inv (observe s held) = true.
Proof.
  intros [IA IB]. unfold chk_inv, observe. cbn [o_ds]. apply forallb_forall. intros o Io.
  apply in_map_iff in Io. destruct Io as (i & <- & _).
  destruct (IA i) as [a b c d]. unfold chk_inv_ds, observe_ds. cbn [o_dfs o_file].
  apply andb_true_iff. split.
  - rewrite map_map. cbn [o_key observe_df].
    change (map (fun x => fst x) (py_dfs s i)) with (d_keys (py_dfs s i)).
    rewrite map_map. cbn [fst]. change (map (fun x => fst x) (h5_root s i)) with (d_keys (h5_root s i)).
    apply same_names_true; auto using same_map_keys_incl, same_map_sym.
  - apply forallb_forall. intros o Io. apply in_map_iff in Io. destruct Io as ([k g] & <- & Ikg).
    pose proof (In_d_find _ _ _ a Ikg) as Fk. destruct (d k g Fk) as [N _].
    assert (L : linked s g) by (eapply catalogued_linked; eassumption).
    destruct (ib_df _ IB g L) as [a' b' c' d'].
    unfold chk_inv_df, observe_df. cbn [o_key o_nameattr o_cols o_h5 fst snd].
    rewrite N, name_eqb_refl. cbn [andb].
    rewrite (same_names_true _ _ a' b' (same_map_keys_incl _ _ c') (same_map_keys_incl _ _ (same_map_sym _ _ c'))). cbn [andb].
    rewrite (d_find_map_vals (fun g' => d_keys (h5_grp s g')) (h5_root s i) k).
    rewrite <- (c k), Fk. cbn [option_map].
    apply same_names_true; auto using incl_refl.
Qed.

(* conversely a false verdict refutes the invariant *)
Corollary chk_inv_false_not_Inv s held : chk_inv (observe s held) = false -> ~ Inv s.
Proof. intros H I. rewrite (Inv_chk_inv s held I) in H. discriminate. Qed.

(* (5) reopen: what the live objects hold is what the file holds *)
Definition live_lookup (s:state) (i:Z) (d n:name) : option (Z * list Z) :=
  match d_find (py_dfs s i) d with
  | Some g => match d_find (py_cols s g) n with Some f => Some (fld_type s f, fld_data s f) | None => None end
  | None => None
  end.
Definition file_lookup (s:state) (i:Z) (d n:name) : option (Z * list Z) :=
  match d_find (h5_root s i) d with
  | Some g => match d_find (h5_grp s g) n with Some f => Some (fld_type s f, fld_data s f) | None => None end
  | None => None
  end.

Theorem Inv_reopen_same s i d n : Inv s -> live_lookup s i d n = file_lookup s i d n.
Proof.
  intros [IA IB]. unfold live_lookup, file_lookup. rewrite <- (sk_same _ _ (IA i) d).
  destruct (d_find (py_dfs s i) d) as [g|] eqn:F; [|reflexivity].
  pose proof (catalogued_linked _ _ _ _ IA F) as L. rewrite (dk_same _ _ (ib_df _ IB g L) n). reflexivity.
Qed.

(* ------------------------------------------------------------------ (5) at observation level: the final reopen verdict *)
Lemma same_map_In (a b:alist) n x :
  same_map a b -> NoDup (d_keys a) -> In (n, x) a -> In (n, x) b.
Proof. intros SM ND I. apply d_find_In. rewrite <- (SM n). apply In_d_find; assumption. Qed.

Lemma fld_eqb_refl e : fld_eqb e e = true.
Proof. destruct e as [[n t] dat]. cbn. rewrite name_eqb_refl, Z.eqb_refl. apply name_eqb_refl. Qed.

Lemma incl_by_map {A B} (eqb:B -> B -> bool) (F:A -> B) (a b:list A) :
  (forall y, eqb y y = true) -> incl a b -> incl_by eqb (map F a) (map F b) = true.
Proof.
  intros R H. unfold incl_by. apply forallb_forall. intros y Iy. apply in_map_iff in Iy. destruct Iy as (x & <- & Ix).
  apply existsb_exists. exists (F x). split; [apply in_map; apply H; exact Ix | apply R].
Qed.

Definition entries (s:state) (l:alist) : list (name * Z * list Z) :=
  map (fun nf => (fst nf, fld_type s (snd nf), fld_data s (snd nf))) l.

Lemma entries_keys s l : map (fun e => fst (fst e)) (entries s l) = d_keys l.
Proof. unfold entries, d_keys. rewrite map_map. reflexivity. Qed.

Theorem Inv_chk_reopen s i : Inv s -> chk_reopen_ds (live_view s i) (reopen_view s i) = true.
Proof.
  intros [IA IB]. destruct (IA i) as [a b c d].
  unfold chk_reopen_ds, live_view, reopen_view, view_of.
  assert (K1 : map fst (map (fun kg : name * Z => (fst kg, entries s (py_cols s (snd kg)))) (py_dfs s i)) = d_keys (py_dfs s i))
    by (rewrite map_map; reflexivity).
  assert (K2 : map fst (map (fun kg : name * Z => (fst kg, entries s (h5_grp s (snd kg)))) (h5_root s i)) = d_keys (h5_root s i))
    by (rewrite map_map; reflexivity).
  fold (entries s). unfold entries in K1, K2 |- *.
  change (fun kg : name * Z => (fst kg, map (fun nf : name * Z => (fst nf, fld_type s (snd nf), fld_data s (snd nf))) (py_cols s (snd kg))))
    with (fun kg : name * Z => (fst kg, entries s (py_cols s (snd kg)))) in *.
  change (fun kg : name * Z => (fst kg, map (fun nf : name * Z => (fst nf, fld_type s (snd nf), fld_data s (snd nf))) (h5_grp s (snd kg))))
    with (fun kg : name * Z => (fst kg, entries s (h5_grp s (snd kg)))) in *.
  rewrite K1, K2.
  rewrite (same_names_true _ _ a b (same_map_keys_incl _ _ c) (same_map_keys_incl _ _ (same_map_sym _ _ c))). cbn [andb].
  assert (FR : forall k g, In (k, g) (py_dfs s i) ->
            frame_eqb (k, entries s (py_cols s g)) (k, entries s (h5_grp s g)) = true /\
            frame_eqb (k, entries s (h5_grp s g)) (k, entries s (py_cols s g)) = true).
  { intros k g Ikg. pose proof (In_d_find _ _ _ a Ikg) as Fk.
    pose proof (catalogued_linked _ _ _ _ IA Fk) as L. destruct (ib_df _ IB g L) as [a' b' c' d'].
    unfold frame_eqb. cbn [fst snd]. rewrite name_eqb_refl, !entries_keys. cbn [andb].
    rewrite (same_names_true _ _ a' b' (same_map_keys_incl _ _ c') (same_map_keys_incl _ _ (same_map_sym _ _ c'))).
    rewrite (same_names_true _ _ b' a' (same_map_keys_incl _ _ (same_map_sym _ _ c')) (same_map_keys_incl _ _ c')). cbn [andb].
    assert (I1 : incl (py_cols s g) (h5_grp s g)) by (intros [n x] I; eapply same_map_In; eassumption).
    assert (I2 : incl (h5_grp s g) (py_cols s g)) by (intros [n x] I; eapply same_map_In; [apply same_map_sym; exact c' | exact b' | exact I]).
    unfold entries. rewrite !(incl_by_map fld_eqb _ _ _ fld_eqb_refl) by assumption. auto. }
  apply andb_true_iff. split.
  - unfold incl_by. apply forallb_forall. intros x Ix. apply in_map_iff in Ix. destruct Ix as ([k g] & <- & Ikg). cbn [fst snd].
    apply existsb_exists. exists (k, entries s (h5_grp s g)). split.
    + apply in_map_iff. exists (k, g). split; [reflexivity | eapply same_map_In; eassumption].
    + apply (FR k g Ikg).
  - unfold incl_by. apply forallb_forall. intros x Ix. apply in_map_iff in Ix. destruct Ix as ([k g] & <- & Ikg). cbn [fst snd].
    assert (Ikg' : In (k, g) (py_dfs s i)) by (eapply same_map_In; [apply same_map_sym; exact c | exact b | exact Ikg]).
    apply existsb_exists. exists (k, entries s (py_cols s g)). split.
    + apply in_map_iff. exists (k, g). split; [reflexivity | exact Ikg'].
    + apply (FR k g Ikg').
Qed.
