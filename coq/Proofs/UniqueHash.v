(* Proofs/UniqueHash.v — C14: the scan of get_indexed_string_unique with the lookup as a parameter.
   A hashed implementation replaces `for j, unique_v in enumerate(unique_result): if array_equal(v, unique_v)` by a
   lookup that visits only the values in the hash bucket of v.  For ANY function h of the bytes the bucketed lookup
   that compares v with every value of its bucket is the linear lookup (equal values have equal hashes), hence the
   whole scan — values, first-occurrence indices, inverse, counts — does not depend on h.  A lookup that keeps ONE
   value per bucket (the latest) is a different function: witness x, y, x with h x = h y. *)
From Coq Require Import ZArith List Bool Lia.
From EV Require Import Res Arr UniqueSpec Unique UniqueStore UniqueScan.
Import ListNotations.
Open Scope Z_scope.

Section Lookup.
  Variable lookup : list Z -> list (list Z) -> option Z.

  Definition uniq_step_with (wi wv wc:bool) (indices values:list Z) (s:ustate) (i:Z) : res ustate :=
    do b <- get 6 indices (i + 1);
    do a <- get 7 indices i;
    let length := b - a in
    let v := np_slice values a b in
    if negb (existsb (Z.eqb length) (u_lens s))
    then Ok (add_new wi wv wc i v (length :: u_lens s) s)
    else
      match lookup v (u_res s) with
      | Some j =>
        do cnt <- (if wc then (do old <- get 8 (u_cnt s) j; set 9 (u_cnt s) j (old + 1)) else Ok (u_cnt s));
        Ok (mkU (u_lens s) (u_res s) (u_idx s) (if wv then u_inv s ++ [j] else u_inv s) cnt)
      | None => Ok (add_new wi wv wc i v (u_lens s) s)
      end.

  Fixpoint uniq_loop_with (wi wv wc:bool) (indices values:list Z) (n:nat) (i:Z) (s:ustate) : res ustate :=
    match n with
    | O => Ok s
    | S n' => do s' <- uniq_step_with wi wv wc indices values s i;
              uniq_loop_with wi wv wc indices values n' (i + 1) s'
    end.

  Definition get_indexed_string_unique_with (wi wv wc:bool) (indices values:list Z) : res ustate :=
    uniq_loop_with wi wv wc indices values (Z.to_nat (len indices - 1)) 0 (mkU [-1] [] [] [] []).

  Hypothesis lookup_linear : forall v us, lookup v us = find_equal v us 0.

  Lemma uniq_step_with_eq wi wv wc ind vals s i :
    uniq_step_with wi wv wc ind vals s i = uniq_step wi wv wc ind vals s i.
  Proof.
    unfold uniq_step_with, uniq_step.
    destruct (get 6 ind (i + 1)) as [b| | |]; cbn [bind]; auto.
    destruct (get 7 ind i) as [a| | |]; cbn [bind]; auto.
    rewrite lookup_linear. reflexivity.
  Qed.

  Lemma uniq_loop_with_eq wi wv wc ind vals n : forall i s,
    uniq_loop_with wi wv wc ind vals n i s = uniq_loop wi wv wc ind vals n i s.
  Proof.
    induction n as [|n IH]; intros i s; [reflexivity|].
    cbn [uniq_loop_with uniq_loop]. rewrite uniq_step_with_eq.
    destruct (uniq_step wi wv wc ind vals s i) as [s'| | |]; cbn; auto.
  Qed.

  Lemma get_unique_with_eq wi wv wc ind vals :
    get_indexed_string_unique_with wi wv wc ind vals = get_indexed_string_unique wi wv wc ind vals.
  Proof. apply uniq_loop_with_eq. Qed.
End Lookup.

Section HashBuckets.
  Variable B : Type.
  Variable h : list Z -> B.                 (* ANY function of the bytes: nothing is assumed about its quality *)
  Variable beq : B -> B -> bool.
  Hypothesis beq_refl : forall b, beq b b = true.

  (* only the members of v's bucket are compared with v; all of them *)
  Fixpoint find_equal_bucket (v:list Z) (us:list (list Z)) (j:Z) : option Z :=
    match us with
    | [] => None
    | u :: t => if beq (h v) (h u) && list_eqb v u then Some j else find_equal_bucket v t (j + 1)
    end.

  Lemma find_equal_bucket_eq v us : forall j, find_equal_bucket v us j = find_equal v us j.
  Proof.
    induction us as [|u t IH]; intros j; [reflexivity|].
    cbn [find_equal_bucket find_equal]. rewrite IH.
    destruct (list_eqb v u) eqn:E.
    - apply list_eqb_true in E. subst u. rewrite beq_refl. reflexivity.
    - rewrite andb_false_r. reflexivity.
  Qed.

  Theorem unique_hash_bucket_independent wi wv wc ind vals :
    get_indexed_string_unique_with (fun v us => find_equal_bucket v us 0) wi wv wc ind vals
    = get_indexed_string_unique wi wv wc ind vals.
  Proof. apply get_unique_with_eq. intros v us. apply find_equal_bucket_eq. Qed.

  (* the defective variant: one slot per bucket, taken over by the latest value of the bucket *)
  Fixpoint last_in_bucket (v:list Z) (us:list (list Z)) (j:Z) (acc:option (Z * list Z)) : option (Z * list Z) :=
    match us with
    | [] => acc
    | u :: t => last_in_bucket v t (j + 1) (if beq (h v) (h u) then Some (j, u) else acc)
    end.

  Definition find_equal_slot (v:list Z) (us:list (list Z)) : option Z :=
    match last_in_bucket v us 0 None with
    | Some (j, u) => if list_eqb v u then Some j else None
    | None => None
    end.
End HashBuckets.

Definition poly31 (b:list Z) : Z := fold_left (fun hh c => hh * 31 + c) b (len b).

(* 'Aa', 'BB', 'Aa': equal length, equal h*31+c hash; the single-slot lookup lists 'Aa' twice *)
Theorem unique_hash_single_slot_refuted :
  exists xs ind vals, stored xs ind vals /\
    get_indexed_string_unique_with (find_equal_slot Z poly31 Z.eqb) true true true ind vals
    <> get_indexed_string_unique true true true ind vals.
Proof.
  exists [[65; 97]; [66; 66]; [65; 97]], [0; 2; 4; 6], [65; 97; 66; 66; 65; 97].
  split; [split; [reflexivity|left; reflexivity]|].
  vm_compute. discriminate.
Qed.
