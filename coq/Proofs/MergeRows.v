(* Proofs/MergeRows.v — C02: the destination of the streamed path holds exactly the rows of the relational
   join (Spec/MergeSpec.v: join_pairs / gather_col / merge_spec), in the order of join_pairs. *)
From Coq Require Import ZArith List Lia Bool.
From EV Require Import Res Arr Join JoinSpec JoinBase JoinIface JoinRows MapStream MapStreamSpec MapStreamBase MapIndexedDriver
  Merge MergeSpec MergeBase MergeOrdered MergeMaps.
Import ListNotations.
Open Scope Z_scope.

Definition single (x:Z) : list Z := [x].

Lemma key_rows_single (L:list Z) : key_rows [L] (len L) = map single L.
Proof.
  unfold key_rows, len. rewrite Nat2Z.id. cbn [map].
  apply (nth_ext _ _ [] (single 0)).
  - rewrite !map_length, seq_length. reflexivity.
  - intros k Hk. rewrite map_length, seq_length in Hk.
    rewrite (nth_indep _ [] ((fun i => [nthZ L (Z.of_nat i)]) 0%nat)) by (rewrite map_length, seq_length; exact Hk).
    rewrite (map_nth (fun i => [nthZ L (Z.of_nat i)])). rewrite seq_nth by exact Hk.
    rewrite (map_nth single). cbn [Nat.add]. unfold single, nthZ, nthd. rewrite Nat2Z.id. reflexivity.
Qed.

Lemma matches_rows_single key R : forall j0, matches_rows [key] (map single R) j0 = matches_from key R j0.
Proof.
  induction R as [|x t IH]; intros j0; cbn [map matches_rows matches_from]; [reflexivity|].
  unfold single at 1. cbn [name_eqb]. rewrite andb_true_r. rewrite IH. reflexivity.
Qed.

(* marker -> option *)
Definition conv (inv:Z) (p:Z * Z) : option Z * option Z :=
  (Some (fst p), if snd p =? inv then None else Some (snd p)).

Lemma matches_ne_inv inv key R a : len R <= inv -> In a (matches key R) -> (a =? inv) = false.
Proof. intros Hl Ha. unfold matches in Ha. apply in_matches_from in Ha. lia. Qed.

Lemma map_conv_pairs inv i0 ms : (forall a, In a ms -> (a =? inv) = false) ->
  map (conv inv) (map (fun j => (i0, j)) ms) = map (fun j => (Some i0, Some j)) ms.
Proof.
  intros H. rewrite map_map. apply map_ext_in. intros a Ha. unfold conv. cbn [fst snd]. rewrite (H a Ha). reflexivity.
Qed.

Lemma left_pairs_jf inv R : len R <= inv -> forall L i0,
  left_pairs (map single L) (map single R) i0 = map (conv inv) (jf true inv L R i0).
Proof.
  intros Hl. induction L as [|key t IH]; intros i0; cbn [map left_pairs jf]; [reflexivity|].
  rewrite map_app, <- IH. f_equal. unfold single at 1. rewrite matches_rows_single. unfold row. fold (matches key R).
  pose proof (fun a => matches_ne_inv inv key R a Hl) as Hne.
  destruct (matches key R) as [|m0 ms] eqn:Em.
  - cbn [map]. unfold conv. cbn [fst snd]. rewrite Z.eqb_refl. reflexivity.
  - symmetry. apply map_conv_pairs. exact Hne.
Qed.

Lemma inner_pairs_jf inv R : len R <= inv -> forall L i0,
  inner_pairs (map single L) (map single R) i0 = map (conv inv) (jf false inv L R i0).
Proof.
  intros Hl. induction L as [|key t IH]; intros i0; cbn [map inner_pairs jf]; [reflexivity|].
  rewrite map_app, <- IH. f_equal. unfold single at 1. rewrite matches_rows_single. unfold row. fold (matches key R).
  pose proof (fun a => matches_ne_inv inv key R a Hl) as Hne.
  destruct (matches key R) as [|m0 ms] eqn:Em; [reflexivity|].
  symmetry. apply map_conv_pairs. exact Hne.
Qed.

(* gathering through a marker map = gathering through the option list *)
Definition opt_of (inv k:Z) : option Z := if k =? inv then None else Some k.

Lemma gatherZ_gather c n inv m : in_range_map n inv m ->
  match c with CFix _ _ d => True | CIdx idx _ => len idx - 1 = n end ->
  gatherZ c inv m = gather_col c (map (opt_of inv) m).
Proof.
  intros Hv Hc. destruct c as [z e d|idx vals]; cbn [gatherZ gather_col].
  - f_equal. unfold map_spec. rewrite map_map. apply map_ext. intros k. unfold opt_of. destruct (k =? inv); reflexivity.
  - unfold indexed_spec. cbn [fst snd].
    assert (Hs : map_spec [] (decode idx vals) inv m
                 = map (fun o => match o with Some k => entry idx vals k | None => [] end) (map (opt_of inv) m)).
    { unfold map_spec. rewrite map_map. apply map_ext_in. intros k Hk. unfold opt_of. destruct (k =? inv) eqn:E; [reflexivity|].
      apply (decode_nth idx vals 1 1). rewrite Hc.
      apply In_nth with (d:=0) in Hk. destruct Hk as (q & Hq & Hnth).
      pose proof (Hv (Z.of_nat q)) as Hr. unfold nthZ, nthd, len in Hr. rewrite Nat2Z.id, Hnth in Hr.
      apply Hr; lia. }
    rewrite Hs. reflexivity.
Qed.

Lemma map_opt_fst inv (sp:list (Z * Z)) : (forall p, In p sp -> (fst p =? inv) = false) ->
  map (opt_of inv) (map fst sp) = map fst (map (conv inv) sp).
Proof.
  intros H. rewrite !map_map. apply map_ext_in. intros p Hp. unfold opt_of, conv. cbn [fst]. rewrite (H p Hp). reflexivity.
Qed.

Lemma map_opt_snd inv (sp:list (Z * Z)) : map (opt_of inv) (map snd sp) = map snd (map (conv inv) sp).
Proof. rewrite !map_map. reflexivity. Qed.

Lemma jf_fst_range emit inv R : forall L i0 p, In p (jf emit inv L R i0) -> i0 <= fst p < i0 + len L.
Proof.
  induction L as [|key t IH]; intros i0 p Hp; [destruct Hp|].
  cbn [jf] in Hp. rewrite len_cons. pose proof (len_nonneg t). apply in_app_or in Hp. destruct Hp as [Hp|Hp].
  - unfold row in Hp. destruct (matches key R).
    + destruct emit; [destruct Hp as [<-|[]]; cbn; lia|destruct Hp].
    + apply in_map_iff in Hp. destruct Hp as (j & <- & _). cbn. lia.
  - specialize (IH _ _ Hp). lia.
Qed.

Definition idx_len_ok (n:Z) (cols:frame) : Prop :=
  forall f, In f cols -> match snd f with CFix _ _ _ => True | CIdx idx _ => len idx - 1 = n end.

Lemma side_out_spec cols other suf inv m n ixs :
  in_range_map n inv m -> map (opt_of inv) m = ixs -> idx_len_ok n cols ->
  side_out cols other suf (Some m) inv = map (fun f => (spec_name (fst f) other suf, gather_col (snd f) ixs)) cols.
Proof.
  intros Hv <- Hc. unfold side_out. apply map_ext_in. intros f Hf. f_equal. cbn [out_col].
  apply (gatherZ_gather _ n); [exact Hv|]. specialize (Hc f Hf). destruct (snd f); [exact I|exact Hc].
Qed.

Lemma swap_fst (l:list (option Z * option Z)) : map fst (map swap_pair l) = map snd l.
Proof. rewrite map_map. reflexivity. Qed.
Lemma swap_snd (l:list (option Z * option Z)) : map snd (map swap_pair l) = map fst l.
Proof. rewrite map_map. reflexivity. Qed.

(* Both join maps exist (no unique hint on the b side, or how='inner'): the data columns of the destination
   are merge_spec — every left column gathered through the left side of join_pairs, every right column
   through its right side, in the order of join_pairs. *)
Theorem ordered_dest_is_merge_spec how lu ru lk rk lcols rcols lsuf rsuf :
  let inv := merge_invalid lu ru (len lk) (len rk) in
  how = 0 \/ how = 1 \/ how = 2 ->
  v_writes_l (sel_variant how lu ru) = true ->
  len lk <= inv -> len rk <= inv ->
  idx_len_ok (len lk) lcols -> idx_len_ok (len rk) rcols ->
  ordered_dest how lu ru lk rk lcols rcols lsuf rsuf
  = map_fields (fst (jmaps how lu ru lk rk inv)) (snd (jmaps how lu ru lk rk inv)) ++
    merge_spec how [lk] [rk] lcols rcols lsuf rsuf.
Proof.
  intros inv Hhow Hw HiL HiR HcL HcR.
  unfold ordered_dest. fold inv. unfold jmaps. rewrite Hw.
  unfold merge_spec. rewrite !key_rows_single.
  set (v := sel_variant how lu ru) in *.
  destruct Hhow as [E|[E|E]]; subst how; cbn [Z.eqb Pos.eqb sel_a sel_b fst snd] in *; f_equal.
  - (* left *)
    assert (Hv : v_left v = true) by reflexivity. rewrite Hv.
    unfold join_pairs. cbn [Z.eqb]. rewrite (left_pairs_jf inv rk HiR). rewrite <- jf_spec. f_equal.
    + apply (side_out_spec _ _ _ _ _ (len lk)); [rewrite jf_spec; apply join_fst_in_range| |exact HcL].
      apply map_opt_fst. intros p Hp. pose proof (jf_fst_range _ _ _ _ _ _ Hp). lia.
    + apply (side_out_spec _ _ _ _ _ (len rk)); [rewrite jf_spec; apply join_snd_in_range| |exact HcR].
      apply map_opt_snd.
  - (* right *)
    assert (Hv : v_left v = true) by reflexivity. rewrite Hv.
    unfold join_pairs. cbn [Z.eqb Pos.eqb]. rewrite (left_pairs_jf inv lk HiL). rewrite <- jf_spec.
    rewrite swap_fst, swap_snd. f_equal.
    + apply (side_out_spec _ _ _ _ _ (len lk)); [rewrite jf_spec; apply join_snd_in_range| |exact HcL].
      apply map_opt_snd.
    + apply (side_out_spec _ _ _ _ _ (len rk)); [rewrite jf_spec; apply join_fst_in_range| |exact HcR].
      apply map_opt_fst. intros p Hp. pose proof (jf_fst_range _ _ _ _ _ _ Hp). lia.
  - (* inner *)
    assert (Hv : v_left v = false) by reflexivity. rewrite Hv.
    unfold join_pairs. cbn [Z.eqb Pos.eqb]. rewrite (inner_pairs_jf inv rk HiR). rewrite <- jf_spec. f_equal.
    + apply (side_out_spec _ _ _ _ _ (len lk)); [rewrite jf_spec; apply join_fst_in_range| |exact HcL].
      apply map_opt_fst. intros p Hp. pose proof (jf_fst_range _ _ _ _ _ _ Hp). lia.
    + apply (side_out_spec _ _ _ _ _ (len rk)); [rewrite jf_spec; apply join_snd_in_range| |exact HcR].
      apply map_opt_snd.
Qed.
