(* Proofs/JoinMainKLU.v — end results for the left-unique streamed joins
   (ordered_left_map_left_unique_streamed / ordered_inner_map_left_unique_streamed):
   generic driver theorem (JoinDriver.streamed_ok) + KindOK_LU (JoinLU.v). *)
From Coq Require Import ZArith List Lia Bool ZifyBool.
From EV Require Import Res Arr Join JoinSpec JoinBase JoinIface JoinRows JoinWin JoinDriver JoinLU JoinMain.
Import ListNotations.
Open Scope Z_scope.

(* Left keys strictly increasing, right keys sorted: the streamed left-unique join returns the
   relational join, or raises the ValueError of get_next_chunk, and then only because some
   window of cs right keys is a single run that continues beyond the window. *)
Lemma streamed_left_unique_ok is_left L R inv cs :
  1 <= cs -> ssorted L -> sorted R ->
  streamed (mkvar KLU is_left) L R inv cs = Ok (expected KLU is_left inv L R)
  \/ (streamed (mkvar KLU is_left) L R inv cs = Raise E_ValueError /\ LongRun KLU is_left L R cs).
Proof.
  intros Hcs HL HR.
  exact (streamed_ok KLU is_left L R inv cs (KindOK_LU is_left L R inv cs HL HR) Hcs).
Qed.

(* every window X[a .. a+cs) of cs consecutive keys that does not reach the end of X
   contains two different adjacent keys *)
Definition no_long_run_KLU (cs:Z) (X:list Z) : Prop :=
  forall a, 0 <= a -> a + cs < len X ->
  exists k, a < k < a + cs /\ nthZ X (k - 1) <> nthZ X k.

Lemma no_long_run_KLU_not_LongRun is_left L R cs :
  no_long_run_KLU cs R -> ~ LongRun KLU is_left L R cs.
Proof.
  intros Hno [(Ht & _)|(_ & (a & Ha & Hlen & Hall))].
  - cbv in Ht. discriminate.
  - destruct (Hno a Ha Hlen) as (k & Hk & Hne). apply Hne, Hall, Hk.
Qed.

(* only the right side is trimmed by the left-unique drivers *)
Lemma streamed_left_unique_correct is_left L R inv cs :
  1 <= cs -> ssorted L -> sorted R -> no_long_run_KLU cs R ->
  streamed (mkvar KLU is_left) L R inv cs = Ok (expected KLU is_left inv L R).
Proof.
  intros Hcs HL HR Hno.
  destruct (streamed_left_unique_ok is_left L R inv cs Hcs HL HR) as [H|(_ & Hlong)]; [exact H|].
  exfalso. exact (no_long_run_KLU_not_LongRun is_left L R cs Hno Hlong).
Qed.

(* chunking is unobservable *)
Lemma streamed_left_unique_chunking is_left L R inv cs1 cs2 :
  1 <= cs1 -> 1 <= cs2 -> ssorted L -> sorted R ->
  no_long_run_KLU cs1 R -> no_long_run_KLU cs2 R ->
  streamed (mkvar KLU is_left) L R inv cs1 = streamed (mkvar KLU is_left) L R inv cs2.
Proof.
  intros H1 H2 HL HR Hn1 Hn2.
  rewrite (streamed_left_unique_correct is_left L R inv cs1 H1 HL HR Hn1).
  rewrite (streamed_left_unique_correct is_left L R inv cs2 H2 HL HR Hn2). reflexivity.
Qed.

(* the hypotheses are satisfiable by a non-trivial input (repeated right keys, several chunks) *)
Example streamed_left_unique_hyps_ex :
  let L := [1; 3; 5; 7] in let R := [1; 1; 3; 3; 3; 6; 7; 7] in
  1 <= 4 /\ ssorted L /\ sorted R /\ no_long_run_KLU 4 R /\
  streamed (mkvar KLU true) L R (-1) 4 = Ok ([0; 0; 1; 1; 1; 2; 3; 3], [0; 1; 2; 3; 4; -1; 6; 7]).
Proof.
  cbv zeta. split; [lia|]. split; [apply ssortedb_ssorted; reflexivity|].
  split; [apply sortedb_sorted; reflexivity|]. split; [|vm_compute; reflexivity].
  intros a Ha Hlen. change (len [1; 1; 3; 3; 3; 6; 7; 7]) with 8 in Hlen.
  assert (Hc : a = 0 \/ a = 1 \/ a = 2 \/ a = 3) by lia.
  destruct Hc as [Hc|[Hc|[Hc|Hc]]]; subst a;
    [exists 2|exists 2|exists 5|exists 5]; (split; [lia|vm_compute; discriminate]).
Qed.

(* the error case is real: a window of cs equal right keys that continues beyond it *)
Example streamed_left_unique_long_run_ex :
  streamed (mkvar KLU true) [1] [1; 1; 1] (-1) 2 = Raise E_ValueError /\
  streamed (mkvar KLU false) [1] [1; 1; 1] (-1) 2 = Raise E_ValueError.
Proof. split; vm_compute; reflexivity. Qed.

Print Assumptions streamed_left_unique_ok.
Print Assumptions streamed_left_unique_correct.
Print Assumptions streamed_left_unique_chunking.
