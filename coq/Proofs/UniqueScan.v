(* Proofs/UniqueScan.v — C14: the linear scan get_indexed_string_unique (length pre-filter,
   first-occurrence list, index / inverse / counts). *)
From Coq Require Import ZArith List Lia Bool Sorted Permutation.
From EV Require Import Res Arr UniqueSpec Unique UniqueOrder UniqueStore.
Import ListNotations.
Open Scope Z_scope.

Notation idx_of := (index_of lexcmp).
Notation cnt_of := (count lexcmp).

Lemma list_eqb_true a b : list_eqb a b = true <-> a = b.
Proof.
  revert b. induction a as [|x a IH]; intros [|y b]; cbn [list_eqb]; split; intros H; try discriminate; try reflexivity.
  - apply andb_prop in H. destruct H as [H1 H2]. apply Z.eqb_eq in H1. apply IH in H2. subst. reflexivity.
  - injection H as -> ->. rewrite Z.eqb_refl. apply IH. reflexivity.
Qed.

Lemma list_eqb_eqc a b : list_eqb a b = eqc lexcmp a b.
Proof.
  destruct (list_eqb a b) eqn:E1; symmetry.
  - apply (eqc_true lexcmp lexcmp_eq). apply list_eqb_true. exact E1.
  - apply (eqc_false lexcmp lexcmp_eq). intros ->. assert (list_eqb b b = true) by (apply list_eqb_true; reflexivity).
    congruence.
Qed.

Lemma find_equal_in v us j : In v us -> find_equal v us j = Some (idx_of v us j).
Proof.
  revert j. induction us as [|u t IH]; intros j H; [contradiction|].
  cbn [find_equal index_of]. rewrite list_eqb_eqc. destruct (eqc lexcmp v u) eqn:E; [reflexivity|].
  apply (eqc_false lexcmp lexcmp_eq) in E. destruct H as [->|H]; [congruence|]. apply IH. exact H.
Qed.

Lemma find_equal_notin v us j : ~ In v us -> find_equal v us j = None.
Proof.
  revert j. induction us as [|u t IH]; intros j H; [reflexivity|].
  cbn [find_equal]. destruct (list_eqb v u) eqn:E.
  - apply list_eqb_true in E. subst. exfalso. apply H. left; reflexivity.
  - apply IH. intros Hin. apply H. right; exact Hin.
Qed.

Lemma NoDup_snoc {A} (l:list A) v : NoDup l -> ~ In v l -> NoDup (l ++ [v]).
Proof.
  intros Hn Hv. eapply Permutation_NoDup; [apply Permutation_cons_append|]. constructor; assumption.
Qed.

Lemma nthd_map_in {A B} (d:A) (d':B) (f:A -> B) l k :
  0 <= k < len l -> nthd d' (map f l) k = f (nthd d l k).
Proof.
  intros Hk. unfold nthd. rewrite (nth_indep _ d' (f d)) by (rewrite map_length; unfold len in Hk; lia).
  apply map_nth.
Qed.

Lemma len_map {A B} (f:A -> B) l : len (map f l) = len l.
Proof. unfold len. rewrite map_length. reflexivity. Qed.

(* ---- the invariant after the rows p have been scanned ---- *)
Record inv_ok (wi wv wc:bool) (p:list (list Z)) (s:ustate) : Prop := {
  io_nodup : NoDup (u_res s);
  io_mem : forall x, In x (u_res s) <-> In x p;
  io_lens : forall u, In u (u_res s) -> existsb (Z.eqb (len u)) (u_lens s) = true;
  io_idx : u_idx s = if wi then map (fun x => idx_of x p 0) (u_res s) else [];
  io_inv : u_inv s = if wv then map (fun x => idx_of x (u_res s) 0) p else [];
  io_cnt : u_cnt s = if wc then map (fun x => cnt_of x p) (u_res s) else []
}.

Lemma inv_init wi wv wc : inv_ok wi wv wc [] (mkU [-1] [] [] [] []).
Proof.
  constructor; cbn [u_res u_lens u_idx u_inv u_cnt map].
  - constructor.
  - intros x. reflexivity.
  - intros u [].
  - destruct wi; reflexivity.
  - destruct wv; reflexivity.
  - destruct wc; reflexivity.
Qed.

Lemma idx_of_self v : idx_of v [v] 0 = 0.
Proof. cbn [index_of]. rewrite (eqc_refl lexcmp lexcmp_eq). reflexivity. Qed.

Lemma add_new_ok wi wv wc p s v i lens' :
  inv_ok wi wv wc p s -> ~ In v (u_res s) -> len p = i ->
  (forall l, existsb (Z.eqb l) (u_lens s) = true -> existsb (Z.eqb l) lens' = true) ->
  existsb (Z.eqb (len v)) lens' = true ->
  inv_ok wi wv wc (p ++ [v]) (add_new wi wv wc i v lens' s).
Proof.
  intros [Hnd Hmem Hlens Hidx Hinv Hcnt] Hv Hi Hl1 Hl2.
  assert (Hvp : ~ In v p) by (rewrite <- Hmem; exact Hv).
  constructor; unfold add_new; cbn [u_res u_lens u_idx u_inv u_cnt].
  - apply NoDup_snoc; assumption.
  - intros x. rewrite !in_app_iff, Hmem. reflexivity.
  - intros u Hu. apply in_app_iff in Hu. destruct Hu as [Hu|[<-|[]]]; [apply Hl1, Hlens; exact Hu|exact Hl2].
  - rewrite Hidx. destruct wi; [|reflexivity]. rewrite map_app. cbn [map]. f_equal.
    + apply map_ext_in. intros x Hx. symmetry. apply (index_of_app_in lexcmp lexcmp_eq). apply Hmem. exact Hx.
    + rewrite (index_of_app_notin lexcmp lexcmp_eq) by exact Hvp. rewrite idx_of_self. f_equal. lia.
  - rewrite Hinv. destruct wv; [|reflexivity]. rewrite map_app. cbn [map]. f_equal.
    + apply map_ext_in. intros x Hx. symmetry. apply (index_of_app_in lexcmp lexcmp_eq). apply Hmem. exact Hx.
    + rewrite (index_of_app_notin lexcmp lexcmp_eq) by exact Hv. rewrite idx_of_self, len_app. f_equal.
      unfold len at 2. cbn [length]. lia.
  - rewrite Hcnt. destruct wc; [|reflexivity]. rewrite map_app. cbn [map]. f_equal.
    + apply map_ext_in. intros x Hx. rewrite count_app.
      rewrite (count_notin lexcmp lexcmp_eq x [v]); [lia|]. intros [E|[]]. subst. contradiction.
    + rewrite count_app, (count_notin lexcmp lexcmp_eq v p) by exact Hvp.
      rewrite count_cons, (eqc_refl lexcmp lexcmp_eq), count_nil. reflexivity.
Qed.

Lemma seen_ok wi wv wc p s v :
  inv_ok wi wv wc p s -> In v (u_res s) ->
  let j := idx_of v (u_res s) 0 in
  exists cnt',
    (if wc then (do old <- get 8 (u_cnt s) j; set 9 (u_cnt s) j (old + 1)) else Ok (u_cnt s)) = Ok cnt' /\
    inv_ok wi wv wc (p ++ [v])
           (mkU (u_lens s) (u_res s) (u_idx s) (if wv then u_inv s ++ [j] else u_inv s) cnt').
Proof.
  intros [Hnd Hmem Hlens Hidx Hinv Hcnt] Hv j.
  assert (Hj : 0 <= j < len (u_res s)) by (apply (index_of_in lexcmp lexcmp_eq); exact Hv).
  assert (Hjv : nthd [] (u_res s) j = v) by (apply (index_of_nth lexcmp lexcmp_eq); exact Hv).
  exists (if wc then map (fun x => cnt_of x (p ++ [v])) (u_res s) else []). split.
  - rewrite Hcnt. destruct wc; [|reflexivity].
    rewrite (get_ok 8 0) by (rewrite len_map; exact Hj). cbn [bind].
    rewrite set_ok by (rewrite len_map; exact Hj). f_equal.
    apply (list_eq_nthd 0).
    + rewrite len_upd, !len_map. reflexivity.
    + intros k Hk. rewrite len_upd, len_map in Hk.
      rewrite (nthd_map_in [] 0 (fun x => cnt_of x (p ++ [v])) (u_res s) k) by exact Hk.
      rewrite count_app, count_cons, count_nil.
      destruct (Z.eq_dec k j) as [->|Hne].
      * rewrite nthd_upd_same by (rewrite len_map; exact Hj). unfold nthZ.
        rewrite (nthd_map_in [] 0 (fun x => cnt_of x p) (u_res s) j) by exact Hj.
        rewrite Hjv, (eqc_refl lexcmp lexcmp_eq). lia.
      * rewrite nthd_upd_other by lia. rewrite (nthd_map_in [] 0 (fun x => cnt_of x p) (u_res s) k) by exact Hk.
        destruct (eqc lexcmp (nthd [] (u_res s) k) v) eqn:E; [|lia].
        apply (eqc_true lexcmp lexcmp_eq) in E. exfalso. apply Hne.
        rewrite <- (index_of_NoDup_nth lexcmp lexcmp_eq [] (u_res s) k Hnd Hk). rewrite E. reflexivity.
  - constructor; cbn [u_res u_lens u_idx u_inv u_cnt].
    + exact Hnd.
    + intros x. rewrite in_app_iff, Hmem. split; [tauto|]. intros [H|[<-|[]]]; [exact H|apply Hmem; exact Hv].
    + exact Hlens.
    + rewrite Hidx. destruct wi; [|reflexivity]. apply map_ext_in. intros x Hx. symmetry.
      apply (index_of_app_in lexcmp lexcmp_eq). apply Hmem. exact Hx.
    + rewrite Hinv. destruct wv; [|reflexivity]. rewrite map_app. reflexivity.
    + reflexivity.
Qed.

Lemma existsb_cons_mono l x lens : existsb (Z.eqb l) lens = true -> existsb (Z.eqb l) (x :: lens) = true.
Proof. intros H. cbn [existsb]. rewrite H. apply orb_true_r. Qed.

(* one row *)
Lemma uniq_step_ok wi wv wc xs ind vals s i :
  stored xs ind vals -> 0 <= i < len xs ->
  inv_ok wi wv wc (firstn (Z.to_nat i) xs) s ->
  exists s', uniq_step wi wv wc ind vals s i = Ok s' /\
             inv_ok wi wv wc (firstn (Z.to_nat (i + 1)) xs) s'.
Proof.
  intros Hst Hi Hinv.
  destruct (stored_row xs ind vals i Hst Hi) as [a [b [Ha [Hb [Hlen Hrow]]]]].
  rewrite (firstn_snoc [] xs i Hi). set (v := nthd [] xs i) in *. set (p := firstn (Z.to_nat i) xs) in *.
  assert (Hp : len p = i).
  { unfold p, len. rewrite firstn_length. unfold len in Hi. lia. }
  unfold uniq_step. rewrite Hb, Ha. cbn [bind]. rewrite Hrow, Hlen.
  destruct (existsb (Z.eqb (len v)) (u_lens s)) eqn:E; cbn [negb].
  - destruct (in_dec (dec_eq lexcmp lexcmp_eq) v (u_res s)) as [Hin|Hnin].
    + rewrite find_equal_in by exact Hin.
      destruct (seen_ok wi wv wc p s v Hinv Hin) as [cnt' [Hc Hok]]. cbn zeta in Hc, Hok.
      rewrite Hc. cbn [bind]. eexists. split; [reflexivity|exact Hok].
    + rewrite find_equal_notin by exact Hnin. eexists. split; [reflexivity|].
      apply add_new_ok; auto.
  - eexists. split; [reflexivity|]. apply add_new_ok; auto.
    + intros Hin. rewrite (io_lens _ _ _ _ _ Hinv v Hin) in E. discriminate.
    + intros l Hl. apply existsb_cons_mono. exact Hl.
    + cbn [existsb]. rewrite Z.eqb_refl. reflexivity.
Qed.

Lemma uniq_loop_ok wi wv wc xs ind vals :
  stored xs ind vals ->
  forall n i s, 0 <= i -> i + Z.of_nat n = len xs ->
  inv_ok wi wv wc (firstn (Z.to_nat i) xs) s ->
  exists s', uniq_loop wi wv wc ind vals n i s = Ok s' /\ inv_ok wi wv wc xs s'.
Proof.
  intros Hst. induction n as [|n IH]; intros i s Hi Hn Hinv; cbn [uniq_loop].
  - exists s. split; [reflexivity|]. rewrite firstn_all2 in Hinv by (unfold len in Hn; lia). exact Hinv.
  - destruct (uniq_step_ok wi wv wc xs ind vals s i Hst) as [s1 [H1 Hinv1]]; [lia|exact Hinv|].
    rewrite H1. cbn [bind]. apply IH; [lia|lia|exact Hinv1].
Qed.

(* unique_scan_correct: the scan returns the distinct rows (each once), and — when requested —
   the first-occurrence index of each, the position of every row among them, and the multiplicities *)
Theorem unique_scan_correct wi wv wc xs ind vals :
  stored xs ind vals ->
  exists s, get_indexed_string_unique wi wv wc ind vals = Ok s /\ inv_ok wi wv wc xs s.
Proof.
  intros Hst. unfold get_indexed_string_unique. rewrite (stored_rows xs ind vals Hst).
  apply (uniq_loop_ok wi wv wc xs ind vals Hst); [lia|unfold len; lia|apply inv_init].
Qed.
