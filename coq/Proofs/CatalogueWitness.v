(* Proofs/CatalogueWitness.v — corollaries for whole histories, non-vacuity examples, and the vm_compute
   witnesses that refute the code as found (F-C15a, F-C15b). *)
From Coq Require Import ZArith List Bool.
From EV Require Import Res Catalogue CatalogueSpec CatalogueBase CatalogueInv CatalogueRename CatalogueStep CatalogueObs.
Import ListNotations.
Open Scope Z_scope.

Lemma names_are_groups : forall c ops held,
  fix_a c = true -> fix_b c = true -> chk_inv (observe (run_ops c ops init_state) held) = true.
Proof. intros c ops held FA FB. apply Inv_chk_inv. apply reachable_Inv; assumption. Qed.

Lemma reopen_same : forall c ops i d n,
  fix_a c = true -> fix_b c = true ->
  live_lookup (run_ops c ops init_state) i d n = file_lookup (run_ops c ops init_state) i d n.
Proof. intros c ops i d n FA FB. apply Inv_reopen_same. apply reachable_Inv; assumption. Qed.

Definition repaired : cfg := mkCfg true true true.
Definition as_found : cfg := mkCfg false false false.
Definition D : name := [100].  Definition E : name := [101].
Definition A : name := [97].   Definition B : name := [98].  Definition A_ : name := [97; 95].
Definition two_cols : list op := [OCreateDF 0 D; OCreate 0 D A 0 [1]; OCreate 0 D B 1 [2]].
Definition two_frames : list op := [OCreateDF 0 D; OCreate 0 D A 0 [1]; OCreateDF 0 E].

(* the hypotheses of the theorems are satisfiable: the repaired model performs the colliding rename; the
   handles (ids 2 and 3) report the new names, types and data *)
Example repaired_rename_ok :
  let s := run_ops repaired two_cols init_state in
  let (s', r) := step repaired (ORename 0 D [(A, A_); (B, A)]) s in
  is_ok r = true /\ chk_inv (observe s' [2; 3]) = true /\
  map (observe_handle s') [2; 3] = [HLive 0 D A_ 0 [1]; HLive 0 D A 1 [2]].
Proof. vm_compute. auto. Qed.

Example repaired_move_ok :
  let s := run_ops repaired two_frames init_state in
  let (s', r) := step repaired (OFMove 0 D A 0 E B) s in
  is_ok r = true /\ map (observe_handle s') (rescan s' [2]) = [HInvalid; HLive 0 E B 0 [1]].
Proof. vm_compute. auto. Qed.

Lemma rename_temp_collision_witness :
  let s := run_ops as_found two_cols init_state in
  let (s', r) := step as_found (ORename 0 D [(A, A_); (B, A)]) s in
  chk_inv (observe s []) = true /\ is_ok r = false /\ chk_inv (observe s' []) = false /\
  obs_eqb (observe s []) (observe s' []) = false.
Proof. vm_compute. auto. Qed.

Lemma as_found_breaks_inv_a : exists ops, ~ Inv (run_ops as_found ops init_state).
Proof.
  exists (two_cols ++ [ORename 0 D [(A, A_); (B, A)]]). apply (chk_inv_false_not_Inv _ []). vm_compute. reflexivity.
Qed.

Lemma dataset_setitem_clash_witness :
  let s := run_ops as_found two_frames init_state in
  let (s', r) := step as_found (ODSSetItem 0 E 0 D) s in
  chk_inv (observe s []) = true /\ is_ok r = false /\ chk_inv (observe s' []) = false.
Proof. vm_compute. auto. Qed.

Lemma as_found_breaks_inv_b : exists ops, ~ Inv (run_ops as_found ops init_state).
Proof.
  exists (two_frames ++ [ODSSetItem 0 E 0 D]). apply (chk_inv_false_not_Inv _ []). vm_compute. reflexivity.
Qed.
