From Coq Require Import List.
Search skipn (_ + _)%nat.
Search skipn app.
