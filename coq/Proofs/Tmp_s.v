From Coq Require Import ZArith List.
From EV Require Import Res Arr Spans SpansSpec SpansBase SpansRef SpansKernels SpansSorted SpansOrder SpansReduce SpansIndexedReduce SpansMain FilterIndexSort FilterIndexFrames FilterIndexKernels.
Search adj_any_eq.
Check @apply_spans_max_pf. Check @apply_spans_last_pf. Check @apply_spans_index_of_first_ref. Check @apply_spans_index_of_last_ref.
Search psums sorted.
Search (len (psums _)).
Search select_body wf_body.
Print valid_spans.
Search span_pairs In.
Search reduce_spans.
