From Coq Require Import ZArith List.
From EV Require Import Res Arr Spans SpansSpec SpansBase SpansRef SpansKernels SpansSorted SpansOrder SpansReduce SpansIndexedReduce SpansMain FilterIndexSort.
Check @list_neqb_spec. Check @get_spans_for_multi_fields_ref. Check @check_if_sorted_ref. Print zrange.
Check @apply_spans_min_pf. Check @apply_spans_first_pf. Check @string_argmin_pf. Check @apply_spans_count_ref.
Check @is_spans_range_pf. Check @is_spans_valid_pf. Check @map_res_ok. Check @np_take_ok.
Search spans_ref is_spans.
Search valid_spans spans_ref.
Search indexed_rows.
