(* Proofs/FieldAliasProofs.v — C01, Part 2 of Model/FieldWorld.v: fields hold values, not objects.
   The heap model (arrays with identity; MemoryFieldArray._dataset is a reference) simulates the
   value semantics of Spec/FieldWorldSpec.v on every history that does not hand an array over with
   move_mem=True: field storage is always a fresh object, so no caller array and no other field
   ever shares it (separation invariant). *)
From Coq Require Import ZArith List Lia Bool.
From EV Require Import Res Arr IdxWriter IdxWriterSpec StoreProofs FieldWorld FieldWorldSpec FieldWorldProofs.
Import ListNotations.
Open Scope Z_scope.

(* ---- more get / set ------------------------------------------------------------------------ *)
Section GS2.
Context {X:Type}.

Lemma atZ_get s (l:list X) i x : atZ l i = Some x -> get s l i = Ok x.
Proof. unfold atZ, get. destruct (i <? 0); [discriminate|]. intros ->. reflexivity. Qed.

Lemma get_cons_0 s (a:X) t : get s (a :: t) 0 = Ok a.
Proof. reflexivity. Qed.

Lemma get_cons_succ s (a:X) t i : 0 <= i -> get s (a :: t) (i + 1) = get s t i.
Proof.
  intros Hi. unfold get. destruct (Z.ltb_spec (i + 1) 0); [lia|]. destruct (Z.ltb_spec i 0); [lia|].
  replace (Z.to_nat (i + 1)) with (S (Z.to_nat i)) by lia. reflexivity.
Qed.

Lemma get_app_inv s (l:list X) x k y : get s (l ++ [x]) k = Ok y ->
  get s l k = Ok y \/ (k = len l /\ y = x).
Proof.
  intros H. pose proof (get_Ok_inv _ _ _ _ H) as R. rewrite len_app in R.
  assert (L1 : len [x] = 1) by reflexivity. rewrite L1 in R.
  destruct (Z_lt_dec k (len l)) as [Hk|Hk].
  - left. rewrite (get_ok s y) in H by (rewrite len_app; lia). rewrite nthd_app_l in H by lia.
    rewrite (get_ok s y) by lia. exact H.
  - right. assert (k = len l) by lia. subst k. split; [reflexivity|].
    rewrite get_app_new in H. inversion H. reflexivity.
Qed.

Lemma upd_same s (l:list X) i x : get s l i = Ok x -> upd l i x = l.
Proof.
  intros H. pose proof (get_Ok_inv _ _ _ _ H) as R.
  apply (list_eq_nthd x).
  - rewrite len_upd. reflexivity.
  - intros j Hj. rewrite len_upd in Hj. destruct (Z.eq_dec i j) as [<-|Hij].
    + rewrite nthd_upd_same by exact R. rewrite (get_ok s x) in H by exact R. inversion H. congruence.
    + rewrite nthd_upd_other by lia. reflexivity.
Qed.

Lemma get_map {Y} s (g:X -> Y) (l:list X) i y : get s (map g l) i = Ok y ->
  exists x, get s l i = Ok x /\ y = g x.
Proof.
  unfold get. destruct (i <? 0); [discriminate|]. rewrite nth_error_map.
  destruct (nth_error l (Z.to_nat i)); cbn; [|discriminate]. intros H. inversion H. eauto.
Qed.

Lemma len_map {Y} (g:X -> Y) (l:list X) : len (map g l) = len l.
Proof. unfold len. rewrite map_length. reflexivity. Qed.

End GS2.

Section GS3.
Context {X:Type}.
(* pointwise agreement of two lists through a partial function = map_res *)
Lemma map_res_pointwise {Y} (f:X -> res Y) : forall (l:list X) (l':list Y),
  len l = len l' ->
  (forall i x, get 0 l i = Ok x -> exists y, f x = Ok y /\ get 0 l' i = Ok y) ->
  map_res f l = Ok l'.
Proof.
  induction l as [|a t IH]; intros l' L P.
  - destruct l'; [reflexivity|]. rewrite len_cons, len_nil in L. pose proof (len_nonneg l'). lia.
  - destruct l' as [|b t']; [rewrite len_cons, len_nil in L; pose proof (len_nonneg t); lia|].
    cbn [map_res]. destruct (P 0 a (get_cons_0 0 a t)) as (y & Fy & Gy). cbn in Gy. inversion Gy; subst y.
    rewrite Fy. cbn [bind]. rewrite (IH t'); [reflexivity| |].
    + rewrite !len_cons in L. lia.
    + intros i x G. pose proof (get_Ok_inv _ _ _ _ G) as R.
      destruct (P (i + 1) x) as (y & Fy' & Gy').
      * rewrite get_cons_succ by lia. exact G.
      * rewrite get_cons_succ in Gy' by lia. eauto.
Qed.
End GS3.

Section Alias.
Context {A:Type}.
Variable zero : A.

Notation aworld := (aworld A).
Notation hstore := (hstore A).

(* ---- the simulation relation ---------------------------------------------------------------- *)
Record Rel (w:aworld) (v:@vworld A) : Prop := mkRel {
  R_lc : len (aw_callers w) = len (fst v);
  R_lf : len (aw_fields w) = len (snd v);
  R_c : forall k r, get 0 (aw_callers w) k = Ok r ->
        exists l, get 0 (aw_heap w) r = Ok l /\ get 0 (fst v) k = Ok l;
  R_f : forall f s, get 0 (aw_fields w) f = Ok s ->
        exists l, field_data (aw_heap w) s = Ok l /\ get 0 (snd v) f = Ok l;
  (* separation: no two names for one object *)
  S_cc : forall k k' r, get 0 (aw_callers w) k = Ok r -> get 0 (aw_callers w) k' = Ok r -> k = k';
  S_ff : forall f f' r, get 0 (aw_fields w) f = Ok (HMem (Some r)) ->
         get 0 (aw_fields w) f' = Ok (HMem (Some r)) -> f = f';
  S_cf : forall k f r, get 0 (aw_callers w) k = Ok r -> get 0 (aw_fields w) f = Ok (HMem (Some r)) -> False
}.

Lemma field_data_app (h ext:heap) (s:hstore) l : field_data h s = Ok l -> field_data (h ++ ext) s = Ok l.
Proof.
  destruct s as [[r|]|d]; cbn [field_data]; auto.
  intros H. pose proof (get_Ok_inv _ _ _ _ H) as R.
  rewrite (get_ok 41 l) in H by exact R.
  rewrite (get_ok 41 l) by (rewrite len_app; pose proof (len_nonneg ext); lia).
  rewrite nthd_app_l by exact R. exact H.
Qed.

Lemma get_app_l_gen {X} s (l1 l2:list X) i v : get s l1 i = Ok v -> get s (l1 ++ l2) i = Ok v.
Proof.
  intros H. pose proof (get_Ok_inv _ _ _ _ H) as R. rewrite (get_ok s v) in H by exact R.
  rewrite (get_ok s v) by (rewrite len_app; pose proof (len_nonneg l2); lia).
  rewrite nthd_app_l by exact R. exact H.
Qed.

Lemma field_ref_in_heap w v f r : Rel w v -> get 0 (aw_fields w) f = Ok (HMem (Some r)) ->
  0 <= r < len (aw_heap w).
Proof.
  intros HR G. destruct (R_f _ _ HR f _ G) as (l & Fd & _). cbn [field_data] in Fd.
  apply (get_Ok_inv _ _ _ _ Fd).
Qed.

Lemma caller_ref_in_heap w v k r : Rel w v -> get 0 (aw_callers w) k = Ok r -> 0 <= r < len (aw_heap w).
Proof.
  intros HR G. destruct (R_c _ _ HR k _ G) as (l & Gh & _). apply (get_Ok_inv _ _ _ _ Gh).
Qed.

(* ---- the four ways a step changes the world --------------------------------------------------- *)
(* a new caller array *)
Lemma Rel_new h cs fs cv fv x :
  Rel (mkAW h cs fs) (cv, fv) -> Rel (mkAW (h ++ [x]) (cs ++ [len h]) fs) (cv ++ [x], fv).
Proof.
  intros HR. pose proof (R_lc _ _ HR) as Lc. cbn [aw_callers fst] in Lc.
  constructor; cbn [aw_callers aw_fields aw_heap fst snd].
  - rewrite !len_app, Lc. reflexivity.
  - apply (R_lf _ _ HR).
  - intros k r G. apply get_app_inv in G. destruct G as [G|(-> & ->)].
    + destruct (R_c _ _ HR k r G) as (l & Gh & Gv). cbn [aw_heap fst] in *.
      exists l. split; apply get_app_l_gen; assumption.
    + exists x. split; [apply get_app_new|]. rewrite Lc. apply get_app_new.
  - intros f s G. destruct (R_f _ _ HR f s G) as (l & Fd & Gv). cbn [aw_heap snd] in *.
    exists l. split; [apply field_data_app; exact Fd|exact Gv].
  - intros k k' r G G'. apply get_app_inv in G. apply get_app_inv in G'.
    destruct G as [G|(-> & ->)], G' as [G'|(E' & E2)].
    + apply (S_cc _ _ HR k k' r G G').
    + subst. pose proof (caller_ref_in_heap _ _ _ _ HR G) as R. cbn [aw_heap] in R. lia.
    + pose proof (caller_ref_in_heap _ _ _ _ HR G') as R. cbn [aw_heap] in R. lia.
    + subst. reflexivity.
  - apply (S_ff _ _ HR).
  - intros k f r G Gf. apply get_app_inv in G. destruct G as [G|(-> & ->)].
    + apply (S_cf _ _ HR k f r G Gf).
    + pose proof (field_ref_in_heap _ _ _ _ HR Gf) as R. cbn [aw_heap] in R. lia.
Qed.

(* the caller changes one of its arrays in place *)
Lemma Rel_upd_caller h cs fs cv fv k r x :
  Rel (mkAW h cs fs) (cv, fv) -> get 0 cs k = Ok r ->
  Rel (mkAW (upd h r x) cs fs) (upd cv k x, fv).
Proof.
  intros HR Gk. pose proof (caller_ref_in_heap _ _ _ _ HR Gk) as Rr. cbn [aw_heap] in Rr.
  pose proof (get_Ok_inv _ _ _ _ Gk) as Rk. pose proof (R_lc _ _ HR) as Lc. cbn [aw_callers fst] in Lc.
  constructor; cbn [aw_callers aw_fields aw_heap fst snd].
  - rewrite len_upd. exact Lc.
  - apply (R_lf _ _ HR).
  - intros k' r' G. destruct (Z.eq_dec k k') as [<-|Hk].
    + rewrite Gk in G. inversion G; subst r'. exists x. split; apply get_upd_same; lia.
    + assert (r <> r') by (intros ->; apply Hk; apply (S_cc _ _ HR k k' r' Gk G)).
      destruct (R_c _ _ HR k' r' G) as (l & Gh & Gv). cbn [aw_heap fst] in *.
      exists l. split; rewrite get_upd_other by lia; assumption.
  - intros f s G. destruct (R_f _ _ HR f s G) as (l & Fd & Gv). cbn [aw_heap snd] in *.
    exists l. split; [|exact Gv]. destruct s as [[r'|]|d]; cbn [field_data] in *; auto.
    rewrite get_upd_other; [exact Fd|lia|]. intros ->. apply (S_cf _ _ HR k f r' Gk G).
  - apply (S_cc _ _ HR).
  - apply (S_ff _ _ HR).
  - apply (S_cf _ _ HR).
Qed.

(* field f gets a store that names no existing object (a fresh array, an HDF5 dataset, None) *)
Lemma Rel_field_upd h ext cs fs cv fv f s' x :
  Rel (mkAW h cs fs) (cv, fv) -> 0 <= f < len fs ->
  field_data (h ++ ext) s' = Ok x ->
  (forall r, s' = HMem (Some r) -> len h <= r) ->
  Rel (mkAW (h ++ ext) cs (upd fs f s')) (cv, upd fv f x).
Proof.
  intros HR Rf Fd' Fresh. pose proof (R_lf _ _ HR) as Lf. cbn [aw_fields snd] in Lf.
  constructor; cbn [aw_callers aw_fields aw_heap fst snd].
  - apply (R_lc _ _ HR).
  - rewrite !len_upd. exact Lf.
  - intros k r G. destruct (R_c _ _ HR k r G) as (l & Gh & Gv). cbn [aw_heap fst] in *.
    exists l. split; [apply get_app_l_gen; exact Gh|exact Gv].
  - intros f' s G. destruct (Z.eq_dec f f') as [<-|Hf].
    + rewrite get_upd_same in G by exact Rf. inversion G; subst s. exists x. split; [exact Fd'|].
      apply get_upd_same. lia.
    + rewrite get_upd_other in G by lia. destruct (R_f _ _ HR f' s G) as (l & Fd & Gv). cbn [aw_heap snd] in *.
      exists l. split; [apply field_data_app; exact Fd|]. rewrite get_upd_other by lia. exact Gv.
  - apply (S_cc _ _ HR).
  - intros f1 f2 r G1 G2.
    destruct (Z.eq_dec f f1) as [<-|H1], (Z.eq_dec f f2) as [<-|H2]; [reflexivity| | |].
    + rewrite get_upd_same in G1 by exact Rf. inversion G1 as [E]. rewrite get_upd_other in G2 by lia.
      pose proof (field_ref_in_heap _ _ _ _ HR G2) as R. cbn [aw_heap] in R. pose proof (Fresh r E). lia.
    + rewrite get_upd_same in G2 by exact Rf. inversion G2 as [E]. rewrite get_upd_other in G1 by lia.
      pose proof (field_ref_in_heap _ _ _ _ HR G1) as R. cbn [aw_heap] in R. pose proof (Fresh r E). lia.
    + rewrite get_upd_other in G1, G2 by lia. apply (S_ff _ _ HR f1 f2 r G1 G2).
  - intros k f' r G Gf. destruct (Z.eq_dec f f') as [<-|Hf].
    + rewrite get_upd_same in Gf by exact Rf. inversion Gf as [E].
      pose proof (caller_ref_in_heap _ _ _ _ HR G) as R. cbn [aw_heap] in R. pose proof (Fresh r E). lia.
    + rewrite get_upd_other in Gf by lia. apply (S_cf _ _ HR k f' r G Gf).
Qed.

(* field f's own array is changed in place *)
Lemma Rel_upd_fieldref h cs fs cv fv f r x :
  Rel (mkAW h cs fs) (cv, fv) -> get 0 fs f = Ok (HMem (Some r)) ->
  Rel (mkAW (upd h r x) cs fs) (cv, upd fv f x).
Proof.
  intros HR Gf. pose proof (field_ref_in_heap _ _ _ _ HR Gf) as Rr. cbn [aw_heap] in Rr.
  pose proof (get_Ok_inv _ _ _ _ Gf) as Rf. pose proof (R_lf _ _ HR) as Lf. cbn [aw_fields snd] in Lf.
  constructor; cbn [aw_callers aw_fields aw_heap fst snd].
  - apply (R_lc _ _ HR).
  - rewrite len_upd. exact Lf.
  - intros k r' G. destruct (R_c _ _ HR k r' G) as (l & Gh & Gv). cbn [aw_heap fst] in *.
    exists l. split; [|exact Gv]. rewrite get_upd_other; [exact Gh|lia|].
    intros ->. apply (S_cf _ _ HR k f r' G Gf).
  - intros f' s G. destruct (Z.eq_dec f f') as [<-|Hf].
    + rewrite Gf in G. inversion G; subst s. exists x. cbn [field_data].
      split; apply get_upd_same; lia.
    + destruct (R_f _ _ HR f' s G) as (l & Fd & Gv). cbn [aw_heap snd] in *.
      exists l. split; [|rewrite get_upd_other by lia; exact Gv].
      destruct s as [[r'|]|d]; cbn [field_data] in *; auto.
      rewrite get_upd_other; [exact Fd|lia|]. intros ->. apply Hf. apply (S_ff _ _ HR f f' r' Gf G).
  - apply (S_cc _ _ HR).
  - apply (S_ff _ _ HR).
  - apply (S_cf _ _ HR).
Qed.

(* ---- pieces of the step ------------------------------------------------------------------------ *)
Lemma np_assign_all (l vals:list A) : len vals = len l -> np_assign l 0 (len l) vals = Ok vals.
Proof.
  intros H. pose proof (np_assign_mid [] l [] vals H) as P. rewrite len_nil, !app_nil_r in P.
  cbn [app] in P. rewrite Z.add_0_l in P. exact P.
Qed.

Lemma arr_setitem_ok (l:list A) i x : inrange l i = true -> arr_setitem l i x = Ok (upd l i x).
Proof.
  unfold inrange, arr_setitem. intros H. apply andb_true_iff in H. destruct H as (H1 & H2).
  apply Z.leb_le in H1. apply Z.ltb_lt in H2. destruct (Z.ltb_spec i 0); [lia|]. apply set_ok. lia.
Qed.

Lemma np_slice_sub (l:list A) a b p : sub l a b = Some p -> np_slice l a b = p.
Proof.
  unfold sub. destruct ((0 <=? a) && (a <=? b) && (b <=? len l)) eqn:E; [|discriminate].
  apply andb_true_iff in E. destruct E as (E & E3). apply andb_true_iff in E. destruct E as (E1 & E2).
  apply Z.leb_le in E1, E2, E3. intros H. inversion H. unfold np_slice.
  rewrite !np_norm_id by lia. reflexivity.
Qed.

Lemma resolve_ok w v x p : Rel w v -> v_resolve v x = Some p -> resolve w x = Ok p.
Proof.
  intros HR H. destruct x as [k|k a b|g a b]; cbn [v_resolve resolve] in *.
  - apply (atZ_get 0) in H. pose proof (get_Ok_inv _ _ _ _ H) as Rk. rewrite <- (R_lc _ _ HR) in Rk.
    destruct (aw_callers w) as [|c0 ct] eqn:Ec; [unfold len in Rk; cbn in Rk; lia|]. rewrite <- Ec in *.
    pose proof (get_ok 0 c0 _ k Rk) as Gk. destruct (R_c _ _ HR k _ Gk) as (l & Gh & Gv).
    rewrite H in Gv. inversion Gv; subst l.
    rewrite (get_site _ 42 _ _ _ Gk). cbn [bind]. apply (get_site _ 43 _ _ _ Gh).
  - destruct (atZ (fst v) k) as [l|] eqn:E; [|discriminate]. apply (atZ_get 0) in E.
    pose proof (get_Ok_inv _ _ _ _ E) as Rk. rewrite <- (R_lc _ _ HR) in Rk.
    destruct (aw_callers w) as [|c0 ct] eqn:Ec; [unfold len in Rk; cbn in Rk; lia|]. rewrite <- Ec in *.
    pose proof (get_ok 0 c0 _ k Rk) as Gk. destruct (R_c _ _ HR k _ Gk) as (l' & Gh & Gv).
    rewrite E in Gv. inversion Gv; subst l'.
    rewrite (get_site _ 42 _ _ _ Gk). cbn [bind]. rewrite (get_site _ 43 _ _ _ Gh). cbn [bind].
    rewrite (np_slice_sub _ _ _ _ H). reflexivity.
  - destruct (atZ (snd v) g) as [l|] eqn:E; [|discriminate]. apply (atZ_get 0) in E.
    pose proof (get_Ok_inv _ _ _ _ E) as Rg. rewrite <- (R_lf _ _ HR) in Rg.
    destruct (aw_fields w) as [|s0 st] eqn:Ef; [unfold len in Rg; cbn in Rg; lia|]. rewrite <- Ef in *.
    pose proof (get_ok 0 s0 _ g Rg) as Gg. destruct (R_f _ _ HR g _ Gg) as (l' & Fd & Gv).
    rewrite E in Gv. inversion Gv; subst l'.
    rewrite (get_site _ 44 _ _ _ Gg). cbn [bind]. rewrite Fd. cbn [bind].
    rewrite (np_slice_sub _ _ _ _ H). reflexivity.
Qed.

(* the field named by the spec exists in the model, with the same content *)
Lemma field_lookup w v f l : Rel w v -> atZ (snd v) f = Some l ->
  exists s, get 0 (aw_fields w) f = Ok s /\ field_data (aw_heap w) s = Ok l /\ 0 <= f < len (aw_fields w).
Proof.
  intros HR E. apply (atZ_get 0) in E. pose proof (get_Ok_inv _ _ _ _ E) as Rf. rewrite <- (R_lf _ _ HR) in Rf.
  destruct (aw_fields w) as [|s0 st] eqn:Ef; [unfold len in Rf; cbn in Rf; lia|]. rewrite <- Ef in *.
  pose proof (get_ok 0 s0 _ f Rf) as Gf. destruct (R_f _ _ HR f _ Gf) as (l' & Fd & Gv).
  rewrite E in Gv. inversion Gv; subst l'. eauto.
Qed.

Lemma caller_lookup w v k l : Rel w v -> atZ (fst v) k = Some l ->
  exists r, get 0 (aw_callers w) k = Ok r /\ get 0 (aw_heap w) r = Ok l.
Proof.
  intros HR E. apply (atZ_get 0) in E. pose proof (get_Ok_inv _ _ _ _ E) as Rk. rewrite <- (R_lc _ _ HR) in Rk.
  destruct (aw_callers w) as [|c0 ct] eqn:Ec; [unfold len in Rk; cbn in Rk; lia|]. rewrite <- Ec in *.
  pose proof (get_ok 0 c0 _ k Rk) as Gk. destruct (R_c _ _ HR k _ Gk) as (l' & Gh & Gv).
  rewrite E in Gv. inversion Gv; subst l'. eauto.
Qed.

(* write_part on the store of a field: a store naming no existing object, holding old ++ part *)
Lemma hst_write_part_ok h s l part : field_data h s = Ok l ->
  exists ext s', hst_write_part zero h s part None = Ok (h ++ ext, s')
    /\ field_data (h ++ ext) s' = Ok (l ++ part)
    /\ (forall r, s' = HMem (Some r) -> len h <= r).
Proof.
  intros Fd. destruct s as [[r|]|d]; cbn [field_data] in Fd; cbn [hst_write_part hmem_write_part].
  - rewrite (get_site _ 40 _ _ _ Fd). cbn [bind].
    pose proof (mem_write_part_some zero l part) as M. unfold mem_write_part in M.
    apply bind_ok in M. destruct M as (n1 & E1 & M). apply bind_ok in M. destruct M as (n2 & E2 & M).
    inversion M; subst n2. rewrite E1. cbn [bind]. rewrite E2. cbn [bind alloc].
    exists [l ++ part], (HMem (Some (len h))). split; [reflexivity|]. split.
    + cbn [field_data]. apply get_app_new.
    + intros r' E. inversion E. lia.
  - inversion Fd; subst l. cbn [alloc bind app].
    exists [part], (HMem (Some (len h))). split; [reflexivity|]. split.
    + cbn [field_data]. apply get_app_new.
    + intros r' E. inversion E. lia.
  - inversion Fd; subst l. rewrite h5_write_part_ok. cbn [bind].
    exists [], (HH5 (d ++ part)). rewrite app_nil_r. split; [reflexivity|]. split; [reflexivity|].
    intros r' E. discriminate.
Qed.

(* ---- one step ---------------------------------------------------------------------------------- *)
Lemma aw_op_sim w v o v' : Rel w v -> v_op v o = Some v' ->
  exists w', aw_op zero w o = Ok w' /\ Rel w' v'.
Proof.
  intros HR Hv. destruct w as [h cs fs]. destruct v as [cv fv].
  destruct o as [vals|k vals|k i x|f x|f k same|f|f i x|f]; cbn [v_op] in Hv; cbn [aw_op aw_heap aw_callers aw_fields].
  - (* CNew *) inversion Hv; subst v'. cbn [alloc]. eexists. split; [reflexivity|]. apply Rel_new. exact HR.
  - (* CFill *)
    destruct (atZ cv k) as [l|] eqn:E; [|discriminate].
    destruct (len vals =? len l) eqn:EL; [|discriminate]. apply Z.eqb_eq in EL. inversion Hv; subst v'.
    destruct (caller_lookup _ _ k l HR E) as (r & Gk & Gh). cbn [aw_callers aw_heap] in *.
    rewrite (get_site _ 42 _ _ _ Gk). cbn [bind]. rewrite (get_site _ 43 _ _ _ Gh). cbn [bind].
    rewrite np_assign_all by exact EL. cbn [bind].
    rewrite set_ok by apply (get_Ok_inv _ _ _ _ Gh). cbn [bind].
    eexists. split; [reflexivity|]. apply Rel_upd_caller; assumption.
  - (* CSet *)
    destruct (atZ cv k) as [l|] eqn:E; [|discriminate].
    destruct (inrange l i) eqn:EI; [|discriminate]. inversion Hv; subst v'.
    destruct (caller_lookup _ _ k l HR E) as (r & Gk & Gh). cbn [aw_callers aw_heap] in *.
    rewrite (get_site _ 42 _ _ _ Gk). cbn [bind]. rewrite (get_site _ 43 _ _ _ Gh). cbn [bind].
    rewrite arr_setitem_ok by exact EI. cbn [bind].
    rewrite set_ok by apply (get_Ok_inv _ _ _ _ Gh). cbn [bind].
    eexists. split; [reflexivity|]. apply Rel_upd_caller; assumption.
  - (* FPart *)
    destruct (atZ fv f) as [l|] eqn:E; [|discriminate].
    destruct (v_resolve (cv, fv) x) as [p|] eqn:EP; [|discriminate]. inversion Hv; subst v'.
    destruct (field_lookup _ _ f l HR E) as (s & Gf & Fd & Rf). cbn [aw_fields aw_heap] in *.
    rewrite (get_site _ 44 _ _ _ Gf). cbn [bind]. rewrite (resolve_ok _ _ _ _ HR EP). cbn [bind].
    destruct (hst_write_part_ok h s l p Fd) as (ext & s' & HW & Fd' & Fresh). rewrite HW. cbn [bind].
    rewrite set_ok by exact Rf. cbn [bind].
    eexists. split; [reflexivity|]. apply Rel_field_upd; assumption.
  - (* FPartMove *) discriminate.
  - (* FComplete *)
    destruct (atZ fv f) as [l|] eqn:E; [|discriminate]. inversion Hv; subst v'.
    destruct (field_lookup _ _ f l HR E) as (s & Gf & _ & _). cbn [aw_fields] in *.
    rewrite (get_site _ 44 _ _ _ Gf). cbn [bind]. eexists. split; [reflexivity|]. exact HR.
  - (* FSetItem *)
    destruct (atZ fv f) as [l|] eqn:E; [|discriminate].
    destruct (inrange l i) eqn:EI; [|discriminate]. inversion Hv; subst v'.
    destruct (field_lookup _ _ f l HR E) as (s & Gf & Fd & Rf). cbn [aw_fields aw_heap] in *.
    rewrite (get_site _ 44 _ _ _ Gf). cbn [bind].
    destruct s as [[r|]|d]; cbn [field_data] in Fd; cbn [hst_setitem].
    + rewrite (get_site _ 47 _ _ _ Fd). cbn [bind]. rewrite arr_setitem_ok by exact EI. cbn [bind].
      rewrite set_ok by apply (get_Ok_inv _ _ _ _ Fd). cbn [bind].
      rewrite set_ok by exact Rf. cbn [bind]. rewrite (upd_same 0 fs f _ Gf).
      eexists. split; [reflexivity|]. apply Rel_upd_fieldref; assumption.
    + inversion Fd; subst l. unfold inrange in EI.
      apply andb_true_iff in EI. destruct EI as (E1 & E2). apply Z.leb_le in E1. apply Z.ltb_lt in E2.
      unfold len in E2; cbn in E2; lia.
    + inversion Fd; subst l. rewrite arr_setitem_ok by exact EI. cbn [bind].
      rewrite set_ok by exact Rf. cbn [bind].
      eexists. split; [reflexivity|]. rewrite <- (app_nil_r h). apply Rel_field_upd; try assumption.
      * rewrite app_nil_r. reflexivity.
      * intros r' E'. discriminate.
  - (* FClear *)
    destruct (atZ fv f) as [l|] eqn:E; [|discriminate]. inversion Hv; subst v'.
    destruct (field_lookup _ _ f l HR E) as (s & Gf & Fd & Rf). cbn [aw_fields aw_heap] in *.
    rewrite (get_site _ 44 _ _ _ Gf). cbn [bind]. rewrite set_ok by exact Rf. cbn [bind].
    eexists. split; [reflexivity|]. rewrite <- (app_nil_r h). apply Rel_field_upd; try assumption.
    + destruct s as [[r|]|d]; reflexivity.
    + intros r' E'. destruct s as [[r|]|d]; discriminate.
Qed.

Lemma aw_run_sim : forall ops w v v', Rel w v -> v_run v ops = Some v' ->
  exists w', aw_run zero w ops = Ok w' /\ Rel w' v'.
Proof.
  induction ops as [|o t IH]; intros w v v' HR Hv; cbn [v_run] in Hv; cbn [aw_run].
  - inversion Hv; subst v'. eauto.
  - destruct (v_op v o) as [v1|] eqn:E; [|discriminate].
    destruct (aw_op_sim w v o v1 HR E) as (w1 & H1 & R1). rewrite H1. cbn [bind]. apply (IH w1 v1 v' R1 Hv).
Qed.

Lemma Rel_fresh backings : Rel (aw_fresh backings) (v_fresh backings).
Proof.
  unfold aw_fresh, v_fresh. constructor; cbn [aw_callers aw_fields aw_heap fst snd].
  - reflexivity.
  - rewrite !len_map. reflexivity.
  - intros k r G. apply get_Ok_inv in G. unfold len in G; cbn in G; lia.
  - intros f s G. pose proof (get_Ok_inv _ _ _ _ G) as Rf. rewrite len_map in Rf.
    exists []. split.
    + apply get_map in G. destruct G as (b & _ & ->). destruct b; reflexivity.
    + rewrite (get_ok 0 []) by (rewrite len_map; exact Rf).
      f_equal. unfold nthd. destruct (nth_in_or_default (Z.to_nat f) (map (fun _:bool => @nil A) backings) []) as [Hin| ->]; [|reflexivity].
      apply in_map_iff in Hin. destruct Hin as (b & <- & _). reflexivity.
  - intros k k' r G. apply get_Ok_inv in G. unfold len in G; cbn in G; lia.
  - intros f f' r G. apply get_map in G. destruct G as (b & _ & E). destruct b; discriminate.
  - intros k f r G. apply get_Ok_inv in G. unfold len in G; cbn in G; lia.
Qed.

Lemma Rel_observe w v : Rel w v -> aw_observe w = Ok v.
Proof.
  intros HR. unfold aw_observe. destruct v as [cv fv].
  rewrite (map_res_pointwise (fun r => get 43 (aw_heap w) r) (aw_callers w) cv).
  - cbn [bind]. rewrite (map_res_pointwise (field_data (aw_heap w)) (aw_fields w) fv).
    + reflexivity.
    + apply (R_lf _ _ HR).
    + intros i s G. destruct (R_f _ _ HR i s G) as (l & Fd & Gv). eauto.
  - apply (R_lc _ _ HR).
  - intros i r G. destruct (R_c _ _ HR i r G) as (l & Gh & Gv). exists l.
    split; [apply (get_site _ 43 _ _ _ Gh)|exact Gv].
Qed.

(* ---- the theorem ---------------------------------------------------------------------------------- *)
Lemma alias_free_lemma (backings:list bool) (ops:list (aop A)) (v:@vworld A) :
  v_run (v_fresh backings) ops = Some v -> aw_history zero backings ops = Ok v.
Proof.
  intros Hv. unfold aw_history.
  destruct (aw_run_sim ops _ _ _ (Rel_fresh backings) Hv) as (w & Hw & HR). rewrite Hw. cbn [bind].
  apply Rel_observe. exact HR.
Qed.

End Alias.
