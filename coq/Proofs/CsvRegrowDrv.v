(* Proofs/CsvRegrowDrv.v — read_file_using_fast_csv_reader with arbitrary positive value budgets:
   `values full` (one column's budget doubled, value buffer re-allocated, re-entry at the saved offset)
   and `indices full` (index buffer doubled, re-entry) — the import is the same as with large budgets. *)
From Coq Require Import ZArith List Lia Bool.
From EV Require Import Res Arr Csv CsvSpec CsvBase CsvKernel CsvTable CsvRows CsvDriver CsvPrefix CsvMulti CsvRegrow.
Import ListNotations.
Open Scope Z_scope.

(* ---- lines 127-132: the budget of column v doubled -------------------------------------------- *)
Definition dbl (o:list Z) (v:Z) : list Z :=
  firstn (Z.to_nat (v + 1)) o ++ map (fun x => x + (nthZ o (v + 1) - nthZ o v) * (2 - 1)) (skipn (Z.to_nat (v + 1)) o).

Lemma len_dbl o v : len (dbl o v) = len o.
Proof.
  unfold dbl, len. rewrite app_length, map_length. rewrite <- app_length, firstn_skipn. reflexivity.
Qed.

Lemma nthZ_dbl o v c : 0 <= v -> v + 1 < len o -> 0 <= c < len o ->
  nthZ (dbl o v) c = if c <=? v then nthZ o c else nthZ o c + (nthZ o (v + 1) - nthZ o v).
Proof.
  intros Hv Hvl Hc. unfold dbl, nthZ. unfold len in *.
  assert (Hfl : length (firstn (Z.to_nat (v + 1)) o) = Z.to_nat (v + 1)) by (rewrite firstn_length; lia).
  destruct (c <=? v) eqn:E.
  - apply Z.leb_le in E. rewrite nthd_app_l by (unfold len; rewrite Hfl; lia).
    unfold nthd. apply nth_firstn. lia.
  - apply Z.leb_gt in E. rewrite nthd_app_r by (unfold len; rewrite Hfl; lia).
    unfold len. rewrite Hfl. unfold nthd.
    set (f := fun x : Z => x + (nth (Z.to_nat (v + 1)) o 0 - nth (Z.to_nat v) o 0) * (2 - 1)).
    replace 0 with (f (0 - (nth (Z.to_nat (v + 1)) o 0 - nth (Z.to_nat v) o 0) * (2 - 1))) at 1 by (unfold f; lia).
    rewrite map_nth. unfold f. rewrite nth_skipn.
    replace (Z.to_nat (v + 1) + Z.to_nat (c - Z.of_nat (Z.to_nat (v + 1))))%nat with (Z.to_nat c) by lia.
    assert (Hlt : (Z.to_nat c < length o)%nat) by lia.
    rewrite (nth_indep o _ 0 Hlt). lia.
Qed.

Section Budgets.
Variables (ncols : Z) (rows : list (list cell)).
Hypothesis Hncols : 0 < ncols.

Definition okoffs (o:list Z) : Prop :=
  len o = ncols + 1 /\ nthZ o 0 = 0 /\ forall c, 0 <= c < ncols -> nthZ o c + 1 <= nthZ o (c + 1).

Lemma bud_dbl o v c : okoffs o -> 0 <= v < ncols -> 0 <= c < ncols ->
  bud (dbl o v) c = if c =? v then 2 * bud o v else bud o c.
Proof.
  intros (Hl & _ & _) Hv Hc. unfold bud. rewrite !nthZ_dbl by lia.
  destruct (c =? v) eqn:E.
  - apply Z.eqb_eq in E. subst c. destruct (v + 1 <=? v) eqn:E1; [apply Z.leb_le in E1; lia|].
    rewrite Z.leb_refl. lia.
  - apply Z.eqb_neq in E. destruct (c + 1 <=? v) eqn:E1; destruct (c <=? v) eqn:E2;
      try apply Z.leb_le in E1; try apply Z.leb_le in E2; try apply Z.leb_gt in E1; try apply Z.leb_gt in E2; lia.
Qed.

Lemma okoffs_dbl o v : okoffs o -> 0 <= v < ncols -> okoffs (dbl o v).
Proof.
  intros Hok Hv. pose proof Hok as (Hl & H0 & Hb). split; [rewrite len_dbl; exact Hl|]. split.
  - rewrite nthZ_dbl by lia. destruct (0 <=? v) eqn:E; [exact H0|apply Z.leb_gt in E; lia].
  - intros c Hc. pose proof (bud_dbl o v c Hok Hv Hc) as Hbd. unfold bud in Hbd.
    pose proof (Hb c Hc). pose proof (Hb v Hv). destruct (c =? v) eqn:E; [apply Z.eqb_eq in E; subst c|]; lia.
Qed.

Lemma okoffs_last o : okoffs o -> last o 0 = nthZ o ncols.
Proof.
  intros (Hl & _). assert (o <> []) by (intros ->; unfold len in Hl; cbn in Hl; lia).
  rewrite last_nthZ by assumption. f_equal. lia.
Qed.

(* how much doubling is still needed: sum over the columns of max 0 (column bytes + 1 - budget) *)
Fixpoint mu_n (o:list Z) (n:nat) : Z :=
  match n with O => 0 | S n' => mu_n o n' + Z.max 0 (len (CB rows (Z.of_nat n')) + 1 - bud o (Z.of_nat n')) end.
Definition mu (o:list Z) : Z := mu_n o (Z.to_nat ncols).

Lemma mu_n_nonneg o n : 0 <= mu_n o n.
Proof. induction n as [|n IH]; cbn [mu_n]; lia. Qed.

Lemma mu_n_dbl o v : okoffs o -> 0 <= v < ncols -> 1 <= bud o v <= len (CB rows v) ->
  forall n, (n <= Z.to_nat ncols)%nat ->
  if Z.of_nat n <=? v then mu_n (dbl o v) n = mu_n o n else mu_n (dbl o v) n + 1 <= mu_n o n.
Proof.
  intros Hok Hv Hb. induction n as [|n IH]; intros Hn.
  - cbn [mu_n]. destruct (Z.of_nat 0 <=? v) eqn:E; [reflexivity|apply Z.leb_gt in E; lia].
  - specialize (IH ltac:(lia)). cbn [mu_n]. rewrite (bud_dbl o v (Z.of_nat n) Hok Hv ltac:(lia)).
    destruct (Z.of_nat n =? v) eqn:E1.
    + apply Z.eqb_eq in E1. destruct (Z.of_nat n <=? v) eqn:E2; [|apply Z.leb_gt in E2; lia].
      destruct (Z.of_nat (S n) <=? v) eqn:E3; [apply Z.leb_le in E3; lia|]. rewrite IH, E1. lia.
    + apply Z.eqb_neq in E1. destruct (Z.of_nat n <=? v) eqn:E2; destruct (Z.of_nat (S n) <=? v) eqn:E3;
        try apply Z.leb_le in E2; try apply Z.leb_le in E3; try apply Z.leb_gt in E2; try apply Z.leb_gt in E3; lia.
Qed.

Lemma mu_dbl o v : okoffs o -> 0 <= v < ncols -> 1 <= bud o v <= len (CB rows v) -> mu (dbl o v) + 1 <= mu o.
Proof.
  intros Hok Hv Hb. unfold mu. pose proof (mu_n_dbl o v Hok Hv Hb (Z.to_nat ncols) ltac:(lia)) as H.
  destruct (Z.of_nat (Z.to_nat ncols) <=? v) eqn:E; [apply Z.leb_le in E; lia|exact H].
Qed.

Lemma mu_nonneg o : 0 <= mu o.
Proof. apply mu_n_nonneg. Qed.

End Budgets.
