(* Proofs/CsvRegrowDrv.v — read_file_using_fast_csv_reader with arbitrary positive value budgets:
   `values full` (one column's budget doubled, value buffer re-allocated, re-entry at the saved offset)
   and `indices full` (index buffer doubled, re-entry) — the import is the same as with large budgets. *)
From Coq Require Import ZArith List Lia Bool.
From EV Require Import Res Arr Csv CsvSpec CsvBase CsvKernel CsvTable CsvRows CsvDriver CsvPrefix CsvMulti CsvRegrow.
Import ListNotations.
Open Scope Z_scope.

(* ---- lines 127-132: the budget of column v doubled -------------------------------------------- *)
Definition dbl (o:list Z) (v:Z) : list Z :=
  firstn (Z.to_nat (v + 1)) o ++ map (fun x => x + (nthZ o (v + 1) - nthZ o v) * (2 - 1)) (skipn (Z.to_nat (v + 1)) o).

Lemma len_dbl o v : len (dbl o v) = len o.
Proof.
  unfold dbl, len. rewrite app_length, map_length. rewrite <- app_length, firstn_skipn. reflexivity.
Qed.

Lemma nthZ_dbl o v c : 0 <= v -> v + 1 < len o -> 0 <= c < len o ->
  nthZ (dbl o v) c = if c <=? v then nthZ o c else nthZ o c + (nthZ o (v + 1) - nthZ o v).
Proof.
  intros Hv Hvl Hc. unfold dbl, nthZ. unfold len in *.
  assert (Hfl : length (firstn (Z.to_nat (v + 1)) o) = Z.to_nat (v + 1)) by (rewrite firstn_length; lia).
  destruct (c <=? v) eqn:E.
  - apply Z.leb_le in E. rewrite nthd_app_l by (unfold len; rewrite Hfl; lia).
    unfold nthd. apply nth_firstn. lia.
  - apply Z.leb_gt in E. rewrite nthd_app_r by (unfold len; rewrite Hfl; lia).
    unfold len. rewrite Hfl. unfold nthd.
    set (f := fun x : Z => x + (nth (Z.to_nat (v + 1)) o 0 - nth (Z.to_nat v) o 0) * (2 - 1)).
    replace 0 with (f (0 - (nth (Z.to_nat (v + 1)) o 0 - nth (Z.to_nat v) o 0) * (2 - 1))) at 1 by (unfold f; lia).
    rewrite map_nth. unfold f. rewrite nth_skipn.
    replace (Z.to_nat (v + 1) + Z.to_nat (c - Z.of_nat (Z.to_nat (v + 1))))%nat with (Z.to_nat c) by lia.
    assert (Hlt : (Z.to_nat c < length o)%nat) by lia.
    rewrite (nth_indep o _ 0 Hlt). lia.
Qed.

Section Budgets.
Variables (ncols : Z) (rows : list (list cell)).
Hypothesis Hncols : 0 < ncols.

Definition okoffs (o:list Z) : Prop :=
  len o = ncols + 1 /\ nthZ o 0 = 0 /\ forall c, 0 <= c < ncols -> nthZ o c + 1 <= nthZ o (c + 1).

Lemma bud_dbl o v c : okoffs o -> 0 <= v < ncols -> 0 <= c < ncols ->
  bud (dbl o v) c = if c =? v then 2 * bud o v else bud o c.
Proof.
  intros (Hl & _ & _) Hv Hc. unfold bud. rewrite !nthZ_dbl by lia.
  destruct (c =? v) eqn:E.
  - apply Z.eqb_eq in E. subst c. destruct (v + 1 <=? v) eqn:E1; [apply Z.leb_le in E1; lia|].
    rewrite Z.leb_refl. lia.
  - apply Z.eqb_neq in E. destruct (c + 1 <=? v) eqn:E1; destruct (c <=? v) eqn:E2;
      try apply Z.leb_le in E1; try apply Z.leb_le in E2; try apply Z.leb_gt in E1; try apply Z.leb_gt in E2; lia.
Qed.

Lemma okoffs_dbl o v : okoffs o -> 0 <= v < ncols -> okoffs (dbl o v).
Proof.
  intros Hok Hv. pose proof Hok as (Hl & H0 & Hb). split; [rewrite len_dbl; exact Hl|]. split.
  - rewrite nthZ_dbl by lia. destruct (0 <=? v) eqn:E; [exact H0|apply Z.leb_gt in E; lia].
  - intros c Hc. pose proof (bud_dbl o v c Hok Hv Hc) as Hbd. unfold bud in Hbd.
    pose proof (Hb c Hc). pose proof (Hb v Hv). destruct (c =? v) eqn:E; [apply Z.eqb_eq in E; subst c|]; lia.
Qed.

Lemma okoffs_last o : okoffs o -> last o 0 = nthZ o ncols.
Proof.
  intros (Hl & _). assert (o <> []) by (intros ->; unfold len in Hl; cbn in Hl; lia).
  rewrite last_nthZ by assumption. f_equal. lia.
Qed.

(* how much doubling is still needed: sum over the columns of max 0 (column bytes + 1 - budget) *)
Fixpoint mu_n (o:list Z) (n:nat) : Z :=
  match n with O => 0 | S n' => mu_n o n' + Z.max 0 (len (CB rows (Z.of_nat n')) + 1 - bud o (Z.of_nat n')) end.
Definition mu (o:list Z) : Z := mu_n o (Z.to_nat ncols).

Lemma mu_n_nonneg o n : 0 <= mu_n o n.
Proof. induction n as [|n IH]; cbn [mu_n]; lia. Qed.

Lemma mu_n_dbl o v : okoffs o -> 0 <= v < ncols -> 1 <= bud o v <= len (CB rows v) ->
  forall n, (n <= Z.to_nat ncols)%nat ->
  if Z.of_nat n <=? v then mu_n (dbl o v) n = mu_n o n else mu_n (dbl o v) n + 1 <= mu_n o n.
Proof.
  intros Hok Hv Hb. induction n as [|n IH]; intros Hn.
  - cbn [mu_n]. destruct (Z.of_nat 0 <=? v) eqn:E; [reflexivity|apply Z.leb_gt in E; lia].
  - specialize (IH ltac:(lia)). cbn [mu_n]. rewrite (bud_dbl o v (Z.of_nat n) Hok Hv ltac:(lia)).
    destruct (Z.of_nat n =? v) eqn:E1.
    + apply Z.eqb_eq in E1. destruct (Z.of_nat n <=? v) eqn:E2; [|apply Z.leb_gt in E2; lia].
      destruct (Z.of_nat (S n) <=? v) eqn:E3; [apply Z.leb_le in E3; lia|]. rewrite IH, E1. lia.
    + apply Z.eqb_neq in E1. destruct (Z.of_nat n <=? v) eqn:E2; destruct (Z.of_nat (S n) <=? v) eqn:E3;
        try apply Z.leb_le in E2; try apply Z.leb_le in E3; try apply Z.leb_gt in E2; try apply Z.leb_gt in E3; lia.
Qed.

Lemma mu_dbl o v : okoffs o -> 0 <= v < ncols -> 1 <= bud o v <= len (CB rows v) -> mu (dbl o v) + 1 <= mu o.
Proof.
  intros Hok Hv Hb. unfold mu. pose proof (mu_n_dbl o v Hok Hv Hb (Z.to_nat ncols) ltac:(lia)) as H.
  destruct (Z.of_nat (Z.to_nat ncols) <=? v) eqn:E; [apply Z.leb_le in E; lia|exact H].
Qed.

Lemma mu_nonneg o : 0 <= mu o.
Proof. apply mu_n_nonneg. Qed.

End Budgets.

Lemma len_CB_firstn_P T (j:nat) c : len (CB (firstn j T) c) = P T c (Z.of_nat j).
Proof. unfold CB, P. rewrite colt_firstn, len_concat, Nat2Z.id. reflexivity. Qed.

Lemma nth_skipn_ {A} (d:A) m n (l:list A) : nth n (skipn m l) d = nth (m + n) l d.
Proof.
  revert l. induction m as [|m IH]; intros l; [reflexivity|]. destruct l as [|x l]; [destruct n; reflexivity|].
  cbn [skipn Nat.add nth]. apply IH.
Qed.

Lemma skipn_skipn_ {A} a b (l:list A) : skipn a (skipn b l) = skipn (b + a) l.
Proof.
  revert l. induction b as [|b IH]; intros l; [reflexivity|]. destruct l as [|x l]; [rewrite !skipn_nil; reflexivity|].
  cbn [skipn Nat.add]. apply IH.
Qed.

(* ---- the driver ------------------------------------------------------------------------------ *)
Section DriverR.
Variables (hdr : list cell) (rows : list (list cell)) (file : list Z) (crs ncols : Z) (index_map : list Z).
Let ALL := render_file (hdr :: rows).
Let cbs := crs * 2 * ncols.
Hypothesis Hncols : 0 < ncols.
Hypothesis Hhdr : len hdr = ncols.
Hypothesis Hrect : Forall (fun rw : list cell => len rw = ncols) rows.
Hypothesis Hfile : file = ALL \/ (file ++ [NL] = ALL /\ file <> [] /\ last file NL <> NL).
Hypothesis Hwin : forall r, In r (hdr :: rows) -> len (render_row r) <= cbs.
Hypothesis Himap : Forall (fun c => 0 <= c < ncols) index_map.

Notation okoffs := (okoffs ncols).
Notation mu := (mu ncols rows).

Lemma cbs_pos' : 0 < cbs.
Proof. pose proof (Hwin hdr (or_introl eq_refl)) as H. pose proof (len_render_row_ge hdr) as (_ & H1). lia. Qed.

Definition pos (m:nat) : Z := len (render_file (hdr :: firstn m rows)).

(* one iteration of the driver, once the kernel call and the import are known *)
Lemma drv_step_post2 chunk hd acc inds vals offsd dif dvf cont st imps tr content start out imps' :
  (if negb dif && negb dvf
   then content = content_of file cbs chunk /\ start = 0 /\ len (slice file chunk (chunk + cbs)) <> 0
   else content = cont /\ start = st) ->
  fast_csv_reader (fsm_fuel content start) content start inds vals offsd hd = Ok out ->
  (f_ifull out = false -> f_vfull out = false -> 0 < f_next out) ->
  import_all (f_inds out) (f_vals out) offsd index_map (f_rows out) imps = Ok imps' ->
  (f_vfull out = true -> 0 <= f_vfc out < ncols) -> len offsd = ncols + 1 ->
  exists d', drv_step file ncols cbs index_map (mkDst chunk hd acc inds vals offsd dif dvf cont st imps tr) = Ok (inl d') /\
    let full := (f_ifull out || f_vfull out) && (f_next out <? len content) in
    d_chunk d' = (if full then chunk else chunk + f_next out) /\ d_hdr d' = false /\ d_acc d' = acc + f_rows out /\
    d_inds d' = (if f_ifull out then zeros2 ncols ((fst (f_inds out) - 1) * 2 + 1) else f_inds out) /\
    d_offs d' = (if f_vfull out then dbl offsd (f_vfc out) else offsd) /\
    d_vals d' = (if f_vfull out then zeros (last (dbl offsd (f_vfc out)) 0) else f_vals out) /\
    d_ifull d' = full && f_ifull out /\ d_vfull d' = full && f_vfull out /\
    d_content d' = content /\ d_start d' = (if full then f_next out else start) /\ d_imps d' = imps'.
Proof.
  intros Hfr Hk Hnext Himp Hvfc Hlo.
  unfold drv_step. cbn [d_ifull d_vfull d_chunk d_content d_start d_inds d_vals d_offs d_hdr d_imps d_acc d_trace].
  cbv zeta.
  assert (Hcommon : forall (X:res (dst + dst)),
    (do r <- fast_csv_reader (fsm_fuel content start) content start inds vals offsd hd;
     if negb (f_ifull r) && negb (f_vfull r) && (f_next r <=? 0) then Raise E_ValueError else
     do imps'0 <- import_all (f_inds r) (f_vals r) offsd index_map (f_rows r) imps;
     do '(offs', vals') <-
        (if f_vfull r && negb (f_vfc r =? -1) then
           do a <- get 30 offsd (f_vfc r + 1);
           do b <- get 30 offsd (f_vfc r);
           Ok (firstn (Z.to_nat (f_vfc r + 1)) offsd ++ map (fun x => x + (a - b) * (2 - 1)) (skipn (Z.to_nat (f_vfc r + 1)) offsd),
               zeros (last (firstn (Z.to_nat (f_vfc r + 1)) offsd ++ map (fun x => x + (a - b) * (2 - 1)) (skipn (Z.to_nat (f_vfc r + 1)) offsd)) 0))
         else Ok (offsd, f_vals r));
     Ok (inl (mkDst (if (f_ifull r || f_vfull r) && (f_next r <? len content) then chunk else chunk + f_next r) false (acc + f_rows r)
                 (if f_ifull r then zeros2 ncols ((fst (f_inds r) - 1) * 2 + 1) else f_inds r) vals' offs'
                 ((f_ifull r || f_vfull r) && (f_next r <? len content) && f_ifull r)
                 ((f_ifull r || f_vfull r) && (f_next r <? len content) && f_vfull r) content
                 (if (f_ifull r || f_vfull r) && (f_next r <? len content) then f_next r else start)
                 imps'0 ([chunk; start; len content; f_next r; f_rows r; b2z (f_ifull r); b2z (f_vfull r); b2z (f_esc r); b2z (f_cand r)] :: tr)))) = X ->
    exists d', X = Ok (inl d') /\
      d_chunk d' = (if (f_ifull out || f_vfull out) && (f_next out <? len content) then chunk else chunk + f_next out) /\
      d_hdr d' = false /\ d_acc d' = acc + f_rows out /\
      d_inds d' = (if f_ifull out then zeros2 ncols ((fst (f_inds out) - 1) * 2 + 1) else f_inds out) /\
      d_offs d' = (if f_vfull out then dbl offsd (f_vfc out) else offsd) /\
      d_vals d' = (if f_vfull out then zeros (last (dbl offsd (f_vfc out)) 0) else f_vals out) /\
      d_ifull d' = (f_ifull out || f_vfull out) && (f_next out <? len content) && f_ifull out /\
      d_vfull d' = (f_ifull out || f_vfull out) && (f_next out <? len content) && f_vfull out /\
      d_content d' = content /\ d_start d' = (if (f_ifull out || f_vfull out) && (f_next out <? len content) then f_next out else start) /\
      d_imps d' = imps').
  { intros X <-. rewrite Hk. cbn [bind].
    assert (Ev : negb (f_ifull out) && negb (f_vfull out) && (f_next out <=? 0) = false).
    { destruct (f_ifull out) eqn:E1; [reflexivity|]. destruct (f_vfull out) eqn:E2; [reflexivity|]. cbn [negb andb].
      apply Z.leb_gt. apply Hnext; reflexivity. }
    rewrite Ev. rewrite Himp. cbn [bind].
    destruct (f_vfull out) eqn:Evf.
    - specialize (Hvfc eq_refl). assert (Ene : (f_vfc out =? -1) = false) by (apply Z.eqb_neq; lia).
      rewrite Ene. cbn [negb andb]. rewrite !getZ_ok by lia. cbn [bind].
      eexists. split; [reflexivity|]. cbn [d_chunk d_hdr d_acc d_inds d_vals d_offs d_ifull d_vfull d_imps d_content d_start].
      unfold dbl. repeat split.
    - cbn [andb bind]. eexists. split; [reflexivity|]. cbn [d_chunk d_hdr d_acc d_inds d_vals d_offs d_ifull d_vfull d_imps d_content d_start].
      repeat split. }
  destruct dif, dvf; cbn [negb andb] in Hfr |- *.
  - destruct Hfr as (-> & ->). apply Hcommon. reflexivity.
  - destruct Hfr as (-> & ->). apply Hcommon. reflexivity.
  - destruct Hfr as (-> & ->). apply Hcommon. reflexivity.
  - destruct Hfr as (Hc & -> & Hc0). unfold content_of in Hc.
    destruct (len (slice file chunk (chunk + cbs)) =? 0) eqn:E0; [apply Z.eqb_eq in E0; contradiction|].
    rewrite <- Hc. apply Hcommon. reflexivity.
Qed.

Definition fresh (d:dst) : bool := negb (d_ifull d) && negb (d_vfull d).

Definition InvR (m:nat) (d:dst) : Prop :=
  (m <= length rows)%nat /\ d_hdr d = false /\ d_acc d = Z.of_nat m /\
  d_imps d = map (imp_of (firstn m rows)) index_map /\
  okoffs (d_offs d) /\ len (d_vals d) = nthZ (d_offs d) ncols /\
  (exists wd, 2 <= wd /\ shape ncols wd (d_inds d)) /\ (forall c, 0 <= c < ncols -> I2 (d_inds d) c 0 = 0) /\
  (if fresh d then d_chunk d = pos m
   else d_chunk d < len file /\ 0 <= d_start d <= len (d_content d) /\ d_chunk d + d_start d = pos m /\
        exists (k:nat) p, (k <= length (skipn m rows))%nat /\
          suf (d_content d) (d_start d) = render_file (firstn k (skipn m rows)) ++ p /\
          cutp (skipn m rows) k p /\ (d_start d = 0 -> (1 <= k)%nat)).

Definition Mz (d:dst) : Z := 2 * (len rows - d_acc d) + 2 * mu (d_offs d) + (if fresh d then 0 else 1).

Lemma pos_add m j : pos (m + j) = pos m + len (render_file (firstn j (skipn m rows))).
Proof. unfold pos. rewrite firstn_add. rewrite <- len_app, <- render_file_app. reflexivity. Qed.

Lemma okoffs_nonneg o c : okoffs o -> 0 <= c <= ncols -> 0 <= nthZ o c.
Proof.
  intros (Hl & H0 & Hb) Hc. apply (offs_nonneg1 o 0 ncols [] H0 Hb c Hc).
Qed.

Lemma render_file_firstn_pos (T:list (list cell)) (j:nat) : (1 <= j)%nat -> (j <= length T)%nat -> 0 < len (render_file (firstn j T)).
Proof.
  intros H1 H2. destruct T as [|r0 T]; [cbn in H2; lia|]. destruct j; [lia|]. cbn [firstn]. rewrite render_file_cons, len_app.
  pose proof (len_render_row_ge r0) as (_ & Hg). pose proof (len_nonneg (render_file (firstn j T))). lia.
Qed.

(* a kernel call followed by the import and the regrowth bookkeeping *)
Lemma after_call (m:nat) chunk hd inds vals offsd dif dvf cont st tr content start base (k:nat) p out wd :
  (m <= length rows)%nat ->
  (if negb dif && negb dvf
   then content = content_of file cbs chunk /\ start = 0 /\ len (slice file chunk (chunk + cbs)) <> 0
   else content = cont /\ start = st) ->
  okoffs offsd -> len vals = nthZ offsd ncols -> 2 <= wd -> shape ncols wd inds ->
  fast_csv_reader (fsm_fuel content start) content start inds vals offsd hd = Ok out ->
  KOut content offsd (wd - 1) ncols (nthZ offsd ncols) (skipn m rows) k base out ->
  chunk + base = pos m -> 0 <= base <= len content -> chunk < len file ->
  (k <= length (skipn m rows))%nat ->
  suf content base = render_file (firstn k (skipn m rows)) ++ p -> cutp (skipn m rows) k p ->
  (base = 0 -> (1 <= k)%nat) ->
  (hd = false -> negb dif && negb dvf = true -> (1 <= k)%nat) ->
  exists (j:nat) d',
    drv_step file ncols cbs index_map
      (mkDst chunk hd (Z.of_nat m) inds vals offsd dif dvf cont st (map (imp_of (firstn m rows)) index_map) tr) = Ok (inl d') /\
    InvR (m + j) d' /\
    Mz d' + 1 <= 2 * (len rows - Z.of_nat m) + 2 * mu offsd + (if negb dif && negb dvf then 0 else 1) + (if hd then 2 else 0).
Proof.
  intros Hm Hfr Hok Hlv Hwd Hsh Hk (j & Hjk & Hrows & Hjm & Hnext & HG & Hcase) Hpos Hbase Hchunk Hkl Hsuf Hcut Hb0 Hk1.
  set (T := skipn m rows) in *.
  assert (HlT : length T = (length rows - m)%nat) by (unfold T; apply skipn_length).
  pose proof Hok as (Hlo & Ho0 & Hob).
  assert (Hw1 : wd - 1 + 1 = wd) by lia.
  pose proof (len_nonneg (render_file (firstn j T))) as Hlrf.
  assert (Hjpos : (1 <= j)%nat -> 0 < len (render_file (firstn j T))) by (intros; apply render_file_firstn_pos; lia).
  (* the import *)
  pose proof (GoodL_Good offsd (wd - 1) ncols (nthZ offsd ncols) T _ _ _ HG) as HG1. rewrite Hw1 in HG1.
  pose proof (Good_firstn ncols wd (nthZ offsd ncols) offsd T j (f_inds out) (f_vals out) ltac:(lia) HG1) as HG2.
  set (recs := firstn j T) in *.
  assert (Hlrecs : len recs = Z.of_nat j) by (unfold recs, len; rewrite firstn_length; lia).
  assert (Hbrecs : forall c, 0 <= c < ncols -> nthZ offsd c + len (CB recs c) < nthZ offsd (c + 1)).
  { intros c Hc. destruct HG as (_ & _ & HGc). destruct (HGc c Hc) as (_ & Hbd & _). unfold bud in Hbd.
    unfold recs. rewrite len_CB_firstn_P. lia. }
  pose proof (import_all_gen ncols wd (nthZ offsd ncols) offsd recs Hlo ltac:(lia) Ho0 Hbrecs ltac:(lia)
                (f_inds out) (f_vals out) HG2 index_map (map (imp_of (firstn m rows)) index_map) Himap ltac:(apply map_length)) as Himp.
  rewrite Hlrecs, <- Hrows in Himp.
  assert (Hnv : f_ifull out = false -> f_vfull out = false -> 0 < f_next out).
  { intros E1 E2. destruct Hcase as [(A & _)|[(_ & A & _)|(_ & _ & A)]]; try congruence. subst j.
    rewrite Hnext. destruct (Z.eq_dec base 0) as [E0|E0]; [|lia]. specialize (Hjpos (Hb0 E0)). lia. }
  assert (Hvfc : f_vfull out = true -> 0 <= f_vfc out < ncols).
  { intros E. destruct Hcase as [(_ & _ & A & _)|[(A & _)|(A & _)]]; [exact A|congruence|congruence]. }
  destruct (drv_step_post2 chunk hd (Z.of_nat m) inds vals offsd dif dvf cont st _ tr content start out _ Hfr Hk Hnv Himp Hvfc Hlo)
    as (d' & Hd & D1 & D2 & D3 & D4 & D5 & D6 & D7 & D8 & D9 & D10 & D11).
  exists j, d'. split; [exact Hd|]. subst recs.
  (* facts common to all outcomes *)
  assert (Hmj : (m + j <= length rows)%nat) by lia.
  assert (Himps' : d_imps d' = map (imp_of (firstn (m + j) rows)) index_map).
  { rewrite D11, combine_map_same, map_map. apply map_ext. intros c. cbn [fst snd]. rewrite imp_add_of, firstn_add. reflexivity. }
  assert (Hacc' : d_acc d' = Z.of_nat (m + j)) by (rewrite D3, Hrows; lia).
  assert (Hposj : chunk + f_next out = pos (m + j)) by (rewrite pos_add; fold T; lia).
  assert (Hnle : f_next out <= len content).
  { destruct (suf_bound content base _ ltac:(lia) Hsuf) as [Hb|Hb].
    - assert (Hkj : firstn k T = firstn j T ++ firstn (k - j) (skipn j T)) by (replace k with (j + (k - j))%nat at 1 by lia; apply firstn_add).
      rewrite Hkj, render_file_app, !len_app in Hb. pose proof (len_nonneg (render_file (firstn (k - j) (skipn j T)))). pose proof (len_nonneg p). lia.
    - apply app_eq_nil in Hb. destruct Hb as (Hb & _).
      assert (j = 0%nat \/ (1 <= j)%nat) as [->|Hj1] by lia; [cbn [firstn render_file map concat] in Hnext; replace (len (@nil Z)) with 0 in Hnext by reflexivity; lia|].
      assert (Hkp : 0 < len (render_file (firstn k T))) by (apply render_file_firstn_pos; lia). rewrite Hb in Hkp. cbn in Hkp. lia. }
  assert (Hshape_out : shape ncols wd (f_inds out)) by (destruct HG1 as (A & _); exact A).
  assert (HI0 : forall c, 0 <= c < ncols -> I2 (f_inds out) c 0 = 0).
  { intros c Hc. destruct HG as (_ & _ & HGc). destruct (HGc c Hc) as (_ & _ & Hi & _). rewrite (Hi 0 ltac:(lia)). apply P_0. }
  assert (Hlvo : len (f_vals out) = nthZ offsd ncols) by (destruct HG as (_ & A & _); exact A).
  (* the state in which the same window is re-entered *)
  assert (Hre : forall k' , k' = (k - j)%nat ->
            (k' <= length (skipn (m + j) rows))%nat /\
            suf content (f_next out) = render_file (firstn k' (skipn (m + j) rows)) ++ p /\
            cutp (skipn (m + j) rows) k' p /\ (f_next out = 0 -> (1 <= k')%nat)).
  { intros k' ->. assert (Esk : skipn (m + j) rows = skipn j T) by (unfold T; rewrite skipn_skipn_; reflexivity).
    rewrite Esk. split; [rewrite skipn_length; lia|]. split; [|split].
    - assert (Hkj : firstn k T = firstn j T ++ firstn (k - j) (skipn j T)) by (replace k with (j + (k - j))%nat at 1 by lia; apply firstn_add).
      rewrite Hkj, render_file_app, <- app_assoc in Hsuf. rewrite Hnext. apply (suf_app_len content base _ _ ltac:(lia) Hsuf).
    - destruct Hcut as [->|(Hk2 & q & Hq & Eq)]; [left; reflexivity|right]. split; [rewrite skipn_length; lia|].
      exists q. split; [exact Hq|]. rewrite nth_skipn_. replace (j + (k - j))%nat with k by lia. exact Eq.
    - intros E0. assert (j = 0%nat \/ (1 <= j)%nat) as [->|Hj1] by lia.
      + rewrite Nat.sub_0_r. apply Hb0. cbn [firstn render_file map concat] in Hnext. replace (len (@nil Z)) with 0 in Hnext by reflexivity. lia.
      + specialize (Hjpos Hj1). lia. }
  unfold InvR, Mz, fresh. rewrite D2, Hacc', Himps', D4, D5, D6, D7, D8, D9, D10, D1.
  destruct Hcase as [(Evf & Eif & Hv & Hbv & Hnl)|[(Evf & Eif & Ejm)|(Evf & Eif & Ejk)]]; rewrite Evf, Eif; cbn [orb andb negb].
  - (* values full: the budget of column vfc is doubled, the window is re-entered *)
    assert (Elt : (f_next out <? len content) = true) by (apply Z.ltb_lt; exact Hnl). rewrite Elt. cbn [andb negb].
    pose proof (okoffs_dbl ncols offsd (f_vfc out) Hok Hv) as Hok'.
    split; [|].
    + split; [exact Hmj|]. split; [reflexivity|]. split; [reflexivity|]. split; [reflexivity|]. split; [exact Hok'|].
      split; [rewrite (okoffs_last ncols Hncols _ Hok'); apply len_zeros; apply (okoffs_nonneg _ ncols Hok'); lia|].
      split; [exists wd; split; [lia|exact Hshape_out]|]. split; [exact HI0|].
      split; [exact Hchunk|]. split; [lia|]. split; [exact Hposj|].
      exists (k - j)%nat, p. apply Hre. reflexivity.
    + assert (Hbv2 : 1 <= bud offsd (f_vfc out) <= len (CB rows (f_vfc out))).
      { unfold bud. pose proof (Hob (f_vfc out) Hv). pose proof (len_CB_skipn m rows (f_vfc out)). fold T in H0. unfold bud in Hbv. lia. }
      pose proof (mu_dbl ncols rows Hncols offsd (f_vfc out) Hok Hv Hbv2) as Hmu.
      destruct (negb dif && negb dvf); destruct hd; lia.
  - (* indices full *)
    assert (Hj1 : (1 <= j)%nat) by lia.
    assert (Hz : shape ncols ((wd - 1) * 2 + 1) (zeros2 ncols ((fst (f_inds out) - 1) * 2 + 1))).
    { destruct Hshape_out as (Hf & _). rewrite Hf. apply shape_zeros2; lia. }
    assert (Hz0 : forall c, 0 <= c < ncols -> I2 (zeros2 ncols ((fst (f_inds out) - 1) * 2 + 1)) c 0 = 0).
    { intros c Hc. destruct Hshape_out as (Hf & _). rewrite Hf. apply I2_zeros2; lia. }
    destruct (f_next out <? len content) eqn:Elt; cbn [andb negb].
    + apply Z.ltb_lt in Elt. split.
      * split; [exact Hmj|]. split; [reflexivity|]. split; [reflexivity|]. split; [reflexivity|]. split; [exact Hok|].
        split; [exact Hlvo|]. split; [exists ((wd - 1) * 2 + 1); split; [lia|exact Hz]|]. split; [exact Hz0|].
        split; [exact Hchunk|]. split; [lia|]. split; [exact Hposj|].
        exists (k - j)%nat, p. apply Hre. reflexivity.
      * destruct (negb dif && negb dvf); destruct hd; pose proof (mu_nonneg ncols rows offsd); lia.
    + split.
      * split; [exact Hmj|]. split; [reflexivity|]. split; [reflexivity|]. split; [reflexivity|]. split; [exact Hok|].
        split; [exact Hlvo|]. split; [exists ((wd - 1) * 2 + 1); split; [lia|exact Hz]|]. split; [exact Hz0|]. exact Hposj.
      * destruct (negb dif && negb dvf); destruct hd; pose proof (mu_nonneg ncols rows offsd); lia.
  - (* the window is consumed *)
    subst j. split.
    + split; [exact Hmj|]. split; [reflexivity|]. split; [reflexivity|]. split; [reflexivity|]. split; [exact Hok|].
      split; [exact Hlvo|]. split; [exists wd; split; [lia|exact Hshape_out]|]. split; [exact HI0|]. exact Hposj.
    + destruct (negb dif && negb dvf) eqn:Efr0.
      * destruct hd; [pose proof (mu_nonneg ncols rows offsd); lia|].
        specialize (Hk1 eq_refl eq_refl). pose proof (mu_nonneg ncols rows offsd). lia.
      * destruct hd; pose proof (mu_nonneg ncols rows offsd); lia.
Qed.

Lemma Forall_skipn' {A} (Pp:A -> Prop) n l : Forall Pp l -> Forall Pp (skipn n l).
Proof.
  revert l. induction n as [|n IH]; intros l H; [exact H|]. destruct l as [|x l]; [constructor|].
  cbn [skipn]. inversion H; subst. auto.
Qed.

Lemma pre_split' m : render_file (hdr :: firstn m rows) ++ render_file (skipn m rows) = ALL.
Proof. unfold ALL. rewrite <- render_file_app. cbn [app]. rewrite firstn_skipn. reflexivity. Qed.

Lemma Mz_nonneg m d : InvR m d -> 0 <= Mz d.
Proof.
  intros (Hm & _ & Hacc & _). unfold Mz. rewrite Hacc. pose proof (mu_nonneg ncols rows (d_offs d)).
  unfold len. destruct (fresh d); lia.
Qed.

(* any iteration after the first *)
Lemma step_general m d : InvR m d -> ((m < length rows)%nat \/ fresh d = false) ->
  d_chunk d < len file /\
  exists j d', drv_step file ncols cbs index_map d = Ok (inl d') /\ InvR (m + j) d' /\ Mz d' + 1 <= Mz d.
Proof.
  intros (Hm & Hh & Hacc & Himps & Hok & Hlv & (wd & Hwd & Hsh) & H0 & Hposn) Hgo.
  pose proof cbs_pos' as Hcbs. pose proof Hok as (Hlo & Ho0 & Hob).
  set (T := skipn m rows).
  assert (HTrect : Forall (fun r : list cell => len r = ncols) T) by (apply Forall_skipn'; exact Hrect).
  assert (Hsh' : shape ncols (wd - 1 + 1) (d_inds d)) by (replace (wd - 1 + 1) with wd by lia; exact Hsh).
  destruct d as [chunk hd acc inds vals doffs dif dvf cont st imps tr].
  unfold Mz, fresh in *. cbn [d_chunk d_hdr d_acc d_ifull d_vfull d_offs d_inds d_vals d_imps d_content d_start] in *.
  subst hd acc imps.
  destruct (negb dif && negb dvf) eqn:Efr.
  - (* a fresh window *)
    destruct Hgo as [Hlt|Hgo]; [|discriminate].
    assert (HTne : T <> []).
    { unfold T. intros E. pose proof (skipn_length m rows) as Hs. rewrite E in Hs. cbn in Hs. lia. }
    assert (HTwin : forall r, In r T -> len (render_row r) <= cbs).
    { intros r Hr. apply Hwin. right. unfold T in Hr. rewrite <- (firstn_skipn m rows). apply in_or_app. right. exact Hr. }
    destruct (window_records file ALL cbs Hfile Hcbs ncols crs T (render_file (hdr :: firstn m rows)) eq_refl Hncols (pre_split' m) HTne HTrect
                (last_render_file _) HTwin) as (Hc0 & Hlt2 & k & p & Ec & (Hk1 & Hk2) & _ & Hp).
    fold (pos m) in Hc0, Hlt2, Ec. rewrite <- Hposn in Hc0, Hlt2, Ec. split; [exact Hlt2|].
    assert (Hcut : cutp T k p).
    { destruct Hp as [->|(_ & Hp2 & Hp3)]; [left; reflexivity|right]. split; assumption. }
    assert (Hrange : 0 <= 0 <= len (content_of file cbs chunk)).
    { pose proof (len_nonneg (content_of file cbs chunk)). lia. }
    destruct (kernel_gen_nohdr (content_of file cbs chunk) doffs (wd - 1) ncols Hlo Hncols ltac:(lia) (nthZ doffs ncols) T Ho0 Hob
                ltac:(lia) HTrect k 0 inds vals p Hk2 Hrange Ec Hcut Hsh' H0 Hlv) as (out & Hk & HK).
    destruct (after_call m chunk false inds vals doffs dif dvf cont st tr (content_of file cbs chunk) 0 0 k p out wd Hm) as (j & d' & Hd & HI & HM);
      try assumption; try lia.
    + rewrite Efr. auto.
    + rewrite Efr in HM. unfold Mz, fresh in HM. exists j, d'. split; [exact Hd|]. split; [exact HI|]. lia.
  - (* the same window re-entered at the saved offset *)
    destruct Hposn as (Hchunk & Hst & Hps & k & p & Hkl & Hsuf & Hcut & Hs0). split; [exact Hchunk|].
    destruct (kernel_gen_nohdr cont doffs (wd - 1) ncols Hlo Hncols ltac:(lia) (nthZ doffs ncols) T Ho0 Hob
                ltac:(lia) HTrect k st inds vals p Hkl Hst Hsuf Hcut Hsh' H0 Hlv) as (out & Hk & HK).
    destruct (after_call m chunk false inds vals doffs dif dvf cont st tr cont st st k p out wd Hm) as (j & d' & Hd & HI & HM);
      try assumption; try lia.
    + rewrite Efr. auto.
    + intros _ E. rewrite Efr in E. discriminate.
    + rewrite Efr in HM. unfold Mz, fresh in HM. exists j, d'. split; [exact Hd|]. split; [exact HI|]. lia.
Qed.

(* the first iteration: header line first *)
Lemma step_first_r offs0 tr0 cont0 st0 : okoffs offs0 ->
  exists j d', drv_step file ncols cbs index_map
     (mkDst 0 true 0 (zeros2 ncols (crs * 2 + 1)) (zeros (last offs0 0)) offs0 false false cont0 st0
            (map (fun _ => imp_new) index_map) tr0) = Ok (inl d') /\ InvR j d' /\
     Mz d' + 1 <= 2 * len rows + 2 * mu offs0 + 2 /\ 0 < len file.
Proof.
  intros Hok. pose proof cbs_pos' as Hcbs. pose proof Hok as (Hlo & Ho0 & Hob).
  assert (Hcrs : 0 < crs) by (unfold cbs in Hcbs; nia).
  assert (HTrect : Forall (fun r : list cell => len r = ncols) (hdr :: rows)) by (constructor; assumption).
  destruct (window_records file ALL cbs Hfile Hcbs ncols crs (hdr :: rows) [] eq_refl Hncols eq_refl ltac:(discriminate) HTrect
              eq_refl Hwin) as (Hc0 & Hlt2 & k & p & Ec & (Hk1 & Hk2) & _ & Hp).
  replace (len (@nil Z)) with 0 in * by reflexivity.
  destruct k as [|k0]; [lia|]. cbn [firstn length nth] in *. rewrite render_file_cons, <- app_assoc in Ec.
  assert (HVl : last offs0 0 = nthZ offs0 ncols) by (apply okoffs_last; assumption).
  assert (HVn : 0 <= nthZ offs0 ncols) by (apply (okoffs_nonneg offs0 ncols Hok); lia).
  assert (Hcut : cutp rows k0 p).
  { destruct Hp as [->|(_ & Hp2 & Hp3)]; [left; reflexivity|right]. split; [lia|exact Hp3]. }
  assert (Hshz : shape ncols (crs * 2 + 1) (zeros2 ncols (crs * 2 + 1))) by (apply shape_zeros2; lia).
  assert (Hz0 : forall c, 0 <= c < ncols -> I2 (zeros2 ncols (crs * 2 + 1)) c 0 = 0) by (intros c Hc; apply I2_zeros2; lia).
  assert (Hlz : len (zeros (last offs0 0)) = nthZ offs0 ncols) by (rewrite HVl; apply len_zeros; exact HVn).
  destruct (kernel_gen_hdr (content_of file cbs 0) offs0 (crs * 2) ncols Hlo Hncols ltac:(lia) (nthZ offs0 ncols) rows Ho0 Hob
              ltac:(lia) Hrect hdr k0 (zeros2 ncols (crs * 2 + 1)) (zeros (last offs0 0)) p ltac:(lia) Hhdr Ec Hcut Hshz Hz0 Hlz)
    as (out & Hk & HK).
  pose proof (len_render_row_ge hdr) as (_ & Hh1).
  assert (Hsuf0 : suf (content_of file cbs 0) 0 = render_row hdr ++ (render_file (firstn k0 rows) ++ p)) by (rewrite suf_0; exact Ec).
  pose proof (suf_app_len _ 0 _ _ ltac:(lia) Hsuf0) as Hsufb. rewrite Z.add_0_l in Hsufb.
  assert (Hlenc : len (render_row hdr) <= len (content_of file cbs 0)).
  { rewrite Ec, len_app. pose proof (len_nonneg (render_file (firstn k0 rows) ++ p)). lia. }
  replace (crs * 2) with (crs * 2 + 1 - 1) in HK by lia.
  destruct (after_call 0 0 true (zeros2 ncols (crs * 2 + 1)) (zeros (last offs0 0)) offs0 false false cont0 st0 tr0
              (content_of file cbs 0) 0 (len (render_row hdr)) k0 p out (crs * 2 + 1) ltac:(lia)) as (j & d' & Hd & HI & HM);
    try assumption; try lia.
  - cbn [negb andb]. auto.
  - unfold pos. cbn [firstn]. cbn [render_file map concat]. rewrite app_nil_r. lia.
  - cbn [skipn]. lia.
  - cbn [negb andb] in HM. exists j, d'. split; [|split; [exact HI|split; [cbn [Nat.add] in *; replace (Z.of_nat 0) with 0 in HM by reflexivity; lia|lia]]].
    replace (map (fun _ : Z => imp_new) index_map) with (map (imp_of (firstn 0 rows)) index_map); [exact Hd|].
    apply map_ext. intros c. apply imp_of_nil.
Qed.

Lemma loop_done_r d : InvR (length rows) d -> fresh d = true -> forall fuel, (1 <= fuel)%nat ->
  drv_loop fuel file ncols cbs index_map d = Ok d.
Proof.
  intros (_ & _ & _ & _ & _ & _ & _ & _ & Hch) Hf fuel Hfu. rewrite Hf in Hch. destruct fuel as [|f]; [lia|]. cbn [drv_loop].
  unfold pos in Hch. rewrite firstn_all in Hch. fold ALL in Hch.
  assert (Hle : len file <= len ALL).
  { destruct Hfile as [->|(E & _)]; [lia|]. rewrite <- E, len_app. pose proof (len_nonneg [NL]). lia. }
  destruct (d_chunk d <? len file) eqn:E; [apply Z.ltb_lt in E; lia|reflexivity].
Qed.

Lemma loop_all_r : forall (n:nat) m d, InvR m d -> Mz d <= Z.of_nat n -> forall fuel, (n + 1 <= fuel)%nat ->
  exists d', drv_loop fuel file ncols cbs index_map d = Ok d' /\ InvR (length rows) d' /\ fresh d' = true.
Proof.
  induction n as [|n IH]; intros m d HI HM fuel Hf.
  - pose proof HI as (Hm & _).
    destruct (fresh d) eqn:Efr; [destruct (Nat.eq_dec m (length rows)) as [->|Hne]|].
    + exists d. split; [apply loop_done_r; [exact HI|exact Efr|lia]|auto].
    + destruct (step_general m d HI ltac:(left; lia)) as (_ & j & d' & _ & HI' & HM'). pose proof (Mz_nonneg _ _ HI'). lia.
    + destruct (step_general m d HI (or_intror Efr)) as (_ & j & d' & _ & HI' & HM'). pose proof (Mz_nonneg _ _ HI'). lia.
  - pose proof HI as (Hm & _).
    assert (Hcase : (fresh d = true /\ m = length rows) \/ ((m < length rows)%nat \/ fresh d = false)).
    { destruct (fresh d); [|right; right; reflexivity]. destruct (Nat.eq_dec m (length rows)); [left; auto|right; left; lia]. }
    destruct Hcase as [(Efr & ->)|Hgo].
    + exists d. split; [apply loop_done_r; [exact HI|exact Efr|lia]|auto].
    + destruct (step_general m d HI Hgo) as (Hch & j & d' & Hd & HI' & HM').
      destruct fuel as [|f]; [lia|]. cbn [drv_loop].
      destruct (d_chunk d <? len file) eqn:E; [|apply Z.ltb_ge in E; lia].
      rewrite Hd. cbn [bind]. apply (IH (m + j)%nat d' HI'); lia.
Qed.

Theorem read_file_regrow offs0 fuel : okoffs offs0 ->
  (2 * length rows + 2 * Z.to_nat (mu offs0) + 4 <= fuel)%nat ->
  exists d, read_file fuel file crs ncols offs0 index_map = Ok d /\
    d_acc d = len rows /\
    map (fun m => (i_indices m, i_values m)) (d_imps d) =
    map (fun ts => (enc_indices ts, enc_values ts)) (select index_map rows).
Proof.
  intros Hok Hf. unfold read_file. destruct fuel as [|f]; [lia|]. cbn [drv_loop d_chunk].
  destruct (step_first_r offs0 [] [] 0 Hok) as (j & d1 & Hd & HI & HM & Hlen).
  destruct (0 <? len file) eqn:E; [|apply Z.ltb_ge in E; lia].
  fold cbs. rewrite Hd. cbn [bind].
  pose proof (mu_nonneg ncols rows offs0) as Hmu.
  destruct (loop_all_r (2 * length rows + 2 * Z.to_nat (mu offs0) + 2)%nat j d1 HI ltac:(unfold len in *; lia) f ltac:(lia)) as (d & Hl & HId & _).
  exists d. split; [exact Hl|].
  destruct HId as (_ & _ & Hacc & Himps & _).
  split; [rewrite Hacc; reflexivity|]. rewrite Himps, firstn_all.
  unfold select. rewrite !map_map. apply map_ext. intros c. reflexivity.
Qed.

End DriverR.

(* any two chunk sizes and any two positive budget vectors give the same import *)
Theorem read_file_chunk_independent_any hdr rows file crs1 crs2 ncols offs1 offs2 index_map fuel1 fuel2 :
  0 < ncols -> len hdr = ncols -> Forall (fun rw : list cell => len rw = ncols) rows ->
  (file = render_file (hdr :: rows) \/
   (file ++ [NL] = render_file (hdr :: rows) /\ file <> [] /\ last file NL <> NL)) ->
  (forall r, In r (hdr :: rows) -> len (render_row r) <= crs1 * 2 * ncols) ->
  (forall r, In r (hdr :: rows) -> len (render_row r) <= crs2 * 2 * ncols) ->
  okoffs ncols offs1 -> okoffs ncols offs2 ->
  Forall (fun c => 0 <= c < ncols) index_map ->
  (2 * length rows + 2 * Z.to_nat (mu ncols rows offs1) + 4 <= fuel1)%nat ->
  (2 * length rows + 2 * Z.to_nat (mu ncols rows offs2) + 4 <= fuel2)%nat ->
  exists d1 d2, read_file fuel1 file crs1 ncols offs1 index_map = Ok d1 /\
                read_file fuel2 file crs2 ncols offs2 index_map = Ok d2 /\
                d_acc d1 = d_acc d2 /\
                map (fun m => (i_indices m, i_values m)) (d_imps d1) = map (fun m => (i_indices m, i_values m)) (d_imps d2).
Proof.
  intros Hn Hh Hr Hf Hw1 Hw2 Ho1 Ho2 Him Hf1 Hf2.
  destruct (read_file_regrow hdr rows file crs1 ncols index_map Hn Hh Hr Hf Hw1 Him offs1 fuel1 Ho1 Hf1) as (d1 & E1 & A1 & C1).
  destruct (read_file_regrow hdr rows file crs2 ncols index_map Hn Hh Hr Hf Hw2 Him offs2 fuel2 Ho2 Hf2) as (d2 & E2 & A2 & C2).
  exists d1, d2. repeat split; try assumption; congruence.
Qed.

(* budgets above the column totals need no doubling *)
Lemma mu_zero ncols rows o : 0 <= ncols ->
  (forall c, 0 <= c < ncols -> nthZ o c + len (CB rows c) < nthZ o (c + 1)) -> mu ncols rows o = 0.
Proof.
  intros Hn H. unfold mu. assert (G : forall n, (n <= Z.to_nat ncols)%nat -> mu_n rows o n = 0).
  { induction n as [|n IH]; intros Hle; [reflexivity|]. cbn [mu_n]. rewrite IH by lia.
    specialize (H (Z.of_nat n) ltac:(lia)). unfold bud. lia. }
  apply G. lia.
Qed.
