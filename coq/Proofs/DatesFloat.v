(* Proofs/DatesFloat.v — C20 stretch goal: the binary64 computation
       np.floor((t - m) / 86400.0)
   equals integer floor division for integer-valued timestamps with |t - m| < 2^50.
   Binary64 arithmetic is Flocq's standard model of IEEE-754: every operation returns the
   round-to-nearest-even (format FLT, emin = -1074, 53 bits) of the exact real result.
   This file uses the real numbers of the standard library and therefore depends on its
   axioms (listed by Print Assumptions in Props/C20_float.v). *)
From Coq Require Import ZArith Reals Lia Lra.
From Flocq Require Import Core.
Open Scope R_scope.

Definition fexp64 : Z -> Z := FLT_exp (-1074) 53.
Definition RN (x:R) : R := round radix2 fexp64 ZnearestE x.

Local Instance prec53 : Prec_gt_0 53.
Proof. unfold Prec_gt_0. lia. Qed.

Local Instance fexp64_valid : Valid_exp fexp64.
Proof. unfold fexp64. apply FLT_exp_valid. exact prec53. Qed.

(* m * 2^e with |m| < 2^53 and e >= -1074 is a binary64 number *)
Lemma format_mant_exp (m e:Z) : (Z.abs m < 2 ^ 53)%Z -> (-1074 <= e)%Z ->
  generic_format radix2 fexp64 (F2R (Float radix2 m e)).
Proof.
  intros Hm He. apply generic_format_FLT. apply (FLT_spec radix2 (-1074) 53 _ (Float radix2 m e)).
  - reflexivity.
  - exact Hm.
  - exact He.
Qed.

Lemma RN_exact_mant_exp (m e:Z) : (Z.abs m < 2 ^ 53)%Z -> (-1074 <= e)%Z ->
  RN (F2R (Float radix2 m e)) = F2R (Float radix2 m e).
Proof. intros Hm He. unfold RN. apply round_generic; [apply valid_rnd_N|]. apply format_mant_exp; assumption. Qed.

Lemma F2R_int (z:Z) : F2R (Float radix2 z 0) = IZR z.
Proof. unfold F2R. cbn. lra. Qed.

Lemma RN_integer (z:Z) : (Z.abs z < 2 ^ 53)%Z -> RN (IZR z) = IZR z.
Proof. intros H. rewrite <- F2R_int. apply RN_exact_mant_exp; [exact H|lia]. Qed.

Lemma RN_le x y : x <= y -> RN x <= RN y.
Proof. intros H. unfold RN. apply round_le; [exact fexp64_valid|apply valid_rnd_N|exact H]. Qed.

(* q + 1 - 2^-19 is a binary64 number when |q + 1| < 2^34 *)
Lemma F2R_below (q:Z) :
  F2R (Float radix2 ((q + 1) * 2 ^ 19 - 1) (-19)) = IZR q + 1 - / 524288.
Proof.
  unfold F2R. cbn [Fnum Fexp]. rewrite minus_IZR, mult_IZR, plus_IZR.
  change (bpow radix2 (-19)) with (/ IZR (Z.pow_pos 2 19)).
  change (Z.pow_pos 2 19) with 524288%Z. change (2 ^ 19)%Z with 524288%Z. field.
Qed.

(* the rounded quotient stays inside [q, q + 1 - 2^-19] *)
Lemma float_div_bounds (d:Z) : (Z.abs d < 2 ^ 50)%Z ->
  let q := (d / 86400)%Z in
  (Z.abs (q + 1) <= 17179869183)%Z /\
  IZR q <= RN (IZR d / 86400) <= IZR q + 1 - / 524288.
Proof.
  intros Hd q.
  change (2 ^ 50)%Z with 1125899906842624%Z in Hd.
  assert (P53 : (2 ^ 53 = 9007199254740992)%Z) by reflexivity.
  assert (P19 : (2 ^ 19 = 524288)%Z) by reflexivity.
  assert (Hq : (86400 * q <= d < 86400 * q + 86400)%Z).
  { unfold q. pose proof (Z.mul_div_le d 86400 ltac:(lia)).
    pose proof (Z.mul_succ_div_gt d 86400 ltac:(lia)). lia. }
  assert (Hqb : (Z.abs (q + 1) <= 17179869183)%Z) by lia.
  split; [exact Hqb|].
  (* exact quotient lies in [q, q + 1 - 1/86400] *)
  assert (Hx1 : IZR q <= IZR d / 86400).
  { apply Rmult_le_reg_r with 86400; [lra|]. unfold Rdiv. rewrite Rmult_assoc, Rinv_l by lra.
    rewrite Rmult_1_r. rewrite <- mult_IZR. apply IZR_le. lia. }
  assert (Hx2 : IZR d / 86400 <= IZR q + 1 - / 524288).
  { assert (Hd2 : IZR d <= 86400 * IZR q + 86399).
    { rewrite <- mult_IZR, <- plus_IZR. apply IZR_le. lia. }
    apply Rmult_le_reg_r with 86400; [lra|]. unfold Rdiv. rewrite Rmult_assoc, Rinv_l by lra. lra. }
  (* both bounds are binary64 numbers, rounding is monotone *)
  split.
  - rewrite <- (RN_integer q) at 1 by (rewrite P53; lia). apply RN_le. exact Hx1.
  - rewrite <- F2R_below.
    rewrite <- RN_exact_mant_exp with (m := ((q + 1) * 2 ^ 19 - 1)%Z) (e := (-19)%Z)
      by (rewrite ?P53, ?P19; lia).
    apply RN_le. rewrite F2R_below. exact Hx2.
Qed.

Theorem float_days_exact_proof (t m:Z) : (Z.abs (t - m) < 2 ^ 50)%Z ->
  Zfloor (RN (RN (IZR t - IZR m) / 86400)) = ((t - m) / 86400)%Z.
Proof.
  intros Hd. rewrite <- minus_IZR.
  rewrite RN_integer by (change (2 ^ 50)%Z with 1125899906842624%Z in Hd;
                         change (2 ^ 53)%Z with 9007199254740992%Z; lia).
  destruct (float_div_bounds (t - m) Hd) as [_ [Hlo Hhi]].
  apply Zfloor_imp. rewrite plus_IZR. split; [exact Hlo|]. lra.
Qed.

(* ---- the same at the level of Flocq's IEEE-754 binary64 operations (Bminus, Bdiv, round to
   nearest even): for finite binary64 numbers x, y holding the integers t, m and c holding 86400,
   (x - y) / c is finite and its floor is the integer floor division *)
From Flocq Require Import IEEE754.BinarySingleNaN IEEE754.Binary.

Local Instance prec_lt_emax64 : Prec_lt_emax 53 1024.
Proof. unfold Prec_lt_emax. lia. Qed.

Lemma small_lt_bpow1024 (z:R) : Rabs z <= IZR (2 ^ 51) -> Rabs z < bpow radix2 1024.
Proof.
  intros H. apply Rle_lt_trans with (1 := H). change (2 ^ 51)%Z with (Zpower radix2 51).
  rewrite (IZR_Zpower radix2 51) by lia. apply bpow_lt. lia.
Qed.

Theorem float_days_exact_ieee_proof
  (minus_nan : binary_float 53 1024 -> binary_float 53 1024 -> {x : binary_float 53 1024 | is_nan 53 1024 x = true})
  (div_nan : binary_float 53 1024 -> binary_float 53 1024 -> {x : binary_float 53 1024 | is_nan 53 1024 x = true})
  (x y c : binary_float 53 1024) (t m : Z) :
  is_finite 53 1024 x = true -> is_finite 53 1024 y = true ->
  B2R 53 1024 x = IZR t -> B2R 53 1024 y = IZR m -> B2R 53 1024 c = 86400 ->
  (Z.abs (t - m) < 2 ^ 50)%Z ->
  let r := Bdiv 53 1024 prec53 prec_lt_emax64 div_nan mode_NE (Bminus 53 1024 prec53 prec_lt_emax64 minus_nan mode_NE x y) c in
  is_finite 53 1024 r = true /\ Zfloor (B2R 53 1024 r) = ((t - m) / 86400)%Z.
Proof.
  intros Fx Fy Hx Hy Hc Hd r.
  assert (Hd' : (Z.abs (t - m) < 1125899906842624)%Z) by exact Hd.
  pose proof (Bminus_correct 53 1024 prec53 prec_lt_emax64 minus_nan mode_NE x y Fx Fy) as Hm.
  rewrite Hx, Hy, <- minus_IZR in Hm. cbn [round_mode] in Hm.
  change (round radix2 (SpecFloat.fexp 53 1024) ZnearestE) with RN in Hm.
  rewrite RN_integer in Hm by (change (2 ^ 53)%Z with 9007199254740992%Z; lia).
  rewrite Rlt_bool_true in Hm.
  2:{ apply small_lt_bpow1024. rewrite <- abs_IZR. apply IZR_le.
      change (2 ^ 51)%Z with 2251799813685248%Z. lia. }
  destruct Hm as [Hmr [Hmf _]].
  set (s := Bminus 53 1024 prec53 prec_lt_emax64 minus_nan mode_NE x y) in *.
  pose proof (Bdiv_correct 53 1024 prec53 prec_lt_emax64 div_nan mode_NE s c ltac:(rewrite Hc; lra)) as Hq.
  rewrite Hmr, Hc in Hq. cbn [round_mode] in Hq.
  change (round radix2 (SpecFloat.fexp 53 1024) ZnearestE) with RN in Hq.
  destruct (float_div_bounds (t - m) Hd) as [Hqb [Hlo Hhi]].
  rewrite Rlt_bool_true in Hq.
  2:{ apply small_lt_bpow1024. change (2 ^ 51)%Z with 2251799813685248%Z.
      assert (Hq1 : - 17179869184 <= IZR ((t - m) / 86400) <= 17179869184).
      { split; [apply (IZR_le (-17179869184))|apply (IZR_le _ 17179869184)]; lia. }
      apply Rabs_le. lra. }
  destruct Hq as [Hqr [Hqf _]]. fold r in Hqr, Hqf. split.
  - rewrite Hqf. exact Hmf.
  - rewrite Hqr. apply Zfloor_imp. rewrite plus_IZR. split; [exact Hlo|]. lra.
Qed.
