(* Proofs/JournalSort.v — facts about dataset_sort_index (the LSD radix sort of row positions),
   all_keys, versions and new_row used by the C17 proof. *)
From Coq Require Import ZArith List Lia Bool Permutation Sorted.
From EV Require Import Res Arr Journal JournalSpec.
Import ListNotations.
Open Scope Z_scope.

(* ---- iota / upto -------------------------------------------------------------------- *)
Lemma iota_from_upto_from s n : iota_from s n = upto_from s n.
Proof.
  revert s; induction n as [|n IH]; intros s; cbn [iota_from upto_from]; [reflexivity|].
  rewrite IH. reflexivity.
Qed.

Lemma iota_upto n : iota n = upto n.
Proof. apply iota_from_upto_from. Qed.

Lemma iota_from_length s n : length (iota_from s n) = n.
Proof.
  revert s; induction n as [|n IH]; intros s; cbn [iota_from length]; [reflexivity|].
  rewrite IH. reflexivity.
Qed.

Lemma iota_length n : length (iota n) = n.
Proof. apply iota_from_length. Qed.

Lemma upto_length n : length (upto n) = n.
Proof. rewrite <- iota_upto. apply iota_length. Qed.

Lemma iota_from_In s n x : In x (iota_from s n) <-> s <= x < s + Z.of_nat n.
Proof.
  revert s; induction n as [|n IH]; intros s; cbn [iota_from In].
  - lia.
  - rewrite IH. lia.
Qed.

Lemma iota_In n x : In x (iota n) <-> 0 <= x < Z.of_nat n.
Proof. unfold iota. rewrite iota_from_In. lia. Qed.

Lemma upto_In n x : In x (upto n) <-> 0 <= x < Z.of_nat n.
Proof. rewrite <- iota_upto. apply iota_In. Qed.

Lemma iota_from_SS s n : StronglySorted Z.lt (iota_from s n).
Proof.
  revert s; induction n as [|n IH]; intros s; cbn [iota_from]; constructor.
  - apply IH.
  - apply Forall_forall. intros x Hx. apply iota_from_In in Hx. lia.
Qed.

Lemma iota_SS n : StronglySorted Z.lt (iota n).
Proof. apply iota_from_SS. Qed.

(* ---- uniqueness of strongly sorted lists -------------------------------------------- *)
Section Uniq.
Variable R : Z -> Z -> Prop.
Hypothesis R_irrefl : forall x, ~ R x x.
Hypothesis R_trans : forall x y z, R x y -> R y z -> R x z.

Lemma ss_unique l1 : forall l2, StronglySorted R l1 -> StronglySorted R l2 ->
  (forall x, In x l1 <-> In x l2) -> l1 = l2.
Proof.
  induction l1 as [|a l1 IH]; intros l2 H1 H2 Hin.
  - destruct l2 as [|b l2]; [reflexivity|]. exfalso.
    destruct (Hin b) as [_ Hb]. exact (Hb (or_introl eq_refl)).
  - destruct l2 as [|b l2].
    { exfalso. destruct (Hin a) as [Ha _]. exact (Ha (or_introl eq_refl)). }
    apply StronglySorted_inv in H1. destruct H1 as [S1 F1].
    apply StronglySorted_inv in H2. destruct H2 as [S2 F2].
    rewrite Forall_forall in F1, F2.
    assert (Hab : a = b).
    { destruct (Hin a) as [Ha _]. destruct (Ha (or_introl eq_refl)) as [E|E]; [symmetry; exact E|].
      destruct (Hin b) as [_ Hb]. destruct (Hb (or_introl eq_refl)) as [E'|E']; [exact E'|].
      exfalso. apply (R_irrefl a). apply R_trans with b; [apply F1; exact E'|apply F2; exact E]. }
    subst b. f_equal. apply IH; try assumption. intros x; split; intros Hx.
    + destruct (Hin x) as [Hx' _]. destruct (Hx' (or_intror Hx)) as [E|E]; [|exact E].
      subst x. exfalso. apply (R_irrefl a). apply F1; exact Hx.
    + destruct (Hin x) as [_ Hx']. destruct (Hx' (or_intror Hx)) as [E|E]; [|exact E].
      subst x. exfalso. apply (R_irrefl a). apply F2; exact Hx.
Qed.
End Uniq.

Lemma SS_filter (R:Z->Z->Prop) f l : StronglySorted R l -> StronglySorted R (filter f l).
Proof.
  induction l as [|a l IH]; intros H; cbn [filter]; [constructor|].
  apply StronglySorted_inv in H. destruct H as [S F].
  destruct (f a); [|apply IH; exact S]. constructor; [apply IH; exact S|].
  rewrite Forall_forall in *. intros x Hx. apply filter_In in Hx. apply F. tauto.
Qed.

Lemma SS_impl_in (R R':Z->Z->Prop) l :
  (forall x y, In x l -> In y l -> R x y -> R' x y) -> StronglySorted R l -> StronglySorted R' l.
Proof.
  induction l as [|a l IH]; intros Himp H; [constructor|].
  apply StronglySorted_inv in H. destruct H as [S F]. constructor.
  - apply IH; [|exact S]. intros x y Hx Hy. apply Himp; right; assumption.
  - rewrite Forall_forall in *. intros x Hx. apply Himp; [left; reflexivity|right; exact Hx|].
    apply F; exact Hx.
Qed.

Lemma nthZ_In l i : 0 <= i < len l -> In (nthZ l i) l.
Proof. intros H. unfold nthZ, nthd, len in *. apply nth_In. lia. Qed.

Lemma SS_nth (R:Z->Z->Prop) l : StronglySorted R l ->
  forall i j, 0 <= i -> i < j -> j < len l -> R (nthZ l i) (nthZ l j).
Proof.
  induction l as [|a l IH]; intros H i j Hi Hij Hj.
  - rewrite len_nil in Hj. lia.
  - apply StronglySorted_inv in H. destruct H as [S F]. rewrite len_cons in Hj.
    replace j with ((j-1)+1) by lia. unfold nthZ. rewrite (nthd_cons_succ 0 a l (j-1)) by lia.
    destruct (Z.eq_dec i 0) as [->|Hi0].
    + rewrite nthd_cons_0. rewrite Forall_forall in F. apply F.
      apply (nthZ_In l (j-1)). lia.
    + replace i with ((i-1)+1) by lia. rewrite (nthd_cons_succ 0 a l (i-1)) by lia.
      apply (IH S (i-1) (j-1)); lia.
Qed.

(* ---- ins_key / all_keys -------------------------------------------------------------- *)
Lemma ins_key_In a l x : In x (ins_key a l) <-> x = a \/ In x l.
Proof.
  induction l as [|y t IH]; cbn [ins_key In].
  - intuition.
  - destruct (a <? y) eqn:E1; [cbn [In]; intuition|].
    destruct (a =? y) eqn:E2.
    + apply Z.eqb_eq in E2. subst y. cbn [In]. intuition.
    + cbn [In]. rewrite IH. intuition.
Qed.

Lemma ins_key_SS a l : StronglySorted Z.lt l -> StronglySorted Z.lt (ins_key a l).
Proof.
  induction l as [|y t IH]; intros H; cbn [ins_key].
  - constructor; constructor.
  - pose proof H as H0. apply StronglySorted_inv in H. destruct H as [S F].
    destruct (a <? y) eqn:E1.
    + apply Z.ltb_lt in E1. constructor; [exact H0|]. constructor; [exact E1|].
      rewrite Forall_forall in *. intros x Hx. specialize (F x Hx). lia.
    + destruct (a =? y) eqn:E2; [exact H0|].
      apply Z.ltb_ge in E1. apply Z.eqb_neq in E2.
      constructor; [apply IH; exact S|].
      rewrite Forall_forall in *. intros x Hx. apply ins_key_In in Hx.
      destruct Hx as [->|Hx]; [lia|apply F; exact Hx].
Qed.

Lemma fold_ins_key_In l x : In x (fold_right ins_key [] l) <-> In x l.
Proof.
  induction l as [|a l IH]; cbn [fold_right In]; [tauto|].
  rewrite ins_key_In, IH. intuition.
Qed.

Lemma fold_ins_key_SS l : StronglySorted Z.lt (fold_right ins_key [] l).
Proof.
  induction l as [|a l IH]; cbn [fold_right]; [constructor|]. apply ins_key_SS. exact IH.
Qed.

Lemma all_keys_In l1 l2 x : In x (all_keys l1 l2) <-> In x l1 \/ In x l2.
Proof. unfold all_keys. rewrite fold_ins_key_In. apply in_app_iff. Qed.

Lemma all_keys_SS l1 l2 : StronglySorted Z.lt (all_keys l1 l2).
Proof. apply fold_ins_key_SS. Qed.

Lemma all_keys_perm l1 l2 l1' l2' : Permutation l1 l1' -> Permutation l2 l2' ->
  all_keys l1 l2 = all_keys l1' l2'.
Proof.
  intros P1 P2. apply (ss_unique Z.lt).
  - intros x. lia.
  - intros x y z. lia.
  - apply all_keys_SS.
  - apply all_keys_SS.
  - intros x. rewrite !all_keys_In. split; intros [H|H].
    + left. apply (Permutation_in x P1 H).
    + right. apply (Permutation_in x P2 H).
    + left. apply (Permutation_in x (Permutation_sym P1) H).
    + right. apply (Permutation_in x (Permutation_sym P2) H).
Qed.

(* ---- stable insertion sort of positions --------------------------------------------- *)
Definition lexk (keys:list Z) (R:Z->Z->Prop) (a b:Z) : Prop :=
  nthZ keys a < nthZ keys b \/ (nthZ keys a = nthZ keys b /\ R a b).

Definition isort (keys l:list Z) : list Z := fold_right (ins_pos keys) [] l.

Lemma lexk_irrefl keys (R:Z->Z->Prop) : (forall x, ~ R x x) -> forall x, ~ lexk keys R x x.
Proof. intros HR x [H|[_ H]]; [lia|exact (HR x H)]. Qed.

Lemma lexk_trans keys (R:Z->Z->Prop) : (forall x y z, R x y -> R y z -> R x z) ->
  forall x y z, lexk keys R x y -> lexk keys R y z -> lexk keys R x z.
Proof.
  intros HR x y z [H1|[E1 H1]] [H2|[E2 H2]]; unfold lexk.
  - left; lia.
  - left; lia.
  - left; lia.
  - right; split; [lia|]. apply HR with y; assumption.
Qed.

Lemma lexk_le keys (R:Z->Z->Prop) a b : lexk keys R a b -> nthZ keys a <= nthZ keys b.
Proof. intros [H|[H _]]; lia. Qed.

Lemma lexk_of_le keys (R:Z->Z->Prop) a b : nthZ keys a <= nthZ keys b -> R a b -> lexk keys R a b.
Proof.
  intros Hle HR. unfold lexk. destruct (Z.eq_dec (nthZ keys a) (nthZ keys b)) as [E|E].
  - right; split; assumption.
  - left; lia.
Qed.

Lemma ins_vf_eq keys x l : ins_vf keys x l = ins_pos keys x l.
Proof.
  induction l as [|y t IH]; cbn [ins_vf ins_pos]; [reflexivity|]. rewrite IH. reflexivity.
Qed.

Lemma fold_ins_vf_eq keys l : fold_right (ins_vf keys) [] l = isort keys l.
Proof.
  unfold isort. induction l as [|a l IH]; cbn [fold_right]; [reflexivity|].
  rewrite IH. apply ins_vf_eq.
Qed.

Lemma ins_pos_perm keys x l : Permutation (ins_pos keys x l) (x :: l).
Proof.
  induction l as [|y t IH]; cbn [ins_pos]; [apply Permutation_refl|].
  destruct (nthZ keys x <=? nthZ keys y); [apply Permutation_refl|].
  apply perm_trans with (y :: x :: t); [apply perm_skip; exact IH|apply perm_swap].
Qed.

Lemma ins_pos_In keys x l z : In z (ins_pos keys x l) <-> z = x \/ In z l.
Proof.
  split; intros H.
  - apply (Permutation_in z (ins_pos_perm keys x l)) in H. cbn [In] in H. intuition.
  - apply (Permutation_in z (Permutation_sym (ins_pos_perm keys x l))). cbn [In]. intuition.
Qed.

Lemma ins_pos_SS keys (R:Z->Z->Prop) x l :
  StronglySorted (lexk keys R) l -> Forall (R x) l -> StronglySorted (lexk keys R) (ins_pos keys x l).
Proof.
  induction l as [|y t IH]; intros H HF; cbn [ins_pos].
  - constructor; constructor.
  - pose proof H as H0. apply StronglySorted_inv in H. destruct H as [S F].
    pose proof HF as HF0. apply Forall_inv in HF. apply Forall_inv_tail in HF0.
    destruct (nthZ keys x <=? nthZ keys y) eqn:E.
    + apply Z.leb_le in E. constructor; [exact H0|]. constructor.
      * apply lexk_of_le; assumption.
      * rewrite Forall_forall in *. intros z Hz. apply lexk_of_le; [|apply HF0; exact Hz].
        pose proof (lexk_le keys R y z (F z Hz)). lia.
    + apply Z.leb_gt in E. constructor; [apply IH; assumption|].
      rewrite Forall_forall in *. intros z Hz. apply ins_pos_In in Hz.
      destruct Hz as [->|Hz]; [left; exact E|apply F; exact Hz].
Qed.

Lemma isort_perm keys l : Permutation (isort keys l) l.
Proof.
  unfold isort. induction l as [|a l IH]; cbn [fold_right]; [apply Permutation_refl|].
  apply perm_trans with (a :: fold_right (ins_pos keys) [] l); [apply ins_pos_perm|].
  apply perm_skip. exact IH.
Qed.

Lemma isort_In keys l x : In x (isort keys l) <-> In x l.
Proof.
  split; intros H.
  - apply (Permutation_in x (isort_perm keys l) H).
  - apply (Permutation_in x (Permutation_sym (isort_perm keys l)) H).
Qed.

Lemma isort_SS keys (R:Z->Z->Prop) l : StronglySorted R l -> StronglySorted (lexk keys R) (isort keys l).
Proof.
  induction l as [|a l IH]; intros H; [constructor|].
  apply StronglySorted_inv in H. destruct H as [S F].
  change (isort keys (a :: l)) with (ins_pos keys a (isort keys l)).
  apply ins_pos_SS; [apply IH; exact S|].
  rewrite Forall_forall in *. intros z Hz. apply isort_In in Hz. apply F; exact Hz.
Qed.

(* ---- take --------------------------------------------------------------------------- *)
Lemma take_length a idx : length (take a idx) = length idx.
Proof. unfold take. apply map_length. Qed.

Lemma len_take a idx : len (take a idx) = len idx.
Proof. unfold len. rewrite take_length. reflexivity. Qed.

Lemma nthZ_take a idx p : 0 <= p < len idx -> nthZ (take a idx) p = nthZ a (nthZ idx p).
Proof.
  intros H. unfold take.
  change (nthZ (map (nthZ a) idx) p) with (nth (Z.to_nat p) (map (nthZ a) idx) 0).
  rewrite nth_indep with (d' := nthZ a 0) by (rewrite map_length; unfold len in H; lia).
  rewrite map_nth. reflexivity.
Qed.

Lemma map_nthZ_shift a acc s n : 0 <= s ->
  map (nthZ (a :: acc)) (iota_from (s + 1) n) = map (nthZ acc) (iota_from s n).
Proof.
  revert s; induction n as [|n IH]; intros s Hs; cbn [iota_from map]; [reflexivity|].
  rewrite IH by lia. f_equal. unfold nthZ. apply nthd_cons_succ. exact Hs.
Qed.

Lemma map_nthZ_iota acc : map (nthZ acc) (iota (length acc)) = acc.
Proof.
  induction acc as [|a acc IH]; [reflexivity|]. unfold iota in *.
  cbn [length iota_from map]. rewrite (map_nthZ_shift a acc 0) by lia. rewrite IH. reflexivity.
Qed.

Lemma take_iota a : take a (iota (length a)) = a.
Proof. apply map_nthZ_iota. Qed.

Lemma take_perm a idx : Permutation idx (upto (length a)) -> Permutation (take a idx) a.
Proof.
  intros P. unfold take. apply perm_trans with (map (nthZ a) (upto (length a))).
  - apply Permutation_map. exact P.
  - rewrite <- iota_upto, map_nthZ_iota. apply Permutation_refl.
Qed.

(* ---- sort_step is a stable insertion sort of the elements of acc by their r-value ---- *)
Lemma map_ins_pos acc r x l : 0 <= x < len acc -> Forall (fun p => 0 <= p < len acc) l ->
  map (nthZ acc) (ins_pos (take r acc) x l) = ins_pos r (nthZ acc x) (map (nthZ acc) l).
Proof.
  intros Hx Hl. induction l as [|y t IH]; cbn [ins_pos map]; [reflexivity|].
  pose proof (Forall_inv Hl) as Hy. pose proof (Forall_inv_tail Hl) as Ht. cbv beta in Hy.
  rewrite !nthZ_take by assumption.
  destruct (nthZ r (nthZ acc x) <=? nthZ r (nthZ acc y)); cbn [map]; [reflexivity|].
  rewrite IH by assumption. reflexivity.
Qed.

Lemma map_isort acc r ps : Forall (fun p => 0 <= p < len acc) ps ->
  map (nthZ acc) (isort (take r acc) ps) = isort r (map (nthZ acc) ps).
Proof.
  induction ps as [|p ps IH]; intros H; [reflexivity|].
  pose proof (Forall_inv H) as Hp. pose proof (Forall_inv_tail H) as Hps. cbv beta in Hp.
  change (isort (take r acc) (p :: ps)) with (ins_pos (take r acc) p (isort (take r acc) ps)).
  cbn [map].
  change (isort r (nthZ acc p :: map (nthZ acc) ps)) with (ins_pos r (nthZ acc p) (isort r (map (nthZ acc) ps))).
  rewrite map_ins_pos; [rewrite IH by assumption; reflexivity|exact Hp|].
  rewrite Forall_forall in *. intros z Hz. apply isort_In in Hz. apply Hps; exact Hz.
Qed.

Lemma sort_step_eq acc r : sort_step acc r = isort r acc.
Proof.
  unfold sort_step, argsort. rewrite take_length. fold (isort (take r acc) (iota (length acc))).
  unfold take at 1. rewrite map_isort.
  - rewrite map_nthZ_iota. reflexivity.
  - apply Forall_forall. intros x Hx. apply iota_In in Hx. unfold len. exact Hx.
Qed.

Lemma dsi2_eq okeys ovf : dataset_sort_index [okeys; ovf] = isort okeys (isort ovf (iota (length ovf))).
Proof.
  change (dataset_sort_index [okeys; ovf]) with (sort_step (sort_step (iota (length ovf)) ovf) okeys).
  rewrite !sort_step_eq. reflexivity.
Qed.

Lemma dsi1_eq nkeys : dataset_sort_index [nkeys] = isort nkeys (iota (length nkeys)).
Proof.
  change (dataset_sort_index [nkeys]) with (sort_step (iota (length nkeys)) nkeys).
  apply sort_step_eq.
Qed.

(* ---- permutation / length / range ----------------------------------------------------- *)
Lemma dsi2_perm okeys ovf : length okeys = length ovf ->
  Permutation (dataset_sort_index [okeys; ovf]) (upto (length okeys)).
Proof.
  intros Hl. rewrite dsi2_eq, Hl. rewrite <- (iota_upto (length ovf)).
  apply perm_trans with (isort ovf (iota (length ovf))); apply isort_perm.
Qed.

Lemma dsi1_perm nkeys : Permutation (dataset_sort_index [nkeys]) (upto (length nkeys)).
Proof. rewrite dsi1_eq. rewrite <- (iota_upto (length nkeys)). apply isort_perm. Qed.

Lemma dsi2_length okeys ovf : length okeys = length ovf ->
  length (dataset_sort_index [okeys; ovf]) = length okeys.
Proof.
  intros Hl. rewrite (Permutation_length (dsi2_perm okeys ovf Hl)). apply upto_length.
Qed.

Lemma dsi1_length nkeys : length (dataset_sort_index [nkeys]) = length nkeys.
Proof. rewrite (Permutation_length (dsi1_perm nkeys)). apply upto_length. Qed.

Lemma perm_upto_range (a idx:list Z) : Permutation idx (upto (length a)) ->
  Forall (fun i => 0 <= i < len a) idx.
Proof.
  intros P. apply Forall_forall. intros x Hx. apply (Permutation_in x P) in Hx.
  apply upto_In in Hx. unfold len. exact Hx.
Qed.

Lemma dsi2_range okeys ovf : length okeys = length ovf ->
  Forall (fun i => 0 <= i < len okeys) (dataset_sort_index [okeys; ovf]).
Proof. intros Hl. apply perm_upto_range. apply dsi2_perm. exact Hl. Qed.

Lemma dsi1_range nkeys : Forall (fun i => 0 <= i < len nkeys) (dataset_sort_index [nkeys]).
Proof. apply perm_upto_range. apply dsi1_perm. Qed.

(* ---- sortedness of the permuted key columns ------------------------------------------- *)
Lemma lt_irrefl' : forall x:Z, ~ x < x.
Proof. intros x; lia. Qed.
Lemma lt_trans' : forall x y z:Z, x < y -> y < z -> x < z.
Proof. intros x y z; lia. Qed.

Lemma dsi2_SS okeys ovf :
  StronglySorted (lexk okeys (lexk ovf Z.lt)) (dataset_sort_index [okeys; ovf]).
Proof. rewrite dsi2_eq. apply isort_SS. apply isort_SS. apply iota_SS. Qed.

Lemma dsi1_SS nkeys : StronglySorted (lexk nkeys Z.lt) (dataset_sort_index [nkeys]).
Proof. rewrite dsi1_eq. apply isort_SS. apply iota_SS. Qed.

Lemma dsi2_keys_sorted okeys ovf : length okeys = length ovf ->
  sorted (take okeys (dataset_sort_index [okeys; ovf])).
Proof.
  intros Hl i j Hi Hij Hj. rewrite len_take in Hj.
  destruct (Z.eq_dec i j) as [->|Hne]; [lia|].
  rewrite !nthZ_take by lia.
  apply (lexk_le okeys (lexk ovf Z.lt)).
  apply (SS_nth _ _ (dsi2_SS okeys ovf)); lia.
Qed.

Lemma nodup_nthZ_inj l x y : NoDup l -> 0 <= x < len l -> 0 <= y < len l ->
  nthZ l x = nthZ l y -> x = y.
Proof.
  intros Hnd Hx Hy E. unfold nthZ, nthd, len in *.
  pose proof (proj1 (NoDup_nth l 0) Hnd (Z.to_nat x) (Z.to_nat y)) as H.
  assert (Z.to_nat x = Z.to_nat y) by (apply H; [lia|lia|exact E]). lia.
Qed.

Lemma dsi1_keys_ssorted nkeys : NoDup nkeys ->
  ssorted (take nkeys (dataset_sort_index [nkeys])).
Proof.
  intros Hnd i j Hi Hij Hj. rewrite len_take in Hj.
  rewrite !nthZ_take by lia.
  pose proof (SS_nth _ _ (dsi1_SS nkeys) i j Hi Hij Hj) as H.
  destruct H as [H|[E H]]; [exact H|]. exfalso.
  pose proof (dsi1_range nkeys) as Hr. rewrite Forall_forall in Hr.
  assert (Hri : 0 <= nthZ (dataset_sort_index [nkeys]) i < len nkeys)
    by (apply Hr; apply nthZ_In; lia).
  assert (Hrj : 0 <= nthZ (dataset_sort_index [nkeys]) j < len nkeys)
    by (apply Hr; apply nthZ_In; lia).
  pose proof (nodup_nthZ_inj nkeys _ _ Hnd Hri Hrj E). lia.
Qed.

(* ---- versions -------------------------------------------------------------------------- *)
Lemma dsi2_versions okeys ovf k : length okeys = length ovf ->
  versions okeys ovf k = filter (fun i => nthZ okeys i =? k) (dataset_sort_index [okeys; ovf]).
Proof.
  intros Hl. unfold versions. rewrite fold_ins_vf_eq.
  apply (ss_unique (lexk ovf Z.lt)).
  - apply lexk_irrefl. apply lt_irrefl'.
  - apply lexk_trans. apply lt_trans'.
  - apply isort_SS. apply SS_filter. rewrite <- iota_upto. apply iota_SS.
  - apply (SS_impl_in (lexk okeys (lexk ovf Z.lt))).
    + intros x y Hx Hy Hxy. apply filter_In in Hx. apply filter_In in Hy.
      destruct Hx as [_ Hx]. destruct Hy as [_ Hy].
      apply Z.eqb_eq in Hx. apply Z.eqb_eq in Hy.
      destruct Hxy as [Hlt|[_ Hxy]]; [lia|exact Hxy].
    + apply SS_filter. apply dsi2_SS.
  - intros x. rewrite isort_In, !filter_In.
    pose proof (dsi2_perm okeys ovf Hl) as P.
    split; intros [Hx Hf]; split; try exact Hf.
    + apply (Permutation_in x (Permutation_sym P) Hx).
    + apply (Permutation_in x P Hx).
Qed.

(* ---- new_row ---------------------------------------------------------------------------- *)
Lemma find_map {A B:Type} (g:A->B) (f:B->bool) l :
  find f (map g l) = option_map g (find (fun q => f (g q)) l).
Proof.
  induction l as [|a l IH]; cbn [map find]; [reflexivity|].
  destruct (f (g a)); [reflexivity|exact IH].
Qed.

Lemma find_ext_in {A:Type} (f g:A->bool) l : (forall x, In x l -> f x = g x) -> find f l = find g l.
Proof.
  induction l as [|a l IH]; intros H; cbn [find]; [reflexivity|].
  rewrite <- (H a (or_introl eq_refl)). destruct (f a); [reflexivity|].
  apply IH. intros x Hx. apply H. right; exact Hx.
Qed.

Lemma find_perm_unique {A:Type} (f:A->bool) l1 l2 : Permutation l1 l2 ->
  (forall x y, In x l1 -> In y l1 -> f x = true -> f y = true -> x = y) ->
  find f l1 = find f l2.
Proof.
  intros P Hu. destruct (find f l1) as [x|] eqn:E1; destruct (find f l2) as [y|] eqn:E2.
  - apply find_some in E1. apply find_some in E2. destruct E1 as [I1 F1]. destruct E2 as [I2 F2].
    f_equal. apply Hu; try assumption. apply (Permutation_in y (Permutation_sym P) I2).
  - apply find_some in E1. destruct E1 as [I1 F1].
    pose proof (find_none _ _ E2 x (Permutation_in x P I1)) as Hn. congruence.
  - apply find_some in E2. destruct E2 as [I2 F2].
    pose proof (find_none _ _ E1 y (Permutation_in y (Permutation_sym P) I2)) as Hn. congruence.
  - reflexivity.
Qed.

Lemma new_row_perm nkeys nsi k : NoDup nkeys -> Permutation nsi (upto (length nkeys)) ->
  new_row nkeys k = option_map (nthZ nsi) (new_row (take nkeys nsi) k).
Proof.
  intros Hnd P. unfold new_row.
  assert (Hlen : length nsi = length nkeys).
  { rewrite (Permutation_length P). apply upto_length. }
  rewrite take_length, Hlen.
  rewrite (find_ext_in (fun j => nthZ (take nkeys nsi) j =? k)
                       (fun q => (fun j => nthZ nkeys j =? k) (nthZ nsi q))).
  2:{ intros x Hx. cbv beta. apply upto_In in Hx. rewrite nthZ_take; [reflexivity|].
      unfold len. rewrite Hlen. exact Hx. }
  rewrite <- (find_map (nthZ nsi) (fun j => nthZ nkeys j =? k)).
  assert (Hm : map (nthZ nsi) (upto (length nkeys)) = nsi).
  { rewrite <- Hlen, <- iota_upto. apply map_nthZ_iota. }
  rewrite Hm. symmetry. apply find_perm_unique; [exact P|].
  intros x y Hx Hy Fx Fy. apply Z.eqb_eq in Fx. apply Z.eqb_eq in Fy.
  pose proof (perm_upto_range nkeys nsi P) as Hr. rewrite Forall_forall in Hr.
  apply (nodup_nthZ_inj nkeys x y Hnd); [apply Hr; exact Hx|apply Hr; exact Hy|lia].
Qed.

Lemma dsi1_new_row nkeys k : NoDup nkeys ->
  new_row nkeys k =
  option_map (nthZ (dataset_sort_index [nkeys])) (new_row (take nkeys (dataset_sort_index [nkeys])) k).
Proof. intros Hnd. apply new_row_perm; [exact Hnd|apply dsi1_perm]. Qed.
