(* Proofs/DatesAlgebra.v — C20, algebra of the day numbers (days_spec dlen o ts = floor((t-o)/dlen)):
   invariant under a common shift of timestamps and origin, and monotone in the timestamp. *)
From Coq Require Import ZArith List Bool Lia.
From EV Require Import Res Arr DatesSpec.
Import ListNotations.
Open Scope Z_scope.

Theorem days_shift_invariant_pf dlen o k ts :
  days_spec dlen (o + k) (map (fun t => t + k) ts) = days_spec dlen o ts.
Proof.
  unfold days_spec. rewrite map_map. apply map_ext. intros t. f_equal. lia.
Qed.

Theorem days_monotone_pf dlen o ts i j : 0 < dlen ->
  0 <= i < len ts -> 0 <= j < len ts -> nthZ ts i <= nthZ ts j ->
  nthZ (days_spec dlen o ts) i <= nthZ (days_spec dlen o ts) j.
Proof.
  intros Hd Hi Hj Hle. unfold days_spec, nthZ, nthd in *.
  rewrite !(nth_indep (map _ ts) 0 ((fun t => (t - o) / dlen) 0))
    by (rewrite map_length; unfold len in *; lia).
  rewrite !(map_nth (fun t => (t - o) / dlen)).
  apply Z.div_le_mono; lia.
Qed.
