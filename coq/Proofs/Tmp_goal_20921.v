(* Proofs/SessionMergeTypedP.v — typed payloads and histories of Session.ordered_merge_left (C19).

   Every payload is handled on its own: whatever the dtypes of the other payloads of the same call, of the other
   sinks, and whatever calls came before, the column a sink receives is the left-join payload of ITS source, in the
   dtype the argument form prescribes — provided the sink's dtype can hold the source's values (same dtype, or an
   integer/bool source into an integer sink that is wide enough). *)
From Coq Require Import ZArith List Lia Bool ZifyBool.
From EV Require Import Res Arr Join JoinSpec JoinBase JoinIface JoinDriver JoinMain JoinRU JoinMainKRU
  MapStream SessionMerge SessionMergeSpec SessionMergeTop SessionMergeStream SessionMergeTyped.
Import ListNotations.
Open Scope Z_scope.

(* ------------------------------------------------------------------ casts that keep the value *)
Lemma dtype_eqb_refl a : dtype_eqb a a = true.
Proof. destruct a; cbn [dtype_eqb]; try reflexivity; apply Z.eqb_refl. Qed.

Lemma cast_same a v : cast a a v = Some v.
Proof. unfold cast. rewrite dtype_eqb_refl. reflexivity. Qed.

Definition int_like (a:dtype) : bool := match a with DFloat _ => false | _ => true end.

(* v is a value of dtype b *)
Definition fits (b:dtype) (v:Z) : Prop :=
  match b with
  | DBool => v = 0 \/ v = 1
  | DInt n => 1 <= n /\ - 2 ^ (n - 1) <= v < 2 ^ (n - 1)
  | DUInt n => 0 <= n /\ 0 <= v < 2 ^ n
  | DFloat _ => False
  end.

Lemma wrap_s_fits n v : 1 <= n -> - 2 ^ (n - 1) <= v < 2 ^ (n - 1) -> wrap_s n v = v.
Proof.
  intros Hn Hv. unfold wrap_s.
  assert (E : 2 ^ n = 2 * 2 ^ (n - 1)).
  { replace n with (Z.succ (n - 1)) at 1 by lia. rewrite Z.pow_succ_r by lia. reflexivity. }
  rewrite Z.mod_small by lia. lia.
Qed.

Lemma wrap_u_fits n v : 0 <= v < 2 ^ n -> wrap_u n v = v.
Proof. intros Hv. unfold wrap_u. apply Z.mod_small. exact Hv. Qed.

Lemma cast_fits a b v : int_like a = true -> fits b v -> cast a b v = Some v.
Proof.
  intros Ha Hf. unfold cast. destruct (dtype_eqb a b) eqn:E; [reflexivity|].
  destruct b as [|n|n|n]; cbn [fits] in Hf.
  - destruct a as [|m|m|m]; cbn [dtype_eqb int_like] in *; try discriminate;
      (destruct Hf as [-> | ->]; reflexivity).
  - destruct Hf as (Hn & Hv).
    destruct a; cbn [int_like] in Ha; try discriminate; rewrite (wrap_s_fits n v Hn Hv); reflexivity.
  - destruct Hf as (Hn & Hv).
    destruct a; cbn [int_like] in Ha; try discriminate; rewrite (wrap_u_fits n v Hv); reflexivity.
  - contradiction.
Qed.

(* the column l of dtype a is stored unchanged in an array of dtype b *)
Definition preserved (a b:dtype) (l:list Z) : Prop :=
  dtype_eqb a b = true \/ (int_like a = true /\ Forall (fits b) l).

Lemma cast_col_preserved a b l : preserved a b l -> cast_col a b l = Ok l.
Proof.
  intros H. unfold cast_col. rewrite <- (map_id l) at 2. apply mapM_ok. intros v Hv.
  destruct H as [E | (Ha & Hf)].
  - unfold cast. rewrite E. reflexivity.
  - rewrite (cast_fits a b v Ha); [reflexivity|]. rewrite Forall_forall in Hf. exact (Hf v Hv).
Qed.

Definition well_staged (srcs:list tcol) (dts:list dtype) : Prop :=
  Forall2 (fun s d => preserved (fst s) d (snd s)) srcs dts.

Lemma staged_cols srcs dts : well_staged srcs dts ->
  mapM (fun p : tcol * dtype => cast_col (fst (fst p)) (snd p) (snd (fst p))) (combine srcs dts) = Ok (map snd srcs).
Proof.
  intros H. induction H as [|s d srcs dts Hsd _ IH]; cbn [combine mapM map]; [reflexivity|].
  cbn [fst snd]. rewrite (cast_col_preserved _ _ _ Hsd). cbn [bind]. rewrite IH. reflexivity.
Qed.

Lemma well_staged_same srcs : well_staged srcs (map fst srcs).
Proof.
  induction srcs as [|s t IH]; cbn [map]; constructor; [|exact IH].
  left. apply dtype_eqb_refl.
Qed.

(* ------------------------------------------------------------------ the dtypes the caller observes *)
Lemma out_dtypes_nosinks st fm bk srcs snk_dts : has_sinks fm = false ->
  out_dtypes st fm bk srcs snk_dts = Ok (map fst srcs).
Proof. intros H. unfold out_dtypes. rewrite H. reflexivity. Qed.

Lemma out_dtypes_streamed bk : forall srcs snk_dts, length snk_dts = length srcs ->
  out_dtypes true FFldSink bk srcs snk_dts = Ok snk_dts.
Proof.
  unfold out_dtypes. cbn [has_sinks].
  induction srcs as [|s t IH]; intros [|d ds] Hl; cbn [length] in Hl; try discriminate; cbn [combine mapM]; [reflexivity|].
  cbn [fst snd staged_dtype bind]. rewrite IH by lia. reflexivity.
Qed.

(* ------------------------------------------------------------------ the typed call is the untyped call, tagged *)
Theorem oml_t_reduces cs L R srcs fm snk_dts sinks0 mk lu ru bk dts :
  (has_sinks fm = true -> length snk_dts = length srcs) ->
  out_dtypes (is_streamed fm mk) fm bk srcs snk_dts = Ok dts ->
  well_staged srcs dts ->
  ordered_merge_left_t cs L R srcs fm snk_dts sinks0 mk lu ru bk =
  (do o <- ordered_merge_left Fixed cs L R (map snd srcs) fm sinks0 mk lu ru;
   Ok (mk_toml (tag dts (oml_ret o)) (tag dts (oml_sinks o)) (oml_map o))).
Proof.
  intros Hl Hd Hw. unfold ordered_merge_left_t.
  assert (E : has_sinks fm && negb (len srcs =? len snk_dts) = false).
  { destruct (has_sinks fm) eqn:Hs; [|reflexivity]. cbn [andb]. unfold len. rewrite (Hl eq_refl).
    rewrite Z.eqb_refl. reflexivity. }
Show. 
