(* Proofs/TransformLeaky.v — leaky_categorical_transform and the accumulation of free-text offsets
   across chunks (LeakyCategoricalImporter.import_part). *)
From Coq Require Import ZArith List Bool Lia ZifyBool.
From EV Require Import Res Arr Transform TransformSpec TransformBase TransformCat.
Import ListNotations.
Open Scope Z_scope.

Definition is_some {A} (o:option A) : bool := match o with Some _ => true | None => false end.

Definition lk_code (s:list (list Z * Z)) (cell:list Z) : Z := sel (option_map wrap_i8 (lmo s cell None)) (-1).
Definition lk_len (s:list (list Z * Z)) (cell:list Z) : Z := if is_some (lmo s cell None) then 0 else len cell.
Definition lk_text (s:list (list Z * Z)) (cell:list Z) : list Z := if is_some (lmo s cell None) then [] else cell.

Lemma lk_len_text s cells : sumZ (map (lk_len s) cells) = len (concat (map (lk_text s) cells)).
Proof.
  induction cells as [|c cells IH]; cbn [map sumZ concat]; [reflexivity|].
  rewrite len_app, IH. unfold lk_len, lk_text. destruct (is_some (lmo s c None)); reflexivity.
Qed.

Lemma lk_keys_loop_ok s vals A cell B ca cb x0 fa f0 y0 fb fv :
  vals = A ++ cell ++ B -> len fa = len ca ->
  forall s2 s1 init, s = s1 ++ s2 ->
  lk_keys_loop (length s2) (len s1) vals (concat (map fst s)) (psums (map lenfst s)) (map snd s)
               (len A) (len cell) (len ca) (is_some init)
               (mkLk (ca ++ sel (option_map wrap_i8 init) x0 :: cb)
                     (fa ++ f0 :: (if is_some init then f0 else y0) :: fb) fv)
  = Ok (is_some (lmo s2 cell init),
        mkLk (ca ++ sel (option_map wrap_i8 (lmo s2 cell init)) x0 :: cb)
             (fa ++ f0 :: (if is_some (lmo s2 cell init) then f0 else y0) :: fb) fv).
Proof.
  intros Hv Hfa. induction s2 as [|[k v] s2 IH]; intros s1 init Hs; [reflexivity|].
  cbn [length lk_keys_loop].
  assert (Hidx : map lenfst s = map lenfst s1 ++ len k :: map lenfst s2).
  { rewrite Hs, map_app. reflexivity. }
  destruct (psums_get 25 (map lenfst s1) (len k) (map lenfst s2)) as [_ G1].
  destruct (psums_get 26 (map lenfst s1) (len k) (map lenfst s2)) as [G0 _].
  assert (Hls : len (map lenfst s1) = len s1) by (unfold len; rewrite map_length; reflexivity).
  rewrite Hls in G0, G1. rewrite <- Hidx in G0, G1. rewrite G1. cbn [bind]. rewrite G0. cbn [bind].
  replace (sumZ (map lenfst s1) + len k - sumZ (map lenfst s1)) with (len k) by lia.
  assert (Hnext : s = (s1 ++ [(k, v)]) ++ s2) by (rewrite <- app_assoc; exact Hs).
  assert (Hl1 : len s1 + 1 = len (s1 ++ [(k, v)])) by (rewrite len_app; reflexivity).
  cbn [lmo fold_left fst snd]. fold (lmo s2 cell (if list_eqb k cell then Some v else init)).
  destruct (len cell =? len k) eqn:El; cbn [negb].
  - assert (Hcmp : cmp_loop (Z.to_nat (len cell)) 0 vals (concat (map fst s)) (psums (map lenfst s)) (len A) (len s1)
                   = Ok (list_eqb k cell)).
    { replace (Z.to_nat (len cell)) with (length cell) by (unfold len; lia).
      apply (cmp_loop_ok vals _ _ _ A B (concat (map fst s1)) (concat (map fst s2)) ) with (cp:=[]) (kp:=[]).
      - intros site. rewrite Hidx. destruct (psums_get site (map lenfst s1) (len k) (map lenfst s2)) as [G _].
        rewrite Hls in G. rewrite G. f_equal. unfold lenfst. clear.
        induction s1 as [|a s1 IH]; cbn [map sumZ concat]; [reflexivity|]. rewrite len_app, IH. reflexivity.
      - unfold len in El. lia.
      - reflexivity.
      - exact Hv.
      - rewrite Hs, map_app, concat_app. reflexivity. }
    rewrite Hcmp. cbn [bind]. destruct (list_eqb k cell) eqn:Ek.
    + assert (G27 : get 27 (map snd s) (len s1) = Ok v).
      { rewrite Hs, map_app. cbn [map snd].
        replace (len s1) with (len (map snd s1)) by (unfold len; rewrite map_length; reflexivity).
        apply get_app_mid. }
      rewrite G27. cbn [bind lk_chunk lk_fi lk_fv]. rewrite set_app_mid. cbn [bind].
      rewrite <- Hfa. rewrite get_app_mid. cbn [bind].
      replace (fa ++ f0 :: (if is_some init then f0 else y0) :: fb)
        with ((fa ++ [f0]) ++ (if is_some init then f0 else y0) :: fb) by (rewrite <- app_assoc; reflexivity).
      replace (len fa + 1) with (len (fa ++ [f0])) by (rewrite len_app; reflexivity).
      rewrite set_app_mid. cbn [bind]. rewrite <- app_assoc. cbn [app].
      rewrite Hl1. rewrite Hfa.
      apply (IH (s1 ++ [(k, v)]) (Some v)). exact Hnext.
    + rewrite Hl1. apply (IH (s1 ++ [(k, v)]) init). exact Hnext.
  - assert (Ek : list_eqb k cell = false).
    { apply list_eqb_neq. intros ->. lia. }
    rewrite Ek. rewrite Hl1. apply (IH (s1 ++ [(k, v)]) init). exact Hnext.
Qed.

(* freetext_values[f0 : f0+n] = column_vals[base : base+n] *)
Lemma copy_loop_ok src A B D :
  forall cs cp E, src = A ++ (cp ++ cs) ++ B -> (length cs <= length E)%nat ->
  copy_loop (length cs) (len cp) src (D ++ cp ++ E) (len A) (len D) = Ok (D ++ (cp ++ cs) ++ skipn (length cs) E).
Proof.
  induction cs as [|x cs IH]; intros cp E Hs Hl.
  - cbn [length copy_loop skipn]. rewrite app_nil_r. reflexivity.
  - cbn [length copy_loop].
    assert (G1 : get 31 src (len A + len cp) = Ok x).
    { rewrite Hs. replace (A ++ (cp ++ x :: cs) ++ B) with ((A ++ cp) ++ x :: (cs ++ B))
        by (rewrite <- !app_assoc; reflexivity).
      rewrite <- len_app. apply get_app_mid. }
    rewrite G1. cbn [bind].
    destruct E as [|e E]; [cbn in Hl; lia|].
    assert (G2 : set 32 (D ++ cp ++ e :: E) (len D + len cp) x = Ok (D ++ (cp ++ [x]) ++ E)).
    { replace (D ++ cp ++ e :: E) with ((D ++ cp) ++ e :: E) by (rewrite <- app_assoc; reflexivity).
      rewrite <- len_app. rewrite set_app_mid. f_equal. rewrite <- !app_assoc. reflexivity. }
    rewrite G2. cbn [bind].
    replace (len cp + 1) with (len (cp ++ [x])) by (rewrite len_app; reflexivity).
    rewrite (IH (cp ++ [x]) E).
    + cbn [skipn]. f_equal. rewrite <- !app_assoc. reflexivity.
    + rewrite Hs. rewrite <- !app_assoc. reflexivity.
    + cbn in Hl. lia.
Qed.

Lemma skipn_repeat {A} (x:A) n : forall k, skipn n (repeat x k) = repeat x (k - n).
Proof.
  induction n as [|n IH]; intros k.
  - rewrite Nat.sub_0_r. reflexivity.
  - destruct k; [reflexivity|]. cbn [repeat skipn]. rewrite IH. reflexivity.
Qed.

Lemma skipn_zeros n m : 0 <= m -> skipn n (zeros m) = zeros (m - Z.of_nat n).
Proof.
  intros Hm. unfold zeros. rewrite skipn_repeat. f_equal. lia.
Qed.

Lemma psums_snoc l x : psums (l ++ [x]) = psums l ++ [sumZ l + x].
Proof. unfold psums. rewrite psums_from_snoc. reflexivity. Qed.

Lemma psums_split l : exists P, psums l = P ++ [sumZ l] /\ len P = len l.
Proof.
  induction l as [|x l IH] using rev_ind.
  - exists []. split; reflexivity.
  - destruct IH as [P [HP HL]]. exists (P ++ [sumZ l]). split.
    + unfold psums in *. rewrite psums_from_snoc, HP, sumZ_app. cbn [sumZ]. f_equal. f_equal. lia.
    + rewrite !len_app, HL. reflexivity.
Qed.

Lemma lk_rows_ok c s cells :
  rows_viewed c cells ->
  forall post pre n m, cells = pre ++ post -> (length post <= n)%nat -> sumZ (map len post) <= m ->
  lk_rows n (len pre) c (concat (map fst s)) (psums (map lenfst s)) (map snd s)
          (mkLk (map (lk_code s) pre ++ zeros (len post))
                (psums (map (lk_len s) pre) ++ zeros (len post))
                (concat (map (lk_text s) pre) ++ zeros m))
  = Ok (mkLk (map (lk_code s) cells) (psums (map (lk_len s) cells))
             (concat (map (lk_text s) cells) ++ zeros (m - sumZ (map (lk_len s) post)))).
Proof.
  intros Hrv. induction post as [|cell post IH]; intros pre n m Hc Hn Hm.
  - rewrite app_nil_r in Hc. subst pre. cbn [zeros len length Z.of_nat Z.to_nat repeat map sumZ].
    rewrite !app_nil_r. replace (m - 0) with m by lia.
    destruct n; cbn [lk_rows lk_chunk]; [reflexivity|].
    replace (len cells >=? len (map (lk_code s) cells)) with true; [reflexivity|].
    unfold len. rewrite map_length. lia.
  - destruct n as [|n]; [cbn in Hn; lia|]. cbn [lk_rows lk_chunk].
    assert (Hlen : len (map (lk_code s) pre ++ zeros (len (cell :: post))) = len pre + len (cell :: post)).
    { rewrite len_app, len_zeros by apply len_nonneg. unfold len. rewrite map_length. reflexivity. }
    rewrite Hlen. rewrite len_cons. pose proof (len_nonneg post) as Hp.
    replace (len pre >=? len pre + (len post + 1)) with false by lia.
    destruct (Hrv pre cell post Hc) as [ks A B Hrow Hi0 Hi1 Hvals Hbase].
    rewrite Hi0, Hi1. cbn [bind].
    replace (ks + len cell - ks) with (len cell) by lia.
    rewrite zeros_succ by lia.
    assert (Hk : Z.to_nat (len (psums (map lenfst s)) - 1) = length s).
    { unfold psums. rewrite len_psums_from. unfold len. rewrite map_length. lia. }
    rewrite Hk. rewrite <- Hbase.
    destruct (psums_split (map (lk_len s) pre)) as [P [HP HPl]].
    assert (HPl' : len P = len (map (lk_code s) pre)).
    { rewrite HPl. unfold len. rewrite !map_length. reflexivity. }
    set (F := sumZ (map (lk_len s) pre)) in *.
    rewrite HP. rewrite <- app_assoc. cbn [app].
    replace (len pre) with (len (map (lk_code s) pre)) at 1 by (unfold len; rewrite map_length; reflexivity).
    pose proof (lk_keys_loop_ok s (c_vals c) A cell B (map (lk_code s) pre) (zeros (len post)) 0
                  P F 0 (zeros (len post)) (concat (map (lk_text s) pre) ++ zeros m) Hvals HPl' s [] None eq_refl) as HK.
    cbn [is_some option_map sel len length Z.of_nat] in HK. rewrite HK. clear HK. cbn [bind].
    cbn [map sumZ] in Hm. pose proof (len_nonneg cell) as Hcl.
    assert (Hsp : 0 <= sumZ (map len post)).
    { clear. induction post as [|a post IH]; cbn [map sumZ]; [lia|]. pose proof (len_nonneg a). lia. }
    replace (len pre + 1) with (len (pre ++ [cell])) by (rewrite len_app; reflexivity).
    assert (Hcells : cells = (pre ++ [cell]) ++ post) by (rewrite <- app_assoc; exact Hc).
    destruct (lmo s cell None) as [v|] eqn:EL; cbn [is_some].
    + (* matched *)
      specialize (IH (pre ++ [cell]) n m Hcells ltac:(cbn in Hn; lia) ltac:(lia)).
      rewrite !map_app in IH. cbn [map] in IH. unfold lk_code at 2 in IH. unfold lk_len at 2 in IH.
      unfold lk_text at 2 in IH. rewrite EL in IH. cbn [is_some option_map sel] in IH.
      rewrite psums_snoc in IH.
      rewrite HP in IH. rewrite concat_app in IH. cbn [concat] in IH. rewrite !app_nil_r in IH.
      rewrite <- !app_assoc in IH. cbn [app] in IH.
      replace (sumZ (map (lk_len s) pre) + 0) with F in IH by (unfold F; lia).
      cbn [option_map sel]. rewrite IH. cbn [map sumZ].
      replace (lk_len s cell) with 0 by (unfold lk_len; rewrite EL; reflexivity).
      replace (0 + sumZ (map (lk_len s) post)) with (sumZ (map (lk_len s) post)) by lia.
      reflexivity.
    + (* not matched: -1, offset, copy *)
      cbn [lk_chunk lk_fi lk_fv option_map sel].
      assert (HPp : len pre = len P) by (rewrite HPl; unfold len; rewrite map_length; reflexivity).
      assert (Hcp : len pre = len (map (lk_code s) pre)) by (unfold len; rewrite map_length; reflexivity).
      rewrite Hcp at 1. rewrite set_app_mid. cbn [bind].
      rewrite HPp at 1. rewrite get_app_mid. cbn [bind].
      replace (P ++ F :: 0 :: zeros (len post)) with ((P ++ [F]) ++ 0 :: zeros (len post))
        by (rewrite <- app_assoc; reflexivity).
      replace (len (pre ++ [cell])) with (len (P ++ [F])) at 1 by (rewrite !len_app, HPp; reflexivity).
      rewrite set_app_mid. cbn [bind].
      assert (HF : F = len (concat (map (lk_text s) pre))) by (unfold F; apply lk_len_text).
      assert (Hcopy : copy_loop (Z.to_nat (len cell)) 0 (c_vals c) (concat (map (lk_text s) pre) ++ zeros m) (len A) F
                      = Ok (concat (map (lk_text s) pre) ++ cell ++ zeros (m - len cell))).
      { replace (Z.to_nat (len cell)) with (length cell) by (unfold len; lia).
        rewrite HF.
        pose proof (copy_loop_ok (c_vals c) A B (concat (map (lk_text s) pre)) cell [] (zeros m)) as HC.
        cbn [app len length Z.of_nat] in HC. rewrite HC.
        - rewrite skipn_zeros by lia. reflexivity.
        - exact Hvals.
        - unfold zeros. rewrite repeat_length. unfold len in *. lia. }
      rewrite Hcopy. cbn [bind].
      specialize (IH (pre ++ [cell]) n (m - len cell) Hcells ltac:(cbn in Hn; lia) ltac:(lia)).
      rewrite !map_app in IH. cbn [map] in IH. unfold lk_code at 2 in IH. unfold lk_len at 2 in IH.
      unfold lk_text at 2 in IH. rewrite EL in IH. cbn [is_some option_map sel] in IH.
      rewrite psums_snoc in IH.
      rewrite HP in IH. rewrite concat_app in IH. cbn [concat] in IH. rewrite !app_nil_r in IH.
      rewrite <- !app_assoc in IH. cbn [app] in IH.
      fold F in IH.
      rewrite <- !app_assoc. cbn [app]. rewrite IH. cbn [map sumZ].
      replace (lk_len s cell) with (len cell) by (unfold lk_len; rewrite EL; reflexivity).
      replace (m - len cell - sumZ (map (lk_len s) post)) with (m - (len cell + sumZ (map (lk_len s) post))) by lia.
      reflexivity.
Qed.

Lemma map_add_psums_from acc a l : map (fun x => x + a) (psums_from acc l) = psums_from (acc + a) l.
Proof.
  revert acc. induction l as [|x l IH]; intros acc; cbn [psums_from map]; [reflexivity|].
  rewrite IH. f_equal. f_equal. lia.
Qed.

Lemma sumZ_lk_len_le s cells : 0 <= sumZ (map (lk_len s) cells) <= sumZ (map len cells).
Proof.
  induction cells as [|c cells IH]; cbn [map sumZ]; [lia|].
  unfold lk_len at 1 3. pose proof (len_nonneg c). destruct (is_some (lmo s c None)); lia.
Qed.

(* the importer state after the cells `prev` *)
Definition lk_state_of (s:list (list Z * Z)) (prev:list (list Z)) : lkst :=
  mkLkst (map (lk_code s) prev) (psums (map (lk_len s) prev)) (concat (map (lk_text s) prev))
         (sumZ (map (lk_len s) prev)).

Lemma leaky_import_part_ok s prev off slack tail cells :
  0 <= off -> 0 <= slack -> 0 <= tail ->
  leaky_import_part (bm_of s) (lk_state_of s prev) (mk_chunk off slack tail cells)
  = Ok (lk_state_of s (prev ++ cells)).
Proof.
  intros Ho Hsl Ht. unfold leaky_import_part, leaky_categorical_transform, bm_of.
  rewrite mk_chunk_rows. cbn [mk_chunk c_count].
  pose proof (lk_rows_ok (mk_chunk off slack tail cells) s cells (rows_viewed_mk off slack tail cells Ho)
                cells [] (Z.to_nat (len (c_inds (mk_chunk off slack tail cells)) - 1))
                (sumZ (map len cells) + slack) eq_refl) as H.
  cbn [map app len length Z.of_nat concat] in H.
  fold (len cells) in H.
  replace (zeros (len cells + 1)) with (psums [] ++ zeros (len cells)).
  2:{ unfold psums. cbn [psums_from app]. rewrite zeros_succ by apply len_nonneg. reflexivity. }
  cbn [mk_chunk] in H. rewrite H; [|rewrite mk_chunk_len_inds by exact Ht; unfold len; lia|lia].
  clear H. cbn [bind lk_fi lk_chunk lk_fv].
  assert (G : get 38 (psums (map (lk_len s) cells)) (len cells) = Ok (sumZ (map (lk_len s) cells))).
  { replace (len cells) with (Z.of_nat (length (map (lk_len s) cells))) by (rewrite map_length; reflexivity).
    unfold psums. rewrite (get_nth 38 _ _ 0) by (rewrite psums_from_length; lia).
    rewrite psums_from_nth_last. f_equal; lia. }
  rewrite G. cbn [bind]. unfold lk_state_of. cbn [ls_data ls_idx ls_vals ls_acc].
  f_equal. f_equal.
  - rewrite map_app. reflexivity.
  - rewrite map_app. unfold psums. rewrite psums_from_app. f_equal.
    rewrite map_add_psums_from. destruct (map (lk_len s) cells); reflexivity.
  - rewrite map_app, concat_app. f_equal.
    rewrite lk_len_text. unfold slice. cbn [Z.to_nat skipn]. rewrite Z.sub_0_r.
    unfold len. rewrite Nat2Z.id. rewrite firstn_app, Nat.sub_diag, firstn_all. cbn [firstn]. apply app_nil_r.
  - rewrite map_app, sumZ_app. reflexivity.
Qed.

Lemma fold_leaky_import_ok s off slack tail : 0 <= off -> 0 <= slack -> 0 <= tail ->
  forall cc prev,
  fold_res (leaky_import_part (bm_of s)) (lk_state_of s prev) (map (mk_chunk off slack tail) cc)
  = Ok (lk_state_of s (prev ++ concat cc)).
Proof.
  intros Ho Hs Ht. induction cc as [|cells cc IH]; intros prev; cbn [map fold_res concat].
  - rewrite app_nil_r. reflexivity.
  - rewrite leaky_import_part_ok by assumption. cbn [bind]. rewrite IH, app_assoc. reflexivity.
Qed.

Lemma wrap_i8_small v : 0 <= v <= 127 -> wrap_i8 v = v.
Proof. intros H. unfold wrap_i8. destruct (v >=? 128) eqn:E; lia. Qed.

(* the leaky importer: codes, free-text offsets (prefix sums over ALL chunks) and free-text bytes
   are those of the exact-match specification, for every chunking and buffer layout *)
Theorem leaky_exact_match_proof cats cc off slack tail :
  cats_ok cats = true -> sumZ (map lenfst cats) <= I64MAX -> 0 <= off -> 0 <= slack -> 0 <= tail ->
  exists st, leaky_import cats (map (mk_chunk off slack tail) cc) = Ok st /\
             (ls_data st, ls_idx st, ls_vals st) = spec_leaky cats (concat cc) /\
             ls_acc st = len (ls_vals st).
Proof.
  intros Hok Hsz Ho Hsl Ht. unfold leaky_import.
  pose proof (cats_ok_values cats Hok) as Hv.
  assert (Hd : keys_distinct cats = true) by (unfold cats_ok in Hok; apply andb_prop in Hok; tauto).
  unfold get_byte_map. rewrite get_byte_map_gen_ok; [|intros kv Hin; specialize (Hv kv Hin); lia|exact Hsz].
  cbn [bind].
  rewrite create_categorical_ok by (intros kv Hin; specialize (Hv kv Hin); lia). cbn [bind].
  change lkst0 with (lk_state_of (sort_keys cats) []).
  rewrite fold_leaky_import_ok by assumption. cbn [app].
  eexists. split; [reflexivity|]. unfold lk_state_of. cbn [ls_data ls_idx ls_vals ls_acc]. split.
  - unfold spec_leaky.
    assert (Hcode : forall cell, lk_code (sort_keys cats) cell = match lookup cats cell with Some v => v | None => -1 end).
    { intros cell. unfold lk_code. rewrite lmo_lookup by exact Hd. destruct (lookup cats cell) as [v|] eqn:L; [|reflexivity].
      cbn [option_map sel]. apply wrap_i8_small. apply lookup_some in L. exact (Hv _ L). }
    f_equal; [f_equal|].
    + apply map_ext. exact Hcode.
    + f_equal. apply map_ext. intros cell. unfold lk_len. rewrite lmo_lookup by exact Hd.
      destruct (lookup cats cell); reflexivity.
    + f_equal. apply map_ext. intros cell. unfold lk_text. rewrite lmo_lookup by exact Hd.
      destruct (lookup cats cell); reflexivity.
  - apply lk_len_text.
Qed.
