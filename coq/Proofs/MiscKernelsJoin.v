(* Proofs/MiscKernelsJoin.v — what the walk of ordered_inner_map_left_unique_streamed means: on a strictly
   increasing left column and a sorted right column whose runs of equal keys do not cross a chunk boundary it
   is the inner join (every right row, ascending, paired with the left row of the same key). *)
From Coq Require Import ZArith List Lia Bool.
From EV Require Import Res Arr MiscKernels MiscKernelsSpec MiscKernelsBase MiscKernelsStream.
Import ListNotations.
Open Scope Z_scope.

(* no run of equal keys continues across the end of a chunk of bs rows (q = rows left in the current chunk) *)
Fixpoint no_cross (bs q:Z) (r:list Z) : bool :=
  match r with
  | [] => true
  | y :: r' => (if q <=? 1 then run_ends y r' else true) && no_cross bs (next_q bs q) r'
  end.

(* the join restricted to suffixes: i = index of the head of l, j = index of the head of r *)
Fixpoint ref_pairs (l:list Z) (i j:Z) (r:list Z) : list (Z * Z) :=
  match r with
  | [] => []
  | y :: t => match index_of y l i with
              | Some k => (k, j) :: ref_pairs l i (j + 1) t
              | None => ref_pairs l i (j + 1) t
              end
  end.

Lemma inner_pairs_ref L R j : inner_pairs L R j = ref_pairs L 0 j R.
Proof. revert j. induction R as [|y t IH]; intros j; cbn; [reflexivity|]. rewrite IH. reflexivity. Qed.

Lemma sortedb_head_le y r : sortedb (y :: r) = true -> forall z, In z r -> y <= z.
Proof.
  revert y. induction r as [|y' r IH]; intros y H z Hin; [destruct Hin|].
  cbn [sortedb] in H. apply andb_prop in H. destruct H as (H1 & H2). apply Z.leb_le in H1.
  destruct Hin as [<-|Hin]; [assumption|]. specialize (IH y' H2 z Hin). lia.
Qed.

Lemma sortedb_tail y r : sortedb (y :: r) = true -> sortedb r = true.
Proof. destruct r; [reflexivity|]. cbn [sortedb]. intros H. apply andb_prop in H. apply H. Qed.

Lemma ssortedb_head_lt x l : ssortedb (x :: l) = true -> forall z, In z l -> x < z.
Proof.
  revert x. induction l as [|x' l IH]; intros x H z Hin; [destruct Hin|].
  cbn [ssortedb] in H. apply andb_prop in H. destruct H as (H1 & H2). apply Z.ltb_lt in H1.
  destruct Hin as [<-|Hin]; [assumption|]. specialize (IH x' H2 z Hin). lia.
Qed.

Lemma ssortedb_tail x l : ssortedb (x :: l) = true -> ssortedb l = true.
Proof. destruct l; [reflexivity|]. cbn [ssortedb]. intros H. apply andb_prop in H. apply H. Qed.

Lemma index_of_none y l i : (forall z, In z l -> z <> y) -> index_of y l i = None.
Proof.
  revert i. induction l as [|x l IH]; intros i H; [reflexivity|]. cbn [index_of].
  replace (x =? y) with false by (symmetry; apply Z.eqb_neq; apply H; left; reflexivity).
  apply IH. intros z Hz. apply H. right. assumption.
Qed.

(* a left key that no remaining right row carries can be dropped *)
Lemma ref_skip x l i : forall r j, (forall z, In z r -> z <> x) -> ref_pairs (x :: l) i j r = ref_pairs l (i + 1) j r.
Proof.
  induction r as [|y t IH]; intros j H; [reflexivity|]. cbn [ref_pairs index_of].
  replace (x =? y) with false by (symmetry; apply Z.eqb_neq; intros E; apply (H y); [left; reflexivity|congruence]).
  rewrite IH by (intros z Hz; apply H; right; assumption). reflexivity.
Qed.

Lemma walk_is_join bs : forall n l r q i j, (length l + length r <= n)%nat ->
  ssortedb l = true -> sortedb r = true -> no_cross bs q r = true ->
  ilus_walk bs l q i j r = ref_pairs l i j r.
Proof.
  induction n as [|n IH]; intros l r q i j Hn Hl Hr Hc.
  - destruct l; [|cbn in Hn; lia]. destruct r; [|cbn in Hn; lia]. reflexivity.
  - destruct l as [|x l'].
    { cbn [ilus_walk]. clear. revert j. induction r as [|y t IHr]; intros j; [reflexivity|]. cbn. apply IHr. }
    destruct r as [|y r']; [apply ilus_walk_nil_r|].
    rewrite ilus_walk_cons. cbn [length] in Hn.
    pose proof Hc as Hc0. cbn [no_cross] in Hc. apply andb_prop in Hc. destruct Hc as (Hc1 & Hc2).
    pose proof (sortedb_head_le y r' Hr) as Hge. pose proof (sortedb_tail y r' Hr) as Hr'.
    pose proof (ssortedb_head_lt x l' Hl) as Hgt. pose proof (ssortedb_tail x l' Hl) as Hl'.
    destruct (x <? y) eqn:E1.
    { apply Z.ltb_lt in E1. rewrite (IH l' (y :: r') q (i + 1) j) by (try assumption; cbn [length]; lia).
      symmetry. apply ref_skip. intros z [<-|Hz]; [lia|]. specialize (Hge z Hz). lia. }
    destruct (y <? x) eqn:E2.
    { apply Z.ltb_lt in E2. rewrite (IH (x :: l') r' (next_q bs q) i (j + 1)) by (try assumption; cbn [length]; lia).
      cbn [ref_pairs]. rewrite index_of_none; [reflexivity|].
      intros z [<-|Hz]; [lia|]. specialize (Hgt z Hz). lia. }
    apply Z.ltb_ge in E1, E2. assert (x = y) by lia. subst y.
    cbn [ref_pairs index_of]. rewrite Z.eqb_refl. f_equal.
    destruct ((q <=? 1) || run_ends x r') eqn:Eadv.
    + rewrite (IH l' r' (next_q bs q) (i + 1) (j + 1)) by (try assumption; lia).
      symmetry. apply ref_skip.
      assert (Hre : run_ends x r' = true).
      { destruct (q <=? 1); [exact Hc1|]. exact Eadv. }
      destruct r' as [|y' r'']; [intros z []|]. cbn [run_ends] in Hre. apply negb_true_iff, Z.eqb_neq in Hre.
      pose proof (Hge y' (or_introl eq_refl)) as H1.
      intros z [<-|Hz]; [lia|]. pose proof (sortedb_head_le y' r'' Hr' z Hz). lia.
    + apply (IH (x :: l') r' (next_q bs q) i (j + 1)); try assumption. cbn [length]. lia.
Qed.

Theorem streamed_is_inner_join L R : ssortedb L = true -> sortedb R = true -> no_cross 4 4 R = true ->
  ilus_spec 4 L R = inner_left_unique_join L R.
Proof.
  intros HL HR HC. unfold ilus_spec, inner_left_unique_join.
  rewrite (walk_is_join 4 (length L + length R) L R 4 0 0 (le_n _) HL HR HC), inner_pairs_ref. reflexivity.
Qed.

Example streamed_is_inner_join_example :
  ssortedb [0;1;2;3;5;6;7;8] = true /\ sortedb [0;1;1;2;4;5;5;6;8;9;9;10] = true /\
  no_cross 4 4 [0;1;1;2;4;5;5;6;8;9;9;10] = true /\ no_cross 4 4 [0;0;0;1;1] = false.
Proof. repeat split; reflexivity. Qed.
