(* Proofs/CsvPrefix.v — the byte-level FSM on a window that ends anywhere inside a rendered file:
   runs "to the end of the window" (inside a plain cell, inside a quoted cell, between the two quotes
   of an escaped quote, right after a closing quote, after a separator, after a line break). *)
From Coq Require Import ZArith List Lia Bool.
From EV Require Import Res Arr Csv CsvSpec CsvBase CsvKernel CsvTable CsvRows.
Import ListNotations.
Open Scope Z_scope.

Section Pre.
Variables (src offs : list Z) (maxrow ncols : Z).
Let w := maxrow + 1.

Notation runn := (runn src offs maxrow).
Notation step := (fsm_step src offs maxrow).

(* ---- reaching a state by a last step (the state reached may satisfy the exit test) ------ *)
Definition reaches (s s_last:st) : Prop := exists n s_pre, runn n s s_pre /\ step s_pre = Ok s_last.

Lemma reaches_step s s1 : step s = Ok s1 -> reaches s s1.
Proof. intros H. exists 0%nat, s. split; [constructor|exact H]. Qed.

Lemma reaches_runn n s s1 s2 : runn n s s1 -> reaches s1 s2 -> reaches s s2.
Proof. intros R (m & sp & R2 & H). exists (n + m)%nat, sp. split; [eapply runn_trans; eauto|exact H]. Qed.

Lemma reaches_cons s s1 s2 : step s = Ok s1 -> noexit src s1 -> reaches s1 s2 -> reaches s s2.
Proof. intros H Hn R. eapply reaches_runn; [apply runn_one; eauto|exact R]. Qed.

Lemma reaches_trans s a b : reaches s a -> noexit src a -> reaches a b -> reaches s b.
Proof.
  intros (n & sp & R & H) Hn R2. eapply reaches_runn; [exact R|]. eapply reaches_cons; eauto.
Qed.

Definition stops (s:st) : bool := (s_index s =? len src) || s_ifull s || s_vfull s.

Lemma loop_stop f s s1 : step s = Ok s1 -> stops s1 = true ->
  fsm_loop (S f) src offs maxrow s = Ok (out_of s1).
Proof. intros Hst Hs. cbn [fsm_loop]. rewrite Hst. cbn [bind]. unfold stops in Hs. rewrite Hs. reflexivity. Qed.

Lemma reaches_loop s s_last start : reaches s s_last -> stops s_last = true -> s_index s_last <= len src ->
  start <= s_index s -> fsm_loop (fsm_fuel src start) src offs maxrow s = Ok (out_of s_last).
Proof.
  intros (n & sp & R & H) Hs Hle Hst.
  pose proof (runn_index _ _ _ _ _ _ R) as Hi. pose proof (step_index _ _ _ _ _ H) as Hsi.
  replace (fsm_fuel src start) with (n + S (Z.to_nat (len src - start) - n))%nat by (unfold fsm_fuel; lia).
  rewrite (loop_runn _ _ _ _ _ _ _ R). apply loop_stop; assumption.
Qed.

(* ---- classify at the last byte of the window --------------------------------------------- *)
Lemma cl_retry i cand ic e : i + 1 = len src ->
  classify src i ESC true cand ic e = Ok (false, false, false, true, cand, e) \/ cand = true.
Proof.
  intros H. destruct cand; [right; reflexivity|left].
  unfold classify. cbn [Z.eqb SEP NL ESC Pos.eqb negb]. rewrite H, Z.ltb_irrefl, Z.eqb_refl. reflexivity.
Qed.

Lemma cl_retry0 i ic e : i + 1 = len src ->
  classify src i ESC true false ic e = Ok (false, false, false, true, false, e).
Proof. intros H. destruct (cl_retry i false ic e H) as [E|E]; [exact E|discriminate]. Qed.

Lemma suf_last i b : 0 <= i -> suf src i = [b] -> i + 1 = len src.
Proof.
  intros Hi H. destruct (suf_cons src i b [] Hi H) as (Hlt & _ & Hs & _).
  apply suf_nil_iff in Hs; lia.
Qed.

(* ---- one (possibly partial) cell, up to the end of the window ------------------------------ *)
Section CellEnd.
Variables (e c r vfc cs ic coff cvc : Z) (inds : arr2).
Let wr := 0 <=? r.
Notation S0' := (S0 e c r vfc cs ic coff cvc inds).
Notation fits' := (fits r cs coff cvc).

(* the state at the end of the window: only a prefix of the cell text has been written *)
Definition endst (vals:list Z) (lo:Z) (t:list Z) (s:st) : Prop :=
  exists esc cand k tp tq, t = tp ++ tq /\
    s = S0' (len src) esc cand k (if wr then wrs vals lo tp else vals).

Lemma endst_app vals lo t t2 s : endst vals lo t s -> endst vals lo (t ++ t2) s.
Proof.
  intros (esc & cand & k & tp & tq & E & Hs). exists esc, cand, k, tp, (tq ++ t2).
  split; [rewrite E, app_assoc; reflexivity|exact Hs].
Qed.

Lemma endst_cons vals lo b t s :
  endst (if wr then upd vals lo b else vals) (if wr then lo + 1 else lo) t s -> endst vals lo (b :: t) s.
Proof.
  intros (esc & cand & k & tp & tq & E & Hs). exists esc, cand, k, (b :: tp), tq.
  split; [rewrite E; reflexivity|]. rewrite Hs. cbn [wrs]. destruct wr; reflexivity.
Qed.

Lemma endst_nil vals lo t esc cand k : endst vals lo t (S0' (len src) esc cand k vals).
Proof. exists esc, cand, k, [], t. split; [reflexivity|]. cbn [wrs]. destruct wr; reflexivity. Qed.

Lemma fits_app k vals a b : fits' k vals (a ++ b) -> fits' k vals a.
Proof.
  unfold fits. intros H Hw. destruct (H Hw) as (F1 & F2 & F3). rewrite len_app in *.
  pose proof (len_nonneg b). repeat split; lia.
Qed.

Lemma fits_head k vals b t : fits' k vals (b :: t) -> (0 <=? r) = true ->
  0 <= coff + cs + k < len vals /\ cs + (k + 1) < cvc.
Proof.
  unfold fits. intros H Hw. destruct (H Hw) as (F1 & F2 & F3). rewrite len_cons in *.
  pose proof (len_nonneg t). lia.
Qed.

Lemma fits_tail k vals b t : 0 <= k -> fits' k vals (b :: t) ->
  fits' (if wr then k + 1 else k) (if wr then upd vals (coff + cs + k) b else vals) t.
Proof.
  unfold fits. intros Hk H Hw. fold wr in Hw. rewrite Hw. destruct (H Hw) as (F1 & F2 & F3).
  rewrite len_cons in *. rewrite len_upd. lia.
Qed.

Lemma lo_tail k : coff + cs + (if wr then k + 1 else k) = (if wr then coff + cs + k + 1 else coff + cs + k).
Proof. destruct wr; lia. Qed.

Lemma run_plain_end bs : forall i k vals,
  0 <= i -> 0 <= k -> suf src i = bs -> bs <> [] ->
  forallb (fun b => negb (special b)) bs = true -> fits' k vals bs ->
  exists s, reaches (S0' i false false k vals) s /\ endst vals (coff + cs + k) bs s.
Proof.
  induction bs as [|b bs IH]; intros i k vals Hi Hk H Hne Hall Hfit; [contradiction|].
  cbn [forallb] in Hall. apply andb_prop in Hall. destruct Hall as (Hb & Hall). apply negb_true_iff in Hb.
  pose proof (step_inner src offs maxrow i e c r vfc false false k cs ic coff cvc inds vals b bs true false false Hi H
               (cl_plain src i b false ic e Hb)) as Hst.
  cbn [andb] in Hst. fold wr in Hst. specialize (Hst (fits_head k vals b bs Hfit)).
  destruct (suf_cons src i b bs Hi H) as (_ & _ & Hs & _).
  destruct bs as [|x bs'].
  - pose proof (suf_last i b Hi H) as Hl. rewrite Hl in Hst.
    eexists. split; [apply reaches_step; exact Hst|]. apply endst_cons. apply endst_nil.
  - destruct (IH (i + 1) (if wr then k + 1 else k) (if wr then upd vals (coff + cs + k) b else vals))
      as (s & R & He); try lia; try assumption; try discriminate.
    { destruct wr; lia. }
    { apply fits_tail; assumption. }
    exists s. split.
    + eapply reaches_cons; [exact Hst| |exact R]. eapply (noexit_S0 src maxrow); [|exact Hs]. lia.
    + apply endst_cons. rewrite lo_tail in He. exact He.
Qed.

Lemma run_qbody_end t : forall i k vals q q2,
  0 <= i -> 0 <= k -> suf src i = q -> q <> [] -> escape_quotes t ++ [ESC] = q ++ q2 -> fits' k vals t ->
  exists s, reaches (S0' i true false k vals) s /\ endst vals (coff + cs + k) t s.
Proof.
  induction t as [|b t IH]; intros i k vals q q2 Hi Hk H Hne Hq Hfit.
  - (* only the closing quote is left: it is the last byte of the window *)
    cbn [escape_quotes app] in Hq. destruct q as [|x q']; [contradiction|].
    cbn [app] in Hq. inversion Hq as [[Hx Hq']]. destruct q'; [|discriminate]. subst x.
    pose proof (suf_last i ESC Hi H) as Hl.
    pose proof (step_inner src offs maxrow i e c r vfc true false k cs ic coff cvc inds vals ESC [] false true false Hi H
                 (cl_retry0 i ic e Hl)) as Hst.
    cbn [andb] in Hst. specialize (Hst ltac:(discriminate)). rewrite Hl in Hst.
    eexists. split; [apply reaches_step; exact Hst|]. apply endst_nil.
  - cbn [escape_quotes] in Hq. destruct (b =? ESC) eqn:Eb.
    + (* a doubled quote *)
      apply Z.eqb_eq in Eb. subst b. destruct q as [|x q']; [contradiction|].
      cbn [app] in Hq. inversion Hq as [[Hx Hq']]. subst x.
      destruct q' as [|y q''].
      * (* the window ends between the two quotes *)
        pose proof (suf_last i ESC Hi H) as Hl.
        pose proof (step_inner src offs maxrow i e c r vfc true false k cs ic coff cvc inds vals ESC [] false true false Hi H
                     (cl_retry0 i ic e Hl)) as Hst.
        cbn [andb] in Hst. specialize (Hst ltac:(discriminate)). rewrite Hl in Hst.
        eexists. split; [apply reaches_step; exact Hst|]. apply endst_nil.
      * cbn [app] in Hq'. inversion Hq' as [[Hy Hq'']]. subst y.
        destruct (suf_cons src i ESC _ Hi H) as (_ & _ & Hs & _).
        destruct (suf_cons src (i + 1) ESC _ ltac:(lia) Hs) as (_ & _ & Hs2 & _).
        pose proof (step_inner src offs maxrow i e c r vfc true false k cs ic coff cvc inds vals ESC _ false true true Hi H
                     (cl_q1 src maxrow i q'' ic e Hi H)) as Hst1.
        cbn [andb] in Hst1. specialize (Hst1 ltac:(discriminate)).
        pose proof (step_inner src offs maxrow (i + 1) e c r vfc true true k cs ic coff cvc inds vals ESC _ true true false
                     ltac:(lia) Hs (cl_q2 src (i + 1) ic e)) as Hst2.
        cbn [andb] in Hst2. fold wr in Hst2. specialize (Hst2 (fits_head k vals ESC t Hfit)).
        assert (Hn1 : noexit src (S0' (i + 1) true true k vals)).
        { eapply (noexit_S0 src maxrow); [|exact Hs]. lia. }
        destruct q'' as [|z q3].
        -- (* the window ends right after the doubled quote *)
           pose proof (suf_last (i + 1) ESC ltac:(lia) Hs) as Hl. rewrite Hl in Hst2.
           eexists. split; [eapply reaches_cons; [exact Hst1|exact Hn1|apply reaches_step; exact Hst2]|].
           apply endst_cons. apply endst_nil.
        -- destruct (IH (i + 1 + 1) (if wr then k + 1 else k) (if wr then upd vals (coff + cs + k) ESC else vals) (z :: q3) q2)
             as (s & R & He); try lia; try assumption; try discriminate.
           { destruct wr; lia. }
           { apply fits_tail; assumption. }
           exists s. split.
           ++ eapply reaches_cons; [exact Hst1|exact Hn1|].
              eapply reaches_cons; [exact Hst2| |exact R]. eapply (noexit_S0 src maxrow); [|exact Hs2]. lia.
           ++ apply endst_cons. rewrite lo_tail in He. exact He.
    + (* an ordinary byte inside the quotes *)
      apply Z.eqb_neq in Eb. destruct q as [|x q']; [contradiction|].
      cbn [app] in Hq. inversion Hq as [[Hx Hq']]. subst x.
      destruct (suf_cons src i b _ Hi H) as (_ & _ & Hs & _).
      pose proof (step_inner src offs maxrow i e c r vfc true false k cs ic coff cvc inds vals b _ true true false Hi H
                   (cl_in src i b ic e Eb)) as Hst.
      cbn [andb] in Hst. fold wr in Hst. specialize (Hst (fits_head k vals b t Hfit)).
      destruct q' as [|z q3].
      * pose proof (suf_last i b Hi H) as Hl. rewrite Hl in Hst.
        eexists. split; [apply reaches_step; exact Hst|]. apply endst_cons. apply endst_nil.
      * destruct (IH (i + 1) (if wr then k + 1 else k) (if wr then upd vals (coff + cs + k) b else vals) (z :: q3) q2)
          as (s & R & He); try lia; try assumption; try discriminate.
        { destruct wr; lia. }
        { apply fits_tail; assumption. }
        exists s. split.
        -- eapply reaches_cons; [exact Hst| |exact R]. eapply (noexit_S0 src maxrow); [|exact Hs]. lia.
        -- apply endst_cons. rewrite lo_tail in He. exact He.
Qed.

Lemma run_cell_end (cl:cell) i vals q q2 : ic = i ->
  0 <= i -> suf src i = q -> q <> [] -> render_cell cl = q ++ q2 -> fits' 0 vals (snd cl) ->
  exists s, reaches (S0' i false false 0 vals) s /\ endst vals (coff + cs) (snd cl) s.
Proof.
  intros Eic Hi H Hne Hq Hfit. unfold render_cell in Hq. destruct (fst cl || needs_quote (snd cl)) eqn:E.
  - (* quoted *)
    destruct q as [|x q']; [contradiction|]. cbn [app] in Hq. inversion Hq as [[Hx Hq']]. subst x.
    assert (Hcl : classify src i ESC false false ic e = Ok (false, false, false, true, false, e)).
    { rewrite Eic. apply cl_open. }
    pose proof (step_inner src offs maxrow i e c r vfc false false 0 cs ic coff cvc inds vals ESC q' false true false Hi H Hcl) as Hst.
    cbn [andb] in Hst. specialize (Hst ltac:(discriminate)).
    destruct (suf_cons src i ESC _ Hi H) as (_ & _ & Hs & _).
    destruct q' as [|z q3].
    + pose proof (suf_last i ESC Hi H) as Hl. rewrite Hl in Hst.
      eexists. split; [apply reaches_step; exact Hst|]. apply endst_nil.
    + destruct (run_qbody_end (snd cl) (i + 1) 0 vals (z :: q3) q2) as (s & R & He); try lia; try assumption; try discriminate.
      exists s. split.
      * eapply reaches_cons; [exact Hst| |exact R]. eapply (noexit_S0 src maxrow); [|exact Hs]. lia.
      * rewrite Z.add_0_r in He. exact He.
  - (* plain *)
    apply orb_false_elim in E. destruct E as (_ & E). unfold needs_quote in E.
    apply orb_false_elim in E. destruct E as (E & _).
    pose proof (plain_of_noquote _ E) as Hall. rewrite Hq in Hall, Hfit. rewrite forallb_app in Hall.
    apply andb_prop in Hall. destruct Hall as (Hall & _).
    destruct (run_plain_end q i 0 vals) as (s & R & He); try lia; try assumption.
    { eapply fits_app; exact Hfit. }
    exists s. split; [exact R|]. rewrite Z.add_0_r in He. rewrite Hq. apply endst_app. exact He.
Qed.

End CellEnd.

Hypothesis Hoffs : len offs = ncols + 1.
Hypothesis Hncols : 0 < ncols.
Hypothesis Hmaxrow : 0 < maxrow.

(* ---- records ------------------------------------------------------------------------------ *)
Section Data2.
Variables (V : Z) (rows : list (list cell)).
Let nrows := len rows.
Hypothesis Hoffs0 : nthZ offs 0 = 0.
Hypothesis Hbudget : forall c, 0 <= c < ncols -> nthZ offs c + len (CB rows c) < nthZ offs (c + 1).
Hypothesis HV : nthZ offs ncols <= V.

Notation Good := (Good ncols w V offs rows).
Notation cstate := (cstate offs).

(* cstate with the "index buffer full" flag that the last line break of a call may raise *)
Definition cstate_f (fl:bool) (i e c r:Z) (inds:arr2) (vals:list Z) : st :=
  mkSt i e c r (-1) false false 0 (I2 inds c r) i fl false (nthZ offs c) (nthZ offs (c + 1) - nthZ offs c) inds vals.

Lemma pre_mono2 (l:list (list Z)) : forall k k', (k <= k')%nat -> pre l k <= pre l k'.
Proof.
  induction l as [|t l IH]; intros k k' H.
  - destruct k, k'; unfold pre; cbn; lia.
  - destruct k as [|k]; destruct k' as [|k']; try lia.
    + rewrite pre_0. apply pre_nonneg.
    + rewrite !pre_cons. specialize (IH k k' ltac:(lia)). lia.
Qed.

Lemma P_mono c k k' : 0 <= k <= k' -> P rows c k <= P rows c k'.
Proof. intros H. unfold P. apply pre_mono2. lia. Qed.

Lemma Good_weaken f g inds vals : Good f inds vals -> (forall c, 0 <= c < ncols -> 0 <= g c <= f c) -> Good g inds vals.
Proof.
  intros (Hs & Hv & H) Hg. split; [exact Hs|]. split; [exact Hv|]. intros c Hc.
  destruct (H c Hc) as (Hf & Hi & Hb). specialize (Hg c Hc). split; [lia|]. split.
  - intros k Hk. apply Hi. lia.
  - intros j Hj. apply Hb. pose proof (P_mono c (g c) (f c) ltac:(lia)). lia.
Qed.

(* bytes of a not yet committed cell do not disturb what is committed *)
Lemma Good_partial f inds vals c r tp tq : Good f inds vals -> 0 <= c < ncols -> f c = r -> 0 <= r < nrows ->
  cell_text rows r c = tp ++ tq -> Good f inds (wrs vals (nthZ offs c + P rows c r) tp).
Proof.
  intros HG Hc Hf Hr Ht. pose proof (Good_fits ncols w V offs rows Hoffs0 Hbudget HV f inds vals c r HG Hc Hr) as (F1 & F2 & F3).
  rewrite Ht, len_app in F2, F3. pose proof (len_nonneg tq) as Hq. pose proof (len_nonneg tp) as Hp.
  destruct HG as (Hs & Hv & H). pose proof (offs_nonneg ncols offs rows Hoffs0 Hbudget c ltac:(lia)) as Hon.
  pose proof (P_nonneg rows c r) as Hpn.
  split; [exact Hs|]. split; [rewrite len_wrs; exact Hv|].
  intros c' Hc'. destruct (H c' Hc') as (Hf' & Hi' & Hb'). split; [exact Hf'|]. split; [exact Hi'|].
  intros j Hj. rewrite nth_wrs_out; [apply Hb'; exact Hj| | |].
  - lia.
  - pose proof (offs_nonneg ncols offs rows Hoffs0 Hbudget c' ltac:(lia)). lia.
  - pose proof (P_le rows c' (f c') Hf') as Hle. pose proof (Hbudget c' Hc') as Hbu.
    destruct (Z.eq_dec c' c) as [->|Hne].
    + left. rewrite Hf in Hj. lia.
    + destruct (Z_lt_ge_dec c' c) as [Hlt|Hge].
      * left. pose proof (offs_mono ncols offs rows Hbudget (c' + 1) c ltac:(lia) ltac:(lia) ltac:(lia)). lia.
      * right. pose proof (offs_mono ncols offs rows Hbudget (c + 1) c' ltac:(lia) ltac:(lia) ltac:(lia)). lia.
Qed.

Lemma lt_succ_fun c r x : (if x =? c then r + 1 else if x <? c then r + 1 else r) = if x <? c + 1 then r + 1 else r.
Proof.
  destruct (x =? c) eqn:E1.
  - apply Z.eqb_eq in E1. subst x. destruct (c <? c + 1) eqn:E2; [reflexivity|apply Z.ltb_ge in E2; lia].
  - apply Z.eqb_neq in E1. destruct (x <? c) eqn:E2; destruct (x <? c + 1) eqn:E3; try reflexivity.
    + apply Z.ltb_lt in E2. apply Z.ltb_ge in E3. lia.
    + apply Z.ltb_ge in E2. apply Z.ltb_lt in E3. lia.
Qed.

(* one complete record of the table (row r), from column c on; the line break may fill the index buffer *)
Lemma run_cells_gen r : 0 <= r < nrows -> r + 1 <= maxrow -> forall cells c i e inds vals rest,
  cells <> [] -> 0 <= c -> c + len cells = ncols -> 0 <= i ->
  suf src i = render_row cells ++ rest -> nows rest ->
  (forall j, 0 <= j < len cells -> snd (nthd (false, []) cells j) = cell_text rows r (c + j)) ->
  Good (fun x => if x <? c then r + 1 else r) inds vals ->
  exists n s_pre inds' vals',
    runn n (cstate i e c r inds vals) s_pre /\
    step s_pre = Ok (cstate_f (r + 1 =? maxrow) (i + len (render_row cells)) (i + len (render_row cells) - 1) 0 (r + 1) inds' vals') /\
    Good (fun _ => r + 1) inds' vals'.
Proof.
  intros Hr Hrm. assert (Er : (0 <=? r) = true) by (apply Z.leb_le; lia).
  assert (Er2 : (r <? 0) = false) by (apply Z.ltb_ge; lia).
  induction cells as [|cl cells IH]; intros c i e inds vals rest Hne Hc Hlen Hi H Hn Htxt HG; [contradiction|].
  assert (Htc : snd cl = cell_text rows r c).
  { specialize (Htxt 0). rewrite Z.add_0_r in Htxt. apply Htxt. rewrite len_cons. pose proof (len_nonneg cells). lia. }
  assert (Hcn : 0 <= c < ncols) by (rewrite len_cons in Hlen; pose proof (len_nonneg cells); lia).
  assert (Hfc : (if c <? c then r + 1 else r) = r) by (rewrite Z.ltb_irrefl; reflexivity).
  pose proof (Good_fits ncols w V offs rows Hoffs0 Hbudget HV _ inds vals c r HG Hcn Hr) as (F1 & F2 & F3).
  assert (Hcs : I2 inds c r = P rows c r).
  { destruct HG as (_ & _ & HGc). destruct (HGc c Hcn) as (_ & Hk & _). apply Hk. rewrite Hfc. lia. }
  assert (Hsh : shape ncols w inds) by (destruct HG as (Hsh & _); exact Hsh).
  pose proof (Good_cell ncols w V offs rows Hoffs0 Hbudget HV _ inds vals c r HG Hcn Hfc Hr ltac:(unfold w; lia)) as HG1.
  assert (Hfit : fits r (I2 inds c r) (nthZ offs c) (nthZ offs (c + 1) - nthZ offs c) 0 vals (snd cl)).
  { unfold fits. intros _. rewrite Hcs, Htc. lia. }
  pose proof (len_nonneg (render_cell cl)) as Hl.
  destruct cells as [|cl2 cells].
  - (* last cell of the record *)
    cbn [render_row] in *. rewrite <- app_assoc in H. cbn [app] in H.
    destruct (run_cell src offs maxrow e c r (-1) (I2 inds c r) (nthZ offs c) (nthZ offs (c + 1) - nthZ offs c) inds cl i vals NL rest Hi H
                ltac:(auto) Hfit) as (n & R).
    rewrite Er in R.
    pose proof (suf_app_len src i _ _ Hi H) as Hs.
    replace (len [cl]) with 1 in Hlen by reflexivity.
    exists n. eexists. exists (put2 inds c (r + 1) (P rows c r + len (cell_text rows r c))),
                              (wrs vals (nthZ offs c + P rows c r) (cell_text rows r c)).
    split; [exact R|]. split.
    + unfold S0. rewrite (step_nl src offs maxrow ncols Hoffs (i + len (render_cell cl)) e c r (-1) (len (snd cl)) (I2 inds c r) i
                           (nthZ offs c) (nthZ offs (c + 1) - nthZ offs c) inds _ rest); try assumption; try lia.
      * rewrite Er. cbv zeta. unfold cstate_f.
        replace (len (render_cell cl ++ [NL])) with (len (render_cell cl) + 1) by (rewrite len_app; reflexivity).
        rewrite Hcs, Htc. replace (0 + 1) with 1 by lia.
        destruct (r + 1 =? maxrow); f_equal; f_equal; lia.
    + eapply Good_ext; [|exact HG1]. intros x Hx. cbv beta.
      destruct (x =? c) eqn:E1; [reflexivity|]. apply Z.eqb_neq in E1.
      destruct (x <? c) eqn:E2; [reflexivity|]. apply Z.ltb_ge in E2. lia.
  - (* a cell followed by a separator *)
    remember (cl2 :: cells) as more eqn:Em.
    assert (Hmore : more <> []) by (subst; discriminate).
    assert (Erow : render_row (cl :: more) = render_cell cl ++ SEP :: render_row more) by (subst more; reflexivity).
    rewrite Erow in *. rewrite <- app_assoc in H. cbn [app] in H.
    destruct (run_cell src offs maxrow e c r (-1) (I2 inds c r) (nthZ offs c) (nthZ offs (c + 1) - nthZ offs c) inds cl i vals SEP
                (render_row more ++ rest) Hi H ltac:(auto) Hfit) as (n & R).
    rewrite Er in R.
    pose proof (suf_app_len src i _ _ Hi H) as Hs.
    assert (Hlm : len (cl :: more) = len more + 1) by apply len_cons.
    assert (Hlm0 : 1 <= len more) by (rewrite Em, len_cons; pose proof (len_nonneg cells); lia).
    rewrite Hlm in Hlen.
    pose proof (step_sep src offs maxrow ncols Hoffs (i + len (render_cell cl)) e c r (-1) (len (snd cl)) (I2 inds c r) i
                  (nthZ offs c) (nthZ offs (c + 1) - nthZ offs c) inds (wrs vals (nthZ offs c + I2 inds c r) (snd cl))
                  (render_row more ++ rest) ltac:(lia) Hs (nows_render_row more rest Hmore) Hsh Hc
                  ltac:(lia) ltac:(lia) ltac:(unfold w; lia)) as Hst.
    rewrite Er, Er2 in Hst. cbv zeta in Hst. rewrite Hcs, Htc in Hst.
    set (inds1 := put2 inds c (r + 1) (P rows c r + len (cell_text rows r c))) in *.
    set (vals1 := wrs vals (nthZ offs c + P rows c r) (cell_text rows r c)) in *.
    destruct (suf_cons src (i + len (render_cell cl)) SEP _ ltac:(lia) Hs) as (_ & _ & Hs2 & _).
    assert (HG2 : Good (fun x => if x <? c + 1 then r + 1 else r) inds1 vals1).
    { eapply Good_ext; [|exact HG1]. intros x Hx. cbv beta. apply lt_succ_fun. }
    destruct (IH (c + 1) (i + len (render_cell cl) + 1) e inds1 vals1 rest Hmore ltac:(lia) ltac:(lia) ltac:(lia) Hs2 Hn)
      as (n2 & s_pre & inds' & vals' & R2 & Hfin & HG3).
    { intros j Hj. specialize (Htxt (j + 1)). rewrite Hlm in Htxt. specialize (Htxt ltac:(lia)).
      rewrite nthd_cons_succ in Htxt by lia. rewrite Htxt. f_equal. lia. }
    { exact HG2. }
    exists (n + (1 + n2))%nat, s_pre, inds', vals'. split; [|split].
    + eapply runn_trans; [exact R|]. eapply runn_trans; [|exact R2].
      apply runn_one.
      * unfold S0. rewrite Hcs, Htc. fold vals1. rewrite Hst. unfold CsvRows.cstate.
        replace (c + 1 + 1) with (c + 2) by lia. reflexivity.
      * unfold noexit, CsvRows.cstate. cbn [s_index s_ifull s_vfull].
        destruct (render_row more ++ rest) eqn:E2; [destruct (render_row_nonnil more); destruct (render_row more); [reflexivity|discriminate]|].
        destruct (suf_cons src (i + len (render_cell cl) + 1) _ _ ltac:(lia) Hs2) as (Hlt & _). repeat split; lia.
    + rewrite Hfin. f_equal. rewrite len_app, len_cons. f_equal; lia.
    + exact HG3.
Qed.

Lemma cstate_f_false i e c r inds vals : cstate_f false i e c r inds vals = cstate i e c r inds vals.
Proof. reflexivity. Qed.

Lemma render_file_cons r rws : render_file (r :: rws) = render_row r ++ render_file rws.
Proof. reflexivity. Qed.

Lemma render_file_app a b : render_file (a ++ b) = render_file a ++ render_file b.
Proof. unfold render_file. rewrite map_app, concat_app. reflexivity. Qed.

Lemma rect_nonnil rws : Forall (fun rw : list cell => len rw = ncols) rws -> Forall (fun rw => rw <> []) rws.
Proof. intros H. eapply Forall_impl; [|exact H]. intros a Ha ->. unfold len in Ha; cbn in Ha; lia. Qed.

Lemma nows_file_app rws rest : Forall (fun rw : list cell => len rw = ncols) rws -> nows rest -> nows (render_file rws ++ rest).
Proof.
  intros H Hn. destruct rws as [|r rws]; [exact Hn|]. rewrite render_file_cons, <- app_assoc.
  apply nows_render_row. pose proof (Forall_inv (rect_nonnil _ H)) as Hr. exact Hr.
Qed.

(* complete records rws = rows[r .. r + |rws|) followed by anything that does not start with a blank *)
Lemma run_rows_gen : forall rws r i e inds vals rest,
  rws <> [] -> 0 <= r -> r + len rws <= nrows -> r + len rws <= maxrow -> 0 <= i ->
  suf src i = render_file rws ++ rest -> nows rest ->
  (forall k, 0 <= k < len rws -> nthd [] rws k = nthd [] rows (r + k)) ->
  Forall (fun rw => len rw = ncols) rws ->
  Good (fun _ => r) inds vals ->
  exists n s_pre inds' vals',
    runn n (cstate i e 0 r inds vals) s_pre /\
    step s_pre = Ok (cstate_f (r + len rws =? maxrow) (i + len (render_file rws)) (i + len (render_file rws) - 1) 0
                              (r + len rws) inds' vals') /\
    Good (fun _ => r + len rws) inds' vals'.
Proof.
  induction rws as [|row rws IH]; intros r i e inds vals rest Hne Hr Hlen Hmax Hi H Hn Hnth Hrect HG; [contradiction|].
  pose proof (Forall_inv Hrect) as Hrow. pose proof (Forall_inv_tail Hrect) as Hrect'. cbv beta in Hrow.
  pose proof (len_nonneg rws) as Hlr. rewrite len_cons in Hlen, Hmax.
  assert (Hrr : 0 <= r < nrows) by lia.
  assert (Hrow_ne : row <> []) by (intros ->; unfold len in Hrow; cbn in Hrow; lia).
  assert (Htxt : forall j, 0 <= j < len row -> snd (nthd (false, []) row j) = cell_text rows r (0 + j)).
  { intros j Hj. rewrite cell_text_eq. rewrite Z.add_0_l.
    specialize (Hnth 0). rewrite Z.add_0_r in Hnth. unfold nthd in *. cbn [Z.to_nat nth] in Hnth.
    rewrite <- Hnth by (rewrite len_cons; lia). reflexivity. }
  assert (HG0 : Good (fun x => if x <? 0 then r + 1 else r) inds vals).
  { eapply Good_ext; [|exact HG]. intros x Hx. cbv beta. destruct (x <? 0) eqn:E; [apply Z.ltb_lt in E; lia|reflexivity]. }
  rewrite render_file_cons, <- app_assoc in H.
  assert (Hnw : nows (render_file rws ++ rest)) by (apply nows_file_app; assumption).
  destruct (run_cells_gen r Hrr ltac:(lia) row 0 i e inds vals (render_file rws ++ rest) Hrow_ne ltac:(lia) ltac:(lia) Hi H Hnw Htxt HG0)
    as (n & s_pre & inds1 & vals1 & R & Hfin & HG').
  pose proof (len_nonneg (render_row row)) as Hl.
  destruct rws as [|row2 rws].
  - (* last of the complete records *)
    exists n, s_pre, inds1, vals1. split; [exact R|]. split.
    + rewrite Hfin. replace (len [row]) with 1 by reflexivity.
      replace (render_file [row]) with (render_row row) by (cbn [render_file map concat]; rewrite app_nil_r; reflexivity).
      reflexivity.
    + replace (len [row]) with 1 by reflexivity. exact HG'.
  - remember (row2 :: rws) as more eqn:Em.
    assert (Hmore : more <> []) by (subst; discriminate).
    assert (Hlm0 : 1 <= len more) by (rewrite Em, len_cons; pose proof (len_nonneg rws); lia).
    pose proof (suf_app_len src i _ _ Hi H) as Hs.
    assert (Efl : (r + 1 =? maxrow) = false) by (apply Z.eqb_neq; lia).
    rewrite Efl, cstate_f_false in Hfin.
    destruct (IH (r + 1) (i + len (render_row row)) (i + len (render_row row) - 1) inds1 vals1 rest Hmore
                 ltac:(lia) ltac:(lia) ltac:(lia) ltac:(lia) Hs Hn)
      as (n2 & s_pre2 & inds' & vals' & R2 & Hfin2 & HG2).
    { intros k Hk. specialize (Hnth (k + 1)). rewrite len_cons in Hnth. specialize (Hnth ltac:(lia)).
      rewrite nthd_cons_succ in Hnth by lia. rewrite Hnth. f_equal. lia. }
    { exact Hrect'. }
    { exact HG'. }
    exists (n + (1 + n2))%nat, s_pre2, inds', vals'. split; [|split].
    + eapply runn_trans; [exact R|]. eapply runn_trans; [|exact R2].
      apply runn_one; [exact Hfin|].
      unfold noexit, CsvRows.cstate. cbn [s_index s_ifull s_vfull].
      destruct (render_file more ++ rest) as [|x t] eqn:E2.
      { exfalso. subst more. rewrite render_file_cons, <- app_assoc in E2.
        destruct (render_row_nonnil row2). destruct (render_row row2); [reflexivity|discriminate]. }
      destruct (suf_cons src (i + len (render_row row)) x t ltac:(lia) Hs) as (Hlt & _). repeat split; lia.
    + rewrite Hfin2. rewrite render_file_cons, len_app, len_cons.
      replace (r + 1 + len more) with (r + (len more + 1)) by lia.
      replace (i + len (render_row row) + len (render_file more)) with (i + (len (render_row row) + len (render_file more))) by lia.
      reflexivity.
    + rewrite len_cons. replace (r + (len more + 1)) with (r + 1 + len more) by lia. exact HG2.
Qed.

Lemma nows_app_l a b : nows (a ++ b) -> nows a.
Proof. destruct a; cbn; auto. Qed.

Lemma Good_drop c r inds vals : 0 <= r -> Good (fun x => if x <? c then r + 1 else r) inds vals -> Good (fun _ => r) inds vals.
Proof. intros Hr HG. eapply Good_weaken; [exact HG|]. intros x Hx. cbv beta. destruct (x <? c); lia. Qed.

(* the record that the end of the window cuts: p is a proper, non-empty prefix of its rendering *)
Lemma run_partial_cells r : 0 <= r < nrows -> r + 1 <= maxrow -> forall cells c i e inds vals p q,
  cells <> [] -> 0 <= c -> c + len cells = ncols -> 0 <= i ->
  suf src i = p -> p <> [] -> render_row cells = p ++ q -> q <> [] ->
  (forall j, 0 <= j < len cells -> snd (nthd (false, []) cells j) = cell_text rows r (c + j)) ->
  Good (fun x => if x <? c then r + 1 else r) inds vals ->
  exists s, reaches (cstate i e c r inds vals) s /\
    s_index s = len src /\ s_eol s = e /\ s_row s = r /\ s_ifull s = false /\ s_vfull s = false /\
    Good (fun _ => r) (s_inds s) (s_vals s).
Proof.
  intros Hr Hrm. assert (Er : (0 <=? r) = true) by (apply Z.leb_le; lia).
  assert (Er2 : (r <? 0) = false) by (apply Z.ltb_ge; lia).
  induction cells as [|cl cells IH]; intros c i e inds vals p q Hne Hc Hlen Hi H Hp Hq Hqne Htxt HG; [contradiction|].
  assert (Htc : snd cl = cell_text rows r c).
  { specialize (Htxt 0). rewrite Z.add_0_r in Htxt. apply Htxt. rewrite len_cons. pose proof (len_nonneg cells). lia. }
  assert (Hcn : 0 <= c < ncols) by (rewrite len_cons in Hlen; pose proof (len_nonneg cells); lia).
  assert (Hfc : (if c <? c then r + 1 else r) = r) by (rewrite Z.ltb_irrefl; reflexivity).
  pose proof (Good_fits ncols w V offs rows Hoffs0 Hbudget HV _ inds vals c r HG Hcn Hr) as (F1 & F2 & F3).
  assert (Hcs : I2 inds c r = P rows c r).
  { destruct HG as (_ & _ & HGc). destruct (HGc c Hcn) as (_ & Hk & _). apply Hk. rewrite Hfc. lia. }
  assert (Hsh : shape ncols w inds) by (destruct HG as (Hsh & _); exact Hsh).
  pose proof (Good_cell ncols w V offs rows Hoffs0 Hbudget HV _ inds vals c r HG Hcn Hfc Hr ltac:(unfold w; lia)) as HG1.
  assert (Hfit : fits r (I2 inds c r) (nthZ offs c) (nthZ offs (c + 1) - nthZ offs c) 0 vals (snd cl)).
  { unfold fits. intros _. rewrite Hcs, Htc. lia. }
  pose proof (len_nonneg (render_cell cl)) as Hl.
  (* the window ends inside (or right at the end of) this cell *)
  assert (CaseA : forall l, render_cell cl = p ++ l ->
    exists s, reaches (cstate i e c r inds vals) s /\
      s_index s = len src /\ s_eol s = e /\ s_row s = r /\ s_ifull s = false /\ s_vfull s = false /\
      Good (fun _ => r) (s_inds s) (s_vals s)).
  { intros l E1.
    destruct (run_cell_end e c r (-1) (I2 inds c r) i (nthZ offs c) (nthZ offs (c + 1) - nthZ offs c) inds cl i vals p l
                eq_refl Hi H Hp E1 Hfit) as (s & R & (esc & cand & k & tp & tq & Et & Es)).
    exists s. split; [exact R|]. subst s. unfold S0. cbn [s_index s_eol s_row s_ifull s_vfull s_inds s_vals].
    do 5 (split; [reflexivity|]). rewrite Er, Hcs. apply (Good_drop c r); [lia|].
    apply (Good_partial _ inds vals c r tp tq); try assumption. rewrite <- Htc. exact Et. }
  assert (Hrow : exists d R, render_row (cl :: cells) = render_cell cl ++ d :: R /\
                   ((R = [] /\ cells = []) \/ (d = SEP /\ R = render_row cells /\ cells <> []))).
  { destruct cells as [|cl2 cells'].
    - exists NL, []. split; [reflexivity|left; auto].
    - exists SEP, (render_row (cl2 :: cells')). split; [reflexivity|right]. repeat split. discriminate. }
  destruct Hrow as (d & R & Erow & Hd). rewrite Erow in Hq.
  destruct (app_eq_app _ _ _ _ Hq) as (l & [(E1 & E2)|(E1 & E2)]).
  - apply (CaseA l E1).
  - destruct l as [|d' p2].
    + rewrite app_nil_r in E1. apply (CaseA []). rewrite app_nil_r. symmetry. exact E1.
    + cbn [app] in E2. inversion E2 as [[Hd' HR]]. subst d'.
      destruct Hd as [(HR0 & _)|(Hd & HRr & Hmore)].
      { exfalso. rewrite HR0 in HR. destruct p2; [cbn in HR; subst q; contradiction|discriminate]. }
      subst d. rewrite E1 in H.
      destruct (run_cell src offs maxrow e c r (-1) (I2 inds c r) (nthZ offs c) (nthZ offs (c + 1) - nthZ offs c) inds cl i vals SEP
                  p2 Hi H ltac:(auto) Hfit) as (n & Rn).
      rewrite Er in Rn.
      pose proof (suf_app_len src i _ _ Hi H) as Hs.
      assert (Hlm : len (cl :: cells) = len cells + 1) by apply len_cons.
      assert (Hlm0 : 1 <= len cells).
      { destruct cells; [contradiction|]. rewrite len_cons. pose proof (len_nonneg cells). lia. }
      rewrite Hlm in Hlen.
      assert (Hnp2 : nows p2).
      { apply (nows_app_l p2 q). rewrite <- HR, HRr. rewrite <- (app_nil_r (render_row cells)). apply nows_render_row. exact Hmore. }
      pose proof (step_sep src offs maxrow ncols Hoffs (i + len (render_cell cl)) e c r (-1) (len (snd cl)) (I2 inds c r) i
                    (nthZ offs c) (nthZ offs (c + 1) - nthZ offs c) inds (wrs vals (nthZ offs c + I2 inds c r) (snd cl))
                    p2 ltac:(lia) Hs Hnp2 Hsh Hc ltac:(lia) ltac:(lia) ltac:(unfold w; lia)) as Hst.
      rewrite Er, Er2 in Hst. cbv zeta in Hst. rewrite Hcs, Htc in Hst.
      set (inds1 := put2 inds c (r + 1) (P rows c r + len (cell_text rows r c))) in *.
      set (vals1 := wrs vals (nthZ offs c + P rows c r) (cell_text rows r c)) in *.
      destruct (suf_cons src (i + len (render_cell cl)) SEP _ ltac:(lia) Hs) as (Hlt & _ & Hs2 & _).
      assert (HG2 : Good (fun x => if x <? c + 1 then r + 1 else r) inds1 vals1).
      { eapply Good_ext; [|exact HG1]. intros x Hx. cbv beta. apply lt_succ_fun. }
      assert (Hst' : step (S0 e c r (-1) (I2 inds c r) i (nthZ offs c) (nthZ offs (c + 1) - nthZ offs c) inds
                             (i + len (render_cell cl)) false false (len (snd cl))
                             (wrs vals (nthZ offs c + I2 inds c r) (snd cl))) =
                     Ok (cstate (i + len (render_cell cl) + 1) e (c + 1) r inds1 vals1)).
      { unfold S0. rewrite Hcs, Htc. fold vals1. rewrite Hst. unfold CsvRows.cstate.
        replace (c + 1 + 1) with (c + 2) by lia. reflexivity. }
      destruct p2 as [|z p3].
      * (* the separator is the last byte of the window *)
        apply suf_nil_iff in Hs2; try lia.
        exists (cstate (i + len (render_cell cl) + 1) e (c + 1) r inds1 vals1). split.
        -- eapply reaches_runn; [exact Rn|]. apply reaches_step. exact Hst'.
        -- unfold CsvRows.cstate. cbn [s_index s_eol s_row s_ifull s_vfull s_inds s_vals].
           split; [lia|]. do 4 (split; [reflexivity|]). apply (Good_drop (c + 1) r); [lia|exact HG2].
      * destruct (IH (c + 1) (i + len (render_cell cl) + 1) e inds1 vals1 (z :: p3) q Hmore ltac:(lia) ltac:(lia) ltac:(lia) Hs2
                     ltac:(discriminate)) as (s & R2 & Hfin); try assumption.
        { rewrite <- HRr. exact HR. }
        { intros j Hj. specialize (Htxt (j + 1)). rewrite Hlm in Htxt. specialize (Htxt ltac:(lia)).
          rewrite nthd_cons_succ in Htxt by lia. rewrite Htxt. f_equal. lia. }
        exists s. split; [|exact Hfin].
        eapply reaches_runn; [exact Rn|]. eapply reaches_cons; [exact Hst'| |exact R2].
        unfold noexit, CsvRows.cstate. cbn [s_index s_ifull s_vfull].
        destruct (suf_cons src (i + len (render_cell cl) + 1) _ _ ltac:(lia) Hs2) as (Hlt2 & _). repeat split; lia.
Qed.

Lemma Forall_firstn_ {A} (Pp:A -> Prop) n l : Forall Pp l -> Forall Pp (firstn n l).
Proof.
  revert l. induction n as [|n IH]; intros l H; [constructor|]. destruct l as [|x l]; [constructor|].
  cbn [firstn]. inversion H; subst. constructor; auto.
Qed.

Lemma render_file_nonnil rws : rws <> [] -> render_file rws <> [].
Proof.
  destruct rws as [|r rws]; [contradiction|]. intros _. rewrite render_file_cons. intros E.
  destruct (render_row_nonnil r). destruct (render_row r); [reflexivity|discriminate].
Qed.

(* what a call has achieved when it stops after k records, the last of which ends at byte e *)
Definition done (k e:Z) (s:st) : Prop :=
  s_index s <= len src /\ stops s = true /\ s_eol s = e /\ s_row s = k /\ s_ifull s = (k =? maxrow) /\
  s_vfull s = false /\ Good (fun _ => k) (s_inds s) (s_vals s).

(* the window cuts record k of the table: p is what is left of it in the window *)
Definition cut (k:nat) (p:list Z) : Prop :=
  p = [] \/ (Z.of_nat k < maxrow /\ (k < length rows)%nat /\ exists q, q <> [] /\ render_row (nth k rows []) = p ++ q).

Hypothesis Hrect : Forall (fun rw : list cell => len rw = ncols) rows.

Lemma nth_rect k : (k < length rows)%nat -> len (nth k rows []) = ncols.
Proof. intros H. rewrite Forall_forall in Hrect. apply Hrect. apply nth_In. exact H. Qed.

Lemma nows_cut k p : cut k p -> nows p.
Proof.
  intros [->|(_ & Hk & q & _ & E)]; [exact I|]. apply (nows_app_l p q). rewrite <- E.
  rewrite <- (app_nil_r (render_row _)). apply nows_render_row.
  pose proof (nth_rect k Hk) as Hl. intros E0. rewrite E0 in Hl. unfold len in Hl; cbn in Hl; lia.
Qed.

Lemma body_prefix (k:nat) i e inds vals p :
  (k <= length rows)%nat -> Z.of_nat k <= maxrow -> 0 <= i -> e = i - 1 ->
  suf src i = render_file (firstn k rows) ++ p -> cut k p ->
  (k <> 0%nat \/ p <> []) ->
  Good (fun _ => 0) inds vals ->
  exists s, reaches (cstate i e 0 0 inds vals) s /\ done (Z.of_nat k) (i + len (render_file (firstn k rows)) - 1) s.
Proof.
  intros Hk Hkm Hi He H Hcut Hne HG.
  assert (Hpart : forall i2 e2 inds2 vals2, 0 <= i2 -> suf src i2 = p -> p <> [] -> Good (fun _ => Z.of_nat k) inds2 vals2 ->
            exists s, reaches (cstate i2 e2 0 (Z.of_nat k) inds2 vals2) s /\ done (Z.of_nat k) e2 s).
  { intros i2 e2 inds2 vals2 Hi2 H2 Hp HG2. destruct Hcut as [->|(Hkm2 & Hk2 & q & Hq & E)]; [contradiction|].
    pose proof (nth_rect k Hk2) as Hl.
    destruct (run_partial_cells (Z.of_nat k) ltac:(unfold nrows, len; lia) ltac:(lia) (nth k rows []) 0 i2 e2 inds2 vals2 p q)
      as (s & R & Hidx & Heol & Hrow & Hif & Hvf & HGs); try assumption; try lia.
    { intros E0. rewrite E0 in Hl. unfold len in Hl; cbn in Hl; lia. }
    { intros j Hj. rewrite cell_text_eq. rewrite Z.add_0_l. rewrite Nat2Z.id. reflexivity. }
    { eapply Good_ext; [|exact HG2]. intros x Hx. cbv beta. destruct (x <? 0) eqn:E0; [apply Z.ltb_lt in E0; lia|reflexivity]. }
    exists s. split; [exact R|]. unfold done, stops. rewrite Hidx, Z.eqb_refl. cbn [orb].
    split; [lia|]. split; [reflexivity|]. split; [exact Heol|]. split; [exact Hrow|].
    split; [rewrite Hif; symmetry; apply Z.eqb_neq; lia|]. split; [exact Hvf|exact HGs]. }
  destruct k as [|k'].
  - (* no complete record in the window *)
    destruct Hne as [Hne|Hne]; [contradiction|]. cbn [firstn render_file map concat app] in *.
    replace (len (@nil Z)) with 0 by reflexivity. rewrite Z.add_0_r. rewrite <- He.
    apply (Hpart i e inds vals Hi H Hne). exact HG.
  - set (k := S k') in *. set (recs := firstn k rows) in *.
    assert (Hlrecs : len recs = Z.of_nat k) by (unfold recs, len; rewrite firstn_length; lia).
    assert (Hrne : recs <> []) by (intros E0; rewrite E0 in Hlrecs; unfold len in Hlrecs; cbn in Hlrecs; lia).
    destruct (run_rows_gen recs 0 i e inds vals p Hrne ltac:(lia) ltac:(unfold nrows, len in *; lia) ltac:(lia) Hi H (nows_cut k p Hcut))
      as (n & s_pre & inds' & vals' & R & Hfin & HG').
    { intros j Hj. rewrite Z.add_0_l. unfold nthd, recs. apply nth_firstn. lia. }
    { apply Forall_firstn_. exact Hrect. }
    { exact HG. }
    rewrite Z.add_0_l, Hlrecs in Hfin, HG'.
    pose proof (suf_app_len src i _ _ Hi H) as Hs. pose proof (len_nonneg (render_file recs)) as Hlr.
    destruct p as [|x p'].
    + (* the window ends exactly at a record end *)
      rewrite app_nil_r in H. pose proof (suf_full src i _ Hi H (render_file_nonnil recs Hrne)) as Hfull.
      eexists. split; [exists n, s_pre; split; [exact R|exact Hfin]|].
      unfold done, stops, cstate_f. cbn [s_index s_eol s_row s_ifull s_vfull s_inds s_vals].
      split; [lia|]. split; [rewrite Hfull, Z.eqb_refl; reflexivity|]. split; [reflexivity|]. split; [reflexivity|].
      split; [reflexivity|]. split; [reflexivity|exact HG'].
    + assert (Hkm2 : Z.of_nat k < maxrow) by (destruct Hcut as [E0|(Hkm2 & _)]; [discriminate|exact Hkm2]).
      assert (Efl : (Z.of_nat k =? maxrow) = false) by (apply Z.eqb_neq; lia).
      rewrite Efl, cstate_f_false in Hfin.
      destruct (Hpart (i + len (render_file recs)) (i + len (render_file recs) - 1) inds' vals' ltac:(lia) Hs ltac:(discriminate) HG')
        as (s & R2 & Hd).
      exists s. split; [|exact Hd].
      eapply reaches_trans; [exists n, s_pre; split; [exact R|exact Hfin]| |exact R2].
      unfold noexit, CsvRows.cstate. cbn [s_index s_ifull s_vfull].
      destruct (suf_cons src (i + len (render_file recs)) x p' ltac:(lia) Hs) as (Hlt & _). repeat split; lia.
Qed.

Lemma done_out k e s : done k e s ->
  f_next (out_of s) = e + 1 /\ f_rows (out_of s) = k /\ f_ifull (out_of s) = (k =? maxrow) /\ f_vfull (out_of s) = false /\
  Good (fun _ => k) (f_inds (out_of s)) (f_vals (out_of s)).
Proof.
  intros (_ & _ & He & Hr & Hi & Hv & HG). unfold out_of. cbn [f_next f_rows f_ifull f_vfull f_inds f_vals].
  rewrite He. auto.
Qed.

(* the kernel re-entered (or entered without header) at byte i0, the first byte of a record *)
Theorem kernel_prefix_nohdr (k:nat) i0 inds vals p :
  (k <= length rows)%nat -> Z.of_nat k <= maxrow -> 0 <= i0 <= len src ->
  suf src i0 = render_file (firstn k rows) ++ p -> cut k p ->
  shape ncols w inds -> (forall c, 0 <= c < ncols -> I2 inds c 0 = 0) -> len vals = V ->
  exists out, fast_csv_reader (fsm_fuel src i0) src i0 inds vals offs false = Ok out /\
    f_next out = i0 + len (render_file (firstn k rows)) /\ f_rows out = Z.of_nat k /\
    f_ifull out = (Z.of_nat k =? maxrow) /\ f_vfull out = false /\
    Good (fun _ => Z.of_nat k) (f_inds out) (f_vals out).
Proof.
  intros Hk Hkm Hi0 H Hcut Hsh H0 Hv.
  assert (HG0 : Good (fun _ => 0) inds vals) by (apply Good_init; try assumption; unfold w; lia).
  unfold fast_csv_reader, fsm_init. cbn [Z.leb Z.compare bind].
  rewrite (get2_ok 9 ncols w) by (try assumption; unfold w; lia). cbn [bind].
  replace (fst inds - 1) with maxrow by (destruct Hsh as (Hf & _); unfold w in Hf; lia).
  assert (Hcase : (k = 0%nat /\ p = []) \/ (k <> 0%nat \/ p <> [])).
  { destruct k; [|right; left; discriminate]. destruct p; [left; auto|right; right; discriminate]. }
  destruct Hcase as [(Ek & Ep)|Hne].
  - (* nothing is left in the window *)
    subst k p. cbn [firstn render_file map concat app] in *.
    assert (Ei : i0 = len src) by (apply suf_nil_iff in H; lia).
    assert (Esk : skip_ws0 (length src) src i0 = Ok i0).
    { destruct (length src); cbn [skip_ws0]; (destruct (i0 <? len src) eqn:E; [apply Z.ltb_lt in E; lia|reflexivity]). }
    rewrite Esk. cbn [bind]. rewrite getZ_ok by lia. cbn [bind s_index]. rewrite Ei, Z.eqb_refl.
    eexists. split; [reflexivity|]. cbn [f_next f_rows f_ifull f_vfull f_inds f_vals s_row].
    replace (len (@nil Z)) with 0 by reflexivity.
    split; [lia|]. split; [reflexivity|]. split; [symmetry; apply Z.eqb_neq; cbn; lia|]. split; [reflexivity|exact HG0].
  - pose proof (nows_file_app (firstn k rows) p (Forall_firstn_ _ k rows Hrect) (nows_cut k p Hcut)) as Hnw.
    destruct (render_file (firstn k rows) ++ p) as [|x0 t0] eqn:E0.
    { exfalso. apply app_eq_nil in E0. destruct E0 as (E1 & E2). destruct Hne as [Hne|Hne]; [|contradiction].
      destruct k; [contradiction|]. destruct rows as [|r0 rows']; [cbn in Hk; lia|].
      cbn [firstn] in E1. apply (render_file_nonnil (r0 :: firstn k rows')); [discriminate|exact E1]. }
    cbn [nows] in Hnw. destruct (suf_cons src i0 x0 t0 ltac:(lia) H) as (Hlt0 & _).
    rewrite (skip_ws0_stay src maxrow rows _ i0 x0 t0) by (try lia; assumption). cbn [bind].
    rewrite getZ_ok by lia. cbn [bind s_index].
    destruct (i0 =? len src) eqn:El; [apply Z.eqb_eq in El; lia|].
    rewrite <- E0 in H.
    destruct (body_prefix k i0 (i0 - 1) inds vals p Hk Hkm ltac:(lia) eq_refl H Hcut Hne HG0) as (s & R & Hd).
    assert (Est : mkSt i0 (i0 - 1) 0 0 (-1) false false 0 (I2 inds 0 0) i0 false false 0 (nthZ offs 1) inds vals =
                  cstate i0 (i0 - 1) 0 0 inds vals).
    { unfold CsvRows.cstate. rewrite Hoffs0. replace (0 + 1) with 1 by lia. f_equal. lia. }
    rewrite Est. destruct Hd as (Hle & Hstop & Hrest).
    rewrite (reaches_loop _ s i0 R Hstop Hle) by (unfold CsvRows.cstate; cbn [s_index]; lia).
    eexists. split; [reflexivity|].
    destruct (done_out (Z.of_nat k) (i0 + len (render_file (firstn k rows)) - 1) s (conj Hle (conj Hstop Hrest)))
      as (D1 & D2 & D3 & D4 & D5).
    split; [rewrite D1; lia|]. auto.
Qed.

(* the first call: header line, then records *)
Theorem kernel_prefix_hdr hdr (k:nat) inds vals p :
  (k <= length rows)%nat -> Z.of_nat k <= maxrow -> len hdr = ncols ->
  src = render_row hdr ++ render_file (firstn k rows) ++ p -> cut k p ->
  shape ncols w inds -> (forall c, 0 <= c < ncols -> I2 inds c 0 = 0) -> len vals = V ->
  exists out, fast_csv_reader (fsm_fuel src 0) src 0 inds vals offs true = Ok out /\
    f_next out = len (render_row hdr) + len (render_file (firstn k rows)) /\ f_rows out = Z.of_nat k /\
    f_ifull out = (Z.of_nat k =? maxrow) /\ f_vfull out = false /\
    Good (fun _ => Z.of_nat k) (f_inds out) (f_vals out).
Proof.
  intros Hk Hkm Hhdr Hsrc Hcut Hsh H0 Hv.
  assert (HG0 : Good (fun _ => 0) inds vals) by (apply Good_init; try assumption; unfold w; lia).
  assert (Hhdr_ne : hdr <> []) by (intros ->; unfold len in Hhdr; cbn in Hhdr; lia).
  assert (Hsuf : suf src 0 = render_row hdr ++ (render_file (firstn k rows) ++ p)) by (rewrite suf_0; exact Hsrc).
  pose proof (nows_file_app (firstn k rows) p (Forall_firstn_ _ k rows Hrect) (nows_cut k p Hcut)) as Hnw.
  pose proof (nows_render_row hdr (render_file (firstn k rows) ++ p) Hhdr_ne) as Hnw0.
  destruct (render_row hdr ++ render_file (firstn k rows) ++ p) as [|x0 t0] eqn:E0.
  { destruct (render_row_nonnil hdr). destruct (render_row hdr); [reflexivity|discriminate]. }
  cbn [nows] in Hnw0.
  destruct (suf_cons src 0 x0 t0 ltac:(lia) Hsuf) as (Hlt0 & _).
  rewrite <- E0 in Hsuf.
  unfold fast_csv_reader, fsm_init. cbn [Z.leb Z.compare bind].
  replace (fst inds - 1) with maxrow by (destruct Hsh as (Hf & _); unfold w in Hf; lia).
  rewrite (skip_ws0_stay src maxrow rows _ 0 x0 t0) by (try lia; try assumption; rewrite Hsuf, E0; reflexivity). cbn [bind].
  rewrite getZ_ok by lia. cbn [bind s_index].
  destruct (0 =? len src) eqn:El; [apply Z.eqb_eq in El; lia|].
  destruct (run_header_cells src offs maxrow ncols Hoffs Hncols Hmaxrow inds vals Hsh hdr 0 0 (0 - 1) 0 0 (nthZ offs 1)
              (render_file (firstn k rows) ++ p) Hhdr_ne ltac:(lia) ltac:(lia) ltac:(lia) Hsuf Hnw)
    as (n1 & s_pre1 & R1 & Hfin1).
  pose proof (len_nonneg (render_row hdr)) as Hlh. rewrite Z.add_0_l in Hfin1.
  set (i1 := len (render_row hdr)) in *.
  assert (Hrow0 : row0 offs inds vals i1 = cstate i1 (i1 - 1) 0 0 inds vals).
  { unfold row0, CsvRows.cstate. replace (0 + 1) with 1 by lia. reflexivity. }
  rewrite Hrow0 in Hfin1.
  pose proof (suf_app_len src 0 _ _ ltac:(lia) Hsuf) as Hs1. rewrite Z.add_0_l in Hs1. fold i1 in Hs1.
  assert (Hcase : (k = 0%nat /\ p = []) \/ (k <> 0%nat \/ p <> [])).
  { destruct k; [|right; left; discriminate]. destruct p; [left; auto|right; right; discriminate]. }
  assert (Hlsrc : len src = i1 + len (render_file (firstn k rows) ++ p)).
  { rewrite (suf_full src 0 _ ltac:(lia) Hsuf) by (rewrite E0; discriminate). rewrite len_app. unfold i1. lia. }
  assert (Hfinal : exists s, reaches (mkSt 0 (0 - 1) 0 (-1) (-1) false false 0 0 0 false false 0 (nthZ offs 1) inds vals) s /\
                     done (Z.of_nat k) (i1 + len (render_file (firstn k rows)) - 1) s).
  { destruct Hcase as [(Ek & Ep)|Hne].
    - subst k p. cbn [firstn render_file map concat app] in *.
      assert (Ei : i1 = len src) by (rewrite Hlsrc; replace (len (@nil Z)) with 0 by reflexivity; lia).
      eexists. split; [exists n1, s_pre1; split; [exact R1|exact Hfin1]|].
      unfold done, stops, CsvRows.cstate. cbn [s_index s_eol s_row s_ifull s_vfull s_inds s_vals].
      replace (len (@nil Z)) with 0 by reflexivity.
      split; [lia|]. split; [rewrite Ei, Z.eqb_refl; reflexivity|]. split; [lia|]. split; [reflexivity|].
      split; [symmetry; apply Z.eqb_neq; cbn; lia|]. split; [reflexivity|exact HG0].
    - destruct (body_prefix k i1 (i1 - 1) inds vals p Hk Hkm ltac:(lia) eq_refl Hs1 Hcut Hne HG0) as (s & R & Hd).
      exists s. split; [|exact Hd].
      eapply reaches_trans; [exists n1, s_pre1; split; [exact R1|exact Hfin1]| |exact R].
      unfold noexit, CsvRows.cstate. cbn [s_index s_ifull s_vfull].
      destruct (render_file (firstn k rows) ++ p) as [|x1 t1] eqn:E1.
      { exfalso. apply app_eq_nil in E1. destruct E1 as (E1 & E2). destruct Hne as [Hne|Hne]; [|contradiction].
        destruct k; [contradiction|]. destruct rows as [|r0 rows']; [cbn in Hk; lia|].
        cbn [firstn] in E1. apply (render_file_nonnil (r0 :: firstn k rows')); [discriminate|exact E1]. }
      destruct (suf_cons src i1 x1 t1 ltac:(lia) Hs1) as (Hlt & _). repeat split; lia. }
  destruct Hfinal as (s & R & Hd). destruct Hd as (Hle & Hstop & Hrest).
  rewrite (reaches_loop _ s 0 R Hstop Hle) by (cbn [s_index]; lia).
  eexists. split; [reflexivity|].
  destruct (done_out (Z.of_nat k) (i1 + len (render_file (firstn k rows)) - 1) s (conj Hle (conj Hstop Hrest)))
    as (D1 & D2 & D3 & D4 & D5).
  split; [rewrite D1; lia|]. auto.
Qed.

End Data2.

End Pre.

(* both entry modes in one statement *)
Theorem kernel_prefix_stable :
  forall (src offs : list Z) (maxrow ncols : Z),
  len offs = ncols + 1 -> 0 < ncols -> 0 < maxrow ->
  forall (V : Z) (rows : list (list cell)),
  nthZ offs 0 = 0 ->
  (forall c, 0 <= c < ncols -> nthZ offs c + len (CB rows c) < nthZ offs (c + 1)) ->
  nthZ offs ncols <= V ->
  Forall (fun rw : list cell => len rw = ncols) rows ->
  forall (hasHeader : bool) (hdr : list cell) (k : nat) (i0 : Z) (inds : arr2) (vals p : list Z),
  (k <= length rows)%nat -> Z.of_nat k <= maxrow -> 0 <= i0 <= len src ->
  (hasHeader = true -> i0 = 0 /\ len hdr = ncols) ->
  suf src i0 = (if hasHeader then render_row hdr else []) ++ render_file (firstn k rows) ++ p ->
  cut maxrow rows k p ->
  shape ncols (maxrow + 1) inds -> (forall c, 0 <= c < ncols -> I2 inds c 0 = 0) -> len vals = V ->
  exists out, fast_csv_reader (fsm_fuel src i0) src i0 inds vals offs hasHeader = Ok out /\
    f_next out = i0 + len (if hasHeader then render_row hdr else []) + len (render_file (firstn k rows)) /\
    f_rows out = Z.of_nat k /\ f_ifull out = (Z.of_nat k =? maxrow) /\ f_vfull out = false /\
    Good ncols (maxrow + 1) V offs rows (fun _ => Z.of_nat k) (f_inds out) (f_vals out).
Proof.
  intros src offs maxrow ncols Hoffs Hncols Hmaxrow V rows Hoffs0 Hbudget HV Hrect hasHeader hdr k i0 inds vals p
         Hk Hkm Hi0 Hh Hsuf Hcut Hsh H0 Hv.
  destruct hasHeader.
  - destruct (Hh eq_refl) as (-> & Hhdr). rewrite suf_0 in Hsuf.
    destruct (kernel_prefix_hdr src offs maxrow ncols Hoffs Hncols Hmaxrow V rows Hoffs0 Hbudget HV Hrect hdr k inds vals p
                Hk Hkm Hhdr Hsuf Hcut Hsh H0 Hv) as (out & E & Hn & Hrest).
    exists out. split; [exact E|]. split; [rewrite Hn; lia|exact Hrest].
  - cbn [app] in Hsuf.
    destruct (kernel_prefix_nohdr src offs maxrow ncols Hoffs Hncols Hmaxrow V rows Hoffs0 Hbudget HV Hrect k i0 inds vals p
                Hk Hkm Hi0 Hsuf Hcut Hsh H0 Hv) as (out & E & Hn & Hrest).
    exists out. split; [exact E|]. split; [rewrite Hn; replace (len (@nil Z)) with 0 by reflexivity; lia|exact Hrest].
Qed.
