(* Proofs/CsvPrefix.v — the byte-level FSM on a window that ends anywhere inside a rendered file:
   runs "to the end of the window" (inside a plain cell, inside a quoted cell, between the two quotes
   of an escaped quote, right after a closing quote, after a separator, after a line break). *)
From Coq Require Import ZArith List Lia Bool.
From EV Require Import Res Arr Csv CsvSpec CsvBase CsvKernel CsvTable CsvRows.
Import ListNotations.
Open Scope Z_scope.

Section Pre.
Variables (src offs : list Z) (maxrow ncols : Z).
Let w := maxrow + 1.

Notation runn := (runn src offs maxrow).
Notation step := (fsm_step src offs maxrow).

(* ---- reaching a state by a last step (the state reached may satisfy the exit test) ------ *)
Definition reaches (s s_last:st) : Prop := exists n s_pre, runn n s s_pre /\ step s_pre = Ok s_last.

Lemma reaches_step s s1 : step s = Ok s1 -> reaches s s1.
Proof. intros H. exists 0%nat, s. split; [constructor|exact H]. Qed.

Lemma reaches_runn n s s1 s2 : runn n s s1 -> reaches s1 s2 -> reaches s s2.
Proof. intros R (m & sp & R2 & H). exists (n + m)%nat, sp. split; [eapply runn_trans; eauto|exact H]. Qed.

Lemma reaches_cons s s1 s2 : step s = Ok s1 -> noexit src s1 -> reaches s1 s2 -> reaches s s2.
Proof. intros H Hn R. eapply reaches_runn; [apply runn_one; eauto|exact R]. Qed.

Lemma reaches_trans s a b : reaches s a -> noexit src a -> reaches a b -> reaches s b.
Proof.
  intros (n & sp & R & H) Hn R2. eapply reaches_runn; [exact R|]. eapply reaches_cons; eauto.
Qed.

Definition stops (s:st) : bool := (s_index s =? len src) || s_ifull s || s_vfull s.

Lemma loop_stop f s s1 : step s = Ok s1 -> stops s1 = true ->
  fsm_loop (S f) src offs maxrow s = Ok (out_of s1).
Proof. intros Hst Hs. cbn [fsm_loop]. rewrite Hst. cbn [bind]. unfold stops in Hs. rewrite Hs. reflexivity. Qed.

Lemma reaches_loop s s_last start : reaches s s_last -> stops s_last = true -> s_index s_last <= len src ->
  start <= s_index s -> fsm_loop (fsm_fuel src start) src offs maxrow s = Ok (out_of s_last).
Proof.
  intros (n & sp & R & H) Hs Hle Hst.
  pose proof (runn_index _ _ _ _ _ _ R) as Hi. pose proof (step_index _ _ _ _ _ H) as Hsi.
  replace (fsm_fuel src start) with (n + S (Z.to_nat (len src - start) - n))%nat by (unfold fsm_fuel; lia).
  rewrite (loop_runn _ _ _ _ _ _ _ R). apply loop_stop; assumption.
Qed.

(* ---- classify at the last byte of the window --------------------------------------------- *)
Lemma cl_retry i cand ic e : i + 1 = len src ->
  classify src i ESC true cand ic e = Ok (false, false, false, true, cand, e) \/ cand = true.
Proof.
  intros H. destruct cand; [right; reflexivity|left].
  unfold classify. cbn [Z.eqb SEP NL ESC Pos.eqb negb]. rewrite H, Z.ltb_irrefl, Z.eqb_refl. reflexivity.
Qed.

Lemma cl_retry0 i ic e : i + 1 = len src ->
  classify src i ESC true false ic e = Ok (false, false, false, true, false, e).
Proof. intros H. destruct (cl_retry i false ic e H) as [E|E]; [exact E|discriminate]. Qed.

Lemma suf_last i b : 0 <= i -> suf src i = [b] -> i + 1 = len src.
Proof.
  intros Hi H. destruct (suf_cons src i b [] Hi H) as (Hlt & _ & Hs & _).
  apply suf_nil_iff in Hs; lia.
Qed.

(* ---- one (possibly partial) cell, up to the end of the window ------------------------------ *)
Section CellEnd.
Variables (e c r vfc cs ic coff cvc : Z) (inds : arr2).
Let wr := 0 <=? r.
Notation S0' := (S0 e c r vfc cs ic coff cvc inds).
Notation fits' := (fits r cs coff cvc).

(* the state at the end of the window: only a prefix of the cell text has been written *)
Definition endst (vals:list Z) (lo:Z) (t:list Z) (s:st) : Prop :=
  exists esc cand k tp tq, t = tp ++ tq /\
    s = S0' (len src) esc cand k (if wr then wrs vals lo tp else vals).

Lemma endst_app vals lo t t2 s : endst vals lo t s -> endst vals lo (t ++ t2) s.
Proof.
  intros (esc & cand & k & tp & tq & E & Hs). exists esc, cand, k, tp, (tq ++ t2).
  split; [rewrite E, app_assoc; reflexivity|exact Hs].
Qed.

Lemma endst_cons vals lo b t s :
  endst (if wr then upd vals lo b else vals) (if wr then lo + 1 else lo) t s -> endst vals lo (b :: t) s.
Proof.
  intros (esc & cand & k & tp & tq & E & Hs). exists esc, cand, k, (b :: tp), tq.
  split; [rewrite E; reflexivity|]. rewrite Hs. cbn [wrs]. destruct wr; reflexivity.
Qed.

Lemma endst_nil vals lo t esc cand k : endst vals lo t (S0' (len src) esc cand k vals).
Proof. exists esc, cand, k, [], t. split; [reflexivity|]. cbn [wrs]. destruct wr; reflexivity. Qed.

Lemma fits_app k vals a b : fits' k vals (a ++ b) -> fits' k vals a.
Proof.
  unfold fits. intros H Hw. destruct (H Hw) as (F1 & F2 & F3). rewrite len_app in *.
  pose proof (len_nonneg b). repeat split; lia.
Qed.

Lemma fits_head k vals b t : fits' k vals (b :: t) -> (0 <=? r) = true ->
  0 <= coff + cs + k < len vals /\ cs + (k + 1) < cvc.
Proof.
  unfold fits. intros H Hw. destruct (H Hw) as (F1 & F2 & F3). rewrite len_cons in *.
  pose proof (len_nonneg t). lia.
Qed.

Lemma fits_tail k vals b t : 0 <= k -> fits' k vals (b :: t) ->
  fits' (if wr then k + 1 else k) (if wr then upd vals (coff + cs + k) b else vals) t.
Proof.
  unfold fits. intros Hk H Hw. fold wr in Hw. rewrite Hw. destruct (H Hw) as (F1 & F2 & F3).
  rewrite len_cons in *. rewrite len_upd. lia.
Qed.

Lemma lo_tail k : coff + cs + (if wr then k + 1 else k) = (if wr then coff + cs + k + 1 else coff + cs + k).
Proof. destruct wr; lia. Qed.

Lemma run_plain_end bs : forall i k vals,
  0 <= i -> 0 <= k -> suf src i = bs -> bs <> [] ->
  forallb (fun b => negb (special b)) bs = true -> fits' k vals bs ->
  exists s, reaches (S0' i false false k vals) s /\ endst vals (coff + cs + k) bs s.
Proof.
  induction bs as [|b bs IH]; intros i k vals Hi Hk H Hne Hall Hfit; [contradiction|].
  cbn [forallb] in Hall. apply andb_prop in Hall. destruct Hall as (Hb & Hall). apply negb_true_iff in Hb.
  pose proof (step_inner src offs maxrow i e c r vfc false false k cs ic coff cvc inds vals b bs true false false Hi H
               (cl_plain src i b false ic e Hb)) as Hst.
  cbn [andb] in Hst. fold wr in Hst. specialize (Hst (fits_head k vals b bs Hfit)).
  destruct (suf_cons src i b bs Hi H) as (_ & _ & Hs & _).
  destruct bs as [|x bs'].
  - pose proof (suf_last i b Hi H) as Hl. rewrite Hl in Hst.
    eexists. split; [apply reaches_step; exact Hst|]. apply endst_cons. apply endst_nil.
  - destruct (IH (i + 1) (if wr then k + 1 else k) (if wr then upd vals (coff + cs + k) b else vals))
      as (s & R & He); try lia; try assumption; try discriminate.
    { destruct wr; lia. }
    { apply fits_tail; assumption. }
    exists s. split.
    + eapply reaches_cons; [exact Hst| |exact R]. eapply (noexit_S0 src maxrow); [|exact Hs]. lia.
    + apply endst_cons. rewrite lo_tail in He. exact He.
Qed.

Lemma run_qbody_end t : forall i k vals q q2,
  0 <= i -> 0 <= k -> suf src i = q -> q <> [] -> escape_quotes t ++ [ESC] = q ++ q2 -> fits' k vals t ->
  exists s, reaches (S0' i true false k vals) s /\ endst vals (coff + cs + k) t s.
Proof.
  induction t as [|b t IH]; intros i k vals q q2 Hi Hk H Hne Hq Hfit.
  - (* only the closing quote is left: it is the last byte of the window *)
    cbn [escape_quotes app] in Hq. destruct q as [|x q']; [contradiction|].
    cbn [app] in Hq. inversion Hq as [[Hx Hq']]. destruct q'; [|discriminate]. subst x.
    pose proof (suf_last i ESC Hi H) as Hl.
    pose proof (step_inner src offs maxrow i e c r vfc true false k cs ic coff cvc inds vals ESC [] false true false Hi H
                 (cl_retry0 i ic e Hl)) as Hst.
    cbn [andb] in Hst. specialize (Hst ltac:(discriminate)). rewrite Hl in Hst.
    eexists. split; [apply reaches_step; exact Hst|]. apply endst_nil.
  - cbn [escape_quotes] in Hq. destruct (b =? ESC) eqn:Eb.
    + (* a doubled quote *)
      apply Z.eqb_eq in Eb. subst b. destruct q as [|x q']; [contradiction|].
      cbn [app] in Hq. inversion Hq as [[Hx Hq']]. subst x.
      destruct q' as [|y q''].
      * (* the window ends between the two quotes *)
        pose proof (suf_last i ESC Hi H) as Hl.
        pose proof (step_inner src offs maxrow i e c r vfc true false k cs ic coff cvc inds vals ESC [] false true false Hi H
                     (cl_retry0 i ic e Hl)) as Hst.
        cbn [andb] in Hst. specialize (Hst ltac:(discriminate)). rewrite Hl in Hst.
        eexists. split; [apply reaches_step; exact Hst|]. apply endst_nil.
      * cbn [app] in Hq'. inversion Hq' as [[Hy Hq'']]. subst y.
        destruct (suf_cons src i ESC _ Hi H) as (_ & _ & Hs & _).
        destruct (suf_cons src (i + 1) ESC _ ltac:(lia) Hs) as (_ & _ & Hs2 & _).
        pose proof (step_inner src offs maxrow i e c r vfc true false k cs ic coff cvc inds vals ESC _ false true true Hi H
                     (cl_q1 src maxrow i q'' ic e Hi H)) as Hst1.
        cbn [andb] in Hst1. specialize (Hst1 ltac:(discriminate)).
        pose proof (step_inner src offs maxrow (i + 1) e c r vfc true true k cs ic coff cvc inds vals ESC _ true true false
                     ltac:(lia) Hs (cl_q2 src (i + 1) ic e)) as Hst2.
        cbn [andb] in Hst2. fold wr in Hst2. specialize (Hst2 (fits_head k vals ESC t Hfit)).
        assert (Hn1 : noexit src (S0' (i + 1) true true k vals)).
        { eapply (noexit_S0 src maxrow); [|exact Hs]. lia. }
        destruct q'' as [|z q3].
        -- (* the window ends right after the doubled quote *)
           pose proof (suf_last (i + 1) ESC ltac:(lia) Hs) as Hl. rewrite Hl in Hst2.
           eexists. split; [eapply reaches_cons; [exact Hst1|exact Hn1|apply reaches_step; exact Hst2]|].
           apply endst_cons. apply endst_nil.
        -- destruct (IH (i + 1 + 1) (if wr then k + 1 else k) (if wr then upd vals (coff + cs + k) ESC else vals) (z :: q3) q2)
             as (s & R & He); try lia; try assumption; try discriminate.
           { destruct wr; lia. }
           { apply fits_tail; assumption. }
           exists s. split.
           ++ eapply reaches_cons; [exact Hst1|exact Hn1|].
              eapply reaches_cons; [exact Hst2| |exact R]. eapply (noexit_S0 src maxrow); [|exact Hs2]. lia.
           ++ apply endst_cons. rewrite lo_tail in He. exact He.
    + (* an ordinary byte inside the quotes *)
      apply Z.eqb_neq in Eb. destruct q as [|x q']; [contradiction|].
      cbn [app] in Hq. inversion Hq as [[Hx Hq']]. subst x.
      destruct (suf_cons src i b _ Hi H) as (_ & _ & Hs & _).
      pose proof (step_inner src offs maxrow i e c r vfc true false k cs ic coff cvc inds vals b _ true true false Hi H
                   (cl_in src i b ic e Eb)) as Hst.
      cbn [andb] in Hst. fold wr in Hst. specialize (Hst (fits_head k vals b t Hfit)).
      destruct q' as [|z q3].
      * pose proof (suf_last i b Hi H) as Hl. rewrite Hl in Hst.
        eexists. split; [apply reaches_step; exact Hst|]. apply endst_cons. apply endst_nil.
      * destruct (IH (i + 1) (if wr then k + 1 else k) (if wr then upd vals (coff + cs + k) b else vals) (z :: q3) q2)
          as (s & R & He); try lia; try assumption; try discriminate.
        { destruct wr; lia. }
        { apply fits_tail; assumption. }
        exists s. split.
        -- eapply reaches_cons; [exact Hst| |exact R]. eapply (noexit_S0 src maxrow); [|exact Hs]. lia.
        -- apply endst_cons. rewrite lo_tail in He. exact He.
Qed.

End CellEnd.

End Pre.
