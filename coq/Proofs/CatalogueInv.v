(* Proofs/CatalogueInv.v — the catalogue invariant and its preservation by every operation of
   the repaired code (fix_a = fix_b = true; fix_c free). *)
From Coq Require Import ZArith List Bool Lia.
From EV Require Import Res Catalogue CatalogueBase.
Import ListNotations.
Open Scope Z_scope.

(* ------------------------------------------------------------------ invariant *)
Definition linked (s:state) (g:Z) : Prop := exists i n, In (n, g) (h5_root s i).
Definition same_map (a b:alist) : Prop := forall n, d_find a n = d_find b n.

Record df_ok (s:state) (g:Z) : Prop := mk_df_ok {
  dk_nd_py : NoDup (d_keys (py_cols s g));
  dk_nd_h5 : NoDup (d_keys (h5_grp s g));
  dk_same : same_map (py_cols s g) (h5_grp s g);
  dk_flds : forall n f, d_find (py_cols s g) n = Some f ->
              py_valid s f = true /\ (py_fdf s f = g \/ py_fdf s f = NONE) /\ 0 < f < next_id s
}.

(* part B: every frame whose group is linked in a file has the same columns in _columns and in its
   h5 group; catalogued field objects are valid, know their owner, and sit in exactly one place *)
Record InvB (s:state) : Prop := mk_InvB {
  ib_pos : 0 < next_id s;
  ib_fresh : forall x, next_id s <= x -> h5_grp s x = [];
  ib_lt : forall g, linked s g -> 0 < g < next_id s;
  ib_df : forall g, linked s g -> df_ok s g;
  ib_uniq : forall g g' n n' f, linked s g -> linked s g' ->
              d_find (py_cols s g) n = Some f -> d_find (py_cols s g') n' = Some f -> g = g' /\ n = n'
}.

(* part A: every dataset lists exactly the groups of its file root, under their own names *)
Record ds_ok (s:state) (i:Z) : Prop := mk_ds_ok {
  sk_nd_py : NoDup (d_keys (py_dfs s i));
  sk_nd_h5 : NoDup (d_keys (h5_root s i));
  sk_same : same_map (py_dfs s i) (h5_root s i);
  sk_dfs : forall n g, d_find (py_dfs s i) n = Some g -> py_name s g = n /\ py_ds s g = i
}.
Definition InvA (s:state) : Prop := forall i, ds_ok s i.
Definition Inv (s:state) : Prop := InvA s /\ InvB s.

Lemma init_Inv : Inv init_state.
Proof.
  split.
  - intros i. constructor; cbn.
    + constructor.
    + constructor.
    + intros k. reflexivity.
    + intros k g H; discriminate.
  - constructor; cbn.
    + lia.
    + reflexivity.
    + intros g [i [n []]].
    + intros g [i [n []]].
    + intros g g' n n' f [i [m []]].
Qed.

Lemma linked_ext s s' : (forall i, h5_root s' i = h5_root s i) -> forall g, linked s' g <-> linked s g.
Proof.
  intros E g. unfold linked. split; intros [i [n H]]; exists i, n; [rewrite <- E | rewrite E]; exact H.
Qed.

Lemma catalogued_linked s i n g : InvA s -> d_find (py_dfs s i) n = Some g -> linked s g.
Proof.
  intros IA H. exists i, n. apply d_find_In. rewrite <- (sk_same _ _ (IA i)). exact H.
Qed.

(* ------------------------------------------------------------------ frames of InvA / InvB *)
(* InvA only reads py_dfs, h5_root, py_name, py_ds *)
Lemma InvA_ext s s' :
  (forall i, py_dfs s' i = py_dfs s i) -> (forall i, h5_root s' i = h5_root s i) ->
  (forall g, py_name s' g = py_name s g) -> (forall g, py_ds s' g = py_ds s g) -> InvA s -> InvA s'.
Proof.
  intros E1 E2 E3 E4 IA i. destruct (IA i) as [a b c d].
  constructor.
  - rewrite E1. exact a.
  - rewrite E2. exact b.
  - intros n. rewrite E1, E2. apply c.
  - intros n g H. rewrite E1 in H. rewrite E3, E4. apply d. exact H.
Qed.

(* InvB only reads next_id, h5_root (through linked), h5_grp, py_cols, py_valid, py_fdf *)
Lemma InvB_ext s s' :
  next_id s' = next_id s -> (forall i, h5_root s' i = h5_root s i) -> (forall g, h5_grp s' g = h5_grp s g) ->
  (forall g, py_cols s' g = py_cols s g) -> (forall f, py_valid s' f = py_valid s f) ->
  (forall f, py_fdf s' f = py_fdf s f) -> InvB s -> InvB s'.
Proof.
  intros E0 E1 E2 E3 E4 E5 IB. pose proof (linked_ext s s' E1) as LE.
  constructor.
  - rewrite E0. apply (ib_pos _ IB).
  - intros x Hx. rewrite E2. apply (ib_fresh _ IB). lia.
  - intros g L. rewrite E0. apply (ib_lt _ IB). apply LE. exact L.
  - intros g L. apply LE in L. destruct (ib_df _ IB g L) as [a b c d].
    constructor.
    + rewrite E3. exact a.
    + rewrite E2. exact b.
    + intros n. rewrite E2, E3. apply c.
    + intros n f H. rewrite E3 in H. rewrite E4, E5, E0. apply (d n f). exact H.
  - intros g g' n n' f L L' H H'. rewrite E3 in H, H'. apply LE in L. apply LE in L'.
    eapply (ib_uniq _ IB); eassumption.
Qed.

(* ------------------------------------------------------------------ df_create_field *)
Definition created (c:cfg) (s:state) (g:Z) (n:name) (t:Z) : state :=
  let f := next_id s in
  let s1 := set_next (tset s (TGrp g) (tget s (TGrp g) ++ [(n, f)])) (f + 1) in
  let s2 := set_fld_data (set_fld_type s1 (fupd (fld_type s1) f t)) (fupd (fld_data s1) f []) in
  let s3 := set_py_fdf (set_py_valid s2 (fupd (py_valid s2) f true))
                       (fupd (py_fdf s2) f (if (t =? T_INDEXED) && negb (fix_c c) then NONE else g)) in
  set_py_cols s3 (fupd (py_cols s3) g (d_set (py_cols s3 g) n f)).

Lemma df_create_field_run c g n t s :
  df_create_field c g n t s =
    if d_mem (py_cols s g) n then (s, Raise E_ValueError)
    else if d_mem (h5_grp s g) n then (s, Raise E_ValueError)
    else (created c s g n t, Ok (next_id s)).
Proof.
  unfold df_create_field, bindM, mget. destruct (d_mem (py_cols s g) n) eqn:E1; [reflexivity|].
  unfold h5_create. cbn [tget]. destruct (d_mem (h5_grp s g) n) eqn:E2; [reflexivity|].
  reflexivity.
Qed.

Lemma created_frame c s g n t :
  let s' := created c s g n t in
  (forall i, py_dfs s' i = py_dfs s i) /\ (forall i, h5_root s' i = h5_root s i) /\
  (forall x, py_name s' x = py_name s x) /\ (forall x, py_ds s' x = py_ds s x) /\
  next_id s' = next_id s + 1 /\
  (forall x, x <> g -> py_cols s' x = py_cols s x /\ h5_grp s' x = h5_grp s x) /\
  py_cols s' g = d_set (py_cols s g) n (next_id s) /\ h5_grp s' g = h5_grp s g ++ [(n, next_id s)] /\
  (forall f, f <> next_id s -> py_valid s' f = py_valid s f /\ py_fdf s' f = py_fdf s f /\
                               fld_type s' f = fld_type s f /\ fld_data s' f = fld_data s f) /\
  py_valid s' (next_id s) = true /\ (py_fdf s' (next_id s) = g \/ py_fdf s' (next_id s) = NONE) /\
  fld_type s' (next_id s) = t /\ fld_data s' (next_id s) = [].
Proof.
  cbn. repeat split; intros; try reflexivity; rewrite ?fupd_same, ?fupd_other by assumption; try reflexivity.
  destruct ((t =? T_INDEXED) && negb (fix_c c)); auto.
Qed.

Lemma created_InvB c s g n t :
  InvB s -> linked s g -> d_find (py_cols s g) n = None -> InvB (created c s g n t).
Proof.
  intros IB L Hn.
  pose proof (ib_lt _ IB g L) as Hg. pose proof (ib_df _ IB g L) as DG.
  assert (Hh : d_find (h5_grp s g) n = None) by (rewrite <- (dk_same _ _ DG); exact Hn).
  destruct (created_frame c s g n t) as (F1 & F2 & F3 & F4 & F5 & F6 & F7 & F8 & F9 & F10 & F11 & _).
  set (s' := created c s g n t) in *.
  pose proof (linked_ext s s' F2) as LE.
  assert (OLD : forall g0 m f, linked s g0 -> d_find (py_cols s g0) m = Some f -> f <> next_id s).
  { intros g0 m f L0 H. destruct (dk_flds _ _ (ib_df _ IB g0 L0) m f H) as (_ & _ & ?). lia. }
  constructor.
  - rewrite F5. pose proof (ib_pos _ IB). lia.
  - intros x Hx. rewrite F5 in Hx. destruct (F6 x ltac:(lia)) as [_ ->]. apply (ib_fresh _ IB). lia.
  - intros g0 L0. apply LE in L0. rewrite F5. pose proof (ib_lt _ IB g0 L0). lia.
  - intros g0 L0. apply LE in L0. destruct (Z.eq_dec g0 g) as [->|NE].
    + constructor.
      * rewrite F7, d_set_new by exact Hn. apply app1_NoDup; [apply (dk_nd_py _ _ DG) | exact Hn].
      * rewrite F8. apply app1_NoDup; [apply (dk_nd_h5 _ _ DG) | exact Hh].
      * intros k. rewrite F7, F8, d_set_new by exact Hn. rewrite !d_find_app1, (dk_same _ _ DG k). reflexivity.
      * intros k f H. rewrite F7, d_find_set in H. rewrite F5.
        destruct (name_eqb k n) eqn:E.
        -- inversion H; subst f. split; [exact F10 | split; [exact F11 | lia]].
        -- pose proof (OLD g k f L H) as NEf. destruct (F9 f NEf) as (-> & -> & _).
           destruct (dk_flds _ _ DG k f H) as (? & ? & ?). repeat split; auto; lia.
    + destruct (F6 g0 NE) as [Ec Eh]. pose proof (ib_df _ IB g0 L0) as D0. constructor.
      * rewrite Ec. apply (dk_nd_py _ _ D0).
      * rewrite Eh. apply (dk_nd_h5 _ _ D0).
      * intros k. rewrite Ec, Eh. apply (dk_same _ _ D0).
      * intros k f H. rewrite Ec in H. rewrite F5. pose proof (OLD g0 k f L0 H) as NEf.
        destruct (F9 f NEf) as (-> & -> & _). destruct (dk_flds _ _ D0 k f H) as (? & ? & ?). repeat split; auto; lia.
  - intros g1 g2 n1 n2 f L1 L2 H1 H2. apply LE in L1. apply LE in L2.
    assert (P : forall g0 m, linked s g0 -> d_find (py_cols s' g0) m = Some f ->
                 (g0 = g /\ m = n /\ f = next_id s) \/ (d_find (py_cols s g0) m = Some f /\ f <> next_id s)).
    { intros g0 m L0 H. destruct (Z.eq_dec g0 g) as [->|NE].
      - rewrite F7, d_find_set in H. destruct (name_eqb m n) eqn:E.
        + apply name_eqb_spec in E. inversion H. left. auto.
        + right. split; [exact H | eapply OLD; eassumption].
      - destruct (F6 g0 NE) as [Ec _]. rewrite Ec in H. right. split; [exact H | eapply OLD; eassumption]. }
    destruct (P g1 n1 L1 H1) as [(-> & -> & E1)|[O1 N1]]; destruct (P g2 n2 L2 H2) as [(-> & -> & E2)|[O2 N2]].
    + auto.
    + congruence.
    + congruence.
    + eapply (ib_uniq _ IB); eassumption.
Qed.

(* ------------------------------------------------------------------ relational frame lemmas for InvB *)
(* same frames linked, some state components equal *)
Lemma InvB_ext' s s' :
  next_id s' = next_id s -> (forall g, linked s' g -> linked s g) -> (forall g, h5_grp s' g = h5_grp s g) ->
  (forall g, py_cols s' g = py_cols s g) -> (forall f, py_valid s' f = py_valid s f) ->
  (forall f, py_fdf s' f = py_fdf s f) -> InvB s -> InvB s'.
Proof.
  intros E0 LE E2 E3 E4 E5 IB.
  constructor.
  - rewrite E0. apply (ib_pos _ IB).
  - intros x Hx. rewrite E2. apply (ib_fresh _ IB). lia.
  - intros g L. rewrite E0. apply (ib_lt _ IB). apply LE. exact L.
  - intros g L. apply LE in L. destruct (ib_df _ IB g L) as [a b c d].
    constructor.
    + rewrite E3. exact a.
    + rewrite E2. exact b.
    + intros n. rewrite E2, E3. apply c.
    + intros n f H. rewrite E3 in H. rewrite E4, E5, E0. apply (d n f). exact H.
  - intros g g' n n' f L L' H H'. rewrite E3 in H, H'. apply LE in L. apply LE in L'.
    eapply (ib_uniq _ IB); eassumption.
Qed.

(* the columns of one linked frame are replaced by a renaming / subset of themselves *)
Lemma recol_InvB s s' g :
  InvB s -> linked s g ->
  next_id s' = next_id s -> (forall i, h5_root s' i = h5_root s i) ->
  (forall x, x <> g -> h5_grp s' x = h5_grp s x /\ py_cols s' x = py_cols s x) ->
  (forall f, py_valid s' f = py_valid s f) -> (forall f, py_fdf s' f = py_fdf s f) ->
  NoDup (d_keys (py_cols s' g)) -> NoDup (d_keys (h5_grp s' g)) -> same_map (py_cols s' g) (h5_grp s' g) ->
  (forall m f, d_find (py_cols s' g) m = Some f -> exists m0, d_find (py_cols s g) m0 = Some f) ->
  (forall m m' f, d_find (py_cols s' g) m = Some f -> d_find (py_cols s' g) m' = Some f -> m = m') ->
  InvB s'.
Proof.
  intros IB L E0 E1 EX E4 E5 ND1 ND2 SM SUB INJ.
  pose proof (linked_ext s s' E1) as LE.
  pose proof (ib_lt _ IB g L) as Hg.
  constructor.
  - rewrite E0. apply (ib_pos _ IB).
  - intros x Hx. destruct (EX x ltac:(lia)) as [-> _]. apply (ib_fresh _ IB). lia.
  - intros g0 L0. rewrite E0. apply (ib_lt _ IB). apply LE. exact L0.
  - intros g0 L0. apply LE in L0. destruct (Z.eq_dec g0 g) as [->|NE].
    + constructor; auto.
      intros m f H. destruct (SUB m f H) as [m0 H0]. rewrite E4, E5, E0.
      apply (dk_flds _ _ (ib_df _ IB g L) m0 f H0).
    + destruct (EX g0 NE) as [Eh Ec]. destruct (ib_df _ IB g0 L0) as [a b c d]. constructor.
      * rewrite Ec. exact a.
      * rewrite Eh. exact b.
      * intros n. rewrite Ec, Eh. apply c.
      * intros n f H. rewrite Ec in H. rewrite E4, E5, E0. apply (d n f H).
  - intros g1 g2 n1 n2 f L1 L2 H1 H2. apply LE in L1. apply LE in L2.
    destruct (Z.eq_dec g1 g) as [->|NE1]; destruct (Z.eq_dec g2 g) as [->|NE2].
    + split; [reflexivity | eapply INJ; eassumption].
    + exfalso. destruct (SUB n1 f H1) as [m0 H0]. destruct (EX g2 NE2) as [_ Ec]. rewrite Ec in H2.
      destruct (ib_uniq _ IB g g2 m0 n2 f L L2 H0 H2) as [E _]. congruence.
    + exfalso. destruct (SUB n2 f H2) as [m0 H0]. destruct (EX g1 NE1) as [_ Ec]. rewrite Ec in H1.
      destruct (ib_uniq _ IB g1 g n1 m0 f L1 L H1 H0) as [E _]. congruence.
    + destruct (EX g1 NE1) as [_ Ec1]. destruct (EX g2 NE2) as [_ Ec2]. rewrite Ec1 in H1. rewrite Ec2 in H2.
      eapply (ib_uniq _ IB); eassumption.
Qed.

(* ------------------------------------------------------------------ Hoare triples with Inv as exceptional postcondition *)
Definition hoare {A} (P:state -> Prop) (m:M A) (Q:A -> state -> Prop) : Prop :=
  forall s s' r, P s -> m s = (s', r) -> match r with Ok a => Q a s' | _ => Inv s' end.

Lemma hoare_bind {A B} (P:state -> Prop) (m:M A) (Q:A -> state -> Prop) (f:A -> M B) (R:B -> state -> Prop) :
  hoare P m Q -> (forall a, hoare (Q a) (f a) R) -> hoare P (bindM m f) R.
Proof.
  intros H1 H2 s s' r HP E. unfold bindM in E. destruct (m s) as [s1 r1] eqn:Em.
  specialize (H1 s s1 r1 HP Em). destruct r1 as [a|x|c|].
  - eapply H2; eassumption.
  - inversion E; subst. exact H1.
  - inversion E; subst. exact H1.
  - inversion E; subst. exact H1.
Qed.

Lemma hoare_weaken {A} (P P':state -> Prop) (m:M A) (Q Q':A -> state -> Prop) :
  hoare P m Q -> (forall s, P' s -> P s) -> (forall a s, Q a s -> Q' a s) -> hoare P' m Q'.
Proof.
  intros H HP HQ s s' r HP' E. specialize (H s s' r (HP _ HP') E). destruct r; auto.
Qed.

Lemma hoare_ret {A} (P:state -> Prop) (a:A) : hoare P (ret a) (fun x s => x = a /\ P s).
Proof. intros s s' r HP E. inversion E; subst. auto. Qed.

Lemma hoare_raise {A} (P:state -> Prop) c (Q:A -> state -> Prop) : (forall s, P s -> Inv s) -> hoare P (raise c) Q.
Proof. intros HI s s' r HP E. inversion E; subst. auto. Qed.

Lemma hoare_mget (P:state -> Prop) : hoare P mget (fun x s => x = s /\ P s).
Proof. intros s s' r HP E. inversion E; subst. auto. Qed.

(* the whole computation keeps Inv whatever its outcome *)
Definition keeps {A} (P:state -> Prop) (m:M A) : Prop := forall s s' r, P s -> m s = (s', r) -> Inv s'.

Lemma hoare_keeps {A} (P:state -> Prop) (m:M A) (Q:A -> state -> Prop) :
  hoare P m Q -> (forall a s, Q a s -> Inv s) -> keeps P m.
Proof. intros H HQ s s' r HP E. specialize (H s s' r HP E). destruct r; eauto. Qed.

Lemma keeps_hoare {A} (P:state -> Prop) (m:M A) : keeps P m -> hoare P m (fun _ s => Inv s).
Proof. intros H s s' r HP E. specialize (H s s' r HP E). destruct r; auto. Qed.

(* lookups *)
Lemma ds_getitem_hoare (P:state -> Prop) i n :
  (forall s, P s -> Inv s) ->
  hoare P (ds_getitem i n) (fun g s => P s /\ d_find (py_dfs s i) n = Some g).
Proof.
  intros HI s s' r HP E. unfold ds_getitem in E. destruct (d_find (py_dfs s i) n) eqn:F; inversion E; subst; auto.
Qed.

Lemma df_getitem_hoare (P:state -> Prop) g n :
  (forall s, P s -> Inv s) ->
  hoare P (df_getitem g n) (fun f s => P s /\ d_find (py_cols s g) n = Some f).
Proof.
  intros HI s s' r HP E. unfold df_getitem in E. destruct (d_find (py_cols s g) n) eqn:F; inversion E; subst; auto.
Qed.

(* ------------------------------------------------------------------ field_write, copy_field_into *)
Definition wrote (s:state) (f:Z) (dat:list Z) : state :=
  set_fld_data s (fupd (fld_data s) f (fld_data s f ++ dat)).

Lemma field_write_run f dat s : field_write f dat s = (wrote s f dat, Ok tt).
Proof. reflexivity. Qed.

Lemma wrote_Inv s f dat : Inv s -> Inv (wrote s f dat).
Proof.
  intros [IA IB]. split.
  - eapply InvA_ext; [| | | |exact IA]; reflexivity.
  - eapply InvB_ext; [| | | | | |exact IB]; reflexivity.
Qed.

Lemma created_Inv c s g n t :
  Inv s -> linked s g -> d_find (py_cols s g) n = None -> Inv (created c s g n t).
Proof.
  intros [IA IB] L Hn. split.
  - destruct (created_frame c s g n t) as (F1 & F2 & F3 & F4 & _). eapply InvA_ext; eassumption.
  - apply created_InvB; assumption.
Qed.

Definition copied (c:cfg) (s:state) (f g:Z) (n:name) : state :=
  let s1 := created c s g n (fld_type s f) in wrote s1 (next_id s) (fld_data s1 f).

Lemma created_valid c s g n t f : py_valid s f = true -> py_valid (created c s g n t) f = true.
Proof. intros H. cbn. unfold fupd. destruct (f =? next_id s); [reflexivity | exact H]. Qed.

Lemma copy_field_into_run c f g n s :
  copy_field_into c f g n s =
    if py_valid s f then
      if d_mem (py_cols s g) n then (s, Raise E_ValueError)
      else if d_mem (h5_grp s g) n then (s, Raise E_ValueError)
      else (copied c s f g n, Ok (next_id s))
    else (s, Raise E_ValueError).
Proof.
  unfold copy_field_into. unfold bindM at 1. unfold field_ensure_valid at 1.
  destruct (py_valid s f) eqn:V; [|reflexivity].
  unfold bindM at 1. unfold mget at 1. unfold bindM at 1. rewrite df_create_field_run.
  destruct (d_mem (py_cols s g) n); [reflexivity|]. destruct (d_mem (h5_grp s g) n); [reflexivity|].
  unfold bindM at 1. unfold field_ensure_valid. rewrite (created_valid c s g n (fld_type s f) f V).
  reflexivity.
Qed.

Lemma copied_frame c s f g n :
  let s' := copied c s f g n in
  (forall i, py_dfs s' i = py_dfs s i) /\ (forall i, h5_root s' i = h5_root s i) /\
  (forall x, py_name s' x = py_name s x) /\ (forall x, py_ds s' x = py_ds s x) /\
  next_id s' = next_id s + 1 /\
  (forall x, x <> g -> py_cols s' x = py_cols s x /\ h5_grp s' x = h5_grp s x) /\
  py_cols s' g = d_set (py_cols s g) n (next_id s) /\ h5_grp s' g = h5_grp s g ++ [(n, next_id s)] /\
  (forall x, x <> next_id s -> py_valid s' x = py_valid s x /\ py_fdf s' x = py_fdf s x /\
                               fld_type s' x = fld_type s x /\ fld_data s' x = fld_data s x) /\
  py_valid s' (next_id s) = true /\
  fld_type s' (next_id s) = fld_type s f /\ (f <> next_id s -> fld_data s' (next_id s) = fld_data s f).
Proof.
  cbn. repeat split; intros; try reflexivity; rewrite ?fupd_same, ?fupd_other by assumption; try reflexivity.
Qed.

Lemma copied_Inv c s f g n :
  Inv s -> linked s g -> d_find (py_cols s g) n = None -> Inv (copied c s f g n).
Proof. intros. unfold copied. apply wrote_Inv. apply created_Inv; assumption. Qed.

(* a successful or failed copy_field_into into a linked frame keeps Inv *)
Lemma copy_field_into_keeps c f g n s s' r :
  Inv s -> linked s g -> copy_field_into c f g n s = (s', r) ->
  Inv s' /\ (forall nf, r = Ok nf -> s' = copied c s f g n /\ nf = next_id s /\ d_find (py_cols s g) n = None
                                    /\ py_valid s f = true)
         /\ (is_ok r = false -> s' = s).
Proof.
  intros I L E. rewrite copy_field_into_run in E.
  destruct (py_valid s f) eqn:V; [|inversion E; subst; split; [assumption | split; [intros ? X; discriminate X | intros _; reflexivity]]].
  destruct (d_mem (py_cols s g) n) eqn:M1; [inversion E; subst; split; [assumption | split; [intros ? X; discriminate X | intros _; reflexivity]]|].
  destruct (d_mem (h5_grp s g) n) eqn:M2; [inversion E; subst; split; [assumption | split; [intros ? X; discriminate X | intros _; reflexivity]]|].
  inversion E; subst. apply d_mem_false in M1. split; [apply copied_Inv; assumption|]. split.
  - intros nf H. inversion H; subst. auto.
  - cbn. discriminate.
Qed.

(* ------------------------------------------------------------------ frame-level operations *)
Lemma same_map_mem a b n : same_map a b -> d_mem a n = d_mem b n.
Proof. intros H. unfold d_mem. rewrite (H n). reflexivity. Qed.

Lemma cols_set_noop_Inv s g n f :
  Inv s -> d_find (py_cols s g) n = Some f ->
  Inv (set_py_cols s (fupd (py_cols s) g (d_set (py_cols s g) n f))).
Proof.
  intros [IA IB] H.
  assert (E : forall x, fupd (py_cols s) g (d_set (py_cols s g) n f) x = py_cols s x).
  { intros x. unfold fupd. destruct (x =? g) eqn:Ex; [|reflexivity]. apply Z.eqb_eq in Ex. subst.
    apply d_set_same. exact H. }
  split.
  - eapply InvA_ext; [| | | |exact IA]; reflexivity.
  - eapply InvB_ext; [| | | | | |exact IB]; try reflexivity. exact E.
Qed.

Lemma field_name_pure f s s' r : field_name f s = (s', r) -> s' = s.
Proof.
  unfold field_name, bindM, field_ensure_valid. destruct (py_valid s f).
  - destruct (h5_fld_path s f) as [[[? ?] ?]|]; intros H; inversion H; reflexivity.
  - intros H; inversion H; reflexivity.
Qed.

Lemma field_dataframe_pure f s s' r : field_dataframe f s = (s', r) -> s' = s.
Proof.
  unfold field_dataframe, bindM, field_ensure_valid. destruct (py_valid s f); intros H; inversion H; reflexivity.
Qed.

Lemma copied_find c s f g n : d_find (py_cols (copied c s f g n) g) n = Some (next_id s).
Proof.
  destruct (copied_frame c s f g n) as (_ & _ & _ & _ & _ & _ & F7 & _). rewrite F7, d_find_set, name_eqb_refl. reflexivity.
Qed.

Lemma df_setitem_keeps c g n f s s' r :
  Inv s -> linked s g -> df_setitem c g n f s = (s', r) -> Inv s'.
Proof.
  intros I L E. unfold df_setitem, bindM in E.
  destruct (copy_field_into c f g n s) as [s1 r1] eqn:E1.
  destruct (copy_field_into_keeps c f g n s s1 r1 I L E1) as (I1 & HOk & _).
  destruct r1 as [nf|x|e|]; try (inversion E; subst; exact I1).
  destruct (HOk nf eq_refl) as (-> & -> & _). unfold cols_set, modify in E. inversion E; subst.
  apply cols_set_noop_Inv; [exact I1 | apply copied_find].
Qed.

Lemma df_add_keeps c g f s s' r :
  Inv s -> linked s g -> df_add c g f s = (s', r) -> Inv s'.
Proof.
  intros I L E. unfold df_add in E. unfold bindM at 1 in E.
  destruct (field_name f s) as [s0 r0] eqn:E0. apply field_name_pure in E0 as ->.
  destruct r0 as [dn|x|e|]; try (inversion E; subst; exact I).
  eapply (df_setitem_keeps c g dn f); eassumption.
Qed.

Lemma edf_copy_keeps c f g n s s' r :
  Inv s -> linked s g -> edf_copy c f g n s = (s', r) ->
  Inv s' /\ (forall x, r = Ok x -> s' = copied c s f g n /\ d_find (py_cols s g) n = None /\ py_valid s f = true)
         /\ (is_ok r = false -> Inv s' /\ (s' = s \/ s' = copied c s f g n)).
Proof.
  intros I L E. unfold edf_copy, bindM in E.
  destruct (copy_field_into c f g n s) as [s1 r1] eqn:E1.
  destruct (copy_field_into_keeps c f g n s s1 r1 I L E1) as (I1 & HOk & HF).
  destruct r1 as [nf|x|e|].
  - destruct (HOk nf eq_refl) as (-> & -> & Hn & V). unfold df_getitem in E.
    rewrite copied_find in E. inversion E; subst. split; [exact I1|]. split; [intros; auto|cbn; discriminate].
  - inversion E; subst. split; [exact I1|]. split; [intros ? X; discriminate X|]. intros _. split; [exact I1|left; apply HF; reflexivity].
  - inversion E; subst. split; [exact I1|]. split; [intros ? X; discriminate X|]. intros _. split; [exact I1|left; apply HF; reflexivity].
  - inversion E; subst. split; [exact I1|]. split; [intros ? X; discriminate X|]. intros _. split; [exact I1|left; apply HF; reflexivity].
Qed.

(* deleting a column from both sides *)
Lemma del_state_Inv s s' g n :
  Inv s -> linked s g ->
  next_id s' = next_id s -> (forall i, h5_root s' i = h5_root s i) -> (forall i, py_dfs s' i = py_dfs s i) ->
  (forall x, py_name s' x = py_name s x) -> (forall x, py_ds s' x = py_ds s x) ->
  (forall x, x <> g -> h5_grp s' x = h5_grp s x /\ py_cols s' x = py_cols s x) ->
  (forall f, py_valid s' f = py_valid s f) -> (forall f, py_fdf s' f = py_fdf s f) ->
  h5_grp s' g = d_del (h5_grp s g) n -> py_cols s' g = d_del (py_cols s g) n ->
  Inv s'.
Proof.
  intros [IA IB] L E0 E1 E2 E3 E4 EX E5 E6 Eh Ec.
  pose proof (ib_df _ IB g L) as DG.
  split; [eapply InvA_ext; eassumption|].
  eapply (recol_InvB s s' g); try eassumption.
  - rewrite Ec. apply d_del_NoDup. apply (dk_nd_py _ _ DG).
  - rewrite Eh. apply d_del_NoDup. apply (dk_nd_h5 _ _ DG).
  - intros k. rewrite Ec, Eh. rewrite !d_find_del by (apply DG). rewrite (dk_same _ _ DG k). reflexivity.
  - intros m f H. rewrite Ec in H. rewrite d_find_del in H by apply DG. destruct (name_eqb m n); [discriminate|]. eauto.
  - intros m m' f H H'. rewrite Ec in H, H'. rewrite d_find_del in H, H' by apply DG.
    destruct (name_eqb m n); [discriminate|]. destruct (name_eqb m' n); [discriminate|].
    apply (ib_uniq _ IB g g m m' f L L H H').
Qed.

Lemma df_delitem_keeps g n s s' r :
  Inv s -> linked s g -> df_delitem g n s = (s', r) -> Inv s'.
Proof.
  intros I L E. pose proof (ib_df _ (proj2 I) g L) as DG.
  unfold df_delitem in E. unfold bindM at 1 in E. unfold mget in E.
  destruct (d_mem (py_cols s g) n) eqn:M; cbn [negb] in E; [|inversion E; subst; exact I].
  unfold bindM, h5_del in E. cbn [tget] in E. rewrite <- (same_map_mem _ _ n (dk_same _ _ DG)), M in E.
  unfold cols_del, modify in E. inversion E; subst.
  eapply (del_state_Inv s _ g n I L); cbn; intros; rewrite ?fupd_same, ?fupd_other by assumption; auto.
Qed.

Lemma df_drop_run g n s :
  df_drop g n s =
    if negb (d_mem (py_cols s g) n) then (s, Raise E_KeyError)
    else let s1 := set_py_cols s (fupd (py_cols s) g (d_del (py_cols s g) n)) in
         if d_mem (h5_grp s g) n then (tset s1 (TGrp g) (d_del (h5_grp s g) n), Ok tt)
         else (s1, Raise E_KeyError).
Proof.
  unfold df_drop, bindM, mget. destruct (d_mem (py_cols s g) n); cbn [negb]; [|reflexivity].
  unfold cols_del, modify, h5_del. cbn [tget h5_grp set_py_cols].
  destruct (d_mem (h5_grp s g) n); reflexivity.
Qed.

Lemma df_drop_keeps g n s s' r :
  Inv s -> linked s g -> df_drop g n s = (s', r) -> Inv s'.
Proof.
  intros I L E. pose proof (ib_df _ (proj2 I) g L) as DG.
  rewrite df_drop_run in E.
  destruct (d_mem (py_cols s g) n) eqn:M; cbn [negb] in E; [|inversion E; subst; exact I].
  cbv zeta in E. rewrite <- (same_map_mem _ _ n (dk_same _ _ DG)), M in E. inversion E; subst.
  eapply (del_state_Inv s _ g n I L); cbn; intros; rewrite ?fupd_same, ?fupd_other by assumption; auto.
Qed.

Lemma df_delete_field_keeps g f s s' r :
  Inv s -> linked s g -> df_delete_field g f s = (s', r) -> Inv s'.
Proof.
  intros I L E. unfold df_delete_field in E. unfold bindM at 1 in E.
  destruct (field_dataframe f s) as [s0 r0] eqn:E0. apply field_dataframe_pure in E0 as ->.
  destruct r0 as [fd|x|e|]; try (inversion E; subst; exact I).
  destruct (negb (fd =? g)); [inversion E; subst; exact I|].
  unfold bindM at 1 in E. destruct (field_name f s) as [s0 r0] eqn:E0. apply field_name_pure in E0 as ->.
  destruct r0 as [nm|x|e|]; try (inversion E; subst; exact I).
  eapply df_delitem_keeps; eassumption.
Qed.

(* ------------------------------------------------------------------ dataset-level: creating a frame *)
(* ds.create_dataframe up to (not including) `self._dataframes[name] = _dataframe` and the field copies *)
Definition mkdf1 (s:state) (i:Z) (n:name) : state :=
  let g := next_id s in
  let s1 := set_next (tset s (TRoot i) (tget s (TRoot i) ++ [(n, g)])) (g + 1) in
  set_py_cols (set_py_ds (set_py_name s1 (fupd (py_name s1) g n)) (fupd (py_ds s1) g i)) (fupd (py_cols s1) g []).
Definition close_df (s:state) (i:Z) (n:name) (g:Z) : state :=
  set_py_dfs s (fupd (py_dfs s) i (d_set (py_dfs s i) n g)).

Lemma ds_create_dataframe_run c i n src s :
  ds_create_dataframe c i n src s =
    if d_mem (h5_root s i) n then (s, Raise E_ValueError)
    else let g := next_id s in
         let s2 := mkdf1 s i n in
         match src with
         | None => (close_df s2 i n g, Ok g)
         | Some sg => match copy_all c (py_cols s2 sg) g s2 with
                      | (s3, Ok _) => (close_df s3 i n g, Ok g)
                      | (s3, OOB x) => (s3, OOB x)
                      | (s3, Raise e) => (s3, Raise e)
                      | (s3, OutOfFuel) => (s3, OutOfFuel)
                      end
         end.
Proof.
  unfold ds_create_dataframe. unfold bindM at 1. unfold h5_create. cbn [tget].
  destruct (d_mem (h5_root s i) n); [reflexivity|].
  unfold bindM at 1. unfold modify at 1. cbv zeta.
  destruct src as [sg|].
  - unfold bindM at 1. unfold bindM at 1. unfold mget at 1.
    change (set_py_cols _ _) with (mkdf1 s i n).
    destruct (copy_all c (py_cols (mkdf1 s i n) sg) (next_id s) (mkdf1 s i n)) as [s3 [u|x|e|]]; reflexivity.
  - reflexivity.
Qed.

Definition PendA (s:state) (i:Z) (n:name) (g:Z) : Prop :=
  (forall j, j <> i -> ds_ok s j) /\ NoDup (d_keys (py_dfs s i)) /\ NoDup (d_keys (h5_root s i)) /\
  d_find (py_dfs s i) n = None /\
  (forall k, d_find (h5_root s i) k = if name_eqb k n then Some g else d_find (py_dfs s i) k) /\
  (forall k x, d_find (py_dfs s i) k = Some x -> py_name s x = k /\ py_ds s x = i) /\
  py_name s g = n /\ py_ds s g = i.

Lemma ds_ok_ext s s' j :
  py_dfs s' j = py_dfs s j -> h5_root s' j = h5_root s j ->
  (forall g, py_name s' g = py_name s g) -> (forall g, py_ds s' g = py_ds s g) -> ds_ok s j -> ds_ok s' j.
Proof.
  intros E1 E2 E3 E4 [a b c d]. constructor.
  - rewrite E1. exact a.
  - rewrite E2. exact b.
  - intros n. rewrite E1, E2. apply c.
  - intros n g H. rewrite E1 in H. rewrite E3, E4. apply d. exact H.
Qed.

Lemma PendA_ext s s' i n g :
  (forall j, py_dfs s' j = py_dfs s j) -> (forall j, h5_root s' j = h5_root s j) ->
  (forall x, py_name s' x = py_name s x) -> (forall x, py_ds s' x = py_ds s x) -> PendA s i n g -> PendA s' i n g.
Proof.
  intros E1 E2 E3 E4 (P1 & P2 & P3 & P4 & P5 & P6 & P7 & P8).
  unfold PendA. refine (conj _ (conj _ (conj _ (conj _ (conj _ (conj _ (conj _ _))))))).
  - intros j0 Hj. eapply ds_ok_ext; eauto.
  - rewrite E1. exact P2.
  - rewrite E2. exact P3.
  - rewrite E1. exact P4.
  - intros k. rewrite E2, E1. apply P5.
  - intros k x H. rewrite E1 in H. rewrite E3, E4. apply (P6 k x H).
  - rewrite E3. exact P7.
  - rewrite E4. exact P8.
Qed.

Lemma close_InvA s i n g : PendA s i n g -> InvA (close_df s i n g).
Proof.
  intros (P1 & P2 & P3 & P4 & P5 & P6 & P7 & P8) j.
  destruct (Z.eq_dec j i) as [->|NE].
  - constructor; cbn; rewrite ?fupd_same.
    + rewrite d_set_new by exact P4. apply app1_NoDup; assumption.
    + exact P3.
    + intros k. rewrite d_find_set. rewrite P5. reflexivity.
    + intros k x H. rewrite d_find_set in H. destruct (name_eqb k n) eqn:E.
      * apply name_eqb_spec in E. inversion H; subst. auto.
      * apply P6. exact H.
  - eapply ds_ok_ext; [| | | |apply (P1 j NE)]; cbn; rewrite ?fupd_other by assumption; reflexivity.
Qed.

Lemma mkdf1_frame s i n :
  let s' := mkdf1 s i n in let g := next_id s in
  next_id s' = g + 1 /\ h5_root s' i = h5_root s i ++ [(n, g)] /\
  (forall j, j <> i -> h5_root s' j = h5_root s j) /\ (forall j, py_dfs s' j = py_dfs s j) /\
  py_name s' g = n /\ py_ds s' g = i /\ py_cols s' g = [] /\
  (forall x, x <> g -> py_name s' x = py_name s x /\ py_ds s' x = py_ds s x /\ py_cols s' x = py_cols s x) /\
  (forall x, h5_grp s' x = h5_grp s x) /\ (forall f, py_valid s' f = py_valid s f) /\
  (forall f, py_fdf s' f = py_fdf s f) /\ (forall f, fld_type s' f = fld_type s f) /\ (forall f, fld_data s' f = fld_data s f).
Proof.
  cbn. repeat split; intros; rewrite ?fupd_same, ?fupd_other by assumption; reflexivity.
Qed.

Lemma mkdf1_linked s i n x : linked (mkdf1 s i n) x <-> linked s x \/ x = next_id s.
Proof.
  destruct (mkdf1_frame s i n) as (_ & F2 & F3 & _). unfold linked. split.
  - intros (j & m & H). destruct (Z.eq_dec j i) as [->|NE].
    + rewrite F2 in H. apply in_app_iff in H. destruct H as [H|[H|[]]]; [left; eauto | inversion H; auto].
    + rewrite F3 in H by exact NE. left; eauto.
  - intros [(j & m & H)| ->].
    + destruct (Z.eq_dec j i) as [->|NE]; [exists i, m; rewrite F2; apply in_app_iff; auto | exists j, m; rewrite F3 by exact NE; exact H].
    + exists i, n. rewrite F2. apply in_app_iff. right. left. reflexivity.
Qed.

Lemma mkdf1_InvB s i n : InvB s -> InvB (mkdf1 s i n).
Proof.
  intros IB. destruct (mkdf1_frame s i n) as (F1 & F2 & F3 & F4 & F5 & F6 & F7 & F8 & F9 & F10 & F11 & _).
  pose proof (mkdf1_linked s i n) as LK. pose proof (ib_pos _ IB) as POS.
  set (s' := mkdf1 s i n) in *. set (g := next_id s) in *.
  assert (OLD : forall x, linked s x -> x <> g) by (intros x L; pose proof (ib_lt _ IB x L); unfold g; lia).
  assert (NEW : forall k f, d_find (py_cols s' g) k = Some f -> False) by (intros k f H; rewrite F7 in H; discriminate).
  constructor.
  - rewrite F1. lia.
  - intros x Hx. rewrite F9. apply (ib_fresh _ IB). fold g. lia.
  - intros x L. apply LK in L. rewrite F1. destruct L as [L| ->]; [pose proof (ib_lt _ IB x L); fold g; lia | lia].
  - intros x L. apply LK in L. destruct L as [L| ->].
    + destruct (F8 x (OLD x L)) as (_ & _ & Ec). destruct (ib_df _ IB x L) as [a b c d]. constructor.
      * rewrite Ec. exact a.
      * rewrite F9. exact b.
      * intros k. rewrite Ec, F9. apply c.
      * intros k f H. rewrite Ec in H. rewrite F10, F11, F1. destruct (d k f H) as (? & ? & ?). fold g. repeat split; auto; lia.
    + constructor.
      * rewrite F7. constructor.
      * rewrite F9, (ib_fresh _ IB g) by (unfold g; lia). constructor.
      * intros k. rewrite F7, F9, (ib_fresh _ IB g) by (unfold g; lia). reflexivity.
      * intros k f H. exfalso. eapply NEW; eassumption.
  - intros g1 g2 n1 n2 f L1 L2 H1 H2. apply LK in L1. apply LK in L2.
    destruct L1 as [L1| ->]; [|exfalso; eapply NEW; eassumption].
    destruct L2 as [L2| ->]; [|exfalso; eapply NEW; eassumption].
    destruct (F8 g1 (OLD g1 L1)) as (_ & _ & Ec1). destruct (F8 g2 (OLD g2 L2)) as (_ & _ & Ec2).
    rewrite Ec1 in H1. rewrite Ec2 in H2. eapply (ib_uniq _ IB); eassumption.
Qed.

Lemma mkdf1_PendA s i n : Inv s -> d_find (h5_root s i) n = None -> PendA (mkdf1 s i n) i n (next_id s).
Proof.
  intros [IA IB] Hn. destruct (mkdf1_frame s i n) as (F1 & F2 & F3 & F4 & F5 & F6 & F7 & F8 & _).
  destruct (IA i) as [a b c d].
  assert (OLD : forall j k x, d_find (py_dfs s j) k = Some x -> x <> next_id s).
  { intros j k x H. pose proof (ib_lt _ IB x (catalogued_linked s j k x IA H)). lia. }
  unfold PendA. refine (conj _ (conj _ (conj _ (conj _ (conj _ (conj _ (conj _ _))))))).
  - intros j NE. destruct (IA j) as [a' b' c' d']. constructor.
    + rewrite F4. exact a'.
    + rewrite F3 by exact NE. exact b'.
    + intros k. rewrite F4, F3 by exact NE. apply c'.
    + intros k x H. rewrite F4 in H. destruct (F8 x (OLD j k x H)) as (-> & -> & _). apply d'. exact H.
  - rewrite F4. exact a.
  - rewrite F2. apply app1_NoDup; assumption.
  - rewrite F4, (c n). exact Hn.
  - intros k. rewrite F2, F4, d_find_app1, (c k). destruct (d_find (h5_root s i) k) eqn:E; [|reflexivity].
    destruct (name_eqb k n) eqn:E'; [|reflexivity]. apply name_eqb_spec in E'. subst. congruence.
  - intros k x H. rewrite F4 in H. destruct (F8 x (OLD i k x H)) as (-> & -> & _). apply d. exact H.
  - exact F5.
  - exact F6.
Qed.

Lemma close_InvB s i n g : InvB s -> InvB (close_df s i n g).
Proof. intros IB. eapply InvB_ext; [| | | | | |exact IB]; reflexivity. Qed.

Lemma close_Inv s i n g : PendA s i n g -> InvB s -> Inv (close_df s i n g).
Proof. intros P IB. split; [apply close_InvA; exact P | apply close_InvB; exact IB]. Qed.

(* copying fields one after the other *)
Lemma copied_InvB c s f g n :
  InvB s -> linked s g -> d_find (py_cols s g) n = None -> InvB (copied c s f g n).
Proof.
  intros IB L Hn. unfold copied. eapply InvB_ext; [| | | | | |apply created_InvB; eassumption]; reflexivity.
Qed.

(* inside create_dataframe(name, dataframe=src): the target is fresh, the sources are valid and
   distinctly named, so no copy can fail *)
Lemma copy_all_ok c items g : forall s,
  InvB s -> linked s g -> NoDup (d_keys items) ->
  (forall k v, In (k, v) items -> py_valid s v = true /\ v < next_id s /\ d_find (py_cols s g) k = None) ->
  exists s', copy_all c items g s = (s', Ok tt) /\ InvB s' /\ linked s' g /\
             (forall j, py_dfs s' j = py_dfs s j) /\ (forall j, h5_root s' j = h5_root s j) /\
             (forall x, py_name s' x = py_name s x) /\ (forall x, py_ds s' x = py_ds s x).
Proof.
  induction items as [|[k v] t IH]; intros s IB L ND H.
  - exists s. split; [reflexivity|]. split; [exact IB|]. split; [exact L|]. repeat split; reflexivity.
  - cbn [copy_all]. unfold bindM. rewrite copy_field_into_run.
    destruct (H k v (or_introl eq_refl)) as (V & LT & Hk). rewrite V.
    pose proof (ib_df _ IB g L) as DG.
    rewrite (proj2 (d_mem_false _ _) Hk).
    rewrite <- (same_map_mem _ _ k (dk_same _ _ DG)), (proj2 (d_mem_false _ _) Hk).
    destruct (copied_frame c s v g k) as (F1 & F2 & F3 & F4 & F5 & F6 & F7 & F8 & F9 & _).
    cbn [d_keys map fst] in ND. inversion ND as [|? ? NI ND']; subst.
    destruct (IH (copied c s v g k)) as (s' & E & IB' & L' & G1 & G2 & G3 & G4).
    + apply copied_InvB; assumption.
    + apply (linked_ext s _ F2). exact L.
    + exact ND'.
    + intros k' v' I'. destruct (H k' v' (or_intror I')) as (V' & LT' & Hk').
      destruct (F9 v' ltac:(lia)) as (-> & _). rewrite F5, F7, d_find_set.
      repeat split; [exact V' | lia |].
      destruct (name_eqb k' k) eqn:Ek; [|exact Hk'].
      apply name_eqb_spec in Ek. subst. exfalso. apply NI. apply (in_map fst) in I'. exact I'.
    + exists s'. rewrite E. split; [reflexivity|]. split; [exact IB'|]. split; [exact L'|].
      repeat split; intros; rewrite ?G1, ?G2, ?G3, ?G4; auto.
Qed.

(* once the target is catalogued, Inv holds whatever happens *)
Lemma copy_all_keeps c items g : forall s s' r,
  Inv s -> linked s g -> copy_all c items g s = (s', r) ->
  Inv s' /\ (forall j, py_dfs s' j = py_dfs s j) /\ (forall j, h5_root s' j = h5_root s j).
Proof.
  induction items as [|[k v] t IH]; intros s s' r I L E.
  - cbn in E. inversion E; subst. auto.
  - cbn [copy_all] in E. unfold bindM in E.
    destruct (copy_field_into c v g k s) as [s1 r1] eqn:E1.
    destruct (copy_field_into_keeps c v g k s s1 r1 I L E1) as (I1 & HOk & HF).
    destruct r1 as [nf|x|e|]; try (inversion E; subst; rewrite (HF eq_refl); auto).
    destruct (HOk nf eq_refl) as (-> & _).
    destruct (copied_frame c s v g k) as (F1 & F2 & _).
    destruct (IH _ _ _ I1 (proj2 (linked_ext s _ F2 g) L) E) as (I' & G1 & G2).
    split; [exact I'|]. split; intros; rewrite ?G1, ?G2; auto.
Qed.

Lemma ds_create_dataframe_keeps c i n src s s' r :
  Inv s -> (forall sg, src = Some sg -> linked s sg) -> ds_create_dataframe c i n src s = (s', r) ->
  Inv s' /\ (forall g, r = Ok g -> d_find (py_dfs s' i) n = Some g /\ linked s' g /\
                                  match src with None => s' = close_df (mkdf1 s i n) i n g | _ => True end).
Proof.
  intros I LS E. rewrite ds_create_dataframe_run in E.
  destruct (d_mem (h5_root s i) n) eqn:M; [inversion E; subst; split; [exact I|intros ? X; discriminate X]|].
  apply d_mem_false in M. cbv zeta in E.
  pose proof (mkdf1_PendA s i n I M) as PA. pose proof (mkdf1_InvB s i n (proj2 I)) as IB1.
  assert (LG : linked (mkdf1 s i n) (next_id s)) by (apply mkdf1_linked; auto).
  assert (FIN : forall s3 g, g = next_id s -> PendA s3 i n g -> InvB s3 -> linked s3 g ->
                 Inv (close_df s3 i n g) /\ d_find (py_dfs (close_df s3 i n g) i) n = Some g /\ linked (close_df s3 i n g) g).
  { intros s3 g -> P3 IB3 L3. split; [apply close_Inv; assumption|]. split.
    - cbn. rewrite fupd_same, d_find_set, name_eqb_refl. reflexivity.
    - exact L3. }
  destruct src as [sg|].
  - specialize (LS sg eq_refl).
    destruct (mkdf1_frame s i n) as (F1 & F2 & F3 & F4 & F5 & F6 & F7 & F8 & F9 & F10 & _).
    assert (NEsg : sg <> next_id s) by (pose proof (ib_lt _ (proj2 I) sg LS); lia).
    destruct (F8 sg NEsg) as (_ & _ & Ecs).
    destruct (copy_all_ok c (py_cols (mkdf1 s i n) sg) (next_id s) (mkdf1 s i n) IB1 LG) as (s3 & E3 & IB3 & L3 & G1 & G2 & G3 & G4).
    + rewrite Ecs. apply (dk_nd_py _ _ (ib_df _ (proj2 I) sg LS)).
    + intros k v Hin. rewrite Ecs in Hin. rewrite F10, F1, F7.
      apply In_d_find in Hin; [|apply (dk_nd_py _ _ (ib_df _ (proj2 I) sg LS))].
      destruct (dk_flds _ _ (ib_df _ (proj2 I) sg LS) k v Hin) as (V & _ & LT). repeat split; auto; lia.
    + rewrite E3 in E. inversion E; subst.
      destruct (FIN s3 (next_id s) eq_refl (PendA_ext _ _ _ _ _ G1 G2 G3 G4 PA) IB3 L3) as (X1 & X2 & X3).
      split; [exact X1|]. intros g Hg. inversion Hg; subst. auto.
  - inversion E; subst. destruct (FIN (mkdf1 s i n) (next_id s) eq_refl PA IB1 LG) as (X1 & X2 & X3).
    split; [exact X1|]. intros g Hg. inversion Hg; subst. auto.
Qed.

Lemma ds_require_keeps c i n s s' r : Inv s -> ds_require_dataframe c i n s = (s', r) -> Inv s'.
Proof.
  intros I E. unfold ds_require_dataframe, bindM, mget in E.
  destruct (d_find (py_dfs s i) n).
  - inversion E; subst; exact I.
  - eapply ds_create_dataframe_keeps; [exact I| |exact E]. intros ? X; discriminate X.
Qed.

Lemma close_noop_Inv s i n g : Inv s -> d_find (py_dfs s i) n = Some g -> Inv (close_df s i n g).
Proof.
  intros [IA IB] H.
  assert (E : forall x, fupd (py_dfs s) i (d_set (py_dfs s i) n g) x = py_dfs s x).
  { intros x. unfold fupd. destruct (x =? i) eqn:Ex; [|reflexivity]. apply Z.eqb_eq in Ex. subst. apply d_set_same. exact H. }
  split.
  - eapply InvA_ext; [| | | |exact IA]; try reflexivity. exact E.
  - apply close_InvB. exact IB.
Qed.

Lemma eds_copy_keeps c sg j n s s' r : Inv s -> eds_copy c sg j n s = (s', r) -> Inv s'.
Proof.
  intros I E. unfold eds_copy in E. unfold bindM at 1 in E. unfold mget at 1 in E.
  destruct (d_mem (py_dfs s j) n); [inversion E; subst; exact I|].
  unfold bindM at 1 in E. destruct (ds_create_dataframe c j n None s) as [s1 r1] eqn:E1.
  destruct (ds_create_dataframe_keeps c j n None s s1 r1 I ltac:(intros ? X; discriminate X) E1) as (I1 & HOk).
  destruct r1 as [g|x|e|]; try (inversion E; subst; exact I1).
  destruct (HOk g eq_refl) as (Hg & Lg & _).
  unfold bindM at 1 in E. unfold mget at 1 in E. unfold bindM at 1 in E.
  destruct (copy_all c (py_cols s1 sg) g s1) as [s2 r2] eqn:E2.
  destruct (copy_all_keeps c _ g s1 s2 r2 I1 Lg E2) as (I2 & G1 & G2).
  destruct r2 as [u|x|e|]; try (inversion E; subst; exact I2).
  unfold dfs_set, modify in E. inversion E; subst.
  apply close_noop_Inv; [exact I2 | rewrite G1; exact Hg].
Qed.

(* removing a frame from both sides *)
Lemma unlink_state_Inv s s' i n :
  Inv s ->
  next_id s' = next_id s -> (forall j, j <> i -> h5_root s' j = h5_root s j /\ py_dfs s' j = py_dfs s j) ->
  h5_root s' i = d_del (h5_root s i) n -> py_dfs s' i = d_del (py_dfs s i) n ->
  (forall x, py_name s' x = py_name s x) -> (forall x, py_ds s' x = py_ds s x) ->
  (forall x, h5_grp s' x = h5_grp s x) -> (forall x, py_cols s' x = py_cols s x) ->
  (forall f, py_valid s' f = py_valid s f) -> (forall f, py_fdf s' f = py_fdf s f) -> Inv s'.
Proof.
  intros [IA IB] E0 EX Eh Ep E3 E4 E5 E6 E7 E8. split.
  - intros j. destruct (Z.eq_dec j i) as [->|NE].
    + destruct (IA i) as [a b c d]. constructor.
      * rewrite Ep. apply d_del_NoDup. exact a.
      * rewrite Eh. apply d_del_NoDup. exact b.
      * intros k. rewrite Ep, Eh, !d_find_del by assumption. rewrite (c k). reflexivity.
      * intros k x H. rewrite Ep, d_find_del in H by assumption. destruct (name_eqb k n); [discriminate|].
        rewrite E3, E4. apply d. exact H.
    + destruct (EX j NE) as [Ea Eb]. eapply ds_ok_ext; eauto.
  - eapply InvB_ext'; eauto.
    intros g (j & m & H). destruct (Z.eq_dec j i) as [->|NE].
    + rewrite Eh in H. apply d_del_In in H. exists i, m. exact H.
    + destruct (EX j NE) as [Ea _]. rewrite Ea in H. exists j, m. exact H.
Qed.

Lemma ds_drop_keeps i n s s' r : Inv s -> ds_drop i n s = (s', r) -> Inv s'.
Proof.
  intros I E. unfold ds_drop in E. unfold bindM at 1 in E. unfold mget in E.
  destruct (d_mem (py_dfs s i) n) eqn:M; cbn [negb] in E; [|inversion E; subst; exact I].
  unfold bindM, dfs_del, modify, h5_del in E. cbn [tget h5_root set_py_dfs] in E.
  rewrite <- (same_map_mem _ _ n (sk_same _ _ (proj1 I i))), M in E. inversion E; subst.
  eapply (unlink_state_Inv s _ i n I); cbn; intros; rewrite ?fupd_same, ?fupd_other by assumption; auto.
Qed.

Lemma ds_delitem_keeps i n s s' r : Inv s -> ds_delitem i n s = (s', r) -> Inv s'.
Proof.
  intros I E. unfold ds_delitem in E. unfold bindM at 1 in E. unfold mget in E.
  destruct (d_mem (py_dfs s i) n) eqn:M; cbn [negb] in E; [|inversion E; subst; exact I].
  unfold bindM, dfs_del, modify, h5_del in E. cbn [tget h5_root set_py_dfs] in E.
  rewrite <- (same_map_mem _ _ n (sk_same _ _ (proj1 I i))), M in E. inversion E; subst.
  eapply (unlink_state_Inv s _ i n I); cbn; intros; rewrite ?fupd_same, ?fupd_other by assumption; auto.
Qed.

Lemma ds_delete_dataframe_keeps i g s s' r : Inv s -> ds_delete_dataframe i g s = (s', r) -> Inv s'.
Proof. intros I E. unfold ds_delete_dataframe, bindM, mget in E. eapply ds_delitem_keeps; eassumption. Qed.

Lemma eds_move_keeps c sg j n s s' r : Inv s -> eds_move c sg j n s = (s', r) -> Inv s'.
Proof.
  intros I E. unfold eds_move in E. unfold bindM at 1 in E.
  destruct (eds_copy c sg j n s) as [s1 r1] eqn:E1. pose proof (eds_copy_keeps _ _ _ _ _ _ _ I E1) as I1.
  destruct r1 as [u|x|e|]; try (inversion E; subst; exact I1).
  unfold bindM, mget in E. eapply ds_drop_keeps; eassumption.
Qed.

(* ------------------------------------------------------------------ Dataset.__setitem__ (repaired) *)
Lemma relink_state_Inv s s' j d n sg :
  Inv s -> d_find (py_dfs s j) d = Some sg -> d_find (py_dfs s j) n = None ->
  next_id s' = next_id s -> (forall i, i <> j -> h5_root s' i = h5_root s i /\ py_dfs s' i = py_dfs s i) ->
  h5_root s' j = d_del (h5_root s j) d ++ [(n, sg)] -> py_dfs s' j = d_set (d_del (py_dfs s j) d) n sg ->
  py_name s' sg = n -> (forall x, x <> sg -> py_name s' x = py_name s x) -> (forall x, py_ds s' x = py_ds s x) ->
  (forall x, h5_grp s' x = h5_grp s x) -> (forall x, py_cols s' x = py_cols s x) ->
  (forall f, py_valid s' f = py_valid s f) -> (forall f, py_fdf s' f = py_fdf s f) -> Inv s'.
Proof.
  intros [IA IB] Hd Hn E0 EX Eh Ep En EnX E4 E5 E6 E7 E8.
  destruct (IA j) as [a b c d0].
  destruct (d0 d sg Hd) as [Nsg Dsg].
  assert (Hn' : d_find (d_del (py_dfs s j) d) n = None).
  { rewrite d_find_del by exact a. destruct (name_eqb n d); [reflexivity | exact Hn]. }
  assert (Hnh : d_find (d_del (h5_root s j) d) n = None).
  { rewrite d_find_del by exact b. destruct (name_eqb n d); [reflexivity | rewrite <- (c n); exact Hn]. }
  split.
  - intros i. destruct (Z.eq_dec i j) as [->|NE].
    + constructor.
      * rewrite Ep, d_set_new by exact Hn'. apply app1_NoDup; [apply d_del_NoDup; exact a | exact Hn'].
      * rewrite Eh. apply app1_NoDup; [apply d_del_NoDup; exact b | exact Hnh].
      * intros k. rewrite Ep, Eh, d_set_new by exact Hn'. rewrite !d_find_app1, !d_find_del by assumption.
        rewrite (c k). reflexivity.
      * intros k x H. rewrite Ep, d_find_set in H. rewrite E4. destruct (name_eqb k n) eqn:Ek.
        -- apply name_eqb_spec in Ek. inversion H; subst. auto.
        -- rewrite d_find_del in H by exact a. destruct (name_eqb k d) eqn:Ekd; [discriminate|].
           destruct (d0 k x H) as [Nx Dx]. split; [|exact Dx].
           rewrite EnX; [exact Nx|]. intros ->. apply name_eqb_neq in Ekd. congruence.
    + destruct (EX i NE) as [Ea Eb]. destruct (IA i) as [a' b' c' d'].
      constructor.
      * rewrite Eb. exact a'.
      * rewrite Ea. exact b'.
      * intros k. rewrite Ea, Eb. apply c'.
      * intros k x H. rewrite Eb in H. destruct (d' k x H) as [Nx Dx]. rewrite E4. split; [|exact Dx].
        rewrite EnX; [exact Nx|]. intros ->. congruence.
  - eapply InvB_ext'; eauto.
    intros g (i & m & H). destruct (Z.eq_dec i j) as [->|NE].
    + rewrite Eh in H. apply in_app_iff in H. destruct H as [H|[H|[]]].
      * apply d_del_In in H. exists j, m. exact H.
      * injection H as Hm Hg. subst g. exists j, d. apply d_find_In. rewrite <- (c d). exact Hd.
    + destruct (EX i NE) as [Ea _]. rewrite Ea in H. exists i, m. exact H.
Qed.

Lemma d_rfind_unique s j sg src d :
  InvA s -> d_find (py_dfs s j) d = Some sg -> d_rfind (h5_root s j) sg = Some src -> src = d.
Proof.
  intros IA Hd H. destruct (IA j) as [a b c d0]. apply d_rfind_In in H.
  apply In_d_find in H; [|exact b]. rewrite <- (c src) in H.
  destruct (d0 _ _ H) as [N1 _]. destruct (d0 _ _ Hd) as [N2 _]. congruence.
Qed.

Lemma ds_setitem_keeps c j n sg s s' r i d :
  fix_b c = true -> Inv s -> d_find (py_dfs s i) d = Some sg -> ds_setitem c j n sg s = (s', r) -> Inv s'.
Proof.
  intros FB I Hd E. unfold ds_setitem in E. unfold bindM at 1 in E. unfold mget at 1 in E.
  destruct (sk_dfs _ _ (proj1 I i) d sg Hd) as [Nsg Dsg].
  destruct (py_ds s sg =? j) eqn:Ej; [|eapply eds_copy_keeps; eassumption].
  apply Z.eqb_eq in Ej. rewrite Ej in Dsg. subst i. rewrite FB in E.
  destruct (d_mem (py_dfs s j) n) eqn:M; [inversion E; subst; exact I|]. apply d_mem_false in M.
  unfold bindM at 1 in E. unfold h5_move_path in E.
  destruct (d_rfind (h5_root s j) sg) as [src|] eqn:R; [|inversion E; subst; exact I].
  pose proof (d_rfind_unique s j sg src d (proj1 I) Hd R) as ->.
  rewrite <- (same_map_mem _ _ n (sk_same _ _ (proj1 I j))), (proj2 (d_mem_false _ _) M) in E.
  rewrite Nsg in E. rewrite (proj2 (d_mem_true _ _) (d_find_keys _ _ _ Hd)) in E.
  unfold bindM, dfs_del, dfs_set, modify in E. clear Nsg Ej. inversion E; subst s' r.
  eapply (relink_state_Inv s _ j d n sg I Hd M); cbn; intros; rewrite ?fupd_same, ?fupd_other by assumption; auto.
Qed.

(* ------------------------------------------------------------------ h5py path of a field object *)
Lemma path_in_groups_sound s i groups f i' d n :
  path_in_groups s i groups f = Some (i', d, n) -> i' = i /\ exists g, In (d, g) groups /\ In (n, f) (h5_grp s g).
Proof.
  induction groups as [|[dn g] t IH]; cbn [path_in_groups]; [discriminate|].
  destruct (d_rfind (h5_grp s g) f) as [fn|] eqn:R; intros H.
  - inversion H; subst. split; [reflexivity|]. exists g. split; [left; reflexivity | apply d_rfind_In; exact R].
  - destruct (IH H) as (-> & g' & I1 & I2). split; [reflexivity|]. exists g'. split; [right; exact I1 | exact I2].
Qed.

Lemma path_in_files_sound s files f i d n :
  path_in_files s files f = Some (i, d, n) -> exists g, In (d, g) (h5_root s i) /\ In (n, f) (h5_grp s g).
Proof.
  induction files as [|j t IH]; cbn [path_in_files]; [discriminate|].
  destruct (path_in_groups s j (h5_root s j) f) as [[[i' d'] n']|] eqn:P; intros H.
  - inversion H; subst. apply path_in_groups_sound in P. destruct P as (-> & g & I1 & I2). eauto.
  - apply IH. exact H.
Qed.

(* the path found for a catalogued field object is its place in the catalogue *)
Lemma path_is_place s g0 n0 f i d n :
  Inv s -> linked s g0 -> d_find (py_cols s g0) n0 = Some f -> h5_fld_path s f = Some (i, d, n) ->
  n = n0 /\ In (d, g0) (h5_root s i).
Proof.
  intros [IA IB] L0 H0 P. unfold h5_fld_path in P. apply path_in_files_sound in P. destruct P as (g & I1 & I2).
  assert (L : linked s g) by (exists i, d; exact I1).
  pose proof (ib_df _ IB g L) as DG.
  apply In_d_find in I2; [|apply (dk_nd_h5 _ _ DG)]. rewrite <- (dk_same _ _ DG n) in I2.
  destruct (ib_uniq _ IB g g0 n n0 f L L0 I2 H0) as [-> ->]. auto.
Qed.

(* a field object that is in no linked frame may change its validity flag *)
Lemma invalidate_Inv s f b :
  Inv s -> (forall x m, linked s x -> d_find (py_cols s x) m <> Some f) ->
  Inv (set_py_valid s (fupd (py_valid s) f b)).
Proof.
  intros [IA IB] NF. split.
  - eapply InvA_ext; [| | | |exact IA]; reflexivity.
  - constructor; cbn.
    + apply (ib_pos _ IB).
    + apply (ib_fresh _ IB).
    + apply (ib_lt _ IB).
    + intros g L. destruct (ib_df _ IB g L) as [a b0 c d]. constructor; cbn; auto.
      intros n f' H. rewrite fupd_other; [apply (d n f' H)|]. intros ->. apply (NF g n L). exact H.
    + apply (ib_uniq _ IB).
Qed.

Lemma df_drop_ok_frame g n s s' :
  df_drop g n s = (s', Ok tt) ->
  (forall i, h5_root s' i = h5_root s i) /\ (forall i, py_dfs s' i = py_dfs s i) /\
  py_cols s' g = d_del (py_cols s g) n /\ (forall x, x <> g -> py_cols s' x = py_cols s x) /\
  (forall x, py_valid s' x = py_valid s x) /\
  (forall x, fld_type s' x = fld_type s x) /\ (forall x, fld_data s' x = fld_data s x).
Proof.
  rewrite df_drop_run. destruct (negb (d_mem (py_cols s g) n)); [discriminate|]. cbv zeta.
  destruct (d_mem (h5_grp s g) n); [|discriminate]. intros H. inversion H; subst. cbn.
  repeat split; intros; rewrite ?fupd_same, ?fupd_other by assumption; reflexivity.
Qed.
