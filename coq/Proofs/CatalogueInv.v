(* Proofs/CatalogueInv.v — the catalogue invariant and its preservation by every operation of
   the repaired code (fix_a = fix_b = true; fix_c free). *)
From Coq Require Import ZArith List Bool Lia.
From EV Require Import Res Catalogue CatalogueBase.
Import ListNotations.
Open Scope Z_scope.

(* ------------------------------------------------------------------ invariant *)
Definition linked (s:state) (g:Z) : Prop := exists i n, In (n, g) (h5_root s i).
Definition same_map (a b:alist) : Prop := forall n, d_find a n = d_find b n.

Record df_ok (s:state) (g:Z) : Prop := mk_df_ok {
  dk_nd_py : NoDup (d_keys (py_cols s g));
  dk_nd_h5 : NoDup (d_keys (h5_grp s g));
  dk_same : same_map (py_cols s g) (h5_grp s g);
  dk_flds : forall n f, d_find (py_cols s g) n = Some f ->
              py_valid s f = true /\ (py_fdf s f = g \/ py_fdf s f = NONE) /\ 0 < f < next_id s
}.

(* part B: every frame whose group is linked in a file has the same columns in _columns and in its
   h5 group; catalogued field objects are valid, know their owner, and sit in exactly one place *)
Record InvB (s:state) : Prop := mk_InvB {
  ib_fresh : forall x, next_id s <= x -> h5_grp s x = [];
  ib_lt : forall g, linked s g -> 0 < g < next_id s;
  ib_df : forall g, linked s g -> df_ok s g;
  ib_uniq : forall g g' n n' f, linked s g -> linked s g' ->
              d_find (py_cols s g) n = Some f -> d_find (py_cols s g') n' = Some f -> g = g' /\ n = n'
}.

(* part A: every dataset lists exactly the groups of its file root, under their own names *)
Record ds_ok (s:state) (i:Z) : Prop := mk_ds_ok {
  sk_nd_py : NoDup (d_keys (py_dfs s i));
  sk_nd_h5 : NoDup (d_keys (h5_root s i));
  sk_same : same_map (py_dfs s i) (h5_root s i);
  sk_dfs : forall n g, d_find (py_dfs s i) n = Some g -> py_name s g = n /\ py_ds s g = i
}.
Definition InvA (s:state) : Prop := forall i, ds_ok s i.
Definition Inv (s:state) : Prop := InvA s /\ InvB s.

Lemma init_Inv : Inv init_state.
Proof.
  split.
  - intros i. constructor; cbn.
    + constructor.
    + constructor.
    + intros k. reflexivity.
    + intros k g H; discriminate.
  - constructor; cbn.
    + reflexivity.
    + intros g [i [n []]].
    + intros g [i [n []]].
    + intros g g' n n' f [i [m []]].
Qed.

Lemma linked_ext s s' : (forall i, h5_root s' i = h5_root s i) -> forall g, linked s' g <-> linked s g.
Proof.
  intros E g. unfold linked. split; intros [i [n H]]; exists i, n; [rewrite <- E | rewrite E]; exact H.
Qed.

Lemma catalogued_linked s i n g : InvA s -> d_find (py_dfs s i) n = Some g -> linked s g.
Proof.
  intros IA H. exists i, n. apply d_find_In. rewrite <- (sk_same _ _ (IA i)). exact H.
Qed.

(* ------------------------------------------------------------------ frames of InvA / InvB *)
(* InvA only reads py_dfs, h5_root, py_name, py_ds *)
Lemma InvA_ext s s' :
  (forall i, py_dfs s' i = py_dfs s i) -> (forall i, h5_root s' i = h5_root s i) ->
  (forall g, py_name s' g = py_name s g) -> (forall g, py_ds s' g = py_ds s g) -> InvA s -> InvA s'.
Proof.
  intros E1 E2 E3 E4 IA i. destruct (IA i) as [a b c d].
  constructor.
  - rewrite E1. exact a.
  - rewrite E2. exact b.
  - intros n. rewrite E1, E2. apply c.
  - intros n g H. rewrite E1 in H. rewrite E3, E4. apply d. exact H.
Qed.

(* InvB only reads next_id, h5_root (through linked), h5_grp, py_cols, py_valid, py_fdf *)
Lemma InvB_ext s s' :
  next_id s' = next_id s -> (forall i, h5_root s' i = h5_root s i) -> (forall g, h5_grp s' g = h5_grp s g) ->
  (forall g, py_cols s' g = py_cols s g) -> (forall f, py_valid s' f = py_valid s f) ->
  (forall f, py_fdf s' f = py_fdf s f) -> InvB s -> InvB s'.
Proof.
  intros E0 E1 E2 E3 E4 E5 IB. pose proof (linked_ext s s' E1) as LE.
  constructor.
  - intros x Hx. rewrite E2. apply (ib_fresh _ IB). lia.
  - intros g L. rewrite E0. apply (ib_lt _ IB). apply LE. exact L.
  - intros g L. apply LE in L. destruct (ib_df _ IB g L) as [a b c d].
    constructor.
    + rewrite E3. exact a.
    + rewrite E2. exact b.
    + intros n. rewrite E2, E3. apply c.
    + intros n f H. rewrite E3 in H. rewrite E4, E5, E0. apply (d n f). exact H.
  - intros g g' n n' f L L' H H'. rewrite E3 in H, H'. apply LE in L. apply LE in L'.
    eapply (ib_uniq _ IB); eassumption.
Qed.

(* ------------------------------------------------------------------ df_create_field *)
Definition created (c:cfg) (s:state) (g:Z) (n:name) (t:Z) : state :=
  let f := next_id s in
  let s1 := set_next (tset s (TGrp g) (tget s (TGrp g) ++ [(n, f)])) (f + 1) in
  let s2 := set_fld_data (set_fld_type s1 (fupd (fld_type s1) f t)) (fupd (fld_data s1) f []) in
  let s3 := set_py_fdf (set_py_valid s2 (fupd (py_valid s2) f true))
                       (fupd (py_fdf s2) f (if (t =? T_INDEXED) && negb (fix_c c) then NONE else g)) in
  set_py_cols s3 (fupd (py_cols s3) g (d_set (py_cols s3 g) n f)).

Lemma df_create_field_run c g n t s :
  df_create_field c g n t s =
    if d_mem (py_cols s g) n then (s, Raise E_ValueError)
    else if d_mem (h5_grp s g) n then (s, Raise E_ValueError)
    else (created c s g n t, Ok (next_id s)).
Proof.
  unfold df_create_field, bindM, mget. destruct (d_mem (py_cols s g) n) eqn:E1; [reflexivity|].
  unfold h5_create. cbn [tget]. destruct (d_mem (h5_grp s g) n) eqn:E2; [reflexivity|].
  reflexivity.
Qed.

Lemma created_frame c s g n t :
  let s' := created c s g n t in
  (forall i, py_dfs s' i = py_dfs s i) /\ (forall i, h5_root s' i = h5_root s i) /\
  (forall x, py_name s' x = py_name s x) /\ (forall x, py_ds s' x = py_ds s x) /\
  next_id s' = next_id s + 1 /\
  (forall x, x <> g -> py_cols s' x = py_cols s x /\ h5_grp s' x = h5_grp s x) /\
  py_cols s' g = d_set (py_cols s g) n (next_id s) /\ h5_grp s' g = h5_grp s g ++ [(n, next_id s)] /\
  (forall f, f <> next_id s -> py_valid s' f = py_valid s f /\ py_fdf s' f = py_fdf s f /\
                               fld_type s' f = fld_type s f /\ fld_data s' f = fld_data s f) /\
  py_valid s' (next_id s) = true /\ (py_fdf s' (next_id s) = g \/ py_fdf s' (next_id s) = NONE) /\
  fld_type s' (next_id s) = t /\ fld_data s' (next_id s) = [].
Proof.
  cbn. repeat split; intros; try reflexivity; rewrite ?fupd_same, ?fupd_other by assumption; try reflexivity.
  destruct ((t =? T_INDEXED) && negb (fix_c c)); auto.
Qed.

Lemma created_InvB c s g n t :
  InvB s -> linked s g -> d_find (py_cols s g) n = None -> InvB (created c s g n t).
Proof.
  intros IB L Hn.
  pose proof (ib_lt _ IB g L) as Hg. pose proof (ib_df _ IB g L) as DG.
  assert (Hh : d_find (h5_grp s g) n = None) by (rewrite <- (dk_same _ _ DG); exact Hn).
  destruct (created_frame c s g n t) as (F1 & F2 & F3 & F4 & F5 & F6 & F7 & F8 & F9 & F10 & F11 & _).
  set (s' := created c s g n t) in *.
  pose proof (linked_ext s s' F2) as LE.
  assert (OLD : forall g0 m f, linked s g0 -> d_find (py_cols s g0) m = Some f -> f <> next_id s).
  { intros g0 m f L0 H. destruct (dk_flds _ _ (ib_df _ IB g0 L0) m f H) as (_ & _ & ?). lia. }
  constructor.
  - intros x Hx. rewrite F5 in Hx. destruct (F6 x ltac:(lia)) as [_ ->]. apply (ib_fresh _ IB). lia.
  - intros g0 L0. apply LE in L0. rewrite F5. pose proof (ib_lt _ IB g0 L0). lia.
  - intros g0 L0. apply LE in L0. destruct (Z.eq_dec g0 g) as [->|NE].
    + constructor.
      * rewrite F7, d_set_new by exact Hn. apply app1_NoDup; [apply (dk_nd_py _ _ DG) | exact Hn].
      * rewrite F8. apply app1_NoDup; [apply (dk_nd_h5 _ _ DG) | exact Hh].
      * intros k. rewrite F7, F8, d_set_new by exact Hn. rewrite !d_find_app1, (dk_same _ _ DG k). reflexivity.
      * intros k f H. rewrite F7, d_find_set in H. rewrite F5.
        destruct (name_eqb k n) eqn:E.
        -- inversion H; subst f. split; [exact F10 | split; [exact F11 | lia]].
        -- pose proof (OLD g k f L H) as NEf. destruct (F9 f NEf) as (-> & -> & _).
           destruct (dk_flds _ _ DG k f H) as (? & ? & ?). repeat split; auto; lia.
    + destruct (F6 g0 NE) as [Ec Eh]. pose proof (ib_df _ IB g0 L0) as D0. constructor.
      * rewrite Ec. apply (dk_nd_py _ _ D0).
      * rewrite Eh. apply (dk_nd_h5 _ _ D0).
      * intros k. rewrite Ec, Eh. apply (dk_same _ _ D0).
      * intros k f H. rewrite Ec in H. rewrite F5. pose proof (OLD g0 k f L0 H) as NEf.
        destruct (F9 f NEf) as (-> & -> & _). destruct (dk_flds _ _ D0 k f H) as (? & ? & ?). repeat split; auto; lia.
  - intros g1 g2 n1 n2 f L1 L2 H1 H2. apply LE in L1. apply LE in L2.
    assert (P : forall g0 m, linked s g0 -> d_find (py_cols s' g0) m = Some f ->
                 (g0 = g /\ m = n /\ f = next_id s) \/ (d_find (py_cols s g0) m = Some f /\ f <> next_id s)).
    { intros g0 m L0 H. destruct (Z.eq_dec g0 g) as [->|NE].
      - rewrite F7, d_find_set in H. destruct (name_eqb m n) eqn:E.
        + apply name_eqb_spec in E. inversion H. left. auto.
        + right. split; [exact H | eapply OLD; eassumption].
      - destruct (F6 g0 NE) as [Ec _]. rewrite Ec in H. right. split; [exact H | eapply OLD; eassumption]. }
    destruct (P g1 n1 L1 H1) as [(-> & -> & E1)|[O1 N1]]; destruct (P g2 n2 L2 H2) as [(-> & -> & E2)|[O2 N2]].
    + auto.
    + congruence.
    + congruence.
    + eapply (ib_uniq _ IB); eassumption.
Qed.

(* ------------------------------------------------------------------ relational frame lemmas for InvB *)
(* same frames linked, some state components equal *)
Lemma InvB_ext' s s' :
  next_id s' = next_id s -> (forall g, linked s' g -> linked s g) -> (forall g, h5_grp s' g = h5_grp s g) ->
  (forall g, py_cols s' g = py_cols s g) -> (forall f, py_valid s' f = py_valid s f) ->
  (forall f, py_fdf s' f = py_fdf s f) -> InvB s -> InvB s'.
Proof.
  intros E0 LE E2 E3 E4 E5 IB.
  constructor.
  - intros x Hx. rewrite E2. apply (ib_fresh _ IB). lia.
  - intros g L. rewrite E0. apply (ib_lt _ IB). apply LE. exact L.
  - intros g L. apply LE in L. destruct (ib_df _ IB g L) as [a b c d].
    constructor.
    + rewrite E3. exact a.
    + rewrite E2. exact b.
    + intros n. rewrite E2, E3. apply c.
    + intros n f H. rewrite E3 in H. rewrite E4, E5, E0. apply (d n f). exact H.
  - intros g g' n n' f L L' H H'. rewrite E3 in H, H'. apply LE in L. apply LE in L'.
    eapply (ib_uniq _ IB); eassumption.
Qed.

(* the columns of one linked frame are replaced by a renaming / subset of themselves *)
Lemma recol_InvB s s' g :
  InvB s -> linked s g ->
  next_id s' = next_id s -> (forall i, h5_root s' i = h5_root s i) ->
  (forall x, x <> g -> h5_grp s' x = h5_grp s x /\ py_cols s' x = py_cols s x) ->
  (forall f, py_valid s' f = py_valid s f) -> (forall f, py_fdf s' f = py_fdf s f) ->
  NoDup (d_keys (py_cols s' g)) -> NoDup (d_keys (h5_grp s' g)) -> same_map (py_cols s' g) (h5_grp s' g) ->
  (forall m f, d_find (py_cols s' g) m = Some f -> exists m0, d_find (py_cols s g) m0 = Some f) ->
  (forall m m' f, d_find (py_cols s' g) m = Some f -> d_find (py_cols s' g) m' = Some f -> m = m') ->
  InvB s'.
Proof.
  intros IB L E0 E1 EX E4 E5 ND1 ND2 SM SUB INJ.
  pose proof (linked_ext s s' E1) as LE.
  pose proof (ib_lt _ IB g L) as Hg.
  constructor.
  - intros x Hx. destruct (EX x ltac:(lia)) as [-> _]. apply (ib_fresh _ IB). lia.
  - intros g0 L0. rewrite E0. apply (ib_lt _ IB). apply LE. exact L0.
  - intros g0 L0. apply LE in L0. destruct (Z.eq_dec g0 g) as [->|NE].
    + constructor; auto.
      intros m f H. destruct (SUB m f H) as [m0 H0]. rewrite E4, E5, E0.
      apply (dk_flds _ _ (ib_df _ IB g L) m0 f H0).
    + destruct (EX g0 NE) as [Eh Ec]. destruct (ib_df _ IB g0 L0) as [a b c d]. constructor.
      * rewrite Ec. exact a.
      * rewrite Eh. exact b.
      * intros n. rewrite Ec, Eh. apply c.
      * intros n f H. rewrite Ec in H. rewrite E4, E5, E0. apply (d n f H).
  - intros g1 g2 n1 n2 f L1 L2 H1 H2. apply LE in L1. apply LE in L2.
    destruct (Z.eq_dec g1 g) as [->|NE1]; destruct (Z.eq_dec g2 g) as [->|NE2].
    + split; [reflexivity | eapply INJ; eassumption].
    + exfalso. destruct (SUB n1 f H1) as [m0 H0]. destruct (EX g2 NE2) as [_ Ec]. rewrite Ec in H2.
      destruct (ib_uniq _ IB g g2 m0 n2 f L L2 H0 H2) as [E _]. congruence.
    + exfalso. destruct (SUB n2 f H2) as [m0 H0]. destruct (EX g1 NE1) as [_ Ec]. rewrite Ec in H1.
      destruct (ib_uniq _ IB g1 g n1 m0 f L1 L H1 H0) as [E _]. congruence.
    + destruct (EX g1 NE1) as [_ Ec1]. destruct (EX g2 NE2) as [_ Ec2]. rewrite Ec1 in H1. rewrite Ec2 in H2.
      eapply (ib_uniq _ IB); eassumption.
Qed.

(* ------------------------------------------------------------------ Hoare triples with Inv as exceptional postcondition *)
Definition hoare {A} (P:state -> Prop) (m:M A) (Q:A -> state -> Prop) : Prop :=
  forall s s' r, P s -> m s = (s', r) -> match r with Ok a => Q a s' | _ => Inv s' end.

Lemma hoare_bind {A B} (P:state -> Prop) (m:M A) (Q:A -> state -> Prop) (f:A -> M B) (R:B -> state -> Prop) :
  hoare P m Q -> (forall a, hoare (Q a) (f a) R) -> hoare P (bindM m f) R.
Proof.
  intros H1 H2 s s' r HP E. unfold bindM in E. destruct (m s) as [s1 r1] eqn:Em.
  specialize (H1 s s1 r1 HP Em). destruct r1 as [a|x|c|].
  - eapply H2; eassumption.
  - inversion E; subst. exact H1.
  - inversion E; subst. exact H1.
  - inversion E; subst. exact H1.
Qed.

Lemma hoare_weaken {A} (P P':state -> Prop) (m:M A) (Q Q':A -> state -> Prop) :
  hoare P m Q -> (forall s, P' s -> P s) -> (forall a s, Q a s -> Q' a s) -> hoare P' m Q'.
Proof.
  intros H HP HQ s s' r HP' E. specialize (H s s' r (HP _ HP') E). destruct r; auto.
Qed.

Lemma hoare_ret {A} (P:state -> Prop) (a:A) : hoare P (ret a) (fun x s => x = a /\ P s).
Proof. intros s s' r HP E. inversion E; subst. auto. Qed.

Lemma hoare_raise {A} (P:state -> Prop) c (Q:A -> state -> Prop) : (forall s, P s -> Inv s) -> hoare P (raise c) Q.
Proof. intros HI s s' r HP E. inversion E; subst. auto. Qed.

Lemma hoare_mget (P:state -> Prop) : hoare P mget (fun x s => x = s /\ P s).
Proof. intros s s' r HP E. inversion E; subst. auto. Qed.

(* the whole computation keeps Inv whatever its outcome *)
Definition keeps {A} (P:state -> Prop) (m:M A) : Prop := forall s s' r, P s -> m s = (s', r) -> Inv s'.

Lemma hoare_keeps {A} (P:state -> Prop) (m:M A) (Q:A -> state -> Prop) :
  hoare P m Q -> (forall a s, Q a s -> Inv s) -> keeps P m.
Proof. intros H HQ s s' r HP E. specialize (H s s' r HP E). destruct r; eauto. Qed.

Lemma keeps_hoare {A} (P:state -> Prop) (m:M A) : keeps P m -> hoare P m (fun _ s => Inv s).
Proof. intros H s s' r HP E. specialize (H s s' r HP E). destruct r; auto. Qed.

(* lookups *)
Lemma ds_getitem_hoare (P:state -> Prop) i n :
  (forall s, P s -> Inv s) ->
  hoare P (ds_getitem i n) (fun g s => P s /\ d_find (py_dfs s i) n = Some g).
Proof.
  intros HI s s' r HP E. unfold ds_getitem in E. destruct (d_find (py_dfs s i) n) eqn:F; inversion E; subst; auto.
Qed.

Lemma df_getitem_hoare (P:state -> Prop) g n :
  (forall s, P s -> Inv s) ->
  hoare P (df_getitem g n) (fun f s => P s /\ d_find (py_cols s g) n = Some f).
Proof.
  intros HI s s' r HP E. unfold df_getitem in E. destruct (d_find (py_cols s g) n) eqn:F; inversion E; subst; auto.
Qed.

(* ------------------------------------------------------------------ field_write, copy_field_into *)
Definition wrote (s:state) (f:Z) (dat:list Z) : state :=
  set_fld_data s (fupd (fld_data s) f (fld_data s f ++ dat)).

Lemma field_write_run f dat s : field_write f dat s = (wrote s f dat, Ok tt).
Proof. reflexivity. Qed.

Lemma wrote_Inv s f dat : Inv s -> Inv (wrote s f dat).
Proof.
  intros [IA IB]. split.
  - eapply InvA_ext; [| | | |exact IA]; reflexivity.
  - eapply InvB_ext; [| | | | | |exact IB]; reflexivity.
Qed.

Lemma created_Inv c s g n t :
  Inv s -> linked s g -> d_find (py_cols s g) n = None -> Inv (created c s g n t).
Proof.
  intros [IA IB] L Hn. split.
  - destruct (created_frame c s g n t) as (F1 & F2 & F3 & F4 & _). eapply InvA_ext; eassumption.
  - apply created_InvB; assumption.
Qed.

Definition copied (c:cfg) (s:state) (f g:Z) (n:name) : state :=
  let s1 := created c s g n (fld_type s f) in wrote s1 (next_id s) (fld_data s1 f).

Lemma created_valid c s g n t f : py_valid s f = true -> py_valid (created c s g n t) f = true.
Proof. intros H. cbn. unfold fupd. destruct (f =? next_id s); [reflexivity | exact H]. Qed.

Lemma copy_field_into_run c f g n s :
  copy_field_into c f g n s =
    if py_valid s f then
      if d_mem (py_cols s g) n then (s, Raise E_ValueError)
      else if d_mem (h5_grp s g) n then (s, Raise E_ValueError)
      else (copied c s f g n, Ok (next_id s))
    else (s, Raise E_ValueError).
Proof.
  unfold copy_field_into. unfold bindM at 1. unfold field_ensure_valid at 1.
  destruct (py_valid s f) eqn:V; [|reflexivity].
  unfold bindM at 1. unfold mget at 1. unfold bindM at 1. rewrite df_create_field_run.
  destruct (d_mem (py_cols s g) n); [reflexivity|]. destruct (d_mem (h5_grp s g) n); [reflexivity|].
  unfold bindM at 1. unfold field_ensure_valid. rewrite (created_valid c s g n (fld_type s f) f V).
  reflexivity.
Qed.

Lemma copied_frame c s f g n :
  let s' := copied c s f g n in
  (forall i, py_dfs s' i = py_dfs s i) /\ (forall i, h5_root s' i = h5_root s i) /\
  (forall x, py_name s' x = py_name s x) /\ (forall x, py_ds s' x = py_ds s x) /\
  next_id s' = next_id s + 1 /\
  (forall x, x <> g -> py_cols s' x = py_cols s x /\ h5_grp s' x = h5_grp s x) /\
  py_cols s' g = d_set (py_cols s g) n (next_id s) /\ h5_grp s' g = h5_grp s g ++ [(n, next_id s)] /\
  (forall x, x <> next_id s -> py_valid s' x = py_valid s x /\ py_fdf s' x = py_fdf s x /\
                               fld_type s' x = fld_type s x /\ fld_data s' x = fld_data s x) /\
  py_valid s' (next_id s) = true /\
  fld_type s' (next_id s) = fld_type s f /\ (f <> next_id s -> fld_data s' (next_id s) = fld_data s f).
Proof.
  cbn. repeat split; intros; try reflexivity; rewrite ?fupd_same, ?fupd_other by assumption; try reflexivity.
Qed.

Lemma copied_Inv c s f g n :
  Inv s -> linked s g -> d_find (py_cols s g) n = None -> Inv (copied c s f g n).
Proof. intros. unfold copied. apply wrote_Inv. apply created_Inv; assumption. Qed.

(* a successful or failed copy_field_into into a linked frame keeps Inv *)
Lemma copy_field_into_keeps c f g n s s' r :
  Inv s -> linked s g -> copy_field_into c f g n s = (s', r) ->
  Inv s' /\ (forall nf, r = Ok nf -> s' = copied c s f g n /\ nf = next_id s /\ d_find (py_cols s g) n = None
                                    /\ py_valid s f = true)
         /\ (is_ok r = false -> s' = s).
Proof.
  intros I L E. rewrite copy_field_into_run in E.
  destruct (py_valid s f) eqn:V; [|inversion E; subst; split; [assumption | split; [intros ? X; discriminate X | intros _; reflexivity]]].
  destruct (d_mem (py_cols s g) n) eqn:M1; [inversion E; subst; split; [assumption | split; [intros ? X; discriminate X | intros _; reflexivity]]|].
  destruct (d_mem (h5_grp s g) n) eqn:M2; [inversion E; subst; split; [assumption | split; [intros ? X; discriminate X | intros _; reflexivity]]|].
  inversion E; subst. apply d_mem_false in M1. split; [apply copied_Inv; assumption|]. split.
  - intros nf H. inversion H; subst. auto.
  - cbn. discriminate.
Qed.

(* ------------------------------------------------------------------ frame-level operations *)
Lemma same_map_mem a b n : same_map a b -> d_mem a n = d_mem b n.
Proof. intros H. unfold d_mem. rewrite (H n). reflexivity. Qed.

Lemma cols_set_noop_Inv s g n f :
  Inv s -> d_find (py_cols s g) n = Some f ->
  Inv (set_py_cols s (fupd (py_cols s) g (d_set (py_cols s g) n f))).
Proof.
  intros [IA IB] H.
  assert (E : forall x, fupd (py_cols s) g (d_set (py_cols s g) n f) x = py_cols s x).
  { intros x. unfold fupd. destruct (x =? g) eqn:Ex; [|reflexivity]. apply Z.eqb_eq in Ex. subst.
    apply d_set_same. exact H. }
  split.
  - eapply InvA_ext; [| | | |exact IA]; reflexivity.
  - eapply InvB_ext; [| | | | | |exact IB]; try reflexivity. exact E.
Qed.

Lemma field_name_pure f s s' r : field_name f s = (s', r) -> s' = s.
Proof.
  unfold field_name, bindM, field_ensure_valid. destruct (py_valid s f).
  - destruct (h5_fld_path s f) as [[[? ?] ?]|]; intros H; inversion H; reflexivity.
  - intros H; inversion H; reflexivity.
Qed.

Lemma field_dataframe_pure f s s' r : field_dataframe f s = (s', r) -> s' = s.
Proof.
  unfold field_dataframe, bindM, field_ensure_valid. destruct (py_valid s f); intros H; inversion H; reflexivity.
Qed.

Lemma copied_find c s f g n : d_find (py_cols (copied c s f g n) g) n = Some (next_id s).
Proof.
  destruct (copied_frame c s f g n) as (_ & _ & _ & _ & _ & _ & F7 & _). rewrite F7, d_find_set, name_eqb_refl. reflexivity.
Qed.

Lemma df_setitem_keeps c g n f s s' r :
  Inv s -> linked s g -> df_setitem c g n f s = (s', r) -> Inv s'.
Proof.
  intros I L E. unfold df_setitem, bindM in E.
  destruct (copy_field_into c f g n s) as [s1 r1] eqn:E1.
  destruct (copy_field_into_keeps c f g n s s1 r1 I L E1) as (I1 & HOk & _).
  destruct r1 as [nf|x|e|]; try (inversion E; subst; exact I1).
  destruct (HOk nf eq_refl) as (-> & -> & _). unfold cols_set, modify in E. inversion E; subst.
  apply cols_set_noop_Inv; [exact I1 | apply copied_find].
Qed.

Lemma df_add_keeps c g f s s' r :
  Inv s -> linked s g -> df_add c g f s = (s', r) -> Inv s'.
Proof.
  intros I L E. unfold df_add in E. unfold bindM at 1 in E.
  destruct (field_name f s) as [s0 r0] eqn:E0. apply field_name_pure in E0 as ->.
  destruct r0 as [dn|x|e|]; try (inversion E; subst; exact I).
  eapply (df_setitem_keeps c g dn f); eassumption.
Qed.

Lemma edf_copy_keeps c f g n s s' r :
  Inv s -> linked s g -> edf_copy c f g n s = (s', r) ->
  Inv s' /\ (forall x, r = Ok x -> s' = copied c s f g n /\ d_find (py_cols s g) n = None /\ py_valid s f = true)
         /\ (is_ok r = false -> Inv s' /\ (s' = s \/ s' = copied c s f g n)).
Proof.
  intros I L E. unfold edf_copy, bindM in E.
  destruct (copy_field_into c f g n s) as [s1 r1] eqn:E1.
  destruct (copy_field_into_keeps c f g n s s1 r1 I L E1) as (I1 & HOk & HF).
  destruct r1 as [nf|x|e|].
  - destruct (HOk nf eq_refl) as (-> & -> & Hn & V). unfold df_getitem in E.
    rewrite copied_find in E. inversion E; subst. split; [exact I1|]. split; [intros; auto|cbn; discriminate].
  - inversion E; subst. split; [exact I1|]. split; [intros ? X; discriminate X|]. intros _. split; [exact I1|left; apply HF; reflexivity].
  - inversion E; subst. split; [exact I1|]. split; [intros ? X; discriminate X|]. intros _. split; [exact I1|left; apply HF; reflexivity].
  - inversion E; subst. split; [exact I1|]. split; [intros ? X; discriminate X|]. intros _. split; [exact I1|left; apply HF; reflexivity].
Qed.

(* deleting a column from both sides *)
Lemma del_state_Inv s s' g n :
  Inv s -> linked s g ->
  next_id s' = next_id s -> (forall i, h5_root s' i = h5_root s i) -> (forall i, py_dfs s' i = py_dfs s i) ->
  (forall x, py_name s' x = py_name s x) -> (forall x, py_ds s' x = py_ds s x) ->
  (forall x, x <> g -> h5_grp s' x = h5_grp s x /\ py_cols s' x = py_cols s x) ->
  (forall f, py_valid s' f = py_valid s f) -> (forall f, py_fdf s' f = py_fdf s f) ->
  h5_grp s' g = d_del (h5_grp s g) n -> py_cols s' g = d_del (py_cols s g) n ->
  Inv s'.
Proof.
  intros [IA IB] L E0 E1 E2 E3 E4 EX E5 E6 Eh Ec.
  pose proof (ib_df _ IB g L) as DG.
  split; [eapply InvA_ext; eassumption|].
  eapply (recol_InvB s s' g); try eassumption.
  - rewrite Ec. apply d_del_NoDup. apply (dk_nd_py _ _ DG).
  - rewrite Eh. apply d_del_NoDup. apply (dk_nd_h5 _ _ DG).
  - intros k. rewrite Ec, Eh. rewrite !d_find_del by (apply DG). rewrite (dk_same _ _ DG k). reflexivity.
  - intros m f H. rewrite Ec in H. rewrite d_find_del in H by apply DG. destruct (name_eqb m n); [discriminate|]. eauto.
  - intros m m' f H H'. rewrite Ec in H, H'. rewrite d_find_del in H, H' by apply DG.
    destruct (name_eqb m n); [discriminate|]. destruct (name_eqb m' n); [discriminate|].
    apply (ib_uniq _ IB g g m m' f L L H H').
Qed.

Lemma df_delitem_keeps g n s s' r :
  Inv s -> linked s g -> df_delitem g n s = (s', r) -> Inv s'.
Proof.
  intros I L E. pose proof (ib_df _ (proj2 I) g L) as DG.
  unfold df_delitem in E. unfold bindM at 1 in E. unfold mget in E.
  destruct (d_mem (py_cols s g) n) eqn:M; cbn [negb] in E; [|inversion E; subst; exact I].
  unfold bindM, h5_del in E. cbn [tget] in E. rewrite <- (same_map_mem _ _ n (dk_same _ _ DG)), M in E.
  unfold cols_del, modify in E. inversion E; subst.
  eapply (del_state_Inv s _ g n I L); cbn; intros; rewrite ?fupd_same, ?fupd_other by assumption; auto.
Qed.

Lemma df_drop_run g n s :
  df_drop g n s =
    if negb (d_mem (py_cols s g) n) then (s, Raise E_KeyError)
    else let s1 := set_py_cols s (fupd (py_cols s) g (d_del (py_cols s g) n)) in
         if d_mem (h5_grp s g) n then (tset s1 (TGrp g) (d_del (h5_grp s g) n), Ok tt)
         else (s1, Raise E_KeyError).
Proof.
  unfold df_drop, bindM, mget. destruct (d_mem (py_cols s g) n); cbn [negb]; [|reflexivity].
  unfold cols_del, modify, h5_del. cbn [tget h5_grp set_py_cols].
  destruct (d_mem (h5_grp s g) n); reflexivity.
Qed.

Lemma df_drop_keeps g n s s' r :
  Inv s -> linked s g -> df_drop g n s = (s', r) -> Inv s'.
Proof.
  intros I L E. pose proof (ib_df _ (proj2 I) g L) as DG.
  rewrite df_drop_run in E.
  destruct (d_mem (py_cols s g) n) eqn:M; cbn [negb] in E; [|inversion E; subst; exact I].
  cbv zeta in E. rewrite <- (same_map_mem _ _ n (dk_same _ _ DG)), M in E. inversion E; subst.
  eapply (del_state_Inv s _ g n I L); cbn; intros; rewrite ?fupd_same, ?fupd_other by assumption; auto.
Qed.

Lemma df_delete_field_keeps g f s s' r :
  Inv s -> linked s g -> df_delete_field g f s = (s', r) -> Inv s'.
Proof.
  intros I L E. unfold df_delete_field in E. unfold bindM at 1 in E.
  destruct (field_dataframe f s) as [s0 r0] eqn:E0. apply field_dataframe_pure in E0 as ->.
  destruct r0 as [fd|x|e|]; try (inversion E; subst; exact I).
  destruct (negb (fd =? g)); [inversion E; subst; exact I|].
  unfold bindM at 1 in E. destruct (field_name f s) as [s0 r0] eqn:E0. apply field_name_pure in E0 as ->.
  destruct r0 as [nm|x|e|]; try (inversion E; subst; exact I).
  eapply df_delitem_keeps; eassumption.
Qed.
