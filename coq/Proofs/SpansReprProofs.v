(* Proofs/SpansReprProofs.v — representation versus value of keys (Model/SpansRepr.v). *)
From Coq Require Import ZArith List Lia Bool.
From EV Require Import Res Arr Spans SpansSpec SpansBase SpansRef SpansField SpansKernels SpansIndexed SpansOrder
  SpansReduce SpansMerge SpansIndexedReduce SpansMain SpansRepr.
Import ListNotations.
Open Scope Z_scope.

(* ---- float_key ------------------------------------------------------------------------------------------ *)
Definition zero_bits (w b:Z) : Prop := b = 0 \/ b = 2 ^ (w - 1).

Lemma float_key_signed_zero_pf w : 0 < w -> float_key w (2 ^ (w - 1)) = float_key w 0.
Proof.
  intros Hw. unfold float_key. cbv zeta.
  assert (H : 0 < 2 ^ (w - 1)) by (apply Z.pow_pos_nonneg; lia).
  destruct (2 ^ (w - 1) <? 2 ^ (w - 1)) eqn:E1; [apply Z.ltb_lt in E1; lia|].
  destruct (0 <? 2 ^ (w - 1)) eqn:E2; [lia|apply Z.ltb_ge in E2; lia].
Qed.

Lemma float_key_eq_iff_pf w a b : 0 < w -> 0 <= a < 2 ^ w -> 0 <= b < 2 ^ w ->
  (float_key w a = float_key w b <-> a = b \/ (zero_bits w a /\ zero_bits w b)).
Proof.
  intros Hw Ha Hb. unfold float_key, zero_bits. cbv zeta.
  assert (H : 0 < 2 ^ (w - 1)) by (apply Z.pow_pos_nonneg; lia).
  assert (H2 : 2 ^ w = 2 * 2 ^ (w - 1)).
  { replace w with (1 + (w - 1)) at 1 by lia. rewrite Z.pow_add_r by lia. reflexivity. }
  set (s := 2 ^ (w - 1)) in *.
  destruct (a <? s) eqn:Ea; destruct (b <? s) eqn:Eb;
    try apply Z.ltb_lt in Ea; try apply Z.ltb_ge in Ea; try apply Z.ltb_lt in Eb; try apply Z.ltb_ge in Eb; lia.
Qed.

(* the keys are ordered as sign-magnitude numbers: non-negative patterns ascending, negative patterns descending,
   a negative pattern below a non-negative one unless both are zeros *)
Lemma float_key_order_pf w a b : 0 < w -> 0 <= a < 2 ^ w -> 0 <= b < 2 ^ w ->
  (float_key w a < float_key w b <->
   (a < 2 ^ (w - 1) /\ b < 2 ^ (w - 1) /\ a < b) \/
   (2 ^ (w - 1) <= a /\ 2 ^ (w - 1) <= b /\ b < a) \/
   (2 ^ (w - 1) <= a /\ b < 2 ^ (w - 1) /\ (2 ^ (w - 1) < a \/ 0 < b))).
Proof.
  intros Hw Ha Hb. unfold float_key. cbv zeta.
  assert (H : 0 < 2 ^ (w - 1)) by (apply Z.pow_pos_nonneg; lia).
  set (s := 2 ^ (w - 1)) in *.
  destruct (a <? s) eqn:Ea; destruct (b <? s) eqn:Eb;
    try apply Z.ltb_lt in Ea; try apply Z.ltb_ge in Ea; try apply Z.ltb_lt in Eb; try apply Z.ltb_ge in Eb; lia.
Qed.

(* ---- pad_fixed ------------------------------------------------------------------------------------------ *)
Lemma pad_fixed_trailing_nul_pf w r : len r + 1 <= w -> pad_fixed w (r ++ [0]) = pad_fixed w r.
Proof.
  intros H. unfold pad_fixed. rewrite len_app. change (len [0]) with 1.
  replace (Z.to_nat (w - len r)) with (S (Z.to_nat (w - (len r + 1)))) by lia.
  cbn [repeat]. rewrite <- app_assoc. reflexivity.
Qed.
Lemma pad_fixed_len_pf w r : len r <= w -> len (pad_fixed w r) = w.
Proof. intros H. unfold pad_fixed. rewrite len_app. unfold len at 2. rewrite repeat_length. lia. Qed.

(* ---- np.unique(return_inverse): ranks are equal exactly when the values are ------------------------------- *)
Section Rank.
Context {A:Type}.
Variable neqb : A -> A -> bool.
Variable ltb : A -> A -> bool.
Hypothesis Hneq : neq_test neqb.
Hypothesis Hlt : strict_total ltb.

Lemma In_dedup x l : In x (dedup neqb l) <-> In x l.
Proof.
  induction l as [|y t IH]; [reflexivity|]. cbn [dedup In]. rewrite filter_In, IH.
  split.
  - intros [E|[Hi _]]; [left; exact E|right; exact Hi].
  - intros [E|Hi]; [left; exact E|].
    destruct (neqb y x) eqn:E; [right; split; [exact Hi|reflexivity]|left; apply Hneq; exact E].
Qed.

Lemma NoDup_dedup l : NoDup (dedup neqb l).
Proof.
  induction l as [|y t IH]; [constructor|]. cbn [dedup]. constructor.
  - rewrite filter_In. intros [_ E]. assert (E' : neqb y y = false) by (apply Hneq; reflexivity). congruence.
  - apply NoDup_filter. exact IH.
Qed.

Lemma rank_lt c x y : In x c -> ltb x y = true -> rank_in neqb ltb c x < rank_in neqb ltb c y.
Proof.
  intros Hx Hxy. unfold rank_in, len.
  destruct Hlt as [Hirr [Htr _]].
  set (D := dedup neqb c).
  assert (Hnd : NoDup (x :: filter (fun z => ltb z x) D)).
  { constructor.
    - rewrite filter_In. intros [_ E]. rewrite Hirr in E. discriminate.
    - apply NoDup_filter. apply NoDup_dedup. }
  assert (Hincl : incl (x :: filter (fun z => ltb z x) D) (filter (fun z => ltb z y) D)).
  { intros z [E|Hz].
    - subst z. apply filter_In. split; [apply In_dedup; exact Hx|exact Hxy].
    - apply filter_In in Hz. destruct Hz as [Hz1 Hz2]. apply filter_In. split; [exact Hz1|].
      apply (Htr z x y); assumption. }
  pose proof (NoDup_incl_length Hnd Hincl) as Hle. cbn [length] in Hle. lia.
Qed.

Lemma rank_eq_iff c x y : In x c -> In y c -> (rank_in neqb ltb c x = rank_in neqb ltb c y <-> x = y).
Proof.
  intros Hx Hy. split; [|intros ->; reflexivity]. intros E.
  destruct (ltb x y) eqn:E1.
  - pose proof (rank_lt c x y Hx E1). lia.
  - destruct (ltb y x) eqn:E2.
    + pose proof (rank_lt c y x Hy E2). lia.
    + destruct Hlt as [_ [_ Htot]]. apply Htot; assumption.
Qed.

Lemma len_unique_inverse c : len (unique_inverse neqb ltb c) = len c.
Proof. unfold unique_inverse, len. rewrite map_length. reflexivity. Qed.

Lemma nthd_unique_inverse d c i : 0 <= i < len c ->
  nthd 0 (unique_inverse neqb ltb c) i = rank_in neqb ltb c (nthd d c i).
Proof.
  intros Hi. unfold unique_inverse, nthd.
  rewrite (nth_indep _ 0 (rank_in neqb ltb c d)) by (rewrite map_length; unfold len in Hi; lia).
  apply map_nth.
Qed.

Lemma unique_inverse_adjacent d c i j : 0 <= i < len c -> 0 <= j < len c ->
  (nthd 0 (unique_inverse neqb ltb c) i = nthd 0 (unique_inverse neqb ltb c) j <-> nthd d c i = nthd d c j).
Proof.
  intros Hi Hj. rewrite (nthd_unique_inverse d c i Hi), (nthd_unique_inverse d c j Hj).
  apply rank_eq_iff; unfold nthd; apply nth_In; unfold len in *; lia.
Qed.
End Rank.

(* ---- is_spans only looks at the row count and at the equality of adjacent rows ---------------------------- *)
Lemma is_spans_transfer {A B} (d:A) (e:B) (xs:list A) (ys:list B) sp :
  len xs = len ys ->
  (forall r, 0 <= r -> r + 1 < len xs -> (nthd d xs r = nthd d xs (r + 1) <-> nthd e ys r = nthd e ys (r + 1))) ->
  is_spans d xs sp -> is_spans e ys sp.
Proof.
  intros Hl Hadj (H1 & H2 & H3 & H4 & H5). repeat split; try assumption; try lia.
  - intros Hy. apply (H5 r); [assumption|lia|]. apply Hadj; [assumption|lia|exact Hy].
  - intros Hn. apply Hadj; [assumption|lia|]. apply (H5 r); [assumption|lia|exact Hn].
Qed.

Lemma bytes_ltb_strict_total : strict_total bytes_ltb.
Proof.
  repeat split.
  - induction x as [|a x IH]; [reflexivity|]. cbn [bytes_ltb]. rewrite Z.ltb_irrefl. exact IH.
  - induction x as [|a x IH]; intros y z Hxy Hyz.
    + destruct y as [|b y]; [discriminate|]. destruct z as [|c z]; [discriminate|reflexivity].
    + destruct y as [|b y]; [discriminate|]. destruct z as [|c z]; [discriminate|].
      cbn [bytes_ltb] in *.
      destruct (a <? b) eqn:E1; destruct (b <? c) eqn:E2;
        try apply Z.ltb_lt in E1; try apply Z.ltb_ge in E1; try apply Z.ltb_lt in E2; try apply Z.ltb_ge in E2.
      * replace (a <? c) with true by (symmetry; apply Z.ltb_lt; lia). reflexivity.
      * destruct (c <? b) eqn:E3; [discriminate|]. apply Z.ltb_ge in E3.
        replace (a <? c) with true by (symmetry; apply Z.ltb_lt; lia). reflexivity.
      * destruct (b <? a) eqn:E3; [discriminate|]. apply Z.ltb_ge in E3.
        replace (a <? c) with true by (symmetry; apply Z.ltb_lt; lia). reflexivity.
      * destruct (b <? a) eqn:E3; [discriminate|]. destruct (c <? b) eqn:E4; [discriminate|].
        apply Z.ltb_ge in E3. apply Z.ltb_ge in E4. assert (a = b) by lia. assert (b = c) by lia. subst.
        rewrite Z.ltb_irrefl. apply (IH y z); assumption.
  - induction x as [|a x IH]; intros y Hxy Hyx.
    + destruct y; [reflexivity|discriminate].
    + destruct y as [|b y]; [discriminate|]. cbn [bytes_ltb] in *.
      destruct (a <? b) eqn:E1; [discriminate|]. destruct (b <? a) eqn:E2; [discriminate|].
      apply Z.ltb_ge in E1. apply Z.ltb_ge in E2. assert (a = b) by lia. subst. f_equal. apply IH; assumption.
Qed.

(* ---- DataFrame.groupby key stacking -------------------------------------------------------------------- *)
Theorem groupby_spans_correct_pf (mixed:bool) (cols:list (list (list Z))) (n:Z) :
  cols <> [] -> Forall (fun f => len f = n) cols ->
  exists sp, groupby_spans mixed cols = Ok sp /\ is_spans [] (rows_of [] cols n) sp.
Proof.
  intros Hne Hall. unfold groupby_spans. destruct mixed.
  - set (rc := map (unique_inverse bytes_neqb bytes_ltb) cols).
    assert (Hne' : rc <> []) by (unfold rc; destruct cols; [congruence|discriminate]).
    assert (Hall' : Forall (fun f => len f = n) rc).
    { unfold rc. apply Forall_map. eapply Forall_impl; [|exact Hall]. cbn beta. intros f Hf.
      rewrite len_unique_inverse. exact Hf. }
    destruct (spans_multi_correct_pf Z_neqb 0 rc n Z_neqb_spec Hne' Hall') as [sp [Hsp His]].
    exists sp. split; [exact Hsp|].
    assert (Hn : 0 <= n).
    { destruct cols as [|c t]; [congruence|]. inversion Hall; subst. apply len_nonneg. }
    assert (HlenR : forall (T:Type) (dd:T) (fs:list (list T)), len (rows_of dd fs n) = n).
    { intros T dd fs. unfold rows_of, len. rewrite map_length, zrange_length. lia. }
    apply (is_spans_transfer [] [] (rows_of 0 rc n) (rows_of [] cols n) sp).
    + rewrite !HlenR. reflexivity.
    + intros r Hr0 Hr1. rewrite HlenR in Hr1. unfold rows_of.
      rewrite !nthd_map_zrange by lia. unfold row_at, rc. rewrite !map_map.
      rewrite 2 map_ext_in_iff. rewrite Forall_forall in Hall.
      split; intros G f Hf; pose proof (Hall f Hf) as Hlf; specialize (G f Hf); cbn beta in *;
        apply (unique_inverse_adjacent bytes_neqb bytes_ltb bytes_neqb_spec bytes_ltb_strict_total [] f r (r + 1));
        try lia; exact G.
    + exact His.
  - apply (spans_multi_correct_pf bytes_neqb [] cols n bytes_neqb_spec Hne Hall).
Qed.
