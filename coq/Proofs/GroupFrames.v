(* Proofs/GroupFrames.v — from the group-by object to the destination dataframe:
   _write_groupby_keys (hence distinct / drop_duplicates), count, and min/max/first/last on plain
   (numeric, categorical, timestamp, fixed string) target columns produce exactly the columns of
   Spec/GroupSpec.v. *)
From Coq Require Import ZArith List Bool Lia Sorted Permutation.
From EV Require Import Res Arr StableSort StableSortProofs Spans SpansSpec SpansBase SpansRef SpansKernels SpansSorted
  SpansOrder SpansReduce SpansMain FilterIndex FilterIndexSpec FilterIndexKernels FilterIndexSort FilterIndexFrames
  Group GroupSpec GroupCore GroupModel.
Import ListNotations.
Open Scope Z_scope.

(* ---- storage helpers -------------------------------------------------------------------------- *)
Lemma select_body_cells b ps : select_body b ps = encode_like b (gather [] (body_cells b) ps).
Proof. reflexivity. Qed.

Lemma encode_like_kind b cs cs' : encode_like (encode_like b cs) cs' = encode_like b cs'.
Proof. destruct b; reflexivity. Qed.

Lemma select_body_wf b ps : wf_body b -> wf_body (select_body b ps).
Proof.
  intros H. destruct H as [d| |cs].
  - rewrite dat_select. constructor.
  - rewrite unwritten_select. constructor.
  - rewrite idx_select. constructor.
Qed.

Lemma field_len_select b m w ps : wf_body b -> in_range (len (body_cells b)) ps = true ->
  field_len (mkField m w (select_body b ps)) = len ps.
Proof.
  intros Hwf Hr. rewrite field_len_cells by (apply select_body_wf; exact Hwf).
  rewrite field_cells_body. cbn [fbody]. rewrite body_cells_select by assumption. apply len_gather.
Qed.

(* apply_index into a fresh create_like field *)
Lemma apply_index_into_like f idx : wf_body (fbody f) -> in_range (field_len f) idx = true ->
  field_apply_index f idx (Some (create_like f)) false
  = Ok (mkFres f (Some (mkField (fmeta f) true (select_body (fbody f) idx)))
              (mkField (fmeta f) true (select_body (fbody f) idx))).
Proof.
  intros Hwf Hr. rewrite field_index_correct by (try assumption; reflexivity).
  rewrite deliver_target.
  - reflexivity.
  - unfold create_like. cbn [fbody]. destruct (fbody f); exact I.
Qed.

(* apply_index in place on a writeable field *)
Lemma apply_index_in_place m b idx : wf_body b -> in_range (field_len (mkField m true b)) idx = true ->
  field_apply_index (mkField m true b) idx None true
  = Ok (mkFres (mkField m true (select_body b idx)) None (mkField m true (select_body b idx))).
Proof.
  intros Hwf Hr. rewrite field_index_correct by (try assumption; reflexivity).
  cbn [fbody]. rewrite deliver_in_place by reflexivity. reflexivity.
Qed.

Lemma fresh_names_snoc new ddf (x:Z * field) :
  fresh_names new ddf = true -> has_name (fst x) new = false -> fresh_names new (ddf ++ [x]) = true.
Proof.
  destruct x as [xn xf]. cbn [fst].
  induction new as [|[m fm] new IH]; [reflexivity|]. cbn [fresh_names has_name]. intros H Hx.
  apply andb_prop in H. destruct H as [H1 H2]. apply andb_prop in H1. destruct H1 as [H1 H3].
  apply orb_false_iff in Hx. destruct Hx as [Hne Hx].
  rewrite has_name_app. cbn [has_name]. rewrite H3. apply negb_true_iff in H1. rewrite H1.
  rewrite Z.eqb_sym in Hne. rewrite Hne. cbn [orb negb andb]. apply IH; assumption.
Qed.

Lemma skipn_cons_nth {A} (d:A) l : forall m x t, x :: t = skipn m l -> x = nth m l d /\ t = skipn (S m) l.
Proof.
  induction l as [|c l IH]; intros m x t H.
  - destruct m; cbn in H; discriminate.
  - destruct m; cbn [skipn nth] in *.
    + inversion H; subst. split; reflexivity.
    + apply IH. exact H.
Qed.

(* ---- the group-by object, uniformly in the two paths ---------------------------------------------- *)
(* the column a kernel sees: the column itself on the sorted / hinted path, the permuted column otherwise *)
Definition eff_cells (g:gb) (c:list cell) : list cell :=
  match g_sorted_index g with Some q => gather [] c q | None => c end.

Section WithGroupBy.
Variables (cols:frame) (by_:list Z) (hint:bool) (kr:list (list cell)) (kcs:list (list cell)).
Let n := nrows cols.
Hypothesis Hpre : groupby_pre cols by_ hint = true.
Hypothesis Hkc : key_columns cols by_ = Some kcs.
Hypothesis Hkr : kr = FilterIndexSpec.rows_of n kcs.
Let g := gb_of by_ hint kr.
Let sp := spans_ref rneqb (sort_rows kr).

Lemma pre_unpack : exists readers,
  frame_ok n cols = true /\ nodup_names cols = true /\ by_ <> [] /\ all_in by_ cols = true /\ nodupb by_ = true /\
  (hint = true -> rows_sortedb bytes_ltb (FilterIndexSpec.rows_of n kcs) = true) /\
  readers_of by_ cols = Ok readers /\ map field_cells readers = kcs /\
  Forall (fun f => wf_body (fbody f) /\ field_len f = n) readers /\
  Forall (fun c => len c = n) kcs /\ kcs <> [] /\ 0 <= n.
Proof.
  destruct (groupby_pre_facts cols by_ hint Hpre) as [kcs' [rd H]]. cbn zeta in H. fold n in H.
  destruct H as (H1 & H2 & H3 & H4 & H5 & H6 & H7 & H8 & H9 & H10 & H11 & H12 & H13 & H14 & H15).
  rewrite Hkc in H6. inversion H6; subst kcs'. exists rd. repeat split; assumption.
Qed.

Lemma n_nonneg : 0 <= n.
Proof. destruct pre_unpack as [rd H]. apply H. Qed.

Lemma kr_length : length kr = Z.to_nat n.
Proof. rewrite Hkr. apply rows_of_length. Qed.

Lemma kr_row_lengths r : In r kr -> length r = length kcs.
Proof. rewrite Hkr. apply rows_of_row_length. Qed.

Lemma hint_sorted : hint || rows_sortedb bytes_ltb kr = true ->
  StronglySorted (fun a b => GroupSpec.rowle a b = true) kr.
Proof.
  intros H. apply (rows_sortedb_SS kr (length kcs) kr_row_lengths).
  destruct pre_unpack as [rd (_ & _ & _ & _ & _ & Hh & _)].
  destruct hint; [|exact H]. rewrite Hkr. apply Hh. reflexivity.
Qed.

Lemma g_spans_eq : g_spans g = sp.
Proof.
  unfold g, gb_of, sp. destruct (hint || rows_sortedb bytes_ltb kr) eqn:E; [|reflexivity].
  cbn [g_spans]. destruct (sorted_input_unchanged [] kr kr eq_refl (hint_sorted E)) as [-> _]. reflexivity.
Qed.

Lemma sp_is_spans : is_spans [] (sort_rows kr) sp.
Proof. apply spans_ref_is_spans. exact rneqb_spec. Qed.

Lemma len_sort_rows : len (sort_rows kr) = n.
Proof.
  unfold sort_rows. rewrite len_gather. unfold lexsort_perm, len. rewrite argsort_length, kr_length.
  pose proof n_nonneg. lia.
Qed.

Lemma sp_valid : valid_spans n sp.
Proof. rewrite <- len_sort_rows. exact (is_spans_valid_pf _ _ _ sp_is_spans). Qed.

Lemma sp_ssorted : ssorted sp.
Proof. apply sp_valid. Qed.

Lemma sp_len : 1 <= len sp.
Proof. apply sp_valid. Qed.

(* all span starts are row numbers *)
Lemma removelast_in_range : in_range n (removelast sp) = true.
Proof.
  destruct sp_valid as [Hss [Hl [H0 Hlast]]].
  apply forallb_forall. intros x Hx.
  assert (Hsp : sp <> []). { intros E. rewrite E in Hl. cbn in Hl. lia. }
  destruct (In_nth _ _ 0 Hx) as [i [Hi Hxi]].
  assert (Hrl : (length (removelast sp) = length sp - 1)%nat).
  { rewrite (app_removelast_last 0 Hsp) at 2. rewrite app_length. cbn. lia. }
  assert (Hx' : x = nthZ sp (Z.of_nat i)).
  { rewrite <- Hxi. unfold nthZ, nthd. rewrite Nat2Z.id.
    rewrite (app_removelast_last 0 Hsp) at 2. rewrite app_nth1 by exact Hi. reflexivity. }
  pose proof (ssorted_sorted _ Hss) as Hs.
  assert (H1 : nthZ sp 0 <= x). { rewrite Hx'. apply Hs; unfold len; lia. }
  assert (H2 : x < nthZ sp (len sp - 1)). { rewrite Hx'. apply Hss; unfold len; lia. }
  lia.
Qed.

(* the effective column of a column c of n rows: sorted path = c itself = sort_vals; sort path = gathered *)
Lemma eff_cells_sort c : len c = n -> eff_cells g c = sort_vals [] kr c.
Proof.
  intros Hc. unfold eff_cells, g, gb_of. destruct (hint || rows_sortedb bytes_ltb kr) eqn:E; cbn [g_sorted_index].
  - assert (Hl : length kr = length c) by (rewrite kr_length; unfold len in Hc; lia).
    destruct (sorted_input_unchanged [] kr c Hl (hint_sorted E)) as [_ ->]. reflexivity.
  - reflexivity.
Qed.

Lemma q_in_range : in_range n (lexsort_perm kr) = true.
Proof. rewrite Hkr. apply lexsort_in_range. apply n_nonneg. Qed.

Lemma len_q : len (lexsort_perm kr) = n.
Proof. unfold lexsort_perm, len. rewrite argsort_length, kr_length. pose proof n_nonneg. lia. Qed.

(* ---- a "first row of every span" column: what _write_groupby_keys stores for one key field -------- *)
Definition key_field_result (f:field) : res field :=
  let spans_1 := removelast (g_spans g) in
  match g_sorted_index g with
  | Some si =>
    do r1 <- field_apply_index f si (Some (create_like f)) false;
    do nf1 <- the_target r1;
    do r2 <- field_apply_index nf1 spans_1 None true;
    Ok (r_src r2)
  | None =>
    do r <- field_apply_index f spans_1 (Some (create_like f)) false;
    the_target r
  end.

Lemma key_field_result_ok f : wf_body (fbody f) -> field_len f = n ->
  key_field_result f = Ok (dest_col f (gather [] (eff_cells g (field_cells f)) (removelast sp))).
Proof.
  intros Hwf Hl. unfold key_field_result. rewrite g_spans_eq.
  assert (Hlc : len (body_cells (fbody f)) = n) by (rewrite <- field_cells_body, <- field_len_cells; assumption).
  unfold eff_cells. destruct (g_sorted_index g) as [q|] eqn:Eq.
  - assert (q = lexsort_perm kr).
    { unfold g, gb_of in Eq. destruct (hint || rows_sortedb bytes_ltb kr); cbn in Eq; congruence. }
    subst q.
    rewrite apply_index_into_like by (try assumption; rewrite Hl; apply q_in_range). cbn [bind the_target r_tgt].
    assert (Hr1 : in_range (len (body_cells (fbody f))) (lexsort_perm kr) = true) by (rewrite Hlc; apply q_in_range).
    rewrite apply_index_in_place.
    + cbn [bind r_src]. unfold dest_col. f_equal.
      rewrite (select_body_cells (select_body _ _)). rewrite body_cells_select by assumption.
      rewrite select_body_cells, encode_like_kind, field_cells_body. reflexivity.
    + apply select_body_wf. exact Hwf.
    + rewrite field_len_select by assumption. rewrite len_q. apply removelast_in_range.
  - rewrite apply_index_into_like by (try assumption; rewrite Hl; apply removelast_in_range).
    cbn [bind the_target r_tgt]. unfold dest_col. rewrite select_body_cells, field_cells_body. reflexivity.
Qed.

(* ---- the key columns ---------------------------------------------------------------------------------- *)
(* transposition: column j of the rows at positions ps = the rows' component j *)
Lemma column_of_rows (E:list (list cell)) j ps : in_range n ps = true -> 0 <= j < len E ->
  gather [] (nthd [] E j) ps = map (fun r => nthd [] r j) (gather [] (FilterIndexSpec.rows_of n E) ps).
Proof.
  intros Hr Hj. unfold gather. rewrite map_map. apply map_ext_in. intros p Hp.
  unfold in_range in Hr. rewrite forallb_forall in Hr. specialize (Hr p Hp).
  rewrite rows_of_nthd by lia. unfold FilterIndexSpec.row_at.
  rewrite (nthd_map _ []) by exact Hj. reflexivity.
Qed.

Lemma kcs_lens : Forall (fun c => len c = n) kcs.
Proof. destruct pre_unpack as [rd H]. apply H. Qed.

Lemma eff_rows : FilterIndexSpec.rows_of n (map (eff_cells g) kcs) = sort_rows kr.
Proof.
  unfold eff_cells, g, gb_of. destruct (hint || rows_sortedb bytes_ltb kr) eqn:E; cbn [g_sorted_index].
  - rewrite map_id. destruct (sorted_input_unchanged [] kr kr eq_refl (hint_sorted E)) as [-> _]. symmetry. exact Hkr.
  - rewrite <- len_q at 1. rewrite (columns_stay_aligned kcs (lexsort_perm kr) n q_in_range). rewrite <- Hkr. reflexivity.
Qed.

Lemma key_column_groups j : 0 <= j < len kcs ->
  gather [] (eff_cells g (nthd [] kcs j)) (removelast sp) = map (fun r => nthd [] r j) (groups kr).
Proof.
  intros Hj.
  replace (eff_cells g (nthd [] kcs j)) with (nthd [] (map (eff_cells g) kcs) j)
    by (apply (nthd_map _ []); exact Hj).
  rewrite column_of_rows by (try apply removelast_in_range; unfold len; rewrite map_length; exact Hj).
  rewrite eff_rows. unfold sp. rewrite (sorted_first_rows_are_groups (V:=list Z) []). reflexivity.
Qed.

Lemma write_keys_from : forall keys j ddf l,
  key_columns cols keys = Some l -> l = skipn (Z.to_nat j) kcs -> 0 <= j -> j + len keys = len kcs ->
  fresh_names (spec_key_cols_from j cols keys (groups kr)) ddf = true ->
  (forall k f, In k keys -> lookup k cols = Some f -> wf_body (fbody f) /\ field_len f = n) ->
  write_groupby_keys cols g keys ddf = Ok (ddf ++ spec_key_cols_from j cols keys (groups kr)).
Proof.
  induction keys as [|k t IH]; intros j ddf l Hk Hl Hj Hlen Hfresh Hfields.
  - cbn. rewrite app_nil_r. reflexivity.
  - cbn [key_columns fold_right] in Hk. fold (key_columns cols t) in Hk.
    destruct (lookup k cols) as [f|] eqn:El; [|discriminate].
    destruct (key_columns cols t) as [l'|] eqn:Ek; [|discriminate]. inversion Hk; subst l; clear Hk.
    rewrite len_cons in Hlen.
    assert (Hjl : (Z.to_nat j < length kcs)%nat) by (pose proof (len_nonneg t); unfold len in *; lia).
    assert (Hcell : field_cells f = nthd [] kcs j /\ l' = skipn (Z.to_nat (j + 1)) kcs).
    { replace (Z.to_nat (j + 1)) with (S (Z.to_nat j)) by lia. unfold nthd.
      apply skipn_cons_nth. exact H0. }
    destruct Hcell as [Hcell Hl'].
    destruct (Hfields k f (or_introl eq_refl) El) as [Hwf Hfl].
    cbn [write_groupby_keys spec_key_cols_from fresh_names] in *. rewrite El in *.
    apply andb_prop in Hfresh. destruct Hfresh as [Hf1 Hf2]. apply andb_prop in Hf1. destruct Hf1 as [Hf1 Hf3].
    destruct (has_name (key_name k) ddf) eqn:Ehn; [discriminate|].
    fold (key_field_result f). rewrite (key_field_result_ok f Hwf Hfl). cbn [bind].
    rewrite Hcell, key_column_groups by (pose proof (len_nonneg t); lia).
    rewrite (IH (j + 1) _ l' eq_refl Hl') ; try lia.
    + rewrite <- app_assoc. reflexivity.
    + apply fresh_names_snoc; [exact Hf2|]. cbn [fst]. apply negb_true_iff. exact Hf3.
    + intros k' f' Hin. apply Hfields. right. exact Hin.
Qed.

End WithGroupBy.

(* ---- top level: distinct / drop_duplicates and count ---------------------------------------------- *)
Lemma key_rows_kcs cols by_ kr : key_rows cols by_ = Some kr ->
  exists kcs, key_columns cols by_ = Some kcs /\ kr = FilterIndexSpec.rows_of (nrows cols) kcs.
Proof.
  unfold key_rows. destruct (key_columns cols by_) as [kcs|]; [|discriminate].
  intros H. inversion H. exists kcs. split; reflexivity.
Qed.

Lemma key_columns_length cols : forall by_ kcs, key_columns cols by_ = Some kcs -> len kcs = len by_.
Proof.
  induction by_ as [|k t IH]; intros kcs H; cbn [key_columns fold_right] in H.
  - inversion H. reflexivity.
  - fold (key_columns cols t) in H. destruct (lookup k cols); [|discriminate].
    destruct (key_columns cols t) as [l|]; [|discriminate]. inversion H. rewrite !len_cons, (IH l eq_refl). reflexivity.
Qed.

Theorem write_keys_correct cols by_ hint kr ddf :
  groupby_pre cols by_ hint = true -> key_rows cols by_ = Some kr ->
  fresh_names (spec_key_cols cols by_ (groups kr)) ddf = true ->
  write_groupby_keys cols (gb_of by_ hint kr) by_ ddf = Ok (ddf ++ spec_key_cols cols by_ (groups kr)).
Proof.
  intros Hpre Hkr Hfresh. destruct (key_rows_kcs cols by_ kr Hkr) as [kcs [Hkc Hkr']].
  unfold spec_key_cols in *.
  apply (write_keys_from cols by_ hint kr kcs Hpre Hkc Hkr' by_ 0 ddf kcs Hkc); try reflexivity; try lia.
  - rewrite (key_columns_length cols by_ kcs Hkc). lia.
  - exact Hfresh.
  - intros k f Hin Hl.
    destruct (pre_unpack cols by_ hint kcs Hpre Hkc) as [rd (Hok & _)].
    destruct (lookup_in k cols f Hl) as [_ [k' Hin']].
    exact (frame_ok_in (nrows cols) cols (k', f) Hok Hin').
Qed.

(* drop_duplicates / groupby(...).distinct(): one row per distinct key tuple, ascending; every key column keeps its
   class / dtype / strlen / categorical key (dest_col copies the metadata) *)
Theorem drop_duplicates_correct_pf cols by_ hint kr ddf :
  groupby_pre cols by_ hint = true -> key_rows cols by_ = Some kr ->
  fresh_names (spec_key_cols cols by_ (groups kr)) ddf = true ->
  df_drop_duplicates cols by_ ddf hint = Ok (ddf ++ spec_key_cols cols by_ (groups kr)).
Proof.
  intros Hpre Hkr Hfresh. unfold df_drop_duplicates. rewrite (df_groupby_correct cols by_ hint kr Hpre Hkr).
  cbn [bind]. unfold gb_distinct, maybe_write_keys.
  replace (g_by (gb_of by_ hint kr)) with by_ by (unfold gb_of; destruct (hint || _); reflexivity).
  apply write_keys_correct; assumption.
Qed.

(* count: keys (when asked for) and the sizes of the groups *)
Lemma g_by_eq by_ hint kr : g_by (gb_of by_ hint kr) = by_.
Proof. unfold gb_of. destruct (hint || _); reflexivity. Qed.

Lemma maybe_write_keys_correct cols by_ hint kr ddf wk :
  groupby_pre cols by_ hint = true -> key_rows cols by_ = Some kr ->
  let keys := if wk:bool then spec_key_cols cols by_ (groups kr) else [] in
  fresh_names keys ddf = true ->
  maybe_write_keys cols (gb_of by_ hint kr) ddf wk = Ok (ddf ++ keys).
Proof.
  intros Hpre Hkr keys Hfresh. unfold maybe_write_keys. rewrite g_by_eq. subst keys. destruct wk.
  - apply write_keys_correct; assumption.
  - rewrite app_nil_r. reflexivity.
Qed.

Theorem gb_count_correct_pf cols by_ hint kr ddf wk :
  groupby_pre cols by_ hint = true -> key_rows cols by_ = Some kr ->
  let keys := if wk:bool then spec_key_cols cols by_ (groups kr) else [] in
  fresh_names keys ddf = true -> has_name COUNT_NAME (ddf ++ keys) = false ->
  gb_count cols (gb_of by_ hint kr) ddf wk = Ok (ddf ++ keys ++ [spec_count_col kr]).
Proof.
  intros Hpre Hkr keys Hfresh Hcn. destruct (key_rows_kcs cols by_ kr Hkr) as [kcs [Hkc Hkr']].
  unfold gb_count. rewrite (maybe_write_keys_correct cols by_ hint kr ddf wk Hpre Hkr Hfresh). cbn [bind].
  rewrite (g_spans_eq cols by_ hint kr kcs Hpre Hkc Hkr').
  pose proof (sp_len cols by_ hint kr kcs Hpre Hkc Hkr') as Hl.
  unfold np_zeros. destruct (len (spans_ref rneqb (sort_rows kr)) - 1 <? 0) eqn:E; [lia|]. cbn [bind].
  rewrite apply_spans_count_ref by exact Hl. cbn [bind]. fold keys. rewrite Hcn.
  rewrite <- app_assoc. unfold spec_count_col, ds_write. cbn [app].
  rewrite (sorted_spans_count (V:=list (list Z)) [] kr kr eq_refl). reflexivity.
Qed.

(* ---- min / max / first / last on a plain target column ------------------------------------------------ *)
Definition kernel_Z (a:agg) : list Z -> list Z -> res (list Z) :=
  match a with
  | AMin => apply_spans_min Z.ltb 0
  | AMax => apply_spans_max Z.ltb 0
  | AFirst => apply_spans_first 0
  | ALast => apply_spans_last 0
  end.

Lemma kernel_Z_ref a sp d : valid_spans (len d) sp ->
  kernel_Z a sp d = Ok (reduce_spans (fun (_:Z) l => agg_scalar a l) sp d).
Proof.
  intros H. destruct a; cbn [kernel_Z agg_scalar].
  - exact (apply_spans_min_pf Z Z.ltb 0 0 sp d Z_ltb_strict_total H).
  - exact (apply_spans_max_pf Z Z.ltb 0 0 sp d Z_ltb_strict_total H).
  - exact (apply_spans_first_pf Z 0 0 sp d H).
  - exact (apply_spans_last_pf Z 0 0 sp d H).
Qed.

(* the per-target body of agg_targets *)
Definition agg_one (a:agg) (g:gb) (f:field) : res field :=
  match g_sorted_index g with
  | Some si =>
    do r1 <- field_apply_index f si (Some (create_like f)) false;
    do nf1 <- the_target r1;
    do r2 <- field_apply_spans a nf1 (g_spans g) None true;
    Ok (r_src r2)
  | None =>
    do r <- field_apply_spans a f (g_spans g) (Some (create_like f)) false;
    the_target r
  end.

Lemma field_apply_spans_dat a m w d sp target in_place :
  ssorted sp -> valid_spans (len d) sp -> in_place && is_some target = false ->
  field_apply_spans a (mkField m w (BDat d)) sp target in_place
  = deliver_spans (mkField m w (BDat d)) (reduce_spans (fun (_:Z) l => agg_scalar a l) sp d) target in_place.
Proof.
  intros Hss Hv Hflag. unfold field_apply_spans. rewrite (adj_any_eq_ssorted sp Hss), Hflag. cbn [fbody].
  pose proof (kernel_Z_ref a sp d Hv) as Hk. destruct a; cbn [kernel_Z] in Hk; rewrite Hk; reflexivity.
Qed.

Theorem agg_one_dat cols by_ hint kr kcs a f d :
  groupby_pre cols by_ hint = true -> key_columns cols by_ = Some kcs ->
  kr = FilterIndexSpec.rows_of (nrows cols) kcs ->
  fbody f = BDat d -> len d = nrows cols ->
  agg_one a (gb_of by_ hint kr) f = Ok (mkField (fmeta f) true (BDat (agg_ref (agg_scalar a) kr d))).
Proof.
  intros Hpre Hkc Hkr Hb Hd. set (n := nrows cols) in *.
  pose proof (sp_valid cols by_ hint kr kcs Hpre Hkc Hkr) as Hv. fold n in Hv.
  pose proof (sp_ssorted cols by_ hint kr kcs Hpre Hkc Hkr) as Hss.
  assert (Hlkr : length kr = length d).
  { rewrite (kr_length cols kr kcs Hkr). unfold len in Hd. fold n. pose proof (n_nonneg cols by_ hint kcs Hpre Hkc). fold n in H. lia. }
  unfold agg_one. rewrite (g_spans_eq cols by_ hint kr kcs Hpre Hkc Hkr).
  destruct f as [m w b]. cbn [fbody fmeta] in *. subst b.
  destruct (g_sorted_index (gb_of by_ hint kr)) as [q|] eqn:Eq.
  - assert (q = lexsort_perm kr).
    { unfold gb_of in Eq. destruct (hint || rows_sortedb bytes_ltb kr); cbn in Eq; congruence. }
    subst q.
    pose proof (q_in_range cols by_ hint kr kcs Hpre Hkc Hkr) as Hq. fold n in Hq.
    rewrite apply_index_into_like by (try constructor; unfold field_len; cbn [fbody]; rewrite Hd; exact Hq).
    cbn [bind the_target r_tgt fmeta fbody]. rewrite dat_select.
    rewrite field_apply_spans_dat; try assumption; try reflexivity.
    2:{ rewrite len_gather. rewrite (len_q cols by_ hint kr kcs Hpre Hkc Hkr). exact Hv. }
    unfold deliver_spans. cbn [fwr negb bind r_src with_body fmeta]. unfold ds_write, ds_clear. cbn [app].
    rewrite <- (sorted_spans_reduce 0 (agg_scalar a) kr d Hlkr). reflexivity.
  - assert (Es : hint || rows_sortedb bytes_ltb kr = true).
    { unfold gb_of in Eq. destruct (hint || rows_sortedb bytes_ltb kr); [reflexivity|cbn in Eq; discriminate]. }
    rewrite field_apply_spans_dat; try assumption; try reflexivity; [|rewrite Hd; exact Hv].
    unfold deliver_spans, create_like. cbn [fbody fmeta fwr bind the_target r_tgt with_body].
    unfold ds_write, ds_clear. cbn [app].
    rewrite <- (sorted_spans_reduce 0 (agg_scalar a) kr d Hlkr).
    destruct (sorted_input_unchanged 0 kr d Hlkr (hint_sorted cols by_ hint kr kcs Hpre Hkc Hkr Es)) as [_ ->].
    reflexivity.
Qed.

Lemma agg_targets_unfold_pf a cols g t rest ddf f :
  lookup t cols = Some f -> has_name (agg_name a t) ddf = false ->
  agg_targets a cols g (t :: rest) ddf
  = (do nf <- agg_one a g f; agg_targets a cols g rest (ddf ++ [(agg_name a t, nf)])).
Proof. intros Hl Hn. cbn [agg_targets]. rewrite Hl, Hn. reflexivity. Qed.
