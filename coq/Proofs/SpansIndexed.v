(* Proofs/SpansIndexed.v — _get_spans_for_index_string_field returns the reference span list of the
   decoded rows (byte-exact comparison). *)
From Coq Require Import ZArith List Lia Bool.
From EV Require Import Res Arr Spans SpansSpec SpansBase SpansRef SpansKernels.
Import ListNotations.
Open Scope Z_scope.

(* python-list accumulation loop: acc.append(i) when ne i *)
Lemma acc_loop (ne:Z -> bool) (n:Z) (body:Z -> list Z -> res (list Z)) :
  (forall i acc, 1 <= i < n -> body i acc = Ok (if ne i then i :: acc else acc)) ->
  for_range (range_len 1 n) 1 body [0] = Ok (rev (0 :: F ne (Z.max 1 n))).
Proof.
  intros Hbody.
  destruct (for_range_inv (fun k acc => 1 <= k /\ acc = rev (0 :: F ne k)) body (range_len 1 n) 1 [0])
    as [acc [Hr [_ Hp]]].
  - split; [lia|]. reflexivity.
  - unfold range_len. intros k acc Hk [Hk1 ->]. rewrite Hbody by lia.
    assert (HF : F ne (k + 1) = F ne k ++ (if ne k then [k] else [])).
    { unfold F. replace (Z.to_nat (k + 1 - 1)) with (S (Z.to_nat (k - 1))) by lia.
      rewrite zrange_snoc, filter_snoc. replace (1 + Z.of_nat (Z.to_nat (k - 1))) with k by lia. reflexivity. }
    eexists. split; [reflexivity|]. split; [lia|]. rewrite HF.
    destruct (ne k); [|rewrite app_nil_r; reflexivity].
    cbn [rev]. rewrite rev_app_distr. reflexivity.
  - rewrite Hr, Hp. do 4 f_equal. unfold range_len. lia.
Qed.

Lemma np_slice_slice {A} (l:list A) a b : 0 <= a -> a <= b -> b <= len l -> np_slice l a b = slice l a b.
Proof.
  intros Ha Hab Hb. unfold np_slice, norm_bound.
  destruct (a <? 0) eqn:E1; [lia|]. destruct (b <? 0) eqn:E2; [lia|].
  rewrite !Z.min_l by lia. reflexivity.
Qed.

Lemma indexed_rows_table indices values :
  indexed_rows indices values =
  map (fun i => slice values (nthZ indices i) (nthZ indices (i + 1))) (zrange 0 (Z.to_nat (len indices - 1))).
Proof. unfold indexed_rows. rewrite span_pairs_zrange, map_map. reflexivity. Qed.

Lemma len_indexed_rows indices values : len (indexed_rows indices values) = Z.max 0 (len indices - 1).
Proof. rewrite indexed_rows_table. unfold len at 1. rewrite map_length, zrange_length. lia. Qed.

Theorem get_spans_for_index_string_field_ref indices values : valid_indexed indices values ->
  get_spans_for_index_string_field indices values = Ok (spans_ref bytes_neqb (indexed_rows indices values)).
Proof.
  intros Hv. set (xs := indexed_rows indices values).
  assert (Hxs : len xs = Z.max 0 (len indices - 1)) by apply len_indexed_rows.
  unfold get_spans_for_index_string_field.
  destruct (Z_le_gt_dec (len indices) 1) as [Hsmall|Hbig].
  - (* no rows *)
    assert (Hx0 : xs = []). { destruct xs; [reflexivity|]. rewrite len_cons in Hxs. pose proof (len_nonneg xs). lia. }
    rewrite Hx0. replace (range_len 1 (len indices - 1)) with 0%nat by (unfold range_len; lia).
    cbn [for_range bind]. destruct (1 <? len indices) eqn:E; [lia|]. reflexivity.
  - destruct Hv as [[H0 _]|[Hs [Hl [Hf Hlast]]]]; [lia|].
    set (m := len indices - 1). assert (Hm : 1 <= m) by (unfold m; lia).
    assert (Hxne : xs <> []). { intros H. rewrite H, len_nil in Hxs. lia. }
    rewrite (spans_ref_closed []) by exact Hxne.
    set (ne := fun i => bytes_neqb (nthd [] xs (i - 1)) (nthd [] xs i)).
    assert (Hidx : forall i, 0 <= i <= m -> 0 <= nthZ indices i <= len values).
    { intros i Hi. rewrite <- Hf, <- Hlast. split; apply Hs; unfold m in *; lia. }
    rewrite (acc_loop ne m).
    + cbn [bind]. destruct (1 <? len indices) eqn:E; [|lia].
      fold m. rewrite Z.max_r by lia.
      replace (rev (m :: rev (0 :: F ne m))) with ((0 :: F ne m) ++ [m])
        by (change (rev (m :: rev (0 :: F ne m))) with (rev (rev (0 :: F ne m)) ++ [m]); rewrite rev_involutive; reflexivity).
      cbn [app]. rewrite Hxs, Z.max_r by lia. fold m.
      do 3 f_equal. replace m with (len xs) by (rewrite Hxs; lia). apply F_inner. intros k Hk. reflexivity.
    + intros i acc Hi. unfold idxstr_body.
      rewrite (getZ_ok 31) by (unfold m in *; lia). cbn [bind].
      rewrite (getZ_ok 32) by (unfold m in *; lia). cbn [bind].
      rewrite (getZ_ok 33) by (unfold m in *; lia). cbn [bind].
      pose proof (Hidx (i - 1)) as B1. pose proof (Hidx i) as B2. pose proof (Hidx (i + 1)) as B3.
      assert (S1 : nthZ indices (i - 1) <= nthZ indices i) by (apply Hs; unfold m in *; lia).
      assert (S2 : nthZ indices i <= nthZ indices (i + 1)) by (apply Hs; unfold m in *; lia).
      rewrite !np_slice_slice by lia.
      assert (Hrow : forall k, 0 <= k < m -> nthd [] xs k = slice values (nthZ indices k) (nthZ indices (k + 1))).
      { intros k Hk. unfold xs. rewrite indexed_rows_table. fold m. rewrite nthd_map_zrange by lia. reflexivity. }
      unfold ne. rewrite (Hrow (i - 1)) by lia. rewrite (Hrow i) by lia. replace (i - 1 + 1) with i by lia.
      unfold bytes_neqb.
      destruct (nthZ indices (i + 1) - nthZ indices i =? nthZ indices i - nthZ indices (i - 1)) eqn:El; cbn [negb].
      * destruct (bytes_eqb _ _); reflexivity.
      * assert (Hne : bytes_eqb (slice values (nthZ indices (i - 1)) (nthZ indices i))
                                (slice values (nthZ indices i) (nthZ indices (i + 1))) = false).
        { destruct (bytes_eqb _ _) eqn:Eb; [|reflexivity]. apply bytes_eqb_spec in Eb.
          apply (f_equal len) in Eb. rewrite !len_slice in Eb by lia. lia. }
        rewrite Hne. reflexivity.
Qed.
