(* Proofs/ConcatCsv.v — C16: an output entry, parsed as a CSV line, gives back the
   span's non-empty strings. *)
From Coq Require Import ZArith List Lia Bool ZifyBool.
From EV Require Import Arr ConcatSpec.
Import ListNotations.
Open Scope Z_scope.

(* what follows a field: end of line, or a comma and the rest of the line *)
Definition hd_ok (rest:list Z) : Prop := match rest with [] => True | c :: _ => c = COMMA end.
Definition after (rest:list Z) : list (list Z) :=
  match rest with [] => [] | _ :: more => csv_parse PStart [] more end.

Definition no_comma (w:list Z) : Prop := Forall (fun c => c <> COMMA) w.

Lemma parse_unq : forall w cur rest,
  no_comma w -> hd_ok rest ->
  csv_parse PUnq cur (w ++ rest) = (rev cur ++ w) :: after rest.
Proof.
  induction w as [|c w IH]; intros cur rest Hw Hr.
  - cbn [app]. rewrite app_nil_r. destruct rest as [|r more]; [reflexivity|].
    cbn [hd_ok] in Hr. subst r. cbn [csv_parse after]. rewrite Z.eqb_refl. reflexivity.
  - inversion Hw as [|? ? Hc Hw']; subst. cbn [app csv_parse].
    assert ((c =? COMMA) = false) as -> by lia.
    rewrite IH by assumption. cbn [rev]. rewrite <- app_assoc. reflexivity.
Qed.

Lemma parse_quoted : forall w cur rest,
  hd_ok rest ->
  csv_parse PQ cur (double_quotes w ++ QUOTE :: rest) = (rev cur ++ w) :: after rest.
Proof.
  induction w as [|c w IH]; intros cur rest Hr.
  - cbn [double_quotes flat_map app csv_parse]. rewrite Z.eqb_refl, app_nil_r.
    destruct rest as [|r more]; [reflexivity|].
    cbn [hd_ok] in Hr. subst r. cbn [csv_parse after].
    assert ((COMMA =? QUOTE) = false) as -> by reflexivity. rewrite Z.eqb_refl. reflexivity.
  - cbn [double_quotes flat_map]. fold (double_quotes w).
    destruct (c =? QUOTE) eqn:E.
    + assert (c = QUOTE) by lia. subst c. cbn [app csv_parse]. rewrite !Z.eqb_refl.
      rewrite IH by assumption. cbn [rev]. rewrite <- app_assoc. reflexivity.
    + cbn [app csv_parse]. rewrite E.
      rewrite IH by assumption. cbn [rev]. rewrite <- app_assoc. reflexivity.
Qed.

Lemma needs_quote_false w : needs_quote w = false -> Forall (fun c => c <> COMMA /\ c <> QUOTE) w.
Proof.
  unfold needs_quote. induction w as [|c w IH]; intros H; [constructor|].
  cbn [existsb] in H. apply orb_false_iff in H. destruct H as [H1 H2].
  constructor; [lia|apply IH; exact H2].
Qed.

Lemma parse_escaped w rest :
  w <> [] -> hd_ok rest ->
  csv_parse PStart [] (csv_escape w ++ rest) = w :: after rest.
Proof.
  intros Hw Hr. unfold csv_escape. destruct (needs_quote w) eqn:E.
  - cbn [app csv_parse]. rewrite Z.eqb_refl. rewrite <- app_assoc. cbn [app].
    rewrite parse_quoted by assumption. reflexivity.
  - apply needs_quote_false in E. destruct w as [|c w']; [congruence|].
    inversion E as [|? ? [Hc1 Hc2] E']; subst. cbn [app csv_parse].
    assert ((c =? QUOTE) = false) as -> by lia. assert ((c =? COMMA) = false) as -> by lia.
    rewrite parse_unq; [reflexivity| |assumption].
    unfold no_comma. eapply Forall_impl; [|exact E']. cbn. tauto.
Qed.

Lemma csv_escape_nonnil w : w <> [] -> csv_escape w <> [].
Proof. unfold csv_escape. destruct (needs_quote w); [discriminate|auto]. Qed.

Lemma parse_joined : forall ws,
  ws <> [] -> Forall (fun w => w <> []) ws ->
  intercalate COMMA (map csv_escape ws) <> [] /\
  csv_parse PStart [] (intercalate COMMA (map csv_escape ws)) = ws.
Proof.
  induction ws as [|w ws IH]; intros Hne Hall; [congruence|].
  inversion Hall as [|? ? Hw Hall']; subst. cbn [map intercalate].
  destruct ws as [|w2 t].
  - cbn [map]. split; [apply csv_escape_nonnil; assumption|].
    rewrite <- (app_nil_r (csv_escape w)). rewrite parse_escaped by (try assumption; exact I). reflexivity.
  - assert (Hm : map csv_escape (w2 :: t) = csv_escape w2 :: map csv_escape t) by reflexivity.
    rewrite Hm. rewrite <- Hm.
    destruct (IH ltac:(discriminate) Hall') as [_ IH2].
    split.
    + intros H. apply app_eq_nil in H. destruct H as [H _]. revert H. apply csv_escape_nonnil. assumption.
    + rewrite parse_escaped by (try assumption; reflexivity). cbn [after]. rewrite IH2. reflexivity.
Qed.

Lemma filter_nonempty_all strs : Forall (fun w => w <> []) (filter nonempty strs).
Proof.
  apply Forall_forall. intros w Hw. apply filter_In in Hw. destruct Hw as [_ Hw].
  destruct w; [discriminate|discriminate].
Qed.

Theorem concat_entry_parses_back_proof strs :
  csv_parse_line (concat_entry strs) = filter nonempty strs.
Proof.
  unfold concat_entry. destruct (filter nonempty strs) as [|w ws] eqn:E; [reflexivity|].
  pose proof (filter_nonempty_all strs) as Hall. rewrite E in Hall.
  destruct (parse_joined (w :: ws) ltac:(discriminate) Hall) as [Hnn Hp].
  unfold csv_parse_line. destruct (intercalate COMMA (map csv_escape (w :: ws))) eqn:El; [congruence|].
  exact Hp.
Qed.
