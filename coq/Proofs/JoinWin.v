(* Proofs/JoinWin.v — what a kernel may assume about its window (from Win), and how one
   buffer write extends OutRel.  Shared by the four kind proofs. *)
From Coq Require Import ZArith List Lia Bool ZifyBool.
From EV Require Import Res Arr Join JoinSpec JoinBase JoinIface.
Import ListNotations.
Open Scope Z_scope.

Section Win.
Variables (k:kind) (emit:bool) (L R:list Z) (inv cs:Z).

Record WinFacts (p:kparams) (la lb ra rb:Z) : Prop := mkWF {
  wf_inv : kinv p = inv;
  wf_ioff : ki_off p = la; wf_imax : ki_max p = lb - la;
  wf_joff : kj_off p = ra; wf_jmax : kj_max p = rb - ra;
  wf_la : 0 <= la <= lb; wf_lb : lb <= len L; wf_lcs : lb - la <= cs;
  wf_ra : 0 <= ra <= rb; wf_rb : rb <= len R; wf_rcs : rb - ra <= cs;
  wf_lenl : len (kleft p) = Z.min (la + cs) (len L) - la;
  wf_lenr : len (kright p) = Z.min (ra + cs) (len R) - ra;
  wf_getl : forall site i, 0 <= i < len (kleft p) -> get site (kleft p) i = Ok (nthZ L (la + i));
  wf_getr : forall site j, 0 <= j < len (kright p) -> get site (kright p) j = Ok (nthZ R (ra + j));
  wf_ltrim : if ltrim k emit then Trim L la lb else lb = Z.min (la + cs) (len L);
  wf_rtrim : if rtrim k emit then Trim R ra rb else rb = Z.min (ra + cs) (len R)
}.

Lemma win_facts p la lb ra rb : Win k emit L R inv cs p la lb ra rb -> WinFacts p la lb ra rb.
Proof.
  intros (Hinv & Hio & Him & HcL & Hjo & Hjm & HcR).
  destruct HcL as (HL1 & HL2 & HL3 & HLd & HL5 & HLt). destruct HcR as (HR1 & HR2 & HR3 & HRd & HR5 & HRt).
  assert (Hll : len (kleft p) = Z.min (la + cs) (len L) - la) by (rewrite HLd; apply len_slice; lia).
  assert (Hlr : len (kright p) = Z.min (ra + cs) (len R) - ra) by (rewrite HRd; apply len_slice; lia).
  constructor; try assumption; try lia.
  - intros site i Hi. rewrite (getZ_ok site) by lia. rewrite HLd at 1. rewrite nthZ_slice by lia. reflexivity.
  - intros site j Hj. rewrite (getZ_ok site) by lia. rewrite HRd at 1. rewrite nthZ_slice by lia. reflexivity.
Qed.

(* one more output row written at position r of the buffers *)
Lemma OutRel_push ol orr s s' O x y :
  OutRel k emit ol orr s O -> len (lres s) = cs -> len (rres s) = cs -> 0 <= fr s < cs ->
  fr s' = fr s + 1 -> rres s' = upd (rres s) (fr s) y ->
  (wl k emit = true -> lres s' = upd (lres s) (fr s) x) ->
  OutRel k emit ol orr s' (O ++ [(x, y)]).
Proof.
  intros (HOr & HOl) Hll Hlr Hr Hr' Hrr' Hlr'. unfold OutRel. rewrite Hr', Hrr'.
  rewrite slice_upd_snoc' by lia. rewrite !map_app. cbn [map fst snd]. rewrite app_assoc, HOr.
  split; [reflexivity|].
  destruct (wl k emit) eqn:Ew; [|assumption].
  rewrite (Hlr' eq_refl). rewrite slice_upd_snoc' by lia. rewrite app_assoc, HOl. reflexivity.
Qed.

Lemma OutRel_same ol orr s s' O :
  OutRel k emit ol orr s O -> fr s' = fr s -> rres s' = rres s -> lres s' = lres s ->
  OutRel k emit ol orr s' O.
Proof. intros H H1 H2 H3. unfold OutRel in *. rewrite H1, H2, H3. exact H. Qed.

End Win.

Ltac simp_st := cbn [upd_ijr set_i set_j set_r fi fj fr lres rres finner fii fjj fiimax fjjmax
                     sub_of s_inner s_ii s_jj s_iimax s_jjmax].
