(* Proofs/UniqueUtf8.v — C14: the UTF-8 codec of Model/Unique.v.
   utf8_decode inverts utf8_encode on scalar values, and utf8_encode is an order embedding from
   code-point sequences (numpy's order on str) to byte sequences (the kernels' order). *)
From Coq Require Import ZArith List Lia Bool ZifyBool.
From EV Require Import Res Arr UniqueSpec Unique UniqueOrder.
Import ListNotations.
Open Scope Z_scope.

Ltac Zify.zify_post_hook ::= Z.to_euclidean_division_equations.

Definition cp_range (c:Z) : Prop := 0 <= c < 1114112.

Lemma scalarb_range c : scalarb c = true -> cp_range c.
Proof. unfold scalarb, cp_range. lia. Qed.

(* ---- decode (encode s) = s ---- *)
Lemma utf8_decode_enc1 c r :
  scalarb c = true -> utf8_decode (utf8_enc1 c ++ r) = option_map (cons c) (utf8_decode r).
Proof.
  intros Hc. unfold scalarb in Hc. unfold utf8_enc1.
  destruct (c <? 128) eqn:E1; [|destruct (c <? 2048) eqn:E2; [|destruct (c <? 65536) eqn:E3]];
    cbn [app utf8_decode].
  - replace ((0 <=? c) && (c <? 128)) with true by lia. reflexivity.
  - replace ((0 <=? 192 + c / 64) && (192 + c / 64 <? 128)) with false by lia.
    replace ((194 <=? 192 + c / 64) && (192 + c / 64 <? 224)) with true by lia.
    replace (contb (128 + c mod 64)) with true by (unfold contb; lia).
    replace ((192 + c / 64 - 192) * 64 + (128 + c mod 64 - 128)) with c by lia. reflexivity.
  - replace ((0 <=? 224 + c / 4096) && (224 + c / 4096 <? 128)) with false by lia.
    replace ((194 <=? 224 + c / 4096) && (224 + c / 4096 <? 224)) with false by lia.
    replace ((224 <=? 224 + c / 4096) && (224 + c / 4096 <? 240)) with true by lia.
    replace ((224 + c / 4096 - 224) * 4096 + (128 + (c / 64) mod 64 - 128) * 64 + (128 + c mod 64 - 128))
      with c by lia.
    replace (contb (128 + (c / 64) mod 64)) with true by (unfold contb; lia).
    replace (contb (128 + c mod 64)) with true by (unfold contb; lia).
    replace (2048 <=? c) with true by lia.
    replace (scalarb c) with true by (unfold scalarb; lia). reflexivity.
  - replace ((0 <=? 240 + c / 262144) && (240 + c / 262144 <? 128)) with false by lia.
    replace ((194 <=? 240 + c / 262144) && (240 + c / 262144 <? 224)) with false by lia.
    replace ((224 <=? 240 + c / 262144) && (240 + c / 262144 <? 240)) with false by lia.
    replace ((240 <=? 240 + c / 262144) && (240 + c / 262144 <? 245)) with true by lia.
    replace ((240 + c / 262144 - 240) * 262144 + (128 + (c / 4096) mod 64 - 128) * 4096
             + (128 + (c / 64) mod 64 - 128) * 64 + (128 + c mod 64 - 128)) with c by lia.
    replace (contb (128 + (c / 4096) mod 64)) with true by (unfold contb; lia).
    replace (contb (128 + (c / 64) mod 64)) with true by (unfold contb; lia).
    replace (contb (128 + c mod 64)) with true by (unfold contb; lia).
    replace (65536 <=? c) with true by lia.
    replace (c <? 1114112) with true by lia. reflexivity.
Qed.

Theorem utf8_decode_encode s : forallb scalarb s = true -> utf8_decode (utf8_encode s) = Some s.
Proof.
  induction s as [|c s IH]; intros H; [reflexivity|].
  cbn [forallb] in H. apply andb_prop in H. destruct H as [Hc Hs].
  unfold utf8_encode. cbn [map concat]. rewrite utf8_decode_enc1 by exact Hc.
  fold (utf8_encode s). rewrite IH by exact Hs. reflexivity.
Qed.

(* ---- monotone ---- *)
Lemma enc1_lt c d r1 r2 :
  cp_range c -> cp_range d -> c < d -> lexcmp (utf8_enc1 c ++ r1) (utf8_enc1 d ++ r2) = Lt.
Proof.
  unfold cp_range, utf8_enc1. intros Hc Hd Hlt.
  destruct (c <? 128) eqn:C1; [|destruct (c <? 2048) eqn:C2; [|destruct (c <? 65536) eqn:C3]];
  (destruct (d <? 128) eqn:D1; [|destruct (d <? 2048) eqn:D2; [|destruct (d <? 65536) eqn:D3]]);
  try (exfalso; lia); cbn [app lexcmp];
  repeat match goal with
         | |- context [?a ?= ?b] => destruct (Z.compare_spec a b); try reflexivity; try (exfalso; lia)
         end.
Qed.

Lemma enc1_nonempty c : exists b t, utf8_enc1 c = b :: t.
Proof.
  unfold utf8_enc1. destruct (c <? 128); [eauto|]. destruct (c <? 2048); [eauto|]. destruct (c <? 65536); eauto.
Qed.

Theorem utf8_encode_monotone s t :
  Forall cp_range s -> Forall cp_range t -> lexcmp (utf8_encode s) (utf8_encode t) = lexcmp s t.
Proof.
  intros Hs. revert t. induction Hs as [|c s Hc Hs IH]; intros t Ht.
  - destruct Ht as [|d t Hd Ht]; [reflexivity|]. unfold utf8_encode. cbn [map concat lexcmp].
    destruct (enc1_nonempty d) as [b [r ->]]. reflexivity.
  - destruct Ht as [|d t Hd Ht].
    + unfold utf8_encode. cbn [map concat lexcmp]. destruct (enc1_nonempty c) as [b [r ->]]. reflexivity.
    + unfold utf8_encode. cbn [map concat lexcmp]. fold (utf8_encode s). fold (utf8_encode t).
      destruct (Z.compare_spec c d) as [E|E|E].
      * subst. rewrite lexcmp_app_same. apply IH. exact Ht.
      * apply enc1_lt; assumption.
      * rewrite lexcmp_antisym. rewrite (enc1_lt d c) by assumption. reflexivity.
Qed.

Corollary utf8_encode_injective s t :
  Forall cp_range s -> Forall cp_range t -> utf8_encode s = utf8_encode t -> s = t.
Proof.
  intros Hs Ht E. apply lexcmp_eq. rewrite <- utf8_encode_monotone by assumption. apply lexcmp_eq. exact E.
Qed.

Lemma lexle_encode s t :
  Forall cp_range s -> Forall cp_range t -> lexle (utf8_encode s) (utf8_encode t) = lexle s t.
Proof. intros Hs Ht. unfold lexle. rewrite utf8_encode_monotone by assumption. reflexivity. Qed.

(* ---- numpy's trailing-NUL stripping is the identity on strings that do not end in NUL ---- *)
Lemma strip_nul_id s : last s 1 <> 0 -> strip_nul s = s.
Proof.
  unfold strip_nul. destruct s as [|x s] using rev_ind; intros H; [reflexivity|].
  rewrite last_last in H. rewrite rev_unit. cbn [drop_zeros].
  destruct (x =? 0) eqn:E; [lia|]. rewrite <- rev_unit, rev_involutive. reflexivity.
Qed.

(* valid Python str for the property: scalar code points, not ending in NUL *)
Definition valid_strb (s:list Z) : bool := forallb scalarb s && negb (last s 1 =? 0).

Lemma valid_str_scalar s : valid_strb s = true -> forallb scalarb s = true.
Proof. unfold valid_strb. intros H. apply andb_prop in H. tauto. Qed.

Lemma valid_str_range s : valid_strb s = true -> Forall cp_range s.
Proof.
  intros H. apply valid_str_scalar in H. rewrite forallb_forall in H. apply Forall_forall.
  intros c Hc. apply scalarb_range. apply H. exact Hc.
Qed.

Lemma valid_str_strip s : valid_strb s = true -> strip_nul s = s.
Proof. unfold valid_strb. intros H. apply andb_prop in H. destruct H as [_ H]. apply strip_nul_id. lia. Qed.
