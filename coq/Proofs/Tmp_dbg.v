(* Proofs/GroupFrames.v — from the group-by object to the destination dataframe:
   _write_groupby_keys (hence distinct / drop_duplicates), count, and min/max/first/last on plain
   (numeric, categorical, timestamp, fixed string) target columns produce exactly the columns of
   Spec/GroupSpec.v. *)
From Coq Require Import ZArith List Bool Lia Sorted Permutation.
From EV Require Import Res Arr StableSort StableSortProofs Spans SpansSpec SpansBase SpansRef SpansKernels SpansSorted
  SpansOrder SpansReduce SpansMain FilterIndex FilterIndexSpec FilterIndexKernels FilterIndexSort FilterIndexFrames
  Group GroupSpec GroupCore GroupModel.
Import ListNotations.
Open Scope Z_scope.

(* ---- storage helpers -------------------------------------------------------------------------- *)
Lemma select_body_cells b ps : select_body b ps = encode_like b (gather [] (body_cells b) ps).
Proof. reflexivity. Qed.

Lemma encode_like_kind b cs cs' : encode_like (encode_like b cs) cs' = encode_like b cs'.
Proof. destruct b; reflexivity. Qed.

Lemma select_body_wf b ps : wf_body b -> wf_body (select_body b ps).
Proof.
  intros H. destruct H as [d| |cs].
  - rewrite dat_select. constructor.
  - rewrite unwritten_select. constructor.
  - rewrite idx_select. constructor.
Qed.

Lemma field_len_select b m w ps : wf_body b -> in_range (len (body_cells b)) ps = true ->
  field_len (mkField m w (select_body b ps)) = len ps.
Proof.
  intros Hwf Hr. rewrite field_len_cells by (apply select_body_wf; exact Hwf).
  rewrite field_cells_body. cbn [fbody]. rewrite body_cells_select by assumption. apply len_gather.
Qed.

(* apply_index into a fresh create_like field *)
Lemma apply_index_into_like f idx : wf_body (fbody f) -> in_range (field_len f) idx = true ->
  field_apply_index f idx (Some (create_like f)) false
  = Ok (mkFres f (Some (mkField (fmeta f) true (select_body (fbody f) idx)))
              (mkField (fmeta f) true (select_body (fbody f) idx))).
Proof.
  intros Hwf Hr. rewrite field_index_correct by (try assumption; reflexivity).
  rewrite deliver_target.
  - reflexivity.
  - unfold create_like. cbn [fbody]. destruct (fbody f); exact I.
Qed.

(* apply_index in place on a writeable field *)
Lemma apply_index_in_place m b idx : wf_body b -> in_range (field_len (mkField m true b)) idx = true ->
  field_apply_index (mkField m true b) idx None true
  = Ok (mkFres (mkField m true (select_body b idx)) None (mkField m true (select_body b idx))).
Proof.
  intros Hwf Hr. rewrite field_index_correct by (try assumption; reflexivity).
  cbn [fbody]. rewrite deliver_in_place by reflexivity. reflexivity.
Qed.

(* ---- the group-by object, uniformly in the two paths ---------------------------------------------- *)
(* the column a kernel sees: the column itself on the sorted / hinted path, the permuted column otherwise *)
Definition eff_cells (g:gb) (c:list cell) : list cell :=
  match g_sorted_index g with Some q => gather [] c q | None => c end.

Section WithGroupBy.
Variables (cols:frame) (by_:list Z) (hint:bool) (kr:list (list cell)) (kcs:list (list cell)).
Let n := nrows cols.
Hypothesis Hpre : groupby_pre cols by_ hint = true.
Hypothesis Hkc : key_columns cols by_ = Some kcs.
Hypothesis Hkr : kr = FilterIndexSpec.rows_of n kcs.
Let g := gb_of by_ hint kr.
Let sp := spans_ref rneqb (sort_rows kr).

Lemma n_nonneg : 0 <= n.
Proof.
  destruct (groupby_pre_facts cols by_ hint Hpre) as [? [? H]]. cbn zeta in H.
  decompose [and] H. assumption.
Qed.

Lemma kr_length : length kr = Z.to_nat n.
Proof. rewrite Hkr. apply rows_of_length. Qed.

Lemma kr_row_lengths r : In r kr -> length r = length kcs.
Proof. rewrite Hkr. apply rows_of_row_length. Qed.

Lemma hint_sorted : hint || rows_sortedb bytes_ltb kr = true ->
  StronglySorted (fun a b => GroupSpec.rowle a b = true) kr.
Proof.
  intros H. apply (rows_sortedb_SS kr (length kcs) kr_row_lengths).
  destruct hint eqn:Eh; [|exact H].
  destruct (groupby_pre_facts cols by_ true Hpre) as [kcs' [rd Hf]]. cbn zeta in Hf.
  decompose [and] Hf. rewrite Hkc in *. match goal with H : Some _ = Some _ |- _ => inversion H; subst kcs' end.
  rewrite Hkr. fold n. Show. Abort.
End WithGroupBy.
