(* Proofs/ToCsvTop.v — to_csv as a whole, chunk-size independence, termination, parser round trip,
   to_pandas. *)
From Coq Require Import ZArith List Bool Lia.
From EV Require Import Res Arr ToCsv ToCsvSpec ToCsvParse ToCsvLoop.
Import ListNotations.
Open Scope Z_scope.

(* ---- names and lookups -------------------------------------------------------------------------- *)
Lemma beq_bytes_refl a : beq_bytes a a = true.
Proof. induction a as [|x a IH]; cbn; [reflexivity|]. rewrite Z.eqb_refl, IH. reflexivity. Qed.

Lemma beq_bytes_eq a : forall b, beq_bytes a b = true -> a = b.
Proof.
  induction a as [|x a IH]; intros [|y b] H; cbn in H; try discriminate; [reflexivity|].
  apply andb_prop in H. destruct H as [H1 H2]. apply Z.eqb_eq in H1. subst. f_equal. auto.
Qed.

Lemma mem_name_false_remove n l : mem_name n l = false -> remove_first n l = l.
Proof.
  induction l as [|x l IH]; intros H; [reflexivity|].
  cbn in *. apply orb_false_iff in H. destruct H as [H1 H2]. rewrite H1, IH by assumption. reflexivity.
Qed.

Lemma remove_first_incl n l x : In x (remove_first n l) -> In x l.
Proof.
  induction l as [|y l IH]; cbn; [tauto|].
  destruct (beq_bytes y n); cbn; [tauto|]. intros [H|H]; auto.
Qed.

Lemma map_opt_lookup fr names : forallb (has fr) names = true ->
  map_opt (lookup fr) names = Some (map (column fr) names).
Proof.
  induction names as [|n t IH]; intros H; [reflexivity|].
  cbn in H. apply andb_prop in H. destruct H as [H1 H2].
  cbn [map_opt map]. rewrite IH by assumption. unfold has, column in *.
  destruct (lookup fr n); [reflexivity | discriminate].
Qed.

Lemma has_keys fr : forallb (has fr) (keys fr) = true.
Proof.
  unfold keys. assert (G : forall fr0, (forall n, In n (map fst fr) -> has fr0 n = true) ->
                             forallb (has fr0) (map fst fr) = true).
  { intros fr0 H. apply forallb_forall. intros x Hx. apply H. exact Hx. }
  apply G. clear G. intros n Hn. unfold has.
  induction fr as [|[k d] fr IH]; cbn in *; [tauto|].
  destruct (beq_bytes k n) eqn:E; [reflexivity|].
  destruct Hn as [Hn|Hn]; [subst; rewrite beq_bytes_refl in E; discriminate | auto].
Qed.

Lemma forallb_incl {A} (p:A -> bool) l1 l2 :
  (forall x, In x l1 -> In x l2) -> forallb p l2 = true -> forallb p l1 = true.
Proof.
  intros Hi H. apply forallb_forall. intros x Hx. rewrite forallb_forall in H. auto.
Qed.

(* the names the code ends up with, and that they all exist *)
Definition names0 (fr:frame) (cf:colfilter) : list name :=
  match cf with CF_none => keys fr | CF_str n => [n] | CF_list l => l end.

Lemma names0_has fr cf : cf_valid fr cf = true -> forallb (has fr) (names0 fr cf) = true.
Proof.
  destruct cf as [|n|l]; cbn; intros H.
  - apply has_keys.
  - rewrite H. reflexivity.
  - destruct l; [discriminate | exact H].
Qed.

Lemma validate_ok fr cf : cf_valid fr cf = true ->
  match cf with CF_none => Ok (keys fr) | _ => validate_selected_keys fr cf end = Ok (names0 fr cf).
Proof.
  destruct cf as [|n|l]; cbn; intros H; [reflexivity | rewrite H; reflexivity |].
  destruct l; [discriminate|]. rewrite H. reflexivity.
Qed.

Lemma validate_bad fr cf : cf_valid fr cf = false ->
  match cf with CF_none => Ok (keys fr) | _ => validate_selected_keys fr cf end = Raise E_ValueError.
Proof.
  destruct cf as [|n|l]; cbn; intros H; [discriminate | rewrite H; reflexivity |].
  destruct l; [reflexivity|]. rewrite H. reflexivity.
Qed.

(* ---- fuel ---------------------------------------------------------------------------------------- *)
Definition maxlen (fr:frame) : nat := fold_right (fun f m => Nat.max (length (snd f)) m) O fr.

Lemma lookup_maxlen fr n d : lookup fr n = Some d -> (length d <= maxlen fr)%nat.
Proof.
  induction fr as [|[k e] fr IH]; [discriminate|].
  change (maxlen ((k, e) :: fr)) with (Nat.max (length e) (maxlen fr)).
  cbn [lookup]. destruct (beq_bytes k n); intros H.
  - injection H as ->. lia.
  - specialize (IH H). lia.
Qed.

Lemma column_maxlen fr n : (length (column fr n) <= maxlen fr)%nat.
Proof.
  unfold column. destruct (lookup fr n) eqn:E; [eapply lookup_maxlen; eauto | cbn; lia].
Qed.

Lemma fuel_enough fr chunk fuel n : 0 < chunk -> (fuel >= to_csv_fuel fr chunk)%nat ->
  len (column fr n) - 0 < Z.of_nat fuel * chunk.
Proof.
  intros Hc Hf. unfold to_csv_fuel in Hf. fold (maxlen fr) in Hf.
  pose proof (column_maxlen fr n) as Hm. unfold len.
  rewrite Z.max_r in Hf by lia.
  set (m := Z.of_nat (maxlen fr)) in *.
  assert (Hq : m < (m / chunk + 1) * chunk).
  { pose proof (Z.div_mod m chunk ltac:(lia)) as Hd. pose proof (Z.mod_pos_bound m chunk Hc) as Hb. nia. }
  assert (Hge : m / chunk + 1 <= Z.of_nat fuel).
  { assert (0 <= m / chunk) by (apply Z.div_pos; lia). lia. }
  nia.
Qed.

(* ---- to_csv --------------------------------------------------------------------------------------- *)
Lemma write_row_names names : write_row V_fix (map CStr names) = fix_line names.
Proof.
  cbn [write_row]. rewrite map_map. cbn [cell_text]. rewrite map_id. reflexivity.
Qed.

Lemma written_fix rows : written V_fix rows = concat (map fix_line (map (map cell_text) rows)).
Proof. unfold written. rewrite map_map. reflexivity. Qed.

Theorem to_csv_rows_correct fr rf cf chunk fuel :
  0 < chunk -> cf_valid fr cf = true -> (fuel >= to_csv_fuel fr chunk)%nat ->
  to_csv fuel V_fix fr rf cf chunk = Ok (concat (map fix_line (spec_table fr rf cf))).
Proof.
  intros Hc Hv Hf. unfold to_csv.
  destruct (chunk <=? 0) eqn:E; [lia|].
  rewrite validate_ok by assumption. cbn [bind].
  pose proof (names0_has fr cf Hv) as Hhas.
  set (flt := spec_filter rf).
  assert (Hnames : (let '(flt', names) :=
                      match rf with
                      | RF_none => (None, names0 fr cf)
                      | RF_arr b => (Some b, names0 fr cf)
                      | RF_field own n b => (Some b, if own && mem_name n (names0 fr cf) then remove_first n (names0 fr cf) else names0 fr cf)
                      end in (flt', names)) = (flt, spec_names fr rf cf)).
  { unfold flt, spec_names. fold (names0 fr cf). destruct rf as [|b|own n b]; cbn; try reflexivity.
    destruct own; cbn [andb]; [|reflexivity].
    destruct (mem_name n (names0 fr cf)) eqn:M; [reflexivity|].
    rewrite mem_name_false_remove by assumption. reflexivity. }
  destruct (match rf with
            | RF_none => (None, names0 fr cf)
            | RF_arr b => (Some b, names0 fr cf)
            | RF_field own n b => (Some b, if own && mem_name n (names0 fr cf) then remove_first n (names0 fr cf) else names0 fr cf)
            end) as [flt' names] eqn:Erf.
  cbn in Hnames. injection Hnames as -> ->.
  assert (Hhas' : forallb (has fr) (spec_names fr rf cf) = true).
  { apply (forallb_incl _ _ (names0 fr cf)); [|exact Hhas].
    unfold spec_names. fold (names0 fr cf). destruct rf as [|b|own n b]; auto. destruct own; auto.
    intros x. apply remove_first_incl. }
  rewrite map_opt_lookup by assumption.
  rewrite write_row_names.
  pose proof (csv_loop_ok V_fix (map (column fr) (spec_names fr rf cf)) flt chunk Hc fuel O
                          (fix_line (spec_names fr rf cf))) as HL.
  cbn [Z.of_nat] in HL. rewrite HL.
  - cbn [skipn]. unfold spec_table, spec_rows, select_opt, sel_from. fold flt.
    cbn [map concat]. rewrite written_fix.
    destruct (map (column fr) (spec_names fr rf cf)); destruct flt; reflexivity.
  - destruct (spec_names fr rf cf) as [|n0 t] eqn:En; cbn [map].
    + unfold to_csv_fuel in Hf. lia.
    + split; [apply len_nonneg|]. apply fuel_enough; assumption.
Qed.

(* invalid arguments are rejected with ValueError, never silently *)
Theorem to_csv_rejects fr rf cf chunk fuel :
  chunk <= 0 \/ cf_valid fr cf = false -> to_csv fuel V_fix fr rf cf chunk = Raise E_ValueError.
Proof.
  intros H. unfold to_csv. destruct (chunk <=? 0) eqn:E; [reflexivity|].
  destruct H as [H|H]; [lia|]. rewrite validate_bad by assumption. reflexivity.
Qed.

Theorem to_csv_chunking_unobservable fr rf cf c1 c2 f1 f2 :
  0 < c1 -> 0 < c2 -> (f1 >= to_csv_fuel fr c1)%nat -> (f2 >= to_csv_fuel fr c2)%nat ->
  to_csv f1 V_fix fr rf cf c1 = to_csv f2 V_fix fr rf cf c2.
Proof.
  intros H1 H2 F1 F2. destruct (cf_valid fr cf) eqn:V.
  - rewrite !to_csv_rows_correct by assumption. reflexivity.
  - rewrite !to_csv_rejects by auto. reflexivity.
Qed.

Theorem to_csv_terminates fr rf cf chunk fuel :
  (fuel >= to_csv_fuel fr chunk)%nat -> to_csv fuel V_fix fr rf cf chunk <> OutOfFuel.
Proof.
  intros Hf. destruct (Z_lt_le_dec 0 chunk) as [Hc|Hc].
  - destruct (cf_valid fr cf) eqn:V.
    + rewrite to_csv_rows_correct by assumption. discriminate.
    + rewrite to_csv_rejects by auto. discriminate.
  - rewrite to_csv_rejects by auto. discriminate.
Qed.

(* a standard CSV parser recovers the header and every selected cell *)
Theorem to_csv_parse fr rf cf chunk fuel file :
  0 < chunk -> cf_valid fr cf = true -> (fuel >= to_csv_fuel fr chunk)%nat ->
  to_csv fuel V_fix fr rf cf chunk = Ok file -> csv_parse file = spec_table fr rf cf.
Proof.
  intros Hc Hv Hf H. rewrite to_csv_rows_correct in H by assumption.
  injection H as <-. exact (parse_fix_lines (spec_table fr rf cf)).
Qed.

(* ---- to_pandas ------------------------------------------------------------------------------------ *)
Lemma mask_select {A} (l:list A) : forall m, mask l m = select m l.
Proof.
  induction l as [|x l IH]; intros [|b m]; cbn; try reflexivity. rewrite IH. reflexivity.
Qed.

Lemma all_len_ok fr n names :
  forallb (has fr) names = true ->
  forallb (fun k => len (column fr k) =? n) names = true -> all_len fr n names = Ok tt.
Proof.
  induction names as [|k t IH]; intros H1 H2; [reflexivity|].
  cbn in *. apply andb_prop in H1, H2. destruct H1 as [Hk Ht], H2 as [Lk Lt].
  unfold has, column in *. destruct (lookup fr k); [|discriminate].
  rewrite Lk. apply IH; assumption.
Qed.

Lemma pandas_cols_ok fr rf names :
  forallb (has fr) names = true ->
  match rf with
  | None => True
  | Some m => len m = 0 \/ forallb (fun k => len (column fr k) =? len m) names = true
  end ->
  pandas_cols fr rf names = Ok (map (fun n => (n, select_opt rf (column fr n))) names).
Proof.
  induction names as [|k t IH]; intros H1 H2; [reflexivity|].
  cbn [forallb] in H1. apply andb_prop in H1. destruct H1 as [Hk Ht].
  cbn [pandas_cols map]. unfold has in Hk. unfold column at 1.
  destruct (lookup fr k) as [d|] eqn:L; [|discriminate].
  assert (Hcol : column fr k = d) by (unfold column; rewrite L; reflexivity).
  destruct rf as [m|].
  - assert (Hm : (len m =? len d) || (len m =? 0) = true).
    { destruct H2 as [H2|H2].
      - rewrite H2. cbn. apply orb_true_r.
      - cbn [forallb] in H2. apply andb_prop in H2. destruct H2 as [H2 _]. rewrite Hcol in H2.
        rewrite Z.eqb_sym, H2. reflexivity. }
    rewrite Hm. cbn [bind]. rewrite IH.
    + cbn [bind select_opt]. rewrite mask_select. reflexivity.
    + exact Ht.
    + destruct H2 as [H2|H2]; [left; exact H2|]. right. cbn [forallb] in H2.
      apply andb_prop in H2. tauto.
  - cbn [bind]. rewrite IH by auto. reflexivity.
Qed.

Theorem to_pandas_correct fr rf cf :
  pandas_valid fr rf cf = true -> to_pandas V_fix fr rf cf = Ok (spec_pandas fr rf cf).
Proof.
  unfold pandas_valid, to_pandas, spec_pandas. fold (names0 fr cf).
  intros H. apply andb_prop in H. destruct H as [H H3]. apply andb_prop in H. destruct H as [H1 H2].
  assert (Hchk : match cf with
                 | CF_str _ => Ok tt
                 | _ => match names0 fr cf with
                        | [] => Ok tt
                        | k0 :: _ => match lookup fr k0 with
                                     | None => Raise E_KeyError
                                     | Some d0 => all_len fr (len d0) (names0 fr cf)
                                     end
                        end
                 end = Ok tt).
  { destruct cf as [|n|l]; [| reflexivity |].
    - destruct (names0 fr CF_none) as [|k0 t] eqn:En; [reflexivity|].
      assert (Hk : has fr k0 = true) by (cbn in H1; apply andb_prop in H1; tauto).
      unfold has in Hk. destruct (lookup fr k0) as [d0|] eqn:L; [|discriminate].
      apply all_len_ok; [exact H1|].
      replace (len d0) with (len (column fr k0)) by (unfold column; rewrite L; reflexivity). exact H2.
    - destruct (names0 fr (CF_list l)) as [|k0 t] eqn:En; [reflexivity|].
      assert (Hk : has fr k0 = true) by (cbn in H1; apply andb_prop in H1; tauto).
      unfold has in Hk. destruct (lookup fr k0) as [d0|] eqn:L; [|discriminate].
      apply all_len_ok; [exact H1|].
      replace (len d0) with (len (column fr k0)) by (unfold column; rewrite L; reflexivity). exact H2. }
  assert (Hchk' : match cf with
                  | CF_str _ => Ok tt
                  | _ => match names0 fr cf with
                         | [] => match V_fix with V_orig => Raise E_IndexError | V_fix => Ok tt end
                         | k0 :: _ => match lookup fr k0 with
                                      | None => Raise E_KeyError
                                      | Some d0 => all_len fr (len d0) (names0 fr cf)
                                      end
                         end
                  end = Ok tt) by exact Hchk.
  rewrite Hchk'. cbn [bind].
  rewrite pandas_cols_ok; [reflexivity | exact H1 |].
  destruct rf as [m|]; [|exact I].
  apply orb_prop in H3. destruct H3 as [H3|H3]; [left; apply Z.eqb_eq; exact H3 | right; exact H3].
Qed.
