(* Proofs/IdxReadProofs.v — __getitem__ of the indexed-string wrappers (Model/IdxWriter.v:
   iw_getslice for both classes, iw_getint) returns the entries written, for every in-range
   slice 0 <= a <= b <= n and every item 0 <= i < n, given the stored offsets / bytes. *)
From Coq Require Import ZArith List Lia Bool.
From EV Require Import Res Arr IdxWriter IdxWriterSpec StoreProofs IdxWriterProofs.
Import ListNotations.
Open Scope Z_scope.

(* offset of entry k: the bytes of the first k entries *)
Definition off (strs:list (list Z)) (k:Z) : Z := len (concat (firstn (Z.to_nat k) strs)).

Lemma len_lengths strs : len (lengths strs) = len strs.
Proof. unfold lengths, len. rewrite map_length. reflexivity. Qed.

Lemma len_spec_offsets strs : len (spec_offsets strs) = len strs + 1.
Proof. unfold spec_offsets, psums. rewrite len_psums_from, len_lengths. reflexivity. Qed.

Lemma nthZ_spec_offsets strs k : 0 <= k <= len strs -> nthZ (spec_offsets strs) k = off strs k.
Proof.
  intros Hk. unfold spec_offsets, psums, off.
  rewrite nthZ_psums_from by (rewrite len_lengths; lia).
  unfold lengths. rewrite firstn_map. fold (lengths (firstn (Z.to_nat k) strs)).
  rewrite sumZ_lengths. lia.
Qed.

Lemma off_0 strs : off strs 0 = 0.
Proof. reflexivity. Qed.

Lemma firstn_succ_nth {A} (d:A) (l:list A) k : (k < length l)%nat ->
  firstn (S k) l = firstn k l ++ [nth k l d].
Proof.
  revert k. induction l as [|x t IH]; intros k H; cbn in H; [lia|].
  destruct k; cbn; [reflexivity|]. f_equal. apply IH. lia.
Qed.

Lemma off_succ strs k : 0 <= k < len strs ->
  off strs (k + 1) = off strs k + len (nth (Z.to_nat k) strs []).
Proof.
  intros Hk. unfold off. replace (Z.to_nat (k + 1)) with (S (Z.to_nat k)) by lia.
  rewrite (firstn_succ_nth []) by (unfold len in Hk; lia).
  rewrite concat_app, len_app. cbn [concat]. rewrite app_nil_r. reflexivity.
Qed.

Lemma off_mono strs i j : 0 <= i <= j -> off strs i <= off strs j.
Proof.
  intros H. unfold off.
  rewrite (firstn_split_le strs (Z.to_nat i) (Z.to_nat j)) by lia.
  rewrite concat_app, len_app.
  pose proof (len_nonneg (concat (firstn (Z.to_nat j - Z.to_nat i) (skipn (Z.to_nat i) strs)))). lia.
Qed.

Lemma off_all strs : off strs (len strs) = len (concat strs).
Proof. unfold off. replace (Z.to_nat (len strs)) with (length strs) by (unfold len; lia). rewrite firstn_all. reflexivity. Qed.

Lemma off_le_total strs k : 0 <= k <= len strs -> off strs k <= len (concat strs).
Proof. intros H. rewrite <- off_all. apply off_mono. lia. Qed.

Lemma slice_app_mid {A} (P s R:list A) : slice (P ++ s ++ R) (len P) (len P + len s) = s.
Proof.
  unfold slice. rewrite skipn_len_app.
  replace (len P + len s - len P) with (len s) by lia. apply firstn_len_app.
Qed.

Lemma nth_split_3 {A} (d:A) (l:list A) k : (k < length l)%nat ->
  l = firstn k l ++ [nth k l d] ++ skipn (S k) l.
Proof.
  intros H. rewrite <- (firstn_skipn k l) at 1. f_equal.
  clear - H. revert k H. induction l as [|x t IH]; intros k H; cbn in H; [lia|].
  destruct k; cbn; [reflexivity|]. apply IH. lia.
Qed.

(* the bytes between two consecutive offsets are the entry *)
Lemma slice_concat_entry strs k : 0 <= k < len strs ->
  slice (concat strs) (off strs k) (off strs (k + 1)) = nth (Z.to_nat k) strs [].
Proof.
  intros Hk. rewrite off_succ by lia. unfold off.
  rewrite (nth_split_3 [] strs (Z.to_nat k)) at 1 by (unfold len in Hk; lia).
  rewrite !concat_app. cbn [concat]. rewrite app_nil_r.
  apply slice_app_mid.
Qed.

Lemma skipn_skipn' {A} (l:list A) x a : skipn x (skipn a l) = skipn (a + x) l.
Proof.
  revert l. induction a as [|a IH]; intros l; [reflexivity|].
  destruct l; cbn [skipn Nat.add]; [destruct x; reflexivity|apply IH].
Qed.

Lemma slice_slice {A} (l:list A) a b x y : 0 <= a -> 0 <= x -> x <= y -> a + y <= b ->
  slice (slice l a b) x y = slice l (a + x) (a + y).
Proof.
  intros Ha Hx Hxy Hy. unfold slice.
  rewrite skipn_firstn_comm, firstn_firstn, skipn_skipn'.
  replace (Z.to_nat a + Z.to_nat x)%nat with (Z.to_nat (a + x)) by lia.
  f_equal. lia.
Qed.

Lemma in_rangeZ x m : In x (rangeZ m) -> 0 <= x < m.
Proof.
  unfold rangeZ. intros H. apply in_map_iff in H. destruct H as (k & <- & Hk).
  apply in_seq in Hk. lia.
Qed.

Lemma len_rangeZ m : 0 <= m -> len (rangeZ m) = m.
Proof. intros H. unfold rangeZ, len. rewrite map_length, seq_length. lia. Qed.

Lemma map_res_ok {A B} (f:A -> res B) (g:A -> B) (l:list A) :
  (forall x, In x l -> f x = Ok (g x)) -> map_res f l = Ok (map g l).
Proof.
  induction l as [|x t IH]; intros H; cbn [map_res map]; [reflexivity|].
  rewrite (H x) by (left; reflexivity). cbn [bind].
  rewrite IH by (intros y Hy; apply H; right; exact Hy). reflexivity.
Qed.

Lemma nthd_map_rangeZ {B} (d:B) (g:Z -> B) m i : 0 <= i < m -> nthd d (map g (rangeZ m)) i = g i.
Proof.
  intros H. unfold nthd, rangeZ. rewrite map_map.
  rewrite (nth_indep _ d (g (Z.of_nat 0))) by (rewrite map_length, seq_length; lia).
  rewrite (map_nth (fun k => g (Z.of_nat k)) (seq 0 (Z.to_nat m)) 0%nat).
  rewrite seq_nth by lia. f_equal. lia.
Qed.

Lemma spec_slice_as_map (strs:list (list Z)) a b : 0 <= a -> a <= b -> b <= len strs ->
  map (fun ir => nth (Z.to_nat (a + ir)) strs []) (rangeZ (b - a)) = spec_slice strs a b.
Proof.
  intros Ha Hab Hb. apply (list_eq_nthd (@nil Z)).
  - unfold len at 1. rewrite map_length. fold (len (rangeZ (b - a))). rewrite len_rangeZ by lia.
    unfold spec_slice, len in *. rewrite firstn_length, skipn_length. lia.
  - intros i Hi. unfold len in Hi. rewrite map_length in Hi. fold (len (rangeZ (b - a))) in Hi.
    rewrite len_rangeZ in Hi by lia.
    rewrite nthd_map_rangeZ by lia.
    unfold spec_slice, nthd. rewrite nth_firstn by lia. rewrite nth_skipn. f_equal. lia.
Qed.

(* ---- slices over the specification's offsets --------------------------------------------- *)
Lemma getslice_spec_offsets guard ro strs a b : 0 <= a -> a <= b -> b <= len strs ->
  iw_getslice_gen guard ro (spec_offsets strs) (spec_bytes strs) a b = Ok (spec_slice strs a b).
Proof.
  intros Ha Hab Hb.
  set (ind := spec_offsets strs). set (vals := spec_bytes strs).
  assert (Hli : len ind = len strs + 1) by apply len_spec_offsets.
  unfold iw_getslice_gen.
  (* index = ind[a:b+1] *)
  assert (Hnp : np_slice ind a (b + 1) = slice ind a (b + 1)).
  { unfold np_slice. rewrite Hli. rewrite (np_norm_id _ a) by lia. rewrite (np_norm_id _ (b + 1)) by lia.
    reflexivity. }
  rewrite !Hnp.
  set (index := slice ind a (b + 1)).
  assert (Hlx : len index = b - a + 1) by (unfold index; rewrite len_slice by lia; lia).
  assert (Hix : forall i, 0 <= i <= b - a -> nthZ index i = off strs (a + i)).
  { intros i Hi. unfold index, nthZ. rewrite nthd_slice by lia.
    fold (nthZ ind (a + i)). unfold ind. apply nthZ_spec_offsets. lia. }
  rewrite !Hlx. replace (b - a + 1 =? 0) with false by (symmetry; apply Z.eqb_neq; lia).
  rewrite andb_false_r.
  unfold np_index. cbn [Z.ltb Z.compare].
  rewrite (getZ_ok 10 index 0) by lia. cbn [bind].
  rewrite ?Hlx.
  rewrite (getZ_ok 11 index (-1 + (b - a + 1))) by lia. cbn [bind].
  rewrite Hix by lia. rewrite Hix by lia.
  replace (a + 0) with a by lia. replace (a + (-1 + (b - a + 1))) with b by lia.
  (* bytestr *)
  pose proof (off_mono strs 0 a ltac:(lia)) as Hoa0. rewrite off_0 in Hoa0.
  pose proof (off_mono strs a b ltac:(lia)) as Hoab.
  pose proof (off_le_total strs b ltac:(lia)) as Hob.
  assert (Hlv : len vals = len (concat strs)) by reflexivity.
  assert (Hbs : np_slice vals (off strs a) (off strs b) = slice vals (off strs a) (off strs b)).
  { unfold np_slice. rewrite (np_norm_id _ (off strs a)) by lia. rewrite (np_norm_id _ (off strs b)) by lia.
    reflexivity. }
  rewrite Hbs.
  set (bytestr := slice vals (off strs a) (off strs b)).
  assert (Hlb : len bytestr = off strs b - off strs a) by (unfold bytestr; rewrite len_slice by lia; lia).
  (* startindex *)
  destruct (a <? 0) eqn:Ea; [apply Z.ltb_lt in Ea; lia|].
  rewrite (getZ_ok 12 ind a) by lia. cbn [bind].
  replace (nthZ ind a) with (off strs a) by (symmetry; unfold ind; apply nthZ_spec_offsets; lia).
  (* rmax *)
  replace (b - a + 1 - 1) with (b - a) by lia.
  replace (if ro then b - a else Z.min (b - a) (b - a)) with (b - a) by (destruct ro; lia).
  rewrite (map_res_ok _ (fun ir => nth (Z.to_nat (a + ir)) strs [])).
  - cbn [bind]. replace (b - a - Z.max 0 (b - a)) with 0 by lia. cbn [Z.to_nat repeat].
    rewrite app_nil_r. f_equal. apply spec_slice_as_map; lia.
  - intros ir Hir. apply in_rangeZ in Hir.
    rewrite (getZ_ok 13 index ir) by lia. cbn [bind].
    rewrite (getZ_ok 14 index (ir + 1)) by lia. cbn [bind].
    rewrite Hix by lia. rewrite Hix by lia. f_equal.
    pose proof (off_mono strs a (a + ir) ltac:(lia)) as H1.
    pose proof (off_mono strs (a + ir) (a + (ir + 1)) ltac:(lia)) as H2.
    pose proof (off_mono strs (a + (ir + 1)) b ltac:(lia)) as H3.
    unfold np_slice. rewrite Hlb.
    rewrite (np_norm_id _ (off strs (a + ir) - off strs a)) by lia.
    rewrite (np_norm_id _ (off strs (a + (ir + 1)) - off strs a)) by lia.
    unfold bytestr. rewrite slice_slice by lia.
    replace (off strs a + (off strs (a + ir) - off strs a)) with (off strs (a + ir)) by lia.
    replace (off strs a + (off strs (a + (ir + 1)) - off strs a)) with (off strs (a + ir + 1))
      by (replace (a + ir + 1) with (a + (ir + 1)) by lia; lia).
    unfold vals, spec_bytes. apply slice_concat_entry. lia.
Qed.

(* ---- slices over what the writer stored ------------------------------------------------------ *)
Lemma idx_read_slice_lemma ro strs a b : 0 <= a -> a <= b -> b <= len strs ->
  iw_getslice ro (stored_offsets strs) (spec_bytes strs) a b = Ok (spec_slice strs a b).
Proof.
  intros Ha Hab Hb. unfold iw_getslice. destruct strs as [|s t].
  - (* nothing stored: offsets [] ; the guard answers *)
    unfold len in Hb. cbn [length Z.of_nat] in Hb. assert (a = 0) by lia. assert (b = 0) by lia. subst.
    reflexivity.
  - unfold stored_offsets. apply getslice_spec_offsets; assumption.
Qed.

(* the pinned ReadOnly class has no guard: the empty field raises IndexError (F-C01d) *)
Lemma ro_read_empty_refuted_lemma :
  iw_getslice_orig true (stored_offsets []) (spec_bytes []) 0 0 = OOB 10
  /\ spec_slice (@nil (list Z)) 0 0 = [].
Proof. split; reflexivity. Qed.

(* with at least one entry the pinned class reads correctly too *)
Lemma idx_read_slice_orig_lemma ro strs a b : strs <> [] -> 0 <= a -> a <= b -> b <= len strs ->
  iw_getslice_orig ro (stored_offsets strs) (spec_bytes strs) a b = Ok (spec_slice strs a b).
Proof.
  intros Hne Ha Hab Hb. unfold iw_getslice_orig. destruct strs as [|s t]; [congruence|].
  unfold stored_offsets. apply getslice_spec_offsets; assumption.
Qed.

(* ---- items -------------------------------------------------------------------------------------- *)
Lemma slice_two (l:list Z) i : 0 <= i -> i + 2 <= len l ->
  slice l i (i + 2) = [nthZ l i; nthZ l (i + 1)].
Proof.
  intros Hi Hl. apply (list_eq_nthd 0).
  - rewrite len_slice by lia. unfold len. cbn. lia.
  - intros k Hk. rewrite len_slice in Hk by lia.
    rewrite nthd_slice by lia.
    assert (k = 0 \/ k = 1) as [->| ->] by lia.
    + replace (i + 0) with i by lia. reflexivity.
    + reflexivity.
Qed.

Lemma len_0_nil {A} (l:list A) : len l = 0 -> l = [].
Proof. destruct l; [reflexivity|]. rewrite len_cons. pose proof (len_nonneg l). lia. Qed.

Lemma idx_read_item_lemma strs i : 0 <= i < len strs ->
  iw_getint (stored_offsets strs) (spec_bytes strs) i = Ok (spec_item strs i).
Proof.
  intros Hi. destruct strs as [|s t].
  { unfold len in Hi. cbn in Hi. lia. }
  unfold stored_offsets. set (strs := s :: t) in *.
  unfold iw_getint. rewrite len_spec_offsets.
  destruct (i >=? len strs + 1 - 1) eqn:E; [apply Z.geb_le in E; lia|].
  unfold np_slice at 1. rewrite len_spec_offsets.
  rewrite (np_norm_id _ i) by lia. rewrite (np_norm_id _ (i + 2)) by lia.
  rewrite slice_two by (rewrite ?len_spec_offsets; lia).
  rewrite !nthZ_spec_offsets by lia.
  pose proof (off_succ strs i Hi) as Hs.
  pose proof (slice_concat_entry strs i Hi) as He.
  unfold spec_item.
  destruct (off strs i =? off strs (i + 1)) eqn:Eq.
  - apply Z.eqb_eq in Eq. f_equal. symmetry. apply len_0_nil. lia.
  - f_equal. unfold np_slice.
    pose proof (off_mono strs 0 i ltac:(lia)) as H0. rewrite off_0 in H0.
    pose proof (off_mono strs i (i + 1) ltac:(lia)) as H1.
    pose proof (off_le_total strs (i + 1) ltac:(lia)) as H2.
    assert (Hlv : len (spec_bytes strs) = len (concat strs)) by reflexivity.
    rewrite Hlv. rewrite (np_norm_id _ (off strs i)) by lia. rewrite (np_norm_id _ (off strs (i + 1))) by lia.
    exact He.
Qed.

(* ---- end to end: write through any history, read any slice / item --------------------------------- *)
Lemma idx_end_to_end_lemma (h5:bool) (cs:Z) (ops:list iwop) (ro:bool) (a b:Z) :
  1 <= cs -> hist_ok false ops = true ->
  0 <= a -> a <= b -> b <= len (hist_written [] ops) ->
  (do st <- iw_history h5 cs ops; iw_getslice ro (fst st) (snd st) a b)
  = Ok (spec_slice (hist_written [] ops) a b).
Proof.
  intros Hcs Hok Ha Hab Hb. rewrite idx_writer_roundtrip_lemma by assumption. cbn [bind fst snd].
  apply idx_read_slice_lemma; assumption.
Qed.

Lemma idx_end_to_end_item_lemma (h5:bool) (cs:Z) (ops:list iwop) (i:Z) :
  1 <= cs -> hist_ok false ops = true -> 0 <= i < len (hist_written [] ops) ->
  (do st <- iw_history h5 cs ops; iw_getint (fst st) (snd st) i)
  = Ok (spec_item (hist_written [] ops) i).
Proof.
  intros Hcs Hok Hi. rewrite idx_writer_roundtrip_lemma by assumption. cbn [bind fst snd].
  apply idx_read_item_lemma; assumption.
Qed.

(* the whole column, data[:] = data[0:n] *)
Lemma spec_slice_full {A} (l:list A) : spec_slice l 0 (len l) = l.
Proof. unfold spec_slice. cbn [Z.to_nat skipn]. rewrite Z.sub_0_r. unfold len. rewrite Nat2Z.id. apply firstn_all. Qed.
