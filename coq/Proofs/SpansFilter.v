(* Proofs/SpansFilter.v — the apply_spans_index_of_*_filter kernels (empty spans allowed). *)
From Coq Require Import ZArith List Lia Bool.
From EV Require Import Res Arr Spans SpansSpec SpansBase SpansKernels SpansIndexed SpansOrder SpansReduce SpansMerge.
Import ListNotations.
Open Scope Z_scope.

Lemma upd_same {T} (d:T) (l:list T) i : 0 <= i < len l -> upd l i (nthd d l i) = l.
Proof.
  intros Hi. apply (list_eq_nthd d); [apply len_upd|]. intros j Hj. rewrite len_upd in Hj.
  destruct (Z.eq_dec j i) as [->|Hne]; [apply nthd_upd_same; exact Hi|apply nthd_upd_other; lia].
Qed.

Lemma table_of_list {T} (d:T) (l:list T) : map (nthd d l) (zrange 0 (length l)) = l.
Proof.
  apply (list_eq_nthd d).
  - unfold len. rewrite map_length, zrange_length. reflexivity.
  - intros i Hi. unfold len in Hi. rewrite map_length, zrange_length in Hi. apply nthd_map_zrange. lia.
Qed.

Lemma combine_map {X Y Z'} (f:X -> Y) (g:X -> Z') l : combine (map f l) (map g l) = map (fun x => (f x, g x)) l.
Proof. induction l as [|x t IH]; cbn; [reflexivity|]. rewrite IH. reflexivity. Qed.

Lemma for_range_tabulate2 {B C} (dB:B) (body:Z -> list B * list C -> res (list B * list C))
  (f:Z -> B) (g:Z -> C) (m:Z) (dest0:list B) (flt0:list C) :
  len dest0 = m -> len flt0 = m ->
  (forall i dest flt, 0 <= i < m -> len dest = m -> len flt = m -> nthd dB dest i = nthd dB dest0 i ->
     body i (dest, flt) = Ok (upd dest i (f i), upd flt i (g i))) ->
  for_range (Z.to_nat m) 0 body (dest0, flt0) = Ok (map f (zrange 0 (Z.to_nat m)), map g (zrange 0 (Z.to_nat m))).
Proof.
  intros Hd Hf Hbody. pose proof (len_nonneg dest0) as Hm0.
  destruct (for_range_inv (fun k (st:list B * list C) => let '(dest, flt) := st in
              len dest = m /\ len flt = m /\ 0 <= k <= m /\
              firstn (Z.to_nat k) dest = map f (zrange 0 (Z.to_nat k)) /\
              firstn (Z.to_nat k) flt = map g (zrange 0 (Z.to_nat k)) /\
              (forall j, k <= j < m -> nthd dB dest j = nthd dB dest0 j))
            body (Z.to_nat m) 0 (dest0, flt0)) as [[dest flt] [Hr [Hl1 [Hl2 [_ [H1 [H2 _]]]]]]].
  - repeat split; try assumption; try lia.
  - intros k [dest flt] Hk [Hl1 [Hl2 [Hk2 [H1 [H2 H3]]]]].
    exists (upd dest k (f k), upd flt k (g k)). split; [apply Hbody; try assumption; try lia; apply H3; lia|].
    split; [rewrite len_upd; exact Hl1|]. split; [rewrite len_upd; exact Hl2|]. split; [lia|].
    replace (Z.to_nat (k + 1)) with (S (Z.to_nat k)) by lia. unfold upd.
    rewrite !firstn_succ_upd_nat by (unfold len in *; lia). rewrite zrange_snoc, !map_app, H1, H2. cbn [map].
    replace (0 + Z.of_nat (Z.to_nat k)) with k by lia.
    split; [reflexivity|]. split; [reflexivity|]. intros j Hj. fold (upd dest k (f k)).
    rewrite nthd_upd_other by lia. apply H3. lia.
  - rewrite Hr. replace (0 + Z.of_nat (Z.to_nat m)) with m in H1, H2 by lia.
    rewrite <- H1, <- H2. rewrite !firstn_all_len by assumption. reflexivity.
Qed.

Lemma weak_spans_bounds n sp i : weak_spans n sp -> 0 <= i < len sp - 1 ->
  0 <= nthZ sp i /\ nthZ sp i <= nthZ sp (i + 1) /\ nthZ sp (i + 1) <= n.
Proof.
  intros [Hs [Hl [H0 Hn]]] Hi.
  split; [specialize (Hs 0 i); lia|]. split; [apply Hs; lia|]. specialize (Hs (i + 1) (len sp - 1)). lia.
Qed.

Lemma filter_dest_table {A} (f:Z -> list A -> Z) sp (xs:list A) dest0 : len dest0 = len sp - 1 ->
  filter_dest_ref f sp xs dest0 =
  map (fun i => if nthZ sp i =? nthZ sp (i + 1) then nthZ dest0 i
                else f (nthZ sp i) (slice xs (nthZ sp i) (nthZ sp (i + 1)))) (zrange 0 (Z.to_nat (len sp - 1))).
Proof.
  intros Hl. unfold filter_dest_ref. rewrite span_pairs_zrange.
  rewrite <- (table_of_list 0 dest0) at 1. replace (length dest0) with (Z.to_nat (len sp - 1)) by (unfold len in *; lia).
  rewrite combine_map, map_map. reflexivity.
Qed.
Lemma filter_flags_table sp :
  filter_flags_ref sp = map (fun i => negb (nthZ sp i =? nthZ sp (i + 1))) (zrange 0 (Z.to_nat (len sp - 1))).
Proof. unfold filter_flags_ref. rewrite span_pairs_zrange, map_map. reflexivity. Qed.

Section ArgFilter.
Context {A:Type}.
Variable ltb : A -> A -> bool.
Variable d : A.
Hypothesis Hord : strict_total ltb.

Theorem apply_spans_index_of_min_filter_ref sp (src:list A) dest flt :
  weak_spans (len src) sp -> len dest = len sp - 1 -> len flt = len sp - 1 ->
  apply_spans_index_of_min_filter ltb sp src dest flt =
  Ok (filter_dest_ref (fun a rows => a + argmin_spec ltb rows) sp src dest, filter_flags_ref sp).
Proof.
  intros Hv Hd Hf. pose proof Hv as [_ [Hl _]].
  unfold apply_spans_index_of_min_filter, apply_spans_index_of_filter, range_len.
  replace (len sp - 1 - 0) with (len sp - 1) by lia.
  rewrite filter_dest_table by exact Hd. rewrite filter_flags_table.
  apply (for_range_tabulate2 0); [exact Hd|exact Hf|].
  intros i dst fl Hi Hld Hlf Hsame. destruct (weak_spans_bounds _ _ i Hv) as [B1 [B2 B3]]; [lia|].
  unfold index_of_filter_body. rewrite !getZ_ok by lia. cbn [bind].
  destruct (nthZ sp (i + 1) - nthZ sp i =? 0) eqn:E0.
  - assert (Heq : nthZ sp i =? nthZ sp (i + 1) = true) by (apply Z.eqb_eq; lia). rewrite Heq.
    rewrite set_ok by lia. cbn [bind negb]. change (nthZ dest i) with (nthd 0 dest i). rewrite <- Hsame. rewrite upd_same by lia. reflexivity.
  - assert (Hne : nthZ sp i =? nthZ sp (i + 1) = false) by (apply Z.eqb_neq; lia). rewrite Hne. cbn [negb].
    rewrite (slice_cons d src) by lia.
    destruct (nthZ sp (i + 1) - nthZ sp i =? 1) eqn:E1.
    + rewrite !set_ok by lia. cbn [bind]. do 3 f_equal.
      replace (nthZ sp (i + 1)) with (nthZ sp i + 1) by lia. rewrite slice_empty.
      unfold argmin_spec, is_least. cbn [find_index forallb]. rewrite (proj1 Hord). cbn. lia.
    + rewrite set_ok by lia. cbn [bind]. rewrite np_slice_slice by lia. rewrite (slice_cons d src) by lia.
      rewrite (argmin_spec_correct ltb d Hord). cbn [bind]. rewrite set_ok by lia. reflexivity.
Qed.
End ArgFilter.

Theorem apply_spans_index_of_max_filter_ref {A} (ltb:A -> A -> bool) (d:A) sp (src:list A) dest flt :
  strict_total ltb -> weak_spans (len src) sp -> len dest = len sp - 1 -> len flt = len sp - 1 ->
  apply_spans_index_of_max_filter ltb sp src dest flt =
  Ok (filter_dest_ref (fun a rows => a + argmax_spec ltb rows) sp src dest, filter_flags_ref sp).
Proof.
  intros Hord. exact (apply_spans_index_of_min_filter_ref (flip_ltb ltb) d (strict_total_flip ltb Hord) sp src dest flt).
Qed.

Theorem apply_spans_index_of_first_filter_ref {A} sp (xs:list A) dest flt :
  sorted sp -> 1 <= len sp -> len dest = len sp - 1 -> len flt = len sp - 1 ->
  apply_spans_index_of_first_filter sp dest flt =
  Ok (filter_dest_ref (fun a (_:list A) => a) sp xs dest, filter_flags_ref sp).
Proof.
  intros Hs Hl Hd Hf. unfold apply_spans_index_of_first_filter, range_len.
  replace (len sp - 1 - 0) with (len sp - 1) by lia.
  rewrite filter_dest_table by exact Hd. rewrite filter_flags_table.
  apply (for_range_tabulate2 0); [exact Hd|exact Hf|].
  intros i dst fl Hi Hld Hlf Hsame. assert (B2 : nthZ sp i <= nthZ sp (i + 1)) by (apply Hs; lia).
  unfold first_filter_body. rewrite !getZ_ok by lia. cbn [bind].
  destruct (nthZ sp (i + 1) - nthZ sp i =? 0) eqn:E0.
  - assert (Heq : nthZ sp i =? nthZ sp (i + 1) = true) by (apply Z.eqb_eq; lia). rewrite Heq.
    rewrite set_ok by lia. cbn [bind negb]. change (nthZ dest i) with (nthd 0 dest i). rewrite <- Hsame. rewrite upd_same by lia. reflexivity.
  - assert (Hne : nthZ sp i =? nthZ sp (i + 1) = false) by (apply Z.eqb_neq; lia). rewrite Hne. cbn [negb].
    rewrite !set_ok by lia. reflexivity.
Qed.

Theorem apply_spans_index_of_last_filter_ref {A} sp (xs:list A) dest flt :
  weak_spans (len xs) sp -> len dest = len sp - 1 -> len flt = len sp - 1 ->
  apply_spans_index_of_last_filter sp dest flt =
  Ok (filter_dest_ref (fun a (rows:list A) => a + len rows - 1) sp xs dest, filter_flags_ref sp).
Proof.
  intros Hv Hd Hf. pose proof Hv as [_ [Hl _]]. unfold apply_spans_index_of_last_filter, range_len.
  replace (len sp - 1 - 0) with (len sp - 1) by lia.
  rewrite filter_dest_table by exact Hd. rewrite filter_flags_table.
  apply (for_range_tabulate2 0); [exact Hd|exact Hf|].
  intros i dst fl Hi Hld Hlf Hsame. destruct (weak_spans_bounds _ _ i Hv) as [B1 [B2 B3]]; [lia|].
  unfold last_filter_body. rewrite !getZ_ok by lia. cbn [bind].
  destruct (nthZ sp (i + 1) - nthZ sp i =? 0) eqn:E0.
  - assert (Heq : nthZ sp i =? nthZ sp (i + 1) = true) by (apply Z.eqb_eq; lia). rewrite Heq.
    rewrite set_ok by lia. cbn [bind negb]. change (nthZ dest i) with (nthd 0 dest i). rewrite <- Hsame. rewrite upd_same by lia. reflexivity.
  - assert (Hne : nthZ sp i =? nthZ sp (i + 1) = false) by (apply Z.eqb_neq; lia). rewrite Hne. cbn [negb].
    rewrite !set_ok by lia. cbn [bind].
    rewrite len_slice by lia. do 3 f_equal. lia.
Qed.
