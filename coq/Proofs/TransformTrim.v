(* Proofs/TransformTrim.v — trimming a byte string at both ends by a predicate (bytes.strip(), the blank
   loops of numeric_bool_transform): decomposition  l = w1 ++ core ++ w2. *)
From Coq Require Import ZArith List Bool Lia ZifyBool.
From EV Require Import Res Arr Transform TransformSpec TransformBase.
Import ListNotations.
Open Scope Z_scope.

Section Trim.
  Variable p : Z -> bool.

  Fixpoint dropw (l:list Z) : list Z :=
    match l with b :: t => if p b then dropw t else l | [] => [] end.
  Definition trimw (l:list Z) : list Z := rev (dropw (rev (dropw l))).

  (* a trimmed core: empty, or its first and last bytes are kept *)
  Definition core_ok (core:list Z) : Prop :=
    core = [] \/ ((exists h t, core = h :: t /\ p h = false) /\ (exists f x, core = f ++ [x] /\ p x = false)).

  Lemma dropw_all w r : forallb p w = true -> dropw (w ++ r) = dropw r.
  Proof.
    induction w as [|b w IH]; intros H; [reflexivity|].
    cbn [forallb] in H. apply andb_prop in H. destruct H as [Hb Hw].
    cbn [app dropw]. rewrite Hb. apply IH. exact Hw.
  Qed.

  Lemma dropw_decomp l : exists w r, l = w ++ r /\ forallb p w = true /\ dropw l = r /\
    (r = [] \/ exists b t, r = b :: t /\ p b = false).
  Proof.
    induction l as [|b l IH].
    - exists [], []. repeat split. left. reflexivity.
    - destruct (p b) eqn:E.
      + destruct IH as [w [r [H1 [H2 [H3 H4]]]]]. exists (b :: w), r. cbn [app forallb dropw]. rewrite E, H2, H3.
        repeat split; [rewrite H1; reflexivity|exact H4].
      + exists [], (b :: l). cbn [app forallb dropw]. rewrite E. repeat split. right. exists b, l. split; [reflexivity|exact E].
  Qed.

  Lemma forallb_rev w : forallb p (rev w) = forallb p w.
  Proof.
    induction w as [|b w IH]; [reflexivity|]. cbn [rev forallb]. rewrite forallb_app, IH. cbn [forallb].
    rewrite andb_true_r. apply andb_comm.
  Qed.

  Lemma trimw_decomp l : exists w1 core w2, l = w1 ++ core ++ w2 /\ forallb p w1 = true /\ forallb p w2 = true /\
    trimw l = core /\ core_ok core /\ (core = [] -> w2 = []).
  Proof.
    destruct (dropw_decomp l) as [w1 [r [H1 [H2 [H3 H4]]]]].
    destruct (dropw_decomp (rev r)) as [w2 [r' [G1 [G2 [G3 G4]]]]].
    exists w1, (rev r'), (rev w2).
    assert (Hr : r = rev r' ++ rev w2).
    { rewrite <- rev_app_distr, <- G1, rev_involutive. reflexivity. }
    repeat split.
    - rewrite H1, Hr. reflexivity.
    - exact H2.
    - rewrite forallb_rev. exact G2.
    - unfold trimw. rewrite H3, G3. reflexivity.
    - destruct G4 as [->|[x [t [-> Hx]]]]; [left; reflexivity|]. right. split.
      + destruct H4 as [->|[b [t' [-> Hb]]]].
        * cbn [rev] in G1. destruct w2; discriminate.
        * cbn [rev] in Hr |- *. destruct (rev t) as [|h u] eqn:Et.
          -- cbn [app]. exists x, []. split; [reflexivity|exact Hx].
          -- cbn [app] in Hr |- *. inversion Hr; subst. exists h, (u ++ [x]). split; [reflexivity|exact Hb].
      + cbn [rev]. exists (rev t), x. split; [reflexivity|exact Hx].
    - intros Hn. destruct r' as [|x t]; [|cbn [rev] in Hn; destruct (rev t); discriminate].
      destruct H4 as [->|[b [t' [-> Hb]]]].
      + cbn [rev] in G1. destruct w2; [reflexivity|discriminate].
      + rewrite app_nil_r in G1. rewrite <- G1, forallb_rev in G2. cbn [forallb] in G2. rewrite Hb in G2. discriminate.
  Qed.

  Lemma trimw_of w1 core w2 : forallb p w1 = true -> forallb p w2 = true -> core_ok core ->
    trimw (w1 ++ core ++ w2) = core.
  Proof.
    intros H1 H2 Hc. unfold trimw. rewrite dropw_all by exact H1.
    destruct Hc as [->|[[h [t [-> Hh]]] [f [x [Ef Hx]]]]].
    - cbn [app]. rewrite <- (app_nil_r w2), dropw_all by exact H2. cbn [dropw rev]. reflexivity.
    - cbn [app dropw]. rewrite Hh. rewrite app_comm_cons, Ef, rev_app_distr.
      rewrite dropw_all by (rewrite forallb_rev; exact H2).
      rewrite rev_app_distr. cbn [rev app dropw]. rewrite Hx.
      change (x :: rev f) with (rev [x] ++ rev f). rewrite <- rev_app_distr, rev_involutive. reflexivity.
  Qed.

  Lemma trimw_idem l : trimw (trimw l) = trimw l.
  Proof.
    destruct (trimw_decomp l) as [w1 [core [w2 [_ [_ [_ [-> [Hc _]]]]]]]].
    pose proof (trimw_of [] core [] eq_refl eq_refl Hc) as H. cbn [app] in H. rewrite app_nil_r in H. exact H.
  Qed.

  Lemma forallb_nthZ w j : forallb p w = true -> 0 <= j < len w -> p (nthZ w j) = true.
  Proof.
    intros H Hj. rewrite forallb_forall in H. apply H. unfold nthZ, nthd. apply nth_In. unfold len in Hj. lia.
  Qed.
End Trim.

Lemma ltrim32_dropw l : ltrim32 l = dropw (fun b => b =? 32) l.
Proof. induction l as [|b l IH]; [reflexivity|]. cbn [ltrim32 dropw]. rewrite IH. reflexivity. Qed.

Lemma trim32_trimw l : trim32 l = trimw (fun b => b =? 32) l.
Proof. unfold trim32, trimw. rewrite !ltrim32_dropw. reflexivity. Qed.

Lemma lstrip_dropw l : lstrip l = dropw is_ws l.
Proof. induction l as [|b l IH]; [reflexivity|]. cbn [lstrip dropw]. rewrite IH. reflexivity. Qed.

Lemma strip_trimw l : strip l = trimw is_ws l.
Proof. unfold strip, rstrip, trimw. rewrite !lstrip_dropw. reflexivity. Qed.

Lemma strip_idem l : strip (strip l) = strip l.
Proof. rewrite !strip_trimw. apply trimw_idem. Qed.

(* the middle of a buffer *)
Lemma slice_mid {A} (X c Y:list A) : slice (X ++ c ++ Y) (len X) (len X + len c) = c.
Proof.
  unfold slice, len. rewrite Nat2Z.id. rewrite skipn_app, skipn_all, Nat.sub_diag. cbn [skipn app].
  replace (Z.to_nat (Z.of_nat (length X) + Z.of_nat (length c) - Z.of_nat (length X))) with (length c) by lia.
  rewrite firstn_app, firstn_all, Nat.sub_diag. cbn [firstn]. apply app_nil_r.
Qed.
