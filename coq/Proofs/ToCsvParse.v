(* Proofs/ToCsvParse.v — the reference parser recovers every record written by _csv_line. *)
From Coq Require Import ZArith List Bool Lia.
From EV Require Import Res Arr ToCsv ToCsvSpec.
Import ListNotations.
Open Scope Z_scope.

Lemma fold_step_app a b s : fold_left step (a ++ b) s = fold_left step b (fold_left step a s).
Proof. apply fold_left_app. Qed.

Ltac bytes_consts := unfold COMMA, QUOTE, LF, CR, BLANK in *.

(* ---- inside a quoted field ------------------------------------------------------------------ *)
Lemma iq_body s : forall fld rec recs,
  fold_left step (dquote s) (mkp IQ fld rec recs) = mkp IQ (List.rev s ++ fld) rec recs.
Proof.
  induction s as [|c t IH]; intros fld rec recs; [reflexivity|].
  cbn [dquote]. destruct (c =? QUOTE) eqn:E.
  - apply Z.eqb_eq in E. subst c. cbn [fold_left step]. bytes_consts. cbn.
    rewrite IH. cbn [List.rev]. rewrite <- app_assoc. reflexivity.
  - cbn [fold_left step]. rewrite E. rewrite IH. cbn [List.rev]. rewrite <- app_assoc. reflexivity.
Qed.

(* ---- inside an unquoted field --------------------------------------------------------------- *)
Lemma if_body t : forall fld rec recs, any fix_special t = false ->
  fold_left step t (mkp IF fld rec recs) = mkp IF (List.rev t ++ fld) rec recs.
Proof.
  induction t as [|c t IH]; intros fld rec recs H; [reflexivity|].
  cbn [any] in H. apply orb_false_iff in H. destruct H as [Hc Ht].
  unfold fix_special in Hc. repeat (apply orb_false_iff in Hc; destruct Hc as [Hc ?]).
  cbn [fold_left step]. rewrite H0, H, Hc. rewrite (IH _ _ _ Ht).
  cbn [List.rev]. rewrite <- app_assoc. reflexivity.
Qed.

(* the state reached after a complete cell and the byte that follows it *)
Definition after_cell (d:Z) (s:bytes) (rec:list bytes) (recs:list (list bytes)) : pstate :=
  if d =? COMMA then mkp SF [] (s :: rec) recs
  else mkp SR [] [] (List.rev (s :: rec) :: recs).

Lemma cell_then d s rec recs : (d = COMMA \/ d = LF) ->
  fold_left step (fix_cell s ++ [d]) (mkp SF [] rec recs) = after_cell d s rec recs.
Proof.
  intros Hd. unfold fix_cell, after_cell.
  destruct (starts_blank s || any fix_special s) eqn:Q.
  - (* quoted *)
    change (QUOTE :: dquote s ++ [QUOTE]) with ([QUOTE] ++ dquote s ++ [QUOTE]).
    rewrite <- !app_assoc. rewrite fold_step_app.
    assert (H1 : fold_left step [QUOTE] (mkp SF [] rec recs) = mkp IQ [] rec recs) by reflexivity.
    rewrite H1. rewrite fold_step_app, iq_body. rewrite app_nil_r.
    destruct Hd as [-> | ->]; cbn; unfold close_rec; rewrite rev_involutive; reflexivity.
  - (* bare *)
    apply orb_false_iff in Q. destruct Q as [Hb Hs].
    destruct s as [|c t].
    + destruct Hd as [-> | ->]; reflexivity.
    + cbn [any] in Hs. apply orb_false_iff in Hs. destruct Hs as [Hc Ht].
      assert (Hc' := Hc). unfold fix_special in Hc'.
      repeat (apply orb_false_iff in Hc'; destruct Hc' as [Hc' ?]).
      cbn [app fold_left].
      assert (H2 : step (mkp SF [] rec recs) c = mkp IF [c] rec recs).
      { cbn [step]. unfold step_sf. rewrite H, H0, H1, Hc'. reflexivity. }
      rewrite H2. rewrite fold_step_app, (if_body _ _ _ _ Ht).
      change (List.rev t ++ [c]) with (List.rev t ++ [c]).
      assert (Hr : List.rev (List.rev t ++ [c]) = c :: t).
      { rewrite rev_app_distr, rev_involutive. reflexivity. }
      destruct Hd as [-> | ->]; cbn; unfold close_rec; rewrite Hr; reflexivity.
Qed.

(* a record of one or more cells, starting in SF *)
Lemma row_from_sf row : row <> [] -> forall rec recs,
  fold_left step (join (map fix_cell row) ++ [LF]) (mkp SF [] rec recs)
  = mkp SR [] [] (List.rev (List.rev row ++ rec) :: recs).
Proof.
  induction row as [|c t IH]; intros Hne rec recs; [congruence|].
  destruct t as [|c2 t'].
  - cbn [map join]. rewrite cell_then by auto. reflexivity.
  - change (join (map fix_cell (c :: c2 :: t'))) with (fix_cell c ++ COMMA :: join (map fix_cell (c2 :: t'))).
    rewrite <- app_assoc. cbn [app].
    change (fix_cell c ++ COMMA :: join (map fix_cell (c2 :: t')) ++ [LF])
      with (fix_cell c ++ [COMMA] ++ (join (map fix_cell (c2 :: t')) ++ [LF])).
    rewrite app_assoc, fold_step_app. rewrite cell_then by auto.
    unfold after_cell. rewrite Z.eqb_refl. rewrite IH by discriminate.
    cbn [List.rev]. rewrite <- !app_assoc. reflexivity.
Qed.

(* SR and SF treat a byte alike unless it is a line end *)
Lemma sr_as_sf c l recs : c <> LF -> c <> CR ->
  fold_left step (c :: l) (mkp SR [] [] recs) = fold_left step (c :: l) (mkp SF [] [] recs).
Proof.
  intros H1 H2. cbn [fold_left step]. unfold step_sr.
  apply Z.eqb_neq in H1. apply Z.eqb_neq in H2. rewrite H1, H2. reflexivity.
Qed.

Lemma fix_cell_head s : s <> [] -> exists c l, fix_cell s = c :: l /\ c <> LF /\ c <> CR.
Proof.
  intros Hs. unfold fix_cell. destruct (starts_blank s || any fix_special s) eqn:Q.
  - exists QUOTE, (dquote s ++ [QUOTE]). bytes_consts. repeat split; lia.
  - destruct s as [|c t]; [congruence|]. exists c, t. split; [reflexivity|].
    apply orb_false_iff in Q. destruct Q as [_ Q]. cbn [any] in Q.
    apply orb_false_iff in Q. destruct Q as [Q _]. unfold fix_special in Q.
    repeat (apply orb_false_iff in Q; destruct Q as [Q ?]).
    apply Z.eqb_neq in H, H0. auto.
Qed.

Lemma join_head c t : exists l, join (c :: t) = c ++ l.
Proof. destruct t; cbn [join]; [exists []; rewrite app_nil_r; reflexivity | eauto]. Qed.

(* one written line, from the start of a record *)
Lemma line_from_sr row recs :
  fold_left step (fix_line row) (mkp SR [] [] recs) = mkp SR [] [] (row :: recs).
Proof.
  unfold fix_line.
  destruct row as [|c t].
  - reflexivity.
  - destruct (join (map fix_cell (c :: t))) as [|b0 l0] eqn:J.
    + (* the line is empty: a single empty cell *)
      assert (Hc : fix_cell c = []).
      { cbn [map] in J. destruct (join_head (fix_cell c) (map fix_cell t)) as [l Hl]. rewrite Hl in J.
        apply app_eq_nil in J. tauto. }
      assert (c = []).
      { unfold fix_cell in Hc. destruct (starts_blank c || any fix_special c); [discriminate | exact Hc]. }
      subst c. destruct t as [|c2 t'].
      * reflexivity.
      * cbn [map join] in J. rewrite Hc in J. discriminate.
    + (* a non-empty line *)
      assert (Hline : (match c :: t, b0 :: l0 with [_], [] => [QUOTE; QUOTE] | _, _ => b0 :: l0 end) = b0 :: l0).
      { destruct t; reflexivity. }
      rewrite Hline. clear Hline.
      assert (Hb : b0 <> LF /\ b0 <> CR).
      { cbn [map] in J.
        destruct c as [|c0 c'].
        - (* first cell empty and bare: the line starts with a comma *)
          destruct t as [|c2 t'].
          + cbn [map join] in J. discriminate.
          + cbn [map join] in J. change (fix_cell []) with (@nil Z) in J. cbn [app] in J.
            injection J as J1 _. subst b0. bytes_consts. lia.
        - destruct (join_head (fix_cell (c0 :: c')) (map fix_cell t)) as [l Hl]. rewrite Hl in J.
          destruct (fix_cell_head (c0 :: c')) as [x [y [Hxy [Hx1 Hx2]]]]; [discriminate|].
          rewrite Hxy in J. cbn [app] in J. injection J as J1 _. subst b0. auto. }
      destruct Hb as [Hb1 Hb2].
      cbn [app]. rewrite sr_as_sf by assumption.
      change (b0 :: l0 ++ [LF]) with ((b0 :: l0) ++ [LF]). rewrite <- J.
      rewrite row_from_sf by discriminate. rewrite app_nil_r, rev_involutive. reflexivity.
Qed.

Lemma lines_from_sr rows : forall recs,
  fold_left step (concat (map fix_line rows)) (mkp SR [] [] recs) = mkp SR [] [] (List.rev rows ++ recs).
Proof.
  induction rows as [|r t IH]; intros recs; [reflexivity|].
  cbn [map concat]. rewrite fold_step_app, line_from_sr, IH.
  cbn [List.rev]. rewrite <- app_assoc. reflexivity.
Qed.

(* the reference parser recovers every cell of every record written by _csv_line, for arbitrary cell texts *)
Theorem parse_fix_lines rows : csv_parse (concat (map fix_line rows)) = rows.
Proof.
  unfold csv_parse, p_init. rewrite lines_from_sr. cbn [finish]. rewrite app_nil_r. apply rev_involutive.
Qed.
