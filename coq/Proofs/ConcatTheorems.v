(* Proofs/ConcatTheorems.v — C16: the exported statements. *)
From Coq Require Import ZArith List Lia Bool ZifyBool.
From EV Require Import Res Arr Concat ConcatSpec ConcatLists ConcatKernel ConcatSpan ConcatBatch ConcatSession ConcatCsv.
Import ListNotations.
Open Scope Z_scope.

(* ---- the repaired driver equals the specification, for every chunk parameter ---------- *)
Lemma session_concat_correct_proof strs spans csz dcs mult fuel :
  spans_in_range spans (len strs) -> 1 <= csz -> 0 <= dcs * mult ->
  fits (dcs * mult) (concat_spec spans strs) ->
  (length spans < fuel)%nat ->
  session_concat fuel spans (psums (map (@len Z) strs)) (concat strs) csz dcs mult
  = Ok (spec_indices (concat_spec spans strs), spec_values (concat_spec spans strs)).
Proof.
  intros Hr Hc HN Hf Hfuel. unfold session_concat, session_concat_gen, np_zeros.
  assert ((csz + 1 <? 0) = false) as -> by lia. assert ((dcs * mult <? 0) = false) as -> by lia.
  cbn [bind].
  apply (session_loop_ok strs spans csz (dcs * mult) Hr Hc Hf fuel 0%nat).
  - lia.
  - rewrite len_repeat. lia.
  - rewrite len_repeat. lia.
  - intros _. replace (Z.to_nat (csz + 1)) with (S (Z.to_nat csz)) by lia. cbn [repeat]. eauto.
  - rewrite (m_spans strs spans). lia.
Qed.

Lemma concat_chunking_unobservable_proof strs spans csz1 dcs1 mult1 csz2 dcs2 mult2 fuel1 fuel2 :
  spans_in_range spans (len strs) ->
  1 <= csz1 -> 0 <= dcs1 * mult1 -> fits (dcs1 * mult1) (concat_spec spans strs) -> (length spans < fuel1)%nat ->
  1 <= csz2 -> 0 <= dcs2 * mult2 -> fits (dcs2 * mult2) (concat_spec spans strs) -> (length spans < fuel2)%nat ->
  session_concat fuel1 spans (psums (map (@len Z) strs)) (concat strs) csz1 dcs1 mult1
  = session_concat fuel2 spans (psums (map (@len Z) strs)) (concat strs) csz2 dcs2 mult2.
Proof.
  intros. rewrite !session_concat_correct_proof by assumption. reflexivity.
Qed.

(* ---- dest.data[:] read back from the stored arrays is the list of entries -------------- *)
Lemma slice_app_mid {A} (pre e post:list A) : slice (pre ++ e ++ post) (len pre) (len pre + len e) = e.
Proof.
  unfold slice. rewrite to_nat_len. replace (len pre + len e - len pre) with (len e) by lia.
  rewrite to_nat_len. rewrite skipn_app, skipn_all, Nat.sub_diag. cbn [app skipn].
  apply firstn_app_exact.
Qed.

Lemma adjacent_cons2 a b t : adjacent (a :: b :: t) = (a, b) :: adjacent (b :: t).
Proof. reflexivity. Qed.

Lemma adjacent_psums : forall ents pre post,
  map (fun p => slice (pre ++ concat ents ++ post) (fst p) (snd p))
      (adjacent (psums_from (len pre) (map (@len Z) ents))) = ents.
Proof.
  induction ents as [|e t IH]; intros pre post; [reflexivity|].
  cbn [map psums_from concat]. rewrite (psums_from_offs (len pre + len e)).
  rewrite adjacent_cons2. cbn [map fst snd]. rewrite <- psums_from_offs.
  rewrite <- app_assoc. rewrite slice_app_mid. f_equal.
  rewrite <- (len_app pre e). rewrite app_assoc. apply IH.
Qed.

Lemma read_all_spec_proof ents : read_all (spec_indices ents) (spec_values ents) = ents.
Proof.
  destruct ents as [|e t]; [reflexivity|].
  unfold spec_indices, spec_values, read_all, psums.
  set (E := e :: t). rewrite (psums_from_offs 0). 
  rewrite <- (psums_from_offs 0 (map (@len Z) E)).
  rewrite psums_from_last, Z.add_0_l, <- len_concat, slice_full.
  erewrite map_ext; [|intros p; rewrite !Z.sub_0_r; reflexivity].
  pose proof (adjacent_psums E [] []) as H. rewrite app_nil_r in H. exact H.
Qed.

(* ---- the driver as found (session_concat_v0) --------------------------------------------- *)
Definition w_strs : list (list Z) := [[97]; [98]; [99]; [100]; [101]; [102]].
Definition w_spans : list Z := [0; 1; 2; 3; 4; 5; 6].

(* F-C16a: six one-letter strings, six spans, src_chunksize = 2: four batches; the stored
   offsets are not the prefix sums (the spec is [0;1;2;3;4;5;6]) *)
Lemma concat_batches_refuted_proof :
  exists strs spans csz dcs mult,
    spans_in_range spans (len strs) /\ 1 <= csz /\ 0 <= dcs * mult /\ fits (dcs * mult) (concat_spec spans strs) /\
    session_concat_v0 (session_fuel spans) spans (psums (map (@len Z) strs)) (concat strs) csz dcs mult
    = Ok ([0; 1; 2; 3; 3; 4; 3], [97; 98; 99; 100; 101; 102]) /\
    spec_indices (concat_spec spans strs) = [0; 1; 2; 3; 4; 5; 6].
Proof.
  exists w_strs, w_spans, 2, 16, 1.
  split; [unfold spans_in_range, w_spans, w_strs; repeat constructor; vm_compute; congruence|].
  split; [lia|]. split; [lia|].
  split; [intros e He; vm_compute in He; repeat (destruct He as [<-|He]; [vm_compute; congruence|]); contradiction|].
  split; vm_compute; reflexivity.
Qed.

(* F-C16b: src_chunksize = 1: the first batch writes slot 1 of a one-slot index buffer *)
Lemma concat_chunksize1_oob_refuted_proof :
  session_concat_v0 (session_fuel [0; 2]) [0; 2] (psums (map (@len Z) [[97]; [98]])) (concat [[97]; [98]]) 1 16 1
  = OOB 6.
Proof. vm_compute. reflexivity. Qed.

(* ---- stated on the arrays of a stored column (an empty column has an empty index array) -- *)
Lemma session_concat_field_proof strs spans csz dcs mult fuel :
  spans_in_range spans (len strs) -> (strs <> [] \/ (length spans <= 1)%nat) ->
  1 <= csz -> 0 <= dcs * mult ->
  fits (dcs * mult) (concat_spec spans strs) ->
  (length spans < fuel)%nat ->
  session_concat fuel spans (field_index strs) (field_values strs) csz dcs mult
  = Ok (spec_indices (concat_spec spans strs), spec_values (concat_spec spans strs)).
Proof.
  intros Hr Hne Hc HN Hf Hfuel. destruct strs as [|s0 t].
  - destruct Hne as [Hne|Hne]; [congruence|].
    unfold session_concat, session_concat_gen, np_zeros.
    assert ((csz + 1 <? 0) = false) as -> by lia. assert ((dcs * mult <? 0) = false) as -> by lia.
    cbn [bind]. destruct fuel as [|fuel]; [lia|]. cbn [session_loop].
    destruct spans as [|x [|y r]]; cbn [length] in Hne; try lia; reflexivity.
  - apply session_concat_correct_proof; assumption.
Qed.
