(* Proofs/CatalogueHandles.v — what a held handle reports (observe_handle) in a state that satisfies Inv. *)
From Coq Require Import ZArith List Bool Lia.
From EV Require Import Res Catalogue CatalogueSpec CatalogueBase CatalogueInv CatalogueRename CatalogueStep CatalogueObs.
Import ListNotations.
Open Scope Z_scope.

Lemma d_rfind_complete (l:alist) n x : In (n, x) l -> d_rfind l x <> None.
Proof.
  induction l as [|[k v] t IH]; cbn [d_rfind In]; [tauto|]. intros [I|I].
  - inversion I; subst. rewrite Z.eqb_refl. discriminate.
  - destruct (v =? x); [discriminate | apply IH; exact I].
Qed.

Lemma path_in_groups_complete s i groups f d g n :
  In (d, g) groups -> In (n, f) (h5_grp s g) -> path_in_groups s i groups f <> None.
Proof.
  induction groups as [|[dn g'] t IH]; cbn [path_in_groups In]; [tauto|]. intros [I|I] H.
  - inversion I; subst. destruct (d_rfind (h5_grp s g) f) eqn:R; [discriminate|]. exfalso. apply (d_rfind_complete _ _ _ H R).
  - destruct (d_rfind (h5_grp s g') f); [discriminate | apply IH; assumption].
Qed.

Lemma path_in_files_complete s files f i d g n :
  In i files -> In (d, g) (h5_root s i) -> In (n, f) (h5_grp s g) -> path_in_files s files f <> None.
Proof.
  induction files as [|j t IH]; cbn [path_in_files In]; [intros []|]. intros [E|I] H1 H2.
  - subst j. destruct (path_in_groups s i (h5_root s i) f) as [[[? ?] ?]|] eqn:P; [discriminate|]. exfalso.
    apply (path_in_groups_complete s i (h5_root s i) f d g n H1 H2 P).
  - destruct (path_in_groups s j (h5_root s j) f) as [[[? ?] ?]|]; [discriminate | eapply IH; eassumption].
Qed.

Lemma path_in_files_index s files f i d n : path_in_files s files f = Some (i, d, n) -> In i files.
Proof.
  induction files as [|j t IH]; cbn [path_in_files]; [discriminate|].
  destruct (path_in_groups s j (h5_root s j) f) as [[[i' d'] n']|] eqn:P; intros H.
  - inversion H; subst. apply path_in_groups_sound in P. destruct P as [-> _]. left; reflexivity.
  - right. apply IH. exact H.
Qed.

(* a frame is catalogued in exactly one place *)
Lemma frame_place_unique s i d i' d' g :
  InvA s -> d_find (py_dfs s i) d = Some g -> d_find (py_dfs s i') d' = Some g -> i = i' /\ d = d'.
Proof.
  intros IA H H'. destruct (sk_dfs _ _ (IA i) d g H) as [N D]. destruct (sk_dfs _ _ (IA i') d' g H') as [N' D'].
  split; congruence.
Qed.

(* where a path result points *)
Lemma path_place s f i d n :
  Inv s -> h5_fld_path s f = Some (i, d, n) ->
  In i ds_indices /\ exists g, d_find (py_dfs s i) d = Some g /\ d_find (py_cols s g) n = Some f.
Proof.
  intros [IA IB] P. split; [eapply path_in_files_index; exact P|].
  unfold h5_fld_path in P. apply path_in_files_sound in P. destruct P as (g & I1 & I2). exists g.
  pose proof (In_d_find _ _ _ (sk_nd_h5 _ _ (IA i)) I1) as F1. rewrite <- (sk_same _ _ (IA i) d) in F1.
  split; [exact F1|]. pose proof (catalogued_linked _ _ _ _ IA F1) as L.
  rewrite (dk_same _ _ (ib_df _ IB g L) n). apply In_d_find; [apply (dk_nd_h5 _ _ (ib_df _ IB g L)) | exact I2].
Qed.

(* a catalogued field object of one of the two observed files reports its place *)
Lemma path_of_catalogued s f i d g n :
  Inv s -> In i ds_indices -> d_find (py_dfs s i) d = Some g -> d_find (py_cols s g) n = Some f ->
  h5_fld_path s f = Some (i, d, n).
Proof.
  intros I Ii Hd Hf. destruct I as [IA IB]. pose proof (catalogued_linked _ _ _ _ IA Hd) as L.
  destruct (h5_fld_path s f) as [[[i' d'] n']|] eqn:P.
  - destruct (path_place s f i' d' n' (conj IA IB) P) as (_ & g' & Hd' & Hf').
    pose proof (catalogued_linked _ _ _ _ IA Hd') as L'.
    destruct (ib_uniq _ IB g' g n' n f L' L Hf' Hf) as [-> ->].
    destruct (frame_place_unique s i' d' i d g IA Hd' Hd) as [-> ->]. reflexivity.
  - exfalso. unfold h5_fld_path in P. revert P. eapply path_in_files_complete.
    + exact Ii.
    + apply d_find_In. rewrite <- (sk_same _ _ (IA i) d). exact Hd.
    + apply d_find_In. rewrite <- (dk_same _ _ (ib_df _ IB g L) n). exact Hf.
Qed.

Lemma observe_catalogued s f i d g n :
  Inv s -> In i ds_indices -> d_find (py_dfs s i) d = Some g -> d_find (py_cols s g) n = Some f ->
  observe_handle s f = HLive i d n (fld_type s f) (fld_data s f).
Proof.
  intros I Ii Hd Hf. unfold observe_handle.
  destruct (dk_flds _ _ (ib_df _ (proj2 I) g (catalogued_linked _ _ _ _ (proj1 I) Hd)) n f Hf) as (V & _).
  rewrite V, (path_of_catalogued s f i d g n I Ii Hd Hf). reflexivity.
Qed.

(* membership in the harness registry *)
Lemma zmem_In x l : zmem x l = true <-> In x l.
Proof.
  induction l as [|h t IH]; cbn [zmem In]; [split; [discriminate|tauto]|].
  rewrite orb_true_iff, IH, Z.eqb_eq. split; intros [H|H]; auto.
Qed.

Lemma register_prefix : forall fs held, exists extra, register held fs = held ++ extra.
Proof.
  induction fs as [|f t IH]; intros held; cbn [register].
  - exists []. rewrite app_nil_r. reflexivity.
  - destruct (zmem f held).
    + apply IH.
    + destruct (IH (held ++ [f])) as [e E]. exists ([f] ++ e). rewrite E, <- app_assoc. reflexivity.
Qed.

Lemma register_noop : forall fs held, (forall f, In f fs -> In f held) -> register held fs = held.
Proof.
  induction fs as [|f t IH]; intros held H; cbn [register]; [reflexivity|].
  rewrite (proj2 (zmem_In f held)) by (apply H; left; reflexivity). apply IH. intros x Ix. apply H. right. exact Ix.
Qed.

Lemma register_incl : forall fs held f, In f held -> In f (register held fs).
Proof.
  induction fs as [|x t IH]; intros held f I; cbn [register]; [exact I|].
  apply IH. destruct (zmem x held); [exact I | apply in_app_iff; left; exact I].
Qed.

Lemma register_all : forall fs held f, In f fs -> In f (register held fs).
Proof.
  induction fs as [|x t IH]; intros held f I; cbn [register]; [contradiction|]. destruct I as [->|I].
  - apply register_incl. destruct (zmem f held) eqn:Z; [apply zmem_In; exact Z | apply in_app_iff; right; left; reflexivity].
  - apply IH. exact I.
Qed.

Lemma in_catalogued s f : In f (catalogued_fields s) <->
  exists i d g n, In i ds_indices /\ In (d, g) (py_dfs s i) /\ In (n, f) (py_cols s g).
Proof.
  unfold catalogued_fields. rewrite in_flat_map. split.
  - intros (i & Ii & I). apply in_flat_map in I. destruct I as ([d g] & Idg & I). cbn [snd] in I.
    apply in_map_iff in I. destruct I as ([n f'] & E & In'). cbn [snd] in E. subst. exists i, d, g, n. auto.
  - intros (i & d & g & n & Ii & Idg & In'). exists i. split; [exact Ii|]. apply in_flat_map. exists (d, g). split; [exact Idg|].
    cbn [snd]. apply in_map_iff. exists (n, f). auto.
Qed.
