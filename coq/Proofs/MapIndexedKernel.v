(* Proofs/MapIndexedKernel.v — ordered_map_valid_indexed_partial: what one call of the kernel does. *)
From Coq Require Import ZArith List Lia Bool.
From EV Require Import Res Arr MapStream MapStreamSpec MapStreamBase MapIndexedBase.
Import ListNotations.
Open Scope Z_scope.

Section Kernel.
Variables (d_idx d_val : list Z) (inv : Z).

Definition sval (k:Z) : list Z := if k =? inv then [] else entry d_idx d_val k.

Lemma sval_inv : sval inv = [].
Proof. unfold sval. rewrite Z.eqb_refl. reflexivity. Qed.

Variables (chk_lo : bool) (map_ : list Z) (sm_end : Z) (indices : list Z) (i_start i_max : Z) (values : list Z)
          (mv_start v_offset : Z).

(* what the caller guarantees about every valid entry of the sub-chunk that lies in the
   current value window *)
Definition window_ok (t:Z) : Prop :=
  let i := nthZ map_ t - mv_start in
  (chk_lo = true -> i_start <= i) -> i < i_max ->
  0 <= i /\ i + 1 < len indices /\ 0 <= nthZ indices i - v_offset /\
  nthZ indices i <= nthZ indices (i + 1) /\ nthZ indices (i + 1) - v_offset <= len values /\
  sval (nthZ map_ t) = slice values (nthZ indices i - v_offset) (nthZ indices (i + 1) - v_offset).

Definition stop_reason (j rvT:Z) (need need':bool) (lenrval:Z) : Prop :=
  (j = sm_end /\ need' = need) \/
  (j < sm_end /\ nthZ map_ j <> inv /\
     (((nthZ map_ j - mv_start >= i_max \/ (chk_lo = true /\ nthZ map_ j - mv_start < i_start)) /\ need' = true) \/
      ((chk_lo = true -> i_start <= nthZ map_ j - mv_start) /\ nthZ map_ j - mv_start < i_max /\
       need' = need /\ rvT + len (sval (nthZ map_ j)) > lenrval))).

Lemma oi_partial_loop_spec fuel : forall sm ri rv acc need ridx rval,
  0 <= sm -> sm <= sm_end -> sm_end <= len map_ ->
  0 <= ri -> ri + (sm_end - sm) <= len ridx -> 0 <= rv -> rv <= len rval ->
  (Z.to_nat (sm_end - sm) < fuel)%nat ->
  (forall t, sm <= t < sm_end -> nthZ map_ t <> inv -> window_ok t) ->
  exists j need' ridx' rval',
    let es := map sval (slice map_ sm j) in
    oi_partial_loop fuel chk_lo map_ sm_end indices i_start i_max values mv_start inv v_offset
                    (mk_ipst sm ri rv acc need ridx rval)
    = Ok (mk_ipst j (ri + (j - sm)) (rv + total es) (acc + total es) need' ridx' rval') /\
    sm <= j <= sm_end /\ len ridx' = len ridx /\ len rval' = len rval /\
    rv + total es <= len rval /\
    firstn (Z.to_nat (ri + (j - sm))) ridx' = firstn (Z.to_nat ri) ridx ++ offs_tail acc es /\
    firstn (Z.to_nat (rv + total es)) rval' = firstn (Z.to_nat rv) rval ++ concat es /\
    stop_reason j (rv + total es) need need' (len rval).
Proof.
  induction fuel as [|f IH]; intros sm ri rv acc need ridx rval Hs Hse He Hri Hrib Hrv Hrvb Hf Hw; [lia|].
  cbn [oi_partial_loop p_sm p_ri p_rv p_acc p_need p_ridx p_rval].
  destruct (sm <? sm_end) eqn:E.
  - rewrite (getZ_ok 131 map_ sm) by lia. cbn [bind].
    destruct (nthZ map_ sm =? inv) eqn:Einv.
    + (* invalid entry: offset repeated *)
      rewrite set_ok by lia. cbn [bind].
      destruct (IH (sm + 1) (ri + 1) rv acc need (upd ridx ri acc) rval) as [j [need' [ridx' [rval' H]]]];
        try lia. { rewrite len_upd. lia. } { intros t Ht. apply Hw. lia. }
      cbv zeta in H. destruct H as [H1 [H2 [H3 [H4 [H5 [H6 [H7 H8]]]]]]].
      exists j, need', ridx', rval'. cbv zeta.
      assert (Hsl : slice map_ sm j = nthZ map_ sm :: slice map_ (sm + 1) j)
        by (apply (slice_cons_nthd 0); lia).
      rewrite Hsl. cbn [map]. assert (Hx : sval (nthZ map_ sm) = []).
      { unfold sval. rewrite Einv. reflexivity. }
      rewrite Hx. rewrite total_cons, len_nil, Z.add_0_l.
      rewrite H1. split; [f_equal; f_equal; lia|].
      split; [lia|]. split; [rewrite H3; apply len_upd|]. split; [exact H4|]. split; [exact H5|].
      split.
      * replace (ri + (j - sm)) with (ri + 1 + (j - (sm + 1))) by lia. rewrite H6.
        rewrite firstn_upd_snoc by lia. rewrite <- app_assoc. cbn [offs_tail app].
        rewrite len_nil, Z.add_0_r. reflexivity.
      * split; [cbn [concat app]; exact H7|exact H8].
    + (* valid entry *)
      assert (Hne : nthZ map_ sm <> inv) by lia.
      destruct ((chk_lo && (nthZ map_ sm - mv_start <? i_start)) || (nthZ map_ sm - mv_start >=? i_max)) eqn:Emax.
      * (* need the next value sub-chunk *)
        exists sm, true, ridx, rval. cbv zeta. rewrite slice_empty. cbn [map].
        rewrite total_nil, !Z.add_0_r, Z.sub_diag, Z.add_0_r.
        split; [reflexivity|]. split; [lia|]. split; [reflexivity|]. split; [reflexivity|]. split; [lia|].
        cbn [offs_tail concat]. rewrite !app_nil_r. split; [reflexivity|]. split; [reflexivity|].
        right. split; [lia|]. split; [exact Hne|]. left. split; [|reflexivity].
        destruct chk_lo; cbn [andb] in Emax; [|left; lia].
        destruct (nthZ map_ sm - mv_start <? i_start) eqn:Elo; [right; split; [reflexivity|lia]|left; cbn [orb] in Emax; lia].
      * assert (Hlo : chk_lo = true -> i_start <= nthZ map_ sm - mv_start).
        { intros Hc. rewrite Hc in Emax. cbn [andb] in Emax. lia. }
        assert (Hhi : nthZ map_ sm - mv_start < i_max).
        { destruct (chk_lo && (nthZ map_ sm - mv_start <? i_start)); cbn [orb] in Emax; [discriminate|lia]. }
        destruct (Hw sm ltac:(lia) Hne Hlo Hhi) as [W1 [W2 [W3 [W4 [W5 W6]]]]].
        set (i := nthZ map_ sm - mv_start) in *.
        rewrite (getZ_ok 133 indices i) by lia. cbn [bind].
        rewrite (getZ_ok 134 indices (i + 1)) by lia. cbn [bind].
        set (v_start := nthZ indices i - v_offset) in *.
        set (v_end := nthZ indices (i + 1) - v_offset) in *.
        assert (Hlx : len (sval (nthZ map_ sm)) = v_end - v_start).
        { rewrite W6. apply len_slice; unfold v_start, v_end in *; lia. }
        destruct (rv + v_end - v_start >? len rval) eqn:Efull.
        -- (* does not fit: stop *)
           exists sm, need, ridx, rval. cbv zeta. rewrite slice_empty. cbn [map].
           rewrite total_nil, !Z.add_0_r, Z.sub_diag, Z.add_0_r.
           split; [reflexivity|]. split; [lia|]. split; [reflexivity|]. split; [reflexivity|]. split; [lia|].
           cbn [offs_tail concat]. rewrite !app_nil_r. split; [reflexivity|]. split; [reflexivity|].
           right. split; [lia|]. split; [exact Hne|]. right. split; [exact Hlo|]. split; [lia|]. split; [reflexivity|]. lia.
        -- destruct (copy_bytes_spec (Z.to_nat (v_end - v_start)) values v_start rval rv) as [rval1 [C1 [C2 C3]]];
             try (unfold v_start, v_end in *; lia).
           rewrite C1. cbn [bind].
           replace (Z.of_nat (Z.to_nat (v_end - v_start))) with (v_end - v_start) in *
             by (unfold v_start, v_end in *; lia).
           rewrite set_ok by lia. cbn [bind].
           destruct (IH (sm + 1) (ri + 1) (rv + (v_end - v_start)) (acc + (v_end - v_start)) need
                        (upd ridx ri (acc + (v_end - v_start))) rval1) as [j [need' [ridx' [rval' H]]]];
             try (unfold v_start, v_end in *; lia).
           { rewrite len_upd. lia. } { intros t Ht. apply Hw. lia. }
           cbv zeta in H. destruct H as [H1 [H2 [H3 [H4 [H5 [H6 [H7 H8]]]]]]].
           exists j, need', ridx', rval'. cbv zeta.
           assert (Hsl : slice map_ sm j = nthZ map_ sm :: slice map_ (sm + 1) j)
             by (apply (slice_cons_nthd 0); lia).
           rewrite Hsl. cbn [map]. rewrite total_cons, Hlx.
           set (T := total (map sval (slice map_ (sm + 1) j))) in *.
           rewrite H1. split; [f_equal; f_equal; lia|].
           split; [lia|]. split; [rewrite H3; apply len_upd|]. split; [rewrite H4; exact C2|].
           split; [rewrite <- C2; lia|].
           split.
           ++ replace (ri + (j - sm)) with (ri + 1 + (j - (sm + 1))) by lia. rewrite H6.
              rewrite firstn_upd_snoc by lia. rewrite <- app_assoc. cbn [offs_tail app].
              rewrite Hlx. reflexivity.
           ++ split.
              ** replace (rv + (v_end - v_start + T)) with (rv + (v_end - v_start) + T) by lia.
                 rewrite H7. rewrite C3. rewrite <- app_assoc. cbn [concat]. rewrite W6.
                 replace (v_start + (v_end - v_start)) with v_end by lia. reflexivity.
              ** replace (rv + (v_end - v_start + T)) with (rv + (v_end - v_start) + T) by lia.
                 rewrite <- C2. exact H8.
  - exists sm, need, ridx, rval. cbv zeta. rewrite slice_empty. cbn [map].
    rewrite total_nil, !Z.add_0_r, Z.sub_diag, Z.add_0_r.
    split; [reflexivity|]. split; [lia|]. split; [reflexivity|]. split; [reflexivity|]. split; [lia|].
    cbn [offs_tail concat]. rewrite !app_nil_r. split; [reflexivity|]. split; [reflexivity|].
    left. split; [lia|reflexivity].
Qed.

End Kernel.
