(* Proofs/TransformBool.v — numeric_bool_transform (blank trimming loops, literal tables, validation
   modes, exception codes) = spec_bool, for every cell text and every chunking. *)
From Coq Require Import ZArith List Bool Lia ZifyBool.
From EV Require Import Res Arr Transform TransformSpec TransformBase TransformCat TransformTrim.
Import ListNotations.
Open Scope Z_scope.

Definition is32 (b:Z) : bool := b =? 32.

(* ---- the two blank-skipping while loops ---- *)
Lemma skip_lead_run vals base length : forall (k:nat) fuel bs,
  (k < fuel)%nat ->
  (forall j, bs <= j < bs + Z.of_nat k -> j < length /\ get 41 vals (base + j) = Ok 32) ->
  (bs + Z.of_nat k >= length \/ exists b, get 41 vals (base + (bs + Z.of_nat k)) = Ok b /\ b <> 32) ->
  skip_lead fuel bs length base vals = Ok (bs + Z.of_nat k).
Proof.
  induction k as [|k IH]; intros fuel bs Hf Hsp Hstop.
  - destruct fuel as [|fuel]; [lia|]. cbn [skip_lead]. rewrite Z.add_0_r in *.
    destruct (bs <? length) eqn:E; [|reflexivity].
    destruct Hstop as [Hs|[b [Hg Hb]]]; [lia|].
    rewrite Hg. cbn [bind]. replace (b =? 32) with false by lia. reflexivity.
  - destruct fuel as [|fuel]; [lia|]. cbn [skip_lead].
    destruct (Hsp bs ltac:(lia)) as [Hl Hg]. replace (bs <? length) with true by lia.
    rewrite Hg. cbn [bind]. rewrite Z.eqb_refl.
    replace (bs + Z.of_nat (S k)) with (bs + 1 + Z.of_nat k) in * by lia.
    apply IH; [lia| |exact Hstop]. intros j Hj. apply Hsp. lia.
Qed.

Lemma skip_trail_run vals base : forall (k:nat) fuel be,
  (k < fuel)%nat ->
  (forall j, be - Z.of_nat k < j <= be -> 0 <= j /\ get 42 vals (base + j) = Ok 32) ->
  (be - Z.of_nat k < 0 \/ exists b, get 42 vals (base + (be - Z.of_nat k)) = Ok b /\ b <> 32) ->
  skip_trail fuel be base vals = Ok (be - Z.of_nat k).
Proof.
  induction k as [|k IH]; intros fuel be Hf Hsp Hstop.
  - destruct fuel as [|fuel]; [lia|]. cbn [skip_trail]. rewrite Z.sub_0_r in *.
    destruct (be >=? 0) eqn:E; [|reflexivity].
    destruct Hstop as [Hs|[b [Hg Hb]]]; [lia|].
    rewrite Hg. cbn [bind]. replace (b =? 32) with false by lia. reflexivity.
  - destruct fuel as [|fuel]; [lia|]. cbn [skip_trail].
    destruct (Hsp be ltac:(lia)) as [Hl Hg]. replace (be >=? 0) with true by lia.
    rewrite Hg. cbn [bind]. rewrite Z.eqb_refl.
    replace (be - Z.of_nat (S k)) with (be - 1 - Z.of_nat k) in * by lia.
    apply IH; [lia| |exact Hstop]. intros j Hj. apply Hsp. lia.
Qed.

Lemma is32_nthZ w j : forallb is32 w = true -> 0 <= j < len w -> nthZ w j = 32.
Proof. intros H Hj. pose proof (forallb_nthZ is32 w j H Hj) as P. unfold is32 in P. lia. Qed.

(* ---- the literal tables ---- *)
Definition bool_lit (core:list Z) : option Z :=
  let t := map lower core in
  if existsb (list_eqb t) TRUE_LITS then Some 1
  else if existsb (list_eqb t) FALSE_LITS then Some 0 else None.

Definition ret (o:option Z) : res (option Z) := Ok o.

Lemma inl_pair a U L : L = U + 32 -> 65 <= U <= 90 -> inl a [U; L] = (lower a =? L).
Proof. intros -> HU. unfold inl, lower. cbn [existsb]. destruct ((65 <=? a) && (a <=? 90)) eqn:E; lia. Qed.

Lemma inl_true1 a : inl a [49; 89; 121; 84; 116] = (lower a =? 49) || (lower a =? 121) || (lower a =? 116).
Proof. unfold inl, lower. cbn [existsb]. destruct ((65 <=? a) && (a <=? 90)) eqn:E; lia. Qed.

Lemma inl_false1 a : inl a [48; 78; 110; 70; 102] = (lower a =? 48) || (lower a =? 110) || (lower a =? 102).
Proof. unfold inl, lower. cbn [existsb]. destruct ((65 <=? a) && (a <=? 90)) eqn:E; lia. Qed.

Ltac inl_norm :=
  rewrite ?inl_true1, ?inl_false1,
    ?(inl_pair _ 79 111), ?(inl_pair _ 78 110), ?(inl_pair _ 89 121), ?(inl_pair _ 69 101),
    ?(inl_pair _ 83 115), ?(inl_pair _ 70 102), ?(inl_pair _ 84 116), ?(inl_pair _ 82 114),
    ?(inl_pair _ 85 117), ?(inl_pair _ 65 97), ?(inl_pair _ 76 108) by lia.

Ltac atoms :=
  repeat match goal with
         | |- context [?x =? ?c] => is_var x; let E := fresh "E" in destruct (x =? c) eqn:E; cbn [andb orb]
         end; try reflexivity; try lia.

Lemma bool_value_1 a : bool_value [a] 1 = ret (bool_lit [a]).
Proof.
  change (bool_value [a] 1) with
    (if inl a [49; 89; 121; 84; 116] then Ok (Some 1) else if inl a [48; 78; 110; 70; 102] then Ok (Some 0) else Ok None).
  inl_norm. unfold bool_lit, ret. cbn [map]. generalize (lower a) as x. intros x. cbn. atoms.
Qed.

Lemma bool_value_2 a b : bool_value [a; b] 2 = ret (bool_lit [a; b]).
Proof.
  change (bool_value [a; b] 2) with
    (if inl a [79; 111] && inl b [78; 110] then Ok (Some 1)
     else if inl a [78; 110] && inl b [79; 111] then Ok (Some 0) else Ok None).
  inl_norm. unfold bool_lit, ret. cbn [map]. generalize (lower a) as x, (lower b) as y. intros x y. cbn. atoms.
Qed.

Lemma bool_value_3 a b c : bool_value [a; b; c] 3 = ret (bool_lit [a; b; c]).
Proof.
  change (bool_value [a; b; c] 3) with
    (if inl a [89; 121] && inl b [69; 101] && inl c [83; 115] then Ok (Some 1)
     else if inl a [79; 111] && inl b [70; 102] && inl c [70; 102] then Ok (Some 0) else Ok None).
  inl_norm. unfold bool_lit, ret. cbn [map]. generalize (lower a) as x, (lower b) as y, (lower c) as z. intros x y z.
  cbn. atoms.
Qed.

Lemma bool_value_4 a b c d : bool_value [a; b; c; d] 4 = ret (bool_lit [a; b; c; d]).
Proof.
  change (bool_value [a; b; c; d] 4) with
    (if inl a [84; 116] && inl b [82; 114] && inl c [85; 117] && inl d [69; 101] then Ok (Some 1) else Ok None).
  inl_norm. unfold bool_lit, ret. cbn [map].
  generalize (lower a) as x, (lower b) as y, (lower c) as z, (lower d) as u. intros x y z u. cbn. atoms.
Qed.

Lemma bool_value_5 a b c d e : bool_value [a; b; c; d; e] 5 = ret (bool_lit [a; b; c; d; e]).
Proof.
  change (bool_value [a; b; c; d; e] 5) with
    (if inl a [70; 102] && inl b [65; 97] && inl c [76; 108] && inl d [83; 115] && inl e [69; 101]
     then Ok (Some 0) else Ok None).
  inl_norm. unfold bool_lit, ret. cbn [map].
  generalize (lower a) as x, (lower b) as y, (lower c) as z, (lower d) as u, (lower e) as v. intros x y z u v.
  cbn. atoms.
Qed.

Lemma list_eqb_len_ne a b : len a <> len b -> list_eqb a b = false.
Proof. intros H. unfold list_eqb. replace (len a =? len b) with false by lia. reflexivity. Qed.

Lemma bool_lit_long core : 6 <= len core -> bool_lit core = None.
Proof.
  intros H. unfold bool_lit.
  assert (L : len (map lower core) = len core) by (unfold len; rewrite map_length; reflexivity).
  unfold TRUE_LITS, FALSE_LITS. cbn [existsb].
  rewrite !list_eqb_len_ne by (rewrite L; cbn; lia). reflexivity.
Qed.

Lemma bool_value_ok core : core <> [] -> bool_value core (len core) = Ok (bool_lit core).
Proof.
  intros Hne.
  destruct core as [|a [|b [|c [|d [|e [|f r]]]]]]; [contradiction| | | | | |].
  - apply bool_value_1.
  - apply bool_value_2.
  - apply bool_value_3.
  - apply bool_value_4.
  - apply bool_value_5.
  - rewrite bool_lit_long by (rewrite !len_cons; pose proof (len_nonneg r); lia).
    unfold bool_value. rewrite !len_cons. pose proof (len_nonneg r).
    replace (len r + 1 + 1 + 1 + 1 + 1 + 1 =? 1) with false by lia.
    replace (len r + 1 + 1 + 1 + 1 + 1 + 1 =? 2) with false by lia.
    replace (len r + 1 + 1 + 1 + 1 + 1 + 1 =? 3) with false by lia.
    replace (len r + 1 + 1 + 1 + 1 + 1 + 1 =? 4) with false by lia.
    replace (len r + 1 + 1 + 1 + 1 + 1 + 1 =? 5) with false by lia.
    reflexivity.
Qed.

(* ---- one row ---- *)
Definition row_cls (cell:list Z) : bool * bool * Z :=
  match classify_bool cell with
  | Empty => (true, false, -1)
  | Good v => (false, true, v)
  | _ => (false, false, -1)
  end.

Lemma classify_bool_lit cell :
  classify_bool cell = match trim32 cell with
                       | [] => Empty
                       | _ => match bool_lit (trim32 cell) with Some v => Good v | None => Unparseable end
                       end.
Proof.
  unfold classify_bool, bool_lit. destruct (trim32 cell) as [|h t]; [reflexivity|]. cbn [map].
  destruct (existsb _ TRUE_LITS); [reflexivity|]. destruct (existsb _ FALSE_LITS); reflexivity.
Qed.

Lemma bool_row_ok c row cell : row_view c row cell -> bool_row c row = Ok (row_cls cell).
Proof.
  intros [ks A B Hrow Hi0 Hi1 Hvals Hbase].
  unfold bool_row. rewrite Hi0, Hi1. cbn [bind].
  replace (ks + len cell - ks) with (len cell) by lia.
  replace (c_off c + ks) with (len A) by lia.
  rewrite Hvals.
  unfold row_cls. rewrite classify_bool_lit. rewrite trim32_trimw.
  destruct (trimw_decomp is32 cell) as [w1 [core [w2 [Hcell [H1 [H2 [Htr [Hc Hw2]]]]]]]].
  fold is32. rewrite Htr.
  pose proof (len_nonneg w1) as L1. pose proof (len_nonneg w2) as L2. pose proof (len_nonneg core) as L3.
  assert (Hlen : len cell = len w1 + len core + len w2) by (rewrite Hcell, !len_app; lia).
  destruct Hc as [Ec|[[h [t [Ec Hh]]] [f [x [Ef Hx]]]]].
  - (* blank cell *)
    assert (Ew : w2 = []) by (apply Hw2; exact Ec). clear Hw2. subst w2. rewrite Ec in *. cbn [app] in Hcell. rewrite app_nil_r in Hcell. rewrite <- Hcell in *. clear Hcell.
    cbn [len length Z.of_nat] in Hlen.
    assert (S1 : skip_lead (S (Z.to_nat (len cell))) 0 (len cell) (len A) (A ++ cell ++ B) = Ok (len cell)).
    { pose proof (skip_lead_run (A ++ cell ++ B) (len A) (len cell) (Z.to_nat (len cell)) (S (Z.to_nat (len cell))) 0
                    ltac:(lia)) as R.
      rewrite Z2Nat.id in R by lia. rewrite Z.add_0_l in R. apply R.
      - intros j Hj. split; [lia|]. rewrite get_in_cell by lia. f_equal. apply is32_nthZ; [exact H1|lia].
      - left. lia. }
    assert (S2 : skip_trail (S (Z.to_nat (len cell))) (len cell - 1) (len A) (A ++ cell ++ B) = Ok (-1)).
    { pose proof (skip_trail_run (A ++ cell ++ B) (len A) (Z.to_nat (len cell)) (S (Z.to_nat (len cell))) (len cell - 1)
                    ltac:(lia)) as R.
      rewrite Z2Nat.id in R by lia. replace (len cell - 1 - len cell) with (-1) in R by lia. apply R.
      - intros j Hj. split; [lia|]. rewrite get_in_cell by lia. f_equal. apply is32_nthZ; [exact H1|lia].
      - left. lia. }
    rewrite S1, S2. cbn [bind]. replace (-1 - len cell + 1 <=? 0) with true by lia. reflexivity.
  - (* a non-blank core *)
    assert (Lc : 0 < len core) by (rewrite Ec, len_cons; pose proof (len_nonneg t); lia).
    assert (S1 : skip_lead (S (Z.to_nat (len cell))) 0 (len cell) (len A) (A ++ cell ++ B) = Ok (len w1)).
    { pose proof (skip_lead_run (A ++ cell ++ B) (len A) (len cell) (Z.to_nat (len w1)) (S (Z.to_nat (len cell))) 0
                    ltac:(lia)) as R.
      rewrite Z2Nat.id in R by lia. rewrite Z.add_0_l in R. apply R.
      - intros j Hj. split; [lia|]. rewrite get_in_cell by lia. f_equal.
        rewrite Hcell. unfold nthZ. rewrite nthd_app_l by lia. apply is32_nthZ; [exact H1|lia].
      - right. exists h. split; [|unfold is32 in Hh; lia].
        rewrite get_in_cell by lia. f_equal.
        rewrite Hcell. unfold nthZ. rewrite nthd_app_r by lia. rewrite Z.sub_diag. rewrite Ec. reflexivity. }
    assert (S2 : skip_trail (S (Z.to_nat (len cell))) (len cell - 1) (len A) (A ++ cell ++ B)
                 = Ok (len w1 + len core - 1)).
    { pose proof (skip_trail_run (A ++ cell ++ B) (len A) (Z.to_nat (len w2)) (S (Z.to_nat (len cell))) (len cell - 1)
                    ltac:(lia)) as R.
      rewrite Z2Nat.id in R by lia. replace (len cell - 1 - len w2) with (len w1 + len core - 1) in R by lia. apply R.
      - intros j Hj. split; [lia|]. rewrite get_in_cell by lia. f_equal.
        rewrite Hcell, app_assoc. unfold nthZ. rewrite nthd_app_r by (rewrite len_app; lia).
        apply is32_nthZ; [exact H2|rewrite len_app; lia].
      - right. exists x. split; [|unfold is32 in Hx; lia].
        rewrite get_in_cell by lia. f_equal.
        assert (Lf : len core = len f + 1) by (rewrite Ef, len_app; reflexivity).
        rewrite Hcell. unfold nthZ. rewrite nthd_app_r by lia. rewrite nthd_app_l by lia.
        replace (len w1 + len core - 1 - len w1) with (len f) by lia.
        rewrite Ef. rewrite nthd_app_r by lia. rewrite Z.sub_diag. reflexivity. }
    rewrite S1, S2. cbn [bind].
    replace (len w1 + len core - 1 - len w1 + 1) with (len core) by lia.
    replace (len core <=? 0) with false by lia.
    assert (Hs : slice (A ++ cell ++ B) (len A + len w1) (len A + len w1 + len core) = core).
    { rewrite Hcell. replace (A ++ (w1 ++ core ++ w2) ++ B) with ((A ++ w1) ++ core ++ (w2 ++ B))
        by (rewrite <- !app_assoc; reflexivity).
      rewrite <- len_app. apply slice_mid. }
    rewrite Hs. rewrite bool_value_ok by (rewrite Ec; discriminate). cbn [bind].
    destruct (bool_lit core) as [v|] eqn:Eb; rewrite Ec; reflexivity.
Qed.

(* ---- the row loop of one chunk ---- *)
Lemma set_app_mid' {A} site (a:list A) x b v i : i = len a -> set site (a ++ x :: b) i v = Ok (a ++ v :: b).
Proof. intros ->. apply set_app_mid. Qed.

Definition vb (mode inv:Z) (cell:list Z) : res (Z * Z) := validate_bool mode inv (classify_bool cell).

Definition msg_of {A} (r:res A) : Z := match r with Raise c => c - 100 | _ => 0 end.

Lemma classify_bool_good cell v : classify_bool cell = Good v -> to_bool v = v.
Proof.
  unfold classify_bool. destruct (map lower (trim32 cell)); [discriminate|].
  destruct (existsb _ TRUE_LITS); [intros H; inversion H; reflexivity|].
  destruct (existsb _ FALSE_LITS); intros H; inversion H; reflexivity.
Qed.

Lemma vb_cases mode inv cell :
  (exists p, vb mode inv cell = Ok p) \/ vb mode inv cell = Raise E_NumEmpty \/ vb mode inv cell = Raise E_NumParse.
Proof.
  unfold vb, validate_bool. destruct (classify_bool cell); [left; eexists; reflexivity| | |].
  - destruct (mode =? MODE_STRICT); [right; left; reflexivity|left; eexists; reflexivity].
  - destruct ((mode =? MODE_STRICT) || (mode =? MODE_ALLOW_EMPTY)); [right; right; reflexivity|left; eexists; reflexivity].
  - destruct ((mode =? MODE_STRICT) || (mode =? MODE_ALLOW_EMPTY)); [right; right; reflexivity|left; eexists; reflexivity].
Qed.

Lemma map_res_vb_cases mode inv cells :
  (exists r, map_res (vb mode inv) cells = Ok r) \/ map_res (vb mode inv) cells = Raise E_NumEmpty \/
  map_res (vb mode inv) cells = Raise E_NumParse.
Proof.
  induction cells as [|cell cells IH]; [left; eexists; reflexivity|]. cbn [map_res].
  destruct (vb_cases mode inv cell) as [[p ->]|[-> | ->]]; cbn [bind]; [|right; left; reflexivity|right; right; reflexivity].
  destruct IH as [[r ->]|[-> | ->]]; cbn [bind]; [left; eexists; reflexivity|right; left; reflexivity|right; right; reflexivity].
Qed.

Lemma bool_rows_ok c inv mode cells : rows_viewed c cells ->
  forall post pre E1 V1, cells = pre ++ post -> len E1 = len pre -> len V1 = len pre ->
  exists el va,
    bool_rows (length post) (len pre) c inv mode (E1 ++ zeros (len post)) (V1 ++ repeat 1 (length post))
    = Ok (msg_of (map_res (vb mode inv) post), el, va) /\
    forall r, map_res (vb mode inv) post = Ok r -> el = E1 ++ map fst r /\ va = V1 ++ map snd r.
Proof.
  intros Hrv. induction post as [|cell post IH]; intros pre E1 V1 Hc HE HV.
  - cbn [length bool_rows map_res msg_of]. eexists. eexists. split; [reflexivity|].
    intros r Hr. inversion Hr. cbn [map len length Z.of_nat zeros Z.to_nat repeat]. split; reflexivity.
  - cbn [length bool_rows].
    rewrite (bool_row_ok c (len pre) cell (Hrv pre cell post Hc)). cbn [bind].
    rewrite len_cons, zeros_succ by apply len_nonneg. cbn [repeat].
    assert (Hc' : cells = (pre ++ [cell]) ++ post) by (rewrite <- app_assoc; exact Hc).
    assert (Lp : len (pre ++ [cell]) = len pre + 1) by (rewrite len_app; reflexivity).
    unfold row_cls. cbn [map_res]. unfold vb at 1 3. unfold validate_bool.
    destruct (classify_bool cell) as [v| | |] eqn:Ecls.
    + (* a literal *)
      rewrite (set_app_mid' 51 E1), (set_app_mid' 52 V1) by (symmetry; assumption). cbn [bind]. rewrite (classify_bool_good cell v Ecls).
      destruct (IH (pre ++ [cell]) (E1 ++ [v]) (V1 ++ [1]) Hc') as [el [va [Hrun Hres]]];
        [rewrite len_app, Lp, HE; reflexivity|rewrite len_app, Lp, HV; reflexivity|].
      rewrite Lp, <- !app_assoc in Hrun. cbn [app] in Hrun.
      exists el, va. split.
      * rewrite Hrun. destruct (map_res (vb mode inv) post); reflexivity.
      * intros r Hr. destruct (map_res (vb mode inv) post) as [r'| | |]; cbn [bind] in Hr; try discriminate.
        inversion Hr. destruct (Hres r' eq_refl) as [-> ->]. rewrite <- !app_assoc. split; reflexivity.
    + (* blank *)
      rewrite (set_app_mid' 51 E1), (set_app_mid' 52 V1) by (symmetry; assumption). cbn [bind].
      destruct (mode =? MODE_STRICT) eqn:Es.
      * eexists. eexists. split; [reflexivity|]. intros r Hr. discriminate.
      * cbn [negb andb]. rewrite andb_false_r.
        destruct (IH (pre ++ [cell]) (E1 ++ [to_bool inv]) (V1 ++ [0]) Hc') as [el [va [Hrun Hres]]];
          [rewrite len_app, Lp, HE; reflexivity|rewrite len_app, Lp, HV; reflexivity|].
        rewrite Lp, <- !app_assoc in Hrun. cbn [app] in Hrun.
        exists el, va. split.
        -- rewrite Hrun. cbn [bind]. destruct (map_res (vb mode inv) post); reflexivity.
        -- intros r Hr. cbn [bind] in Hr. destruct (map_res (vb mode inv) post) as [r'| | |]; cbn [bind] in Hr; try discriminate.
           inversion Hr. destruct (Hres r' eq_refl) as [-> ->]. rewrite <- !app_assoc. split; reflexivity.
    + (* not a literal *)
      rewrite (set_app_mid' 51 E1), (set_app_mid' 52 V1) by (symmetry; assumption). cbn [bind].
      destruct (mode =? MODE_STRICT) eqn:Es.
      * eexists. eexists. split; [reflexivity|]. intros r Hr. discriminate.
      * cbn [orb negb andb]. rewrite andb_true_r.
        destruct (mode =? MODE_ALLOW_EMPTY) eqn:Ea.
        -- eexists. eexists. split; [reflexivity|]. intros r Hr. discriminate.
        -- destruct (IH (pre ++ [cell]) (E1 ++ [to_bool inv]) (V1 ++ [0]) Hc') as [el [va [Hrun Hres]]];
             [rewrite len_app, Lp, HE; reflexivity|rewrite len_app, Lp, HV; reflexivity|].
           rewrite Lp, <- !app_assoc in Hrun. cbn [app] in Hrun.
           exists el, va. split.
           ++ rewrite Hrun. cbn [bind]. destruct (map_res (vb mode inv) post); reflexivity.
           ++ intros r Hr. cbn [bind] in Hr. destruct (map_res (vb mode inv) post) as [r'| | |]; cbn [bind] in Hr; try discriminate.
              inversion Hr. destruct (Hres r' eq_refl) as [-> ->]. rewrite <- !app_assoc. split; reflexivity.
    + (* OutOfRange is not produced by classify_bool; the tables agree on it anyway *)
      rewrite (set_app_mid' 51 E1), (set_app_mid' 52 V1) by (symmetry; assumption). cbn [bind].
      destruct (mode =? MODE_STRICT) eqn:Es.
      * eexists. eexists. split; [reflexivity|]. intros r Hr. discriminate.
      * cbn [orb negb andb]. rewrite andb_true_r.
        destruct (mode =? MODE_ALLOW_EMPTY) eqn:Ea.
        -- eexists. eexists. split; [reflexivity|]. intros r Hr. discriminate.
        -- destruct (IH (pre ++ [cell]) (E1 ++ [to_bool inv]) (V1 ++ [0]) Hc') as [el [va [Hrun Hres]]];
             [rewrite len_app, Lp, HE; reflexivity|rewrite len_app, Lp, HV; reflexivity|].
           rewrite Lp, <- !app_assoc in Hrun. cbn [app] in Hrun.
           exists el, va. split.
           ++ rewrite Hrun. cbn [bind]. destruct (map_res (vb mode inv) post); reflexivity.
           ++ intros r Hr. cbn [bind] in Hr. destruct (map_res (vb mode inv) post) as [r'| | |]; cbn [bind] in Hr; try discriminate.
              inversion Hr. destruct (Hres r' eq_refl) as [-> ->]. rewrite <- !app_assoc. split; reflexivity.
Qed.

(* ---- one chunk: numeric_bool_transform itself ---- *)
(* the kernel on the arrays the importer allocates: the message code is 0 / 1 / 2 exactly as the decision
   table says for the first offending cell, and when it is 0 the two arrays are the table's columns *)
Lemma numeric_bool_transform_ok inv mode off slack tail cells : 0 <= off ->
  exists el va,
    numeric_bool_transform (mk_chunk off slack tail cells) inv mode (zeros (len cells)) (repeat 1 (length cells))
    = Ok (msg_of (map_res (vb mode inv) cells), el, va) /\
    forall r, map_res (vb mode inv) cells = Ok r -> el = map fst r /\ va = map snd r.
Proof.
  intros Ho. unfold numeric_bool_transform. rewrite mk_chunk_rows.
  replace (Z.to_nat (len cells)) with (length cells) by (unfold len; lia).
  exact (bool_rows_ok (mk_chunk off slack tail cells) inv mode cells (rows_viewed_mk off slack tail cells Ho)
           cells [] [] [] eq_refl eq_refl eq_refl).
Qed.

Lemma bool_import_part_ok inv mode off slack tail cells d fl : 0 <= off ->
  bool_import_part inv mode (d, fl) (mk_chunk off slack tail cells)
  = bind (map_res (vb mode inv) cells) (fun r => Ok (d ++ map fst r, fl ++ map snd r)).
Proof.
  intros Ho. unfold bool_import_part. rewrite mk_chunk_rows.
  replace (Z.to_nat (len cells)) with (length cells) by (unfold len; lia).
  destruct (numeric_bool_transform_ok inv mode off slack tail cells Ho) as [el [va [Hrun Hres]]].
  rewrite Hrun. cbn [bind fst snd].
  destruct (map_res_vb_cases mode inv cells) as [[r Hr]|[Hr|Hr]]; rewrite Hr in *; cbn [msg_of bind].
  - destruct (Hres r eq_refl) as [-> ->]. reflexivity.
  - reflexivity.
  - reflexivity.
Qed.

Lemma fold_bool_import_ok inv mode off slack tail : 0 <= off ->
  forall cc d fl,
  fold_res (bool_import_part inv mode) (d, fl) (map (mk_chunk off slack tail) cc)
  = bind (map_res (vb mode inv) (concat cc)) (fun r => Ok (d ++ map fst r, fl ++ map snd r)).
Proof.
  intros Ho. induction cc as [|cells cc IH]; intros d fl; cbn [map fold_res concat].
  - cbn [map_res bind map]. rewrite !app_nil_r. reflexivity.
  - rewrite bool_import_part_ok by exact Ho. rewrite map_res_app.
    destruct (map_res (vb mode inv) cells) as [r1| | |]; cbn [bind]; try reflexivity.
    rewrite IH. destruct (map_res (vb mode inv) (concat cc)) as [r2| | |]; cbn [bind]; try reflexivity.
    rewrite !map_app, !app_assoc. reflexivity.
Qed.

(* NumericImporter (bool) = the literal table and the validation-mode table applied to the whole column,
   whatever the cell texts, the mode number, the chunking and the buffer layout *)
Theorem bool_transform_table_proof inv mode cc off slack tail : 0 <= off ->
  bool_import inv mode (map (mk_chunk off slack tail) cc) = spec_bool mode inv (concat cc).
Proof.
  intros Ho. unfold bool_import. rewrite fold_bool_import_ok by exact Ho.
  unfold spec_bool, vb. destruct (map_res _ (concat cc)); reflexivity.
Qed.

(* the kernel-level reading of the same fact (what numeric_bool_transform returns for one chunk) *)
Theorem bool_kernel_table_proof inv mode off slack tail cells : 0 <= off ->
  exists el va,
    numeric_bool_transform (mk_chunk off slack tail cells) inv mode (zeros (len cells)) (repeat 1 (length cells))
    = Ok (match spec_bool mode inv cells with Raise c => c - 100 | _ => 0 end, el, va) /\
    forall vals flags, spec_bool mode inv cells = Ok (vals, flags) -> el = vals /\ va = flags.
Proof.
  intros Ho. destruct (numeric_bool_transform_ok inv mode off slack tail cells Ho) as [el [va [Hrun Hres]]].
  exists el, va. unfold spec_bool. fold (vb mode inv). split.
  - rewrite Hrun. unfold msg_of. destruct (map_res (vb mode inv) cells); reflexivity.
  - intros vals flags H. destruct (map_res (vb mode inv) cells) as [r| | |]; cbn [bind] in H; try discriminate.
    inversion H; subst. apply Hres. reflexivity.
Qed.
