(* Proofs/MapHistoryProofs.v — a history of mapping calls on shared fields meets history_spec. *)
From Coq Require Import ZArith List Lia.
From EV Require Import Res Arr MapStream MapStreamSpec MapHistorySpec MapHistory
  MapStreamBase MapStreamGen MapStreamSpan MapHelpers MapIndexedDriver MapIndexedHelper.
Import ListNotations.
Open Scope Z_scope.

(* what each call of the history needs (the single-call preconditions, on the shared fields) *)
Definition step_pre (m num idx val:list Z) (inv:Z) (s:hstep) : Prop :=
  match s with
  | HStream cs => 1 <= cs /\ in_range_map (len num) inv m
  | HIStream cs vf => 1 <= cs /\ 0 <= vf /\ wf_indexed idx val /\ in_range_map (len idx - 1) inv m /\
                      entries_fit idx val inv m (cs * vf)
  | HMapValid | HSafe => in_range_map (len num) inv m
  | HISafe => wf_indexed idx val /\ in_range_map (len idx - 1) inv m
  | HSelf cs => 1 <= cs /\ in_range_map (len m) inv m
  end.

Lemma hist_step_ok fuel inv m num idx val outs st :
  step_pre m num idx val inv st -> (fuel >= 2 * length m + 2)%nat ->
  hist_step fuel Fixed inv (mk_hstate m num idx val outs) st
  = Ok (mk_hstate m num idx val (outs ++ [step_spec m num idx val inv st])).
Proof.
  intros Hpre Hf. destruct st as [cs|cs vf| | | |cs]; cbn [hist_step step_spec h_map h_num h_idx h_val h_out push_out].
  - destruct Hpre as [Hcs Hr].
    rewrite (@map_stream_correct_any Z 0 0 num inv m cs fuel Hcs Hr) by lia. reflexivity.
  - destruct Hpre as (Hcs & Hvf & Hwf & Hr & Hfit).
    rewrite (indexed_stream_correct_top idx val inv m cs vf fuel Hwf Hcs Hvf Hr Hfit) by lia. reflexivity.
  - rewrite (@map_valid_correct_gen Z 0 num inv m Hpre). reflexivity.
  - rewrite (@safe_map_values_correct_gen Z 0 num inv m None Hpre). reflexivity.
  - destruct Hpre as [Hwf Hr].
    rewrite (safe_map_indexed_values_correct_top idx val inv m [] Hwf Hr). reflexivity.
  - destruct Hpre as [Hcs Hr].
    rewrite (@map_stream_correct_any Z 0 0 m inv m cs fuel Hcs Hr) by lia. reflexivity.
Qed.

Lemma run_history_gen fuel inv m num idx val steps : forall outs,
  Forall (step_pre m num idx val inv) steps -> (fuel >= 2 * length m + 2)%nat ->
  fold_res (hist_step fuel Fixed inv) steps (mk_hstate m num idx val outs)
  = Ok (mk_hstate m num idx val (outs ++ map (step_spec m num idx val inv) steps)).
Proof.
  induction steps as [|st t IH]; intros outs Hall Hf; cbn [fold_res map].
  - rewrite app_nil_r. reflexivity.
  - inversion Hall as [|? ? Hst Ht]; subst.
    rewrite (hist_step_ok fuel inv m num idx val outs st Hst Hf). cbn [bind].
    rewrite (IH _ Ht Hf). rewrite <- app_assoc. reflexivity.
Qed.

Theorem history_correct_top fuel inv m num idx val steps :
  Forall (step_pre m num idx val inv) steps -> (fuel >= 2 * length m + 2)%nat ->
  run_history fuel Fixed inv m num idx val steps = Ok (history_spec m num idx val inv steps).
Proof.
  intros Hall Hf. unfold run_history, history_spec.
  rewrite (run_history_gen fuel inv m num idx val steps [] Hall Hf). reflexivity.
Qed.

(* the answer of the last call of a history is the answer of that call made alone *)
Theorem history_last_call_alone fuel inv m num idx val steps st s1 s2 :
  Forall (step_pre m num idx val inv) (steps ++ [st]) -> (fuel >= 2 * length m + 2)%nat ->
  run_history fuel Fixed inv m num idx val (steps ++ [st]) = Ok s1 ->
  run_history fuel Fixed inv m num idx val [st] = Ok s2 ->
  last (h_out s1) (ONum []) = last (h_out s2) (ONum []) /\
  h_map s1 = m /\ h_num s1 = num /\ h_idx s1 = idx /\ h_val s1 = val.
Proof.
  intros Hall Hf H1 H2.
  rewrite (history_correct_top fuel inv m num idx val _ Hall Hf) in H1.
  assert (Hst : Forall (step_pre m num idx val inv) [st]).
  { apply Forall_app in Hall. exact (proj2 Hall). }
  rewrite (history_correct_top fuel inv m num idx val _ Hst Hf) in H2.
  inversion H1; inversion H2; subst. cbn [history_spec h_out h_map h_num h_idx h_val].
  rewrite map_app. cbn [map]. rewrite last_last. cbn [last]. repeat split; reflexivity.
Qed.
