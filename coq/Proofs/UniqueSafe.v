(* Proofs/UniqueSafe.v — C14 (and the C10 half of it): on ANY arrays — malformed offsets, unsorted
   or empty test lists, invalid UTF-8 — the two compiled kernels make no out-of-bounds access and
   terminate within the fuel: they return Ok. *)
From Coq Require Import ZArith List Lia Bool.
From EV Require Import Res Arr UniqueSpec Unique UniqueStore UniqueIsin UniqueScan.
Import ListNotations.
Open Scope Z_scope.

Lemma bsearch_total fuel v tests : forall start end_,
  0 <= start -> end_ < len tests -> (Z.to_nat (end_ - start + 1) < fuel)%nat ->
  exists r, bsearch fuel v tests start end_ = Ok r.
Proof.
  induction fuel as [|f IH]; intros start end_ H0 H1 Hf; [lia|].
  cbn [bsearch]. destruct (start <=? end_) eqn:E; [|eauto].
  apply Z.leb_le in E.
  assert (Hm : start <= (start + end_) / 2 <= end_).
  { split; [apply Z.div_le_lower_bound; lia|apply Z.div_le_upper_bound; lia]. }
  set (mid := (start + end_) / 2) in *.
  rewrite (get_ok 3 [] tests mid) by lia. cbn [bind].
  rewrite compare_arrays_is_lex_order. cbn [bind].
  destruct (cmp_code (lexcmp v (nthd [] tests mid)) =? 0); [eauto|].
  destruct (cmp_code (lexcmp v (nthd [] tests mid)) =? 1); apply IH; lia.
Qed.

Lemma isin_rows_total fuel tests ind vals : (length tests < fuel)%nat ->
  forall n i, 0 <= i -> i + Z.of_nat n < len ind \/ n = O ->
  exists r, isin_rows fuel n i tests ind vals = Ok r.
Proof.
  intros Hf. induction n as [|n IH]; intros i Hi Hn; cbn [isin_rows]; [eauto|].
  destruct Hn as [Hn|Hn]; [|discriminate].
  rewrite (getZ_ok 4 ind i) by lia. rewrite (getZ_ok 5 ind (i + 1)) by lia. cbn [bind].
  destruct (bsearch_total fuel (np_slice vals (nthZ ind i) (nthZ ind (i + 1))) tests 0 (len tests - 1)) as [r Hr];
    [lia|lia|unfold len; lia|].
  rewrite Hr. cbn [bind]. destruct (IH (i + 1)) as [rest Hrest]; [lia|left; lia|].
  rewrite Hrest. cbn [bind]. eauto.
Qed.

Theorem isin_kernel_total : forall fuel tests ind vals,
  (length tests < fuel)%nat -> exists r, isin_indexed_string_speedup fuel tests ind vals = Ok r.
Proof.
  intros fuel tests ind vals Hf. unfold isin_indexed_string_speedup.
  apply isin_rows_total; [exact Hf|lia|].
  destruct (Z.to_nat (len ind - 1)) eqn:E; [right; reflexivity|left; lia].
Qed.

(* the scan: counts and result lists stay aligned, so unique_counts[j] is always in range *)
Definition aligned (wc:bool) (s:ustate) : Prop := wc = true -> len (u_cnt s) = len (u_res s).

Lemma find_equal_range v us j k : find_equal v us j = Some k -> j <= k < j + len us.
Proof.
  revert j. induction us as [|u t IH]; intros j H; cbn [find_equal] in H; [discriminate|].
  rewrite len_cons. pose proof (len_nonneg t). destruct (list_eqb v u).
  - injection H as <-. lia.
  - apply IH in H. lia.
Qed.

Lemma uniq_step_total wi wv wc ind vals s i :
  0 <= i -> i + 1 < len ind -> aligned wc s ->
  exists s', uniq_step wi wv wc ind vals s i = Ok s' /\ aligned wc s'.
Proof.
  intros Hi Hn Hal. unfold uniq_step.
  rewrite (getZ_ok 6 ind (i + 1)) by lia. rewrite (getZ_ok 7 ind i) by lia. cbn [bind].
  set (v := np_slice vals (nthZ ind i) (nthZ ind (i + 1))).
  assert (Hnew : forall lens, aligned wc (add_new wi wv wc i v lens s)).
  { intros lens Hw. unfold add_new. cbn [u_cnt u_res]. rewrite Hw, !len_app. rewrite (Hal Hw). reflexivity. }
  destruct (negb (existsb (Z.eqb (nthZ ind (i + 1) - nthZ ind i)) (u_lens s))); [eauto|].
  destruct (find_equal v (u_res s) 0) as [j|] eqn:F; [|eauto].
  apply find_equal_range in F. destruct wc.
  - specialize (Hal eq_refl). rewrite (getZ_ok 8 (u_cnt s) j) by lia. cbn [bind].
    rewrite set_ok by lia. cbn [bind]. eexists. split; [reflexivity|].
    intros _. cbn [u_cnt u_res]. rewrite len_upd. exact Hal.
  - cbn [bind]. eexists. split; [reflexivity|]. intros H; discriminate.
Qed.

Theorem unique_scan_total : forall wi wv wc ind vals,
  exists s, get_indexed_string_unique wi wv wc ind vals = Ok s.
Proof.
  intros wi wv wc ind vals. unfold get_indexed_string_unique.
  assert (H : forall n i s, 0 <= i -> i + Z.of_nat n < len ind \/ n = O -> aligned wc s ->
              exists s', uniq_loop wi wv wc ind vals n i s = Ok s').
  { induction n as [|n IH]; intros i s Hi Hn Hal; cbn [uniq_loop]; [eauto|].
    destruct Hn as [Hn|Hn]; [|discriminate].
    destruct (uniq_step_total wi wv wc ind vals s i) as [s1 [H1 Hal1]]; [lia|lia|exact Hal|].
    rewrite H1. cbn [bind]. apply IH; [lia|left; lia|exact Hal1]. }
  apply H; [lia| |intros _; reflexivity].
  destruct (Z.to_nat (len ind - 1)) eqn:E; [right; reflexivity|left; lia].
Qed.
