(* Proofs/JoinMainKRU.v — end results of C03 for the right-unique streamed variants
   (generate_ordered_map_to_left_right_unique_streamed / ..._inner_right_unique_streamed),
   assembled from the generic driver theorem (JoinDriver.streamed_ok) and KindOK_RU. *)
From Coq Require Import ZArith List Lia Bool ZifyBool.
From EV Require Import Res Arr Join JoinSpec JoinBase JoinIface JoinRows JoinWin JoinDriver JoinMain JoinRU.
Import ListNotations.
Open Scope Z_scope.

(* left sorted (duplicates allowed), right strictly increasing: the streamed variant returns the
   relational join, or the clear ValueError of get_next_chunk — and the latter only if the
   (trimmed) left side has a whole window of cs equal keys whose run continues beyond it *)
Lemma streamed_right_unique_ok is_left L R inv cs :
  1 <= cs -> sorted L -> ssorted R ->
  streamed (mkvar KRU is_left) L R inv cs = Ok (expected KRU is_left inv L R)
  \/ (streamed (mkvar KRU is_left) L R inv cs = Raise E_ValueError /\ LongRun KRU is_left L R cs).
Proof.
  intros Hcs HL HR.
  exact (streamed_ok KRU is_left L R inv cs (KindOK_RU is_left L R inv cs HL HR) Hcs).
Qed.

(* for this kind only the left side is trimmed *)
Lemma LongRun_KRU is_left L R cs : LongRun KRU is_left L R cs <-> long_run_in cs L.
Proof.
  unfold LongRun. cbn [v_ltrim v_rtrim v_kind]. split.
  - intros [(_ & H)|(H & _)]; [exact H|discriminate].
  - intros H. left. split; [reflexivity|exact H].
Qed.

(* the readable side condition: every window of cs consecutive keys X[a .. a+cs) that does not
   reach the end of X (a + cs < len X) contains two different adjacent keys *)
Definition no_long_run (X:list Z) (cs:Z) : Prop :=
  forall a, 0 <= a -> a + cs < len X ->
  exists k, a < k < a + cs /\ nthZ X (k - 1) <> nthZ X k.

Lemma no_long_run_not X cs : no_long_run X cs -> ~ long_run_in cs X.
Proof.
  intros H (a & Ha & Hlt & Hall). destruct (H a Ha Hlt) as (k & Hk & Hne).
  apply Hne, Hall, Hk.
Qed.

(* two cheap sufficient conditions *)
Lemma no_long_run_short X cs : len X <= cs -> no_long_run X cs.
Proof. intros H a Ha Hlt. lia. Qed.

Lemma no_long_run_ssorted X cs : 2 <= cs -> ssorted X -> no_long_run X cs.
Proof.
  intros Hcs HX a Ha Hlt. exists (a + 1). split; [lia|].
  replace (a + 1 - 1) with a by lia. pose proof (HX a (a + 1) ltac:(lia) ltac:(lia) ltac:(lia)). lia.
Qed.

Lemma streamed_right_unique_correct is_left L R inv cs :
  1 <= cs -> sorted L -> ssorted R -> no_long_run L cs ->
  streamed (mkvar KRU is_left) L R inv cs = Ok (expected KRU is_left inv L R).
Proof.
  intros Hcs HL HR Hn.
  destruct (streamed_right_unique_ok is_left L R inv cs Hcs HL HR) as [H|(_ & Hlong)]; [exact H|].
  exfalso. apply (no_long_run_not L cs Hn). apply (LongRun_KRU is_left L R cs). exact Hlong.
Qed.

(* chunking is unobservable: any two admissible chunk sizes give the same maps *)
Lemma streamed_right_unique_chunking is_left L R inv cs1 cs2 :
  1 <= cs1 -> 1 <= cs2 -> sorted L -> ssorted R -> no_long_run L cs1 -> no_long_run L cs2 ->
  streamed (mkvar KRU is_left) L R inv cs1 = streamed (mkvar KRU is_left) L R inv cs2.
Proof.
  intros H1 H2 HL HR Hn1 Hn2.
  rewrite (streamed_right_unique_correct is_left L R inv cs1 H1 HL HR Hn1).
  rewrite (streamed_right_unique_correct is_left L R inv cs2 H2 HL HR Hn2). reflexivity.
Qed.

(* the hypotheses are satisfiable on a non-trivial input: duplicate left keys whose runs straddle
   chunk boundaries, unmatched keys on both sides, chunk size 3 *)
Example right_unique_hyps_ex :
  let L := [1; 1; 2; 2; 4; 5; 5; 5] in let R := [0; 1; 2; 3; 5] in
  sorted L /\ ssorted R /\ no_long_run L 3 /\
  streamed (mkvar KRU true) L R (-1) 3 = Ok ([], [1; 1; 2; 2; -1; 4; 4; 4]) /\
  streamed (mkvar KRU false) L R (-1) 3 = Ok ([0; 1; 2; 3; 5; 6; 7], [1; 1; 2; 2; 4; 4; 4]).
Proof.
  cbv zeta. splits.
  - apply sortedb_sorted. reflexivity.
  - apply ssortedb_ssorted. reflexivity.
  - intros a Ha Hlt. change (len [1; 1; 2; 2; 4; 5; 5; 5]) with 8 in Hlt.
    assert (Hc : a = 0 \/ a = 1 \/ a = 2 \/ a = 3 \/ a = 4) by lia.
    destruct Hc as [->|[->|[->|[->| ->]]]].
    + exists 2. split; [lia|]. vm_compute. discriminate.
    + exists 2. split; [lia|]. vm_compute. discriminate.
    + exists 4. split; [lia|]. vm_compute. discriminate.
    + exists 4. split; [lia|]. vm_compute. discriminate.
    + exists 5. split; [lia|]. vm_compute. discriminate.
  - vm_compute. reflexivity.
  - vm_compute. reflexivity.
Qed.

(* the error branch is real: a run of 3 equal left keys cannot be trimmed with chunk size 2 *)
Example right_unique_long_run_ex :
  streamed (mkvar KRU true) [1; 1; 1] [1] (-1) 2 = Raise E_ValueError /\ long_run_in 2 [1; 1; 1].
Proof.
  split; [vm_compute; reflexivity|].
  exists 0. splits; [lia|vm_compute; reflexivity|].
  intros k Hk. assert (k = 1) by lia. subst k. reflexivity.
Qed.

Print Assumptions streamed_right_unique_ok.
Print Assumptions streamed_right_unique_correct.
Print Assumptions streamed_right_unique_chunking.
