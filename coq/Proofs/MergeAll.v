(* Proofs/MergeAll.v — C02, extension E4 (part 1): the streamed path of the repaired merge with NO hypothesis
   about C03 left.  The Section hypothesis `C03_selected` of MergeTop.ordered_merge_correct_gen is C03's
   end-to-end statement for the generator the call-site table selects; JoinAll.streamed_total proves that
   statement for all eight generators from `kind_pre` (sorted keys, strictly sorted on the sides the
   variant's name declares unique) and 1 <= cs.  Here the two are put together for every
   how in {left,right,inner} and every unique-hint pair. *)
From Coq Require Import ZArith List Lia Bool.
From EV Require Import Res Arr Join JoinSpec JoinBase JoinIface JoinRows JoinDriver JoinMain JoinAll
  MapStream MapStreamSpec MapIndexedDriver Merge MergeSpec MergeBase MergeOrdered MergeMaps MergeTop.
Import ListNotations.
Open Scope Z_scope.

(* C02's precondition on the key columns, in the caller's vocabulary: both sorted (the two ordered hints),
   and strictly sorted where a unique hint is given (the hint is truthful) *)
Definition hints_truthful (lu ru:bool) (lk rk:list Z) : Prop :=
  sorted lk /\ sorted rk /\ (lu = true -> ssorted lk) /\ (ru = true -> ssorted rk).

Lemma kind_pre_of_unique au bu A B :
  kind_pre (kind_of_unique au bu) A B <->
  (sorted A /\ sorted B /\ (au = true -> ssorted A) /\ (bu = true -> ssorted B)).
Proof.
  destruct au, bu; cbn [kind_of_unique kind_pre]; split.
  - intros (H1 & H2). splits; auto using ssorted_sorted.
  - intros (_ & _ & H1 & H2). split; auto.
  - intros (H1 & H2). splits; auto using ssorted_sorted. intros; discriminate.
  - intros (_ & H & H1 & _). split; auto.
  - intros (H1 & H2). splits; auto using ssorted_sorted. intros; discriminate.
  - intros (H & _ & _ & H2). split; auto.
  - intros (H1 & H2). splits; auto; intros; discriminate.
  - intros (H1 & H2 & _). split; assumption.
Qed.

(* the translation: C02's precondition = the precondition `kind_pre` of the selected generator on the
   (a, b) arguments the table passes (swapped for how='right') *)
Lemma sel_kind_pre how lu ru lk rk :
  hints_truthful lu ru lk rk <->
  kind_pre (v_kind (sel_variant how lu ru)) (sel_a how lk rk) (sel_b how lk rk).
Proof.
  unfold hints_truthful, sel_variant, sel_a, sel_b.
  destruct (how =? 0) eqn:E0; destruct (how =? 1) eqn:E1; try lia; cbn [v_kind]; rewrite kind_pre_of_unique; tauto.
Qed.

Lemma sel_variant_eta how lu ru :
  sel_variant how lu ru = mkvar (v_kind (sel_variant how lu ru)) (v_left (sel_variant how lu ru)).
Proof. destruct (sel_variant how lu ru). reflexivity. Qed.

(* C03 for the selected generator: the former Section hypothesis, now a lemma *)
Lemma C03_selected_all how lu ru lk rk cs :
  hints_truthful lu ru lk rk -> 1 <= cs ->
  let v := sel_variant how lu ru in
  let inv := merge_invalid lu ru (len lk) (len rk) in
  streamed v (sel_a how lk rk) (sel_b how lk rk) inv cs
    = Ok (expected (v_kind v) (v_left v) inv (sel_a how lk rk) (sel_b how lk rk)) \/
  (streamed v (sel_a how lk rk) (sel_b how lk rk) inv cs = Raise E_ValueError /\
   LongRun (v_kind v) (v_left v) (sel_a how lk rk) (sel_b how lk rk) cs).
Proof.
  intros Hpre Hcs. cbv zeta. apply (sel_kind_pre how) in Hpre.
  rewrite (sel_variant_eta how lu ru) at 1 4.
  apply streamed_total; assumption.
Qed.

(* when the generator raises, so does _ordered_merge (nothing has been created yet) *)
Lemma ordered_merge_raises how lu ru lk rk lcols rcols lsuf rsuf cs mcs vf ccs c :
  how = 0 \/ how = 1 \/ how = 2 ->
  streamed (sel_variant how lu ru) (sel_a how lk rk) (sel_b how lk rk)
           (merge_invalid lu ru (len lk) (len rk)) cs = Raise c ->
  ordered_merge MFixed how lu ru lk rk lcols rcols lsuf rsuf (len lk) (len rk) cs mcs vf ccs = Raise c.
Proof.
  intros Hhow H. unfold ordered_merge, ordered_maps.
  destruct Hhow as [E|[E|E]]; subst how; cbn [Z.eqb Pos.eqb orb sel_variant sel_a sel_b] in *;
    rewrite H; reflexivity.
Qed.

Lemma chunks_ok_not_long k emit cs A B : chunks_ok k cs A B -> ~ LongRun k emit A B cs.
Proof.
  intros (HwL & HwR) [(Ht & Hl)|(Ht & Hl)].
  - apply (windows_ok_not_long cs A); [apply HwL; destruct k; exact Ht|exact Hl].
  - apply (windows_ok_not_long cs B); [apply HwR; destruct k; exact Ht|exact Hl].
Qed.

Section All.
Variables (how:Z) (lu ru:bool) (lk rk:list Z) (lcols rcols:frame) (lsuf rsuf:list Z) (cs mcs vf ccs:Z).
Let v := sel_variant how lu ru.
Let A := sel_a how lk rk.
Let B := sel_b how lk rk.
Let inv := merge_invalid lu ru (len lk) (len rk).
Hypothesis Hhow : how = 0 \/ how = 1 \/ how = 2.
Hypothesis Hcs : 1 <= cs.
Hypothesis Hmcs : 1 <= mcs.
Hypothesis Hvf : 0 <= vf.
Hypothesis Hccs : 1 <= ccs.
Hypothesis Hpre : hints_truthful lu ru lk rk.
Hypothesis Hnbd : nbd A B.
Hypothesis Hlframe : frame_ok (len lk) lcols (mcs * vf).
Hypothesis Hrframe : frame_ok (len rk) rcols (mcs * vf).
Hypothesis Hnames : NoDup (frame_names (ordered_dest how lu ru lk rk lcols rcols lsuf rsuf)).

(* whenever the selected generator returns, _ordered_merge builds the destination of the relational join *)
Lemma ordered_merge_of_ok :
  streamed v A B inv cs = Ok (expected (v_kind v) (v_left v) inv A B) ->
  ordered_merge MFixed how lu ru lk rk lcols rcols lsuf rsuf (len lk) (len rk) cs mcs vf ccs
  = Ok (ordered_dest how lu ru lk rk lcols rcols lsuf rsuf).
Proof.
  intros HC. destruct Hpre as (HsL & HsR & _ & _).
  assert (HA : sorted A /\ sorted B).
  { unfold A, B, sel_a, sel_b. destruct (how =? 1); split; assumption. }
  destruct HA as (HA & HB).
  destruct (jmaps_valid how lu ru lk rk inv Hhow HA HB Hnbd) as (Hvl & Hvr).
  apply ordered_merge_ok; try assumption.
  - fold inv. destruct (fst (jmaps how lu ru lk rk inv)) as [m|]; [|exact I].
    apply frame_ok_cols_ok; assumption.
  - fold inv. destruct (snd (jmaps how lu ru lk rk inv)) as [m|]; [|exact I].
    apply frame_ok_cols_ok; assumption.
Qed.

(* total form: the destination of the relational join, or the clear ValueError — and that only for a long run *)
Theorem ordered_merge_total_all :
  ordered_merge MFixed how lu ru lk rk lcols rcols lsuf rsuf (len lk) (len rk) cs mcs vf ccs
    = Ok (ordered_dest how lu ru lk rk lcols rcols lsuf rsuf) \/
  (ordered_merge MFixed how lu ru lk rk lcols rcols lsuf rsuf (len lk) (len rk) cs mcs vf ccs
    = Raise E_ValueError /\ LongRun (v_kind v) (v_left v) A B cs).
Proof.
  pose proof (C03_selected_all how lu ru lk rk cs Hpre Hcs) as HC. cbv zeta in HC. fold v A B inv in HC.
  destruct HC as [HC|(HC & HL)].
  - left. apply ordered_merge_of_ok. exact HC.
  - right. split; [|exact HL]. apply ordered_merge_raises; assumption.
Qed.

(* no long run on a trimmed side (stated as ~LongRun, the weakest form): always the relational join *)
Theorem ordered_merge_correct_nolong :
  ~ LongRun (v_kind v) (v_left v) A B cs ->
  ordered_merge MFixed how lu ru lk rk lcols rcols lsuf rsuf (len lk) (len rk) cs mcs vf ccs
  = Ok (ordered_dest how lu ru lk rk lcols rcols lsuf rsuf).
Proof. intros Hn. destruct ordered_merge_total_all as [H|(_ & H)]; [exact H|contradiction]. Qed.

(* the same with C03's own precondition on the chunk size: every window of cs keys of a trimmed side
   holds two different adjacent keys *)
Theorem ordered_merge_correct_all :
  chunks_ok (v_kind v) cs A B ->
  ordered_merge MFixed how lu ru lk rk lcols rcols lsuf rsuf (len lk) (len rk) cs mcs vf ccs
  = Ok (ordered_dest how lu ru lk rk lcols rcols lsuf rsuf).
Proof. intros Hc. apply ordered_merge_correct_nolong. apply chunks_ok_not_long. exact Hc. Qed.

(* the only exception _ordered_merge can raise on truthful hints *)
Theorem ordered_merge_raises_only_value_error c :
  ordered_merge MFixed how lu ru lk rk lcols rcols lsuf rsuf (len lk) (len rk) cs mcs vf ccs = Raise c ->
  c = E_ValueError /\ ~ chunks_ok (v_kind v) cs A B.
Proof.
  intros Hc. destruct ordered_merge_total_all as [H|(H & HL)]; rewrite H in Hc; [discriminate|].
  split; [congruence|]. intros Hck. exact (chunks_ok_not_long _ _ _ _ _ Hck HL).
Qed.

Theorem ordered_merge_no_oob site :
  ordered_merge MFixed how lu ru lk rk lcols rcols lsuf rsuf (len lk) (len rk) cs mcs vf ccs <> OOB site.
Proof. destruct ordered_merge_total_all as [H|(H & _)]; rewrite H; discriminate. Qed.

Theorem ordered_merge_terminates :
  ordered_merge MFixed how lu ru lk rk lcols rcols lsuf rsuf (len lk) (len rk) cs mcs vf ccs <> OutOfFuel.
Proof. destruct ordered_merge_total_all as [H|(H & _)]; rewrite H; discriminate. Qed.
End All.

(* a truthful unique hint on either side excludes a key repeated on both sides: nbd is discharged *)
Lemma hints_nbd how lu ru lk rk : lu = true \/ ru = true -> hints_truthful lu ru lk rk ->
  nbd (sel_a how lk rk) (sel_b how lk rk).
Proof.
  intros Hu (_ & _ & HL & HR). unfold sel_a, sel_b.
  destruct (how =? 1); destruct Hu as [E|E];
    [apply nbd_right_unique|apply nbd_left_unique|apply nbd_left_unique|apply nbd_right_unique]; auto.
Qed.

Theorem ordered_merge_unique_hint_correct how lu ru lk rk lcols rcols lsuf rsuf cs mcs vf ccs :
  how = 0 \/ how = 1 \/ how = 2 -> 1 <= cs -> 1 <= mcs -> 0 <= vf -> 1 <= ccs ->
  lu = true \/ ru = true -> hints_truthful lu ru lk rk ->
  chunks_ok (v_kind (sel_variant how lu ru)) cs (sel_a how lk rk) (sel_b how lk rk) ->
  frame_ok (len lk) lcols (mcs * vf) -> frame_ok (len rk) rcols (mcs * vf) ->
  NoDup (frame_names (ordered_dest how lu ru lk rk lcols rcols lsuf rsuf)) ->
  ordered_merge MFixed how lu ru lk rk lcols rcols lsuf rsuf (len lk) (len rk) cs mcs vf ccs
  = Ok (ordered_dest how lu ru lk rk lcols rcols lsuf rsuf).
Proof.
  intros Hhow Hcs Hmcs Hvf Hccs Hu Hpre Hck Hlf Hrf Hn.
  apply ordered_merge_correct_all; try assumption. apply (hints_nbd how lu ru); assumption.
Qed.

(* chunk sizes are unobservable for every variant (any two settings the inputs fit) *)
Theorem chunk_sizes_unobservable_all how lu ru lk rk lcols rcols lsuf rsuf cs mcs vf ccs cs' mcs' vf' ccs' :
  how = 0 \/ how = 1 \/ how = 2 ->
  1 <= cs -> 1 <= mcs -> 0 <= vf -> 1 <= ccs -> 1 <= cs' -> 1 <= mcs' -> 0 <= vf' -> 1 <= ccs' ->
  hints_truthful lu ru lk rk -> nbd (sel_a how lk rk) (sel_b how lk rk) ->
  chunks_ok (v_kind (sel_variant how lu ru)) cs (sel_a how lk rk) (sel_b how lk rk) ->
  chunks_ok (v_kind (sel_variant how lu ru)) cs' (sel_a how lk rk) (sel_b how lk rk) ->
  frame_ok (len lk) lcols (mcs * vf) -> frame_ok (len rk) rcols (mcs * vf) ->
  frame_ok (len lk) lcols (mcs' * vf') -> frame_ok (len rk) rcols (mcs' * vf') ->
  NoDup (frame_names (ordered_dest how lu ru lk rk lcols rcols lsuf rsuf)) ->
  ordered_merge MFixed how lu ru lk rk lcols rcols lsuf rsuf (len lk) (len rk) cs mcs vf ccs
  = ordered_merge MFixed how lu ru lk rk lcols rcols lsuf rsuf (len lk) (len rk) cs' mcs' vf' ccs'.
Proof.
  intros. rewrite !ordered_merge_correct_all by assumption. reflexivity.
Qed.
