(* Proofs/SessionMergeLeft.v — the non-streamed left-map kernels
   generate_ordered_map_to_left_right_unique / _both_unique equal the left join (C19). *)
From Coq Require Import ZArith List Lia Bool ZifyBool.
From EV Require Import Res Arr Join JoinSpec JoinBase JoinIface JoinRows JoinBU MapStream SessionMerge.
Import ListNotations.
Open Scope Z_scope.

Lemma map_snd_unmatched' inv a b : map snd (unmatched inv a b) = map (fun _ => inv) (seqZ a (b - a)).
Proof. unfold unmatched. rewrite map_map. reflexivity. Qed.

Lemma slice_app_snoc (l:list Z) i : 0 <= i < len l -> slice l 0 (i + 1) = slice l 0 i ++ [nthZ l i].
Proof.
  intros H. unfold slice. cbn [Z.to_nat skipn]. rewrite !Z.sub_0_r. apply firstn_snoc. exact H.
Qed.

Lemma slice_upd_before (l:list Z) i k x : 0 <= k <= i -> slice (upd l i x) 0 k = slice l 0 k.
Proof.
  intros H. unfold slice, upd. cbn [Z.to_nat skipn]. rewrite !Z.sub_0_r.
  apply firstn_upd_nat_lt. lia.
Qed.

Section LeftMap.
Variables (both:bool) (L R:list Z) (inv:Z).
Hypothesis HL : sorted L.
Hypothesis HLb : both = true -> ssorted L.
Hypothesis HR : ssorted R.

Definition LInv (res:list Z) (i j:Z) : Prop :=
  0 <= i <= len L /\ 0 <= j <= len R /\ len res = len L /\
  slice res 0 i = map snd (rows_upto true inv L R i) /\
  (forall j' i', 0 <= j' < j -> i <= i' < len L -> nthZ R j' < nthZ L i').

Lemma sortedR' : sorted R. Proof. apply ssorted_sorted, HR. Qed.

Lemma lmap_main_ok : forall fuel res i j unm,
  LInv res i j -> Z.of_nat fuel > (len L - i) + (len R - j) ->
  exists res' i' j' u', lmap_main fuel both 0 L R res inv i j unm = Ok (res', i', j', u') /\
    LInv res' i' j' /\ (i' = len L \/ j' = len R).
Proof.
  induction fuel as [|fuel IH]; intros res i j unm HI Hf.
  - destruct HI as (Hi & Hj & _). lia.
  - destruct HI as (Hi & Hj & Hlen & Hpre & Hfr).
    cbn [lmap_main].
    destruct ((i <? len L) && (j <? len R)) eqn:Ec.
    2:{ exists res, i, j, unm. split; [reflexivity|]. split; [unfold LInv; auto|]. lia. }
    assert (Hil : i < len L) by lia. assert (Hjl : j < len R) by lia.
    rewrite (getZ_ok 301 L i) by lia. rewrite (getZ_ok 302 R j) by lia. cbn [bind].
    assert (Hfr_i : forall j', 0 <= j' < j -> nthZ R j' < nthZ L i) by (intros j' Hj'; apply Hfr; lia).
    destruct (nthZ L i <? nthZ R j) eqn:E1; [|destruct (nthZ R j <? nthZ L i) eqn:E2].
    + (* unmatched left row *)
      rewrite set_ok by lia. cbn [bind].
      apply IH; [|lia].
      unfold LInv. rewrite len_upd. repeat split; try lia.
      * rewrite slice_upd_snoc' by lia. rewrite rows_upto_succ by lia. rewrite map_app, <- Hpre.
        rewrite (row_none true L R inv HR i j) by (try lia; try assumption; intros; lia). reflexivity.
      * intros j' i' Hj' Hi'. apply Hfr; lia.
    + (* skip a right key *)
      apply IH; [|lia].
      unfold LInv. repeat split; try lia; try assumption.
      intros j' i' Hj' Hi'. destruct (Z.eq_dec j' j) as [->|Hne]; [|apply Hfr; lia].
      pose proof (HL i i' ltac:(lia) ltac:(lia) ltac:(lia)). lia.
    + (* match *)
      assert (Heq : nthZ L i = nthZ R j) by lia.
      rewrite set_ok by lia. cbn [bind]. rewrite Z.add_0_r.
      assert (Hpre' : slice (upd res i j) 0 (i + 1) = map snd (rows_upto true inv L R (i + 1))).
      { rewrite slice_upd_snoc' by lia. rewrite rows_upto_succ by lia. rewrite map_app, <- Hpre.
        rewrite (row_one true L R inv HR i j) by (try lia; assumption). reflexivity. }
      destruct both eqn:Eb.
      * apply IH; [|lia].
        unfold LInv. rewrite len_upd. repeat split; try lia; try assumption.
        intros j' i' Hj' Hi'. destruct (Z.eq_dec j' j) as [->|Hne]; [|apply Hfr; lia].
        rewrite <- Heq. apply (HLb eq_refl); lia.
      * destruct (len L <=? i + 1) eqn:E3.
        -- cbn [bind]. apply IH; [|lia].
           unfold LInv. rewrite len_upd. repeat split; try lia; try assumption.
        -- rewrite (getZ_ok 305 L (i + 1)) by lia. cbn [bind].
           destruct (nthZ L (i + 1) =? nthZ L i) eqn:E4; cbn [negb].
           ++ apply IH; [|lia].
              unfold LInv. rewrite len_upd. repeat split; try lia; try assumption.
              intros j' i' Hj' Hi'. apply Hfr; lia.
           ++ apply IH; [|lia].
              unfold LInv. rewrite len_upd. repeat split; try lia; try assumption.
              intros j' i' Hj' Hi'. destruct (Z.eq_dec j' j) as [->|Hne]; [|apply Hfr; lia].
              pose proof (HL i (i + 1) ltac:(lia) ltac:(lia) ltac:(lia)).
              pose proof (HL (i + 1) i' ltac:(lia) ltac:(lia) ltac:(lia)). lia.
Qed.

Lemma lmap_tail_ok : forall fuel res i,
  len res = len L -> 0 <= i <= len L -> Z.of_nat fuel > len L - i ->
  exists res', lmap_tail fuel L res inv i = Ok res' /\ len res' = len L /\
    slice res' 0 (len L) = slice res 0 i ++ map (fun _ => inv) (seqZ i (len L - i)).
Proof.
  induction fuel as [|fuel IH]; intros res i Hlen Hi Hf; [lia|].
  cbn [lmap_tail]. destruct (i <? len L) eqn:E.
  - rewrite set_ok by lia. cbn [bind].
    destruct (IH (upd res i inv) (i + 1)) as (res' & E' & Hl' & Hs'); [rewrite len_upd; lia|lia|lia|].
    exists res'. split; [exact E'|]. split; [exact Hl'|].
    rewrite Hs'. rewrite slice_upd_snoc' by lia. rewrite <- app_assoc. f_equal.
    rewrite (seqZ_cons i (len L - i)) by lia. cbn [map app]. do 3 f_equal. lia.
  - exists res. split; [reflexivity|]. split; [exact Hlen|].
    assert (i = len L) by lia. subst i. rewrite seqZ_nil by lia. cbn [map]. rewrite app_nil_r. reflexivity.
Qed.

Theorem gen_left_map_correct res :
  len res = len L ->
  exists u, gen_left_map both L R res inv = Ok (map snd (left_join inv L R), u).
Proof.
  intros Hlen. unfold gen_left_map.
  replace (negb (len L =? len res)) with false by lia.
  pose proof (len_nonneg L) as HL0. pose proof (len_nonneg R) as HR0.
  assert (HI0 : LInv res 0 0).
  { unfold LInv. repeat split; try lia. }
  destruct (lmap_main_ok (lmap_fuel L R) res 0 0 0 HI0) as (r1 & i1 & j1 & u1 & E1 & HI1 & Hend).
  { unfold lmap_fuel, len. lia. }
  rewrite E1. cbn [bind].
  destruct HI1 as (Hi1 & Hj1 & Hlen1 & Hpre1 & Hfr1).
  destruct (lmap_tail_ok (S (length L)) r1 i1 Hlen1 Hi1) as (r2 & E2 & Hlen2 & Hs2); [unfold len; lia|].
  rewrite E2. cbn [bind]. exists (0 <? u1). do 2 f_equal.
  rewrite <- (slice_full r2), Hlen2, Hs2, Hpre1.
  change (left_join inv L R) with (join_spec true inv L R).
  rewrite (rows_unmatched_tail true inv L R i1 Hi1).
  - rewrite map_app, map_snd_unmatched'. reflexivity.
  - intros i Hi. destruct Hend as [He|He]; [lia|].
    apply matches_from_none. intros j Hj. specialize (Hfr1 j i ltac:(lia) ltac:(lia)). lia.
Qed.

End LeftMap.
