(* Proofs/CatalogueIdent.v — object identity of dataframes (C15): looking a dataframe up (ds[name], and every operation
   that starts with such a lookup) and require_dataframe never change the object a name is bound to;
   require_dataframe / create_dataframe hand back THE catalogued object.  No invariant is needed: these hold in every
   state, for both code variants. *)
From Coq Require Import ZArith List Bool Lia.
From EV Require Import Res Catalogue CatalogueSpec CatalogueIdentSpec CatalogueBase CatalogueInv.
Import ListNotations.
Open Scope Z_scope.

(* ds[name]: a pure lookup in the catalogue *)
Lemma ds_getitem_lookup i n s s' r :
  ds_getitem i n s = (s', r) -> s' = s /\ (forall g, r = Ok g <-> d_find (py_dfs s i) n = Some g).
Proof.
  unfold ds_getitem. destruct (d_find (py_dfs s i) n) as [g0|]; intros E; inversion E; subst; split; try reflexivity.
  - intros g. split; intros X; inversion X; reflexivity.
  - intros g. split; intros X; discriminate X.
Qed.

(* bindings of a state that survive in another *)
Definition keeps_bindings (s s':state) : Prop :=
  forall j k g, d_find (py_dfs s j) k = Some g -> d_find (py_dfs s' j) k = Some g.

Lemma close_df_binding s i n g j k x :
  d_find (py_dfs s i) n = None -> d_find (py_dfs s j) k = Some x -> d_find (py_dfs (close_df s i n g) j) k = Some x.
Proof.
  intros HN H. cbn. unfold fupd. destruct (j =? i) eqn:E; [|exact H]. apply Z.eqb_eq in E. subst j.
  rewrite d_find_set. destruct (name_eqb k n) eqn:K; [|exact H]. apply name_eqb_spec in K. subst. congruence.
Qed.

(* create_dataframe(name) without a source frame: raises and changes nothing, or binds `name` to the object it returns
   and leaves every other binding alone (the same for a name that was bound before: only possible when the file and the
   catalogue disagree, which Inv excludes — then the old binding is replaced; stated for unbound names) *)
Lemma ds_create_plain_bindings c i n s s' r :
  d_find (py_dfs s i) n = None -> ds_create_dataframe c i n None s = (s', r) ->
  keeps_bindings s s' /\ (forall g, r = Ok g -> d_find (py_dfs s' i) n = Some g /\ g = next_id s).
Proof.
  intros HN E. rewrite ds_create_dataframe_run in E. destruct (d_mem (h5_root s i) n).
  - inversion E; subst. split; [intros j k g H; exact H | intros g X; discriminate X].
  - cbv zeta in E. inversion E; subst. split.
    + intros j k g H. apply close_df_binding; [exact HN | exact H].
    + intros g X. inversion X; subst. split; [|reflexivity]. cbn. rewrite fupd_same, d_find_set, name_eqb_refl. reflexivity.
Qed.

(* require_dataframe(name): an existing name — WHATEVER the frame holds, nothing included — gives back the catalogued
   object and changes nothing at all; a new name is created and bound to the object returned *)
Theorem require_returns_catalogued c i n s s' g :
  ds_require_dataframe c i n s = (s', Ok g) ->
  d_find (py_dfs s' i) n = Some g /\
  (forall g0, d_find (py_dfs s i) n = Some g0 -> g = g0 /\ s' = s).
Proof.
  unfold ds_require_dataframe, bindM, mget. destruct (d_find (py_dfs s i) n) as [g0|] eqn:F; intros E.
  - inversion E; subst. split; [exact F|]. intros g1 X. inversion X; subst. auto.
  - destruct (ds_create_plain_bindings c i n s s' (Ok g) F E) as [_ H]. destruct (H g eq_refl) as [H1 _].
    split; [exact H1 | intros g0 X; discriminate X].
Qed.

Theorem require_keeps_bindings c i n s s' r :
  ds_require_dataframe c i n s = (s', r) -> keeps_bindings s s'.
Proof.
  unfold ds_require_dataframe, bindM, mget. destruct (d_find (py_dfs s i) n) as [g0|] eqn:F; intros E.
  - inversion E; subst. intros j k g H; exact H.
  - exact (proj1 (ds_create_plain_bindings c i n s s' r F E)).
Qed.

(* the history step: ds.require_dataframe(d) never changes the object any name is bound to, in either dataset *)
Theorem step_require_keeps_bindings c i d s s' r :
  step c (ORequireDF i d) s = (s', r) -> keeps_bindings s s'.
Proof.
  cbn [step]. intros E. apply bindM_inv in E. destruct E as [(s1 & a & E1 & E2)|[E1 _]].
  - inversion E2; subst. eapply require_keeps_bindings; exact E1.
  - eapply require_keeps_bindings; exact E1.
Qed.

(* on the observation: the identity verdict of a require_dataframe step is true *)
Lemma place_of_found s g j k : forall files,
  In j files -> (forall j', In j' files -> j' <> j -> d_rfind (py_dfs s j') g = None) ->
  d_rfind (py_dfs s j) g = Some k -> place_of s files g = Some (j, k).
Proof.
  induction files as [|h t IH]; intros I O F; [destruct I|]. cbn [place_of].
  destruct (Z.eq_dec h j) as [->|NE].
  - rewrite F. reflexivity.
  - rewrite (O h (or_introl eq_refl) NE). apply IH; [destruct I; [contradiction|assumption]| |exact F].
    intros j' I' N'. apply O; [right; exact I' | exact N'].
Qed.

(* ------------------------------------------------------------------ computations that never touch Dataset._dataframes *)
Definition kd {A} (m:M A) : Prop := forall s s' r, m s = (s', r) -> py_dfs s' = py_dfs s.

Lemma kd_bind {A B} (m:M A) (f:A -> M B) : kd m -> (forall a, kd (f a)) -> kd (bindM m f).
Proof.
  intros H1 H2 s s' r E. unfold bindM in E. destruct (m s) as [s1 r1] eqn:Em. pose proof (H1 _ _ _ Em) as K1.
  destruct r1 as [a|x|e|]; try (inversion E; subst; exact K1).
  rewrite (H2 a _ _ _ E). exact K1.
Qed.

Ltac kd0 := intros s s' r E.
Ltac same E := inversion E; subst; reflexivity.

Lemma kd_ret {A} (a:A) : kd (ret a).            Proof. kd0. same E. Qed.
Lemma kd_raise {A} c : kd (@raise A c).         Proof. kd0. same E. Qed.
Lemma kd_mget : kd mget.                        Proof. kd0. same E. Qed.
Lemma kd_liftR {A} (x:res A) : kd (liftR x).    Proof. kd0. same E. Qed.
Lemma kd_modify (f:state -> state) : (forall s, py_dfs (f s) = py_dfs s) -> kd (modify f).
Proof. intros H. kd0. inversion E; subst. apply H. Qed.
Lemma kd_ds_getitem i n : kd (ds_getitem i n).
Proof. kd0. unfold ds_getitem in E. destruct (d_find (py_dfs s i) n); same E. Qed.
Lemma kd_df_getitem g n : kd (df_getitem g n).
Proof. kd0. unfold df_getitem in E. destruct (d_find (py_cols s g) n); same E. Qed.
Lemma kd_ensure_valid f : kd (field_ensure_valid f).
Proof. kd0. unfold field_ensure_valid in E. destruct (py_valid s f); same E. Qed.
Lemma kd_field_name f : kd (field_name f).
Proof.
  unfold field_name. apply kd_bind; [apply kd_ensure_valid|]. intros _. kd0.
  destruct (h5_fld_path s f) as [[[? ?] ?]|]; same E.
Qed.
Lemma kd_field_dataframe f : kd (field_dataframe f).
Proof. unfold field_dataframe. apply kd_bind; [apply kd_ensure_valid|]. intros _. kd0. same E. Qed.
Lemma kd_h5_create tr n : kd (h5_create tr n).
Proof. kd0. unfold h5_create in E. destruct (d_mem (tget s tr) n); [same E|]. inversion E; subst. destruct tr; reflexivity. Qed.
Lemma kd_h5_move tr src dst : kd (h5_move tr src dst).
Proof.
  kd0. unfold h5_move in E. destruct (name_eqb src dst); [same E|].
  destruct (d_find (tget s tr) src); [|same E]. destruct (d_mem (tget s tr) dst); [same E|].
  inversion E; subst. destruct tr; reflexivity.
Qed.
Lemma kd_h5_del tr n : kd (h5_del tr n).
Proof. kd0. unfold h5_del in E. destruct (d_mem (tget s tr) n); [|same E]. inversion E; subst. destruct tr; reflexivity. Qed.
Lemma kd_h5_move_path i g dst : kd (h5_move_path i g dst).
Proof.
  kd0. unfold h5_move_path in E. destruct (d_rfind (h5_root s i) g); [|same E].
  destruct (d_mem (h5_root s i) dst); same E.
Qed.
Lemma kd_cols_set g n f : kd (cols_set g n f).   Proof. apply kd_modify. reflexivity. Qed.
Lemma kd_cols_del g n : kd (cols_del g n).       Proof. apply kd_modify. reflexivity. Qed.
Lemma kd_field_write f dat : kd (field_write f dat). Proof. apply kd_modify. reflexivity. Qed.

Ltac kdx := fail.
Ltac kdb := repeat first
  [ kdx | apply kd_ret | apply kd_raise | apply kd_mget | apply kd_liftR | apply kd_ds_getitem | apply kd_df_getitem
  | apply kd_ensure_valid | apply kd_field_name | apply kd_field_dataframe | apply kd_h5_create | apply kd_h5_move
  | apply kd_h5_del | apply kd_h5_move_path | apply kd_cols_set | apply kd_cols_del | apply kd_field_write
  | (apply kd_modify; reflexivity) | (apply kd_bind; [|intro]) ].

Lemma kd_df_create_field c g n t : kd (df_create_field c g n t).
Proof. unfold df_create_field. apply kd_bind; [kdb|]. intros s0. destruct (d_mem (py_cols s0 g) n); kdb. Qed.
Lemma kd_df_create_invalid g n t : kd (df_create_invalid g n t).
Proof. unfold df_create_invalid. apply kd_bind; [kdb|]. intros s0. destruct (d_mem (py_cols s0 g) n); kdb. Qed.
Ltac kdx ::= first [ apply kd_df_create_field | apply kd_df_create_invalid ].
Lemma kd_copy_field_into c f g n : kd (copy_field_into c f g n).
Proof. unfold copy_field_into. kdb. Qed.
Ltac kdx ::= first [ apply kd_df_create_field | apply kd_df_create_invalid | apply kd_copy_field_into ].
Lemma kd_df_add c g f : kd (df_add c g f).
Proof. unfold df_add. kdb. Qed.
Lemma kd_df_setitem c g n f : kd (df_setitem c g n f).
Proof. unfold df_setitem. kdb. Qed.
Lemma kd_df_delitem g n : kd (df_delitem g n).
Proof. unfold df_delitem. apply kd_bind; [kdb|]. intros s0. destruct (negb (d_mem (py_cols s0 g) n)); kdb. Qed.
Lemma kd_df_drop g n : kd (df_drop g n).
Proof. unfold df_drop. apply kd_bind; [kdb|]. intros s0. destruct (negb (d_mem (py_cols s0 g) n)); kdb. Qed.
Lemma kd_df_delete_field g f : kd (df_delete_field g f).
Proof. unfold df_delete_field. apply kd_bind; [kdb|]. intros fd. destruct (negb (fd =? g)); [kdb|]. apply kd_bind; [kdb|]. intros nn. apply kd_df_delitem. Qed.

Lemma kd_rename_pass1 fixa g m : forall cols used fr inter, kd (rename_pass1 fixa g m cols used fr inter).
Proof.
  induction cols as [|[k f] rest IH]; intros used fr inter; cbn [rename_pass1]; [kdb|].
  destruct (d_find m k); [|apply IH]. kdb. apply IH.
Qed.
Lemma kd_rename_pass2 g fr : forall inter final, kd (rename_pass2 g fr inter final).
Proof.
  induction inter as [|[k f] rest IH]; intros final; cbn [rename_pass2]; [kdb|].
  destruct (d_find fr k); [|apply IH]. kdb. apply IH.
Qed.
Lemma kd_df_rename c g m : kd (df_rename c g m).
Proof.
  unfold df_rename. apply kd_bind; [kdb|]. intros s0. apply kd_bind; [kdb|]. intros keys.
  destruct (negb (length (clash_list keys (map snd m) []) =? 0)%nat); [kdb|].
  apply kd_bind; [apply kd_rename_pass1|]. intros p. apply kd_bind; [apply kd_rename_pass2|]. intros final. kdb.
Qed.
Lemma kd_edf_copy c f g n : kd (edf_copy c f g n).
Proof. unfold edf_copy. kdb. Qed.
Lemma kd_edf_move c f g n : kd (edf_move c f g n).
Proof.
  unfold edf_move. apply kd_bind; [kdb|]. intros fd. destruct (fd =? g).
  - apply kd_bind; [kdb|]. intros cur. apply kd_bind; [apply kd_df_rename|]. intros _. kdb.
  - apply kd_bind; [apply kd_edf_copy|]. intros _. apply kd_bind; [kdb|]. intros sg. destruct (sg =? NONE); [kdb|].
    apply kd_bind; [kdb|]. intros cur. apply kd_bind; [apply kd_df_drop|]. intros _. kdb.
Qed.
Lemma kd_copy_all c g : forall items, kd (copy_all c items g).
Proof. induction items as [|[k v] t IH]; cbn [copy_all]; [kdb|]. apply kd_bind; [apply kd_copy_field_into|]. intros _. apply IH. Qed.

Ltac kdx ::= first [ apply kd_df_create_field | apply kd_df_create_invalid | apply kd_copy_field_into | apply kd_df_add
                   | apply kd_df_setitem | apply kd_df_delitem | apply kd_df_drop | apply kd_df_delete_field
                   | apply kd_df_rename | apply kd_edf_copy | apply kd_edf_move | apply kd_copy_all ].

(* the nine field-level operations of a history never touch any Dataset._dataframes *)
Definition field_level (p:op) : bool :=
  match p with
  | OCreate _ _ _ _ _ | OSetItem _ _ _ _ _ _ | OAdd _ _ _ _ _ | ODelItem _ _ _ | ODrop _ _ _ | ODeleteField _ _ _ _ _
  | ORename _ _ _ | OFCopy _ _ _ _ _ _ | OFMove _ _ _ _ _ _ => true
  | _ => false
  end.
Lemma kd_step_field_level c p : field_level p = true -> kd (step c p).
Proof.
  destruct p; cbn [field_level]; intros H; try discriminate H; cbn [step].
  - apply kd_bind; [kdb|]. intros g. apply kd_bind; [destruct (5 <=? t); kdb|]. intros f. kdb.
  - kdb.
  - kdb.
  - kdb.
  - kdb.
  - kdb.
  - kdb.
  - kdb.
  - kdb.
Qed.

(* ------------------------------------------------------------------ a name that stays bound stays bound to the same object *)
Definition stable (s s':state) : Prop :=
  forall j k g g', d_find (py_dfs s j) k = Some g -> d_find (py_dfs s' j) k = Some g' -> g = g'.
Definition sub (s s':state) : Prop :=
  forall j k g', d_find (py_dfs s' j) k = Some g' -> d_find (py_dfs s j) k = Some g'.

Lemma kb_refl s : keeps_bindings s s.                     Proof. intros j k g H; exact H. Qed.
Lemma kb_eq s s' : py_dfs s' = py_dfs s -> keeps_bindings s s'.   Proof. intros E j k g H. rewrite E. exact H. Qed.
Lemma kb_trans s1 s2 s3 : keeps_bindings s1 s2 -> keeps_bindings s2 s3 -> keeps_bindings s1 s3.
Proof. intros A B j k g H. apply B, A, H. Qed.
Lemma kb_stable s s' : keeps_bindings s s' -> stable s s'.
Proof. intros K j k g g' H H'. apply K in H. congruence. Qed.
Lemma sub_stable s s' : sub s s' -> stable s s'.
Proof. intros K j k g g' H H'. apply K in H'. congruence. Qed.
Lemma kb_sub_stable s1 s2 s3 : keeps_bindings s1 s2 -> sub s2 s3 -> stable s1 s3.
Proof. intros A B j k g g' H H'. apply A in H. apply B in H'. congruence. Qed.
Lemma sub_eq s s' : py_dfs s' = py_dfs s -> sub s s'.       Proof. intros E j k g H. rewrite <- E. exact H. Qed.

(* create_dataframe (with or without a source frame) on an unbound name *)
Lemma ds_create_bindings c i n src s s' r :
  d_find (py_dfs s i) n = None -> ds_create_dataframe c i n src s = (s', r) ->
  keeps_bindings s s' /\ (forall g, r = Ok g -> d_find (py_dfs s' i) n = Some g).
Proof.
  intros HN E. rewrite ds_create_dataframe_run in E. destruct (d_mem (h5_root s i) n).
  { inversion E; subst. split; [apply kb_refl | intros g X; discriminate X]. }
  cbv zeta in E.
  assert (CL : forall s3, py_dfs s3 = py_dfs s ->
            keeps_bindings s (close_df s3 i n (next_id s)) /\ d_find (py_dfs (close_df s3 i n (next_id s)) i) n = Some (next_id s)).
  { intros s3 E3. split.
    - intros j k g H. apply close_df_binding; rewrite E3; assumption.
    - cbn. rewrite fupd_same, d_find_set, name_eqb_refl. reflexivity. }
  destruct src as [sg|].
  - destruct (copy_all c (py_cols (mkdf1 s i n) sg) (next_id s) (mkdf1 s i n)) as [s3 r3] eqn:E3.
    assert (P3 : py_dfs s3 = py_dfs s) by (rewrite (kd_copy_all c (next_id s) _ _ _ _ E3); reflexivity).
    destruct r3 as [u|x|e|]; inversion E; subst;
      try (split; [apply kb_eq; exact P3 | intros g X; discriminate X]).
    destruct (CL s3 P3) as [A B]. split; [exact A | intros g X; inversion X; subst; exact B].
  - inversion E; subst. destruct (CL (mkdf1 s i n) eq_refl) as [A B]. split; [exact A | intros g X; inversion X; subst; exact B].
Qed.

(* ... and on a bound name of a consistent state: refused before anything happens *)
Lemma ds_create_existing c i n src s g0 :
  Inv s -> d_find (py_dfs s i) n = Some g0 -> ds_create_dataframe c i n src s = (s, Raise E_ValueError).
Proof.
  intros I H. rewrite ds_create_dataframe_run.
  rewrite <- (same_map_mem _ _ n (sk_same _ _ (proj1 I i))). rewrite (proj2 (d_mem_true _ _) (d_find_keys _ _ _ H)). reflexivity.
Qed.

Lemma ds_create_stable c i n src s s' r : Inv s -> ds_create_dataframe c i n src s = (s', r) -> stable s s'.
Proof.
  intros I E. destruct (d_find (py_dfs s i) n) as [g0|] eqn:F.
  - rewrite (ds_create_existing c i n src s g0 I F) in E. inversion E; subst. apply kb_stable, kb_refl.
  - apply kb_stable. exact (proj1 (ds_create_bindings c i n src s s' r F E)).
Qed.

(* dataset.copy: refuses a bound name, otherwise only adds *)
Lemma eds_copy_bindings c sg j n s s' r : eds_copy c sg j n s = (s', r) -> keeps_bindings s s'.
Proof.
  intros E. unfold eds_copy in E. unfold bindM at 1 in E. unfold mget at 1 in E.
  destruct (d_mem (py_dfs s j) n) eqn:M; [inversion E; subst; apply kb_refl|]. apply d_mem_false in M.
  unfold bindM at 1 in E. destruct (ds_create_dataframe c j n None s) as [s1 r1] eqn:E1.
  destruct (ds_create_bindings c j n None s s1 r1 M E1) as [K1 B1].
  destruct r1 as [g|x|e|]; try (inversion E; subst; exact K1).
  unfold bindM at 1 in E. unfold mget at 1 in E. unfold bindM at 1 in E.
  destruct (copy_all c (py_cols s1 sg) g s1) as [s2 r2] eqn:E2.
  pose proof (kd_copy_all c g _ _ _ _ E2) as P2.
  destruct r2 as [u|x|e|]; try (inversion E; subst; eapply kb_trans; [exact K1 | apply kb_eq; exact P2]).
  unfold dfs_set, modify in E. inversion E; subst. eapply kb_trans; [exact K1|].
  intros j' k g' H. cbn. unfold fupd. destruct (j' =? j) eqn:Ej; [|rewrite P2; exact H].
  apply Z.eqb_eq in Ej. subst j'. rewrite d_set_same; [rewrite P2; exact H|]. rewrite P2. apply B1. reflexivity.
Qed.

(* removing a name *)
Lemma del_sub s i n s1 :
  NoDup (d_keys (py_dfs s i)) -> py_dfs s1 = fupd (py_dfs s) i (d_del (py_dfs s i) n) -> sub s s1.
Proof.
  intros ND E j k g' H. rewrite E in H. unfold fupd in H. destruct (j =? i) eqn:Ej; [|exact H].
  apply Z.eqb_eq in Ej. subst j. rewrite d_find_del in H by exact ND. destruct (name_eqb k n); [discriminate H | exact H].
Qed.

Lemma ds_drop_sub i n s s' r : Inv s -> ds_drop i n s = (s', r) -> sub s s'.
Proof.
  intros I E. unfold ds_drop in E. unfold bindM at 1 in E. unfold mget at 1 in E.
  destruct (negb (d_mem (py_dfs s i) n)); [inversion E; subst; apply sub_eq; reflexivity|].
  unfold bindM at 1 in E. unfold dfs_del at 1 in E. unfold modify at 1 in E.
  eapply del_sub; [apply (sk_nd_py _ _ (proj1 I i))|].
  rewrite (kd_h5_del _ _ _ _ _ E). reflexivity.
Qed.
Lemma ds_delitem_sub i n s s' r : Inv s -> ds_delitem i n s = (s', r) -> sub s s'.
Proof.
  intros I E. unfold ds_delitem in E. unfold bindM at 1 in E. unfold mget at 1 in E.
  destruct (negb (d_mem (py_dfs s i) n)); [inversion E; subst; apply sub_eq; reflexivity|].
  unfold bindM at 1 in E. unfold dfs_del at 1 in E. unfold modify at 1 in E.
  eapply del_sub; [apply (sk_nd_py _ _ (proj1 I i))|].
  rewrite (kd_h5_del _ _ _ _ _ E). reflexivity.
Qed.

Lemma eds_move_stable c sg j n s s' r : Inv s -> eds_move c sg j n s = (s', r) -> stable s s'.
Proof.
  intros I E. unfold eds_move in E. unfold bindM at 1 in E.
  destruct (eds_copy c sg j n s) as [s1 r1] eqn:E1.
  pose proof (eds_copy_bindings _ _ _ _ _ _ _ E1) as K1. pose proof (eds_copy_keeps _ _ _ _ _ _ _ I E1) as I1.
  destruct r1 as [u|x|e|]; try (inversion E; subst; apply kb_stable; exact K1).
  unfold bindM at 1 in E. unfold mget at 1 in E.
  eapply kb_sub_stable; [exact K1 | eapply ds_drop_sub; [exact I1 | exact E]].
Qed.

(* ds[name] = dataframe (repaired order of effects): a frame of the same dataset is re-filed under a name that was not
   bound; a frame of another dataset is copied *)
Lemma ds_setitem_stable c j n sg s s' r :
  fix_b c = true -> Inv s -> ds_setitem c j n sg s = (s', r) -> stable s s'.
Proof.
  intros FB I E. unfold ds_setitem in E. unfold bindM at 1 in E. unfold mget at 1 in E.
  destruct (py_ds s sg =? j); [|apply kb_stable; eapply eds_copy_bindings; exact E].
  rewrite FB in E. destruct (d_mem (py_dfs s j) n) eqn:M; [inversion E; subst; apply kb_stable, kb_refl|].
  apply d_mem_false in M.
  unfold bindM at 1 in E. destruct (h5_move_path j sg n s) as [s1 r1] eqn:E1.
  pose proof (kd_h5_move_path _ _ _ _ _ _ E1) as P1.
  destruct r1 as [u|x|e|]; try (inversion E; subst; apply kb_stable, kb_eq; exact P1).
  destruct (d_mem (py_dfs s j) (py_name s sg)).
  - unfold bindM, dfs_del, dfs_set, modify in E. inversion E; subst s' r. clear E.
    intros j' k g g' H H'. cbn in H'. unfold fupd in H'. rewrite P1 in H'.
    destruct (j' =? j) eqn:Ej.
    + apply Z.eqb_eq in Ej. subst j'. rewrite Z.eqb_refl in H'. rewrite d_find_set in H'.
      destruct (name_eqb k n) eqn:K; [apply name_eqb_spec in K; subst; congruence|].
      rewrite d_find_del in H' by apply (sk_nd_py _ _ (proj1 I j)).
      destruct (name_eqb k (py_name s sg)); [discriminate H' | congruence].
    + congruence.
  - unfold bindM at 1 in E. unfold raise at 1 in E. inversion E; subst. apply kb_stable, kb_eq; exact P1.
Qed.

(* ---- every operation of a history (repaired code, consistent state), whatever its outcome: a name that a dataset
   serves before and after the step is served by the same object *)
Theorem step_bindings_stable c p s s' r :
  fix_b c = true -> Inv s -> step c p s = (s', r) -> stable s s'.
Proof.
  intros FB I E. destruct (field_level p) eqn:FL.
  { apply kb_stable, kb_eq. eapply kd_step_field_level; eassumption. }
  destruct p; cbn [field_level] in FL; try discriminate FL; cbn [step] in E.
  - (* create_dataframe *)
    apply bindM_inv in E. destruct E as [(s1 & a & E1 & E2)|[E1 _]].
    + inversion E2; subst. eapply ds_create_stable; eassumption.
    + eapply ds_create_stable; eassumption.
  - (* create_dataframe(dataframe=) *)
    apply bindM_inv in E. destruct E as [(s1 & sg & E1 & E2)|[E1 _]].
    + destruct (ds_getitem_lookup _ _ _ _ _ E1) as [-> _].
      apply bindM_inv in E2. destruct E2 as [(s2 & a & E3 & E4)|[E3 _]].
      * inversion E4; subst. eapply ds_create_stable; eassumption.
      * eapply ds_create_stable; eassumption.
    + destruct (ds_getitem_lookup _ _ _ _ _ E1) as [-> _]. apply kb_stable, kb_refl.
  - (* require_dataframe *)
    apply kb_stable. eapply step_require_keeps_bindings. cbn [step]. exact E.
  - (* dataset.copy *)
    apply bindM_inv in E. destruct E as [(s1 & sg & E1 & E2)|[E1 _]];
      destruct (ds_getitem_lookup _ _ _ _ _ E1) as [-> _]; [|apply kb_stable, kb_refl].
    apply kb_stable. eapply eds_copy_bindings; exact E2.
  - (* dataset.move *)
    apply bindM_inv in E. destruct E as [(s1 & sg & E1 & E2)|[E1 _]];
      destruct (ds_getitem_lookup _ _ _ _ _ E1) as [-> _]; [|apply kb_stable, kb_refl].
    eapply eds_move_stable; eassumption.
  - (* ds[name] = dataframe *)
    apply bindM_inv in E. destruct E as [(s1 & sg & E1 & E2)|[E1 _]];
      destruct (ds_getitem_lookup _ _ _ _ _ E1) as [-> _]; [|apply kb_stable, kb_refl].
    eapply ds_setitem_stable; eassumption.
  - (* del ds[name] *)
    apply sub_stable. eapply ds_delitem_sub; eassumption.
  - (* ds.drop *)
    apply sub_stable. eapply ds_drop_sub; eassumption.
  - (* ds.delete_dataframe *)
    apply bindM_inv in E. destruct E as [(s1 & g & E1 & E2)|[E1 _]];
      destruct (ds_getitem_lookup _ _ _ _ _ E1) as [-> _]; [|apply kb_stable, kb_refl].
    unfold ds_delete_dataframe in E2. unfold bindM at 1 in E2. unfold mget at 1 in E2.
    apply sub_stable. eapply ds_delitem_sub; eassumption.
Qed.

(* ------------------------------------------------------------------ the identity verdict is true on every step *)
Lemma origin_of_catalogued s i k g :
  Inv s -> In i ds_indices -> d_find (py_dfs s i) k = Some g -> origin s g = Some (i, k).
Proof.
  intros I Hi H. destruct (sk_dfs _ _ (proj1 I i) k g H) as [Nm Ds].
  assert (P : forall j k', d_rfind (py_dfs s j) g = Some k' -> j = i /\ k' = k).
  { intros j k' R. apply d_rfind_In in R. apply In_d_find in R; [|apply (sk_nd_py _ _ (proj1 I j))].
    destruct (sk_dfs _ _ (proj1 I j) k' g R) as [Nm' Ds']. split; congruence. }
  unfold origin. apply place_of_found; [exact Hi| |].
  - intros j' _ NE. destruct (d_rfind (py_dfs s j') g) as [k'|] eqn:R; [|reflexivity].
    destruct (P _ _ R) as [X _]. contradiction.
  - destruct (d_rfind (py_dfs s i) g) as [k'|] eqn:R.
    + destruct (P _ _ R) as [_ ->]. reflexivity.
    + exfalso. apply (d_rfind_None _ _ R k). apply d_find_In. exact H.
Qed.

Lemma chk_ident_ds_true s s' i :
  In i ds_indices -> Inv s -> Inv s' -> stable s s' ->
  chk_ident_ds i (d_keys (py_dfs s i)) (ident_ds s s' i) = true.
Proof.
  intros Hi I I' ST. unfold chk_ident_ds, ident_ds. apply forallb_forall. intros [k pl] Hin.
  apply in_map_iff in Hin. destruct Hin as ([k0 g'] & Eq & Hin). cbn [fst snd] in Eq. inversion Eq; subst k0 pl. clear Eq.
  cbn [fst snd]. destruct (nmem k (d_keys (py_dfs s i))) eqn:M; [|reflexivity]. cbn [negb orb].
  apply nmem_In in M. apply d_mem_true in M. rewrite d_mem_find in M.
  destruct (d_find (py_dfs s i) k) as [g|] eqn:F; [|discriminate M].
  apply In_d_find in Hin; [|apply (sk_nd_py _ _ (proj1 I' i))].
  pose proof (ST i k g g' F Hin) as <-.
  rewrite (origin_of_catalogued s i k g I Hi F). cbn [place_is]. rewrite Z.eqb_refl, name_eqb_refl. reflexivity.
Qed.

Theorem ident_verdict_true c p s s' r :
  fix_b c = true -> Inv s -> Inv s' -> step c p s = (s', r) ->
  chk_ident (keys_before s) (ident_obs s s') = true.
Proof.
  intros FB I I' E. pose proof (step_bindings_stable c p s s' r FB I E) as ST.
  unfold chk_ident, keys_before, ident_obs, ds_indices. cbn [map all2i]. change (0 + 1) with 1.
  rewrite (chk_ident_ds_true s s' 0), (chk_ident_ds_true s s' 1); try assumption; [reflexivity | cbn; auto | cbn; auto].
Qed.
