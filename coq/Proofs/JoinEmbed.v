(* Proofs/JoinEmbed.v — C03: the streamed join-map generators see the keys only through comparisons.

   Run on keys seen through any strictly monotone map f (the way the harness turns an order type — small
   integer ranks — into concrete key columns: integers at the ends of every dtype, binary64/32 values, fixed
   strings with blanks/NULs, ...), the model returns exactly what it returns on the ranks themselves, for all
   eight variants and every chunk size (under the hypothesis chunks_ok of c03_streamed_correct, which is
   itself invariant under f). *)
From Coq Require Import ZArith List Lia Bool.
From EV Require Import Res Arr Join JoinSpec JoinBase JoinMain JoinAll MergeView.
Import ListNotations.
Open Scope Z_scope.

Lemma mono_on_l f L R : mono_on f (L ++ R) -> mono_on f L.
Proof. apply mono_on_incl. intros x Hx. apply in_or_app. left. exact Hx. Qed.
Lemma mono_on_r f L R : mono_on f (L ++ R) -> mono_on f R.
Proof. apply mono_on_incl. intros x Hx. apply in_or_app. right. exact Hx. Qed.

Lemma kind_pre_map f k L R : mono_on f (L ++ R) -> kind_pre k L R -> kind_pre k (map f L) (map f R).
Proof.
  intros Hm H. pose proof (mono_on_l f L R Hm) as Hl. pose proof (mono_on_r f L R Hm) as Hr.
  destruct k; cbn [kind_pre] in *; destruct H as [H1 H2]; split;
    first [apply sorted_map; assumption | apply ssorted_map; assumption].
Qed.

Lemma chunks_ok_map f k cs L R : mono_on f (L ++ R) -> chunks_ok k cs L R -> chunks_ok k cs (map f L) (map f R).
Proof.
  intros Hm [H1 H2].
  split; intros Ht; apply windows_ok_map; auto; apply mono_inj;
    [eapply mono_on_l | eapply mono_on_r]; exact Hm.
Qed.

Lemma expected_map f k is_left inv L R :
  mono_on f (L ++ R) -> expected k is_left inv (map f L) (map f R) = expected k is_left inv L R.
Proof.
  intros Hm. rewrite !expected_eq. rewrite (join_spec_map f is_left inv L R) by (apply mono_inj; exact Hm).
  reflexivity.
Qed.

Theorem streamed_key_embedding f k is_left L R inv cs :
  kind_pre k L R -> mono_on f (L ++ R) -> 1 <= cs -> chunks_ok k cs L R ->
  streamed (mkvar k is_left) (map f L) (map f R) inv cs = streamed (mkvar k is_left) L R inv cs.
Proof.
  intros Hp Hm Hcs Hc.
  rewrite (streamed_correct k is_left L R inv cs Hp Hcs Hc).
  rewrite (streamed_correct k is_left (map f L) (map f R) inv cs
             (kind_pre_map f k L R Hm Hp) Hcs (chunks_ok_map f k cs L R Hm Hc)).
  rewrite (expected_map f k is_left inv L R Hm). reflexivity.
Qed.

(* the hypotheses on a non-trivial input: ranks [1;1;2;3;3] / [1;3;3;4] seen as int8 keys at both ends of the
   dtype (-128, -128, -1, 127, 127 / -128, 127, 127 would collide: the map must stay strictly monotone, so
   rank 4 is not representable above 127 — the harness only uses maps that are) *)
Lemma key_embedding_c03_example :
  let f := fun z => if z =? 1 then -128 else if z =? 2 then -1 else if z =? 3 then 126 else 127 in
  mono_on f ([1;1;2;3;3] ++ [1;3;3;4]) /\
  streamed (mkvar KGen true) (map f [1;1;2;3;3]) (map f [1;3;3;4]) (-1) 3 = Ok ([0;1;2;3;3;4;4], [0;0;-1;1;2;1;2]).
Proof.
  split.
  - intros x y Hx Hy Hlt. cbn in Hx, Hy.
    repeat (destruct Hx as [Hx|Hx]; [subst x|]); try contradiction;
    repeat (destruct Hy as [Hy|Hy]; [subst y|]); try contradiction; cbn; lia.
  - vm_compute. reflexivity.
Qed.
