(* Proofs/SessionMergeIndex.v — Session.get_index (C19): the dictionary loop returns, for every
   foreign key, the index of the LAST row of `target` holding it, and a marker >= INVALID_INDEX
   when there is none. *)
From Coq Require Import ZArith List Lia Bool ZifyBool.
From EV Require Import Res Arr MapStream SessionMerge SessionMergeSpec.
Import ListNotations.
Open Scope Z_scope.

Lemma gi_build_get k : forall t i d,
  dict_get k (gi_build t i d) = last_index_from k t i (dict_get k d).
Proof.
  induction t as [|v t IH]; intros i d; cbn [gi_build last_index_from]; [reflexivity|].
  rewrite IH. cbn [dict_get]. reflexivity.
Qed.

Lemma last_index_from_bound k : forall t i0 acc i,
  last_index_from k t i0 acc = Some i -> acc = Some i \/ i0 <= i < i0 + len t.
Proof.
  induction t as [|x t IH]; intros i0 acc i H; cbn [last_index_from] in H; [left; exact H|].
  rewrite len_cons. pose proof (len_nonneg t). destruct (IH _ _ _ H) as [Ha|Hb]; [|right; lia].
  destruct (x =? k); [injection Ha as <-; right; lia|left; exact Ha].
Qed.

Lemma last_index_bound k T i : last_index k T = Some i -> 0 <= i < len T.
Proof.
  unfold last_index. intros H. destruct (last_index_from_bound k T 0 None i H) as [Ha|Hb]; [discriminate|lia].
Qed.

Section GI.
Variable T : list Z.
Hypothesis Hbig : len T <= INVALID_INDEX.

(* the dictionary during the second loop: exact on keys of the target, only markers elsewhere *)
Definition DInv (d:list (Z * Z)) : Prop :=
  forall k, match last_index k T with
            | Some i => dict_get k d = Some i
            | None => dict_get k d = None \/ exists x, dict_get k d = Some x /\ INVALID_INDEX <= x
            end.

Definition ok1 (key v:Z) : Prop :=
  match last_index key T with Some i => v = i | None => INVALID_INDEX <= v end.

Lemma gi_loop_ok : forall F d cur, DInv d -> INVALID_INDEX <= cur -> Forall2 ok1 F (gi_loop F d cur).
Proof.
  induction F as [|k F IH]; intros d cur HD Hc; cbn [gi_loop]; [constructor|].
  pose proof (HD k) as Hk. unfold ok1 at 1.
  destruct (last_index k T) as [i|] eqn:El.
  - rewrite Hk. pose proof (last_index_bound k T i El) as Hb.
    replace (INVALID_INDEX <=? i) with false by lia.
    constructor; [unfold ok1; rewrite El; reflexivity|]. apply IH; assumption.
  - assert (Hidx : INVALID_INDEX <= match dict_get k d with Some x => x | None => cur end).
    { destruct Hk as [Hn|(x & Hx & Hge)]; [rewrite Hn; exact Hc|rewrite Hx; exact Hge]. }
    set (index := match dict_get k d with Some x => x | None => cur end) in *.
    replace (INVALID_INDEX <=? index) with true by lia.
    constructor; [unfold ok1; rewrite El; exact Hidx|].
    apply IH; [|lia].
    intros k'. pose proof (HD k') as Hk'. cbn [dict_get].
    destruct (k =? k') eqn:E.
    + assert (k = k') by lia. subst k'. rewrite El. right. exists index. split; [reflexivity|exact Hidx].
    + exact Hk'.
Qed.

Theorem get_index_correct_gen F : get_index_ok INVALID_INDEX T F (get_index T F).
Proof.
  unfold get_index_ok, get_index. apply gi_loop_ok; [|lia].
  intros k. rewrite gi_build_get. cbn [dict_get]. fold (last_index k T).
  destruct (last_index k T); [reflexivity|left; reflexivity].
Qed.

(* every foreign key gets one answer *)
Lemma gi_loop_length : forall F d cur, length (gi_loop F d cur) = length F.
Proof.
  induction F as [|k F IH]; intros d cur; cbn [gi_loop length]; [reflexivity|].
  destruct (INVALID_INDEX <=? _); cbn [length]; rewrite IH; reflexivity.
Qed.

End GI.

(* ---- what last_index means: the last row of T holding the key ---- *)
Lemma nthZ_cons_pos' (x:Z) t i : 0 < i -> nthZ (x :: t) i = nthZ t (i - 1).
Proof.
  intros H. unfold nthZ. replace i with ((i - 1) + 1) at 1 by lia. apply nthd_cons_succ. lia.
Qed.

Lemma last_index_from_spec key : forall T i0 acc,
  match last_index_from key T i0 acc with
  | Some i => (i0 <= i < i0 + len T /\ nthZ T (i - i0) = key /\
               forall i', i < i' < i0 + len T -> nthZ T (i' - i0) <> key) \/
              (acc = Some i /\ forall i', i0 <= i' < i0 + len T -> nthZ T (i' - i0) <> key)
  | None => acc = None /\ forall i', i0 <= i' < i0 + len T -> nthZ T (i' - i0) <> key
  end.
Proof.
  induction T as [|x t IH]; intros i0 acc; cbn [last_index_from].
  - rewrite len_nil. destruct acc as [a|]; [right|]; split; try reflexivity; intros; lia.
  - rewrite len_cons. pose proof (len_nonneg t) as Ht.
    specialize (IH (i0 + 1) (if x =? key then Some i0 else acc)).
    destruct (last_index_from key t (i0 + 1) (if x =? key then Some i0 else acc)) as [i|].
    + destruct IH as [(H1 & H2 & H3)|(H1 & H2)].
      * left. split; [lia|]. split.
        -- rewrite nthZ_cons_pos' by lia. replace (i - i0 - 1) with (i - (i0 + 1)) by lia. exact H2.
        -- intros i' Hi'. rewrite nthZ_cons_pos' by lia. replace (i' - i0 - 1) with (i' - (i0 + 1)) by lia.
           apply H3. lia.
      * assert (Hrest : forall i', i0 + 1 <= i' < i0 + (len t + 1) -> nthZ (x :: t) (i' - i0) <> key).
        { intros i' Hi'. rewrite nthZ_cons_pos' by lia. replace (i' - i0 - 1) with (i' - (i0 + 1)) by lia.
          apply H2. lia. }
        destruct (x =? key) eqn:E.
        -- injection H1 as <-. left. split; [lia|]. split.
           ++ rewrite Z.sub_diag. unfold nthZ, nthd. cbn. lia.
           ++ intros i' Hi'. apply Hrest. lia.
        -- right. split; [exact H1|]. intros i' Hi'. destruct (Z.eq_dec i' i0) as [->|Hne].
           ++ rewrite Z.sub_diag. unfold nthZ, nthd. cbn. lia.
           ++ apply Hrest. lia.
    + destruct IH as (H1 & H2). destruct (x =? key) eqn:E; [discriminate|].
      split; [exact H1|]. intros i' Hi'. destruct (Z.eq_dec i' i0) as [->|Hne].
      * rewrite Z.sub_diag. unfold nthZ, nthd. cbn. lia.
      * rewrite nthZ_cons_pos' by lia. replace (i' - i0 - 1) with (i' - (i0 + 1)) by lia. apply H2. lia.
Qed.

Theorem last_index_meaning key T :
  match last_index key T with
  | Some i => 0 <= i < len T /\ nthZ T i = key /\ forall i', i < i' < len T -> nthZ T i' <> key
  | None => forall i', 0 <= i' < len T -> nthZ T i' <> key
  end.
Proof.
  unfold last_index. pose proof (last_index_from_spec key T 0 None) as H.
  destruct (last_index_from key T 0 None) as [i|].
  - destruct H as [(H1 & H2 & H3)|(H1 & _)]; [|discriminate].
    rewrite Z.sub_0_r in H2. split; [lia|]. split; [exact H2|].
    intros i' Hi'. specialize (H3 i' ltac:(lia)). rewrite Z.sub_0_r in H3. exact H3.
  - destruct H as (_ & H). intros i' Hi'. specialize (H i' ltac:(lia)). rewrite Z.sub_0_r in H. exact H.
Qed.
