(* Proofs/TransformFrac.v — (VC06) the fraction digits of a timestamp text are read exactly: for EVERY digit string
   of a length a layout admits, the stored microseconds are the digits read as a decimal integer, scaled by a power
   of ten.  Also: what the parser does with 4..6 fraction digits before " UTC" (it has no branch for them). *)
From Coq Require Import ZArith List Bool Lia ZifyBool.
From EV Require Import Res Arr Transform TransformSpec TransformBase TransformTs.
Import ListNotations.
Open Scope Z_scope.

Lemma digits_value_dvalue ds : digits_value ds = dvalue ds 0.
Proof. reflexivity. Qed.

Lemma is_digit_cases b : is_digit b = true ->
  b = 48 \/ b = 49 \/ b = 50 \/ b = 51 \/ b = 52 \/ b = 53 \/ b = 54 \/ b = 55 \/ b = 56 \/ b = 57.
Proof. unfold is_digit. lia. Qed.

(* "5 " as read by int(value[20:22]) in the 25-byte layout, for a digit BYTE *)
Lemma int_of_digit_sp a : is_digit a = true -> int_of [a; 32] = Ok (a - 48).
Proof.
  intros H. destruct (is_digit_cases a H) as [->|[->|[->|[->|[->|[->|[->|[->|[->| ->]]]]]]]]]; vm_compute; reflexivity.
Qed.

Lemma int_of_digits b ds : len (b :: ds) <= 100 -> forallb is_digit (b :: ds) = true ->
  int_of (b :: ds) = Ok (dvalue (b :: ds) 0).
Proof.
  intros L H. unfold int_of. rewrite py_int_digits; [reflexivity| |exact H].
  unfold INT_MAX_STR_DIGITS. lia.
Qed.

Lemma fmt_secs_fields c : civil_ok c = true -> forall k rest,
  (forall y0 y1 y2 y3 m0 m1 d0 d1 h0 h1 i0 i1 s0 s1,
     parse_timestamp_bytes ([y0; y1; y2; y3; 45; m0; m1; 45; d0; d1; 32; h0; h1; 58; i0; i1; 58; s0; s1] ++ rest)
     = (do y <- int_of [y0; y1; y2; y3]; do m <- int_of [m0; m1]; do d <- int_of [d0; d1];
        do hh <- int_of [h0; h1]; do mm <- int_of [i0; i1]; do ss <- int_of [s0; s1]; k y m d hh mm ss)) ->
  parse_timestamp_bytes (fmt_secs c ++ rest) = k (cy c) (cmo c) (cd c) (chh c) (cmi c) (css c).
Proof.
  intros Hc k rest Hs. destruct (civil_bounds c Hc) as [By [Bm [Bd [Bh [Bi Bs]]]]].
  unfold fmt_secs, fmt_date, d4, d2. cbn [app]. 
  match goal with |- parse_timestamp_bytes ?l = _ =>
    change l with ([digit (cy c / 1000); digit (cy c / 100); digit (cy c / 10); digit (cy c); 45;
                    digit (cmo c / 10); digit (cmo c); 45; digit (cd c / 10); digit (cd c); 32;
                    digit (chh c / 10); digit (chh c); 58; digit (cmi c / 10); digit (cmi c); 58;
                    digit (css c / 10); digit (css c)] ++ rest) end.
  rewrite Hs. rewrite int_of_d4, !int_of_d2 by assumption. reflexivity.
Qed.

Lemma digit_bounds a : is_digit a = true -> 0 <= a - 48 <= 9.
Proof. unfold is_digit. lia. Qed.

(* 1, 2, 3 digits before " UTC" *)
Lemma frac_utc_exact c ds : civil_ok c = true -> all_digits ds = true -> 1 <= len ds <= 3 ->
  parse_timestamp_bytes (fmt_secs c ++ [46] ++ ds ++ SUF_UTC) = Ok (instant_us c (fraction_us ds)).
Proof.
  intros Hc Hd Hl. unfold all_digits in Hd.
  destruct ds as [|a [|b [|e [|g ds]]]]; unfold len in Hl; cbn [length] in Hl; try lia.
  - (* one digit *)
    cbn [forallb] in Hd. apply andb_prop in Hd. destruct Hd as [Ha _].
    unfold SUF_UTC. cbn [app].
    rewrite (fmt_secs_fields c Hc (fun y m d hh mm ss => do f <- int_of [a; 32]; datetime_us y m d hh mm ss (f * 100000))).
    + rewrite int_of_digit_sp by exact Ha. cbn [bind].
      pose proof (digit_bounds a Ha).
      replace (fraction_us [a]) with ((a - 48) * 100000) by (unfold fraction_us, digits_value; cbn [fold_left]; change (10 ^ (6 - len [a])) with 100000; lia).
      apply datetime_us_ok; [exact Hc|lia].
    + intros. apply shape_utc1.
  - (* two digits *)
    pose proof Hd as Hd'. cbn [forallb] in Hd'. apply andb_prop in Hd'. destruct Hd' as [Ha Hd'].
    apply andb_prop in Hd'. destruct Hd' as [Hb _].
    unfold SUF_UTC. cbn [app].
    rewrite (fmt_secs_fields c Hc (fun y m d hh mm ss => do f <- int_of [a; b]; datetime_us y m d hh mm ss (f * 10000))).
    + rewrite int_of_digits; [|unfold len; cbn [length]; lia|exact Hd]. cbn [bind].
      pose proof (digit_bounds a Ha). pose proof (digit_bounds b Hb).
      replace (fraction_us [a; b]) with (dvalue [a; b] 0 * 10000) by (unfold fraction_us, digits_value, dvalue; change (10 ^ (6 - len [a; b])) with 10000; reflexivity).
      apply datetime_us_ok; [exact Hc|]. unfold dvalue. cbn [fold_left]. lia.
    + intros. apply shape_utc2.
  - (* three digits *)
    pose proof Hd as Hd'. cbn [forallb] in Hd'. apply andb_prop in Hd'. destruct Hd' as [Ha Hd'].
    apply andb_prop in Hd'. destruct Hd' as [Hb Hd']. apply andb_prop in Hd'. destruct Hd' as [He _].
    unfold SUF_UTC. cbn [app].
    rewrite (fmt_secs_fields c Hc (fun y m d hh mm ss => do f <- int_of [a; b; e]; datetime_us y m d hh mm ss (f * 1000))).
    + rewrite int_of_digits; [|unfold len; cbn [length]; lia|exact Hd]. cbn [bind].
      pose proof (digit_bounds a Ha). pose proof (digit_bounds b Hb). pose proof (digit_bounds e He).
      replace (fraction_us [a; b; e]) with (dvalue [a; b; e] 0 * 1000) by (unfold fraction_us, digits_value, dvalue; change (10 ^ (6 - len [a; b; e])) with 1000; reflexivity).
      apply datetime_us_ok; [exact Hc|]. unfold dvalue. cbn [fold_left]. lia.
    + intros. apply shape_utc3.
Qed.

(* 6 digits before "+HH:MM" / "-HH:MM": the stored value is the wall clock read as UTC plus the exact fraction
   (the offset is ignored: F-C06b; with offset 00:00 this is the denoted instant) *)
Lemma frac_off_exact c ds neg oh om : civil_ok c = true -> all_digits ds = true -> len ds = 6 ->
  parse_timestamp_bytes (fmt_secs c ++ [46] ++ ds ++ fmt_off neg oh om) = Ok (instant_us c (fraction_us ds)).
Proof.
  intros Hc Hd Hl. unfold all_digits in Hd.
  destruct ds as [|f0 [|f1 [|f2 [|f3 [|f4 [|f5 [|g ds]]]]]]]; unfold len in Hl; cbn [length] in Hl; try lia.
  pose proof Hd as Hd'. cbn [forallb] in Hd'.
  repeat (apply andb_prop in Hd'; let H := fresh "D" in destruct Hd' as [H Hd']).
  unfold fmt_off, d2. cbn [app].
  rewrite (fmt_secs_fields c Hc (fun y m d hh mm ss => do f <- int_of [f0; f1; f2; f3; f4; f5]; datetime_us y m d hh mm ss f)).
  - rewrite int_of_digits; [|unfold len; cbn [length]; lia|exact Hd]. cbn [bind].
    pose proof (digit_bounds f0 D). pose proof (digit_bounds f1 D0). pose proof (digit_bounds f2 D1).
    pose proof (digit_bounds f3 D2). pose proof (digit_bounds f4 D3). pose proof (digit_bounds f5 D4).
    replace (fraction_us [f0; f1; f2; f3; f4; f5]) with (dvalue [f0; f1; f2; f3; f4; f5] 0)
      by (unfold fraction_us, digits_value, dvalue; change (10 ^ (6 - len [f0; f1; f2; f3; f4; f5])) with 1; lia).
    apply datetime_us_ok; [exact Hc|]. unfold dvalue. cbn [fold_left]. lia.
  - intros. apply shape_offus.
Qed.

Theorem ts_fraction_digits_exact_proof c ds : civil_ok c = true -> all_digits ds = true ->
  (1 <= len ds <= 3 ->
     parse_timestamp_bytes (fmt_secs c ++ [46] ++ ds ++ SUF_UTC) = Ok (instant_us c (fraction_us ds))) /\
  (len ds = 6 -> forall neg oh om,
     parse_timestamp_bytes (fmt_secs c ++ [46] ++ ds ++ fmt_off neg oh om) = Ok (instant_us c (fraction_us ds))).
Proof.
  intros Hc Hd. split; [intros Hl; apply frac_utc_exact; assumption|].
  intros Hl neg oh om. apply frac_off_exact; assumption.
Qed.

(* fraction_us is the decimal value: it is below one second, and appending a zero digit does not change it *)
Lemma fraction_us_range ds : all_digits ds = true -> len ds <= 6 -> 0 <= fraction_us ds < 1000000.
Proof.
  intros Hd Hl. unfold all_digits in Hd.
  assert (G : forall l acc, forallb is_digit l = true -> 0 <= acc ->
            acc * 10 ^ len l <= fold_left (fun a b => a * 10 + (b - 48)) l acc < (acc + 1) * 10 ^ len l).
  { induction l as [|x l IH]; intros acc H Ha.
    - unfold len. cbn [length fold_left]. change (10 ^ Z.of_nat 0) with 1. lia.
    - cbn [forallb] in H. apply andb_prop in H. destruct H as [Hx H]. pose proof (digit_bounds x Hx).
      cbn [fold_left]. specialize (IH (acc * 10 + (x - 48)) H ltac:(lia)).
      replace (len (x :: l)) with (len l + 1) by (unfold len; cbn [length]; lia).
      assert (0 <= len l) by (unfold len; lia).
      rewrite Z.pow_add_r by lia. change (10 ^ 1) with 10.
      assert (0 < 10 ^ len l) by (apply Z.pow_pos_nonneg; lia). nia. }
  specialize (G ds 0 Hd ltac:(lia)). unfold fraction_us, digits_value.
  assert (0 <= len ds) by (unfold len; lia).
  assert (E : 10 ^ len ds * 10 ^ (6 - len ds) = 1000000).
  { rewrite <- Z.pow_add_r by lia. replace (len ds + (6 - len ds)) with 6 by lia. reflexivity. }
  assert (0 < 10 ^ (6 - len ds)) by (apply Z.pow_pos_nonneg; lia).
  assert (0 < 10 ^ len ds) by (apply Z.pow_pos_nonneg; lia).
  nia.
Qed.

(* 4, 5 or 6 digits before " UTC" (28..30 bytes): the parser has no branch for these lengths and reads the text as
   "YYYY-MM-DD HH:MM:SS UTC" - the fraction is DROPPED.  Characterisation of the code as it is (these layouts are not
   among the documented ones). *)
Lemma frac_utc_long_dropped c ds : civil_ok c = true -> 4 <= len ds <= 6 ->
  parse_timestamp_bytes (fmt_secs c ++ [46] ++ ds ++ SUF_UTC) = Ok (instant_us c 0).
Proof.
  intros Hc Hl.
  destruct ds as [|f0 [|f1 [|f2 [|f3 [|f4 [|f5 [|g ds]]]]]]]; unfold len in Hl; cbn [length] in Hl; try lia;
    unfold SUF_UTC; cbn [app];
    (rewrite (fmt_secs_fields c Hc (fun y m d hh mm ss => datetime_us y m d hh mm ss 0));
     [apply datetime_us_ok; [exact Hc|lia] | intros; reflexivity]).
Qed.
