(* Proofs/CatalogueStep.v — every operation of a history keeps the invariant (repaired code). *)
From Coq Require Import ZArith List Bool Lia.
From EV Require Import Res Catalogue CatalogueSpec CatalogueBase CatalogueInv CatalogueRename.
Import ListNotations.
Open Scope Z_scope.

Lemma df_rename_keeps c g m s s' r :
  fix_a c = true -> Inv s -> linked s g -> df_rename c g m s = (s', r) -> Inv s'.
Proof. intros FA I L E. apply (df_rename_outcome c g m s s' r FA I L E). Qed.

(* dataframe.move(field, ddf, name) where the field was fetched from a catalogued frame *)
Lemma edf_move_keeps c f g n s s' r g0 n0 :
  fix_a c = true -> Inv s -> linked s g0 -> d_find (py_cols s g0) n0 = Some f -> linked s g ->
  edf_move c f g n s = (s', r) ->
  Inv s' /\ (forall x, r = Ok x -> g0 <> g ->
            py_valid s' f = false /\ d_find (py_cols s' g) n = Some x /\ py_valid s' x = true /\
            fld_type s' x = fld_type s f /\ fld_data s' x = fld_data s f /\
            (x = next_id s /\ (forall j, py_dfs s' j = py_dfs s j) /\ (forall j, h5_root s' j = h5_root s j) /\
             py_cols s' g0 = d_del (py_cols s g0) n0 /\ py_cols s' g = d_set (py_cols s g) n (next_id s) /\
             (forall y, y <> g0 -> y <> g -> py_cols s' y = py_cols s y) /\
             (forall y, y <> f -> y <> next_id s -> py_valid s' y = py_valid s y))).
Proof.
  intros FA I L0 H0 L E. unfold edf_move in E. unfold bindM at 1 in E.
  destruct (field_dataframe f s) as [sx r0] eqn:E0. pose proof (field_dataframe_pure _ _ _ _ E0) as ->.
  destruct r0 as [fd|x|e|]; try (inversion E; subst; split; [exact I | intros ? X; discriminate X]).
  destruct (dk_flds _ _ (ib_df _ (proj2 I) g0 L0) n0 f H0) as (V & FD & LT).
  assert (Efd : fd = py_fdf s f).
  { unfold field_dataframe, bindM, field_ensure_valid in E0. rewrite V in E0. inversion E0. reflexivity. }
  destruct (fd =? g) eqn:Eg.
  - (* same frame: a rename *)
    apply Z.eqb_eq in Eg. unfold bindM at 1 in E.
    destruct (field_name f s) as [sx r1] eqn:E1. pose proof (field_name_pure _ _ _ _ E1) as ->.
    destruct r1 as [cur|x|e|]; try (inversion E; subst; split; [exact I | intros ? X; discriminate X]).
    unfold bindM at 1 in E. destruct (df_rename c g [(cur, n)] s) as [s1 r1] eqn:E2.
    pose proof (df_rename_keeps c g _ s s1 r1 FA I L E2) as I1.
    assert (g0 = g) by (destruct FD as [FD|FD]; [congruence | exfalso; pose proof (ib_lt _ (proj2 I) g L); unfold NONE in *; lia]).
    destruct r1; inversion E; subst; (split; [exact I1 | intros ? X; try discriminate X; intros; congruence]).
  - apply Z.eqb_neq in Eg. unfold bindM at 1 in E.
    destruct (edf_copy c f g n s) as [s1 r1] eqn:E1.
    destruct (edf_copy_keeps c f g n s s1 r1 I L E1) as (I1 & HOk & HF).
    destruct r1 as [nf|x|e|]; try (inversion E; subst; split; [exact I1 | intros ? X; discriminate X]).
    destruct (HOk nf eq_refl) as (-> & Hn & _).
    destruct (copied_frame c s f g n) as (F1 & F2 & F3 & F4 & F5 & F6 & F7 & F8 & F9 & _ & F11 & F12).
    set (s1 := copied c s f g n) in *.
    assert (NEf : f <> next_id s) by lia.
    destruct (F9 f NEf) as (V1 & FD1 & _).
    unfold bindM at 1 in E. unfold field_dataframe at 1 in E. unfold bindM at 1 in E. unfold field_ensure_valid at 1 in E.
    rewrite V1, V in E. rewrite FD1 in E.
    destruct (py_fdf s f =? NONE) eqn:EN; [inversion E; subst; split; [exact I1 | intros ? X; discriminate X]|].
    apply Z.eqb_neq in EN. destruct FD as [FD|FD]; [|contradiction]. rewrite FD in *.
    assert (NE0 : g0 <> g) by congruence.
    destruct (F6 g0 NE0) as [Ec0 _].
    assert (L0' : linked s1 g0) by (apply (linked_ext s s1 F2); exact L0).
    assert (H0' : d_find (py_cols s1 g0) n0 = Some f) by (rewrite Ec0; exact H0).
    unfold bindM at 1 in E.
    destruct (field_name f s1) as [sx r2] eqn:E2. pose proof (field_name_pure _ _ _ _ E2) as ->.
    destruct r2 as [cur|x|e|]; try (inversion E; subst; split; [exact I1 | intros ? X; discriminate X]).
    assert (cur = n0).
    { unfold field_name, bindM, field_ensure_valid in E2. rewrite V1, V in E2.
      destruct (h5_fld_path s1 f) as [[[pi pd] pn]|] eqn:P; [|discriminate]. injection E2 as X. subst pn.
      apply (path_is_place s1 g0 n0 f pi pd cur I1 L0' H0' P). }
    subst cur. unfold bindM at 1 in E.
    destruct (df_drop g0 n0 s1) as [s2 r3] eqn:E3. pose proof (df_drop_keeps _ _ _ _ _ I1 L0' E3) as I2.
    destruct r3 as [[]|x|e|]; try (inversion E; subst; split; [exact I2 | intros ? X; discriminate X]).
    destruct (df_drop_ok_frame _ _ _ _ E3) as (G1 & G2 & G3 & G4 & G5 & G6 & G7).
    unfold bindM at 1 in E. unfold modify at 1 in E.
    assert (I3 : Inv (set_py_valid s2 (fupd (py_valid s2) f false))).
    { apply invalidate_Inv; [exact I2|]. intros x m Lx Hx.
      assert (Lx1 : linked s1 x) by (apply (linked_ext s1 s2 G1); exact Lx).
      destruct (Z.eq_dec x g0) as [->|NEx].
      - rewrite G3, d_find_del in Hx by (apply (dk_nd_py _ _ (ib_df _ (proj2 I1) g0 L0'))).
        destruct (name_eqb m n0) eqn:Em; [discriminate|]. apply name_eqb_neq in Em.
        destruct (ib_uniq _ (proj2 I1) g0 g0 m n0 f L0' L0' Hx H0') as [_ X]. contradiction.
      - rewrite (G4 x NEx) in Hx. destruct (ib_uniq _ (proj2 I1) x g0 m n0 f Lx1 L0' Hx H0') as [X _]. contradiction. }
    unfold df_getitem in E.
    destruct (d_find (py_cols (set_py_valid s2 (fupd (py_valid s2) f false)) g) n) as [nf2|] eqn:Fn; inversion E; subst.
    + split; [exact I3|]. intros x X _. inversion X; subst x. split; [cbn; apply fupd_same|]. split; [exact Fn|].
      split.
      { assert (L3 : linked (set_py_valid s2 (fupd (py_valid s2) f false)) g).
        { destruct L as (li & ln & LI). exists li, ln. cbn [h5_root set_py_valid]. rewrite G1, F2. exact LI. }
        apply (dk_flds _ _ (ib_df _ (proj2 I3) g L3) n nf2 Fn). }
      cbn [py_cols set_py_valid fld_type fld_data] in *.
      rewrite (G4 g (not_eq_sym NE0)), F7, d_find_set, name_eqb_refl in Fn. inversion Fn; subst nf2.
      rewrite G6, G7, F11, (F12 NEf). split; [reflexivity|]. split; [reflexivity|].
      split; [reflexivity|]. cbn [py_dfs h5_root py_cols py_valid set_py_valid].
      split; [intros j; rewrite G2; apply F1|]. split; [intros j; rewrite G1; apply F2|].
      split; [rewrite G3, Ec0; reflexivity|]. split; [rewrite (G4 g (not_eq_sym NE0)); exact F7|].
      split.
      { intros y Y1 Y2. rewrite (G4 y Y1). apply (F6 y Y2). }
      { intros y Y1 Y2. rewrite fupd_other by exact Y1. rewrite G5. apply (F9 y Y2). }
    + split; [exact I3|]. intros ? X; discriminate X.
Qed.

(* ------------------------------------------------------------------ one step *)
Ltac lookup E I :=
  unfold bindM at 1 in E;
  match type of E with
  | context [ds_getitem ?i ?d ?s] =>
      unfold ds_getitem at 1 in E;
      let H := fresh "Hd" in destruct (d_find (py_dfs s i) d) eqn:H; [|inversion E; subst; exact I]
  | context [df_getitem ?g ?n ?s] =>
      unfold df_getitem at 1 in E;
      let H := fresh "Hf" in destruct (d_find (py_cols s g) n) eqn:H; [|inversion E; subst; exact I]
  end.

Theorem step_Inv c p s s' r :
  fix_a c = true -> fix_b c = true -> Inv s -> step c p s = (s', r) -> Inv s'.
Proof.
  intros FA FB I E. pose proof (proj1 I) as IA.
  destruct p; cbn [step] in E.
  - (* OCreate *) lookup E I. unfold bindM at 1 in E.
    destruct (5 <=? t) eqn:T5.
    { (* invalid arguments: nothing changes *)
      unfold df_create_invalid, bindM, mget in E.
      destruct (d_mem (py_cols s z) n); inversion E; subst; exact I. }
    rewrite df_create_field_run in E.
    pose proof (catalogued_linked _ _ _ _ IA Hd) as L.
    destruct (d_mem (py_cols s z) n) eqn:M1; [inversion E; subst; exact I|].
    destruct (d_mem (h5_grp s z) n) eqn:M2; [inversion E; subst; exact I|].
    rewrite field_write_run in E. inversion E; subst. apply wrote_Inv. apply created_Inv; [exact I | exact L | apply d_mem_false; exact M1].
  - (* OSetItem *) lookup E I. lookup E I. lookup E I.
    eapply df_setitem_keeps; [exact I | exact (catalogued_linked _ _ _ _ IA Hd0) | exact E].
  - (* OAdd *) lookup E I. lookup E I. lookup E I.
    eapply df_add_keeps; [exact I | exact (catalogued_linked _ _ _ _ IA Hd) | exact E].
  - (* ODelItem *) lookup E I. eapply df_delitem_keeps; [exact I | eapply catalogued_linked; eassumption | exact E].
  - (* ODrop *) lookup E I. eapply df_drop_keeps; [exact I | eapply catalogued_linked; eassumption | exact E].
  - (* ODeleteField *) lookup E I. lookup E I. lookup E I.
    eapply df_delete_field_keeps; [exact I | exact (catalogued_linked _ _ _ _ IA Hd) | exact E].
  - (* ORename *) lookup E I. eapply df_rename_keeps; [exact FA | exact I | eapply catalogued_linked; eassumption | exact E].
  - (* OFCopy *) lookup E I. lookup E I. lookup E I. unfold bindM in E.
    destruct (edf_copy c z0 z1 n' s) as [s1 r1] eqn:E1.
    destruct (edf_copy_keeps c z0 z1 n' s s1 r1 I (catalogued_linked _ _ _ _ IA Hd0) E1) as (I1 & _).
    destruct r1; inversion E; subst; exact I1.
  - (* OFMove *) lookup E I. lookup E I. lookup E I. unfold bindM in E.
    destruct (edf_move c z0 z1 n' s) as [s1 r1] eqn:E1.
    destruct (edf_move_keeps c z0 z1 n' s s1 r1 z n FA I (catalogued_linked _ _ _ _ IA Hd) Hf (catalogued_linked _ _ _ _ IA Hd0) E1) as (I1 & _).
    destruct r1; inversion E; subst; exact I1.
  - (* OCreateDF *) unfold bindM in E. destruct (ds_create_dataframe c i d None s) as [s1 r1] eqn:E1.
    destruct (ds_create_dataframe_keeps c i d None s s1 r1 I ltac:(intros ? X; discriminate X) E1) as (I1 & _).
    destruct r1; inversion E; subst; exact I1.
  - (* OCreateDFFrom *) lookup E I. unfold bindM in E. destruct (ds_create_dataframe c i d (Some z) s) as [s1 r1] eqn:E1.
    assert (LS : forall sg, Some z = Some sg -> linked s sg).
    { intros sg X. inversion X; subst. eapply catalogued_linked; eassumption. }
    destruct (ds_create_dataframe_keeps c i d (Some z) s s1 r1 I LS E1) as (I1 & _).
    destruct r1; inversion E; subst; exact I1.
  - (* ORequireDF *) unfold bindM in E. destruct (ds_require_dataframe c i d s) as [s1 r1] eqn:E1.
    pose proof (ds_require_keeps _ _ _ _ _ _ I E1) as I1. destruct r1; inversion E; subst; exact I1.
  - (* ODSCopy *) lookup E I. eapply eds_copy_keeps; eassumption.
  - (* ODSMove *) lookup E I. eapply eds_move_keeps; eassumption.
  - (* ODSSetItem *) lookup E I. eapply ds_setitem_keeps; eassumption.
  - (* ODSDelItem *) eapply ds_delitem_keeps; eassumption.
  - (* ODSDrop *) eapply ds_drop_keeps; eassumption.
  - (* ODSDeleteDF *) lookup E I. eapply ds_delete_dataframe_keeps; eassumption.
Qed.

(* ------------------------------------------------------------------ histories *)
Fixpoint run_ops (c:cfg) (ops:list op) (s:state) : state :=
  match ops with [] => s | p :: t => run_ops c t (fst (step c p s)) end.

Theorem reachable_Inv c ops : fix_a c = true -> fix_b c = true -> Inv (run_ops c ops init_state).
Proof.
  intros FA FB. assert (G : forall ops s, Inv s -> Inv (run_ops c ops s)).
  { induction ops0 as [|p t IH]; intros s I; cbn [run_ops]; [exact I|].
    apply IH. destruct (step c p s) as [s' r] eqn:E. cbn [fst]. eapply step_Inv; eassumption. }
  apply G. apply init_Inv.
Qed.

(* ------------------------------------------------------------------ rename: all or nothing; handles follow *)
Theorem rename_step_spec c i d m s s' r :
  fix_a c = true -> Inv s -> step c (ORename i d m) s = (s', r) ->
  Inv s' /\ (is_ok r = false -> s' = s) /\
  (is_ok r = true -> exists g, d_find (py_dfs s i) d = Some g /\
     py_cols s' g = renamed m (py_cols s g) /\ same_map (py_cols s' g) (h5_grp s' g) /\
     (forall x, x <> g -> py_cols s' x = py_cols s x /\ h5_grp s' x = h5_grp s x) /\
     (forall j, py_dfs s' j = py_dfs s j) /\ (forall j, h5_root s' j = h5_root s j) /\
     (forall x, py_name s' x = py_name s x) /\ (forall f, py_valid s' f = py_valid s f) /\
     (forall f, fld_type s' f = fld_type s f) /\ (forall f, fld_data s' f = fld_data s f)).
Proof.
  intros FA I E. cbn [step] in E. unfold bindM at 1 in E. unfold ds_getitem at 1 in E.
  destruct (d_find (py_dfs s i) d) as [g|] eqn:Hd.
  - pose proof (catalogued_linked _ _ _ _ (proj1 I) Hd) as L.
    destruct (df_rename_outcome c g m s s' r FA I L E) as (I' & A & B). split; [exact I'|]. split; [exact A|].
    intros H. exists g. split; [reflexivity | apply B; exact H].
  - inversion E; subst. split; [exact I|]. split; [reflexivity | cbn; discriminate].
Qed.

(* a field handle held across a successful rename is, afterwards, the column `subst m k` of the frame *)
Corollary handles_follow_rename c i d m s s' g k f :
  fix_a c = true -> Inv s -> step c (ORename i d m) s = (s', Ok tt) ->
  d_find (py_dfs s i) d = Some g -> d_find (py_cols s g) k = Some f ->
  d_find (py_cols s' g) (subst m k) = Some f /\ d_find (h5_grp s' g) (subst m k) = Some f /\
  py_valid s' f = py_valid s f /\ fld_type s' f = fld_type s f /\ fld_data s' f = fld_data s f.
Proof.
  intros FA I E Hd Hf. destruct (rename_step_spec c i d m s s' (Ok tt) FA I E) as (I' & _ & B).
  destruct (B eq_refl) as (g' & Hd' & C1 & C2 & _ & C5 & C6 & _ & C8 & C9 & C10).
  assert (g' = g) by congruence. subst g'.
  assert (L' : linked s' g).
  { apply (linked_ext s s' C6). eapply catalogued_linked; [apply I | exact Hd]. }
  pose proof (dk_nd_py _ _ (ib_df _ (proj2 I') g L')) as ND. rewrite C1, renamed_keys in ND.
  assert (X : d_find (py_cols s' g) (subst m k) = Some f).
  { rewrite C1. apply In_d_find; [rewrite renamed_keys; exact ND|].
    unfold renamed. apply in_map_iff. exists (k, f). split; [reflexivity | apply d_find_In; exact Hf]. }
  split; [exact X|]. split; [rewrite <- (C2 (subst m k)); exact X|]. auto.
Qed.

(* handles to moved-away fields report themselves invalid; the field arrives with its type and data *)
Theorem move_step_invalid c i d n j d' n' s s' sg f g :
  fix_a c = true -> Inv s -> step c (OFMove i d n j d' n') s = (s', Ok tt) ->
  d_find (py_dfs s i) d = Some sg -> d_find (py_cols s sg) n = Some f -> d_find (py_dfs s j) d' = Some g -> sg <> g ->
  py_valid s' f = false /\
  exists nf, d_find (py_cols s' g) n' = Some nf /\ py_valid s' nf = true /\
             fld_type s' nf = fld_type s f /\ fld_data s' nf = fld_data s f.
Proof.
  intros FA I E Hd Hf Hd' NE. pose proof (proj1 I) as IA. cbn [step] in E.
  unfold bindM at 1 in E. unfold ds_getitem at 1 in E. rewrite Hd in E.
  unfold bindM at 1 in E. unfold df_getitem at 1 in E. rewrite Hf in E.
  unfold bindM at 1 in E. unfold ds_getitem at 1 in E. rewrite Hd' in E.
  unfold bindM in E. destruct (edf_move c f g n' s) as [s1 r1] eqn:E1.
  destruct (edf_move_keeps c f g n' s s1 r1 sg n FA I (catalogued_linked _ _ _ _ IA Hd) Hf (catalogued_linked _ _ _ _ IA Hd') E1) as (I1 & H).
  destruct r1 as [nf|x|e|]; inversion E; subst.
  destruct (H nf eq_refl NE) as (V & Fn & V2 & T & D & _). split; [exact V|]. exists nf. auto.
Qed.

(* F-C15d (repaired): a create_<type> call with invalid remaining arguments (t >= 5) raises and changes nothing at all *)
Theorem invalid_create_changes_nothing c i d n t dat s s' r :
  5 <= t -> step c (OCreate i d n t dat) s = (s', r) -> s' = s /\ is_ok r = false.
Proof.
  intros T E. cbn [step] in E. unfold bindM at 1 in E. unfold ds_getitem in E.
  destruct (d_find (py_dfs s i) d) as [g|]; [|inversion E; subst; split; reflexivity].
  assert (T5 : (5 <=? t) = true) by (apply Z.leb_le; exact T). rewrite T5 in E.
  unfold bindM at 1 in E. unfold df_create_invalid, bindM, mget in E.
  destruct (d_mem (py_cols s g) n); inversion E; subst; split; reflexivity.
Qed.
