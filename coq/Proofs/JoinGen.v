(* Proofs/JoinGen.v — KindOK for the general kernels (duplicates on both sides)
   (generate_ordered_map_to_left_partial, generate_ordered_map_to_inner_partial): the
   resumable FSM with the inner cartesian state ii/jj/ii_max/jj_max/inner. *)
From Coq Require Import ZArith List Lia Bool ZifyBool.
From EV Require Import Res Arr Join JoinSpec JoinBase JoinIface JoinRows JoinWin.
Import ListNotations.
Open Scope Z_scope.

(* ------------------------------------------------------------------ runs and trimmed windows *)
(* a run found inside a trimmed window [a, b) that is maximal in the window is maximal globally *)
Lemma trim_run_end (X:list Z) a b k n :
  Trim X a b -> k + n <= b -> 1 <= n ->
  (forall m, k <= m < k + n -> nthZ X m = nthZ X k) ->
  (k + n < b -> nthZ X (k + n) <> nthZ X k) ->
  (k + n < len X -> nthZ X (k + n) <> nthZ X k).
Proof.
  intros HT Hkb Hn Hrun Hend Hlt.
  destruct (Z_lt_le_dec (k + n) b) as [Hc|Hc]; [apply Hend; exact Hc|].
  assert (Hb : b = k + n) by lia.
  destruct HT as [HT|(_ & HT)]; [lia|].
  rewrite Hb in HT. rewrite (Hrun (k + n - 1)) in HT by lia. intros Hx. apply HT. symmetry. exact Hx.
Qed.

(* a global run that starts inside a trimmed window ends inside it *)
Lemma trim_run_inside (X:list Z) a b k n :
  Trim X a b -> b <= len X -> k < b -> k + n <= len X ->
  (forall m, k <= m < k + n -> nthZ X m = nthZ X k) ->
  k + n <= b.
Proof.
  intros HT Hb Hk Hn Hrun.
  destruct (Z_lt_le_dec b (k + n)) as [Hc|Hc]; [|exact Hc]. exfalso.
  destruct HT as [HT|(_ & HT)]; [lia|].
  apply HT. rewrite (Hrun (b - 1)) by lia. rewrite (Hrun b) by lia. reflexivity.
Qed.

(* run_len on a window `a` of X (a[m] = X[off+m]): the count of the run of a[k] inside [k, kmax) *)
Lemma run_len_win site (a X:list Z) off k kmax :
  (forall m, 0 <= m < len a -> nthZ a m = nthZ X (off + m)) ->
  0 <= k -> k < kmax -> kmax <= len a ->
  exists n, run_len (S (length a)) site a k kmax 1 = Ok n /\ 1 <= n /\ k + n <= kmax /\
            (forall m, off + k <= m < off + k + n -> nthZ X m = nthZ X (off + k)) /\
            (k + n < kmax -> nthZ X (off + k + n) <> nthZ X (off + k)).
Proof.
  intros Hwin Hk Hkm Hlen.
  destruct (run_len_spec site a (S (length a)) k kmax 1 Hk Hkm Hlen) as (c & Hc & H0 & H1 & H2 & H3).
  { unfold len in *. lia. }
  exists (1 + c). split; [exact Hc|]. splits; try lia.
  - intros m Hm. specialize (H2 (m - off) ltac:(lia)).
    rewrite !Hwin in H2 by lia. replace (off + (m - off)) with m in H2 by lia. exact H2.
  - intros Hlt. specialize (H3 ltac:(lia)). rewrite !Hwin in H3 by lia.
    replace (off + (k + c + 1)) with (off + k + (1 + c)) in H3 by lia. exact H3.
Qed.

Section Gen.
Variables (emit:bool) (L R:list Z) (inv cs:Z).
Hypothesis HL : sorted L.
Hypothesis HR : sorted R.
Hypothesis Hcs : 1 <= cs.

(* the mid-run state: L[I..I+im) and R[J..J+jm) are the two maximal runs of one key; the rows of
   left rows I..I+ii-1 are complete and row I+ii has its first jj pairs *)
Definition InnerGen (I J ii jj im jm:Z) (O:list (Z * Z)) : Prop :=
  0 <= ii < im /\ 0 <= jj < jm /\ I + im <= len L /\ J + jm <= len R /\
  (forall a, I <= a < I + im -> nthZ L a = nthZ L I) /\
  (forall b, J <= b < J + jm -> nthZ R b = nthZ L I) /\
  (I + im < len L -> nthZ L (I + im) <> nthZ L I) /\
  (J + jm < len R -> nthZ R (J + jm) <> nthZ L I) /\
  O = rows_upto emit inv L R (I + ii) ++ map (fun j => (I + ii, j)) (seqZ J jj).

Definition AbsGen (I J:Z) (sb:sub) (O:list (Z * Z)) : Prop :=
  0 <= I <= len L /\ 0 <= J <= len R /\
  (forall j' i', 0 <= j' < J -> I <= i' < len L -> nthZ R j' < nthZ L i') /\
  (if s_inner sb then InnerGen I J (s_ii sb) (s_jj sb) (s_iimax sb) (s_jjmax sb) O
   else O = rows_upto emit inv L R I).

Definition LocGen (s:fsm) : Prop := True.

(* the row of left key L[I] when every earlier right key is smaller and R[J] is larger *)
Lemma row_none_gen I J : 0 <= I < len L -> 0 <= J <= len R ->
  (forall j', 0 <= j' < J -> nthZ R j' < nthZ L I) ->
  (J < len R -> nthZ L I < nthZ R J) ->
  row emit inv R I (nthZ L I) = if emit then [(I, inv)] else [].
Proof.
  intros HI HJ Hlt Hgt.
  rewrite (row_interval emit inv R I (nthZ L I) J J); try lia.
  - replace (J <? J) with false by lia. reflexivity.
  - intros j Hj. specialize (Hlt j Hj). lia.
  - intros j Hj. specialize (Hgt ltac:(lia)). pose proof (HR J j ltac:(lia) ltac:(lia) ltac:(lia)). lia.
Qed.

(* the row of a left key whose matches are the maximal run R[J..J+jm) *)
Lemma row_block I J jm key : 0 <= J -> 1 <= jm -> J + jm <= len R ->
  (forall j', 0 <= j' < J -> nthZ R j' < key) ->
  (forall b, J <= b < J + jm -> nthZ R b = key) ->
  (J + jm < len R -> nthZ R (J + jm) <> key) ->
  row emit inv R I key = map (fun j => (I, j)) (seqZ J jm).
Proof.
  intros HJ Hjm Hle Hlt Heq Hne.
  rewrite (row_interval emit inv R I key J (J + jm)); try lia.
  - replace (J <? J + jm) with true by lia. replace (J + jm - J) with jm by lia. reflexivity.
  - intros j Hj. specialize (Hlt j Hj). lia.
  - assumption.
  - intros j Hj. specialize (Hne ltac:(lia)).
    pose proof (HR (J + jm - 1) (J + jm) ltac:(lia) ltac:(lia) ltac:(lia)) as H1.
    pose proof (HR (J + jm) j ltac:(lia) ltac:(lia) ltac:(lia)) as H2.
    rewrite (Heq (J + jm - 1)) in H1 by lia. lia.
Qed.

Lemma map_seqZ_snoc (f:Z -> Z * Z) a n : 0 <= a -> 0 <= n ->
  map f (seqZ a (n + 1)) = map f (seqZ a n) ++ [f (a + n)].
Proof. intros Ha Hn. rewrite seqZ_snoc by lia. rewrite map_app. reflexivity. Qed.

Lemma kstep_ok_Gen : forall p la lb ra rb s ol orr O,
  Win KGen emit L R inv cs p la lb ra rb -> Buf cs s -> Pos p s -> LocGen s ->
  AbsGen (la + fi s) (ra + fj s) (sub_of s) O -> OutRel KGen emit ol orr s O ->
  (kstep KGen emit p s = Ok None /\
   (fi s >= ki_max p \/ fj s >= kj_max p \/ fr s >= cs))
  \/
  (exists s' O', kstep KGen emit p s = Ok (Some s') /\
     Buf cs s' /\ Pos p s' /\ LocGen s' /\
     AbsGen (la + fi s') (ra + fj s') (sub_of s') O' /\ OutRel KGen emit ol orr s' O' /\
     fi s <= fi s' /\ fj s <= fj s' /\ fr s <= fr s' /\
     kmeas cs p s' < kmeas cs p s /\
     (fi s + fj s + fr s < fi s' + fj s' + fr s' \/
      (finner s = false /\ finner s' = true /\ fi s' = fi s /\ fj s' = fj s /\ fr s' = fr s))).
Proof.
  intros p la lb ra rb s ol orr O HW HB HP _ HA HO.
  pose proof (win_facts _ _ _ _ _ _ _ _ _ _ _ HW) as W. destruct W.
  cbn [ltrim rtrim v_ltrim v_rtrim v_kind] in wf_ltrim, wf_rtrim.
  destruct HB as (Hll & Hlr & Hrr). destruct HP as (Hpi & Hpj & Hpinn).
  destruct HA as (HI & HJ & Hfront & Hbody). cbn [sub_of s_inner s_ii s_jj s_iimax s_jjmax] in Hbody.
  assert (Hlenl : ki_max p <= len (kleft p)) by lia.
  assert (Hlenr : kj_max p <= len (kright p)) by lia.
  assert (Hwl : forall m, 0 <= m < len (kleft p) -> nthZ (kleft p) m = nthZ L (la + m)).
  { intros m Hm. pose proof (wf_getl 0 m Hm) as H1. rewrite (getZ_ok 0) in H1 by lia. congruence. }
  assert (Hwr : forall m, 0 <= m < len (kright p) -> nthZ (kright p) m = nthZ R (ra + m)).
  { intros m Hm. pose proof (wf_getr 0 m Hm) as H1. rewrite (getZ_ok 0) in H1 by lia. congruence. }
  cbn [kstep]. unfold step_gen. rewrite Hll.
  destruct ((fi s <? ki_max p) && (fj s <? kj_max p) && (fr s <? cs)) eqn:Ec.
  2:{ left. split; [reflexivity|]. lia. }
  right.
  assert (Hi : fi s < ki_max p) by lia.
  assert (Hj : fj s < kj_max p) by lia.
  assert (Hr : fr s < cs) by lia.
  set (I := la + fi s) in *. set (J := ra + fj s) in *.
  assert (HIlt : 0 <= I < len L) by (unfold I; lia).
  assert (HJlt : 0 <= J < len R) by (unfold J; lia).
  assert (Hfront_I : forall j', 0 <= j' < J -> nthZ R j' < nthZ L I) by (intros j' Hj'; apply Hfront; lia).
  destruct (finner s) eqn:Hinn; cbn [negb].
  2:{ (* ---------------- the merge state *)
    rewrite (wf_getl 1) by lia. rewrite (wf_getr 2) by lia. cbn [bind].
    fold I. fold J.
    set (a := nthZ L I). set (b := nthZ R J).
    destruct (a <? b) eqn:E1; [|destruct (b <? a) eqn:E2].
    - (* left key smaller: unmatched *)
      assert (Hrow : row emit inv R I (nthZ L I) = if emit then [(I, inv)] else []).
      { apply (row_none_gen I J); try lia; try assumption. }
      destruct (Bool.bool_dec emit true) as [Ee|Ee].
      + rewrite Ee. rewrite set_ok by lia. cbn [bind]. rewrite set_ok by lia. cbn [bind].
        eexists _, (O ++ [(I, inv)]). split; [reflexivity|].
        simp_st.
        splits; try lia.
        * unfold Buf. simp_st. rewrite !len_upd. lia.
        * unfold Pos. simp_st. splits; try lia; try (intros Hx; rewrite Hinn in Hx; discriminate).
        * exact Logic.I.
        * unfold AbsGen. simp_st. rewrite Hinn. splits; try assumption; try lia.
          -- intros j' i' Hj' Hi'. apply Hfront; unfold I, J in *; lia.
          -- replace (la + (fi s + 1)) with (I + 1) by (unfold I; lia).
             rewrite rows_upto_succ by lia. rewrite Hbody, Hrow, Ee. reflexivity.
        * rewrite <- Ee. apply (OutRel_push KGen emit cs ol orr s _ O I inv HO); simp_st; try lia; try reflexivity.
          -- rewrite wf_inv. reflexivity.
          -- intros _. rewrite wf_ioff. unfold I. f_equal. lia.
        * unfold kmeas. simp_st. rewrite Hinn. lia.
      + apply Bool.not_true_is_false in Ee. rewrite Ee.
        eexists _, O. split; [reflexivity|].
        simp_st.
        splits; try lia.
        * unfold Buf. simp_st. lia.
        * unfold Pos. simp_st. splits; try lia; try (intros Hx; rewrite Hinn in Hx; discriminate).
        * exact Logic.I.
        * unfold AbsGen. simp_st. rewrite Hinn. splits; try assumption; try lia.
          -- intros j' i' Hj' Hi'. apply Hfront; unfold I, J in *; lia.
          -- replace (la + (fi s + 1)) with (I + 1) by (unfold I; lia).
             rewrite rows_upto_succ by lia. rewrite Hbody, Hrow, Ee, app_nil_r. reflexivity.
        * rewrite <- Ee. apply (OutRel_same KGen emit ol orr s _ O HO); reflexivity.
        * unfold kmeas. simp_st. rewrite Hinn. lia.
    - (* right key smaller: skip it *)
      eexists _, O. split; [reflexivity|].
      simp_st.
      splits; try lia.
      * unfold Buf. simp_st. lia.
      * unfold Pos. simp_st. splits; try lia; try (intros Hx; rewrite Hinn in Hx; discriminate).
      * exact Logic.I.
      * unfold AbsGen. simp_st. rewrite Hinn. splits; try assumption; try lia.
        intros j' i' Hj' Hi'. fold I in Hi'.
        destruct (Z.eq_dec j' J) as [->|Hne].
        -- fold b. pose proof (HL I i' ltac:(lia) ltac:(lia) ltac:(lia)) as H. fold a in H. lia.
        -- apply Hfront; unfold J in *; lia.
      * apply (OutRel_same KGen emit ol orr s _ O HO); reflexivity.
      * unfold kmeas. simp_st. rewrite Hinn. lia.
    - (* equal keys: measure the two runs and enter the inner state *)
      assert (Hab : a = b) by lia.
      destruct (run_len_win 5 (kleft p) L la (fi s) (ki_max p) Hwl ltac:(lia) Hi Hlenl)
        as (ci & Eci & Hci1 & Hci2 & Hci3 & Hci4).
      destruct (run_len_win 6 (kright p) R ra (fj s) (kj_max p) Hwr ltac:(lia) Hj Hlenr)
        as (cj & Ecj & Hcj1 & Hcj2 & Hcj3 & Hcj4).
      rewrite Eci. cbn [bind]. rewrite Ecj. cbn [bind].
      fold I in Hci3, Hci4. fold J in Hcj3, Hcj4.
      eexists _, O. split; [reflexivity|].
      simp_st.
      splits; try lia.
      * unfold Buf. simp_st. lia.
      * unfold Pos. simp_st. splits; try lia.
      * exact Logic.I.
      * unfold AbsGen. simp_st. fold I. fold J. splits; try assumption; try lia.
        unfold InnerGen. splits; try lia.
        -- exact Hci3.
        -- intros b0 Hb0. rewrite (Hcj3 b0 Hb0). fold b. fold a. lia.
        -- apply (trim_run_end L la lb I ci wf_ltrim); try lia; try assumption.
        -- intros Hlt. fold a. rewrite Hab. unfold b.
           apply (trim_run_end R ra rb J cj wf_rtrim); try lia; try assumption.
        -- rewrite Z.add_0_r. rewrite (seqZ_nil J 0) by lia. cbn [map]. rewrite app_nil_r. exact Hbody.
      * apply (OutRel_same KGen emit ol orr s _ O HO); reflexivity.
      * unfold kmeas. simp_st. rewrite Hinn. lia.
  }
  (* ---------------- the inner (cartesian) state *)
  destruct Hbody as (Hii & Hjj & Him & Hjm & HrunL & HrunR & HendL & HendR & HOeq).
  set (ii := fii s) in *. set (jj := fjj s) in *. set (im := fiimax s) in *. set (jm := fjjmax s) in *.
  assert (Himw : fi s + im <= ki_max p).
  { pose proof (trim_run_inside L la lb I im wf_ltrim wf_lb ltac:(unfold I; lia) Him HrunL). unfold I in *. lia. }
  assert (Hjmw : fj s + jm <= kj_max p).
  { assert (Hrun' : forall m, J <= m < J + jm -> nthZ R m = nthZ R J).
    { intros m Hm. rewrite (HrunR m Hm), (HrunR J) by lia. reflexivity. }
    pose proof (trim_run_inside R ra rb J jm wf_rtrim wf_rb ltac:(unfold J; lia) Hjm Hrun'). unfold J in *. lia. }
  rewrite set_ok by lia. cbn [bind]. rewrite set_ok by lia. cbn [bind].
  replace (ki_off p + fi s + ii) with (I + ii) by (unfold I; lia).
  replace (kj_off p + fj s + jj) with (J + jj) by (unfold J; lia).
  assert (Hrowfull : rows_upto emit inv L R (I + ii + 1) =
                     rows_upto emit inv L R (I + ii) ++ map (fun j => (I + ii, j)) (seqZ J jm)).
  { rewrite rows_upto_succ by lia. f_equal. rewrite (HrunL (I + ii)) by lia.
    apply row_block; try lia; try assumption. }
  assert (HO' : O ++ [(I + ii, J + jj)] =
                rows_upto emit inv L R (I + ii) ++ map (fun j => (I + ii, j)) (seqZ J (jj + 1))).
  { rewrite HOeq, map_seqZ_snoc by lia. rewrite app_assoc. reflexivity. }
  assert (HOpush : forall s', fr s' = fr s + 1 -> rres s' = upd (rres s) (fr s) (J + jj) ->
                   lres s' = upd (lres s) (fr s) (I + ii) ->
                   OutRel KGen emit ol orr s' (O ++ [(I + ii, J + jj)])).
  { intros s' H1 H2 H3. apply (OutRel_push KGen emit cs ol orr s s' O (I + ii) (J + jj) HO); try lia; try assumption.
    intros _. exact H3. }
  destruct (jj + 1 =? jm) eqn:Ej; [destruct (ii + 1 =? im) eqn:Ei|].
  - (* the block is complete *)
    eexists _, (O ++ [(I + ii, J + jj)]). split; [reflexivity|].
    simp_st.
    splits; try lia.
    * unfold Buf. simp_st. rewrite !len_upd. lia.
    * unfold Pos. simp_st. splits; try lia.
    * exact Logic.I.
    * unfold AbsGen. simp_st. splits; try lia.
      -- intros j' i' Hj' Hi'.
         destruct (Z_lt_le_dec j' J) as [Hlt|Hge]; [apply Hfront; unfold I, J in *; lia|].
         rewrite (HrunR j') by (unfold J in *; lia).
         assert (HIm : I + im < len L) by (unfold I in *; lia).
         specialize (HendL HIm).
         pose proof (HL (I + im - 1) (I + im) ltac:(lia) ltac:(lia) ltac:(lia)) as H1.
         pose proof (HL (I + im) i' ltac:(lia) ltac:(unfold I in *; lia) ltac:(lia)) as H2.
         rewrite (HrunL (I + im - 1)) in H1 by lia. lia.
      -- rewrite HO'. replace (jj + 1) with jm by lia. rewrite <- Hrowfull. f_equal. unfold I. lia.
    * apply HOpush; reflexivity.
    * unfold kmeas. simp_st. rewrite Hinn. lia.
  - (* next left row of the block *)
    eexists _, (O ++ [(I + ii, J + jj)]). split; [reflexivity|].
    simp_st.
    splits; try lia.
    * unfold Buf. simp_st. rewrite !len_upd. lia.
    * unfold Pos. simp_st. splits; try lia.
    * exact Logic.I.
    * unfold AbsGen. simp_st. fold I. fold J. splits; try assumption; try lia.
      unfold InnerGen. fold im. fold jm. splits; try assumption; try lia.
      rewrite HO'. replace (jj + 1) with jm by lia. rewrite <- Hrowfull.
      rewrite (seqZ_nil J 0) by lia. cbn [map]. rewrite app_nil_r. f_equal. lia.
    * apply HOpush; reflexivity.
    * unfold kmeas. simp_st. rewrite Hinn. lia.
  - (* next right row for the same left row *)
    eexists _, (O ++ [(I + ii, J + jj)]). split; [reflexivity|].
    simp_st.
    splits; try lia.
    * unfold Buf. simp_st. rewrite !len_upd. lia.
    * unfold Pos. simp_st. splits; try lia.
    * exact Logic.I.
    * unfold AbsGen. simp_st. fold I. fold J. splits; try assumption; try lia.
      unfold InnerGen. fold ii. fold im. fold jm. splits; try assumption; try lia.
    * apply HOpush; reflexivity.
    * unfold kmeas. simp_st. rewrite Hinn. lia.
Qed.

Lemma Abs_final_Gen : forall I J sb O, AbsGen I J sb O -> s_inner sb = false ->
  0 <= I <= len L -> 0 <= J <= len R -> (I = len L \/ J = len R) ->
  O ++ (if emit then unmatched inv I (len L) else []) = join_spec emit inv L R.
Proof.
  intros I J sb O (_ & _ & Hfront & HO) Hinn HI HJ Hend. rewrite Hinn in HO. subst O.
  symmetry. apply rows_unmatched_tail; [lia|].
  intros i Hi. destruct Hend as [He|He]; [lia|].
  apply matches_from_none. intros j Hj. specialize (Hfront j i ltac:(lia) ltac:(lia)). lia.
Qed.

Lemma Abs_len_Gen : forall I J sb O, AbsGen I J sb O -> 0 <= I <= len L -> 0 <= J <= len R ->
  len O <= len L * len R + len L + len R.
Proof.
  intros I J sb O (_ & _ & _ & HO) HI HJ. pose proof (len_nonneg R) as HRn.
  destruct (s_inner sb).
  - destruct HO as (Hii & Hjj & Him & Hjm & _ & _ & _ & _ & ->).
    pose proof (len_rows_upto emit inv L R (I + s_ii sb) ltac:(lia)) as H1.
    rewrite len_app. unfold len at 2. rewrite map_length. fold (len (seqZ J (s_jj sb))).
    rewrite seqZ_length by lia. nia.
  - subst O. pose proof (len_rows_upto emit inv L R I HI). nia.
Qed.

(* merge state: O = rows_upto I; inner state: O = rows_upto (I+ii) ++ the first jj pairs of row I+ii,
   whose full row is the block column R[J..J+jm) *)
Lemma Abs_prefix_Gen : forall I J sb O, AbsGen I J sb O -> 0 <= I <= len L -> 0 <= J <= len R ->
  exists rest, join_spec emit inv L R = O ++ rest.
Proof.
  intros I J sb O (_ & _ & Hfront & HO) HI HJ.
  destruct (s_inner sb).
  - destruct HO as (Hii & Hjj & Him & Hjm & HrunL & HrunR & HendL & HendR & ->).
    set (ii := s_ii sb) in *. set (jj := s_jj sb) in *. set (im := s_iimax sb) in *. set (jm := s_jjmax sb) in *.
    assert (Hrow : row emit inv R (I + ii) (nthZ L (I + ii)) = map (fun j => (I + ii, j)) (seqZ J jm)).
    { rewrite (HrunL (I + ii)) by lia. apply row_block; try lia; try assumption.
      intros j' Hj'. apply Hfront; lia. }
    apply (rows_row_prefix emit inv L R (I + ii) _ (map (fun j => (I + ii, j)) (seqZ (J + jj) (jm - jj)))); [lia|].
    rewrite Hrow, <- map_app. f_equal. unfold seqZ. rewrite <- map_app. f_equal.
    replace (Z.to_nat jm) with (Z.to_nat jj + Z.to_nat (jm - jj))%nat by lia.
    rewrite seq_app. f_equal. f_equal. lia.
  - subst O. apply rows_upto_prefix. exact HI.
Qed.

Definition KindOK_Gen : KindOK KGen emit L R inv cs.
Proof.
  refine (mkKindOK KGen emit L R inv cs AbsGen LocGen _ _ Abs_len_Gen kstep_ok_Gen Abs_final_Gen Abs_prefix_Gen).
  - intros s _ _ _. exact Logic.I.
  - unfold AbsGen. simp_st. pose proof (len_nonneg L). pose proof (len_nonneg R).
    splits; try lia; try reflexivity.
Defined.

End Gen.
