(* Proofs/SpansOrder.v — minimum / argmin of a list under a strict total order:
   the running-minimum loops compute the specification's min_spec / argmin_spec. *)
From Coq Require Import ZArith List Lia Bool.
From EV Require Import Res Arr Spans SpansSpec SpansBase.
Import ListNotations.
Open Scope Z_scope.

Section Order.
Context {A:Type}.
Variable ltb : A -> A -> bool.
Variable d : A.
Hypothesis Hord : strict_total ltb.

Let Hirr : forall x, ltb x x = false := proj1 Hord.
Let Htrans : forall x y z, ltb x y = true -> ltb y z = true -> ltb x z = true := proj1 (proj2 Hord).
Let Htot : forall x y, ltb x y = false -> ltb y x = false -> x = y := proj2 (proj2 Hord).

Lemma is_least_iff l x : is_least ltb l x = true <-> forall y, In y l -> ltb y x = false.
Proof.
  unfold is_least. rewrite forallb_forall. split; intros H y Hy; specialize (H y Hy).
  - apply negb_true_iff in H. exact H.
  - rewrite H. reflexivity.
Qed.

(* x below best, best below-or-equal y  ==>  x strictly below y *)
Lemma lt_le_lt x best y : ltb x best = true -> ltb y best = false -> ltb x y = true.
Proof.
  intros H1 H2. destruct (ltb x y) eqn:E; [reflexivity|]. exfalso.
  destruct (ltb y x) eqn:E2.
  - rewrite (Htrans y x best E2 H1) in H2. discriminate.
  - rewrite (Htot x y E E2) in H1. congruence.
Qed.
Lemma le_lt_lt y best x : ltb y best = false -> ltb x best = true -> ltb y x = false.
Proof.
  intros H1 H2. destruct (ltb y x) eqn:E; [|reflexivity]. rewrite (Htrans y x best E H2) in H1. discriminate.
Qed.

Lemma find_index_first (p:A -> bool) l r :
  0 <= r < len l -> p (nthd d l r) = true -> (forall j, 0 <= j < r -> p (nthd d l j) = false) ->
  find_index p l = r.
Proof.
  revert r. induction l as [|x t IH]; intros r Hr Hp Hbefore; [unfold len in Hr; cbn in Hr; lia|].
  cbn [find_index]. destruct (Z.eq_dec r 0) as [->|Hr0].
  - rewrite nthd_cons_0 in Hp. rewrite Hp. reflexivity.
  - assert (Hx : p x = false) by (specialize (Hbefore 0); rewrite nthd_cons_0 in Hbefore; apply Hbefore; lia).
    rewrite Hx. rewrite (IH (r - 1)); [lia| | |].
    + rewrite len_cons in Hr. lia.
    + replace r with ((r - 1) + 1) in Hp by lia. rewrite nthd_cons_succ in Hp by lia. exact Hp.
    + intros j Hj. specialize (Hbefore (j + 1)). rewrite nthd_cons_succ in Hbefore by lia. apply Hbefore. lia.
Qed.

(* the argmin loop: pre = the elements already seen *)
Lemma argmin_from_inv t : forall pre best besti,
  0 <= besti < len pre -> nthd d pre besti = best ->
  (forall y, In y pre -> ltb y best = false) ->
  (forall j, 0 <= j < besti -> ltb best (nthd d pre j) = true) ->
  let r := argmin_from ltb t (len pre) best besti in
  0 <= r < len (pre ++ t) /\
  (forall y, In y (pre ++ t) -> ltb y (nthd d (pre ++ t) r) = false) /\
  (forall j, 0 <= j < r -> ltb (nthd d (pre ++ t) r) (nthd d (pre ++ t) j) = true).
Proof.
  induction t as [|x t IH]; intros pre best besti Hb Hn Hleast Hfirst.
  - cbn [argmin_from]. rewrite app_nil_r. rewrite Hn. tauto.
  - cbn [argmin_from]. replace (pre ++ x :: t) with ((pre ++ [x]) ++ t) by (rewrite <- app_assoc; reflexivity).
    replace (len pre + 1) with (len (pre ++ [x])) by (rewrite len_app; reflexivity).
    destruct (ltb x best) eqn:E.
    + apply IH.
      * rewrite len_app. change (len [x]) with 1. pose proof (len_nonneg pre). lia.
      * rewrite nthd_app_r by lia. replace (len pre - len pre) with 0 by lia. reflexivity.
      * intros y Hy. apply in_app_or in Hy. destruct Hy as [Hy|[<-|[]]]; [|apply Hirr].
        apply (le_lt_lt y best x); [apply Hleast; exact Hy|exact E].
      * intros j Hj. rewrite nthd_app_l by lia. apply (lt_le_lt x best); [exact E|]. apply Hleast.
        unfold nthd, len in *. apply nth_In. lia.
    + apply IH.
      * rewrite len_app. change (len [x]) with 1. lia.
      * rewrite nthd_app_l by lia. exact Hn.
      * intros y Hy. apply in_app_or in Hy. destruct Hy as [Hy|[<-|[]]]; [apply Hleast; exact Hy|exact E].
      * intros j Hj. rewrite nthd_app_l by lia. apply Hfirst. exact Hj.
Qed.

Theorem argmin_spec_correct x t : argmin ltb (x :: t) = Ok (argmin_spec ltb (x :: t)).
Proof.
  cbn [argmin]. f_equal.
  pose proof (argmin_from_inv t [x] x 0) as H. change (len [x]) with 1 in H. cbn [app] in H.
  destruct H as [Hr [Hleast Hfirst]].
  - lia.
  - reflexivity.
  - intros y [<-|[]]. apply Hirr.
  - intros j Hj. lia.
  - set (l := x :: t) in *. set (r := argmin_from ltb t 1 x 0) in *.
    symmetry. unfold argmin_spec. apply find_index_first.
    + exact Hr.
    + apply is_least_iff. exact Hleast.
    + intros j Hj. destruct (is_least ltb l (nthd d l j)) eqn:E; [|reflexivity]. exfalso.
      rewrite is_least_iff in E. specialize (E (nthd d l r)). rewrite Hfirst in E by exact Hj.
      assert (In (nthd d l r) l) by (unfold nthd, len in *; apply nth_In; lia). specialize (E H). discriminate.
Qed.

(* any two least elements are equal, hence the running minimum equals min_spec *)
Lemma least_unique l x y : In x l -> In y l -> is_least ltb l x = true -> is_least ltb l y = true -> x = y.
Proof.
  intros Hx Hy Lx Ly. rewrite is_least_iff in Lx, Ly. apply Htot; [apply Ly; exact Hx|apply Lx; exact Hy].
Qed.

Lemma argmin_spec_least x t : let l := x :: t in
  0 <= argmin_spec ltb l < len l /\ is_least ltb l (nthd d l (argmin_spec ltb l)) = true.
Proof.
  intros l. pose proof (argmin_spec_correct x t) as H. cbn [argmin] in H. injection H as H.
  pose proof (argmin_from_inv t [x] x 0) as G. change (len [x]) with 1 in G. cbn [app] in G.
  destruct G as [Hr [Hleast _]]; [lia|reflexivity|intros y [<-|[]]; apply Hirr|intros; lia|].
  fold l in Hr, Hleast, H. rewrite H in Hr, Hleast. split; [exact Hr|]. apply is_least_iff. exact Hleast.
Qed.

Definition fold_min (v:A) (l:list A) : A := fold_left (fun m x => if ltb x m then x else m) l v.

Lemma fold_min_inv t : forall pre v, In v pre -> (forall y, In y pre -> ltb y v = false) ->
  In (fold_min v t) (pre ++ t) /\ (forall y, In y (pre ++ t) -> ltb y (fold_min v t) = false).
Proof.
  induction t as [|x t IH]; intros pre v Hin Hleast.
  - cbn. rewrite app_nil_r. tauto.
  - replace (pre ++ x :: t) with ((pre ++ [x]) ++ t) by (rewrite <- app_assoc; reflexivity).
    unfold fold_min. cbn [fold_left]. destruct (ltb x v) eqn:E; apply IH.
    + apply in_or_app. right. left. reflexivity.
    + intros y Hy. apply in_app_or in Hy. destruct Hy as [Hy|[<-|[]]]; [|apply Hirr].
      apply (le_lt_lt y v x); [apply Hleast; exact Hy|exact E].
    + apply in_or_app. left. exact Hin.
    + intros y Hy. apply in_app_or in Hy. destruct Hy as [Hy|[<-|[]]]; [apply Hleast; exact Hy|exact E].
Qed.

Theorem fold_min_spec x t : fold_min x t = min_spec ltb d (x :: t).
Proof.
  destruct (fold_min_inv t [x] x) as [Hin Hleast]; [left; reflexivity|intros y [<-|[]]; apply Hirr|].
  cbn [app] in *. destruct (argmin_spec_least x t) as [Hr Hl].
  unfold min_spec. apply (least_unique (x :: t)).
  - exact Hin.
  - unfold nthd, len in *. apply nth_In. lia.
  - apply is_least_iff. exact Hleast.
  - exact Hl.
Qed.
End Order.

(* the reversed order is a strict total order too: max / argmax are min / argmin of the reversed order *)
Definition flip_ltb {A} (ltb:A -> A -> bool) : A -> A -> bool := fun x y => ltb y x.
Lemma strict_total_flip {A} (ltb:A -> A -> bool) : strict_total ltb -> strict_total (flip_ltb ltb).
Proof.
  intros [H1 [H2 H3]]. unfold flip_ltb. split; [exact H1|]. split.
  - intros x y z Hxy Hyz. apply (H2 z y x); assumption.
  - intros x y Hxy Hyx. apply H3; assumption.
Qed.

(* instances *)
Lemma Z_ltb_strict_total : strict_total Z.ltb.
Proof.
  split; [intros x; apply Z.ltb_irrefl|]. split.
  - intros x y z H1 H2. apply Z.ltb_lt in H1, H2. apply Z.ltb_lt. lia.
  - intros x y H1 H2. apply Z.ltb_ge in H1, H2. lia.
Qed.

Lemma bytes_ltb_strict_total : strict_total bytes_ltb.
Proof.
  split; [|split].
  - intros x. induction x as [|a x IH]; [reflexivity|]. cbn [bytes_ltb]. rewrite Z.ltb_irrefl. exact IH.
  - intros x. induction x as [|a x IH]; intros [|b y] [|c z] H1 H2; cbn [bytes_ltb] in *; try discriminate; try reflexivity.
    destruct (a <? b) eqn:Eab.
    + destruct (b <? c) eqn:Ebc.
      * assert (a <? c = true) as -> by (apply Z.ltb_lt; apply Z.ltb_lt in Eab, Ebc; lia). reflexivity.
      * destruct (c <? b) eqn:Ecb; [discriminate|].
        assert (b = c) as <- by (apply Z.ltb_ge in Ebc, Ecb; lia). rewrite Eab. reflexivity.
    + destruct (b <? a) eqn:Eba; [discriminate|]. assert (a = b) as <- by (apply Z.ltb_ge in Eab, Eba; lia).
      destruct (a <? c) eqn:Eac; [reflexivity|]. destruct (c <? a) eqn:Eca; [discriminate|].
      apply (IH y z); assumption.
  - intros x. induction x as [|a x IH]; intros [|b y] H1 H2; cbn [bytes_ltb] in *; try discriminate; try reflexivity.
    destruct (a <? b) eqn:Eab; [discriminate|]. destruct (b <? a) eqn:Eba; [discriminate|].
    assert (a = b) as <- by (apply Z.ltb_ge in Eab, Eba; lia). f_equal. apply IH; assumption.
Qed.
