(* Proofs/MapStreamRefuted.v — the code as found (version Orig) does not meet the specification:
   concrete witnesses, each replayed on the real unrepaired code by the correspondence run
   (corpus/C04/F-*.json). *)
From Coq Require Import ZArith List Lia Bool.
From EV Require Import Res Arr MapStream MapStreamSpec.
Import ListNotations.
Open Scope Z_scope.

Definition S32 := INVALID_INDEX_32.

(* F-C04a: rows mapped by an earlier sub-chunk are wiped by result_data.fill(0) *)
Lemma stream_sentinel_witness :
  valid_mapb 6 S32 [0; S32] = true /\
  ordered_map_valid_stream 0 0 10 Orig [10;20;30;40;50;60] [0; S32] S32 4 = Ok [0; 0] /\
  map_spec 0 [10;20;30;40;50;60] S32 [0; S32] = [10; 0].
Proof. vm_compute. repeat split. Qed.

(* F-C04c: fill(0) on a fixed-string buffer stores b'0' *)
Lemma stream_fixedstring_witness :
  ordered_map_valid_stream [48] [] 10 Orig [[97];[98;98]] [-1; -1] (-1) 4 = Ok [[48]; [48]] /\
  map_spec [] [[97];[98;98]] (-1) [-1; -1] = [[]; []].
Proof. vm_compute. repeat split. Qed.

(* F-C04b: the indexed driver compares with the literal -1 *)
Lemma indexed_sentinel_witness :
  ordered_map_valid_indexed_stream 20 Orig [0;1;3;6] [97;98;98;99;99;99] [0; S32] S32 4 4 = Raise E_IndexError /\
  indexed_spec [0;1;3;6] [97;98;98;99;99;99] S32 [0; S32] = ([0;1;1], [97]).
Proof. vm_compute. repeat split. Qed.

(* F-C04d: safe_map_values on an empty map reads result[0] *)
Lemma safe_map_values_empty_witness :
  safe_map_values 0 Orig [10;20] [] [] None = OOB 200 /\ map_spec 0 [10;20] (-1) [] = [].
Proof. vm_compute. repeat split. Qed.

(* F-C12b: one entry of 4 bytes, value buffer of 1 byte: the inner driver loop is at a
   fixpoint — whatever the fuel, the run does not finish *)
Definition spin_idx := [0;1;3;6;10].
Definition spin_val := [97;98;98;99;99;99;100;100;100;100].

Lemma isub_spin fuel :
  isub_loop fuel Orig [3] 0 1 [6;10] [(0,1)] spin_val 3 (-1) 0 (0,1) [100;100;100;100] 0
            (mk_ist 0 0 0 [0] [0] [0] []) = OutOfFuel.
Proof. induction fuel as [|f IH]; [reflexivity|]. cbn. exact IH. Qed.

Lemma spin_subchunks f : get_map_subchunks (S (S f)) Orig [3] (-1) 1 = Ok [(0, 1)].
Proof.
  unfold get_map_subchunks. cbn [subchunks_loop].
  change (0 <? len [3]) with true. cbv iota.
  assert (H : next_map_subchunk_v Orig [3] 0 (-1) 1 = Ok 1) by (vm_compute; reflexivity).
  rewrite H. cbn [bind]. change (1 <? len [3]) with false. cbv iota. reflexivity.
Qed.

Lemma spin_subchunk kfuel :
  istream_subchunk kfuel Orig spin_idx spin_val [3] (-1) 1 1 (mk_ist 0 0 0 [0] [0] [0] []) (0, 1) = OutOfFuel.
Proof.
  unfold istream_subchunk. cbn [fst snd].
  assert (H1 : get_valid_value_extents_v Orig [3] 0 1 (-1) = Ok (3, 3)) by (vm_compute; reflexivity).
  rewrite H1. cbn [bind]. change (3 =? -1) with false. cbv iota.
  assert (H2 : np_slice spin_idx 3 (3 + 2) = [6; 10]) by (vm_compute; reflexivity).
  rewrite H2.
  assert (H3 : calculate_chunk_decomposition 0 (3 - 3 + 1) [6; 10] (1 * 1) = Ok [(0, 1)]) by (vm_compute; reflexivity).
  rewrite H3. cbn [bind].
  assert (H4 : list_get [(0, 1)] 0 = Ok (0, 1)) by (vm_compute; reflexivity).
  rewrite H4. cbn [bind].
  assert (H5 : fetch_values spin_val [6; 10] (0, 1) = Ok [100;100;100;100]) by (vm_compute; reflexivity).
  rewrite H5. cbn [bind]. apply isub_spin.
Qed.

Lemma indexed_spin_all_fuel fuel :
  ordered_map_valid_indexed_stream fuel Orig spin_idx spin_val [3] (-1) 1 1 = OutOfFuel.
Proof.
  destruct fuel as [|[|f]]; [reflexivity|reflexivity|].
  unfold ordered_map_valid_indexed_stream.
  change ((1 <? 0) || (1 * 1 <? 0)) with false. cbv iota.
  change (untrimmed_chunk [3] 0 1) with ((0, 1), [3], 1, 0). cbv iota beta.
  change (repeat 0 (Z.to_nat 1)) with [0]. change (repeat 0 (Z.to_nat (1 * 1))) with [0].
  change (np_slice [0] 0 1) with [0].
  cbn [istream_loop]. change (0 + 0 <? len [3]) with true. cbv iota.
  rewrite spin_subchunks. cbn [bind fold_res]. rewrite spin_subchunk. reflexivity.
Qed.

(* after fix-F-C12b the same input raises *)
Lemma indexed_too_long_raises :
  ordered_map_valid_indexed_stream 20 Fixed spin_idx spin_val [3] (-1) 1 1 = Raise E_ValueError.
Proof. vm_compute. reflexivity. Qed.

(* F-C02f (the code after the C04 fixes, version Fixed0): a map whose valid entries are in range but not
   non-decreasing — the right-hand join map of keys [0;0] x [0;0] — is read outside the value window
   taken from the first and the last valid entry; the code after fix-F-C02f (Fixed) gives the answer *)
Lemma stream_nonmonotone_witness :
  ordered_map_valid_stream 0 0 10 Fixed0 [30;40] [0;1;0;1] (-1) 3 = OOB 123 /\
  ordered_map_valid_stream 0 0 10 Fixed [30;40] [0;1;0;1] (-1) 3 = Ok [30;40;30;40] /\
  map_spec 0 [30;40] (-1) [0;1;0;1] = [30;40;30;40].
Proof. vm_compute. repeat split. Qed.

(* indexed strings 'a','bb' through [1;0]: the old window is indices[1:2] *)
Lemma indexed_nonmonotone_witness :
  ordered_map_valid_indexed_stream 10 Fixed0 [0;1;3] [97;98;98] [1;0] (-1) 2 4 = Raise E_IndexError /\
  ordered_map_valid_indexed_stream 10 Fixed [0;1;3] [97;98;98] [1;0] (-1) 2 4 = Ok ([0;2;3], [98;98;97]) /\
  indexed_spec [0;1;3] [97;98;98] (-1) [1;0] = ([0;2;3], [98;98;97]).
Proof. vm_compute. repeat split. Qed.

(* value sub-chunks revisited backwards: 'aaaa','bbbb' with a value buffer of 4 bytes, map [1;0;1;0] *)
Lemma indexed_seek_back_witness :
  ordered_map_valid_indexed_stream 10 Fixed [0;4;8] [97;97;97;97;98;98;98;98] [1;0;1;0] (-1) 4 1
  = Ok ([0;4;8;12;16], [98;98;98;98;97;97;97;97;98;98;98;98;97;97;97;97]).
Proof. vm_compute. reflexivity. Qed.
