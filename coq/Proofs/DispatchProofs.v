(* Proofs/DispatchProofs.v — C13: for every well-formed table the operator layer is a pass-through
   to numpy (model = spec), the tables of the tree are well-formed, the pre-fix tables are not. *)
From Coq Require Import ZArith List Bool Lia.
From EV Require Import Res Dispatch DispatchSpec.
Import ListNotations.
Open Scope Z_scope.

(* ---- reflection of the decidable checks ------------------------------------------------- *)
Lemma fdo_eqb_eq a b : fdo_eqb a b = true -> a = b.
Proof. destruct a, b; cbn; intros H; try reflexivity; discriminate. Qed.

Lemma arg_eqb_eq a b : arg_eqb a b = true -> a = b.
Proof. destruct a, b; cbn; intros H; try reflexivity; discriminate. Qed.

Lemma args_eqb_eq a : forall b, args_eqb a b = true -> a = b.
Proof.
  induction a as [|x a IH]; intros [|y b] H; cbn in H; try discriminate; try reflexivity.
  apply andb_true_iff in H as [H1 H2]. apply arg_eqb_eq in H1. apply IH in H2. congruence.
Qed.

Lemma method_is_eq m f a : method_is m f a = true -> m = Some (f, a).
Proof.
  destruct m as [[f' a']|]; cbn; intros H; [|discriminate].
  apply andb_true_iff in H as [H1 H2]. apply fdo_eqb_eq in H1. apply args_eqb_eq in H2. congruence.
Qed.

Lemma opdef_is_eq m w o : opdef_is m w o = true -> m = Some (w, o).
Proof.
  destruct m as [[w' o']|]; cbn; intros H; [|discriminate].
  apply andb_true_iff in H as [H1 H2].
  assert (w' = w) by (destruct w', w; cbn in H1; try reflexivity; discriminate).
  assert (o' = o) by (destruct o', o; cbn in H2; try reflexivity; discriminate).
  congruence.
Qed.

Lemma in_all_classes c : In c all_classes.
Proof. destruct c; cbn; tauto. Qed.
Lemma in_all_bops o : In o all_bops.
Proof. destruct o; cbn; tauto. Qed.
Lemma in_all_uops u : In u all_uops.
Proof. destruct u; cbn; tauto. Qed.

(* ---- what tables_ok gives ------------------------------------------------------------------ *)
Section Facts.
  Variable T : code_tables.
  Hypothesis HT : tables_ok T = true.

  Lemma ok_class c : class_ok T c = true.
  Proof.
    unfold tables_ok in HT. apply andb_true_iff in HT as [H _].
    rewrite forallb_forall in H. apply H, in_all_classes.
  Qed.

  Lemma ok_flag c : lookup_flag (t_ufunc T) c = true.
  Proof. pose proof (ok_class c) as H. unfold class_ok in H. apply andb_true_iff in H as [_ H]. exact H. Qed.

  Lemma ok_fwd c o : supported c o = true ->
    lookup (t_methods T) c (D_fwd o) = Some (fdo_of o, [ASelf; AOther]).
  Proof.
    intros Hs. pose proof (ok_class c) as H. unfold class_ok in H.
    apply andb_true_iff in H as [H _]. apply andb_true_iff in H as [H _].
    rewrite forallb_forall in H. specialize (H o (in_all_bops o)).
    unfold method_ok in H. rewrite Hs in H. apply andb_true_iff in H as [H _].
    apply method_is_eq, H.
  Qed.

  Lemma ok_refl c o : supported c o = true -> is_cmp o = false ->
    lookup (t_methods T) c (D_refl o) = Some (fdo_of o, [AOther; ASelf]).
  Proof.
    intros Hs Hc. pose proof (ok_class c) as H. unfold class_ok in H.
    apply andb_true_iff in H as [H _]. apply andb_true_iff in H as [H _].
    rewrite forallb_forall in H. specialize (H o (in_all_bops o)).
    unfold method_ok in H. rewrite Hs, Hc in H. apply andb_true_iff in H as [_ H].
    cbn in H. apply method_is_eq, H.
  Qed.

  Lemma ok_un c u : supported_u c u = true ->
    lookup (t_methods T) c (D_un u) = Some (fdo_of_u u, [ASelf]).
  Proof.
    intros Hs. pose proof (ok_class c) as H. unfold class_ok in H.
    apply andb_true_iff in H as [H _]. apply andb_true_iff in H as [_ H].
    rewrite forallb_forall in H. specialize (H u (in_all_uops u)).
    unfold unary_ok in H. rewrite Hs in H. apply method_is_eq, H.
  Qed.

  Lemma ok_op o : lookup_op (t_ops T) (fdo_of o) = Some (wrapper_of o, npop_of o).
  Proof.
    unfold tables_ok in HT. apply andb_true_iff in HT as [_ H]. unfold ops_ok in H.
    apply andb_true_iff in H as [H _]. rewrite forallb_forall in H.
    apply opdef_is_eq, H, in_all_bops.
  Qed.

  Lemma ok_op_u u : lookup_op (t_ops T) (fdo_of_u u) = Some (W_unary, npop_of_u u).
  Proof.
    unfold tables_ok in HT. apply andb_true_iff in HT as [_ H]. unfold ops_ok in H.
    apply andb_true_iff in H as [_ H]. rewrite forallb_forall in H.
    apply opdef_is_eq, H, in_all_uops.
  Qed.

  Lemma wrapper_arity_of o : wrapper_arity (wrapper_of o) = 2%nat.
  Proof. destruct o; reflexivity. Qed.

  (* the forward method: FieldDataOps.<op>(session, self, other) *)
  Lemma call_fwd c o self other : supported c o = true ->
    call_method T c (D_fwd o) self other = Some (Ok (PApply (wrapper_of o) (npop_of o) [self; other])).
  Proof.
    intros Hs. unfold call_method. rewrite (ok_fwd c o Hs), ok_op. cbn [length].
    rewrite wrapper_arity_of. reflexivity.
  Qed.

  (* the reflected method: FieldDataOps.<op>(session, other, self) *)
  Lemma call_refl c o self other : supported c o = true -> is_cmp o = false ->
    call_method T c (D_refl o) self other = Some (Ok (PApply (wrapper_of o) (npop_of o) [other; self])).
  Proof.
    intros Hs Hc. unfold call_method. rewrite (ok_refl c o Hs Hc), ok_op. cbn [length].
    rewrite wrapper_arity_of. reflexivity.
  Qed.

  Lemma supported_mirror c o : is_cmp o = true -> supported c (mirror o) = true.
  Proof. destruct c, o; cbn; intros H; try reflexivity; discriminate. Qed.

  Lemma wrapper_of_cmp o : is_cmp o = true -> wrapper_of o = W_binary /\ wrapper_of (mirror o) = W_binary.
  Proof. destruct o; cbn; intros H; try discriminate; split; reflexivity. Qed.

  (* the plan Python + numpy arrive at for an in-scope case *)
  Definition direct_plan (o:bop) : plan := PApply (wrapper_of o) (npop_of o) [SLhs; SRhs].
  Definition mirrored_plan (o:bop) : plan := PApply W_binary (npop_of (mirror o)) [SRhs; SLhs].

  Lemma reflected_call c o : supported c o = true ->
    call_method T c (reflected o) SRhs SLhs =
      Some (Ok (if is_cmp o then mirrored_plan o else direct_plan o)).
  Proof.
    intros Hs. unfold reflected. destruct (is_cmp o) eqn:Hc.
    - rewrite call_fwd by (apply supported_mirror; exact Hc).
      destruct (wrapper_of_cmp o Hc) as [_ ->]. reflexivity.
    - rewrite call_refl by assumption. reflexivity.
  Qed.

  Lemma plan_in_scope l o r : in_scope l o r = true ->
    py_binop T l o r = Ok (direct_plan o) \/
    (is_cmp o = true /\ is_field l = false /\ py_binop T l o r = Ok (mirrored_plan o)).
  Proof.
    unfold in_scope. intros H.
    apply andb_true_iff in H as [H Hr]. apply andb_true_iff in H as [Hf Hl].
    destruct l as [cl| | |].
    - (* a field on the left answers itself *)
      left. cbn in Hl. destruct r as [cr| | |]; unfold py_binop, py_binop_sel;
        rewrite (call_fwd cl o _ _ Hl); reflexivity.
    - (* ndarray <op> field: ndarray defers, the field's reflected method runs *)
      destruct r as [cr| | |]; try discriminate. cbn in Hr.
      unfold py_binop, py_binop_sel, numpy_side. rewrite ok_flag. cbn [same_class andb or_else].
      rewrite (reflected_call cr o Hr). destruct (is_cmp o) eqn:Hc; [right|left]; auto.
    - (* numpy scalar <op> field *)
      destruct r as [cr| | |]; try discriminate. cbn in Hr.
      unfold py_binop. rewrite ok_flag. unfold py_binop_sel. cbn [same_class andb or_else].
      rewrite (reflected_call cr o Hr). destruct (is_cmp o) eqn:Hc; [right|left]; auto.
    - (* Python scalar <op> field *)
      destruct r as [cr| | |]; try discriminate. cbn in Hr.
      unfold py_binop, py_binop_sel. cbn [same_class andb or_else].
      rewrite (reflected_call cr o Hr). destruct (is_cmp o) eqn:Hc; [right|left]; auto.
  Qed.

  Lemma plan_unary c u : supported_u c u = true ->
    py_unop T c u = Ok (PApply W_unary (npop_of_u u) [SLhs]).
  Proof.
    intros Hs. unfold py_unop, call_method. rewrite (ok_un c u Hs), ok_op_u. reflexivity.
  Qed.
End Facts.

(* ---- the wrappers are a pass-through ----------------------------------------------------- *)
Section Pass.
  Variable arr : Type.
  Variable nformat : Type.
  Variable np_bin : npop -> arr -> arr -> res arr.
  Variable np_divmod : arr -> arr -> res (arr * arr).
  Variable np_un : npop -> arr -> res arr.
  Variable np_item : arr -> arr.
  Variable dtype_to_str : arr -> res nformat.
  Variable np_cast : nformat -> arr -> res arr.
  Variable np_empty : nformat -> arr.

  (* numpy: `b > a` is `a < b` (same values, same dtype, same refusals) *)
  Hypothesis np_cmp_mirror : forall o a b, is_cmp o = true ->
    np_bin (npop_of (mirror o)) b a = np_bin (npop_of o) a b.
  (* h5py/numpy: writing an array into a dataset of the array's own dtype stores its values *)
  Hypothesis np_cast_id : forall r nf, dtype_to_str r = Ok nf -> np_cast nf r = Ok r.

  Notation heap := (heap arr nformat).
  Notation mkfield := (mkfield arr nformat).
  Notation outcome := (outcome arr nformat).
  Notation mkout := (mkout arr nformat).
  Notation data_of := (data_of arr nformat np_empty).
  Notation kind_of := (kind_of arr nformat).
  Notation run_binop := (run_binop arr nformat np_bin np_divmod np_un np_item dtype_to_str np_cast np_empty).
  Notation run_unop := (run_unop arr nformat np_bin np_divmod np_un np_item dtype_to_str np_cast np_empty).
  Notation spec_binop := (spec_binop arr nformat np_bin np_divmod dtype_to_str np_empty).
  Notation spec_unop := (spec_unop arr nformat np_un dtype_to_str np_empty).
  Notation exec_plan := (exec_plan arr nformat np_bin np_divmod np_un np_item dtype_to_str np_empty).
  Notation finish := (finish arr nformat np_cast np_empty).
  Notation df_setitem := (df_setitem arr nformat np_cast np_empty).
  Notation df_store_all := (df_store_all arr nformat np_cast np_empty).
  Notation spec_state := (spec_state arr nformat dtype_to_str).
  Notation new_fields := (new_fields arr nformat dtype_to_str).

  Lemma kind_data h v k : kind_of h v = Ok k -> exists a, data_of h v = Ok a.
  Proof.
    destruct v; cbn; intros H; try discriminate; eauto.
    destruct (nth_error h id); [eauto|discriminate].
  Qed.

  Lemma nth_error_last (h:heap) f : nth_error (h ++ [f]) (length h) = Some f.
  Proof. rewrite nth_error_app2 by lia. rewrite Nat.sub_diag. reflexivity. Qed.

  (* storing one fresh result field *)
  Lemma store_one (h:heap) r nf : dtype_to_str r = Ok nf ->
    df_setitem (h ++ [mkfield NumericMem nf (Some r)]) (VField (length h)) =
      Ok ((h ++ [mkfield NumericMem nf (Some r)]) ++ [mkfield NumericH5 nf (Some r)], VField (length h + 1)%nat).
  Proof.
    intros Hd. unfold Dispatch.df_setitem. rewrite nth_error_last. cbn [fo_nformat fo_data fo_cls h5_class field_data].
    rewrite (np_cast_id r nf Hd). cbn [bind]. rewrite app_length. reflexivity.
  Qed.

  (* model's final state after creating the fields for the result arrays rs (one or two) *)
  Lemma finish_one (h:heap) r store :
    (do hv <- new_mem_field arr nformat dtype_to_str h r; let '(h1, v) := hv in finish store (h1, [v]))
    = spec_state h [r] store.
  Proof.
    unfold new_mem_field, Dispatch.finish, DispatchSpec.spec_state. cbn [DispatchSpec.new_fields].
    destruct (dtype_to_str r) as [nf| | |] eqn:Hd; cbn [bind]; try reflexivity.
    cbn [length map fo_nformat fo_data ids_from seq].
    destruct store.
    - cbn [Dispatch.df_store_all]. rewrite (store_one h r nf Hd). cbn [bind].
      rewrite <- !app_assoc. cbn [app]. rewrite !Nat.add_0_r. reflexivity.
    - rewrite !Nat.add_0_r. rewrite app_nil_r. reflexivity.
  Qed.

  Lemma store_two (h:heap) r1 nf1 r2 nf2 : dtype_to_str r1 = Ok nf1 -> dtype_to_str r2 = Ok nf2 ->
    let h2 := (h ++ [mkfield NumericMem nf1 (Some r1)]) ++ [mkfield NumericMem nf2 (Some r2)] in
    df_store_all h2 [VField (length h); VField (length h + 1)%nat] =
      Ok ((h2 ++ [mkfield NumericH5 nf1 (Some r1)]) ++ [mkfield NumericH5 nf2 (Some r2)],
          [VField (length h + 2)%nat; VField (length h + 3)%nat]).
  Proof.
    intros H1 H2 h2. subst h2. cbn [Dispatch.df_store_all]. unfold Dispatch.df_setitem.
    rewrite nth_error_app1 by (rewrite app_length; cbn; lia). rewrite nth_error_last.
    cbn [fo_nformat fo_data fo_cls h5_class field_data]. rewrite (np_cast_id r1 nf1 H1). cbn [bind].
    rewrite nth_error_app1 by (rewrite !app_length; cbn; lia).
    replace (length h + 1)%nat with (length (h ++ [mkfield NumericMem nf1 (Some r1)])) by (rewrite app_length; cbn; lia).
    rewrite nth_error_last. cbn [fo_nformat fo_data fo_cls h5_class field_data]. rewrite (np_cast_id r2 nf2 H2). cbn [bind].
    repeat rewrite app_length. cbn [length].
    replace (length h + 1 + 1 + 1)%nat with (length h + 3)%nat by lia.
    replace (length h + 1 + 1)%nat with (length h + 2)%nat by lia. reflexivity.
  Qed.

  Lemma finish_two (h:heap) r1 r2 store :
    (do hv1 <- new_mem_field arr nformat dtype_to_str h r1; let '(h1, v1) := hv1 in
     do hv2 <- new_mem_field arr nformat dtype_to_str h1 r2; let '(h2, v2) := hv2 in
     finish store (h2, [v1; v2]))
    = spec_state h [r1; r2] store.
  Proof.
    unfold new_mem_field, Dispatch.finish, DispatchSpec.spec_state. cbn [DispatchSpec.new_fields].
    destruct (dtype_to_str r1) as [nf1| | |] eqn:Hd1; cbn [bind]; try reflexivity.
    destruct (dtype_to_str r2) as [nf2| | |] eqn:Hd2; cbn [bind]; try reflexivity.
    cbn [length map fo_nformat fo_data ids_from seq].
    destruct store.
    - rewrite app_length. cbn [length].
      rewrite (store_two h r1 nf1 r2 nf2 Hd1 Hd2). cbn [bind].
      rewrite <- !app_assoc. cbn [app].
      replace (length h + 2 + 0)%nat with (length h + 2)%nat by lia.
      replace (length h + 2 + 1)%nat with (length h + 3)%nat by lia.
      rewrite !Nat.add_0_r. reflexivity.
    - rewrite app_length. cbn [length]. rewrite <- !app_assoc. cbn [app].
      rewrite !Nat.add_0_r. reflexivity.
  Qed.

  (* executing the direct plan = the specification *)
  Lemma exec_bin (h:heap) lhs rhs f store :
    (do hr <- binary_op arr nformat np_bin dtype_to_str np_empty h lhs rhs f; finish store hr)
    = (do a <- data_of h lhs; do b <- data_of h rhs; do rs <- (do r <- np_bin f a b; Ok [r]); spec_state h rs store).
  Proof.
    unfold binary_op.
    destruct (data_of h lhs) as [a| | |]; cbn [bind]; try reflexivity.
    destruct (data_of h rhs) as [b| | |]; cbn [bind]; try reflexivity.
    destruct (np_bin f a b) as [r| | |]; cbn [bind]; try reflexivity.
    rewrite <- finish_one. destruct (new_mem_field arr nformat dtype_to_str h r) as [[h1 v]| | |]; reflexivity.
  Qed.

  Lemma exec_divmod (h:heap) lhs rhs store :
    (do hr <- numeric_divmod arr nformat np_divmod dtype_to_str np_empty h lhs rhs; finish store hr)
    = (do a <- data_of h lhs; do b <- data_of h rhs;
       do rs <- (do qr <- np_divmod a b; let '(q, r) := qr in Ok [q; r]); spec_state h rs store).
  Proof.
    unfold numeric_divmod.
    destruct (data_of h lhs) as [a| | |]; cbn [bind]; try reflexivity.
    destruct (data_of h rhs) as [b| | |]; cbn [bind]; try reflexivity.
    destruct (np_divmod a b) as [[r1 r2]| | |]; cbn [bind]; try reflexivity.
    rewrite <- finish_two.
    destruct (new_mem_field arr nformat dtype_to_str h r1) as [[h1 v1]| | |]; cbn [bind]; try reflexivity.
    destruct (new_mem_field arr nformat dtype_to_str h1 r2) as [[h2 v2]| | |]; reflexivity.
  Qed.

  Lemma exec_direct (h:heap) lhs rhs o store :
    (do hr <- exec_plan h lhs rhs (direct_plan o); finish store hr) = spec_binop h lhs o rhs store.
  Proof.
    unfold DispatchSpec.spec_binop, direct_plan.
    destruct o; cbn [wrapper_of npop_of Dispatch.exec_plan pick bind DispatchSpec.np_results];
      first [apply exec_bin | apply exec_divmod].
  Qed.

  (* executing the mirrored comparison = the specification, by numpy's symmetry *)
  Lemma exec_mirrored (h:heap) lhs rhs o store kl kr :
    is_cmp o = true -> kind_of h lhs = Ok kl -> kind_of h rhs = Ok kr ->
    (do hr <- exec_plan h lhs rhs (mirrored_plan o); finish store hr) = spec_binop h lhs o rhs store.
  Proof.
    intros Hc Hkl Hkr.
    destruct (kind_data h lhs kl Hkl) as [a Ha]. destruct (kind_data h rhs kr Hkr) as [b Hb].
    rewrite <- exec_direct. unfold mirrored_plan, direct_plan.
    destruct (wrapper_of_cmp o Hc) as [-> _].
    cbn [Dispatch.exec_plan pick bind]. unfold binary_op. rewrite Ha, Hb. cbn [bind].
    rewrite (np_cmp_mirror o a b Hc). reflexivity.
  Qed.

  (* MAIN: for every well-formed operator table, `lhs <op> rhs` [+ dataframe assignment] behaves as
     the property says, for every heap, every operand (field / ndarray / numpy scalar / Python
     scalar on either side), every operator in scope — including which exception comes out when
     numpy refuses the operation. *)
  Theorem binop_passthrough (T:code_tables) : tables_ok T = true ->
    forall (h:heap) lhs rhs o store kl kr,
      kind_of h lhs = Ok kl -> kind_of h rhs = Ok kr -> in_scope kl o kr = true ->
      run_binop T h lhs o rhs store = spec_binop h lhs o rhs store.
  Proof.
    intros HT h lhs rhs o store kl kr Hkl Hkr Hs.
    unfold Dispatch.run_binop. rewrite Hkl, Hkr. cbn [bind].
    destruct (plan_in_scope T HT kl o kr Hs) as [Hp | (Hc & _ & Hp)]; rewrite Hp; cbn [bind].
    - apply exec_direct.
    - eapply exec_mirrored; eassumption.
  Qed.

  Theorem unop_passthrough (T:code_tables) : tables_ok T = true ->
    forall (h:heap) id fo u store,
      nth_error h id = Some fo -> supported_u (fo_cls _ _ fo) u = true ->
      run_unop T h (VField id) u store = spec_unop h (VField id) u store.
  Proof.
    intros HT h id fo u store Hn Hs.
    unfold Dispatch.run_unop, DispatchSpec.spec_unop. cbn [Dispatch.kind_of Dispatch.data_of]. rewrite Hn. cbn [bind].
    rewrite (plan_unary T HT _ u Hs). cbn [bind Dispatch.exec_plan pick]. unfold unary_op.
    cbn [Dispatch.data_of]. rewrite Hn. cbn [bind].
    destruct (np_un (npop_of_u u) (field_data _ _ np_empty fo)) as [r| | |]; cbn [bind]; try reflexivity.
    rewrite <- finish_one. destruct (new_mem_field arr nformat dtype_to_str h r) as [[h1 v]| | |]; reflexivity.
  Qed.

  (* consequences of the specification, spelled out as the property words them *)
  Lemma nth_error_seq' n : forall s i, (i < n)%nat -> nth_error (seq s n) i = Some (s + i)%nat.
  Proof.
    induction n as [|n IH]; intros s i Hi; [lia|]. destruct i as [|i]; cbn.
    - f_equal; lia.
    - rewrite IH by lia. f_equal; lia.
  Qed.

  Lemma nth_ids n k i : (i < k)%nat -> nth_error (ids_from arr n k) i = Some (VField (n + i)).
  Proof.
    intros Hi. unfold ids_from. apply (map_nth_error (fun j => @VField arr (n + j)) i (seq 0 k)).
    apply (nth_error_seq' k 0 i Hi).
  Qed.

  Lemma new_fields_shape rs fs : new_fields rs = Ok fs ->
    length fs = length rs /\
    forall i r, nth_error rs i = Some r ->
      exists nf, dtype_to_str r = Ok nf /\ nth_error fs i = Some (mkfield NumericMem nf (Some r)).
  Proof.
    revert fs. induction rs as [|r rs IH]; intros fs H; cbn in H.
    - inversion H; subst. split; [reflexivity|]. intros [|i] r0 Hn; discriminate.
    - destruct (dtype_to_str r) as [nf| | |] eqn:Hd; cbn in H; try discriminate.
      destruct (new_fields rs) as [t| | |] eqn:Ht; cbn in H; try discriminate.
      inversion H; subst. destruct (IH t eq_refl) as [Hl Hi]. split; [cbn; congruence|].
      intros [|i] r0 Hn; cbn in Hn |- *.
      + inversion Hn; subst. eauto.
      + apply Hi, Hn.
  Qed.

  Theorem spec_operands_unchanged (h:heap) rs store out :
    spec_state h rs store = Ok out ->
    forall id fo, nth_error h id = Some fo -> nth_error (o_heap _ _ out) id = Some fo.
  Proof.
    unfold DispatchSpec.spec_state. intros H id fo Hn.
    destruct (new_fields rs) as [fs| | |]; cbn in H; try discriminate. inversion H; subst. cbn [o_heap].
    rewrite nth_error_app1; [exact Hn|]. apply nth_error_Some. congruence.
  Qed.

  Theorem spec_results_are_numpys (h:heap) rs store out :
    spec_state h rs store = Ok out ->
    length (o_results _ _ out) = length rs /\
    forall i r, nth_error rs i = Some r ->
      exists nf, dtype_to_str r = Ok nf /\
        nth_error (o_results _ _ out) i = Some (VField (length h + i)) /\
        nth_error (o_heap _ _ out) (length h + i) = Some (mkfield NumericMem nf (Some r)) /\
        (store = true ->
           nth_error (o_stored _ _ out) i = Some (VField (length h + length rs + i)) /\
           nth_error (o_heap _ _ out) (length h + length rs + i) = Some (mkfield NumericH5 nf (Some r))).
  Proof.
    unfold DispatchSpec.spec_state. intros H.
    destruct (new_fields rs) as [fs| | |] eqn:Hf; cbn in H; try discriminate. inversion H; subst; clear H.
    destruct (new_fields_shape rs fs Hf) as [Hl Hi]. cbn [o_results o_heap o_stored].
    split; [unfold ids_from; rewrite map_length, seq_length; exact Hl|].
    intros i r Hn. destruct (Hi i r Hn) as (nf & Hd & Hfs). exists nf. split; [exact Hd|].
    assert (Hlt : (i < length fs)%nat) by (apply nth_error_Some; congruence).
    split; [|split].
    - apply nth_ids, Hlt.
    - rewrite nth_error_app2 by lia. replace (length h + i - length h)%nat with i by lia.
      rewrite nth_error_app1 by exact Hlt. exact Hfs.
    - intros ->. split.
      + rewrite <- Hl. apply nth_ids, Hlt.
      + rewrite nth_error_app2 by lia. rewrite nth_error_app2 by lia.
        replace (length h + length rs + i - length h - length fs)%nat with i by lia.
        erewrite map_nth_error by exact Hfs. reflexivity.
  Qed.
End Pass.

(* ---- the tables of the tree ----------------------------------------------------------------- *)
Lemma repo_tables_ok : tables_ok repo_tables = true.
Proof. vm_compute. reflexivity. Qed.

Lemma repo_reflected_reachable : reflected_reachable repo_tables = true.
Proof. vm_compute. reflexivity. Qed.

Lemma repo_entries_wellformed : forallb entry_wellformed repo_table = true.
Proof. vm_compute. reflexivity. Qed.

(* F-C13a on the class flags of the pinned commit *)
Lemma orig_reflected_unreachable : reflected_reachable orig_tables = false.
Proof. vm_compute. reflexivity. Qed.

Lemma orig_ndarray_add_refuted :
  in_scope KNdarray Add (KField NumericMem) = true /\
  py_binop orig_tables KNdarray Add (KField NumericMem) = Ok PObjArray /\
  py_binop orig_tables KNdarray Lt (KField TimestampH5) = Ok PBoolTrue /\
  py_binop orig_tables KNpScalar Add (KField NumericH5) = Ok (PApply W_binary Op_add [SLhsItem; SRhs]).
Proof. vm_compute. repeat split; reflexivity. Qed.

(* ---- a toy numpy (scalars are Z, comparisons give 0/1) showing that the hypotheses of the
        pass-through theorems are satisfiable, used by the Examples of Props/C13.v ------------- *)
Definition toy_bin (f:npop) (a b:Z) : res Z :=
  match f with
  | Op_add => Ok (a + b) | Op_sub => Ok (a - b) | Op_mul => Ok (a * b)
  | Op_truediv | Op_floordiv => Ok (a / b) | Op_mod => Ok (a mod b)
  | Op_and => Ok (Z.land a b) | Op_or => Ok (Z.lor a b) | Op_xor => Ok (Z.lxor a b)
  | Op_lt => Ok (if a <? b then 1 else 0) | Op_le => Ok (if a <=? b then 1 else 0)
  | Op_eq => Ok (if a =? b then 1 else 0) | Op_ne => Ok (if a =? b then 0 else 1)
  | Op_gt => Ok (if a >? b then 1 else 0) | Op_ge => Ok (if a >=? b then 1 else 0)
  | _ => Raise E_TypeError
  end.
Definition toy_divmod (a b:Z) : res (Z * Z) := Ok (a / b, a mod b).
Definition toy_un (f:npop) (a:Z) : res Z :=
  match f with Op_invert => Ok (- a - 1) | Np_logical_not => Ok (if a =? 0 then 1 else 0) | _ => Raise E_TypeError end.
Definition toy_dtype (a:Z) : res unit := Ok tt.
Definition toy_cast (nf:unit) (a:Z) : res Z := Ok a.

Lemma toy_cmp_mirror o a b : is_cmp o = true -> toy_bin (npop_of (mirror o)) b a = toy_bin (npop_of o) a b.
Proof.
  destruct o; cbn; intros H; try discriminate; f_equal.
  - rewrite Z.gtb_ltb. reflexivity.
  - rewrite Z.geb_leb. reflexivity.
  - rewrite Z.eqb_sym. reflexivity.
  - rewrite Z.eqb_sym. reflexivity.
  - rewrite Z.gtb_ltb. reflexivity.
  - rewrite Z.geb_leb. reflexivity.
Qed.

Lemma toy_cast_id r nf : toy_dtype r = Ok nf -> toy_cast nf r = Ok r.
Proof. reflexivity. Qed.
