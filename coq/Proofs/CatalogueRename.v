(* Proofs/CatalogueRename.v — DataFrame.rename after fix F-C15a: once the clash check has passed, the two
   passes of h5 moves cannot fail, and the frame ends up with the simultaneously substituted names in the
   old order, on both sides. *)
From Coq Require Import ZArith List Bool Lia Arith.
From EV Require Import Res Catalogue CatalogueSpec CatalogueBase CatalogueInv.
Import ListNotations.
Open Scope Z_scope.

(* ------------------------------------------------------------------ get_unique_name *)
Lemma unique_name_sound fuel : forall nm used u,
  unique_name fuel nm used = Ok u -> ~ In u used /\ (u = nm \/ In nm used).
Proof.
  induction fuel as [|k IH]; intros nm used u H; cbn [unique_name] in H; [discriminate|].
  destruct (nmem nm used) eqn:E.
  - destruct (IH _ _ _ H) as [A _]. split; [exact A | right; apply nmem_In; exact E].
  - inversion H; subst. split; [apply nmem_false; exact E | left; reflexivity].
Qed.

Definition longer (nm:name) (used:list name) : nat :=
  length (filter (fun x => (length nm <=? length x)%nat) used).

Lemma filter_length_le {A} (p q:A -> bool) (l:list A) :
  (forall x, q x = true -> p x = true) -> (length (filter q l) <= length (filter p l))%nat.
Proof.
  intros H. induction l as [|h t IH]; cbn [filter]; [lia|].
  destruct (q h) eqn:Q.
  - rewrite (H h Q). cbn [length]. lia.
  - destruct (p h); cbn [length]; lia.
Qed.

Lemma filter_length_lt {A} (p q:A -> bool) (l:list A) a :
  (forall x, q x = true -> p x = true) -> In a l -> p a = true -> q a = false ->
  (length (filter q l) < length (filter p l))%nat.
Proof.
  intros H. induction l as [|h t IH]; cbn [filter In]; [tauto|]. intros [->|I] Pa Qa.
  - rewrite Pa, Qa. cbn [length]. pose proof (filter_length_le p q t H). lia.
  - specialize (IH I Pa Qa). destruct (q h) eqn:Q.
    + rewrite (H h Q). cbn [length]. lia.
    + destruct (p h); cbn [length]; lia.
Qed.

Lemma unique_name_total fuel : forall nm used,
  (longer nm used < fuel)%nat -> exists u, unique_name fuel nm used = Ok u.
Proof.
  induction fuel as [|k IH]; intros nm used H; [lia|]. cbn [unique_name].
  destruct (nmem nm used) eqn:E; [|eauto].
  apply IH. apply nmem_In in E.
  assert (longer (nm ++ [95%Z]) used < longer nm used)%nat; [|lia].
  unfold longer. apply (filter_length_lt _ _ used nm).
  - intros x Hx. apply Nat.leb_le in Hx. apply Nat.leb_le. rewrite app_length in Hx. cbn in Hx. lia.
  - exact E.
  - apply Nat.leb_le. lia.
  - apply Nat.leb_gt. rewrite app_length. cbn. lia.
Qed.

Lemma longer_le nm used : (longer nm used <= length used)%nat.
Proof.
  unfold longer. induction used as [|h t IH]; cbn [filter length]; [lia|].
  destruct (length nm <=? length h)%nat; cbn [length]; lia.
Qed.

Lemma unique_name_ok nm used :
  exists u, unique_name (S (length used)) nm used = Ok u /\ ~ In u used /\ (u = nm \/ In nm used).
Proof.
  destruct (unique_name_total (S (length used)) nm used) as [u H].
  - pose proof (longer_le nm used). lia.
  - exists u. split; [exact H | eapply unique_name_sound; exact H].
Qed.

(* ------------------------------------------------------------------ the clash check *)
Lemma remove_keys_spec : forall ks keys rest,
  NoDup keys -> remove_keys keys ks = Ok rest ->
  NoDup ks /\ incl ks keys /\ NoDup rest /\ (forall k, In k rest <-> In k keys /\ ~ In k ks).
Proof.
  induction ks as [|k t IH]; intros keys rest ND H; cbn [remove_keys] in H.
  - inversion H; subst. split; [constructor|]. split; [intros ? []|]. split; [exact ND|]. intros k. cbn [In]. tauto.
  - destruct (nmem k keys) eqn:E; [|discriminate]. apply nmem_In in E.
    destruct (IH _ _ (nremove_NoDup k keys ND) H) as (A & B & C & D).
    split; [|split; [|split; [exact C|]]].
    + constructor; [|exact A]. intros I. apply B in I. apply nremove_In in I; [tauto|exact ND].
    + intros x [->|I]; [exact E|]. apply B in I. apply nremove_In in I; [tauto|exact ND].
    + intros x. split.
      * intros I. apply D in I. destruct I as [I NI]. apply nremove_In in I; [|exact ND].
        split; [tauto|]. cbn [In]. intros [->|X]; tauto.
      * intros [I NI]. apply D. split.
        -- apply nremove_In; [exact ND|]. split; [exact I|]. intros ->. apply NI. left; reflexivity.
        -- intros X. apply NI. right. exact X.
Qed.

Lemma clash_list_acc : forall vs keys acc, (length acc <= length (clash_list keys vs acc))%nat.
Proof.
  induction vs as [|v t IH]; intros keys acc; cbn [clash_list]; [lia|].
  destruct (nmem v keys).
  - destruct (nmem v acc); [apply IH|]. etransitivity; [|apply IH]. rewrite app_length. cbn. lia.
  - apply IH.
Qed.

Lemma clash_list_nil : forall vs keys,
  clash_list keys vs [] = [] -> NoDup vs /\ (forall v, In v vs -> ~ In v keys).
Proof.
  induction vs as [|v t IH]; intros keys H; cbn [clash_list] in H.
  - split; [constructor | intros ? []].
  - destruct (nmem v keys) eqn:E.
    + exfalso. cbn [nmem] in H. pose proof (clash_list_acc t keys ([] ++ [v])). rewrite H in H0. cbn in H0. lia.
    + apply nmem_false in E. destruct (IH _ H) as [A B]. split.
      * constructor; [|exact A]. intros I. apply (B v I). apply in_app_iff. right. left. reflexivity.
      * intros x [->|I]; [exact E|]. intros X. apply (B x I). apply in_app_iff. left. exact X.
Qed.

(* simultaneous substitution is injective on the columns when the check passes *)

Lemma find_values_inj (m:ndict) a b v :
  NoDup (map snd m) -> d_find m a = Some v -> d_find m b = Some v -> a = b.
Proof.
  induction m as [|[k w] t IH]; cbn [d_find map snd]; intros ND Ha Hb; [discriminate|].
  inversion ND as [|? ? NI ND']; subst.
  destruct (name_eqb a k) eqn:Ea; destruct (name_eqb b k) eqn:Eb.
  - apply name_eqb_spec in Ea, Eb. congruence.
  - inversion Ha; subst. exfalso. apply NI. apply d_find_In in Hb. apply (in_map snd) in Hb. exact Hb.
  - inversion Hb; subst. exfalso. apply NI. apply d_find_In in Ha. apply (in_map snd) in Ha. exact Ha.
  - eapply IH; eassumption.
Qed.

Lemma NoDup_map_inj {A B} (f:A -> B) (l:list A) :
  NoDup l -> (forall a b, In a l -> In b l -> f a = f b -> a = b) -> NoDup (map f l).
Proof.
  induction l as [|h t IH]; intros ND H; cbn [map]; [constructor|].
  inversion ND as [|? ? NI ND']; subst. constructor.
  - intros I. apply in_map_iff in I. destruct I as (x & E & I). assert (x = h) by (apply H; cbn; auto). subst. contradiction.
  - apply IH; [exact ND'|]. intros a b Ia Ib. apply H; cbn; auto.
Qed.

Lemma subst_NoDup (m:ndict) (keys:list name) rest :
  NoDup keys -> remove_keys keys (d_keys m) = Ok rest -> clash_list rest (map snd m) [] = [] ->
  NoDup (map (subst m) keys).
Proof.
  intros ND R C. destruct (remove_keys_spec _ _ _ ND R) as (A & B & _ & D).
  destruct (clash_list_nil _ _ C) as [V W].
  apply NoDup_map_inj; [exact ND|]. intros a b Ia Ib E. unfold subst in E.
  destruct (d_find m a) as [va|] eqn:Fa; destruct (d_find m b) as [vb|] eqn:Fb.
  - subst vb. eapply find_values_inj; eassumption.
  - subst va. exfalso. apply (W b).
    + apply d_find_In in Fa. apply (in_map snd) in Fa. exact Fa.
    + apply D. split; [exact Ib | apply d_find_None; exact Fb].
  - subst vb. exfalso. apply (W a).
    + apply d_find_In in Fb. apply (in_map snd) in Fb. exact Fb.
    + apply D. split; [exact Ia | apply d_find_None; exact Fa].
  - exact E.
Qed.

(* ------------------------------------------------------------------ states that differ in one group's links *)
Record same_but_grp (s s':state) (g:Z) : Prop := mk_sbg {
  sb_next : next_id s' = next_id s;
  sb_root : forall i, h5_root s' i = h5_root s i;
  sb_grp : forall x, x <> g -> h5_grp s' x = h5_grp s x;
  sb_type : forall f, fld_type s' f = fld_type s f;
  sb_data : forall f, fld_data s' f = fld_data s f;
  sb_dfs : forall i, py_dfs s' i = py_dfs s i;
  sb_name : forall x, py_name s' x = py_name s x;
  sb_ds : forall x, py_ds s' x = py_ds s x;
  sb_cols : forall x, py_cols s' x = py_cols s x;
  sb_valid : forall f, py_valid s' f = py_valid s f;
  sb_fdf : forall f, py_fdf s' f = py_fdf s f
}.

Lemma sbg_refl s g : same_but_grp s s g.
Proof. constructor; reflexivity. Qed.

Lemma sbg_trans s1 s2 s3 g : same_but_grp s1 s2 g -> same_but_grp s2 s3 g -> same_but_grp s1 s3 g.
Proof.
  intros [a1 a2 a3 a4 a5 a6 a7 a8 a9 a10 a11] [b1 b2 b3 b4 b5 b6 b7 b8 b9 b10 b11].
  constructor; intros.
  - congruence.
  - rewrite b2. apply a2.
  - rewrite b3 by assumption. apply a3. assumption.
  - rewrite b4. apply a4.
  - rewrite b5. apply a5.
  - rewrite b6. apply a6.
  - rewrite b7. apply a7.
  - rewrite b8. apply a8.
  - rewrite b9. apply a9.
  - rewrite b10. apply a10.
  - rewrite b11. apply a11.
Qed.

(* group.move(src, dst) with src present and dst absent *)
Lemma h5_move_ok s g src dst x :
  NoDup (d_keys (h5_grp s g)) -> d_find (h5_grp s g) src = Some x ->
  (src = dst \/ d_find (h5_grp s g) dst = None) ->
  exists s', h5_move (TGrp g) src dst s = (s', Ok tt) /\ same_but_grp s s' g /\
             NoDup (d_keys (h5_grp s' g)) /\
             (forall k, d_find (h5_grp s' g) k =
                        if name_eqb k dst then Some x else if name_eqb k src then None else d_find (h5_grp s g) k).
Proof.
  intros ND Hs Hd. unfold h5_move. destruct (name_eqb src dst) eqn:E.
  - apply name_eqb_spec in E. subst dst. exists s. split; [reflexivity|]. split; [apply sbg_refl|]. split; [exact ND|].
    intros k. destruct (name_eqb k src) eqn:Ek; [apply name_eqb_spec in Ek; subst; exact Hs | reflexivity].
  - apply name_eqb_neq in E. destruct Hd as [Hd|Hd]; [contradiction|].
    cbn [tget]. rewrite Hs. rewrite (proj2 (d_mem_false _ _) Hd).
    eexists. split; [reflexivity|]. split; [|split].
    + constructor; cbn; intros; rewrite ?fupd_other by assumption; reflexivity.
    + cbn. rewrite fupd_same. apply app1_NoDup; [apply d_del_NoDup; exact ND|].
      rewrite d_find_del by exact ND. destruct (name_eqb dst src); [reflexivity | exact Hd].
    + intros k. cbn. rewrite fupd_same, d_find_app1, d_find_del by exact ND.
      destruct (name_eqb k src) eqn:Ek.
      * apply name_eqb_spec in Ek. subst k. rewrite (proj2 (name_eqb_neq src dst) E). reflexivity.
      * destruct (d_find (h5_grp s g) k) eqn:F; [|reflexivity].
        destruct (name_eqb k dst) eqn:Ekd; [|reflexivity]. apply name_eqb_spec in Ekd. subst. congruence.
Qed.

(* ------------------------------------------------------------------ logical tables *)
(* replacing the key of one entry of a table with distinct keys *)
Lemma find_rekey (L1 L2:alist) src dst x k :
  NoDup (d_keys (L1 ++ (src, x) :: L2)) -> (src = dst \/ ~ In dst (d_keys (L1 ++ (src, x) :: L2))) ->
  d_find (L1 ++ (dst, x) :: L2) k =
    if name_eqb k dst then Some x else if name_eqb k src then None else d_find (L1 ++ (src, x) :: L2) k.
Proof.
  intros ND Hd. rewrite !d_find_app. cbn [d_find].
  rewrite d_keys_app in ND. cbn [d_keys map fst] in ND.
  assert (N1 : ~ In src (d_keys L1)).
  { intros I. apply NoDup_remove_2 in ND. apply ND. apply in_app_iff. left. exact I. }
  assert (N2 : ~ In src (d_keys L2)).
  { intros I. apply NoDup_remove_2 in ND. apply ND. apply in_app_iff. right. exact I. }
  assert (D1 : src = dst \/ (~ In dst (d_keys L1) /\ ~ In dst (d_keys L2) /\ dst <> src)).
  { destruct Hd as [->|Hd]; [left; reflexivity|right]. rewrite d_keys_app in Hd. cbn [d_keys map fst] in Hd.
    rewrite in_app_iff in Hd. cbn [In] in Hd. repeat split; intros X; apply Hd; auto. }
  destruct (name_eqb k dst) eqn:Ekd.
  - apply name_eqb_spec in Ekd. subst k. destruct D1 as [->|(A & B & C)].
    + rewrite (proj2 (d_find_None L1 dst) N1). reflexivity.
    + rewrite (proj2 (d_find_None L1 dst) A). reflexivity.
  - destruct (name_eqb k src) eqn:Eks.
    + apply name_eqb_spec in Eks. subst k. rewrite (proj2 (d_find_None L1 src) N1), (proj2 (d_find_None L2 src) N2). reflexivity.
    + reflexivity.
Qed.

(* ------------------------------------------------------------------ the plan of a rename *)
Definition entry := (name * name * Z)%type.          (* intermediate name, final name, field object *)
Definition e_mid (e:entry) : name := fst (fst e).
Definition e_fin (e:entry) : name := snd (fst e).
Definition e_fld (e:entry) : Z := snd e.
Definition mids (P:list entry) := map e_mid P.
Definition fins (P:list entry) := map e_fin P.
Definition tab (P:list entry) : alist := map (fun e => (e_mid e, e_fld e)) P.
Definition ftab (P:list entry) : alist := map (fun e => (e_fin e, e_fld e)) P.
Definition frprop (fr:ndict) (e:entry) : Prop :=
  d_find fr (e_mid e) = Some (e_fin e) \/ (d_find fr (e_mid e) = None /\ e_mid e = e_fin e).
Fixpoint later_ok (P:list entry) : Prop :=
  match P with
  | [] => True
  | e :: t => (forall e', In e' t -> e_mid e' <> e_fin e) /\ later_ok t
  end.

Lemma keys_cons {V} (k:name) (v:V) l : d_keys ((k, v) :: l) = k :: d_keys l.
Proof. reflexivity. Qed.
Lemma keys_tab P : d_keys (tab P) = mids P.
Proof. unfold d_keys, tab, mids. rewrite map_map. reflexivity. Qed.
Lemma keys_ftab P : d_keys (ftab P) = fins P.
Proof. unfold d_keys, ftab, fins. rewrite map_map. reflexivity. Qed.
Lemma tab_app P Q : tab (P ++ Q) = tab P ++ tab Q.
Proof. apply map_app. Qed.
Lemma ftab_app P Q : ftab (P ++ Q) = ftab P ++ ftab Q.
Proof. apply map_app. Qed.
Lemma mids_app P Q : mids (P ++ Q) = mids P ++ mids Q.
Proof. apply map_app. Qed.
Lemma fins_app P Q : fins (P ++ Q) = fins P ++ fins Q.
Proof. apply map_app. Qed.

Lemma later_ok_snoc P e :
  later_ok P -> (forall e0, In e0 P -> e_mid e <> e_fin e0) -> later_ok (P ++ [e]).
Proof.
  induction P as [|h t IH]; cbn [later_ok app]; intros L H.
  - split; [intros ? []|exact I].
  - destruct L as [L1 L2]. split.
    + intros e' I'. apply in_app_iff in I'. destruct I' as [I'|[<-|[]]]; [apply L1; exact I' | apply H; left; reflexivity].
    + apply IH; [exact L2|]. intros e0 I0. apply H. right. exact I0.
Qed.

Lemma d_keys_set_incl {V} (l:dict V) n v x : In x (d_keys (d_set l n v)) -> x = n \/ In x (d_keys l).
Proof.
  induction l as [|[k w] t IH]; cbn [d_set d_keys map fst In].
  - intros [<-|[]]. left; reflexivity.
  - destruct (name_eqb n k) eqn:E; cbn [map fst In].
    + intros [<-|I]; auto.
    + intros [<-|I]; [auto|]. destruct (IH I); auto.
Qed.

Lemma NoDup_rekey (A B:list name) k u : NoDup (A ++ k :: B) -> ~ In u (A ++ k :: B) -> NoDup (A ++ u :: B).
Proof.
  intros ND NI. pose proof (NoDup_remove_1 _ _ _ ND) as N1.
  apply NoDup_remove_2 in ND.
  assert (NU : ~ In u (A ++ B)).
  { intros I. apply NI. apply in_app_iff in I. apply in_app_iff. cbn [In]. tauto. }
  clear NI ND. revert N1 NU. induction A as [|a A IH]; cbn [app]; intros N1 NU.
  - constructor; assumption.
  - inversion N1 as [|? ? X Y]; subst. constructor.
    + rewrite in_app_iff in *. cbn [In] in *. intros [I|[->|I]]; [apply X; auto | apply NU; auto | apply X; auto].
    + apply IH; [exact Y|]. intros I. apply NU. right. exact I.
Qed.

(* ------------------------------------------------------------------ first pass *)
Lemma pass1_ok g m : forall todo s used fr P,
  NoDup (d_keys (h5_grp s g)) ->
  same_map (h5_grp s g) (tab P ++ todo) ->
  NoDup (mids P ++ d_keys todo) ->
  incl (mids P ++ d_keys todo) used -> incl (fins P) used ->
  incl (d_keys fr) (mids P) ->
  (forall e, In e P -> frprop fr e) ->
  later_ok P ->
  NoDup (fins P ++ map (subst m) (d_keys todo)) ->
  exists s' fr' Q,
    rename_pass1 true g m todo used fr (tab P) s = (s', Ok (fr', tab (P ++ Q))) /\
    same_but_grp s s' g /\ NoDup (d_keys (h5_grp s' g)) /\ same_map (h5_grp s' g) (tab (P ++ Q)) /\
    NoDup (mids (P ++ Q)) /\ fins Q = map (subst m) (d_keys todo) /\ map e_fld Q = map snd todo /\
    (forall e, In e (P ++ Q) -> frprop fr' e) /\ later_ok (P ++ Q).
Proof.
  induction todo as [|[k f] rest IH]; intros s used fr P NDH SM ND IU IF IK FR LO NF.
  - exists s, fr, []. cbn [rename_pass1 ret]. cbn [d_keys map fst] in *. rewrite ?app_nil_r in *.
    split; [reflexivity|]. split; [apply sbg_refl|]. repeat split; auto.
  - cbn [rename_pass1]. cbn [d_keys map fst] in ND, IU, NF.
    assert (KP : ~ In k (mids P)).
    { intros I. apply NoDup_remove_2 in ND. apply ND. apply in_app_iff. left. exact I. }
    assert (KU : In k used) by (apply IU; apply in_app_iff; right; left; reflexivity).
    assert (TK : d_find (tab P) k = None) by (apply d_find_None; rewrite keys_tab; exact KP).
    assert (HK : d_find (h5_grp s g) k = Some f).
    { rewrite (SM k), d_find_app, TK. cbn [d_find]. rewrite name_eqb_refl. reflexivity. }
    destruct (d_find m k) as [v|] eqn:Fm.
    + destruct (unique_name_ok v used) as (u & U0 & U1 & U2). unfold bindM at 1. unfold liftR. rewrite U0.
      assert (UK : u <> k) by (intros ->; contradiction).
      rewrite (proj2 (name_eqb_neq u k) UK).
      assert (UL : ~ In u (mids P ++ k :: d_keys rest)) by (intros I; apply U1; apply IU; exact I).
      assert (HU : d_find (h5_grp s g) u = None).
      { rewrite (SM u). apply d_find_None. rewrite d_keys_app, keys_tab. exact UL. }
      destruct (h5_move_ok s g k u f NDH HK (or_intror HU)) as (s1 & M1 & SB1 & ND1 & F1).
      unfold bindM at 1. rewrite M1.
      assert (UP : d_find (tab P) u = None).
      { apply d_find_None. rewrite keys_tab. intros I. apply UL. apply in_app_iff. left. exact I. }
      rewrite (d_set_new (tab P) u f UP).
      set (e := ((u, v), f) : entry).
      change (tab P ++ [(u, f)]) with (tab P ++ tab [e]). rewrite <- tab_app.
      destruct (IH s1 (used ++ [u]) (d_set fr u v) (P ++ [e])) as (s' & fr' & Q & R & SB & NDH' & SM' & NDM & FQ & FL & FR' & LO').
      * exact ND1.
      * intros x. rewrite (F1 x), tab_app. cbn [tab map e_mid e_fld e fst snd]. rewrite <- app_assoc. cbn [app].
        rewrite (find_rekey (tab P) rest k u f x).
        -- rewrite <- (SM x). reflexivity.
        -- rewrite d_keys_app, keys_tab. exact ND.
        -- right. rewrite d_keys_app, keys_tab. exact UL.
      * rewrite mids_app. cbn [mids map e_mid e fst]. rewrite <- app_assoc. cbn [app]. eapply NoDup_rekey; eassumption.
      * rewrite mids_app. cbn [mids map e_mid e fst]. rewrite <- app_assoc. cbn [app].
        intros x I. apply in_app_iff. apply in_app_iff in I. destruct I as [I|[<-|I]].
        -- left. apply IU. apply in_app_iff. left. exact I.
        -- right. left. reflexivity.
        -- left. apply IU. apply in_app_iff. right. right. exact I.
      * rewrite fins_app. cbn [fins map e_fin e fst snd]. intros x I. apply in_app_iff in I. apply in_app_iff.
        destruct I as [I|[<-|[]]]; [left; apply IF; exact I|]. destruct U2 as [->|U2]; [right; left; reflexivity | left; exact U2].
      * intros x I. apply d_keys_set_incl in I. rewrite mids_app. apply in_app_iff.
        destruct I as [->|I]; [right; left; reflexivity | left; apply IK; exact I].
      * intros e0 I0. apply in_app_iff in I0. destruct I0 as [I0|[<-|[]]].
        -- assert (e_mid e0 <> u).
           { intros X. apply U1. apply IU. apply in_app_iff. left. rewrite <- X. apply in_map. exact I0. }
           unfold frprop. rewrite d_find_set, (proj2 (name_eqb_neq _ _) H). apply FR. exact I0.
        -- left. cbn [e_mid e_fin e fst snd]. rewrite d_find_set, name_eqb_refl. reflexivity.
      * apply later_ok_snoc; [exact LO|]. intros e0 I0. cbn [e_mid e fst]. intros X. apply U1. apply IF. rewrite X.
        apply in_map. exact I0.
      * rewrite fins_app. cbn [fins map e_fin e fst snd]. rewrite <- app_assoc. cbn [app].
        unfold subst in NF at 1. rewrite Fm in NF. exact NF.
      * exists s', fr', (e :: Q). rewrite <- app_assoc in R, SM', NDM, FR', LO'. cbn [app] in R, SM', NDM, FR', LO'.
        split; [exact R|]. split; [eapply sbg_trans; eassumption|]. split; [exact NDH'|]. split; [exact SM'|].
        split; [exact NDM|]. split.
        { cbn [fins map e_fin e fst snd d_keys]. unfold subst at 1. rewrite Fm. f_equal. exact FQ. }
        split; [cbn [map e_fld e snd]; f_equal; exact FL|]. split; assumption.
    + rewrite (d_set_new (tab P) k f TK).
      set (e := ((k, k), f) : entry).
      change (tab P ++ [(k, f)]) with (tab P ++ tab [e]). rewrite <- tab_app.
      assert (SK : subst m k = k) by (unfold subst; rewrite Fm; reflexivity).
      destruct (IH s used fr (P ++ [e])) as (s' & fr' & Q & R & SB & NDH' & SM' & NDM & FQ & FL & FR' & LO').
      * exact NDH.
      * intros x. rewrite (SM x), tab_app. cbn [tab map e_mid e_fld e fst snd]. rewrite <- app_assoc. reflexivity.
      * rewrite mids_app. cbn [mids map e_mid e fst]. rewrite <- app_assoc. exact ND.
      * rewrite mids_app. cbn [mids map e_mid e fst]. rewrite <- app_assoc. exact IU.
      * rewrite fins_app. cbn [fins map e_fin e fst snd]. intros x I. apply in_app_iff in I.
        destruct I as [I|[<-|[]]]; [apply IF; exact I | exact KU].
      * intros x I. rewrite mids_app. apply in_app_iff. left. apply IK. exact I.
      * intros e0 I0. apply in_app_iff in I0. destruct I0 as [I0|[<-|[]]]; [apply FR; exact I0|].
        right. cbn [e_mid e_fin e fst snd]. split; [|reflexivity]. apply d_find_None. intros I. apply KP. apply IK. exact I.
      * apply later_ok_snoc; [exact LO|]. intros e0 I0. cbn [e_mid e fst]. intros X.
        rewrite SK in NF. apply NoDup_remove_2 in NF. apply NF. apply in_app_iff. left. rewrite X. apply in_map. exact I0.
      * rewrite fins_app. cbn [fins map e_fin e fst snd]. rewrite <- app_assoc. cbn [app]. rewrite SK in NF. exact NF.
      * exists s', fr', (e :: Q). rewrite <- app_assoc in R, SM', NDM, FR', LO'. cbn [app] in R, SM', NDM, FR', LO'.
        split; [exact R|]. split; [exact SB|]. split; [exact NDH'|]. split; [exact SM'|].
        split; [exact NDM|]. split.
        { cbn [fins map e_fin e fst snd d_keys]. rewrite SK. f_equal. exact FQ. }
        split; [cbn [map e_fld e snd]; f_equal; exact FL|]. split; assumption.
Qed.

(* ------------------------------------------------------------------ second pass *)
Lemma pass2_ok g fr : forall todo s D,
  NoDup (d_keys (h5_grp s g)) ->
  same_map (h5_grp s g) (ftab D ++ tab todo) ->
  NoDup (fins D ++ mids todo) -> NoDup (fins D ++ fins todo) ->
  later_ok todo -> (forall e, In e todo -> frprop fr e) ->
  exists s', rename_pass2 g fr (tab todo) (ftab D) s = (s', Ok (ftab (D ++ todo))) /\
             same_but_grp s s' g /\ NoDup (d_keys (h5_grp s' g)) /\ same_map (h5_grp s' g) (ftab (D ++ todo)).
Proof.
  induction todo as [|e rest IH]; intros s D NDH SM NM NF LO FR.
  - exists s. cbn [rename_pass2 tab map ret]. rewrite !app_nil_r in *. split; [reflexivity|]. split; [apply sbg_refl|]. split; assumption.
  - destruct e as [[w v] f]. change (tab (((w, v), f) :: rest)) with ((w, f) :: tab rest) in *. cbn [rename_pass2].
    cbn [mids fins map e_mid e_fin fst snd] in NM, NF. cbn [later_ok] in LO. destruct LO as [LO1 LO2].
    assert (WD : ~ In w (fins D)).
    { intros I. apply NoDup_remove_2 in NM. apply NM. apply in_app_iff. left. exact I. }
    assert (VD : ~ In v (fins D)).
    { intros I. apply NoDup_remove_2 in NF. apply NF. apply in_app_iff. left. exact I. }
    assert (VR : ~ In v (mids rest)).
    { intros I. apply in_map_iff in I. destruct I as (e' & E' & I'). apply (LO1 e' I'). exact E'. }
    assert (FD : d_find (ftab D) v = None) by (apply d_find_None; rewrite keys_ftab; exact VD).
    assert (HW : d_find (h5_grp s g) w = Some f).
    { rewrite (SM w), d_find_app. rewrite (proj2 (d_find_None (ftab D) w)) by (rewrite keys_ftab; exact WD).
      cbn [d_find]. rewrite name_eqb_refl. reflexivity. }
    assert (NEXT : forall s1, NoDup (d_keys (h5_grp s1 g)) -> same_but_grp s s1 g ->
                     same_map (h5_grp s1 g) (ftab (D ++ [((w, v), f)]) ++ tab rest) ->
                     exists s', rename_pass2 g fr (tab rest) (ftab D ++ [(v, f)]) s1 = (s', Ok (ftab (D ++ ((w, v), f) :: rest))) /\
                                same_but_grp s s' g /\ NoDup (d_keys (h5_grp s' g)) /\
                                same_map (h5_grp s' g) (ftab (D ++ ((w, v), f) :: rest))).
    { intros s1 ND1 SB1 SM1.
      destruct (IH s1 (D ++ [((w, v), f)])) as (s' & R & SB & NDH' & SM').
      - exact ND1.
      - exact SM1.
      - rewrite fins_app. cbn [fins map e_fin fst snd]. rewrite <- app_assoc. cbn [app].
        destruct (name_dec w v) as [<-|NE]; [exact NM|].
        eapply NoDup_rekey; [exact NM|]. intros I. apply in_app_iff in I. destruct I as [I|[I|I]]; contradiction.
      - rewrite fins_app. cbn [fins map e_fin fst snd]. rewrite <- app_assoc. exact NF.
      - exact LO2.
      - intros e0 I0. apply FR. right. exact I0.
      - exists s'. rewrite ftab_app in R. cbn [ftab map e_fin e_fld fst snd] in R. rewrite <- app_assoc in R, SM'. cbn [app] in R, SM'.
        split; [exact R|]. split; [eapply sbg_trans; eassumption|]. split; assumption. }
    destruct (FR ((w, v), f) (or_introl eq_refl)) as [Fw|[Fw Ewv]]; cbn [e_mid e_fin fst snd] in *.
    + rewrite Fw.
      assert (DST : w = v \/ d_find (h5_grp s g) v = None).
      { destruct (name_dec w v) as [->|NE]; [left; reflexivity|right].
        rewrite (SM v). apply d_find_None. rewrite d_keys_app, keys_ftab, keys_cons, keys_tab.
        intros I. apply in_app_iff in I. destruct I as [I|[I|I]]; [contradiction | congruence | contradiction]. }
      destruct (h5_move_ok s g w v f NDH HW DST) as (s1 & M1 & SB1 & ND1 & F1).
      unfold bindM at 1. rewrite M1. rewrite (d_set_new (ftab D) v f FD).
      apply (NEXT s1 ND1 SB1).
      intros x. rewrite (F1 x), ftab_app. cbn [ftab map e_fin e_fld fst snd]. rewrite <- app_assoc. cbn [app].
      rewrite (find_rekey (ftab D) (tab rest) w v f x).
      * rewrite <- (SM x). reflexivity.
      * rewrite d_keys_app, keys_ftab, keys_cons, keys_tab. exact NM.
      * destruct (name_dec w v) as [->|NE]; [left; reflexivity|right].
        rewrite d_keys_app, keys_ftab, keys_cons, keys_tab.
        intros I. apply in_app_iff in I. destruct I as [I|[I|I]]; [contradiction | congruence | contradiction].
    + rewrite Fw. subst v. rewrite (d_set_new (ftab D) w f FD).
      apply (NEXT s NDH (sbg_refl s g)).
      intros x. rewrite (SM x), ftab_app. cbn [ftab map e_fin e_fld fst snd]. rewrite <- app_assoc. reflexivity.
Qed.

(* ------------------------------------------------------------------ DataFrame.rename *)
Definition renamed (m:ndict) (cols:alist) : alist := map (fun kf => (subst m (fst kf), snd kf)) cols.

Lemma ftab_renamed m : forall Q cols,
  fins Q = map (subst m) (d_keys cols) -> map e_fld Q = map snd cols -> ftab Q = renamed m cols.
Proof.
  induction Q as [|[[w v] f] Q IH]; destruct cols as [|[k x] cols]; cbn; intros H1 H2; try discriminate; [reflexivity|].
  inversion H1; inversion H2; subst. f_equal. apply IH; assumption.
Qed.

Lemma remove_keys_res : forall ks keys, (exists r, remove_keys keys ks = Ok r) \/ remove_keys keys ks = Raise E_KeyError.
Proof.
  induction ks as [|k t IH]; intros keys; cbn [remove_keys]; [left; eauto|].
  destruct (nmem k keys); [apply IH | right; reflexivity].
Qed.

Lemma length0_nil {A} (l:list A) : (length l =? 0)%nat = true -> l = [].
Proof. destruct l; cbn; [reflexivity | discriminate]. Qed.

Theorem df_rename_run c g m s :
  fix_a c = true -> df_ok s g ->
  (exists e, df_rename c g m s = (s, Raise e)) \/
  (exists s1, same_but_grp s s1 g /\
     df_rename c g m s = (set_py_cols s1 (fupd (py_cols s1) g (renamed m (py_cols s g))), Ok tt) /\
     NoDup (d_keys (h5_grp s1 g)) /\ same_map (h5_grp s1 g) (renamed m (py_cols s g)) /\
     NoDup (map (subst m) (d_keys (py_cols s g)))).
Proof.
  intros FA [ND1 ND2 SM FL].
  assert (DR : df_rename c g m s =
     match remove_keys (d_keys (py_cols s g)) (d_keys m) with
     | Ok keys => if negb (length (clash_list keys (map snd m) []) =? 0)%nat then (s, Raise E_ValueError)
                  else bindM (rename_pass1 (fix_a c) g m (py_cols s g) (d_keys (py_cols s g)) [] [])
                         (fun p => bindM (rename_pass2 g (fst p) (snd p) [])
                                     (fun final => modify (fun s0 => set_py_cols s0 (fupd (py_cols s0) g final)))) s
     | OOB x => (s, OOB x) | Raise e => (s, Raise e) | OutOfFuel => (s, OutOfFuel)
     end).
  { unfold df_rename. unfold bindM at 1. unfold mget at 1. cbv zeta. unfold bindM at 1. unfold liftR at 1.
    destruct (remove_keys (d_keys (py_cols s g)) (d_keys m)); try reflexivity.
    destruct (negb (length (clash_list a (map snd m) []) =? 0)%nat); reflexivity. }
  rewrite DR. clear DR.
  destruct (remove_keys_res (d_keys m) (d_keys (py_cols s g))) as [[rest R]|R]; rewrite R; [|left; eauto].
  destruct (length (clash_list rest (map snd m) []) =? 0)%nat eqn:C; cbn [negb]; [|left; eexists; reflexivity].
  apply length0_nil in C.
  pose proof (subst_NoDup m _ rest ND1 R C) as NS.
  rewrite FA.
  destruct (pass1_ok g m (py_cols s g) s (d_keys (py_cols s g)) [] []) as (s1 & fr' & Q & R1 & SB1 & NDH1 & SM1 & NDM & FQ & FL1 & FR1 & LO1).
  - exact ND2.
  - intros k. cbn [tab map app]. symmetry. apply SM.
  - exact ND1.
  - cbn. apply incl_refl.
  - intros ? [].
  - intros ? [].
  - intros ? [].
  - exact I.
  - exact NS.
  - cbn [app] in R1, SM1, NDM, FR1, LO1.
    destruct (pass2_ok g fr' Q s1 []) as (s2 & R2 & SB2 & NDH2 & SM2).
    + exact NDH1.
    + exact SM1.
    + exact NDM.
    + cbn [fins map app]. change (map e_fin Q) with (fins Q). rewrite FQ. exact NS.
    + exact LO1.
    + exact FR1.
    + right. exists s2. cbn [app] in R2, SM2. rewrite (ftab_renamed m Q (py_cols s g) FQ FL1) in R2, SM2.
      split; [eapply sbg_trans; eassumption|]. split.
      * unfold bindM at 1.
        change (rename_pass1 true g m (py_cols s g) (d_keys (py_cols s g)) [] [] s)
          with (rename_pass1 true g m (py_cols s g) (d_keys (py_cols s g)) [] (tab []) s).
        rewrite R1. cbn [fst snd]. unfold bindM at 1.
        change (rename_pass2 g fr' (tab Q) [] s1) with (rename_pass2 g fr' (tab Q) (ftab []) s1).
        rewrite R2. reflexivity.
      * split; [exact NDH2|]. split; [exact SM2 | exact NS].
Qed.

Lemma renamed_find m cols k' f :
  NoDup (d_keys cols) -> d_find (renamed m cols) k' = Some f ->
  exists k, k' = subst m k /\ d_find cols k = Some f.
Proof.
  intros ND H. apply d_find_In in H. unfold renamed in H. apply in_map_iff in H.
  destruct H as ([k x] & E & I). cbn [fst snd] in E. inversion E; subst.
  exists k. split; [reflexivity | apply In_d_find; assumption].
Qed.

Lemma renamed_keys m cols : d_keys (renamed m cols) = map (subst m) (d_keys cols).
Proof. unfold d_keys, renamed. rewrite !map_map. reflexivity. Qed.

(* outcome of a rename on a linked frame of a consistent state *)
Theorem df_rename_outcome c g m s s' r :
  fix_a c = true -> Inv s -> linked s g -> df_rename c g m s = (s', r) ->
  Inv s' /\
  (is_ok r = false -> s' = s) /\
  (is_ok r = true ->
     py_cols s' g = renamed m (py_cols s g) /\ same_map (py_cols s' g) (h5_grp s' g) /\
     (forall x, x <> g -> py_cols s' x = py_cols s x /\ h5_grp s' x = h5_grp s x) /\
     (forall i, py_dfs s' i = py_dfs s i) /\ (forall i, h5_root s' i = h5_root s i) /\
     (forall x, py_name s' x = py_name s x) /\ (forall f, py_valid s' f = py_valid s f) /\
     (forall f, fld_type s' f = fld_type s f) /\ (forall f, fld_data s' f = fld_data s f)).
Proof.
  intros FA I L E. pose proof (ib_df _ (proj2 I) g L) as DG.
  destruct (df_rename_run c g m s FA DG) as [[e R]|(s1 & SB & R & NDH & SM & NS)]; rewrite R in E; inversion E; subst.
  - split; [exact I|]. split; [reflexivity | cbn; discriminate].
  - destruct SB as [b1 b2 b3 b4 b5 b6 b7 b8 b9 b10 b11].
    split; [|split; [cbn; discriminate|]].
    + destruct I as [IA IB]. split.
      * eapply InvA_ext; [| | | |exact IA]; cbn; auto.
      * eapply (recol_InvB s _ g IB L); cbn [next_id h5_root h5_grp py_cols py_valid py_fdf set_py_cols].
        -- exact b1.
        -- exact b2.
        -- intros x NE. rewrite fupd_other by exact NE. split; [apply b3; exact NE | apply b9].
        -- exact b10.
        -- exact b11.
        -- rewrite fupd_same, renamed_keys. exact NS.
        -- exact NDH.
        -- rewrite fupd_same. intros k. symmetry. apply SM.
        -- rewrite fupd_same. intros k' f H. destruct (renamed_find _ _ _ _ (dk_nd_py _ _ DG) H) as (k & _ & F). eauto.
        -- rewrite fupd_same. intros a b f Ha Hb.
           destruct (renamed_find _ _ _ _ (dk_nd_py _ _ DG) Ha) as (k1 & -> & F1).
           destruct (renamed_find _ _ _ _ (dk_nd_py _ _ DG) Hb) as (k2 & -> & F2).
           destruct (ib_uniq _ IB g g k1 k2 f L L F1 F2) as [_ ->]. reflexivity.
    + intros _. cbn. rewrite fupd_same. split; [reflexivity|]. split; [intros k; symmetry; apply SM|].
      split; [intros x NE; rewrite fupd_other by exact NE; split; [apply b9 | apply b3; exact NE]|].
      repeat split; auto.
Qed.
