(* Proofs/JournalBase.v — generic lemmas used by the C17 proofs: monadic folds, for_range,
   integer ranges, filter/find over ranges, uniqueness of strictly sorted lists, all_keys. *)
From Coq Require Import ZArith List Lia Bool Sorted.
From EV Require Import Res Arr Journal JournalSpec.
Import ListNotations.
Open Scope Z_scope.

(* ---- monadic fold and for_range ---------------------------------------------------- *)
Fixpoint fold_res {St A:Type} (f:St -> A -> res St) (st:St) (l:list A) : res St :=
  match l with
  | [] => Ok st
  | x :: t => do st' <- f st x; fold_res f st' t
  end.

Lemma fold_res_app {St A:Type} (f:St -> A -> res St) l1 l2 st :
  fold_res f st (l1 ++ l2) = (do st' <- fold_res f st l1; fold_res f st' l2).
Proof.
  revert st; induction l1 as [|x l1 IH]; intros st; cbn [fold_res app bind]; [reflexivity|].
  destruct (f st x); cbn [bind]; auto.
Qed.

Lemma for_range_fold {St A:Type} (d:A) (l:list A) :
  forall (i0:Z) (body:Z -> St -> res St) (bodyL:St -> A -> res St) st,
  (forall t st', (t < length l)%nat -> body (i0 + Z.of_nat t) st' = bodyL st' (nth t l d)) ->
  for_range (length l) i0 body st = fold_res bodyL st l.
Proof.
  induction l as [|x l IH]; intros i0 body bodyL st H; cbn [length for_range fold_res]; [reflexivity|].
  pose proof (H 0%nat st ltac:(cbn [length]; lia)) as H0. cbn [nth] in H0.
  replace (i0 + Z.of_nat 0) with i0 in H0 by lia. rewrite <- H0.
  destruct (body i0 st) as [st1| | |]; cbn [bind]; try reflexivity.
  apply IH. intros t st2 Ht. specialize (H (S t) st2). cbn [nth] in H.
  rewrite <- H by (cbn [length]; lia). f_equal. lia.
Qed.

(* a body that rewrites only element i of an array, as a function of i and the old element *)
Lemma for_range_pointwise {A:Type} (d:A) (g:Z -> A -> A) (body:Z -> list A -> res (list A)) (n:Z) :
  (forall i tk, 0 <= i < n -> len tk = n -> body i tk = Ok (upd tk i (g i (nthd d tk i)))) ->
  forall (k:nat) (i:Z) (tk:list A), 0 <= i -> i + Z.of_nat k = n -> len tk = n ->
  exists tk', for_range k i body tk = Ok tk' /\ len tk' = n /\
    forall p, 0 <= p < n -> nthd d tk' p = if i <=? p then g p (nthd d tk p) else nthd d tk p.
Proof.
  intros Hb k. induction k as [|k IH]; intros i tk Hi Hk Hl.
  - exists tk. cbn [for_range]. repeat split; auto. intros p Hp. destruct (i <=? p) eqn:E; [lia|reflexivity].
  - cbn [for_range]. rewrite Hb by lia. cbn [bind].
    destruct (IH (i + 1) (upd tk i (g i (nthd d tk i)))) as (tk' & Hr & Hl' & Hp'); try lia.
    { rewrite len_upd. exact Hl. }
    exists tk'. repeat split; auto. intros p Hp. rewrite (Hp' p Hp).
    destruct (i + 1 <=? p) eqn:E1; destruct (i <=? p) eqn:E2; try lia.
    + rewrite nthd_upd_other by lia. reflexivity.
    + assert (p = i) by lia. subst p. rewrite nthd_upd_same by lia. reflexivity.
    + rewrite nthd_upd_other by lia. reflexivity.
Qed.

(* ---- integer ranges ------------------------------------------------------------------ *)
Definition zrange (a b:Z) : list Z := upto_from a (Z.to_nat (b - a)).

Lemma upto_from_length s n : length (upto_from s n) = n.
Proof. revert s; induction n as [|n IH]; intros s; cbn [upto_from length]; [reflexivity|]. rewrite IH; reflexivity. Qed.

Lemma In_upto_from x s n : In x (upto_from s n) <-> s <= x < s + Z.of_nat n.
Proof.
  revert s; induction n as [|n IH]; intros s; cbn [upto_from In].
  - split; [tauto|lia].
  - rewrite IH. lia.
Qed.

Lemma upto_from_app s n m : upto_from s (n + m) = upto_from s n ++ upto_from (s + Z.of_nat n) m.
Proof.
  revert s; induction n as [|n IH]; intros s; cbn [upto_from app Nat.add].
  - f_equal. lia.
  - f_equal. rewrite IH. f_equal. f_equal. lia.
Qed.

Lemma nth_upto_from s n t : (t < n)%nat -> nth t (upto_from s n) 0 = s + Z.of_nat t.
Proof.
  revert s t; induction n as [|n IH]; intros s t Ht; [lia|].
  destruct t; cbn [upto_from nth]; [lia|]. rewrite IH by lia. lia.
Qed.

Lemma upto_zrange n : upto n = zrange 0 (Z.of_nat n).
Proof. unfold upto, zrange. f_equal. lia. Qed.

Lemma zrange_nil a b : b <= a -> zrange a b = [].
Proof. intros H. unfold zrange. replace (Z.to_nat (b - a)) with 0%nat by lia. reflexivity. Qed.

Lemma zrange_cons a b : a < b -> zrange a b = a :: zrange (a + 1) b.
Proof.
  intros H. unfold zrange. replace (Z.to_nat (b - a)) with (S (Z.to_nat (b - (a + 1)))) by lia. reflexivity.
Qed.

Lemma zrange_split a b c : a <= b -> b <= c -> zrange a c = zrange a b ++ zrange b c.
Proof.
  intros H1 H2. unfold zrange. replace (Z.to_nat (c - a)) with (Z.to_nat (b - a) + Z.to_nat (c - b))%nat by lia.
  rewrite upto_from_app. f_equal. f_equal. lia.
Qed.

Lemma zrange_snoc a b : a <= b -> zrange a (b + 1) = zrange a b ++ [b].
Proof.
  intros H. rewrite (zrange_split a b (b + 1)) by lia. f_equal. rewrite zrange_cons by lia. rewrite zrange_nil by lia. reflexivity.
Qed.

Lemma In_zrange x a b : In x (zrange a b) <-> a <= x < b.
Proof. unfold zrange. rewrite In_upto_from. lia. Qed.

Lemma zrange_length a b : len (zrange a b) = Z.max 0 (b - a).
Proof. unfold zrange, len. rewrite upto_from_length. lia. Qed.

Lemma last_snoc {A:Type} (l:list A) x d : last (l ++ [x]) d = x.
Proof. induction l as [|y l IH]; [reflexivity|]. cbn [app]. destruct (l ++ [x]) eqn:E; [destruct l; discriminate|]. cbn [last]. exact IH. Qed.

Lemma last_zrange a e : a <= e -> last (zrange a (e + 1)) 0 = e.
Proof. intros H. rewrite zrange_snoc by lia. apply last_snoc. Qed.

Lemma zrange_nonempty a e : a <= e -> zrange a (e + 1) <> [].
Proof. intros H. rewrite zrange_cons by lia. discriminate. Qed.

(* ---- filter / find over ranges -------------------------------------------------------- *)
Lemma filter_all {A:Type} (f:A -> bool) l : (forall x, In x l -> f x = true) -> filter f l = l.
Proof.
  induction l as [|x l IH]; intros H; cbn [filter]; [reflexivity|].
  rewrite (H x) by (left; reflexivity). f_equal. apply IH. intros y Hy. apply H. right; exact Hy.
Qed.

Lemma filter_none {A:Type} (f:A -> bool) l : (forall x, In x l -> f x = false) -> filter f l = [].
Proof.
  induction l as [|x l IH]; intros H; cbn [filter]; [reflexivity|].
  rewrite (H x) by (left; reflexivity). apply IH. intros y Hy. apply H. right; exact Hy.
Qed.

Lemma filter_upto_range (f:Z -> bool) (n:nat) a b :
  0 <= a -> a <= b -> b <= Z.of_nat n ->
  (forall p, 0 <= p < Z.of_nat n -> f p = true <-> a <= p < b) ->
  filter f (upto n) = zrange a b.
Proof.
  intros Ha Hab Hb H. rewrite upto_zrange.
  rewrite (zrange_split 0 a (Z.of_nat n)) by lia. rewrite (zrange_split a b (Z.of_nat n)) by lia.
  rewrite !filter_app. rewrite (filter_none f (zrange 0 a)), (filter_all f (zrange a b)), (filter_none f (zrange b _)).
  - rewrite app_nil_r. reflexivity.
  - intros x Hx. apply In_zrange in Hx. destruct (f x) eqn:E; [|reflexivity]. apply H in E; lia.
  - intros x Hx. apply In_zrange in Hx. apply H; lia.
  - intros x Hx. apply In_zrange in Hx. destruct (f x) eqn:E; [|reflexivity]. apply H in E; lia.
Qed.

Lemma filter_upto_none (f:Z -> bool) (n:nat) :
  (forall p, 0 <= p < Z.of_nat n -> f p = false) -> filter f (upto n) = [].
Proof. intros H. apply filter_none. intros x Hx. rewrite upto_zrange in Hx. apply In_zrange in Hx. apply H. lia. Qed.

Lemma find_none_all {A:Type} (f:A -> bool) l : (forall x, In x l -> f x = false) -> find f l = None.
Proof.
  induction l as [|x l IH]; intros H; cbn [find]; [reflexivity|].
  rewrite (H x) by (left; reflexivity). apply IH. intros y Hy. apply H. right; exact Hy.
Qed.

Lemma find_first {A:Type} (f:A -> bool) l1 x l2 :
  (forall y, In y l1 -> f y = false) -> f x = true -> find f (l1 ++ x :: l2) = Some x.
Proof.
  induction l1 as [|y l1 IH]; intros H Hx; cbn [find app].
  - rewrite Hx. reflexivity.
  - rewrite (H y) by (left; reflexivity). apply IH; auto. intros z Hz. apply H. right; exact Hz.
Qed.

Lemma find_upto_first (f:Z -> bool) (n:nat) q :
  0 <= q < Z.of_nat n -> f q = true -> (forall p, 0 <= p < q -> f p = false) -> find f (upto n) = Some q.
Proof.
  intros Hq Hf H. rewrite upto_zrange. rewrite (zrange_split 0 q (Z.of_nat n)) by lia.
  rewrite (zrange_cons q) by lia. apply find_first; auto. intros y Hy. apply In_zrange in Hy. apply H. lia.
Qed.

Lemma find_upto_none (f:Z -> bool) (n:nat) :
  (forall p, 0 <= p < Z.of_nat n -> f p = false) -> find f (upto n) = None.
Proof. intros H. apply find_none_all. intros x Hx. rewrite upto_zrange in Hx. apply In_zrange in Hx. apply H. lia. Qed.

(* ---- strictly sorted lists are determined by their elements --------------------------- *)
Lemma ssorted_list_unique (l1 l2:list Z) :
  StronglySorted Z.lt l1 -> StronglySorted Z.lt l2 -> (forall x, In x l1 <-> In x l2) -> l1 = l2.
Proof.
  revert l2. induction l1 as [|a l1 IH]; intros l2 H1 H2 Hin.
  - destruct l2 as [|b l2]; [reflexivity|]. exfalso. apply (proj2 (Hin b)). left; reflexivity.
  - destruct l2 as [|b l2]; [exfalso; apply (proj1 (Hin a)); left; reflexivity|].
    apply StronglySorted_inv in H1. destruct H1 as [H1 Ha]. apply StronglySorted_inv in H2. destruct H2 as [H2 Hb].
    rewrite Forall_forall in Ha, Hb.
    assert (a = b) as ->.
    { destruct (proj1 (Hin a) (or_introl eq_refl)) as [E|E]; [congruence|].
      destruct (proj2 (Hin b) (or_introl eq_refl)) as [E'|E']; [congruence|].
      specialize (Ha _ E'). specialize (Hb _ E). lia. }
    f_equal. apply IH; auto. intros x. split; intros Hx.
    + destruct (proj1 (Hin x) (or_intror Hx)) as [E|E]; [|exact E]. specialize (Ha _ Hx). lia.
    + destruct (proj2 (Hin x) (or_intror Hx)) as [E|E]; [|exact E]. specialize (Hb _ Hx). lia.
Qed.

Lemma ins_key_In x y l : In y (ins_key x l) <-> y = x \/ In y l.
Proof.
  induction l as [|z l IH]; cbn [ins_key In]; [intuition|].
  destruct (x <? z) eqn:E1; [cbn [In]; intuition|].
  destruct (x =? z) eqn:E2; cbn [In].
  - apply Z.eqb_eq in E2. subst. intuition.
  - rewrite IH. intuition.
Qed.

Lemma ins_key_sorted x l : StronglySorted Z.lt l -> StronglySorted Z.lt (ins_key x l).
Proof.
  induction l as [|z l IH]; intros H; cbn [ins_key].
  - constructor; constructor.
  - apply StronglySorted_inv in H. destruct H as [H Hz].
    destruct (x <? z) eqn:E1.
    + constructor; [constructor; auto|]. constructor; [lia|]. rewrite Forall_forall in *. intros y Hy. specialize (Hz _ Hy). lia.
    + destruct (x =? z) eqn:E2; [constructor; auto|].
      constructor; [apply IH; exact H|]. rewrite Forall_forall in *. intros y Hy.
      apply ins_key_In in Hy. destruct Hy as [->|Hy]; [lia|]. apply Hz; exact Hy.
Qed.

Lemma all_keys_sorted l1 l2 : StronglySorted Z.lt (all_keys l1 l2).
Proof. unfold all_keys. induction (l1 ++ l2) as [|x l IH]; cbn [fold_right]; [constructor|]. apply ins_key_sorted; exact IH. Qed.

Lemma all_keys_In x l1 l2 : In x (all_keys l1 l2) <-> In x l1 \/ In x l2.
Proof.
  unfold all_keys. rewrite <- in_app_iff. induction (l1 ++ l2) as [|y l IH]; cbn [fold_right In]; [tauto|].
  rewrite ins_key_In, IH. intuition.
Qed.

Lemma all_keys_unique l1 l2 ks :
  StronglySorted Z.lt ks -> (forall x, In x ks <-> In x l1 \/ In x l2) -> all_keys l1 l2 = ks.
Proof.
  intros Hs Hin. apply ssorted_list_unique; [apply all_keys_sorted|exact Hs|].
  intros x. rewrite all_keys_In, Hin. tauto.
Qed.

(* membership by position *)
Lemma In_nthZ (l:list Z) x : In x l <-> exists p, 0 <= p < len l /\ nthZ l p = x.
Proof.
  split.
  - intros H. apply (In_nth l x 0) in H. destruct H as (n & Hn & E). exists (Z.of_nat n).
    unfold len, nthZ, nthd. rewrite Nat2Z.id. split; [lia|exact E].
  - intros (p & Hp & E). subst x. unfold nthZ, nthd, len in *. apply nth_In. lia.
Qed.

Lemma len_upto n : len (upto n) = Z.of_nat n.
Proof. unfold len, upto. rewrite upto_from_length. reflexivity. Qed.

Lemma len_repeat {A:Type} (x:A) n : len (repeat x n) = Z.of_nat n.
Proof. unfold len. rewrite repeat_length. reflexivity. Qed.

Lemma nthd_repeat {A:Type} (d x:A) n p : 0 <= p < Z.of_nat n -> nthd d (repeat x n) p = x.
Proof.
  intros H. unfold nthd. assert (Hn : (Z.to_nat p < n)%nat) by lia. revert Hn. generalize (Z.to_nat p) as m. clear H.
  induction n as [|n IH]; intros m Hm; [lia|]. destruct m; cbn [repeat nth]; [reflexivity|]. apply IH. lia.
Qed.
