(* Proofs/CsvImportProofs.v — import_with_schema over several tables (Model/CsvImport.v) *)
From Coq Require Import ZArith List Lia Bool.
From EV Require Import Res Arr Csv CsvDriver CsvImport.
Import ListNotations.
Open Scope Z_scope.

Lemma list_eqb_false a b : list_eqb a b = false <-> a <> b.
Proof.
  split.
  - intros H E. apply list_eqb_eq in E. congruence.
  - intros H. destruct (list_eqb a b) eqn:E; [|reflexivity]. apply list_eqb_eq in E. contradiction.
Qed.

(* dict.get on a dictionary (distinct keys) returns the value stored under the key, None iff the key is absent *)
Lemma dict_get_some {A} (d:list (list Z * A)) k v :
  NoDup (map fst d) -> (dict_get k d = Some v <-> In (k, v) d).
Proof.
  induction d as [|(k', v') d IH]; intros Hnd; cbn [dict_get].
  - split; [discriminate|intros []].
  - inversion Hnd as [|x l Hnin Hnd' E]; subst. cbn [map fst] in Hnin.
    destruct (list_eqb k' k) eqn:E.
    + apply list_eqb_eq in E. subst k'. split.
      * intros H. inversion H; subst. left. reflexivity.
      * intros [H|H]; [inversion H; reflexivity|]. exfalso. apply Hnin. apply (in_map fst) in H. exact H.
    + apply list_eqb_false in E. rewrite (IH Hnd'). split.
      * intros H. right. exact H.
      * intros [H|H]; [inversion H; subst; contradiction|exact H].
Qed.

Lemma dict_get_none {A} (d:list (list Z * A)) k :
  dict_get k d = None <-> ~ In k (map fst d).
Proof.
  induction d as [|(k', v') d IH]; cbn [dict_get map fst].
  - split; [intros _ []|reflexivity].
  - destruct (list_eqb k' k) eqn:E.
    + apply list_eqb_eq in E. subst. split; [discriminate|]. intros H. exfalso. apply H. left. reflexivity.
    + apply list_eqb_false in E. rewrite IH. split.
      * intros H [H1|H1]; [contradiction|apply H; exact H1].
      * intros H H1. apply H. right. exact H1.
Qed.

Lemma names_subset_spec a b : names_subset a b = true <-> (forall k, In k a -> In k b).
Proof.
  unfold names_subset. rewrite forallb_forall. split; intros H k Hk.
  - apply mem_name_In. apply H. exact Hk.
  - apply mem_name_In. apply H. exact Hk.
Qed.

Lemma map_res_Forall2 {A B} (f:A -> res B) l out :
  map_res f l = Ok out -> Forall2 (fun x y => f x = Ok y) l out.
Proof.
  revert out. induction l as [|x l IH]; intros out H; cbn [map_res] in H.
  - inversion H. constructor.
  - apply bind_ok in H. destruct H as (y & Hy & H). apply bind_ok in H. destruct H as (t' & Ht & H).
    inversion H; subst. constructor; [exact Hy|apply IH; exact Ht].
Qed.

Lemma map_res_ext {A B} (f g:A -> res B) l :
  (forall x, In x l -> f x = g x) -> map_res f l = map_res g l.
Proof.
  induction l as [|x l IH]; intros H; cbn [map_res]; [reflexivity|].
  rewrite (H x (or_introl eq_refl)). rewrite IH; [reflexivity|]. intros y Hy. apply H. right. exact Hy.
Qed.

(* what a successful per-table step did *)
Lemma import_table_ok fuel keys inc exc crs t sel d :
  import_table fuel keys inc exc crs t = Ok (sel, d) ->
  sel = fields_to_use (t_names t) (table_fields inc (t_name t)) (table_fields exc (t_name t)) /\
  read_csv fuel (t_file t) (t_names t) (t_sizes t) (table_fields inc (t_name t)) (table_fields exc (t_name t)) crs = Ok d.
Proof.
  unfold import_table, read_csv_checked.
  destruct (negb (mem_name (t_name t) keys)); [discriminate|].
  destruct (existsb reserved (t_schema t)); [discriminate|].
  destruct (match table_fields inc (t_name t) with Some l => negb (names_subset l (t_names t)) | None => false end); [discriminate|].
  destruct (match table_fields exc (t_name t) with Some l => negb (names_subset l (t_names t)) | None => false end); [discriminate|].
  intros H. apply bind_ok in H. destruct H as (d' & Hd & H). inversion H; subst. split; [reflexivity|exact Hd].
Qed.

Lemma import_with_schema_tables fuel keys files inc exc crs out :
  import_with_schema fuel keys files inc exc crs = Ok out ->
  Forall2 (fun t (r:list (list Z) * dst) =>
             fst r = fields_to_use (t_names t) (table_fields inc (t_name t)) (table_fields exc (t_name t)) /\
             read_csv fuel (t_file t) (t_names t) (t_sizes t)
                      (table_fields inc (t_name t)) (table_fields exc (t_name t)) crs = Ok (snd r)) files out.
Proof.
  unfold import_with_schema.
  destruct (negb (existsb (fun sk => mem_name sk (map t_name files)) keys)); [discriminate|].
  destruct (negb (names_subset (dict_keys inc) (map t_name files))); [discriminate|].
  destruct (negb (names_subset (dict_keys exc) (map t_name files))); [discriminate|].
  intros H. apply map_res_Forall2 in H.
  induction H as [|t (sel, d) l l' H1 H2 IH]; constructor; [|exact IH].
  cbn [fst snd]. apply import_table_ok in H1. exact H1.
Qed.

(* the selection of one table, at list level *)
Lemma table_selection_spec names inc exc sk k :
  In k (fields_to_use names (table_fields inc sk) (table_fields exc sk)) <->
  In k names /\ (forall l, table_fields inc sk = Some l -> In k l) /\ (forall l, table_fields exc sk = Some l -> ~ In k l).
Proof. apply fields_to_use_spec. Qed.

Lemma table_fields_named d sk l :
  NoDup (map fst d) -> (table_fields (Some d) sk = Some l <-> In (sk, l) d).
Proof. intros H. cbn [table_fields]. apply dict_get_some. exact H. Qed.

Lemma table_fields_unnamed d sk :
  table_fields d sk = None <-> (forall dd, d = Some dd -> ~ In sk (map fst dd)).
Proof.
  destruct d as [dd|]; cbn [table_fields].
  - rewrite dict_get_none. split; [intros H x E; inversion E; subst; exact H|intros H; apply H; reflexivity].
  - split; [intros _ dd E; discriminate|reflexivity].
Qed.

Lemma fields_to_use_none names : fields_to_use names None None = names.
Proof. reflexivity. Qed.

(* no error branch is taken on a well-formed call *)
Lemma import_with_schema_ok fuel keys files inc exc crs :
  files <> [] ->
  (forall t, In t files -> In (t_name t) keys) ->
  (forall t k, In t files -> In k (t_schema t) -> k <> J_VALID_FROM /\ k <> J_VALID_TO) ->
  (forall sk, In sk (dict_keys inc) -> In sk (map t_name files)) ->
  (forall sk, In sk (dict_keys exc) -> In sk (map t_name files)) ->
  (forall t l k, In t files -> table_fields inc (t_name t) = Some l -> In k l -> In k (t_names t)) ->
  (forall t l k, In t files -> table_fields exc (t_name t) = Some l -> In k l -> In k (t_names t)) ->
  import_with_schema fuel keys files inc exc crs =
  map_res (fun t => do d <- read_csv fuel (t_file t) (t_names t) (t_sizes t)
                                     (table_fields inc (t_name t)) (table_fields exc (t_name t)) crs;
                    Ok (fields_to_use (t_names t) (table_fields inc (t_name t)) (table_fields exc (t_name t)), d)) files.
Proof.
  intros Hne Hkeys Hres Hinc Hexc Hfi Hfe. unfold import_with_schema.
  assert (E1: existsb (fun sk => mem_name sk (map t_name files)) keys = true).
  { destruct files as [|t0 files']; [contradiction|]. apply existsb_exists. exists (t_name t0). split.
    - apply Hkeys. left. reflexivity.
    - apply mem_name_In. left. reflexivity. }
  rewrite E1. cbn [negb].
  rewrite (proj2 (names_subset_spec _ _) Hinc). rewrite (proj2 (names_subset_spec _ _) Hexc). cbn [negb].
  apply map_res_ext. intros t Ht. unfold import_table, read_csv_checked.
  rewrite (proj2 (mem_name_In _ _) (Hkeys t Ht)). cbn [negb].
  assert (E2: existsb reserved (t_schema t) = false).
  { destruct (existsb reserved (t_schema t)) eqn:E; [|reflexivity]. apply existsb_exists in E.
    destruct E as (k & Hk & E). unfold reserved in E. apply mem_name_In in E. destruct (Hres t k Ht Hk) as (N1 & N2).
    destruct E as [E|[E|[]]]; congruence. }
  rewrite E2.
  assert (E3: match table_fields inc (t_name t) with Some l => negb (names_subset l (t_names t)) | None => false end = false).
  { destruct (table_fields inc (t_name t)) as [l|] eqn:E; [|reflexivity].
    rewrite (proj2 (names_subset_spec l (t_names t))); [reflexivity|]. intros k Hk. apply (Hfi t l k Ht E Hk). }
  assert (E4: match table_fields exc (t_name t) with Some l => negb (names_subset l (t_names t)) | None => false end = false).
  { destruct (table_fields exc (t_name t)) as [l|] eqn:E; [|reflexivity].
    rewrite (proj2 (names_subset_spec l (t_names t))); [reflexivity|]. intros k Hk. apply (Hfe t l k Ht E Hk). }
  rewrite E3, E4. reflexivity.
Qed.
