(* Proofs/MergeRefuted.v — C02: the _ordered_merge call-site table as found (MOrig) on small witnesses
   (vm_compute); each witness is replayed on the real code (corpus/C02, work/C02/findings.json). *)
From Coq Require Import ZArith List Lia Bool.
From EV Require Import Res Arr Join JoinSpec MapStream MapStreamSpec Merge MergeSpec.
Import ListNotations.
Open Scope Z_scope.

Definition nK : list Z := [107].          (* "k" *)
Definition nV : list Z := [105;97].       (* "ia" *)
Definition nW : list Z := [105;112].      (* "ip" *)
Definition sufL : list Z := [95;108].     (* "_l" *)
Definition sufR : list Z := [95;114].     (* "_r" *)
Definition numcol (l:list Z) : column := CFix [0] [0] (map (fun x => [x]) l).

Definition wargs (ver:mver) (how:Z) (lu ru:bool) (lk rk:list Z) : margs :=
  mk_margs ver how true lu true ru [lk] [rk]
           [(nK, numcol lk); (nV, numcol (map (fun x => 10 * x) lk))]
           [(nK, numcol rk); (nW, numcol (map (fun x => 100 * x) rk))]
           sufL sufR 64 64 8 64.

Definition data_cols (r:res (bool * frame)) : res frame :=
  do p <- r; Ok (filter (fun f => negb (name_eqb (fst f) N_left_map || name_eqb (fst f) N_right_map)) (snd p)).

(* F-C02a: how='inner' with a unique hint: the generator is called without `invalid` *)
Lemma orig_inner_unique_raises :
  merge join_pairs (wargs MOrig 2 true false [1;2;4] [2;2;4]) = Raise E_TypeError /\
  data_cols (merge join_pairs (wargs MFixed 2 true false [1;2;4] [2;2;4]))
  = Ok (merge_spec 2 [[1;2;4]] [[2;2;4]] (a_lcols (wargs MFixed 2 true false [1;2;4] [2;2;4]))
                   (a_rcols (wargs MFixed 2 true false [1;2;4] [2;2;4])) sufL sufR).
Proof. split; vm_compute; reflexivity. Qed.

(* F-C02d: how='right' with the LEFT keys unique (b side): only `_b_map` is created, `_right_map` does not exist *)
Lemma orig_right_unique_raises :
  merge join_pairs (wargs MOrig 1 true false [1;2;4] [2;2;4]) = Raise E_ValueError /\
  data_cols (merge join_pairs (wargs MFixed 1 true false [1;2;4] [2;2;4]))
  = Ok (merge_spec 1 [[1;2;4]] [[2;2;4]] (a_lcols (wargs MFixed 1 true false [1;2;4] [2;2;4]))
                   (a_rcols (wargs MFixed 1 true false [1;2;4] [2;2;4])) sufL sufR).
Proof. split; vm_compute; reflexivity. Qed.

(* F-C02c: how='right', an unmatched right row: the left map holds the sentinel but is applied with invalid=-1 *)
Lemma orig_right_unmatched_fails :
  (exists e, merge join_pairs (wargs MOrig 1 false false [2;4] [1;2;4]) = e /\ is_ok e = false) /\
  data_cols (merge join_pairs (wargs MFixed 1 false false [2;4] [1;2;4]))
  = Ok (merge_spec 1 [[2;4]] [[1;2;4]] (a_lcols (wargs MFixed 1 false false [2;4] [1;2;4]))
                   (a_rcols (wargs MFixed 1 false false [2;4] [1;2;4])) sufL sufR).
Proof. split; [eexists; split; [reflexivity|vm_compute; reflexivity]|vm_compute; reflexivity]. Qed.

(* F-C02e: the streamed path of the code as found leaves the left copy of a clashing name unsuffixed *)
Lemma orig_left_name_unsuffixed :
  (do p <- merge join_pairs (wargs MOrig 0 false false [1;2] [2;3]); Ok (map fst (snd p)))
  = Ok [N_left_map; N_right_map; nK; nV; nK ++ sufR; nW] /\
  (do p <- merge join_pairs (wargs MFixed 0 false false [1;2] [2;3]); Ok (map fst (snd p)))
  = Ok [N_left_map; N_right_map; nK ++ sufL; nV; nK ++ sufR; nW] /\
  map fst (merge_spec 0 [[1;2]] [[2;3]] (a_lcols (wargs MFixed 0 false false [1;2] [2;3]))
                      (a_rcols (wargs MFixed 0 false false [1;2] [2;3])) sufL sufR)
  = [nK ++ sufL; nV; nK ++ sufR; nW].
Proof. repeat split; vm_compute; reflexivity. Qed.

(* F-C02f (was present in the tree repaired by fix-F-C02a..e too; repaired by work/E7/fix-F-C02f.diff in
   operations.py): one key repeated on both sides, general variant: the right map [0;1;0;1] is not monotone.
   Before the fix ordered_map_valid_stream read outside its first..last value window (chunk size 3) — see
   Props/C04.v map_stream_unordered_map_refuted for that code; the repaired stream gives the relational join,
   for a numeric and for an indexed-string column on the non-monotone side *)
Definition f_args : margs :=
  mk_margs MFixed 0 true false true false [[0;0]] [[0;0]]
           [(nV, numcol [10;20])] [(nW, numcol [30;40]); (nK, CIdx [0;1;3] [97;98;98])] sufL sufR 3 3 8 3.
Lemma nonmonotone_map_ok :
  map snd (join_spec true INVALID_INDEX_64 [0;0] [0;0]) = [0;1;0;1] /\
  data_cols (merge join_pairs f_args)
  = Ok (merge_spec 0 [[0;0]] [[0;0]] (a_lcols f_args) (a_rcols f_args) sufL sufR) /\
  data_cols (merge join_pairs f_args)
  = Ok [(nV, numcol [10;10;20;20]); (nW, numcol [30;40;30;40]); (nK, CIdx [0;1;3;4;6] [97;98;98;97;98;98])].
Proof. repeat split; vm_compute; reflexivity. Qed.

(* F-C02g (repaired tree): a run of equal keys as long as the join chunk size on a trimmed side *)
Definition g_args : margs :=
  mk_margs MFixed 0 true false true false [[0;0;1]] [[0;1]]
           [(nV, numcol [10;20;30])] [(nW, numcol [30;40])] sufL sufR 2 2 8 2.
Lemma long_run_raises : merge join_pairs g_args = Raise E_ValueError.
Proof. vm_compute. reflexivity. Qed.
