(* Proofs/JoinMain.v — the per-variant end results of C03, assembled from the generic driver
   theorem (JoinDriver.streamed_ok) and the KindOK instances. *)
From Coq Require Import ZArith List Lia Bool ZifyBool.
From EV Require Import Res Arr Join JoinSpec JoinBase JoinIface JoinRows JoinWin JoinDriver JoinBU.
Import ListNotations.
Open Scope Z_scope.

(* the value a streamed variant must return: (left map or [], right map) of the relational join *)
Definition expected (k:kind) (is_left:bool) (inv:Z) (L R:list Z) : list Z * list Z :=
  spec_out k is_left L R inv.

Lemma expected_eq k is_left inv L R :
  expected k is_left inv L R =
  (if v_writes_l (mkvar k is_left) then map fst (join_spec is_left inv L R) else [],
   map snd (join_spec is_left inv L R)).
Proof. reflexivity. Qed.

(* both sides unique: neither side is trimmed, so no error is possible *)
Lemma streamed_both_unique_correct is_left L R inv cs :
  1 <= cs -> ssorted L -> ssorted R ->
  streamed (mkvar KBU is_left) L R inv cs = Ok (expected KBU is_left inv L R).
Proof.
  intros Hcs HL HR.
  destruct (streamed_ok KBU is_left L R inv cs (KindOK_BU is_left L R inv cs HL HR) Hcs)
    as [H|(_ & [(Ht & _)|(Ht & _)])]; [exact H| |]; cbv in Ht; discriminate.
Qed.
