(* Proofs/MapIndexedDriver.v — ordered_map_valid_indexed_stream (repaired code) = indexed_spec
   for every marker, chunk size and value factor, provided every mapped entry fits the value
   buffer; with the fuel bound. *)
From Coq Require Import ZArith List Lia Bool.
From EV Require Import Res Arr MapStream MapStreamSpec MapStreamBase MapIndexedBase MapIndexedKernel.
Import ListNotations.
Open Scope Z_scope.

Lemma slice_of_slice {A} (l:list A) a b x y : 0 <= a -> a <= b -> b <= len l -> 0 <= x -> x <= y -> y <= b - a ->
  slice (slice l a b) x y = slice l (a + x) (a + y).
Proof.
  intros Ha Hab Hb Hx Hxy Hy. destruct l as [|d0 l'] eqn:El.
  - unfold slice. rewrite !skipn_nil, !firstn_nil, skipn_nil, firstn_nil. reflexivity.
  - rewrite <- El in *. apply (list_eq_nthd d0).
    + rewrite !len_slice; try lia. rewrite len_slice by lia. lia.
    + intros i Hi. rewrite len_slice in Hi by (try rewrite len_slice; lia).
      rewrite nthd_slice by lia. rewrite nthd_slice by lia. rewrite nthd_slice by lia. f_equal. lia.
Qed.

Section Driver.
Variables (d_idx d_val : list Z) (inv : Z).
Hypothesis Hwf : wf_indexed d_idx d_val.
Let n := len d_idx - 1.
Notation sval := (sval d_idx d_val inv).

Lemma idx_mono i j : 0 <= i -> i <= j -> j <= n -> nthZ d_idx i <= nthZ d_idx j.
Proof. destruct Hwf as [_ [_ [Hs _]]]. intros. apply Hs; unfold n in *; lia. Qed.

Lemma idx_bounds i : 0 <= i <= n -> 0 <= nthZ d_idx i <= len d_val.
Proof.
  destruct Hwf as [H1 [H0 [Hs Hl]]]. intros Hi. unfold n in *. split.
  - rewrite <- H0. apply Hs; lia.
  - rewrite <- Hl. apply Hs; lia.
Qed.

Lemma sval_valid k : k <> inv -> sval k = slice d_val (nthZ d_idx k) (nthZ d_idx (k + 1)).
Proof. intros H. unfold MapIndexedKernel.sval. destruct (k =? inv) eqn:E; [lia|]. reflexivity. Qed.

Variables (cs vf : Z).
Hypothesis Hcs : 1 <= cs.
Hypothesis Hvf : 0 <= vf.
Let B := cs * vf.

(* ---------------- the inner `while sm < sm_end` loop ---------------- *)
Section Sub.
Variables (map_ : list Z) (sm_start sm_end first last : Z).
Hypothesis Hrange : 0 <= sm_start /\ sm_start < sm_end /\ sm_end <= len map_ /\ sm_end - sm_start <= cs.
Hypothesis Hfl : 0 <= first /\ first <= last /\ last < n.
Hypothesis Hin : forall t, sm_start <= t < sm_end -> nthZ map_ t <> inv -> first <= nthZ map_ t <= last.
Hypothesis Hmono : forall t u, sm_start <= t -> t <= u -> u < sm_end ->
                     nthZ map_ t <> inv -> nthZ map_ u <> inv -> nthZ map_ t <= nthZ map_ u.
Hypothesis Hfit : forall t, sm_start <= t < sm_end -> nthZ map_ t <> inv -> len (sval (nthZ map_ t)) <= B.
Let indices_ := slice d_idx first (last + 2).
Variable subs : list (Z * Z).
Hypothesis Hchain : chain subs 0 (last - first + 1).

Lemma len_indices_ : len indices_ = last - first + 2.
Proof. unfold indices_. rewrite len_slice by (unfold n in *; lia). lia. Qed.

Lemma nth_indices_ i : 0 <= i < last - first + 2 -> nthZ indices_ i = nthZ d_idx (first + i).
Proof. intros H. unfold indices_, nthZ. apply nthd_slice; lia. Qed.

Definition window (sc:Z * Z) : list Z :=
  slice d_val (nthZ d_idx (first + fst sc)) (nthZ d_idx (first + snd sc)).

Lemma fetch_values_ok sc : 0 <= fst sc -> fst sc <= snd sc -> snd sc <= last - first + 1 ->
  fetch_values d_val indices_ sc = Ok (window sc).
Proof.
  intros H1 H2 H3. unfold fetch_values.
  rewrite (np_get_ok 0 indices_ (fst sc)) by (rewrite len_indices_; lia). cbn [bind].
  rewrite (np_get_ok 0 indices_ (snd sc)) by (rewrite len_indices_; lia). cbn [bind].
  fold (nthZ indices_ (fst sc)). fold (nthZ indices_ (snd sc)).
  rewrite !nth_indices_ by lia.
  pose proof (idx_bounds (first + fst sc) ltac:(lia)).
  pose proof (idx_bounds (first + snd sc) ltac:(lia)).
  rewrite np_slice_slice by lia. reflexivity.
Qed.

Lemma isub_loop_spec fuel : forall s sm acc ridx rval out_i out_v,
  0 <= s < len subs -> sm_start <= sm <= sm_end ->
  len ridx = cs -> len rval = B ->
  (forall t, sm <= t < sm_end -> nthZ map_ t <> inv -> fst (nthd (0,0) subs s) <= nthZ map_ t - first) ->
  (Z.to_nat ((sm_end - sm) + (len subs - 1 - s)) < fuel)%nat ->
  let sc := nthd (0,0) subs s in
  let es := map sval (slice map_ sm sm_end) in
  exists ridx' rval',
    isub_loop fuel Fixed map_ sm_start sm_end indices_ subs d_val first inv s sc (window sc) sm
              (mk_ist 0 0 acc ridx rval out_i out_v)
    = Ok (mk_ist 0 0 (acc + total es) ridx' rval' (out_i ++ offs_tail acc es) (out_v ++ concat es)) /\
    len ridx' = cs /\ len rval' = B.
Proof.
  induction fuel as [|f IH]; intros s sm acc ridx rval out_i out_v Hs Hsm Hlri Hlrv Hinv Hf; [lia|].
  cbv zeta. remember (nthd (0,0) subs s) as sc eqn:Hsc. set (es := map sval (slice map_ sm sm_end)).
  cbn [isub_loop].
  destruct (sm <? sm_end) eqn:E.
  2:{ exists ridx, rval. subst es. replace sm with sm_end by lia. rewrite slice_empty. cbn [map offs_tail concat].
      rewrite total_nil, Z.add_0_r, !app_nil_r. repeat split; assumption. }
  cbn [s_ridx s_rval s_ri s_rv s_acc s_out_i s_out_v].
  pose proof (chain_nth subs 0 (last - first + 1) s Hchain Hs) as HC. cbv zeta in HC.
  rewrite <- Hsc in HC.
  destruct HC as [C1 [C2 [C3 [C4 [C5 C6]]]]].
  unfold ordered_map_valid_indexed_partial.
  rewrite (getZ_ok 130 indices_ (fst sc)) by (rewrite len_indices_; lia). cbn [bind].
  (* the kernel call *)
  destruct (oi_partial_loop_spec d_idx d_val inv map_ sm_end indices_ (snd sc) (window sc) first
              (nthZ indices_ (fst sc)) (S (Z.to_nat (sm_end - sm))) sm 0 0 acc false ridx rval)
    as [j [need' [ridx1 [rval1 HK]]]]; try lia.
  { (* window_ok *)
    intros t Ht Hne. unfold window_ok. intros Hlt.
    pose proof (Hin t ltac:(lia) Hne) as Hb. pose proof (Hinv t Ht Hne) as Hlo.
    set (i := nthZ map_ t - first) in *.
    rewrite len_indices_. rewrite !nth_indices_ by lia.
    pose proof (idx_mono (first + fst sc) (first + i) ltac:(lia) ltac:(lia) ltac:(lia)).
    pose proof (idx_mono (first + i) (first + (i + 1)) ltac:(lia) ltac:(lia) ltac:(lia)).
    pose proof (idx_mono (first + (i + 1)) (first + snd sc) ltac:(lia) ltac:(lia) ltac:(lia)).
    pose proof (idx_bounds (first + fst sc) ltac:(lia)).
    pose proof (idx_bounds (first + snd sc) ltac:(lia)).
    assert (Hlw : len (window sc) = nthZ d_idx (first + snd sc) - nthZ d_idx (first + fst sc))
      by (unfold window; apply len_slice; lia).
    assert (E1 : first + i = nthZ map_ t) by (unfold i; lia).
    assert (E2 : first + (i + 1) = nthZ map_ t + 1) by (unfold i; lia).
    rewrite E1, E2 in *.
    repeat split; try lia.
    rewrite sval_valid by exact Hne. unfold window.
    rewrite slice_of_slice by lia. f_equal; lia. }
  cbv zeta in HK. destruct HK as [K1 [K2 [K3 [K4 [K5 [K6 [K7 K8]]]]]]].
  rewrite K1. cbn [bind p_sm p_need p_ri p_rv p_acc p_ridx p_rval].
  set (es1 := map sval (slice map_ sm j)) in *.
  rewrite !Z.add_0_l in *. cbn [Z.to_nat firstn app] in K6, K7.
  (* flushing the two buffers *)
  assert (Hflush_i : (if j - sm >? 0 then (0, out_i ++ np_slice ridx1 0 (j - sm)) else (j - sm, out_i))
                     = (0, out_i ++ offs_tail acc es1)).
  { destruct (j - sm >? 0) eqn:Eg.
    - rewrite np_slice_slice by lia. rewrite slice_firstn, K6. reflexivity.
    - assert (j = sm) by lia. subst j. unfold es1. rewrite slice_empty. cbn [map offs_tail].
      rewrite app_nil_r. f_equal. lia. }
  assert (Hflush_v : (if total es1 >? 0 then (0, out_v ++ np_slice rval1 0 (total es1)) else (total es1, out_v))
                     = (0, out_v ++ concat es1)).
  { pose proof (total_nonneg es1). destruct (total es1 >? 0) eqn:Eg.
    - rewrite np_slice_slice by lia. rewrite slice_firstn, K7. reflexivity.
    - assert (Ht0 : total es1 = 0) by lia. rewrite Ht0. f_equal.
      unfold total, len in Ht0. destruct (concat es1); [rewrite app_nil_r; reflexivity|cbn in Ht0; lia]. }
  (* the rest of the sub-chunk after this call *)
  assert (Hsplit : es = es1 ++ map sval (slice map_ j sm_end)).
  { subst es es1. rewrite <- map_app. f_equal. apply slice_snoc; lia. }
  assert (Hgoal : forall s' ,
             0 <= s' < len subs -> s <= s' ->
             (forall t, j <= t < sm_end -> nthZ map_ t <> inv -> fst (nthd (0,0) subs s') <= nthZ map_ t - first) ->
             (sm < j \/ s < s') ->
             exists ridx' rval',
               isub_loop f Fixed map_ sm_start sm_end indices_ subs d_val first inv s'
                         (nthd (0,0) subs s') (window (nthd (0,0) subs s')) j
                         (mk_ist 0 0 (acc + total es1) ridx1 rval1 (out_i ++ offs_tail acc es1) (out_v ++ concat es1))
               = Ok (mk_ist 0 0 (acc + total es) ridx' rval' (out_i ++ offs_tail acc es) (out_v ++ concat es)) /\
               len ridx' = cs /\ len rval' = B).
  { intros s' Hs' Hss' Hinv' Hprog.
    destruct (IH s' j (acc + total es1) ridx1 rval1 (out_i ++ offs_tail acc es1) (out_v ++ concat es1))
      as [ridx' [rval' [I1 [I2 I3]]]]; try lia; try assumption.
    exists ridx', rval'. cbv zeta in I1. rewrite I1. split; [|split; assumption].
    rewrite Hsplit. rewrite total_app, offs_tail_app, concat_app, <- !app_assoc.
    f_equal. f_equal. lia. }
  destruct K8 as [[Kj Kn]|[Kj [Kne [[Kmax Kn]|[Kmax [Kn Kfull]]]]]].
  - (* the call consumed the whole sub-chunk *)
    subst need'. replace ((j =? sm) && negb false) with false by lia.
    cbn [bind]. rewrite Hflush_i, Hflush_v.
    rewrite Hsc. apply (Hgoal s); try lia.
  - (* a new value sub-chunk is needed *)
    subst need'. rewrite andb_false_r. cbn [negb].
    assert (Hnext : s + 1 < len subs).
    { destruct (Z_lt_dec (s + 1) (len subs)) as [|Hge]; [assumption|]. exfalso.
      assert (Hl : snd sc = last - first + 1) by (apply C5; lia).
      pose proof (Hin j ltac:(lia) Kne). lia. }
    specialize (C4 Hnext).
    pose proof (chain_nth subs 0 (last - first + 1) (s + 1) Hchain ltac:(lia)) as HD. cbv zeta in HD.
    destruct HD as [D1 [D2 [D3 _]]].
    unfold list_get. rewrite (np_get_ok (0,0) subs (s + 1)) by lia. cbn [bind].
    rewrite fetch_values_ok by lia. cbn [bind].
    rewrite Hflush_i, Hflush_v.
    apply (Hgoal (s + 1)); try lia.
    intros t Ht Hne. rewrite C4.
    pose proof (Hmono j t ltac:(lia) ltac:(lia) ltac:(lia) Kne Hne). lia.
  - (* the value buffer is full: flush and call again *)
    subst need'.
    assert (Hj : sm < j).
    { destruct (Z_lt_dec sm j) as [|Hge]; [assumption|]. exfalso.
      assert (j = sm) by lia. subst j.
      assert (Ht0 : total es1 = 0) by (unfold es1; rewrite slice_empty; reflexivity).
      pose proof (Hfit sm ltac:(lia) Kne). lia. }
    replace ((j =? sm) && negb false) with false by lia.
    cbn [bind]. rewrite Hflush_i, Hflush_v.
    rewrite Hsc. apply (Hgoal s); try lia. intros t Ht Hne. rewrite <- Hsc. apply Hinv; [lia|exact Hne].
Qed.

End Sub.
End Driver.
