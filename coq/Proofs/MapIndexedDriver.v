(* Proofs/MapIndexedDriver.v — ordered_map_valid_indexed_stream (repaired code, version Fixed,
   including fix-F-C02f) = indexed_spec for every marker, chunk size and value factor and EVERY map
   whose valid entries are in range (no order required), provided every mapped entry fits the value
   buffer; with the fuel bound 2*|map|+2 (every map entry costs at most one kernel call that
   consumes it and one that asks for its value sub-chunk). *)
From Coq Require Import ZArith List Lia Bool.
From EV Require Import Res Arr MapStream MapStreamSpec MapStreamBase MapIndexedBase MapIndexedKernel.
Import ListNotations.
Open Scope Z_scope.

Lemma slice_of_slice {A} (l:list A) a b x y : 0 <= a -> a <= b -> b <= len l -> 0 <= x -> x <= y -> y <= b - a ->
  slice (slice l a b) x y = slice l (a + x) (a + y).
Proof.
  intros Ha Hab Hb Hx Hxy Hy. destruct l as [|d0 l'] eqn:El.
  - unfold slice. rewrite !skipn_nil, !firstn_nil, skipn_nil, firstn_nil. reflexivity.
  - rewrite <- El in *. apply (list_eq_nthd d0).
    + rewrite !len_slice; try lia. rewrite len_slice by lia. lia.
    + intros i Hi. rewrite len_slice in Hi by (try rewrite len_slice; lia).
      rewrite nthd_slice by lia. rewrite nthd_slice by lia. rewrite nthd_slice by lia. f_equal. lia.
Qed.

Lemma skipn_add_ {A} (l:list A) x y : skipn x (skipn y l) = skipn (y + x) l.
Proof.
  revert l. induction y as [|y IH]; intros l; [reflexivity|].
  destruct l; [rewrite !skipn_nil; reflexivity|]. cbn [skipn Nat.add]. apply IH.
Qed.

Lemma skipn_slice_skipn_ {A} (l:list A) a b : 0 <= a -> a <= b -> b <= len l ->
  skipn (Z.to_nat a) l = slice l a b ++ skipn (Z.to_nat b) l.
Proof.
  intros Ha Hab Hb. unfold slice.
  rewrite <- (firstn_skipn (Z.to_nat (b - a)) (skipn (Z.to_nat a) l)) at 1.
  f_equal. rewrite skipn_add_. f_equal. lia.
Qed.

Section Driver.
Variables (d_idx d_val : list Z) (inv : Z).
Hypothesis Hwf : wf_indexed d_idx d_val.
Let n := len d_idx - 1.
Notation sval := (sval d_idx d_val inv).

Lemma idx_mono i j : 0 <= i -> i <= j -> j <= n -> nthZ d_idx i <= nthZ d_idx j.
Proof. destruct Hwf as [_ [_ [Hs _]]]. intros. apply Hs; unfold n in *; lia. Qed.

Lemma idx_bounds i : 0 <= i <= n -> 0 <= nthZ d_idx i <= len d_val.
Proof.
  destruct Hwf as [H1 [H0 [Hs Hl]]]. intros Hi. unfold n in *. split.
  - rewrite <- H0. apply Hs; lia.
  - rewrite <- Hl. apply Hs; lia.
Qed.

Lemma sval_valid k : k <> inv -> sval k = slice d_val (nthZ d_idx k) (nthZ d_idx (k + 1)).
Proof. intros H. unfold MapIndexedKernel.sval. destruct (k =? inv) eqn:E; [lia|]. reflexivity. Qed.

Variables (cs vf : Z).
Hypothesis Hcs : 1 <= cs.
Hypothesis Hvf : 0 <= vf.
Let B := cs * vf.

(* ---------------- the inner `while sm < sm_end` loop ---------------- *)
Section Sub.
Variables (map_ : list Z) (sm_start sm_end first last : Z).
Hypothesis Hrange : 0 <= sm_start /\ sm_start < sm_end /\ sm_end <= len map_ /\ sm_end - sm_start <= cs.
Hypothesis Hfl : 0 <= first /\ first <= last /\ last < n.
Hypothesis Hin : forall t, sm_start <= t < sm_end -> nthZ map_ t <> inv -> first <= nthZ map_ t <= last.
Hypothesis Hfit : forall t, sm_start <= t < sm_end -> nthZ map_ t <> inv -> len (sval (nthZ map_ t)) <= B.
Let indices_ := slice d_idx first (last + 2).
Variable subs : list (Z * Z).
Hypothesis Hchain : chain subs 0 (last - first + 1).

Lemma len_indices_ : len indices_ = last - first + 2.
Proof. unfold indices_. rewrite len_slice by (unfold n in *; lia). lia. Qed.

Lemma nth_indices_ i : 0 <= i < last - first + 2 -> nthZ indices_ i = nthZ d_idx (first + i).
Proof. intros H. unfold indices_, nthZ. apply nthd_slice; lia. Qed.

Definition window (sc:Z * Z) : list Z :=
  slice d_val (nthZ d_idx (first + fst sc)) (nthZ d_idx (first + snd sc)).

Lemma fetch_values_ok sc : 0 <= fst sc -> fst sc <= snd sc -> snd sc <= last - first + 1 ->
  fetch_values d_val indices_ sc = Ok (window sc).
Proof.
  intros H1 H2 H3. unfold fetch_values.
  rewrite (np_get_ok 0 indices_ (fst sc)) by (rewrite len_indices_; lia). cbn [bind].
  rewrite (np_get_ok 0 indices_ (snd sc)) by (rewrite len_indices_; lia). cbn [bind].
  fold (nthZ indices_ (fst sc)). fold (nthZ indices_ (snd sc)).
  rewrite !nth_indices_ by lia.
  pose proof (idx_bounds (first + fst sc) ltac:(lia)).
  pose proof (idx_bounds (first + snd sc) ltac:(lia)).
  rewrite np_slice_slice by lia. reflexivity.
Qed.

(* ---- seeking the value sub-chunk that holds entry i (fix-F-C02f) ---- *)
Lemma seek_up_spec i fuel : forall s,
  0 <= i < last - first + 1 -> 0 <= s < len subs -> (Z.to_nat (len subs - s) <= fuel)%nat ->
  exists s1, seek_up fuel subs i s = Ok s1 /\ s <= s1 < len subs /\ i < snd (nthd (0,0) subs s1).
Proof.
  induction fuel as [|f IH]; intros s Hi Hs Hf; [lia|].
  cbn [seek_up]. unfold list_get. rewrite (np_get_ok (0,0) subs s) by lia. cbn [bind].
  pose proof (chain_nth subs 0 (last - first + 1) s Hchain Hs) as HC. cbv zeta in HC.
  destruct HC as [C1 [C2 [C3 [C4 [C5 C6]]]]].
  destruct (i >=? snd (nthd (0,0) subs s)) eqn:E.
  - assert (Hn : s + 1 < len subs).
    { destruct (Z_lt_dec (s + 1) (len subs)) as [|Hge]; [assumption|]. exfalso.
      assert (snd (nthd (0,0) subs s) = last - first + 1) by (apply C5; lia). lia. }
    destruct (IH (s + 1) Hi ltac:(lia) ltac:(lia)) as [s1 [H1 [H2 H3]]].
    exists s1. split; [exact H1|]. split; [lia|exact H3].
  - exists s. split; [reflexivity|]. split; lia.
Qed.

Lemma seek_down_spec i fuel : forall s,
  0 <= i -> 0 <= s < len subs -> i < snd (nthd (0,0) subs s) -> (Z.to_nat s < fuel)%nat ->
  exists s2, seek_down fuel subs i s = Ok s2 /\ 0 <= s2 < len subs /\
             fst (nthd (0,0) subs s2) <= i < snd (nthd (0,0) subs s2).
Proof.
  induction fuel as [|f IH]; intros s Hi Hs Hlt Hf; [lia|].
  cbn [seek_down]. unfold list_get. rewrite (np_get_ok (0,0) subs s) by lia. cbn [bind].
  pose proof (chain_nth subs 0 (last - first + 1) s Hchain Hs) as HC. cbv zeta in HC.
  destruct HC as [C1 [C2 [C3 [C4 [C5 C6]]]]].
  destruct (i <? fst (nthd (0,0) subs s)) eqn:E.
  - assert (Hs0 : s <> 0) by (intros ->; specialize (C6 eq_refl); lia).
    pose proof (chain_nth subs 0 (last - first + 1) (s - 1) Hchain ltac:(lia)) as HD. cbv zeta in HD.
    destruct HD as [_ [_ [_ [D4 _]]]]. replace (s - 1 + 1) with s in D4 by lia. specialize (D4 ltac:(lia)).
    destruct (IH (s - 1) Hi ltac:(lia) ltac:(lia) ltac:(lia)) as [s2 [H1 [H2 H3]]].
    exists s2. split; [exact H1|]. split; [lia|exact H3].
  - exists s. split; [reflexivity|]. split; lia.
Qed.

Lemma seek_subchunk_spec sm s :
  sm_start <= sm < sm_end -> nthZ map_ sm <> inv -> 0 <= s < len subs ->
  exists s2, seek_subchunk subs map_ sm first s = Ok s2 /\ 0 <= s2 < len subs /\
             fst (nthd (0,0) subs s2) <= nthZ map_ sm - first < snd (nthd (0,0) subs s2).
Proof.
  intros Hsm Hne Hs. unfold seek_subchunk.
  rewrite (np_get_ok 0 map_ sm) by lia. cbn [bind]. fold (nthZ map_ sm).
  pose proof (Hin sm Hsm Hne) as Hb.
  pose proof (len_nonneg subs) as Hl0.
  destruct (seek_up_spec (nthZ map_ sm - first) (S (length subs)) s) as [s1 [H1 [H2 H3]]]; try lia.
  { unfold len in *. lia. }
  rewrite H1. cbn [bind].
  apply seek_down_spec; try lia. unfold len in *. lia.
Qed.

(* 1 when the entry at sm is valid and lies outside value sub-chunk s (the next kernel call only
   asks for another sub-chunk), else 0 *)
Definition needs_switch (s sm:Z) : Z :=
  if (sm <? sm_end) && negb (nthZ map_ sm =? inv) &&
     negb ((fst (nthd (0,0) subs s) <=? nthZ map_ sm - first) && (nthZ map_ sm - first <? snd (nthd (0,0) subs s)))
  then 1 else 0.

Lemma isub_loop_spec fuel : forall s sm acc ridx rval out_i out_v,
  0 <= s < len subs -> sm_start <= sm <= sm_end ->
  len ridx = cs -> len rval = B ->
  (Z.to_nat (2 * (sm_end - sm) + needs_switch s sm) < fuel)%nat ->
  let sc := nthd (0,0) subs s in
  let es := map sval (slice map_ sm sm_end) in
  exists ridx' rval',
    isub_loop fuel Fixed map_ sm_start sm_end indices_ subs d_val first inv s sc (window sc) sm
              (mk_ist 0 0 acc ridx rval out_i out_v)
    = Ok (mk_ist 0 0 (acc + total es) ridx' rval' (out_i ++ offs_tail acc es) (out_v ++ concat es)) /\
    len ridx' = cs /\ len rval' = B.
Proof.
  induction fuel as [|f IH]; intros s sm acc ridx rval out_i out_v Hs Hsm Hlri Hlrv Hf; [lia|].
  cbv zeta. remember (nthd (0,0) subs s) as sc eqn:Hsc. set (es := map sval (slice map_ sm sm_end)).
  cbn [isub_loop].
  destruct (sm <? sm_end) eqn:E.
  2:{ exists ridx, rval. subst es. replace sm with sm_end by lia. rewrite slice_empty. cbn [map offs_tail concat].
      rewrite total_nil, Z.add_0_r, !app_nil_r. repeat split; assumption. }
  cbn [s_ridx s_rval s_ri s_rv s_acc s_out_i s_out_v span_kernels].
  pose proof (chain_nth subs 0 (last - first + 1) s Hchain Hs) as HC. cbv zeta in HC.
  rewrite <- Hsc in HC.
  destruct HC as [C1 [C2 [C3 [C4 [C5 C6]]]]].
  unfold ordered_map_valid_indexed_partial.
  rewrite (getZ_ok 130 indices_ (fst sc)) by (rewrite len_indices_; lia). cbn [bind].
  (* the kernel call *)
  destruct (oi_partial_loop_spec d_idx d_val inv true map_ sm_end indices_ (fst sc) (snd sc) (window sc) first
              (nthZ indices_ (fst sc)) (S (Z.to_nat (sm_end - sm))) sm 0 0 acc false ridx rval)
    as [j [need' [ridx1 [rval1 HK]]]]; try lia.
  { (* window_ok *)
    intros t Ht Hne. unfold window_ok. intros Hlo Hlt. specialize (Hlo eq_refl).
    pose proof (Hin t ltac:(lia) Hne) as Hb.
    set (i := nthZ map_ t - first) in *.
    rewrite len_indices_. rewrite !nth_indices_ by lia.
    pose proof (idx_mono (first + fst sc) (first + i) ltac:(lia) ltac:(lia) ltac:(lia)).
    pose proof (idx_mono (first + i) (first + (i + 1)) ltac:(lia) ltac:(lia) ltac:(lia)).
    pose proof (idx_mono (first + (i + 1)) (first + snd sc) ltac:(lia) ltac:(lia) ltac:(lia)).
    pose proof (idx_bounds (first + fst sc) ltac:(lia)).
    pose proof (idx_bounds (first + snd sc) ltac:(lia)).
    assert (Hlw : len (window sc) = nthZ d_idx (first + snd sc) - nthZ d_idx (first + fst sc))
      by (unfold window; apply len_slice; lia).
    assert (E1 : first + i = nthZ map_ t) by (unfold i; lia).
    assert (E2 : first + (i + 1) = nthZ map_ t + 1) by (unfold i; lia).
    rewrite E1, E2 in *.
    repeat split; try lia.
    rewrite sval_valid by exact Hne. unfold window.
    rewrite slice_of_slice by lia. f_equal; lia. }
  cbv zeta in HK. destruct HK as [K1 [K2 [K3 [K4 [K5 [K6 [K7 K8]]]]]]].
  rewrite K1. cbn [bind p_sm p_need p_ri p_rv p_acc p_ridx p_rval].
  set (es1 := map sval (slice map_ sm j)) in *.
  rewrite !Z.add_0_l in *. cbn [Z.to_nat firstn app] in K6, K7.
  (* flushing the two buffers *)
  assert (Hflush_i : (if j - sm >? 0 then (0, out_i ++ np_slice ridx1 0 (j - sm)) else (j - sm, out_i))
                     = (0, out_i ++ offs_tail acc es1)).
  { destruct (j - sm >? 0) eqn:Eg.
    - rewrite np_slice_slice by lia. rewrite slice_firstn, K6. reflexivity.
    - assert (j = sm) by lia. subst j. unfold es1. rewrite slice_empty. cbn [map offs_tail].
      rewrite app_nil_r. f_equal. lia. }
  assert (Hflush_v : (if total es1 >? 0 then (0, out_v ++ np_slice rval1 0 (total es1)) else (total es1, out_v))
                     = (0, out_v ++ concat es1)).
  { pose proof (total_nonneg es1). destruct (total es1 >? 0) eqn:Eg.
    - rewrite np_slice_slice by lia. rewrite slice_firstn, K7. reflexivity.
    - assert (Ht0 : total es1 = 0) by lia. rewrite Ht0. f_equal.
      unfold total, len in Ht0. destruct (concat es1); [rewrite app_nil_r; reflexivity|cbn in Ht0; lia]. }
  (* the rest of the sub-chunk after this call *)
  assert (Hsplit : es = es1 ++ map sval (slice map_ j sm_end)).
  { subst es es1. rewrite <- map_app. f_equal. apply slice_snoc; lia. }
  assert (Hgoal : forall s' ,
             0 <= s' < len subs ->
             (Z.to_nat (2 * (sm_end - j) + needs_switch s' j) < f)%nat ->
             exists ridx' rval',
               isub_loop f Fixed map_ sm_start sm_end indices_ subs d_val first inv s'
                         (nthd (0,0) subs s') (window (nthd (0,0) subs s')) j
                         (mk_ist 0 0 (acc + total es1) ridx1 rval1 (out_i ++ offs_tail acc es1) (out_v ++ concat es1))
               = Ok (mk_ist 0 0 (acc + total es) ridx' rval' (out_i ++ offs_tail acc es) (out_v ++ concat es)) /\
               len ridx' = cs /\ len rval' = B).
  { intros s' Hs' Hmeas.
    destruct (IH s' j (acc + total es1) ridx1 rval1 (out_i ++ offs_tail acc es1) (out_v ++ concat es1))
      as [ridx' [rval' [I1 [I2 I3]]]]; try lia; try assumption.
    exists ridx', rval'. cbv zeta in I1. rewrite I1. split; [|split; assumption].
    rewrite Hsplit. rewrite total_app, offs_tail_app, concat_app, <- !app_assoc.
    f_equal. f_equal. lia. }
  assert (Hns01 : forall a b, 0 <= needs_switch a b <= 1).
  { intros a b. unfold needs_switch. destruct (_ && _ && _); lia. }
  destruct K8 as [[Kj Kn]|[Kj [Kne [[Kout Kn]|[Klo [Kmax [Kn Kfull]]]]]]].
  - (* the call consumed the whole sub-chunk *)
    subst need'. replace ((j =? sm) && negb false) with false by lia.
    cbn [bind]. rewrite Hflush_i, Hflush_v.
    rewrite Hsc. apply (Hgoal s); try lia.
    pose proof (Hns01 s j). pose proof (Hns01 s sm).
    assert (needs_switch s j = 0) by (unfold needs_switch; replace (j <? sm_end) with false by lia; reflexivity).
    lia.
  - (* another value sub-chunk is needed: seek the one that holds the entry *)
    subst need'. rewrite andb_false_r. cbn [negb].
    destruct (seek_subchunk_spec j s ltac:(lia) Kne Hs) as [s2 [S1 [S2 S3]]].
    rewrite S1. cbn [bind].
    pose proof (chain_nth subs 0 (last - first + 1) s2 Hchain S2) as HD. cbv zeta in HD.
    destruct HD as [D1 [D2 [D3 _]]].
    unfold list_get. rewrite (np_get_ok (0,0) subs s2) by lia. cbn [bind].
    rewrite fetch_values_ok by lia. cbn [bind].
    rewrite Hflush_i, Hflush_v.
    apply (Hgoal s2); try lia.
    assert (N2 : needs_switch s2 j = 0).
    { unfold needs_switch.
      replace ((fst (nthd (0,0) subs s2) <=? nthZ map_ j - first) && (nthZ map_ j - first <? snd (nthd (0,0) subs s2)))
        with true by lia.
      cbn [negb]. rewrite andb_false_r. reflexivity. }
    rewrite N2.
    destruct (Z.eq_dec j sm) as [->|Hjs].
    + assert (N1 : needs_switch s sm = 1).
      { unfold needs_switch. rewrite <- Hsc.
        replace (sm <? sm_end) with true by lia. replace (nthZ map_ sm =? inv) with false by lia.
        replace ((fst sc <=? nthZ map_ sm - first) && (nthZ map_ sm - first <? snd sc)) with false
          by (destruct Kout as [?|[_ ?]]; lia).
        reflexivity. }
      lia.
    + pose proof (Hns01 s sm). lia.
  - (* the value buffer is full: flush and call again *)
    subst need'. specialize (Klo eq_refl).
    assert (Hj : sm < j).
    { destruct (Z_lt_dec sm j) as [|Hge]; [assumption|]. exfalso.
      assert (j = sm) by lia. subst j.
      assert (Ht0 : total es1 = 0) by (unfold es1; rewrite slice_empty; reflexivity).
      pose proof (Hfit sm ltac:(lia) Kne). lia. }
    replace ((j =? sm) && negb false) with false by lia.
    cbn [bind]. rewrite Hflush_i, Hflush_v.
    rewrite Hsc. apply (Hgoal s); try lia.
    assert (N2 : needs_switch s j = 0).
    { unfold needs_switch. rewrite <- Hsc.
      replace ((fst sc <=? nthZ map_ j - first) && (nthZ map_ j - first <? snd sc)) with true by lia.
      cbn [negb]. rewrite andb_false_r. reflexivity. }
    pose proof (Hns01 s sm). lia.
Qed.

End Sub.

Lemma firstn_map_const {A} (c:Z) (l:list A) k : (k <= length l)%nat ->
  firstn k (map (fun _ => c) l) = repeat c k.
Proof.
  revert k. induction l as [|x t IH]; intros k H; cbn in H.
  - assert (k = 0)%nat by lia. subst. reflexivity.
  - destruct k; [reflexivity|]. cbn [map firstn repeat]. f_equal. apply IH. lia.
Qed.

(* ---------------- one map sub-chunk ---------------- *)
Definition fits (map_:list Z) : Prop :=
  forall t, 0 <= t < len map_ -> nthZ map_ t <> inv -> len (sval (nthZ map_ t)) <= B.

Lemma istream_subchunk_spec kfuel map_ s e acc ridx rval out_i out_v :
  in_range_map n inv map_ -> fits map_ ->
  0 <= s -> s < e -> e <= len map_ -> e - s <= cs ->
  len ridx = cs -> len rval = B ->
  (Z.to_nat (2 * (e - s) + 1) < kfuel)%nat ->
  let es := map sval (slice map_ s e) in
  exists ridx' rval',
    istream_subchunk kfuel Fixed d_idx d_val map_ inv cs vf (mk_ist 0 0 acc ridx rval out_i out_v) (s, e)
    = Ok (mk_ist 0 0 (acc + total es) ridx' rval' (out_i ++ offs_tail acc es) (out_v ++ concat es)) /\
    len ridx' = cs /\ len rval' = B.
Proof.
  intros Hrange Hfit Hs Hse He Hcsz Hlri Hlrv Hk es.
  unfold istream_subchunk, get_valid_value_extents_v, span_kernels.
  cbn [fst snd s_acc s_ridx s_rval s_ri s_rv s_out_i s_out_v].
  destruct (gve2_spec map_ s e inv) as [[Ha Hg]|[i0 [j0 [H1 [H2 [Hn1 [Hn2 [Hb Hg]]]]]]]]; try lia.
  - (* no valid entry: the current offset repeated *)
    rewrite Hg. cbn [bind]. rewrite Z.eqb_refl.
    assert (Hall : forall x, In x es -> x = []).
    { intros x Hx. unfold es in Hx. apply in_map_iff in Hx. destruct Hx as [k [Hk1 Hk2]].
      apply (In_nth _ _ 0) in Hk2. destruct Hk2 as [q [Hq1 Hq2]].
      assert (Hlen : len (slice map_ s e) = e - s) by (apply len_slice; lia).
      unfold len in Hlen.
      assert (Hkq : k = nthZ map_ (s + Z.of_nat q)).
      { rewrite <- Hq2. change (nth q (slice map_ s e) 0) with (nth q (slice map_ s e) 0).
        replace q with (Z.to_nat (Z.of_nat q)) at 1 by lia.
        change (nth (Z.to_nat (Z.of_nat q)) (slice map_ s e) 0) with (nthd 0 (slice map_ s e) (Z.of_nat q)).
        rewrite nthd_slice by lia. reflexivity. }
      rewrite <- Hk1, Hkq. rewrite Ha by lia. apply sval_inv. }
    exists (map (fun _ => acc) ridx), rval.
    split; [|split; [rewrite len_map; exact Hlri|exact Hlrv]].
    f_equal.
    assert (Hles : length es = Z.to_nat (e - s)).
    { unfold es. rewrite map_length. assert (Hlen : len (slice map_ s e) = e - s) by (apply len_slice; lia).
      unfold len in Hlen. lia. }
    rewrite (offs_tail_all_empty acc es Hall). rewrite (concat_all_empty es Hall).
    assert (Ht0 : total es = 0) by (unfold total; rewrite (concat_all_empty es Hall); reflexivity).
    rewrite Ht0, Z.add_0_r, app_nil_r.
    rewrite np_slice_slice by (rewrite ?len_map; lia). rewrite slice_firstn.
    rewrite firstn_map_const by (unfold len in Hlri; lia). rewrite Hles. reflexivity.
  - rewrite Hg. cbn [bind].
    destruct (nthZ map_ i0 =? inv) eqn:E; [lia|].
    set (first := nthZ map_ i0). set (last := nthZ map_ j0).
    pose proof (Hrange i0 ltac:(lia) Hn1) as Hr1. fold first in Hr1.
    pose proof (Hrange j0 ltac:(lia) Hn2) as Hr2. fold last in Hr2.
    pose proof (Hb i0 ltac:(lia) Hn1) as Hm12. fold first last in Hm12.
    assert (Hin : forall t, s <= t < e -> nthZ map_ t <> inv -> first <= nthZ map_ t <= last).
    { intros t Ht Hne. unfold first, last. apply Hb; assumption. }
    unfold n in *.
    rewrite np_slice_slice by lia.
    unfold calculate_chunk_decomposition.
    destruct (calc_decomp_chain (slice d_idx first (last + 2)) (cs * vf)
                (S (Z.to_nat (last - first + 1 - 0))) 0 (last - first + 1)) as [subs [Hc1 [Hc2 Hc3]]]; try lia.
    { rewrite len_slice by lia. lia. }
    rewrite Hc1. cbn [bind].
    unfold list_get at 1. rewrite (np_get_ok (0,0) subs 0) by lia. cbn [bind].
    pose proof (chain_nth subs 0 (last - first + 1) 0 Hc2 ltac:(lia)) as HC. cbv zeta in HC.
    destruct HC as [C1 [C2 [C3 [_ [_ C6]]]]]. specialize (C6 eq_refl).
    rewrite (fetch_values_ok first last) by (unfold n; lia). cbn [bind].
    destruct (isub_loop_spec map_ s e first last) with (subs := subs) (fuel := kfuel) (s := 0) (sm := s)
      (acc := acc) (ridx := ridx) (rval := rval) (out_i := out_i) (out_v := out_v)
      as [ridx' [rval' [I1 [I2 I3]]]]; try (unfold n; lia); try assumption.
    { intros t Ht Hne. apply Hfit; [lia|exact Hne]. }
    { assert (Hn01 : 0 <= needs_switch map_ e first subs 0 s <= 1)
        by (unfold needs_switch; destruct (_ && _ && _); lia).
      lia. }
    cbv zeta in I1. exists ridx', rval'. split; [exact I1|split; assumption].
Qed.

(* ---------------- all sub-chunks of one map chunk ---------------- *)
Lemma istream_fold_spec kfuel map_ : in_range_map n inv map_ -> fits map_ -> len map_ <= cs ->
  (Z.to_nat (2 * len map_ + 1) < kfuel)%nat ->
  forall subs a acc ridx rval out_i out_v, chain subs a (len map_) -> 0 <= a ->
  len ridx = cs -> len rval = B ->
  let es := map sval (slice map_ a (len map_)) in
  exists ridx' rval',
    fold_res (istream_subchunk kfuel Fixed d_idx d_val map_ inv cs vf) subs (mk_ist 0 0 acc ridx rval out_i out_v)
    = Ok (mk_ist 0 0 (acc + total es) ridx' rval' (out_i ++ offs_tail acc es) (out_v ++ concat es)) /\
    len ridx' = cs /\ len rval' = B.
Proof.
  intros Hv Hfit Hlm Hk. induction subs as [|[s e] t IH]; intros a acc ridx rval out_i out_v Hc Ha Hlri Hlrv es.
  - cbn [chain] in Hc. subst a. unfold es. rewrite slice_empty. cbn [map fold_res offs_tail concat].
    rewrite total_nil, Z.add_0_r, !app_nil_r. exists ridx, rval. repeat split; assumption.
  - cbn [chain fst snd] in Hc. destruct Hc as [-> [H1 [H2 Hc]]]. cbn [fold_res].
    destruct (istream_subchunk_spec kfuel map_ a e acc ridx rval out_i out_v) as [ridx1 [rval1 [E1 [L1 L2]]]];
      try lia; try assumption.
    cbv zeta in E1. rewrite E1. cbn [bind].
    set (es1 := map sval (slice map_ a e)) in *.
    destruct (IH e (acc + total es1) ridx1 rval1 (out_i ++ offs_tail acc es1) (out_v ++ concat es1) Hc
                 ltac:(lia) L1 L2) as [ridx2 [rval2 [E2 [M1 M2]]]].
    cbv zeta in E2. rewrite E2. exists ridx2, rval2. split; [|split; assumption].
    assert (Hsplit : es = es1 ++ map sval (slice map_ e (len map_))).
    { unfold es, es1. rewrite <- map_app. f_equal. apply slice_snoc; lia. }
    rewrite Hsplit. rewrite total_app, offs_tail_app, concat_app, <- !app_assoc.
    f_equal. f_equal. lia.
Qed.

(* ---------------- the map-chunk loop ---------------- *)
Lemma fits_slice mapf a b : 0 <= a -> a <= b -> b <= len mapf -> fits mapf -> fits (slice mapf a b).
Proof.
  intros Ha Hab Hb Hf t Ht Hne. rewrite len_slice in Ht by lia. unfold nthZ in *.
  rewrite nthd_slice in * by lia. apply Hf; [lia|exact Hne].
Qed.

Lemma istream_loop_spec mapf kfuel : in_range_map n inv mapf -> fits mapf ->
  (Z.to_nat (2 * len mapf + 1) < kfuel)%nat ->
  forall fuel m_off acc ridx rval out_i out_v,
  0 <= m_off <= len mapf -> len ridx = cs -> len rval = B ->
  (Z.to_nat (len mapf - m_off) < fuel)%nat ->
  let e := Z.min (m_off + cs) (len mapf) in
  let es := map sval (skipn (Z.to_nat m_off) mapf) in
  exists st, istream_loop fuel kfuel Fixed d_idx d_val mapf inv cs vf (m_off, e) (slice mapf m_off e) m_off
                          (mk_ist 0 0 acc ridx rval out_i out_v) = Ok st /\
             s_out_i st = out_i ++ offs_tail acc es /\ s_out_v st = out_v ++ concat es.
Proof.
  intros Hv Hfit Hk. pose proof (len_nonneg d_idx) as Hd0.
  induction fuel as [|f IH]; intros m_off acc ridx rval out_i out_v Hm Hlri Hlrv Hf e es; [lia|].
  cbn [istream_loop]. rewrite Z.add_0_l.
  destruct (m_off <? len mapf) eqn:E.
  - assert (He : m_off < e <= len mapf) by lia.
    set (map_ := slice mapf m_off e).
    assert (Hlm : len map_ = e - m_off) by (apply len_slice; lia).
    assert (Hvm : in_range_map n inv map_) by (apply in_range_map_slice; try lia; exact Hv).
    assert (Hfm : fits map_) by (apply fits_slice; try lia; exact Hfit).
    unfold get_map_subchunks.
    destruct (subchunks_loop_chain kfuel Fixed map_ inv cs 0) as [subs [Hs Hc]]; try lia.
    rewrite Hs. cbn [bind].
    destruct (istream_fold_spec kfuel map_ Hvm Hfm ltac:(lia) ltac:(lia) subs 0 acc ridx rval out_i out_v Hc
                ltac:(lia) Hlri Hlrv) as [ridx1 [rval1 [E1 [L1 L2]]]].
    cbv zeta in E1. rewrite E1. cbn [bind snd s_acc s_ridx s_rval s_out_i s_out_v].
    rewrite (untrimmed_chunk_spec mapf e cs) by lia. cbv zeta.
    set (es1 := map sval (slice map_ 0 (len map_))) in *.
    destruct (IH e (acc + total es1) ridx1 rval1 (out_i ++ offs_tail acc es1) (out_v ++ concat es1))
      as [st [I1 [I2 I3]]]; try lia.
    cbv zeta in I1. exists st. split; [exact I1|].
    assert (Hsplit : es = es1 ++ map sval (skipn (Z.to_nat e) mapf)).
    { unfold es, es1. rewrite <- map_app. f_equal. rewrite slice_full. unfold map_.
      rewrite (skipn_slice_skipn_ mapf m_off e) by lia. reflexivity. }
    rewrite I2, I3, Hsplit. rewrite offs_tail_app, concat_app, <- !app_assoc. split; reflexivity.
  - exists (mk_ist 0 0 acc ridx rval out_i out_v). split; [reflexivity|].
    assert (Hes : es = []).
    { unfold es. replace m_off with (len mapf) by lia. unfold len. rewrite Nat2Z.id, skipn_all. reflexivity. }
    rewrite Hes. cbn [offs_tail concat s_out_i s_out_v]. rewrite !app_nil_r. split; reflexivity.
Qed.

Lemma decode_nth k : 0 <= k < n -> nthd [] (decode d_idx d_val) k = entry d_idx d_val k.
Proof.
  intros Hk. unfold decode, nthd. unfold n, len in Hk.
  rewrite (nth_indep _ [] (entry d_idx d_val (Z.of_nat 0))) by (rewrite map_length, seq_length; lia).
  rewrite (map_nth (fun q => entry d_idx d_val (Z.of_nat q))). rewrite seq_nth by lia.
  f_equal. lia.
Qed.

Lemma map_sval_spec m : in_range_map n inv m -> map sval m = map_spec [] (decode d_idx d_val) inv m.
Proof.
  intros Hr. unfold map_spec. apply (list_eq_nthd []).
  - rewrite !len_map. reflexivity.
  - intros i Hi. rewrite len_map in Hi. rewrite (nthd_map sval 0 []) by lia.
    rewrite (nthd_map (fun k => if k =? inv then [] else nthd [] (decode d_idx d_val) k) 0 []) by lia.
    fold (nthZ m i). unfold MapIndexedKernel.sval. destruct (nthZ m i =? inv) eqn:E; [reflexivity|].
    symmetry. apply decode_nth. apply Hr; lia.
Qed.

Theorem indexed_stream_correct_gen (m:list Z) (fuel:nat) :
  in_range_map n inv m -> fits m -> (fuel >= 2 * length m + 2)%nat ->
  ordered_map_valid_indexed_stream fuel Fixed d_idx d_val m inv cs vf = Ok (indexed_spec d_idx d_val inv m).
Proof.
  intros Hv Hfit Hf. unfold ordered_map_valid_indexed_stream.
  assert (HB : 0 <= cs * vf) by (apply Z.mul_nonneg_nonneg; lia).
  replace ((cs <? 0) || (cs * vf <? 0)) with false by lia.
  pose proof (len_nonneg m) as Hm0.
  rewrite (untrimmed_chunk_spec m 0 cs) by lia. cbv zeta.
  assert (Hout : np_slice (repeat 0 (Z.to_nat cs)) 0 1 = [0]).
  { rewrite np_slice_slice by (rewrite len_repeat; lia). rewrite slice_firstn.
    destruct (Z.to_nat cs) eqn:En; [lia|]. reflexivity. }
  rewrite Hout.
  destruct (istream_loop_spec m fuel Hv Hfit ltac:(unfold len; lia) fuel 0 0
              (repeat 0 (Z.to_nat cs)) (repeat 0 (Z.to_nat (cs * vf))) [0] [])
    as [st [I1 [I2 I3]]]; try (rewrite ?len_repeat; unfold len; lia).
  cbv zeta in I1. rewrite Z.add_0_l in *. rewrite I1. cbn [bind].
  rewrite I2, I3. cbn [Z.to_nat skipn app]. unfold indexed_spec.
  rewrite <- (map_sval_spec m Hv). rewrite offsets_of_offs_tail. reflexivity.
Qed.

End Driver.

(* readable top-level form *)
Definition entries_fit (d_idx d_val:list Z) (inv:Z) (m:list Z) (bytes:Z) : Prop :=
  forall t, 0 <= t < len m -> nthZ m t <> inv -> len (entry d_idx d_val (nthZ m t)) <= bytes.

Theorem indexed_stream_correct_top (d_idx d_val:list Z) (inv:Z) (m:list Z) (cs vf:Z) (fuel:nat) :
  wf_indexed d_idx d_val -> 1 <= cs -> 0 <= vf ->
  in_range_map (len d_idx - 1) inv m -> entries_fit d_idx d_val inv m (cs * vf) ->
  (fuel >= 2 * length m + 2)%nat ->
  ordered_map_valid_indexed_stream fuel Fixed d_idx d_val m inv cs vf = Ok (indexed_spec d_idx d_val inv m).
Proof.
  intros Hwf Hcs Hvf Hv Hfit Hf.
  apply indexed_stream_correct_gen; try assumption.
  intros t Ht Hne. unfold sval. destruct (nthZ m t =? inv) eqn:E; [lia|]. apply Hfit; assumption.
Qed.
