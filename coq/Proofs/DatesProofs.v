(* Proofs/DatesProofs.v — C20: the model of the date helpers meets Spec/DatesSpec.v. *)
From Coq Require Import ZArith List Bool Lia.
From EV Require Import Res Arr Dates DatesSpec.
Import ListNotations.
Open Scope Z_scope.

(* ====================================================================== get_periods *)
Definition loop_cond (up:bool) (e c:Z) : bool := if up then c <=? e else c >=? e.

Lemma seq_map_S {A} (f:nat -> A) a n : map f (seq (S a) n) = map (fun k => f (S k)) (seq a n).
Proof. rewrite <- seq_shift, map_map. reflexivity. Qed.

Lemma arith_prog_S s td n : arith_prog s td (S n) = s :: arith_prog (s + td) td n.
Proof.
  unfold arith_prog. cbn [seq map]. f_equal; [lia|]. rewrite seq_map_S. apply map_ext. intros k. lia.
Qed.

Lemma periods_loop_run up e td : forall (m:nat) fuel cur acc,
  (forall k:nat, (k < m)%nat -> loop_cond up e (cur + Z.of_nat k * td) = true) ->
  loop_cond up e (cur + Z.of_nat m * td) = false ->
  (fuel >= S m)%nat ->
  periods_loop fuel up cur e td acc = Ok (rev acc ++ arith_prog cur td m).
Proof.
  induction m as [|m IH]; intros fuel cur acc Hlt Hge Hfuel.
  - destruct fuel as [|f]; [lia|]. cbn [periods_loop]. unfold loop_cond in Hge.
    replace (cur + Z.of_nat 0 * td) with cur in Hge by lia. rewrite Hge.
    unfold arith_prog. cbn. rewrite app_nil_r. reflexivity.
  - destruct fuel as [|f]; [lia|]. cbn [periods_loop].
    pose proof (Hlt O ltac:(lia)) as H0. unfold loop_cond in H0.
    replace (cur + Z.of_nat 0 * td) with cur in H0 by lia. rewrite H0.
    rewrite (IH f (cur + td) (cur :: acc)).
    + cbn [rev]. rewrite <- app_assoc. rewrite arith_prog_S. reflexivity.
    + intros k Hk. specialize (Hlt (S k) ltac:(lia)).
      replace (cur + td + Z.of_nat k * td) with (cur + Z.of_nat (S k) * td) by lia. exact Hlt.
    + replace (cur + td + Z.of_nat m * td) with (cur + Z.of_nat (S m) * td) by lia. exact Hge.
    + lia.
Qed.

(* the exact count: n steps fit, n+1 do not (both signs) *)
Lemma periods_n_up s e td : 0 < td -> s <= e ->
  let n := periods_n s e td in 0 <= n /\ s + n * td <= e < s + (n + 1) * td.
Proof.
  intros Htd Hse n. unfold n, periods_n. rewrite (Z.abs_eq (e - s)) by lia. rewrite (Z.abs_eq td) by lia.
  pose proof (Z.div_pos (e - s) td ltac:(lia) Htd).
  pose proof (Z.mul_div_le (e - s) td Htd). pose proof (Z.mul_succ_div_gt (e - s) td Htd). lia.
Qed.

Lemma periods_n_down s e td : td < 0 -> e <= s ->
  let n := periods_n s e td in 0 <= n /\ s + (n + 1) * td < e <= s + n * td.
Proof.
  intros Htd Hse n. unfold n, periods_n. rewrite (Z.abs_neq (e - s)) by lia. rewrite (Z.abs_neq td) by lia.
  replace (- (e - s)) with (s - e) by lia.
  pose proof (Z.div_pos (s - e) (- td) ltac:(lia) ltac:(lia)).
  pose proof (Z.mul_div_le (s - e) (- td) ltac:(lia)).
  pose proof (Z.mul_succ_div_gt (s - e) (- td) ltac:(lia)). lia.
Qed.

Lemma get_periods_spec_eq s e unit delta fuel :
  0 < unit -> (fuel >= periods_fuel s e unit delta)%nat ->
  get_periods fuel s e unit delta = periods_spec s e unit delta.
Proof.
  intros Hu Hfuel. unfold get_periods, periods_spec, periods_bad.
  destruct (delta =? 0) eqn:E0; [reflexivity|]. apply Z.eqb_neq in E0.
  destruct (delta <? 0) eqn:En.
  - apply Z.ltb_lt in En. destruct (s <? e) eqn:Ese; [reflexivity|]. apply Z.ltb_ge in Ese.
    cbn [andb orb]. replace (0 <? delta) with false by (symmetry; apply Z.ltb_ge; lia). cbn [andb].
    set (td := unit * delta). assert (Htd : td < 0) by (unfold td; nia).
    change (periods_fuel s e unit delta) with (Z.to_nat (periods_n s e td + 2)) in Hfuel.
    pose proof (periods_n_down s e td Htd Ese) as [Hn0 Hn]. set (n := periods_n s e td) in *.
    rewrite arith_prog_S.
    rewrite (periods_loop_run false e td (Z.to_nat n)).
    + reflexivity.
    + intros k Hk. unfold loop_cond. apply Z.geb_le.
      assert (Hk1 : 0 <= n - (Z.of_nat k + 1)) by lia.
      pose proof (Z.mul_nonneg_nonneg _ (- td) Hk1 ltac:(lia)). lia.
    + unfold loop_cond. rewrite Z.geb_leb. apply Z.leb_gt. rewrite Z2Nat.id by lia. lia.
    + lia.
  - apply Z.ltb_ge in En. cbn [andb orb]. assert (Hd : 0 < delta) by lia.
    replace (0 <? delta) with true by (symmetry; apply Z.ltb_lt; lia). cbn [andb].
    destruct (e <? s) eqn:Ees; [reflexivity|]. apply Z.ltb_ge in Ees.
    set (td := unit * delta). assert (Htd : 0 < td) by (unfold td; nia).
    change (periods_fuel s e unit delta) with (Z.to_nat (periods_n s e td + 2)) in Hfuel.
    pose proof (periods_n_up s e td Htd Ees) as [Hn0 Hn]. set (n := periods_n s e td) in *.
    rewrite arith_prog_S.
    rewrite (periods_loop_run true e td (Z.to_nat n)).
    + reflexivity.
    + intros k Hk. unfold loop_cond. apply Z.leb_le.
      assert (Hk1 : 0 <= n - (Z.of_nat k + 1)) by lia.
      pose proof (Z.mul_nonneg_nonneg _ td Hk1 ltac:(lia)). lia.
    + unfold loop_cond. apply Z.leb_gt. rewrite Z2Nat.id by lia. lia.
    + lia.
Qed.

Lemma nth_map_lt {A B} (f:A -> B) l n da db : (n < length l)%nat -> nth n (map f l) db = f (nth n l da).
Proof.
  revert n. induction l as [|x l IH]; intros n H; cbn in *; [lia|]. destruct n; [reflexivity|]. apply IH. lia.
Qed.

Lemma arith_prog_length s td n : length (arith_prog s td n) = n.
Proof. unfold arith_prog. rewrite map_length, seq_length. reflexivity. Qed.

Lemma arith_prog_nth s td n k : 0 <= k < Z.of_nat n -> nthZ (arith_prog s td n) k = s + k * td.
Proof.
  intros Hk. unfold nthZ, nthd, arith_prog.
  rewrite (nth_map_lt _ _ _ O) by (rewrite seq_length; lia). rewrite seq_nth by lia.
  replace (Z.of_nat (0 + Z.to_nat k)) with k by lia. reflexivity.
Qed.

Lemma periods_bad_iff s e delta :
  periods_bad s e delta = true <-> delta = 0 \/ (delta < 0 /\ s < e) \/ (0 < delta /\ e < s).
Proof. unfold periods_bad. lia. Qed.

(* what the closed form means: n+1 equally spaced boundaries, the last one is the last that does
   not pass `e` in the direction of delta *)
Lemma periods_spec_meaning s e unit delta l : 0 < unit ->
  periods_spec s e unit delta = Ok l ->
  let td := unit * delta in
  exists n, 0 <= n /\ len l = n + 1 /\ (forall k, 0 <= k <= n -> nthZ l k = s + k * td) /\
            (0 < delta -> s <= e /\ s + n * td <= e < s + (n + 1) * td) /\
            (delta < 0 -> e <= s /\ s + (n + 1) * td < e <= s + n * td).
Proof.
  intros Hu H td. unfold periods_spec in H. destruct (periods_bad s e delta) eqn:Eb; [discriminate|].
  injection H as <-. fold td.
  assert (Hnb : ~ (delta = 0 \/ (delta < 0 /\ s < e) \/ (0 < delta /\ e < s))).
  { intros Hc. apply periods_bad_iff in Hc. congruence. }
  assert (Hn0 : 0 <= periods_n s e td).
  { unfold periods_n. destruct (Z.eq_dec (Z.abs td) 0) as [->|Hne]; [rewrite Zdiv_0_r; lia|].
    apply Z.div_pos; lia. }
  exists (periods_n s e td). split; [exact Hn0|]. split; [|split; [|split]].
  - unfold len. rewrite arith_prog_length. lia.
  - intros k Hk. apply arith_prog_nth. lia.
  - intros Hd. assert (Htd : 0 < td) by (unfold td; nia).
    split; [lia|]. apply (periods_n_up s e td Htd). lia.
  - intros Hd. assert (Htd : td < 0) by (unfold td; nia).
    split; [lia|]. apply (periods_n_down s e td Htd). lia.
Qed.

Lemma periods_spec_raises s e unit delta :
  (periods_spec s e unit delta = Raise E_ValueError <->
   delta = 0 \/ (delta < 0 /\ s < e) \/ (0 < delta /\ e < s)) /\
  (forall r, periods_spec s e unit delta = r -> r = Raise E_ValueError \/ exists l, r = Ok l).
Proof.
  unfold periods_spec. rewrite <- periods_bad_iff. destruct (periods_bad s e delta); split.
  - tauto.
  - intros r <-. left; reflexivity.
  - split; [discriminate|discriminate].
  - intros r <-. right. eauto.
Qed.

(* ====================================================================== get_days *)
Lemma minimum_None l : minimum l = None <-> l = [].
Proof.
  destruct l as [|x t]; cbn; [tauto|]. destruct (minimum t); split; discriminate.
Qed.

Lemma minimum_is_min l m : minimum l = Some m -> is_min m l.
Proof.
  revert m. induction l as [|x t IH]; intros m H; cbn in H; [discriminate|].
  destruct (minimum t) as [mt|] eqn:E.
  - injection H as <-. specialize (IH mt eq_refl). destruct IH as [Hin Hle]. split.
    + destruct (Z.min_spec x mt) as [[_ ->]|[_ ->]]; [left; reflexivity|right; exact Hin].
    + intros y [<-|Hy]; [lia|]. specialize (Hle y Hy). lia.
  - injection H as <-. apply minimum_None in E. subst t. split; [left; reflexivity|].
    intros y [<-|[]]. lia.
Qed.

Lemma is_min_unique a b l : is_min a l -> is_min b l -> a = b.
Proof. intros [Ha Hla] [Hb Hlb]. specialize (Hla b Hb). specialize (Hlb a Ha). lia. Qed.

Lemma is_min_minimum l m : is_min m l -> minimum l = Some m.
Proof.
  intros H. destruct (minimum l) as [m'|] eqn:E.
  - f_equal. apply (is_min_unique m' m l); [apply minimum_is_min; exact E|exact H].
  - apply minimum_None in E. subst l. destruct H as [[] _].
Qed.

Lemma mask_selected ts : forall f, mask ts f = selected ts f.
Proof.
  unfold selected. induction ts as [|t ts IH]; intros [|b f]; cbn; try reflexivity.
  destruct b; cbn; rewrite IH; reflexivity.
Qed.

Lemma selected_all ts : selected ts (repeat true (length ts)) = ts.
Proof. unfold selected. induction ts as [|t ts IH]; cbn; [reflexivity|]. f_equal. exact IH. Qed.

Lemma map_true_repeat (ts:list Z) : map (fun _ => true) ts = repeat true (length ts).
Proof. induction ts as [|t ts IH]; cbn; [reflexivity|]. f_equal. exact IH. Qed.

Lemma selected_In ts f x :
  In x (selected ts f) <-> exists j, (j < length ts)%nat /\ nth j f false = true /\ nth j ts 0 = x.
Proof.
  unfold selected. revert f. induction ts as [|t ts IH]; intros f.
  - cbn. split; [tauto|]. intros [j [Hj _]]. cbn in Hj. lia.
  - destruct f as [|b f].
    + cbn. split; [tauto|]. intros [j [_ [Hf _]]]. destruct j; discriminate.
    + cbn [combine filter snd]. split.
      * intros H. destruct b.
        -- cbn in H. destruct H as [<-|H].
           ++ exists O. cbn. split; [lia|tauto].
           ++ apply IH in H. destruct H as [j [Hj [Hf Ht]]]. exists (S j). cbn. split; [lia|tauto].
        -- apply IH in H. destruct H as [j [Hj [Hf Ht]]]. exists (S j). cbn. split; [lia|tauto].
      * intros [j [Hj [Hf Ht]]]. destruct j as [|j].
        -- cbn in Hf, Ht. subst b t. cbn. left; reflexivity.
        -- cbn in Hj, Hf, Ht. assert (Hin : In x (map fst (filter snd (combine ts f)))).
           { apply IH. exists j. split; [lia|tauto]. }
           destruct b; cbn; [right|]; exact Hin.
Qed.

Lemma bcast_same {A B C} (f:A -> B -> C) la lb : length la = length lb ->
  bcast f la lb = Ok (map (fun p => f (fst p) (snd p)) (combine la lb)).
Proof. intros H. unfold bcast, len. rewrite H, Z.eqb_refl. reflexivity. Qed.

Lemma and_flags (g:Z -> bool) ts : forall f, length f = length ts ->
  map (fun p => andb (fst p) (snd p)) (combine f (map g ts)) =
  map (fun p => snd p && g (fst p)) (combine ts f).
Proof.
  induction ts as [|t ts IH]; intros [|b f] H; cbn in *; try reflexivity; try lia.
  f_equal. apply IH. lia.
Qed.

Lemma combine_map_self {X Y W} (h:Z -> X -> Y) (k:Z -> Y -> W) ts : forall f,
  map (fun p => k (fst p) (snd p)) (combine ts (map (fun p => h (fst p) (snd p)) (combine ts f))) =
  map (fun p => k (fst p) (h (fst p) (snd p))) (combine ts f).
Proof.
  induction ts as [|t ts IH]; intros [|b f]; cbn; try reflexivity. f_equal. apply IH.
Qed.

Lemma combine_map_length {X Y} (h:Z * X -> Y) ts f : length f = length ts ->
  length (map h (combine ts f)) = length ts.
Proof. intros H. rewrite map_length, combine_length. lia. Qed.

(* the general branch of get_days, named *)
Definition gd_body (dlen:Z) (ts:list Z) (flt:option (list bool)) (s e:option Z)
  : res (list Z * option (list bool)) :=
    let in0 := match flt with
               | None => map (fun _ => true) ts
               | Some f => f
               end in
    do '(origin, in1) <-
       match s with
       | Some sd =>
         do r <- bcast andb in0 (map (fun t => sd <=? t) ts);
         Ok (sd, r)
       | None =>
         do sel <- match flt with
                   | None => Ok ts
                   | Some f => if (len f =? len ts) || (len f =? 0) then Ok (mask ts f)
                               else Raise E_IndexError
                   end;
         match minimum sel with
         | None => Raise E_ValueError
         | Some m => Ok (m, in0)
         end
       end;
    do in2 <- match e with
              | Some ed => bcast andb in1 (map (fun t => t <? ed) ts)
              | None => Ok in1
              end;
    Ok (map (day_of dlen origin) ts, Some in2).

Lemma get_days_unfold dlen ts flt s e :
  get_days dlen ts flt s e =
  if no_args flt s e
  then match minimum ts with
       | None => Raise E_ValueError
       | Some m => Ok (map (day_of dlen m) ts, None)
       end
  else gd_body dlen ts flt s e.
Proof. destruct flt, s, e; reflexivity. Qed.

Lemma in0_eff ts flt :
  match flt with None => map (fun _ => true) ts | Some f => f end = eff_filter ts flt.
Proof. destruct flt; cbn; [reflexivity|apply map_true_repeat]. Qed.

Lemma sel_eff ts flt : length (eff_filter ts flt) = length ts ->
  match flt with
  | None => Ok ts
  | Some f => if (len f =? len ts) || (len f =? 0) then Ok (mask ts f) else Raise E_IndexError
  end = Ok (selected ts (eff_filter ts flt)).
Proof.
  intros H. destruct flt as [f|]; cbn in *.
  - unfold len. rewrite H, Z.eqb_refl. cbn. rewrite mask_selected. reflexivity.
  - rewrite selected_all. reflexivity.
Qed.

Lemma flags_step1 ts f s : length f = length ts ->
  map (fun p => snd p && geb_opt s (fst p)) (combine ts f) =
  match s with
  | Some sd => map (fun p => snd p && (sd <=? fst p)) (combine ts f)
  | None => f
  end.
Proof.
  intros H. destruct s; [reflexivity|]. cbn [geb_opt]. revert f H.
  induction ts as [|t ts IH]; intros [|b f] H; cbn in *; try reflexivity; try lia.
  rewrite andb_true_r. f_equal. apply IH. lia.
Qed.

Lemma gd_body_correct dlen ts flt s e o :
  let f := eff_filter ts flt in
  length f = length ts -> origin_spec ts f s o ->
  gd_body dlen ts flt s e = Ok (days_spec dlen o ts, Some (flags_spec ts f s e)).
Proof.
  intros f Hlen Ho. unfold gd_body. rewrite in0_eff. fold f.
  assert (H1 : match s with
       | Some sd => do r <- bcast andb f (map (fun t => sd <=? t) ts); Ok (sd, r)
       | None =>
         do sel <- match flt with
                   | None => Ok ts
                   | Some f => if (len f =? len ts) || (len f =? 0) then Ok (mask ts f)
                               else Raise E_IndexError
                   end;
         match minimum sel with
         | None => Raise E_ValueError
         | Some m => Ok (m, f)
         end
       end = Ok (o, map (fun p => snd p && geb_opt s (fst p)) (combine ts f))).
  { rewrite flags_step1 by exact Hlen. destruct s as [sd|]; cbn in Ho.
    - subst o. rewrite bcast_same by (rewrite map_length; exact Hlen). cbn [bind].
      rewrite and_flags by exact Hlen. reflexivity.
    - rewrite sel_eff by exact Hlen. cbn [bind]. fold f. rewrite (is_min_minimum _ _ Ho). reflexivity. }
  rewrite H1. cbn [bind].
  set (in1 := map (fun p => snd p && geb_opt s (fst p)) (combine ts f)).
  assert (Hl1 : length in1 = length ts) by (apply combine_map_length; exact Hlen).
  assert (H2 : match e with
       | Some ed => bcast andb in1 (map (fun t => t <? ed) ts)
       | None => Ok in1
       end = Ok (flags_spec ts f s e)).
  { unfold flags_spec, flag_at. destruct e as [ed|].
    - rewrite bcast_same by (rewrite map_length; exact Hl1). rewrite and_flags by exact Hl1.
      unfold in1.
      rewrite (combine_map_self (fun t b => b && geb_opt s t) (fun t b => b && (t <? ed))).
      reflexivity.
    - f_equal. unfold in1. apply map_ext. intros p. cbn [ltb_opt]. rewrite andb_true_r. reflexivity. }
  rewrite H2. cbn [bind]. reflexivity.
Qed.

Lemma gd_body_raises dlen ts flt s e :
  let f := eff_filter ts flt in
  length f = length ts -> s = None -> selected ts f = [] ->
  gd_body dlen ts flt s e = Raise E_ValueError.
Proof.
  intros f Hlen -> Hsel. unfold gd_body. rewrite sel_eff by exact Hlen. cbn [bind]. fold f.
  rewrite Hsel. reflexivity.
Qed.

Lemma get_days_ok dlen ts flt s e o :
  let f := eff_filter ts flt in
  length f = length ts -> origin_spec ts f s o ->
  get_days dlen ts flt s e =
  Ok (days_spec dlen o ts, if no_args flt s e then None else Some (flags_spec ts f s e)).
Proof.
  intros f Hlen Ho. rewrite get_days_unfold. destruct (no_args flt s e) eqn:En.
  - destruct flt; [discriminate|]. destruct s; [discriminate|]. cbn in Ho, f.
    unfold f in Ho. rewrite selected_all in Ho. rewrite (is_min_minimum _ _ Ho). reflexivity.
  - apply gd_body_correct; assumption.
Qed.

Lemma get_days_empty_raises dlen ts flt s e :
  let f := eff_filter ts flt in
  length f = length ts -> s = None -> selected ts f = [] ->
  get_days dlen ts flt s e = Raise E_ValueError.
Proof.
  intros f Hlen Hs Hsel. rewrite get_days_unfold. destruct (no_args flt s e) eqn:En.
  - destruct flt; [discriminate|]. cbn in f. unfold f in Hsel. rewrite selected_all in Hsel.
    subst ts. reflexivity.
  - apply gd_body_raises; assumption.
Qed.

(* the two cases are exhaustive *)
Lemma origin_cases ts f s :
  (exists o, origin_spec ts f s o) \/ (s = None /\ selected ts f = []).
Proof.
  destruct s as [sd|]; [left; exists sd; reflexivity|].
  destruct (minimum (selected ts f)) as [m|] eqn:E.
  - left. exists m. apply minimum_is_min. exact E.
  - right. split; [reflexivity|]. apply minimum_None. exact E.
Qed.

Lemma origin_unique ts f s o1 o2 : origin_spec ts f s o1 -> origin_spec ts f s o2 -> o1 = o2.
Proof. destruct s; cbn; [congruence|apply is_min_unique]. Qed.

Lemma get_days_total dlen ts flt s e :
  let f := eff_filter ts flt in
  length f = length ts ->
  (exists o, origin_spec ts f s o /\
     get_days dlen ts flt s e =
     Ok (days_spec dlen o ts, if no_args flt s e then None else Some (flags_spec ts f s e)))
  \/ (s = None /\ selected ts f = [] /\ get_days dlen ts flt s e = Raise E_ValueError).
Proof.
  intros f Hlen. destruct (origin_cases ts f s) as [[o Ho]|[Hs Hsel]].
  - left. exists o. split; [exact Ho|]. apply get_days_ok; assumption.
  - right. split; [exact Hs|]. split; [exact Hsel|]. apply get_days_empty_raises; assumption.
Qed.

(* index-level reading of the specification functions *)
Lemma flags_spec_length ts f s e : length f = length ts -> length (flags_spec ts f s e) = length ts.
Proof. intros H. unfold flags_spec. apply combine_map_length. exact H. Qed.

Lemma flags_spec_nth ts f s e j : length f = length ts -> (j < length ts)%nat ->
  nth j (flags_spec ts f s e) false =
  nth j f false && geb_opt s (nth j ts 0) && ltb_opt e (nth j ts 0).
Proof.
  intros Hl Hj. unfold flags_spec.
  rewrite (nth_map_lt _ _ _ (0, false)) by (rewrite combine_length; lia).
  rewrite combine_nth by lia. reflexivity.
Qed.

Lemma days_spec_nth dlen o ts j : (j < length ts)%nat ->
  nth j (days_spec dlen o ts) 0 = (nth j ts 0 - o) / dlen.
Proof.
  intros Hj. unfold days_spec.
  rewrite (nth_map_lt _ _ _ 0) by lia. reflexivity.
Qed.

(* "whole number of dlen-tick days elapsed since the origin" *)
Lemma day_floor dlen o t q : 0 < dlen ->
  ((t - o) / dlen = q <-> o + q * dlen <= t < o + (q + 1) * dlen).
Proof.
  intros Hd. split.
  - intros <-. pose proof (Z.mul_div_le (t - o) dlen Hd).
    pose proof (Z.mul_succ_div_gt (t - o) dlen Hd). lia.
  - intros H. symmetry. apply (Z.div_unique_pos (t - o) dlen q (t - o - q * dlen)); lia.
Qed.

(* ====================================================================== generate_period_offset_map *)
Lemma nthZ_cons_succ x l i : 0 <= i -> nthZ (x :: l) (i + 1) = nthZ l i.
Proof. apply nthd_cons_succ. Qed.

Lemma nthZ_cons_pos x l i : 0 < i -> nthZ (x :: l) i = nthZ l (i - 1).
Proof. intros H. replace i with ((i - 1) + 1) at 1 by lia. apply nthZ_cons_succ. lia. Qed.

Lemma nthZ_repeat v n d : 0 <= d < Z.of_nat n -> nthZ (repeat v n) d = v.
Proof.
  intros H. unfold nthZ, nthd. assert (Hn : (Z.to_nat d < n)%nat) by lia. revert Hn.
  generalize (Z.to_nat d) as k. clear H. induction n as [|n IH]; intros k Hk; [lia|].
  destruct k; cbn; [reflexivity|]. apply IH. lia.
Qed.

Lemma len_repeat {A} (v:A) n : len (repeat v n) = Z.of_nat n.
Proof. unfold len. rewrite repeat_length. reflexivity. Qed.

Lemma len_firstn {A} (l:list A) a : 0 <= a <= len l -> len (firstn (Z.to_nat a) l) = a.
Proof. unfold len. intros H. rewrite firstn_length. lia. Qed.

Lemma len_skipn {A} (l:list A) a : 0 <= a <= len l -> len (skipn (Z.to_nat a) l) = len l - a.
Proof. unfold len. intros H. rewrite skipn_length. lia. Qed.

Lemma slice_assign_spec arr a b v : 0 <= a -> a <= b -> b <= len arr ->
  len (slice_assign arr a b v) = len arr /\
  forall d, 0 <= d < len arr ->
    nthZ (slice_assign arr a b v) d = if (a <=? d) && (d <? b) then v else nthZ arr d.
Proof.
  intros Ha Hab Hb. unfold slice_assign, norm_bound.
  replace (a <? 0) with false by (symmetry; apply Z.ltb_ge; lia).
  replace (b <? 0) with false by (symmetry; apply Z.ltb_ge; lia).
  rewrite (Z.min_l a) by lia. rewrite (Z.min_l b) by lia.
  destruct (a <? b) eqn:Eab.
  - apply Z.ltb_lt in Eab. split.
    + rewrite !len_app, len_repeat, len_firstn, len_skipn by lia. lia.
    + intros d Hd. destruct (Z.lt_ge_cases d a) as [Hda|Hda].
      * replace ((a <=? d) && (d <? b)) with false by lia.
        unfold nthZ. rewrite nthd_app_l by (rewrite len_firstn; lia).
        unfold nthd. apply nth_firstn. lia.
      * unfold nthZ. rewrite nthd_app_r by (rewrite len_firstn; lia). rewrite len_firstn by lia.
        destruct (Z.lt_ge_cases d b) as [Hdb|Hdb].
        -- replace ((a <=? d) && (d <? b)) with true by lia.
           rewrite nthd_app_l by (rewrite len_repeat; lia). apply nthZ_repeat. lia.
        -- replace ((a <=? d) && (d <? b)) with false by lia.
           rewrite nthd_app_r by (rewrite len_repeat; lia). rewrite len_repeat.
           unfold nthd. rewrite nth_skipn. f_equal. lia.
  - apply Z.ltb_ge in Eab. split; [reflexivity|]. intros d Hd.
    replace ((a <=? d) && (d <? b)) with false by lia. reflexivity.
Qed.

Lemma last_cons2 (x y:Z) l : last (x :: y :: l) 0 = last (y :: l) 0.
Proof. reflexivity. Qed.

Lemma last_nthZ l : l <> [] -> last l 0 = nthZ l (len l - 1).
Proof.
  induction l as [|x t IH]; intros H; [congruence|]. destruct t as [|y t'].
  - reflexivity.
  - rewrite last_cons2, IH by discriminate. rewrite (len_cons x). rewrite (nthZ_cons_pos x).
    + f_equal. lia.
    + rewrite len_cons. pose proof (len_nonneg t'). lia.
Qed.

Lemma sorted_le_last l k : sorted l -> 0 <= k < len l -> nthZ l k <= last l 0.
Proof.
  intros Hs Hk. rewrite last_nthZ by (intros ->; unfold len in Hk; cbn in Hk; lia).
  apply Hs; lia.
Qed.

Lemma sorted_head2 x y l : sorted (x :: y :: l) -> x <= y.
Proof.
  intros H. specialize (H 0 1 ltac:(lia) ltac:(lia)). rewrite !len_cons in H.
  pose proof (len_nonneg l). apply H. lia.
Qed.

Lemma fill_periods_cons2 d0 d1 t i arr :
  fill_periods (d0 :: d1 :: t) i arr = fill_periods (d1 :: t) (i + 1) (slice_assign arr d0 d1 i).
Proof. reflexivity. Qed.

Lemma fill_periods_inv : forall ds i arr,
  sorted ds -> ds <> [] -> 0 <= nthZ ds 0 -> last ds 0 <= len arr ->
  len (fill_periods ds i arr) = len arr /\
  forall d, 0 <= d < len arr ->
    (d < nthZ ds 0 -> nthZ (fill_periods ds i arr) d = nthZ arr d) /\
    (last ds 0 <= d -> nthZ (fill_periods ds i arr) d = nthZ arr d) /\
    (forall k, 0 <= k < len ds - 1 -> nthZ ds k <= d < nthZ ds (k + 1) ->
               nthZ (fill_periods ds i arr) d = i + k).
Proof.
  induction ds as [|d0 t IH]; intros i arr Hs Hne H0 Hlast; [congruence|].
  destruct t as [|d1 t'].
  - cbn [fill_periods]. split; [reflexivity|]. intros d Hd. split; [reflexivity|]. split; [reflexivity|].
    intros k Hk. unfold len in Hk. cbn in Hk. lia.
  - rewrite fill_periods_cons2. change (nthZ (d0 :: d1 :: t') 0) with d0 in *.
    pose proof (sorted_head2 _ _ _ Hs) as H01. pose proof (sorted_tail _ _ Hs) as Hst.
    rewrite last_cons2 in *.
    assert (Hd1last : d1 <= last (d1 :: t') 0).
    { apply (sorted_le_last (d1 :: t') 0 Hst). rewrite len_cons. pose proof (len_nonneg t'). lia. }
    destruct (slice_assign_spec arr d0 d1 i H0 H01 ltac:(lia)) as [Hlen' Hnth'].
    set (arr' := slice_assign arr d0 d1 i) in *.
    destruct (IH (i + 1) arr' Hst ltac:(discriminate) ltac:(change (nthZ (d1 :: t') 0) with d1; lia)
                 ltac:(lia)) as [HlenR HR].
    change (nthZ (d1 :: t') 0) with d1 in HR.
    split; [lia|]. intros d Hd. rewrite Hlen' in HR. specialize (HR d Hd). destruct HR as [HR1 [HR2 HR3]].
    specialize (Hnth' d Hd). split; [|split].
    + intros Hlt. rewrite HR1 by lia. rewrite Hnth'. replace ((d0 <=? d) && (d <? d1)) with false by lia.
      reflexivity.
    + intros Hge. rewrite HR2 by lia. rewrite Hnth'. replace ((d0 <=? d) && (d <? d1)) with false by lia.
      reflexivity.
    + intros k Hk Hin. destruct (Z.eq_dec k 0) as [->|Hk0].
      * change (nthZ (d0 :: d1 :: t') 0) with d0 in Hin. change (nthZ (d0 :: d1 :: t') (0 + 1)) with d1 in Hin.
        rewrite HR1 by lia. rewrite Hnth'. replace ((d0 <=? d) && (d <? d1)) with true by lia. lia.
      * rewrite (nthZ_cons_pos d0) in Hin by lia. rewrite (nthZ_cons_pos d0) in Hin by lia.
        replace (k + 1 - 1) with ((k - 1) + 1) in Hin by lia.
        rewrite (HR3 (k - 1)); [lia| |exact Hin].
        rewrite (len_cons d0) in Hk. lia.
Qed.

Lemma interval_exists : forall ds d, ds <> [] -> nthZ ds 0 <= d < last ds 0 ->
  exists k, 0 <= k < len ds - 1 /\ nthZ ds k <= d < nthZ ds (k + 1).
Proof.
  induction ds as [|d0 t IH]; intros d Hne Hd; [congruence|]. destruct t as [|d1 t'].
  - cbn in Hd. lia.
  - change (nthZ (d0 :: d1 :: t') 0) with d0 in Hd. rewrite last_cons2 in Hd.
    destruct (Z.lt_ge_cases d d1) as [Hlt|Hge].
    + exists 0. rewrite !len_cons. pose proof (len_nonneg t'). split; [lia|].
      change (nthZ (d0 :: d1 :: t') 0) with d0. change (nthZ (d0 :: d1 :: t') (0 + 1)) with d1. lia.
    + destruct (IH d ltac:(discriminate)) as [k [Hk Hin]].
      { change (nthZ (d1 :: t') 0) with d1. lia. }
      exists (k + 1). rewrite (len_cons d0). split; [lia|].
      rewrite !(nthZ_cons_succ d0) by lia. exact Hin.
Qed.

Lemma interval_unique ds d i j : sorted ds ->
  0 <= i < len ds - 1 -> 0 <= j < len ds - 1 ->
  in_period ds i d -> in_period ds j d -> i = j.
Proof.
  unfold in_period. intros Hs Hi Hj Hdi Hdj.
  destruct (Z.lt_trichotomy i j) as [Hlt|[Heq|Hgt]]; [|exact Heq|].
  - pose proof (Hs (i + 1) j ltac:(lia) ltac:(lia) ltac:(lia)). lia.
  - pose proof (Hs (j + 1) i ltac:(lia) ltac:(lia) ltac:(lia)). lia.
Qed.

Lemma period_deltas_spec dlen periods : period_deltas dlen periods = deltas_spec dlen periods.
Proof. destruct periods; reflexivity. Qed.

Lemma len_map {A B} (g:A -> B) l : len (map g l) = len l.
Proof. unfold len. rewrite map_length. reflexivity. Qed.

Lemma nthZ_map g l i : 0 <= i < len l -> nthZ (map g l) i = g (nthZ l i).
Proof. intros H. unfold nthZ, nthd, len in *. apply nth_map_lt. lia. Qed.

Lemma sorted_map_mono g l : (forall x y, x <= y -> g x <= g y) -> sorted l -> sorted (map g l).
Proof.
  intros Hg Hs i j Hi Hij Hj. rewrite len_map in Hj. rewrite !nthZ_map by lia. apply Hg. apply Hs; lia.
Qed.

Lemma deltas_sorted dlen periods : 0 < dlen -> sorted periods -> sorted (deltas_spec dlen periods).
Proof.
  intros Hd Hs. unfold deltas_spec. apply sorted_map_mono; [|exact Hs].
  intros x y Hxy. apply Z.div_le_mono; lia.
Qed.

Lemma deltas_head dlen periods : 0 < dlen -> periods <> [] -> nthZ (deltas_spec dlen periods) 0 = 0.
Proof.
  intros Hd Hne. destruct periods as [|p0 t]; [congruence|]. unfold deltas_spec.
  change (nthZ (p0 :: t) 0) with p0. cbn [map]. change (nthZ (?x :: _) 0) with x.
  rewrite Z.sub_diag. apply Z.div_0_l. lia.
Qed.

Lemma deltas_last dlen periods : periods <> [] ->
  last (deltas_spec dlen periods) 0 = (last periods 0 - nthZ periods 0) / dlen.
Proof.
  intros Hne. unfold deltas_spec. generalize (nthZ periods 0) as p0. intros p0.
  induction periods as [|x t IH]; [congruence|]. destruct t as [|y t'].
  - reflexivity.
  - cbn [map]. cbn [map] in IH. rewrite !last_cons2. apply IH. discriminate.
Qed.

Lemma gen_map_unfold dlen periods : periods <> [] ->
  generate_period_offset_map dlen periods =
  let ds := deltas_spec dlen periods in
  if last ds 0 <? 0 then Raise E_ValueError
  else Ok (fill_periods ds 0 (repeat 0 (Z.to_nat (last ds 0)))).
Proof.
  intros Hne. destruct periods as [|p0 t]; [congruence|]. unfold generate_period_offset_map.
  rewrite period_deltas_spec. reflexivity.
Qed.

(* the map theorem: for non-decreasing boundaries, entry d is the index of the period whose
   half-open interval of day offsets contains d; the map covers exactly [0, last delta) *)
Lemma period_map_halfopen_proof dlen periods :
  0 < dlen -> periods <> [] -> sorted periods ->
  let ds := deltas_spec dlen periods in
  exists m, generate_period_offset_map dlen periods = Ok m /\
    nthZ ds 0 = 0 /\ len m = last ds 0 /\
    (forall d, 0 <= d < len m -> 0 <= nthZ m d < len ds - 1 /\ in_period ds (nthZ m d) d) /\
    (forall d i, 0 <= d < len m -> 0 <= i < len ds - 1 -> (nthZ m d = i <-> in_period ds i d)).
Proof.
  intros Hd Hne Hs ds. rewrite gen_map_unfold by exact Hne. fold ds. cbv zeta.
  pose proof (deltas_sorted dlen periods Hd Hs) as Hsd. fold ds in Hsd.
  pose proof (deltas_head dlen periods Hd Hne) as Hh. fold ds in Hh.
  assert (Hdne : ds <> []).
  { unfold ds, deltas_spec. destruct periods; [congruence|discriminate]. }
  assert (Hlast0 : 0 <= last ds 0).
  { assert (Hx : nthZ ds 0 <= last ds 0); [|lia]. apply sorted_le_last; [exact Hsd|].
    destruct ds as [|x ds']; [congruence|]. rewrite len_cons. pose proof (len_nonneg ds'). lia. }
  replace (last ds 0 <? 0) with false by lia.
  set (arr := repeat 0 (Z.to_nat (last ds 0))).
  assert (Hlarr : len arr = last ds 0) by (unfold arr; rewrite len_repeat; lia).
  destruct (fill_periods_inv ds 0 arr Hsd Hdne ltac:(lia) ltac:(lia)) as [Hlen HR].
  set (m := fill_periods ds 0 arr) in *.
  assert (Hcover : forall d, 0 <= d < len m -> exists k, 0 <= k < len ds - 1 /\ in_period ds k d /\ nthZ m d = k).
  { intros d Hdm. destruct (interval_exists ds d Hdne ltac:(lia)) as [k [Hk Hin]].
    exists k. split; [exact Hk|]. split; [exact Hin|].
    destruct (HR d ltac:(lia)) as [_ [_ H3]]. rewrite (H3 k Hk Hin). lia. }
  exists m. split; [reflexivity|]. split; [exact Hh|]. split; [lia|]. split.
  - intros d Hdm. destruct (Hcover d Hdm) as [k [Hk [Hin ->]]]. split; assumption.
  - intros d i Hdm Hi. destruct (Hcover d Hdm) as [k [Hk [Hin Hmk]]]. split.
    + intros <-. rewrite Hmk. exact Hin.
    + intros Hini. rewrite Hmk. apply (interval_unique ds d k i Hsd Hk Hi Hin Hini).
Qed.

(* exact characterisation of the failures of generate_period_offset_map (any input) *)
Lemma period_map_errors_proof dlen periods : 0 < dlen ->
  (periods = [] -> generate_period_offset_map dlen periods = Raise E_IndexError) /\
  (periods <> [] -> last periods 0 < nthZ periods 0 ->
     generate_period_offset_map dlen periods = Raise E_ValueError) /\
  (periods <> [] -> nthZ periods 0 <= last periods 0 ->
     exists m, generate_period_offset_map dlen periods = Ok m /\
               len m = (last periods 0 - nthZ periods 0) / dlen).
Proof.
  intros Hd. split; [intros ->; reflexivity|]. split.
  - intros Hne Hlt. rewrite gen_map_unfold by exact Hne. cbv zeta. rewrite deltas_last by exact Hne.
    replace ((last periods 0 - nthZ periods 0) / dlen <? 0) with true; [reflexivity|].
    symmetry. apply Z.ltb_lt. apply Z.div_lt_upper_bound; lia.
  - intros Hne Hle. rewrite gen_map_unfold by exact Hne. cbv zeta. rewrite deltas_last by exact Hne.
    assert (H0 : 0 <= (last periods 0 - nthZ periods 0) / dlen) by (apply Z.div_pos; lia).
    replace ((last periods 0 - nthZ periods 0) / dlen <? 0) with false by lia.
    eexists. split; [reflexivity|].
    (* length is preserved by fill_periods whatever the deltas are *)
    assert (Hfl : forall ds i arr, len (fill_periods ds i arr) = len arr).
    { induction ds as [|a t IH]; intros i arr; [reflexivity|]. destruct t as [|b t']; [reflexivity|].
      rewrite fill_periods_cons2. rewrite IH. unfold slice_assign.
      set (n := len arr). pose proof (len_nonneg arr) as Hn. fold n in Hn.
      assert (Hb : forall x, 0 <= norm_bound n x <= n) by (intros x; unfold norm_bound; destruct (x <? 0) eqn:Ex; lia).
      pose proof (Hb a). pose proof (Hb b).
      destruct (norm_bound n a <? norm_bound n b) eqn:E; [|reflexivity].
      rewrite !len_app, len_repeat, len_firstn, len_skipn by (fold n; lia). fold n. lia. }
    rewrite Hfl, len_repeat. lia.
Qed.

(* ====================================================================== get_period_offsets *)
Lemma np_index_ok site pbd k : idx_ok pbd k -> np_index site pbd k = Ok (wrap_get pbd k).
Proof.
  unfold idx_ok, np_index, wrap_get. intros H. destruct (k <? 0) eqn:E.
  - apply getZ_ok. lia.
  - apply getZ_ok. lia.
Qed.

Lemma np_index_oob site pbd k : ~ idx_ok pbd k -> np_index site pbd k = OOB site.
Proof.
  unfold idx_ok, np_index. intros H. pose proof (len_nonneg pbd). destruct (k <? 0) eqn:E.
  - apply get_oob. lia.
  - apply get_oob. lia.
Qed.

Lemma idx_ok_dec pbd k : idx_ok pbd k \/ ~ idx_ok pbd k.
Proof. unfold idx_ok. lia. Qed.

Lemma map_res_ok {A B} (f:A -> res B) (g:A -> B) l :
  (forall x, In x l -> f x = Ok (g x)) -> map_res f l = Ok (map g l).
Proof.
  induction l as [|x t IH]; intros H; [reflexivity|]. cbn [map_res map].
  rewrite (H x (or_introl eq_refl)). cbn [bind]. rewrite IH by (intros y Hy; apply H; right; exact Hy).
  reflexivity.
Qed.

Lemma map_res_oob {A B} (f:A -> res B) (g:A -> B) s l :
  (forall x, In x l -> f x = Ok (g x) \/ f x = OOB s) ->
  (exists x, In x l /\ f x = OOB s) -> map_res f l = OOB s.
Proof.
  induction l as [|x t IH]; intros H [y [Hy Hf]]; [destruct Hy|]. cbn [map_res].
  destruct (H x (or_introl eq_refl)) as [Hx|Hx]; rewrite Hx; cbn [bind]; [|reflexivity].
  destruct Hy as [<-|Hy]; [congruence|].
  rewrite IH; [reflexivity| |].
  - intros z Hz. apply H. right. exact Hz.
  - exists y. split; assumption.
Qed.

Lemma np_index_cases site pbd k :
  np_index site pbd k = Ok (wrap_get pbd k) \/ np_index site pbd k = OOB site.
Proof.
  destruct (idx_ok_dec pbd k) as [H|H]; [left; apply np_index_ok|right; apply np_index_oob]; exact H.
Qed.

Lemma period_offsets_noflags_ok pbd days :
  (forall d, In d days -> idx_ok pbd d) ->
  get_period_offsets pbd days None = Ok (map (wrap_get pbd) days).
Proof. intros H. cbn [get_period_offsets]. apply map_res_ok. intros d Hd. apply np_index_ok. auto. Qed.

Lemma period_offsets_noflags_oob pbd days :
  (exists d, In d days /\ ~ idx_ok pbd d) ->
  get_period_offsets pbd days None = OOB 1.
Proof.
  intros [d [Hd Hn]]. cbn [get_period_offsets]. apply (map_res_oob _ (wrap_get pbd)).
  - intros x _. apply np_index_cases.
  - exists d. split; [exact Hd|]. apply np_index_oob. exact Hn.
Qed.

Lemma scatter_spec pbd days : forall fl, length fl = length days ->
  scatter days fl (map (wrap_get pbd) (mask days fl)) = offsets_spec pbd days fl.
Proof.
  unfold offsets_spec. induction days as [|d days IH]; intros [|b fl] H; cbn in *; try reflexivity; try lia.
  destruct b; cbn; f_equal; apply IH; lia.
Qed.

Lemma mask_In (days:list Z) : forall fl d, In d (mask days fl) <-> In (d, true) (combine days fl).
Proof.
  induction days as [|x days IH]; intros [|b fl] d; cbn; try tauto.
  destruct b; cbn; rewrite IH; split.
  - intros [->|H]; [left; reflexivity|right; exact H].
  - intros [H|H]; [left; congruence|right; exact H].
  - intros H; right; exact H.
  - intros [H|H]; [discriminate|exact H].
Qed.

Lemma period_offsets_flags_ok pbd days fl :
  length fl = length days -> offsets_pre pbd days fl ->
  get_period_offsets pbd days (Some fl) = Ok (offsets_spec pbd days fl).
Proof.
  intros Hl Hpre. cbn [get_period_offsets]. unfold len. rewrite Hl, Z.eqb_refl. cbn [orb].
  rewrite (map_res_ok _ (wrap_get pbd)).
  - cbn [bind]. f_equal. apply scatter_spec. exact Hl.
  - intros x Hx. apply np_index_ok. apply Hpre. apply mask_In. exact Hx.
Qed.

Lemma period_offsets_flags_oob pbd days fl :
  length fl = length days ->
  (exists d, In (d, true) (combine days fl) /\ ~ idx_ok pbd d) ->
  get_period_offsets pbd days (Some fl) = OOB 2.
Proof.
  intros Hl [d [Hin Hn]]. cbn [get_period_offsets]. unfold len. rewrite Hl, Z.eqb_refl. cbn [orb].
  rewrite (map_res_oob _ (wrap_get pbd) 2); [reflexivity| |].
  - intros x _. apply np_index_cases.
  - exists d. split; [apply mask_In; exact Hin|apply np_index_oob; exact Hn].
Qed.

(* a mask of the wrong length is rejected (except numpy's empty-mask quirk) *)
Lemma period_offsets_flags_mismatch pbd days fl :
  length fl <> length days -> fl <> [] ->
  get_period_offsets pbd days (Some fl) = Raise E_IndexError.
Proof.
  intros Hl Hne. cbn [get_period_offsets]. unfold len.
  replace (Z.of_nat (length fl) =? Z.of_nat (length days)) with false by lia.
  replace (Z.of_nat (length fl) =? 0) with false; [reflexivity|].
  destruct fl; [congruence|]. cbn [length]. symmetry. apply Z.eqb_neq. lia.
Qed.

(* the precondition, read index-wise *)
Lemma offsets_pre_iff pbd days fl : length fl = length days ->
  (offsets_pre pbd days fl <->
   forall j, (j < length days)%nat -> nth j fl false = true -> idx_ok pbd (nth j days 0)).
Proof.
  intros Hl. unfold offsets_pre. split.
  - intros H j Hj Hf. apply H. rewrite <- Hf. rewrite <- combine_nth by lia.
    apply nth_In. rewrite combine_length. lia.
  - intros H d Hin. apply (In_nth _ _ (0, false)) in Hin. destruct Hin as [j [Hj Hnth]].
    rewrite combine_length in Hj. rewrite combine_nth in Hnth by lia. injection Hnth as <- Hf.
    apply H; [lia|exact Hf].
Qed.

Lemma offsets_spec_length pbd days fl : length fl = length days ->
  length (offsets_spec pbd days fl) = length days.
Proof. intros H. unfold offsets_spec. rewrite map_length, combine_length. lia. Qed.

Lemma offsets_spec_nth pbd days fl j : length fl = length days -> (j < length days)%nat ->
  nth j (offsets_spec pbd days fl) 0 =
  if nth j fl false then wrap_get pbd (nth j days 0) else -1.
Proof.
  intros Hl Hj. unfold offsets_spec.
  rewrite (nth_map_lt _ _ _ (0, false)) by (rewrite combine_length; lia).
  rewrite combine_nth by lia. reflexivity.
Qed.

Lemma wrap_get_In pbd k : idx_ok pbd k -> In (wrap_get pbd k) pbd.
Proof.
  unfold idx_ok, wrap_get, nthZ, nthd, len. intros H. apply nth_In. destruct (k <? 0) eqn:E; lia.
Qed.

(* -1 marks exactly the entries whose flag is off (period indices are never negative) *)
Lemma offsets_minus1_iff pbd days fl j :
  length fl = length days -> offsets_pre pbd days fl -> (forall v, In v pbd -> 0 <= v) ->
  (j < length days)%nat ->
  (nth j (offsets_spec pbd days fl) 0 = -1 <-> nth j fl false = false).
Proof.
  intros Hl Hpre Hnn Hj. rewrite offsets_spec_nth by assumption.
  destruct (nth j fl false) eqn:E; [|tauto].
  pose proof (proj1 (offsets_pre_iff pbd days fl Hl) Hpre) as Hpre'.
  specialize (Hnn _ (wrap_get_In pbd _ (Hpre' j Hj E))). split; [lia|discriminate].
Qed.

(* ====================================================================== compositions *)
Lemma wrap_get_nonneg pbd k : 0 <= k -> wrap_get pbd k = nthZ pbd k.
Proof. intros H. unfold wrap_get. replace (k <? 0) with false by lia. reflexivity. Qed.

(* map + offsets, with flags: the statement of the property for non-decreasing boundaries *)
Lemma period_offsets_halfopen_proof dlen periods days fl :
  0 < dlen -> periods <> [] -> sorted periods -> length fl = length days ->
  let ds := deltas_spec dlen periods in
  (forall j, (j < length days)%nat -> nth j fl false = true -> 0 <= nth j days 0 < last ds 0) ->
  exists m r, generate_period_offset_map dlen periods = Ok m /\
    get_period_offsets m days (Some fl) = Ok r /\ length r = length days /\
    forall j, (j < length days)%nat ->
      (nth j fl false = false -> nth j r 0 = -1) /\
      (nth j fl false = true ->
         (0 <= nth j r 0 < len ds - 1 /\ in_period ds (nth j r 0) (nth j days 0)) /\
         forall i, 0 <= i < len ds - 1 -> (nth j r 0 = i <-> in_period ds i (nth j days 0))).
Proof.
  intros Hd Hne Hs Hl ds Hin.
  destruct (period_map_halfopen_proof dlen periods Hd Hne Hs) as [m [Hm [_ [Hlen [Hcov Hiff]]]]].
  fold ds in Hlen, Hcov, Hiff.
  assert (Hpre : offsets_pre m days fl).
  { apply (offsets_pre_iff _ _ _ Hl). intros j Hj Hf. specialize (Hin j Hj Hf). unfold idx_ok. lia. }
  exists m, (offsets_spec m days fl). split; [exact Hm|]. split; [apply period_offsets_flags_ok; assumption|].
  split; [apply offsets_spec_length; exact Hl|].
  intros j Hj. rewrite offsets_spec_nth by assumption. split.
  - intros ->. reflexivity.
  - intros Hf. rewrite Hf. specialize (Hin j Hj Hf). rewrite wrap_get_nonneg by lia. split.
    + apply Hcov. lia.
    + intros i Hi. apply Hiff; lia.
Qed.

(* map + offsets, without flags: every day must be a day of the map *)
Lemma period_offsets_noflags_halfopen_proof dlen periods days :
  0 < dlen -> periods <> [] -> sorted periods ->
  let ds := deltas_spec dlen periods in
  (forall d, In d days -> 0 <= d < last ds 0) ->
  exists m r, generate_period_offset_map dlen periods = Ok m /\
    get_period_offsets m days None = Ok r /\ length r = length days /\
    forall j, (j < length days)%nat ->
      forall i, 0 <= i < len ds - 1 -> (nth j r 0 = i <-> in_period ds i (nth j days 0)).
Proof.
  intros Hd Hne Hs ds Hin.
  destruct (period_map_halfopen_proof dlen periods Hd Hne Hs) as [m [Hm [_ [Hlen [Hcov Hiff]]]]].
  fold ds in Hlen, Hcov, Hiff.
  exists m, (map (wrap_get m) days). split; [exact Hm|]. split.
  - apply period_offsets_noflags_ok. intros d Hdd. specialize (Hin d Hdd). unfold idx_ok. lia.
  - split; [apply map_length|]. intros j Hj i Hi.
    rewrite (nth_map_lt _ _ _ 0) by lia. specialize (Hin _ (nth_In days 0 Hj)).
    rewrite wrap_get_nonneg by lia. apply Hiff; lia.
Qed.

(* a flagged day is never negative: the origin is the start, or the minimum of the selected *)
Lemma flagged_day_nonneg dlen ts f s e o j :
  0 < dlen -> length f = length ts -> origin_spec ts f s o -> (j < length ts)%nat ->
  nth j (flags_spec ts f s e) false = true -> 0 <= nth j (days_spec dlen o ts) 0.
Proof.
  intros Hd Hl Ho Hj Hf. rewrite flags_spec_nth in Hf by assumption. rewrite days_spec_nth by exact Hj.
  apply Z.div_pos; [|exact Hd].
  apply andb_prop in Hf. destruct Hf as [Hf _]. apply andb_prop in Hf. destruct Hf as [Hfj Hge].
  destruct s as [sd|]; cbn in Ho, Hge.
  - subst o. lia.
  - destruct Ho as [_ Hmin]. assert (Hin : In (nth j ts 0) (selected ts f)).
    { apply selected_In. exists j. auto. }
    specialize (Hmin _ Hin). lia.
Qed.

(* ---- get_periods followed by generate_period_offset_map ---- *)
Lemma arith_prog_last s td n : last (arith_prog s td (S n)) 0 = s + Z.of_nat n * td.
Proof.
  rewrite last_nthZ by (rewrite arith_prog_S; discriminate).
  unfold len. rewrite arith_prog_length. rewrite arith_prog_nth by lia. f_equal. f_equal. lia.
Qed.

Lemma arith_prog_head s td n : nthZ (arith_prog s td (S n)) 0 = s.
Proof. rewrite arith_prog_nth by lia. lia. Qed.

(* F-C20b: the boundaries get_periods produces for a negative delta (two or more of them) are
   rejected by generate_period_offset_map *)
Lemma descending_periods_raise_proof dlen s e unit delta l :
  0 < dlen -> 0 < unit -> delta < 0 -> 1 <= periods_n s e (unit * delta) ->
  periods_spec s e unit delta = Ok l ->
  generate_period_offset_map dlen l = Raise E_ValueError.
Proof.
  intros Hd Hu Hdel Hn H. unfold periods_spec in H. destruct (periods_bad s e delta); [discriminate|].
  injection H as <-. set (n := Z.to_nat (periods_n s e (unit * delta))).
  destruct (period_map_errors_proof dlen (arith_prog s (unit * delta) (S n)) Hd) as [_ [Hr _]].
  apply Hr.
  - rewrite arith_prog_S. discriminate.
  - rewrite arith_prog_last, arith_prog_head. assert (1 <= Z.of_nat n) by (unfold n; lia).
    assert (unit * delta < 0) by nia. nia.
Qed.

Lemma arith_prog_sorted s td n : 0 <= td -> sorted (arith_prog s td n).
Proof.
  intros Htd i j Hi Hij Hj. unfold len in Hj. rewrite arith_prog_length in Hj.
  rewrite !arith_prog_nth by lia. nia.
Qed.

Lemma deltas_arith_prog dlen s w n : 0 < dlen ->
  deltas_spec dlen (arith_prog s (w * dlen) (S n)) = arith_prog 0 w (S n).
Proof.
  intros Hd. unfold deltas_spec. rewrite arith_prog_head. unfold arith_prog. rewrite map_map.
  apply map_ext. intros k.
  replace (s + Z.of_nat k * (w * dlen) - s) with (Z.of_nat k * w * dlen) by lia.
  rewrite Z.div_mul by lia. lia.
Qed.

(* ascending boundaries spaced W whole days apart: the map is d |-> d / W on [0, n*W) *)
Lemma period_map_of_progression_proof dlen s w n :
  0 < dlen -> 0 < w ->
  exists m, generate_period_offset_map dlen (arith_prog s (w * dlen) (S n)) = Ok m /\
    len m = Z.of_nat n * w /\ forall d, 0 <= d < len m -> nthZ m d = d / w.
Proof.
  intros Hd Hw. set (l := arith_prog s (w * dlen) (S n)).
  assert (Hne : l <> []) by (unfold l; rewrite arith_prog_S; discriminate).
  assert (Hs : sorted l) by (apply arith_prog_sorted; nia).
  destruct (period_map_halfopen_proof dlen l Hd Hne Hs) as [m [Hm [_ [Hlen [Hcov _]]]]].
  unfold l in Hlen, Hcov. rewrite deltas_arith_prog in Hlen, Hcov by exact Hd.
  rewrite arith_prog_last in Hlen.
  exists m. split; [exact Hm|]. split; [lia|]. intros d Hdm. destruct (Hcov d Hdm) as [Hr Hin].
  unfold len in Hr. rewrite arith_prog_length in Hr. unfold in_period in Hin.
  rewrite !arith_prog_nth in Hin by lia.
  apply (Z.div_unique_pos d w (nthZ m d) (d - nthZ m d * w)); lia.
Qed.

(* ---- the whole pipeline of the docstring:
        periods = get_periods(start, end, unit, delta > 0)
        days, in_range = get_days(ts, filter, start, end')       (end' not after the last boundary)
        get_period_offsets(generate_period_offset_map(periods), days, in_range)
      yields, for every timestamp, the index of the period [start + i*td, start + (i+1)*td) that
      contains it when it passes the filter and lies in [start, end'), and -1 otherwise *)
Lemma pipeline_proof dlen u delta s e e' ts flt fuel :
  0 < dlen -> 0 < u -> 0 < delta -> s <= e ->
  let unit := u * dlen in
  let td := unit * delta in
  let n := periods_n s e td in
  let f := eff_filter ts flt in
  length f = length ts -> e' <= s + n * td ->
  (fuel >= periods_fuel s e unit delta)%nat ->
  exists l m days fl r,
    get_periods fuel s e unit delta = Ok l /\
    generate_period_offset_map dlen l = Ok m /\
    get_days dlen ts flt (Some s) (Some e') = Ok (days, Some fl) /\
    get_period_offsets m days (Some fl) = Ok r /\
    r = map (fun p => if flag_at (Some s) (Some e') (fst p) (snd p) then (fst p - s) / td else -1)
            (combine ts f).
Proof.
  intros Hd Hu Hdel Hse unit td n f Hl He' Hfuel.
  assert (Hunit : 0 < unit) by (unfold unit; nia).
  assert (Htd : 0 < td) by (unfold td; nia).
  pose proof (periods_n_up s e td Htd Hse) as [Hn0 Hnb]. fold n in Hn0, Hnb.
  set (w := u * delta). assert (Hw : 0 < w) by (unfold w; nia).
  assert (Htdw : td = w * dlen) by (unfold td, unit, w; lia).
  (* periods *)
  assert (Hper : get_periods fuel s e unit delta = Ok (arith_prog s td (S (Z.to_nat n)))).
  { rewrite get_periods_spec_eq by assumption. unfold periods_spec.
    replace (periods_bad s e delta) with false; [reflexivity|].
    symmetry. apply not_true_is_false. intros Hb. apply periods_bad_iff in Hb. lia. }
  (* map *)
  destruct (period_map_of_progression_proof dlen s w (Z.to_nat n) Hd Hw) as [m [Hm [Hlm Hmd]]].
  rewrite <- Htdw in Hm. rewrite Z2Nat.id in Hlm by lia.
  (* days *)
  pose proof (get_days_ok dlen ts flt (Some s) (Some e') s Hl eq_refl) as Hgd. fold f in Hgd.
  replace (no_args flt (Some s) (Some e')) with false in Hgd by (destruct flt; reflexivity).
  set (days := days_spec dlen s ts) in *. set (fl := flags_spec ts f (Some s) (Some e')) in *.
  assert (Hldays : length days = length ts) by (unfold days, days_spec; apply map_length).
  assert (Hlfl : length fl = length days).
  { unfold fl. rewrite flags_spec_length by exact Hl. lia. }
  (* flagged timestamps lie in [s, e'), hence their day is a day of the map *)
  assert (Hflag : forall j, (j < length ts)%nat -> nth j fl false = true ->
                            s <= nth j ts 0 < e').
  { intros j Hj Hf. unfold fl in Hf. rewrite flags_spec_nth in Hf by assumption.
    apply andb_prop in Hf. destruct Hf as [Hf Hlt]. apply andb_prop in Hf. destruct Hf as [_ Hge].
    cbn in Hge, Hlt. lia. }
  assert (Hday : forall j, (j < length ts)%nat -> nth j fl false = true ->
                           0 <= nth j days 0 < n * w).
  { intros j Hj Hf. specialize (Hflag j Hj Hf). unfold days. rewrite days_spec_nth by exact Hj. split.
    - apply Z.div_pos; lia.
    - apply Z.div_lt_upper_bound; [exact Hd|]. rewrite Htdw in He'. nia. }
  assert (Hpre : offsets_pre m days fl).
  { apply (offsets_pre_iff _ _ _ Hlfl). intros j Hj Hf. rewrite Hldays in Hj.
    specialize (Hday j Hj Hf). unfold idx_ok. lia. }
  exists (arith_prog s td (S (Z.to_nat n))), m, days, fl, (offsets_spec m days fl).
  split; [exact Hper|]. split; [exact Hm|]. split; [exact Hgd|].
  split; [apply period_offsets_flags_ok; assumption|].
  (* pointwise equality of the two lists *)
  apply (nth_ext _ _ 0 0).
  - rewrite offsets_spec_length by exact Hlfl. rewrite map_length, combine_length. lia.
  - intros j Hj. rewrite offsets_spec_length in Hj by exact Hlfl. rewrite Hldays in Hj.
    rewrite offsets_spec_nth by (try exact Hlfl; lia).
    rewrite (nth_map_lt _ _ _ (0, false)) by (rewrite combine_length; lia).
    rewrite combine_nth by lia. cbn [fst snd].
    assert (Hfj : nth j fl false = flag_at (Some s) (Some e') (nth j ts 0) (nth j f false)).
    { unfold fl. rewrite flags_spec_nth by assumption. reflexivity. }
    rewrite <- Hfj. destruct (nth j fl false) eqn:Ef; [|reflexivity].
    specialize (Hday j Hj Ef). rewrite wrap_get_nonneg by lia. rewrite Hmd by lia.
    unfold days. rewrite days_spec_nth by exact Hj. rewrite Z.div_div by lia.
    rewrite Htdw. f_equal. lia.
Qed.

(* ====================================================================== filters of the wrong length
   (outside the property: recorded because the model follows numpy here and the correspondence
   run exercises it) *)
Lemma bcast_left1 {A B C} (f:A -> B -> C) a lb : length lb <> 1%nat ->
  bcast f [a] lb = Ok (map (f a) lb).
Proof.
  intros H. unfold bcast, len. cbn [length].
  replace (Z.of_nat 1 =? Z.of_nat (length lb)) with false by (symmetry; apply Z.eqb_neq; lia). reflexivity.
Qed.

Lemma bcast_right1 {A B C} (f:A -> B -> C) la b : length la <> 1%nat ->
  bcast f la [b] = Ok (map (fun a => f a b) la).
Proof.
  intros H. unfold bcast, len. cbn [length].
  replace (Z.of_nat (length la) =? Z.of_nat 1) with false by (symmetry; apply Z.eqb_neq; lia).
  destruct la as [|x [|y t]]; cbn in *; try reflexivity; lia.
Qed.

Lemma bcast_bad {A B C} (f:A -> B -> C) la lb :
  length la <> length lb -> length la <> 1%nat -> length lb <> 1%nat ->
  bcast f la lb = Raise E_ValueError.
Proof.
  intros H Ha Hb. unfold bcast, len.
  replace (Z.of_nat (length la) =? Z.of_nat (length lb)) with false by (symmetry; apply Z.eqb_neq; lia).
  destruct la as [|x [|y t]]; destruct lb as [|u [|v r]]; cbn in *; try reflexivity; lia.
Qed.

Lemma get_days_some_filter dlen ts f s e :
  get_days dlen ts (Some f) s e = gd_body dlen ts (Some f) s e.
Proof. rewrite get_days_unfold. reflexivity. Qed.

Lemma get_days_mismatch_nostart_proof dlen ts f e :
  length f <> length ts ->
  get_days dlen ts (Some f) None e = if (length f =? 0)%nat then Raise E_ValueError else Raise E_IndexError.
Proof.
  intros Hl. rewrite get_days_some_filter. unfold gd_body, len.
  replace (Z.of_nat (length f) =? Z.of_nat (length ts)) with false by (symmetry; apply Z.eqb_neq; lia).
  destruct f as [|b f]; cbn [length Nat.eqb].
  - cbn. destruct ts; reflexivity.
  - replace (Z.of_nat (S (length f)) =? 0) with false by (symmetry; apply Z.eqb_neq; lia). reflexivity.
Qed.

Lemma get_days_mismatch_start_bad_proof dlen ts f sd e :
  length f <> length ts -> length f <> 1%nat -> length ts <> 1%nat ->
  get_days dlen ts (Some f) (Some sd) e = Raise E_ValueError.
Proof.
  intros Hl Hf Ht. rewrite get_days_some_filter. unfold gd_body.
  rewrite bcast_bad by (rewrite ?map_length; assumption). reflexivity.
Qed.

Lemma flags_repeat (b:bool) s e ts :
  map (fun t => flag_at s e t b) ts = flags_spec ts (repeat b (length ts)) s e.
Proof.
  unfold flags_spec. induction ts as [|t ts IH]; cbn; [reflexivity|]. f_equal. exact IH.
Qed.

(* a length-1 filter is stretched over the whole field *)
Lemma get_days_broadcast_filter_proof dlen ts b sd e :
  length ts <> 1%nat ->
  get_days dlen ts (Some [b]) (Some sd) e =
  Ok (days_spec dlen sd ts, Some (flags_spec ts (repeat b (length ts)) (Some sd) e)).
Proof.
  intros Ht. rewrite get_days_some_filter. unfold gd_body.
  rewrite bcast_left1 by (rewrite map_length; exact Ht). cbn [bind]. rewrite map_map.
  rewrite <- flags_repeat. unfold flag_at. destruct e as [ed|]; cbn [geb_opt ltb_opt].
  - rewrite bcast_same by (rewrite !map_length; reflexivity). cbn [bind].
    rewrite and_flags by (rewrite map_length; reflexivity).
    assert (Hx : forall (g:Z -> bool) (k:Z -> bool -> bool) l,
               map (fun p => k (fst p) (snd p)) (combine l (map g l)) = map (fun t => k t (g t)) l).
    { intros g k l. induction l as [|x l IH]; cbn; [reflexivity|]. f_equal. exact IH. }
    rewrite (Hx (fun t => b && (sd <=? t)) (fun t c => c && (t <? ed))). reflexivity.
  - cbn [bind]. do 3 f_equal. apply map_ext. intros t. rewrite andb_true_r. reflexivity.
Qed.

(* a one-element field is stretched over the whole filter (days has length 1, the flags
   the length of the filter) *)
Lemma get_days_broadcast_field_proof dlen t f sd e :
  length f <> 1%nat ->
  get_days dlen [t] (Some f) (Some sd) e =
  Ok ([(t - sd) / dlen], Some (map (fun b => flag_at (Some sd) e t b) f)).
Proof.
  intros Hf. rewrite get_days_some_filter. unfold gd_body. cbn [map].
  rewrite bcast_right1 by exact Hf. cbn [bind]. unfold flag_at. destruct e as [ed|]; cbn [geb_opt ltb_opt].
  - rewrite bcast_right1 by (rewrite map_length; exact Hf). cbn [bind]. rewrite map_map. reflexivity.
  - cbn [bind]. unfold day_of. do 3 f_equal. apply map_ext. intros b. rewrite andb_true_r. reflexivity.
Qed.

(* ====================================================================== the code before the fixes *)
(* F-C20c: with an empty map an out-of-range entry made the old code raise IndexError instead
   of answering -1 *)
Lemma period_offsets_prefix_refuted_proof :
  exists pbd days fl, length fl = length days /\ offsets_pre pbd days fl /\
    get_period_offsets_prefix pbd days fl = OOB 2 /\
    get_period_offsets pbd days (Some fl) = Ok (offsets_spec pbd days fl) /\
    offsets_spec pbd days fl = [-1].
Proof.
  exists [], [3], [false]. split; [reflexivity|]. split.
  - intros d [H|[]]. discriminate.
  - split; [vm_compute; reflexivity|]. split; vm_compute; reflexivity.
Qed.

(* F-C20a: the int8 filter [0,0,1,1] selected ts[0], ts[0], ts[1], ts[1] *)
Lemma get_days_int8_filter_refuted_proof :
  exists ts f o, length f = length ts /\ origin_spec ts f None o /\
    get_days_origin_int8_prefix ts f <> Ok o.
Proof.
  exists [172800; 86400; 5; 259200], [false; false; true; true], 5.
  split; [reflexivity|]. split.
  - cbn. split; [left; reflexivity|]. intros x [<-|[<-|[]]]; lia.
  - vm_compute. discriminate.
Qed.

(* packaged for Props/C20.v *)
Lemma period_offsets_correct_proof pbd days fl : length fl = length days ->
  (offsets_pre pbd days fl ->
     get_period_offsets pbd days (Some fl) = Ok (offsets_spec pbd days fl)) /\
  ((exists d, In (d, true) (combine days fl) /\ ~ idx_ok pbd d) ->
     get_period_offsets pbd days (Some fl) = OOB 2).
Proof.
  intros H. split; [exact (period_offsets_flags_ok pbd days fl H)|exact (period_offsets_flags_oob pbd days fl H)].
Qed.

Lemma period_offsets_noflags_correct_proof pbd days :
  ((forall d, In d days -> idx_ok pbd d) ->
     get_period_offsets pbd days None = Ok (map (wrap_get pbd) days)) /\
  ((exists d, In d days /\ ~ idx_ok pbd d) -> get_period_offsets pbd days None = OOB 1).
Proof.
  split; [exact (period_offsets_noflags_ok pbd days)|exact (period_offsets_noflags_oob pbd days)].
Qed.
