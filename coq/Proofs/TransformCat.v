(* Proofs/TransformCat.v — get_byte_map and the byte-wise categorical matcher. *)
From Coq Require Import ZArith List Bool Lia ZifyBool.
From EV Require Import Res Arr Transform TransformSpec TransformBase.
Import ListNotations.
Open Scope Z_scope.

Definition lenfst (kv:list Z * Z) : Z := len (fst kv).

(* ---- sort_keys keeps the elements ---- *)
Lemma insert_key_in kv l x : In x (insert_key kv l) <-> x = kv \/ In x l.
Proof.
  induction l as [|h t IH]; cbn.
  - intuition.
  - destruct (bytes_ltb (fst kv) (fst h)); cbn; [intuition|]. rewrite IH. intuition.
Qed.

Lemma sort_keys_in l x : In x (sort_keys l) <-> In x l.
Proof.
  induction l as [|h t IH]; cbn; [tauto|]. rewrite insert_key_in, IH. intuition.
Qed.

Lemma insert_key_sum (f:list Z * Z -> Z) kv l : sumZ (map f (insert_key kv l)) = f kv + sumZ (map f l).
Proof.
  induction l as [|h t IH]; cbn [insert_key map sumZ]; [lia|].
  destruct (bytes_ltb (fst kv) (fst h)); cbn [map sumZ]; [lia|]. rewrite IH. lia.
Qed.

Lemma sort_keys_sum (f:list Z * Z -> Z) l : sumZ (map f (sort_keys l)) = sumZ (map f l).
Proof.
  induction l as [|h t IH]; cbn [sort_keys fold_right map sumZ]; [reflexivity|].
  fold (sort_keys t). rewrite insert_key_sum, IH. reflexivity.
Qed.

(* ---- get_byte_map ---- *)
Lemma sumZ_lens_nonneg (s:list (list Z * Z)) : 0 <= sumZ (map lenfst s).
Proof.
  induction s as [|kv s IH]; cbn [map sumZ]; [lia|]. unfold lenfst at 1. pose proof (len_nonneg (fst kv)). lia.
Qed.

Lemma bm_indices_ok imax s : forall ptr, 0 <= ptr -> ptr + sumZ (map lenfst s) <= imax ->
  bm_indices imax ptr s = Ok (tl (psums_from ptr (map lenfst s))).
Proof.
  induction s as [|kv s IH]; intros ptr H0 Hmax; cbn [bm_indices map psums_from tl]; [reflexivity|].
  cbn [map sumZ] in Hmax. pose proof (sumZ_lens_nonneg s) as Hs. unfold lenfst at 1 in Hmax.
  pose proof (len_nonneg (fst kv)) as Hk.
  unfold store_int. destruct ((0 <=? ptr + len (fst kv)) && (ptr + len (fst kv) <=? imax)) eqn:E; [|lia].
  cbn [bind]. rewrite IH by lia. cbn [bind]. unfold lenfst at 2.
  destruct s; reflexivity.
Qed.

Lemma bm_values_ok s : (forall kv, In kv s -> 0 <= snd kv <= 255) -> bm_values s = Ok (map snd s).
Proof.
  intros H. unfold bm_values. apply map_res_ok. intros kv Hin. specialize (H kv Hin).
  unfold store_int. destruct ((0 <=? snd kv) && (snd kv <=? 255)) eqn:E; [reflexivity|lia].
Qed.

Lemma psums_from_hd acc l : psums_from acc l = acc :: tl (psums_from acc l).
Proof. destruct l; reflexivity. Qed.

Definition bm_of (s:list (list Z * Z)) : list Z * list Z * list Z :=
  (concat (map fst s), psums (map lenfst s), map snd s).

Lemma get_byte_map_gen_ok imax cats :
  (forall kv, In kv cats -> 0 <= snd kv <= 255) ->
  sumZ (map lenfst cats) <= imax ->
  get_byte_map_gen imax cats = Ok (bm_of (sort_keys cats)).
Proof.
  intros Hv Hs. unfold get_byte_map_gen.
  rewrite bm_values_ok by (intros kv Hin; apply Hv; apply sort_keys_in; exact Hin).
  cbn [bind]. rewrite bm_indices_ok; [|lia|rewrite sort_keys_sum; lia].
  cbn [bind]. unfold bm_of, psums. rewrite <- psums_from_hd. reflexivity.
Qed.

(* ---- last match over the (sorted) table ---- *)
Definition lmo (s:list (list Z * Z)) (cell:list Z) (init:option Z) : option Z :=
  fold_left (fun acc kv => if list_eqb (fst kv) cell then Some (snd kv) else acc) s init.
Definition sel (o:option Z) (x:Z) : Z := match o with Some v => v | None => x end.

Lemma lmo_none s cell init : (forall kv, In kv s -> fst kv <> cell) -> lmo s cell init = init.
Proof.
  revert init. induction s as [|kv s IH]; intros init H; cbn; [reflexivity|].
  assert (E : list_eqb (fst kv) cell = false) by (apply list_eqb_neq; apply H; left; reflexivity).
  rewrite E. apply IH. intros; apply H; right; assumption.
Qed.

Lemma lmo_cases s cell init : lmo s cell init = init \/ exists v, In (cell, v) s /\ lmo s cell init = Some v.
Proof.
  revert init. induction s as [|[k v] s IH]; intros init; cbn; [left; reflexivity|].
  destruct (list_eqb k cell) eqn:E.
  - apply list_eqb_eq in E. subst k.
    destruct (IH (Some v)) as [H|[v' [Hin H]]].
    + right. exists v. split; [left; reflexivity|exact H].
    + right. exists v'. split; [right; exact Hin|exact H].
  - destruct (IH init) as [H|[v' [Hin H]]]; [left; exact H|].
    right. exists v'. split; [right; exact Hin|exact H].
Qed.

Lemma lmo_some s cell init v0 : In (cell, v0) s -> exists v, In (cell, v) s /\ lmo s cell init = Some v.
Proof.
  revert init. induction s as [|[k v] s IH]; intros init Hin; [destruct Hin|].
  cbn. destruct Hin as [Heq|Hin].
  - inversion Heq; subst. rewrite list_eqb_refl.
    destruct (lmo_cases s cell (Some v0)) as [H|[v' [Hin' H]]].
    + exists v0. split; [left; reflexivity|exact H].
    + exists v'. split; [right; exact Hin'|exact H].
  - destruct (IH (if list_eqb k cell then Some v else init) Hin) as [v' [Hin' H]].
    exists v'. split; [right; exact Hin'|exact H].
Qed.

Lemma lookup_some cats cell v : lookup cats cell = Some v -> In (cell, v) cats.
Proof.
  induction cats as [|[k x] t IH]; cbn; [discriminate|].
  destruct (list_eqb k cell) eqn:E.
  - intros H. inversion H; subst. apply list_eqb_eq in E. subst. left. reflexivity.
  - intros H. right. apply IH. exact H.
Qed.

Lemma lookup_none cats cell : lookup cats cell = None -> forall kv, In kv cats -> fst kv <> cell.
Proof.
  induction cats as [|[k x] t IH]; cbn; intros H kv Hin; [destruct Hin|].
  destruct (list_eqb k cell) eqn:E; [discriminate|].
  destruct Hin as [<-|Hin]; [cbn; apply list_eqb_neq; exact E|]. apply IH; assumption.
Qed.

Lemma keys_distinct_unique cats cell v v' :
  keys_distinct cats = true -> In (cell, v) cats -> In (cell, v') cats -> v = v'.
Proof.
  induction cats as [|[k x] t IH]; cbn; intros Hd H1 H2; [destruct H1|].
  apply andb_prop in Hd. destruct Hd as [Hn Hd].
  assert (Hno : forall y, In (k, y) t -> False).
  { intros y Hy. apply negb_true_iff in Hn.
    assert (existsb (fun kv => list_eqb k (fst kv)) t = true) as Ht.
    { apply existsb_exists. exists (k, y). split; [exact Hy|cbn; apply list_eqb_refl]. }
    congruence. }
  destruct H1 as [E1|H1], H2 as [E2|H2].
  - congruence.
  - inversion E1; subst. exfalso. eapply Hno; eauto.
  - inversion E2; subst. exfalso. eapply Hno; eauto.
  - apply IH; assumption.
Qed.

Lemma lmo_lookup cats cell :
  keys_distinct cats = true -> lmo (sort_keys cats) cell None = lookup cats cell.
Proof.
  intros Hd. destruct (lookup cats cell) as [v|] eqn:L.
  - apply lookup_some in L.
    destruct (lmo_some (sort_keys cats) cell None v) as [v' [Hin H]]; [apply sort_keys_in; exact L|].
    apply (proj1 (sort_keys_in _ _)) in Hin. rewrite H. f_equal. exact (keys_distinct_unique cats cell v' v Hd Hin L).
  - apply lmo_none. intros kv Hin. apply (proj1 (sort_keys_in _ _)) in Hin. eapply lookup_none; eauto.
Qed.

(* ---- cmp_loop ---- *)
Lemma list_eqb_cons x a y b : list_eqb (x :: a) (y :: b) = (x =? y) && list_eqb a b.
Proof.
  unfold list_eqb. rewrite !len_cons. cbn [combine forallb fst snd].
  replace (len a + 1 =? len b + 1) with (len a =? len b) by lia.
  destruct (len a =? len b); cbn [andb]; [reflexivity|rewrite andb_false_r; reflexivity].
Qed.

Lemma psums_get site pre x post :
  get site (psums (pre ++ x :: post)) (len pre) = Ok (sumZ pre) /\
  get site (psums (pre ++ x :: post)) (len pre + 1) = Ok (sumZ pre + x).
Proof.
  destruct (psums_from_nth 0 pre x post) as [H1 H2]. unfold psums.
  assert (Hl : length (psums_from 0 (pre ++ x :: post)) = S (S (length pre + length post))).
  { rewrite psums_from_length, app_length. cbn. lia. }
  split.
  - replace (len pre) with (Z.of_nat (length pre)) by reflexivity.
    rewrite (get_nth site _ _ 0) by lia. rewrite H1. f_equal; lia.
  - replace (len pre + 1) with (Z.of_nat (S (length pre))) by (unfold len; lia).
    rewrite (get_nth site _ _ 0) by lia. rewrite H2. f_equal; lia.
Qed.

Lemma cmp_loop_ok vals keys cidx i A B KA KB :
  (forall site, get site cidx i = Ok (len KA)) ->
  forall cs ks cp kp, length cs = length ks -> len kp = len cp ->
  vals = A ++ (cp ++ cs) ++ B -> keys = KA ++ (kp ++ ks) ++ KB ->
  cmp_loop (length cs) (len cp) vals keys cidx (len A) i = Ok (list_eqb ks cs).
Proof.
  intros Hes. induction cs as [|x cs IH]; intros ks cp kp Hl Hp Hv Hk.
  - destruct ks; [|discriminate]. reflexivity.
  - destruct ks as [|y ks]; [discriminate|]. cbn [length cmp_loop].
    rewrite Hes. cbn [bind].
    assert (G1 : get 11 vals (len A + len cp) = Ok x).
    { rewrite Hv. replace (A ++ (cp ++ x :: cs) ++ B) with ((A ++ cp) ++ x :: (cs ++ B))
        by (rewrite <- !app_assoc; reflexivity).
      rewrite <- len_app. apply get_app_mid. }
    assert (G2 : get 12 keys (len KA + len cp) = Ok y).
    { rewrite Hk. replace (KA ++ (kp ++ y :: ks) ++ KB) with ((KA ++ kp) ++ y :: (ks ++ KB))
        by (rewrite <- !app_assoc; reflexivity).
      rewrite <- Hp. rewrite <- len_app. apply get_app_mid. }
    rewrite G1. cbn [bind]. rewrite G2. cbn [bind].
    rewrite list_eqb_cons. destruct (x =? y) eqn:E.
    + assert (x = y) by lia. subst y. rewrite Z.eqb_refl. cbn [andb].
      replace (len cp + 1) with (len (cp ++ [x])) by (rewrite len_app; reflexivity).
      apply (IH ks (cp ++ [x]) (kp ++ [x])).
      * cbn in Hl. lia.
      * rewrite !len_app. rewrite Hp. reflexivity.
      * rewrite Hv. rewrite <- !app_assoc. reflexivity.
      * rewrite Hk. rewrite <- !app_assoc. reflexivity.
    + replace (y =? x) with false by lia. reflexivity.
Qed.

(* ---- keys_loop ---- *)
Lemma keys_loop_ok s vals A cell B ca cb x0 :
  vals = A ++ cell ++ B ->
  forall s2 s1 init, s = s1 ++ s2 ->
  keys_loop (length s2) (len s1) vals (concat (map fst s)) (psums (map lenfst s)) (map snd s)
            (len A) (len cell) (len ca) (ca ++ sel init x0 :: cb)
  = Ok (ca ++ sel (lmo s2 cell init) x0 :: cb).
Proof.
  intros Hv. induction s2 as [|[k v] s2 IH]; intros s1 init Hs; [reflexivity|].
  cbn [length keys_loop].
  assert (Hidx : map lenfst s = map lenfst s1 ++ len k :: map lenfst s2).
  { rewrite Hs, map_app. reflexivity. }
  destruct (psums_get 15 (map lenfst s1) (len k) (map lenfst s2)) as [_ G1].
  destruct (psums_get 16 (map lenfst s1) (len k) (map lenfst s2)) as [G0 _].
  assert (Hls : len (map lenfst s1) = len s1) by (unfold len; rewrite map_length; reflexivity).
  rewrite Hls in G0, G1. rewrite <- Hidx in G0, G1. rewrite G1. cbn [bind]. rewrite G0. cbn [bind].
  replace (sumZ (map lenfst s1) + len k - sumZ (map lenfst s1)) with (len k) by lia.
  assert (Hnext : s = (s1 ++ [(k, v)]) ++ s2) by (rewrite <- app_assoc; exact Hs).
  assert (Hl1 : len s1 + 1 = len (s1 ++ [(k, v)])) by (rewrite len_app; reflexivity).
  cbn [lmo fold_left fst snd]. fold (lmo s2 cell (if list_eqb k cell then Some v else init)).
  destruct (len cell =? len k) eqn:El; cbn [negb].
  - (* same length: compare *)
    assert (Hcmp : cmp_loop (Z.to_nat (len cell)) 0 vals (concat (map fst s)) (psums (map lenfst s)) (len A) (len s1)
                   = Ok (list_eqb k cell)).
    { replace (Z.to_nat (len cell)) with (length cell) by (unfold len; lia).
      apply (cmp_loop_ok vals _ _ _ A B (concat (map fst s1)) (concat (map fst s2)) ) with (cp:=[]) (kp:=[]).
      - intros site. rewrite Hidx. destruct (psums_get site (map lenfst s1) (len k) (map lenfst s2)) as [G _].
        rewrite Hls in G. rewrite G. f_equal. unfold lenfst. clear.
        induction s1 as [|a s1 IH]; cbn [map sumZ concat]; [reflexivity|]. rewrite len_app, IH. reflexivity.
      - unfold len in El. lia.
      - reflexivity.
      - exact Hv.
      - rewrite Hs, map_app, concat_app. reflexivity. }
    rewrite Hcmp. cbn [bind]. destruct (list_eqb k cell) eqn:Ek.
    + assert (G17 : get 17 (map snd s) (len s1) = Ok v).
      { rewrite Hs, map_app. cbn [map snd].
        replace (len s1) with (len (map snd s1)) by (unfold len; rewrite map_length; reflexivity).
        apply get_app_mid. }
      rewrite G17. cbn [bind]. rewrite set_app_mid. cbn [bind].
      rewrite Hl1. apply (IH (s1 ++ [(k, v)]) (Some v)). exact Hnext.
    + rewrite Hl1. apply (IH (s1 ++ [(k, v)]) init). exact Hnext.
  - (* different length: continue *)
    assert (Ek : list_eqb k cell = false).
    { apply list_eqb_neq. intros ->. lia. }
    rewrite Ek. rewrite Hl1. apply (IH (s1 ++ [(k, v)]) init). exact Hnext.
Qed.

(* ---- rows of one chunk ---- *)
Definition rows_viewed (c:chunk) (cells:list (list Z)) : Prop :=
  forall pre cell post, cells = pre ++ cell :: post -> row_view c (len pre) cell.

Lemma rows_viewed_mk off slack tail cells : 0 <= off -> rows_viewed (mk_chunk off slack tail cells) cells.
Proof. intros H pre cell post ->. apply row_view_mk. exact H. Qed.

Definition cat_code (s:list (list Z * Z)) (cell:list Z) : Z := sel (lmo s cell None) 0.

Lemma cat_rows_ok c s cells :
  rows_viewed c cells ->
  forall post pre n, cells = pre ++ post -> (length post <= n)%nat ->
  cat_rows n (len pre) c (concat (map fst s)) (psums (map lenfst s)) (map snd s)
           (map (cat_code s) pre ++ zeros (len post))
  = Ok (map (cat_code s) cells).
Proof.
  intros Hrv. induction post as [|cell post IH]; intros pre n Hc Hn.
  - rewrite app_nil_r in Hc. subst pre. cbn [zeros len length Z.of_nat Z.to_nat repeat]. rewrite app_nil_r.
    destruct n; cbn [cat_rows]; [reflexivity|].
    replace (len cells >=? len (map (cat_code s) cells)) with true; [reflexivity|].
    unfold len. rewrite map_length. lia.
  - destruct n as [|n]; [cbn in Hn; lia|]. cbn [cat_rows].
    assert (Hlen : len (map (cat_code s) pre ++ zeros (len (cell :: post))) = len pre + len (cell :: post)).
    { rewrite len_app, len_zeros by apply len_nonneg. unfold len. rewrite map_length. reflexivity. }
    rewrite Hlen. rewrite len_cons. pose proof (len_nonneg post) as Hp.
    replace (len pre >=? len pre + (len post + 1)) with false by lia.
    destruct (Hrv pre cell post Hc) as [ks A B Hrow Hi0 Hi1 Hvals Hbase].
    rewrite Hi0, Hi1. cbn [bind].
    replace (ks + len cell - ks) with (len cell) by lia.
    rewrite zeros_succ by lia.
    assert (Hk : Z.to_nat (len (psums (map lenfst s)) - 1) = length s).
    { unfold psums. rewrite len_psums_from. unfold len. rewrite map_length. lia. }
    rewrite Hk. rewrite <- Hbase.
    replace (len pre) with (len (map (cat_code s) pre)) at 1 by (unfold len; rewrite map_length; reflexivity).
    pose proof (keys_loop_ok s (c_vals c) A cell B (map (cat_code s) pre) (zeros (len post)) 0 Hvals s [] None eq_refl) as HK.
    cbn [sel len length Z.of_nat] in HK. rewrite HK. cbn [bind].
    replace (len pre + 1) with (len (pre ++ [cell])) by (rewrite len_app; reflexivity).
    replace (map (cat_code s) pre ++ sel (lmo s cell None) 0 :: zeros (len post))
      with (map (cat_code s) (pre ++ [cell]) ++ zeros (len post)).
    + apply IH; [rewrite <- app_assoc; exact Hc|cbn in Hn; lia].
    + rewrite map_app, <- app_assoc. reflexivity.
Qed.

Lemma cat_code_spec cats cell :
  keys_distinct cats = true ->
  cat_code (sort_keys cats) cell = match lookup cats cell with Some v => v | None => 0 end.
Proof. intros H. unfold cat_code. rewrite lmo_lookup by exact H. reflexivity. Qed.

Lemma cat_import_part_ok s data off slack tail cells :
  0 <= off -> 0 <= tail ->
  cat_import_part (bm_of s) data (mk_chunk off slack tail cells) = Ok (data ++ map (cat_code s) cells).
Proof.
  intros Ho Ht. unfold cat_import_part, categorical_transform, bm_of.
  rewrite mk_chunk_rows.
  pose proof (cat_rows_ok (mk_chunk off slack tail cells) s cells (rows_viewed_mk off slack tail cells Ho)
                cells [] (Z.to_nat (len (c_inds (mk_chunk off slack tail cells)) - 1)) eq_refl) as H.
  cbn [map app len length Z.of_nat] in H. rewrite H; [reflexivity|].
  rewrite mk_chunk_len_inds by exact Ht. unfold len. lia.
Qed.

Lemma fold_cat_import_ok s off slack tail : 0 <= off -> 0 <= tail ->
  forall cc data,
  fold_res (cat_import_part (bm_of s)) data (map (mk_chunk off slack tail) cc)
  = Ok (data ++ map (cat_code s) (concat cc)).
Proof.
  intros Ho Ht. induction cc as [|cells cc IH]; intros data; cbn [map fold_res concat].
  - rewrite app_nil_r. reflexivity.
  - rewrite cat_import_part_ok by assumption. cbn [bind]. rewrite IH, map_app, app_assoc. reflexivity.
Qed.

Lemma create_categorical_ok cats :
  (forall kv, In kv cats -> -128 <= snd kv <= 127) -> create_categorical cats = Ok tt.
Proof.
  intros H. unfold create_categorical.
  rewrite (map_res_ok _ snd); [reflexivity|]. intros kv Hin. specialize (H kv Hin).
  unfold store_int. destruct ((-128 <=? snd kv) && (snd kv <=? 127)) eqn:E; [reflexivity|lia].
Qed.

Lemma cats_ok_values cats : cats_ok cats = true -> forall kv, In kv cats -> 0 <= snd kv <= 127.
Proof.
  unfold cats_ok. intros H kv Hin. apply andb_prop in H. destruct H as [_ H].
  rewrite forallb_forall in H. specialize (H kv Hin). lia.
Qed.

(* the categorical importer = exact whole-string lookup, for every chunking and buffer layout *)
Theorem categorical_exact_match_proof cats cc off slack tail :
  cats_ok cats = true -> sumZ (map lenfst cats) <= I64MAX -> 0 <= off -> 0 <= tail ->
  cat_import cats (map (mk_chunk off slack tail) cc) = Ok (spec_cat cats (concat cc)).
Proof.
  intros Hok Hsz Ho Ht. unfold cat_import.
  pose proof (cats_ok_values cats Hok) as Hv.
  rewrite create_categorical_ok by (intros kv Hin; specialize (Hv kv Hin); lia). cbn [bind].
  unfold get_byte_map. rewrite get_byte_map_gen_ok; [|intros kv Hin; specialize (Hv kv Hin); lia|exact Hsz].
  cbn [bind]. rewrite fold_cat_import_ok by assumption. cbn [app]. unfold spec_cat.
  f_equal. apply map_ext. intros cell. apply cat_code_spec.
  unfold cats_ok in Hok. apply andb_prop in Hok. tauto.
Qed.
