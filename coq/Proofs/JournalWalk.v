(* Proofs/JournalWalk.v — ordered_generate_journalling_indices on sorted inputs.
   The joint rows are described once by the relation W (one entry per distinct key:
   key, first old position, last old position or -1, snapshot position or -1); both passes
   of the kernel are folds of their per-row action over the entries of W. *)
From Coq Require Import ZArith List Lia Bool Sorted.
From EV Require Import Res Arr Journal JournalSpec JournalBase.
Import ListNotations.
Open Scope Z_scope.

Definition entry : Type := (Z * Z * Z * Z)%type.       (* key, first old pos, last old pos / -1, new pos / -1 *)
Definition e_key (x:entry) : Z := let '(k, _, _, _) := x in k.
Definition e_a (x:entry) : Z := let '(_, a, _, _) := x in a.
Definition e_old (x:entry) : Z := let '(_, _, oe, _) := x in oe.
Definition e_new (x:entry) : Z := let '(_, _, _, q) := x in q.

Lemma firstn_upd_snoc {A:Type} (l:list A) i v : 0 <= i < len l ->
  firstn (Z.to_nat (i + 1)) (upd l i v) = firstn (Z.to_nat i) l ++ [v].
Proof.
  intros H. unfold upd, len in *. replace (Z.to_nat (i + 1)) with (S (Z.to_nat i)) by lia.
  apply firstn_succ_upd_nat. lia.
Qed.

Section Walk.
Variables oks nks : list Z.
Hypothesis Hso : sorted oks.
Hypothesis Hsn : ssorted nks.

Definition run_end (i e:Z) : Prop :=
  0 <= i /\ i <= e /\ e < len oks /\ (forall p, i <= p <= e -> nthZ oks p = nthZ oks i) /\
  (e + 1 = len oks \/ nthZ oks (e + 1) <> nthZ oks i).

Lemma mk_run_end i e : 0 <= i -> i <= e -> e < len oks ->
  (forall p, i <= p <= e -> nthZ oks p = nthZ oks i) ->
  (e + 1 = len oks \/ nthZ oks (e + 1) <> nthZ oks i) -> run_end i e.
Proof. intros. unfold run_end. tauto. Qed.

Lemma skip_run_spec fuel : forall i e, run_end i e -> (Z.of_nat fuel > e - i) -> skip_run fuel oks i = Ok e.
Proof.
  induction fuel as [|f IH]; intros i e (Hi & Hie & He & Heq & Hend) Hf; [lia|].
  cbn [skip_run]. destruct (i + 1 <? len oks) eqn:E.
  - rewrite (getZ_ok 1 oks (i + 1)) by lia. rewrite (getZ_ok 2 oks i) by lia. cbn [bind].
    destruct (nthZ oks (i + 1) =? nthZ oks i) eqn:E2.
    + apply Z.eqb_eq in E2. assert (i < e).
      { destruct (Z.eq_dec i e) as [->|]; [|lia]. destruct Hend as [Hend|Hend]; [lia|congruence]. }
      apply IH; [|lia]. apply mk_run_end; [lia|lia|lia| |].
      * intros p Hp. rewrite E2. apply Heq. lia.
      * destruct Hend as [Hend|Hend]; [left; exact Hend|right; congruence].
    + apply Z.eqb_neq in E2. destruct (Z.eq_dec i e) as [->|Hne]; [reflexivity|].
      exfalso. apply E2. apply Heq. lia.
  - assert (i = e) by lia. subst. reflexivity.
Qed.

Lemma run_end_exists (m:nat) : forall i, 0 <= i < len oks -> len oks - i <= Z.of_nat m -> exists e, run_end i e.
Proof.
  induction m as [|m IH]; intros i Hi Hm; [lia|].
  destruct (Z.eq_dec (i + 1) (len oks)) as [El|El].
  - exists i. apply mk_run_end; [lia|lia|lia| |left; lia]. intros p Hp. f_equal. lia.
  - destruct (Z.eq_dec (nthZ oks (i + 1)) (nthZ oks i)) as [Eq|Ne].
    + destruct (IH (i + 1)) as (e & _ & Hie & He & Heq & Hend); try lia.
      exists e. apply mk_run_end; [lia|lia|lia| |].
      * intros p Hp. destruct (Z.eq_dec p i) as [->|]; [reflexivity|]. rewrite <- Eq. apply Heq. lia.
      * destruct Hend as [Hend|Hend]; [left; exact Hend|right; congruence].
    + exists i. apply mk_run_end; [lia|lia|lia| |right; exact Ne]. intros p Hp. f_equal. lia.
Qed.

Lemma run_end_gt i e p : run_end i e -> e < p < len oks -> nthZ oks i < nthZ oks p.
Proof.
  intros (Hi & Hie & He & Heq & Hend) Hp. destruct Hend as [Hend|Hend]; [lia|].
  pose proof (Hso i (e + 1) ltac:(lia) ltac:(lia) ltac:(lia)).
  pose proof (Hso (e + 1) p ltac:(lia) ltac:(lia) ltac:(lia)). lia.
Qed.

Inductive W : Z -> Z -> list entry -> Prop :=
| W_end i j : i = len oks -> j = len nks -> W i j []
| W_old i j e E : 0 <= i < len oks -> 0 <= j <= len nks -> (j = len nks \/ nthZ oks i < nthZ nks j) ->
    run_end i e -> W (e + 1) j E -> W i j ((nthZ oks i, i, e, -1) :: E)
| W_new i j E : 0 <= i <= len oks -> 0 <= j < len nks -> (i = len oks \/ nthZ nks j < nthZ oks i) ->
    W i (j + 1) E -> W i j ((nthZ nks j, i, -1, j) :: E)
| W_both i j e E : 0 <= i < len oks -> 0 <= j < len nks -> nthZ oks i = nthZ nks j ->
    run_end i e -> W (e + 1) (j + 1) E -> W i j ((nthZ oks i, i, e, j) :: E).

Lemma W_exists (m:nat) : forall i j, 0 <= i <= len oks -> 0 <= j <= len nks ->
  (len oks - i) + (len nks - j) <= Z.of_nat m -> exists E, W i j E.
Proof.
  induction m as [|m IH]; intros i j Hi Hj Hm.
  - exists []. apply W_end; lia.
  - destruct (Z.eq_dec i (len oks)) as [Ei|Ei]; destruct (Z.eq_dec j (len nks)) as [Ej|Ej].
    + exists []. apply W_end; lia.
    + destruct (IH i (j + 1)) as (E & HE); try lia. eexists. apply W_new; eauto; lia.
    + destruct (run_end_exists (Z.to_nat (len oks)) i) as (e & He); try lia.
      pose proof He as (? & ? & ? & _).
      destruct (IH (e + 1) j) as (E & HE); try lia. eexists. apply W_old; eauto; lia.
    + destruct (Z.lt_total (nthZ oks i) (nthZ nks j)) as [Hlt|[Heq|Hgt]].
      * destruct (run_end_exists (Z.to_nat (len oks)) i) as (e & He); try lia.
        pose proof He as (? & ? & ? & _).
        destruct (IH (e + 1) j) as (E & HE); try lia. eexists. apply W_old; eauto; lia.
      * destruct (run_end_exists (Z.to_nat (len oks)) i) as (e & He); try lia.
        pose proof He as (? & ? & ? & _).
        destruct (IH (e + 1) (j + 1)) as (E & HE); try lia. eexists. apply W_both; eauto; lia.
      * destruct (IH i (j + 1)) as (E & HE); try lia. eexists. apply W_new; eauto; lia.
Qed.

Lemma W_bounds i j E : W i j E -> 0 <= i <= len oks /\ 0 <= j <= len nks.
Proof. intros H. destruct H; try lia. pose proof (len_nonneg oks). pose proof (len_nonneg nks). lia. Qed.

Lemma W_length i j E : W i j E -> Z.of_nat (length E) <= (len oks - i) + (len nks - j).
Proof.
  induction 1 as [i j Hi Hj|i j e E Hi Hj Hc He HW IH|i j E Hi Hj Hc HW IH|i j e E Hi Hj Hc He HW IH]; cbn [length].
  - lia.
  - destruct He as (? & ? & ? & _). lia.
  - lia.
  - destruct He as (? & ? & ? & _). lia.
Qed.

(* ---- the kernel's loops are folds over the entries ------------------------------------ *)
Section Emit.
Context {St:Type}.
Variable emit : St -> Z -> Z -> res St.

Definition emit_e (st:St) (x:entry) : res St := emit st (e_old x) (e_new x).

Definition walk3 (f1 f2 f3 fuel0:nat) (i j:Z) (st:St) : res St :=
  do '(i', j', st1) <- walk_main emit f1 fuel0 oks nks i j st;
  do st2 <- walk_old emit f2 fuel0 oks i' st1;
  walk_new emit f3 nks j' st2.

Lemma walk_is_walk3 fuel st : walk emit fuel oks nks st = walk3 fuel fuel fuel fuel 0 0 st.
Proof. reflexivity. Qed.

Lemma walk_main_exit f fuel0 i j st : (i = len oks \/ j = len nks) -> i <= len oks -> j <= len nks ->
  walk_main emit (S f) fuel0 oks nks i j st = Ok (i, j, st).
Proof.
  intros H Hi Hj. cbn [walk_main].
  destruct ((i <? len oks) && (j <? len nks)) eqn:E; [|reflexivity].
  apply andb_prop in E. destruct E as [E1 E2]. apply Z.ltb_lt in E1, E2. lia.
Qed.

Lemma walk_old_exit f fuel0 i st : i = len oks -> walk_old emit (S f) fuel0 oks i st = Ok st.
Proof. intros ->. cbn [walk_old]. rewrite Z.ltb_irrefl. reflexivity. Qed.

Lemma walk_new_exit f j st : j = len nks -> walk_new emit (S f) nks j st = Ok st.
Proof. intros ->. cbn [walk_new]. rewrite Z.ltb_irrefl. reflexivity. Qed.

Lemma walk3_W fuel0 : Z.of_nat fuel0 > len oks ->
  forall i j E, W i j E -> forall f1 f2 f3 st,
  (f1 > length E)%nat -> (f2 > length E)%nat -> (f3 > length E)%nat ->
  walk3 f1 f2 f3 fuel0 i j st = fold_res emit_e st E.
Proof.
  intros Hf0. induction 1 as [i j Hi Hj|i j e E Hi Hj Hc He HW IH|i j E Hi Hj Hc HW IH|i j e E Hi Hj Hc He HW IH];
    intros f1 f2 f3 st H1 H2 H3; cbn [length] in *.
  - destruct f1 as [|f1]; [lia|]. destruct f2 as [|f2]; [lia|]. destruct f3 as [|f3]; [lia|].
    unfold walk3. rewrite walk_main_exit by lia. cbn [bind]. rewrite walk_old_exit by lia. cbn [bind].
    rewrite walk_new_exit by lia. reflexivity.
  - (* old only *)
    pose proof He as (He0 & He1 & He2 & _).
    destruct f1 as [|f1]; [lia|]. destruct f2 as [|f2]; [lia|].
    cbn [fold_res]. unfold emit_e at 1. cbn [e_old e_new].
    destruct (Z.eq_dec j (len nks)) as [Ej|Ej].
    + unfold walk3. rewrite walk_main_exit by lia. cbn [bind]. cbn [walk_old].
      replace (i <? len oks) with true by (symmetry; apply Z.ltb_lt; lia).
      rewrite (skip_run_spec fuel0 i e He) by lia. cbn [bind].
      destruct (emit st e (-1)) as [st'| | |]; cbn [bind]; try reflexivity.
      rewrite <- (IH f1 f2 f3 st') by lia. unfold walk3.
      destruct f1 as [|f1]; [lia|]. rewrite walk_main_exit by lia. reflexivity.
    + unfold walk3. cbn [walk_main].
      replace (i <? len oks) with true by (symmetry; apply Z.ltb_lt; lia).
      replace (j <? len nks) with true by (symmetry; apply Z.ltb_lt; lia). cbn [andb].
      rewrite (getZ_ok 3 oks i) by lia. rewrite (getZ_ok 4 nks j) by lia. cbn [bind].
      replace (nthZ oks i <? nthZ nks j) with true by (symmetry; apply Z.ltb_lt; lia).
      rewrite (skip_run_spec fuel0 i e He) by lia. cbn [bind].
      destruct (emit st e (-1)) as [st'| | |]; cbn [bind]; try reflexivity.
      rewrite <- (IH f1 (S f2) f3 st') by lia. reflexivity.
  - (* new only *)
    destruct f1 as [|f1]; [lia|]. destruct f2 as [|f2]; [lia|]. destruct f3 as [|f3]; [lia|].
    cbn [fold_res]. unfold emit_e at 1. cbn [e_old e_new].
    destruct (Z.eq_dec i (len oks)) as [Ei|Ei].
    + unfold walk3. rewrite walk_main_exit by lia. cbn [bind]. rewrite walk_old_exit by lia. cbn [bind].
      cbn [walk_new]. replace (j <? len nks) with true by (symmetry; apply Z.ltb_lt; lia).
      destruct (emit st (-1) j) as [st'| | |]; cbn [bind]; try reflexivity.
      rewrite <- (IH f1 (S f2) f3 st') by lia. unfold walk3.
      destruct f1 as [|f1]; [lia|]. rewrite walk_main_exit by lia. cbn [bind]. rewrite walk_old_exit by lia. reflexivity.
    + unfold walk3. cbn [walk_main].
      replace (i <? len oks) with true by (symmetry; apply Z.ltb_lt; lia).
      replace (j <? len nks) with true by (symmetry; apply Z.ltb_lt; lia). cbn [andb].
      rewrite (getZ_ok 3 oks i) by lia. rewrite (getZ_ok 4 nks j) by lia. cbn [bind].
      replace (nthZ oks i <? nthZ nks j) with false by (symmetry; apply Z.ltb_ge; lia).
      replace (nthZ oks i >? nthZ nks j) with true by (symmetry; apply Z.gtb_lt; lia).
      destruct (emit st (-1) j) as [st'| | |]; cbn [bind]; try reflexivity.
      rewrite <- (IH f1 (S f2) (S f3) st') by lia. reflexivity.
  - (* both *)
    pose proof He as (He0 & He1 & He2 & _).
    destruct f1 as [|f1]; [lia|].
    cbn [fold_res]. unfold emit_e at 1. cbn [e_old e_new].
    unfold walk3. cbn [walk_main].
    replace (i <? len oks) with true by (symmetry; apply Z.ltb_lt; lia).
    replace (j <? len nks) with true by (symmetry; apply Z.ltb_lt; lia). cbn [andb].
    rewrite (getZ_ok 3 oks i) by lia. rewrite (getZ_ok 4 nks j) by lia. cbn [bind].
    replace (nthZ oks i <? nthZ nks j) with false by (symmetry; apply Z.ltb_ge; lia).
    replace (nthZ oks i >? nthZ nks j) with false by (rewrite Z.gtb_ltb; symmetry; apply Z.ltb_ge; lia).
    rewrite (skip_run_spec fuel0 i e He) by lia. cbn [bind].
    destruct (emit st e j) as [st'| | |]; cbn [bind]; try reflexivity.
    rewrite <- (IH f1 f2 f3 st') by lia. reflexivity.
Qed.
End Emit.

Lemma fold_count (E:list entry) total : fold_res (emit_e emit_count) total E = Ok (total + Z.of_nat (length E)).
Proof.
  revert total; induction E as [|x E IH]; intros total; cbn [fold_res length].
  - f_equal. lia.
  - unfold emit_e at 1, emit_count at 1. cbn [bind]. rewrite IH. f_equal. lia.
Qed.

Lemma fold_write (E:list entry) : forall oi ni joint X Y,
  len oi = len ni -> 0 <= joint -> joint + Z.of_nat (length E) <= len oi ->
  firstn (Z.to_nat joint) oi = X -> firstn (Z.to_nat joint) ni = Y ->
  exists oi' ni', fold_res (emit_e emit_write) (oi, ni, joint) E = Ok (oi', ni', joint + Z.of_nat (length E)) /\
    len oi' = len oi /\ len ni' = len ni /\
    firstn (Z.to_nat (joint + Z.of_nat (length E))) oi' = X ++ map e_old E /\
    firstn (Z.to_nat (joint + Z.of_nat (length E))) ni' = Y ++ map e_new E.
Proof.
  induction E as [|x E IH]; intros oi ni joint X Y Hl Hj Hb HX HY; cbn [fold_res length map] in *.
  - exists oi, ni. rewrite Z.add_0_r, !app_nil_r. repeat split; auto.
  - unfold emit_e at 1, emit_write at 1.
    rewrite (set_ok 5 oi joint) by lia. cbn [bind]. rewrite (set_ok 6 ni joint) by lia. cbn [bind].
    destruct (IH (upd oi joint (e_old x)) (upd ni joint (e_new x)) (joint + 1) (X ++ [e_old x]) (Y ++ [e_new x]))
      as (oi' & ni' & Hr & Ho & Hn & HX' & HY').
    + rewrite !len_upd. exact Hl.
    + lia.
    + rewrite len_upd. lia.
    + rewrite firstn_upd_snoc by lia. rewrite HX. reflexivity.
    + rewrite firstn_upd_snoc by lia. rewrite HY. reflexivity.
    + exists oi', ni'. rewrite len_upd in Ho, Hn.
      replace (joint + Z.of_nat (S (length E))) with (joint + 1 + Z.of_nat (length E)) by lia.
      rewrite Hr. repeat split; auto.
      * rewrite HX'. rewrite <- app_assoc. reflexivity.
      * rewrite HY'. rewrite <- app_assoc. reflexivity.
Qed.

Lemma firstn_len_all {A:Type} (l:list A) : firstn (Z.to_nat (len l)) l = l.
Proof. unfold len. rewrite Nat2Z.id. apply firstn_all. Qed.

Theorem gen_indices_W E fuel : W 0 0 E -> (Z.of_nat fuel > len oks + len nks) ->
  gen_indices fuel oks nks = Ok (map e_old E, map e_new E).
Proof.
  intros HW Hf. pose proof (W_length _ _ _ HW) as HL. pose proof (len_nonneg oks). pose proof (len_nonneg nks).
  unfold gen_indices. rewrite walk_is_walk3. rewrite (walk3_W emit_count fuel) with (E := E) by (auto; lia).
  rewrite fold_count. cbn [bind]. rewrite Z.add_0_l, Nat2Z.id.
  rewrite walk_is_walk3. rewrite (walk3_W emit_write fuel) with (E := E) by (auto; lia).
  destruct (fold_write E (repeat (-1) (length E)) (repeat (-1) (length E)) 0 [] []
              eq_refl ltac:(lia) ltac:(rewrite len_repeat; lia) eq_refl eq_refl)
    as (oi' & ni' & Hr & Ho & Hn & HX & HY).
  rewrite Hr. cbn [bind]. rewrite len_repeat in Ho, Hn. rewrite Z.add_0_l in HX, HY.
  rewrite <- Ho in HX. rewrite <- Hn in HY. rewrite firstn_len_all in HX, HY. cbn [app] in HX, HY.
  rewrite HX, HY. reflexivity.
Qed.

(* ---- what the entries are, in terms of the specification ------------------------------ *)
Definition Pre (i j:Z) : Prop :=
  (forall p q, 0 <= p < i -> j <= q < len nks -> nthZ oks p < nthZ nks q) /\
  (forall q p, 0 <= q < j -> i <= p < len oks -> nthZ nks q < nthZ oks p) /\
  (forall p p', 0 <= p < i -> i <= p' < len oks -> nthZ oks p < nthZ oks p').

Definition entry_ok (x:entry) : Prop :=
  filter (fun p => nthZ oks p =? e_key x) (upto (length oks)) = zrange (e_a x) (e_old x + 1) /\
  new_row nks (e_key x) = (if e_new x =? -1 then None else Some (e_new x)) /\
  0 <= e_a x /\ (e_old x = -1 \/ (e_a x <= e_old x /\ e_old x < len oks)) /\
  (e_new x = -1 \/ 0 <= e_new x < len nks) /\ (e_old x = -1 -> e_new x <> -1).

Lemma nks_le q q' : 0 <= q -> q <= q' -> q' < len nks -> nthZ nks q <= nthZ nks q'.
Proof. intros. apply (ssorted_sorted nks Hsn); lia. Qed.

Lemma old_positions i e : run_end i e -> (forall p, 0 <= p < i -> nthZ oks p < nthZ oks i) ->
  filter (fun p => nthZ oks p =? nthZ oks i) (upto (length oks)) = zrange i (e + 1).
Proof.
  intros He Hlt. pose proof He as (He0 & He1 & He2 & Heq & _).
  apply filter_upto_range; fold (len oks); try lia.
  intros p Hp. rewrite Z.eqb_eq. split.
  - intros E. destruct (Z_lt_ge_dec p i) as [L|G]; [specialize (Hlt p ltac:(lia)); lia|].
    destruct (Z_lt_ge_dec e p) as [L'|G']; [|lia].
    pose proof (run_end_gt i e p He ltac:(lia)). lia.
  - intros Hr. apply Heq. lia.
Qed.

Lemma no_old_positions k i : 0 <= i <= len oks -> (forall p, 0 <= p < i -> nthZ oks p < k) ->
  (forall p, i <= p < len oks -> k < nthZ oks p) ->
  filter (fun p => nthZ oks p =? k) (upto (length oks)) = zrange i (-1 + 1).
Proof.
  intros Hi H1 H2. rewrite zrange_nil by lia. apply filter_upto_none. fold (len oks). intros p Hp.
  apply Z.eqb_neq. destruct (Z_lt_ge_dec p i) as [L|G]; [specialize (H1 p ltac:(lia)); lia|specialize (H2 p ltac:(lia)); lia].
Qed.

Lemma new_position j : 0 <= j < len nks -> new_row nks (nthZ nks j) = Some j.
Proof.
  intros Hj. unfold new_row. apply find_upto_first; fold (len nks); try lia.
  intros p Hp. cbn beta. apply Z.eqb_neq. pose proof (Hsn p j ltac:(lia) ltac:(lia) ltac:(lia)). lia.
Qed.

Lemma no_new_position k j : 0 <= j <= len nks -> (forall q, 0 <= q < j -> nthZ nks q < k) ->
  (forall q, j <= q < len nks -> k < nthZ nks q) -> new_row nks k = None.
Proof.
  intros Hj H1 H2. unfold new_row. apply find_upto_none. fold (len nks). intros p Hp. cbn beta. apply Z.eqb_neq.
  destruct (Z_lt_ge_dec p j) as [L|G]; [specialize (H1 p ltac:(lia)); lia|specialize (H2 p ltac:(lia)); lia].
Qed.

Lemma Pre_after_old i j e : Pre i j -> run_end i e -> 0 <= j <= len nks ->
  (j = len nks \/ nthZ oks i < nthZ nks j) -> Pre (e + 1) j.
Proof.
  intros (P1 & P2 & P3) He Hj Hc. pose proof He as (He0 & He1 & He2 & Heq & _). repeat split.
  - intros p q Hp Hq. destruct (Z_lt_ge_dec p i) as [L|G]; [apply P1; lia|].
    rewrite (Heq p) by lia. destruct Hc as [Hc|Hc]; [lia|]. pose proof (nks_le j q). lia.
  - intros q p Hq Hp. apply P2; lia.
  - intros p p' Hp Hp'. destruct (Z_lt_ge_dec p i) as [L|G]; [apply P3; lia|].
    rewrite (Heq p) by lia. apply (run_end_gt i e p' He). lia.
Qed.

Lemma Pre_after_new i j : Pre i j -> 0 <= i <= len oks -> 0 <= j < len nks ->
  (i = len oks \/ nthZ nks j < nthZ oks i) -> Pre i (j + 1).
Proof.
  intros (P1 & P2 & P3) Hi Hj Hc. repeat split.
  - intros p q Hp Hq. apply P1; lia.
  - intros q p Hq Hp. destruct (Z_lt_ge_dec q j) as [L|G]; [apply P2; lia|].
    assert (q = j) by lia. subst q. destruct Hc as [Hc|Hc]; [lia|]. pose proof (Hso i p). lia.
  - exact P3.
Qed.

Lemma Pre_after_both i j e : Pre i j -> run_end i e -> 0 <= j < len nks ->
  nthZ oks i = nthZ nks j -> Pre (e + 1) (j + 1).
Proof.
  intros (P1 & P2 & P3) He Hj Hc. pose proof He as (He0 & He1 & He2 & Heq & _). repeat split.
  - intros p q Hp Hq. destruct (Z_lt_ge_dec p i) as [L|G].
    + pose proof (P1 p j ltac:(lia) ltac:(lia)). pose proof (nks_le j q). lia.
    + rewrite (Heq p) by lia. rewrite Hc. apply Hsn; lia.
  - intros q p Hq Hp. destruct (Z_lt_ge_dec q j) as [L|G]; [apply P2; lia|].
    assert (q = j) by lia. subst q. rewrite <- Hc. apply (run_end_gt i e p He). lia.
  - intros p p' Hp Hp'. destruct (Z_lt_ge_dec p i) as [L|G]; [apply P3; lia|].
    rewrite (Heq p) by lia. apply (run_end_gt i e p' He). lia.
Qed.

Lemma W_entries i j E : W i j E -> Pre i j -> Forall entry_ok E.
Proof.
  induction 1 as [i j Hi Hj|i j e E Hi Hj Hc He HW IH|i j E Hi Hj Hc HW IH|i j e E Hi Hj Hc He HW IH]; intros HP.
  - constructor.
  - constructor; [|apply IH; apply (Pre_after_old i j e); auto].
    destruct HP as (P1 & P2 & P3). pose proof He as (He0 & He1 & He2 & Heq & _).
    unfold entry_ok. cbn [e_key e_a e_old e_new]. repeat split; try lia.
    + apply old_positions; auto. intros p Hp. apply P3; lia.
    + cbn. apply (no_new_position _ j); auto.
      * intros q Hq. apply P2; lia.
      * intros q Hq. destruct Hc as [Hc|Hc]; [lia|]. pose proof (nks_le j q). lia.
  - constructor; [|apply IH; apply (Pre_after_new i j); auto].
    destruct HP as (P1 & P2 & P3).
    unfold entry_ok. cbn [e_key e_a e_old e_new]. repeat split; try lia.
    + apply no_old_positions; auto.
      * intros p Hp. apply P1; lia.
      * intros p Hp. destruct Hc as [Hc|Hc]; [lia|]. pose proof (Hso i p). lia.
    + replace (j =? -1) with false by (symmetry; apply Z.eqb_neq; lia). apply new_position. lia.
  - constructor; [|apply IH; apply (Pre_after_both i j e); auto].
    destruct HP as (P1 & P2 & P3). pose proof He as (He0 & He1 & He2 & Heq & _).
    unfold entry_ok. cbn [e_key e_a e_old e_new]. repeat split; try lia.
    + apply old_positions; auto. intros p Hp. apply P3; lia.
    + replace (j =? -1) with false by (symmetry; apply Z.eqb_neq; lia). rewrite Hc. apply new_position. lia.
Qed.

Lemma Pre_0 : Pre 0 0.
Proof. repeat split; intros; lia. Qed.

(* keys *)
Definition key_from (i j:Z) (x:Z) : Prop :=
  (exists p, i <= p < len oks /\ nthZ oks p = x) \/ (exists q, j <= q < len nks /\ nthZ nks q = x).

Lemma W_keys i j E : W i j E ->
  StronglySorted Z.lt (map e_key E) /\ (forall x, In x (map e_key E) <-> key_from i j x).
Proof.
  induction 1 as [i j Hi Hj|i j e E Hi Hj Hc He HW IH|i j E Hi Hj Hc HW IH|i j e E Hi Hj Hc He HW IH]; cbn [map e_key].
  - split; [constructor|]. intros x. split; [intros []|]. intros [(p & Hp & _)|(q & Hq & _)]; lia.
  - destruct IH as [IHs IHi]. pose proof He as (He0 & He1 & He2 & Heq & _). split.
    + constructor; [exact IHs|]. apply Forall_forall. intros x Hx. apply IHi in Hx.
      destruct Hx as [(p & Hp & <-)|(q & Hq & <-)].
      * apply (run_end_gt i e p He). lia.
      * destruct Hc as [Hc|Hc]; [lia|]. pose proof (nks_le j q). lia.
    + intros x. cbn [In]. rewrite IHi. unfold key_from. split.
      * intros [<-|[(p & Hp & Hx)|(q & Hq & Hx)]].
        -- left. exists i. split; [lia|reflexivity].
        -- left. exists p. split; [lia|exact Hx].
        -- right. exists q. split; [lia|exact Hx].
      * intros [(p & Hp & Hx)|(q & Hq & Hx)].
        -- destruct (Z_le_gt_dec p e) as [L|G].
           ++ left. rewrite <- Hx. symmetry. apply Heq. lia.
           ++ right. left. exists p. split; [lia|exact Hx].
        -- right. right. exists q. split; [lia|exact Hx].
  - destruct IH as [IHs IHi]. split.
    + constructor; [exact IHs|]. apply Forall_forall. intros x Hx. apply IHi in Hx.
      destruct Hx as [(p & Hp & <-)|(q & Hq & <-)].
      * destruct Hc as [Hc|Hc]; [lia|]. pose proof (Hso i p). lia.
      * apply Hsn; lia.
    + intros x. cbn [In]. rewrite IHi. unfold key_from. split.
      * intros [<-|[(p & Hp & Hx)|(q & Hq & Hx)]].
        -- right. exists j. split; [lia|reflexivity].
        -- left. exists p. split; [lia|exact Hx].
        -- right. exists q. split; [lia|exact Hx].
      * intros [(p & Hp & Hx)|(q & Hq & Hx)].
        -- right. left. exists p. split; [lia|exact Hx].
        -- destruct (Z.eq_dec q j) as [->|Hne]; [left; exact Hx|].
           right. right. exists q. split; [lia|exact Hx].
  - destruct IH as [IHs IHi]. pose proof He as (He0 & He1 & He2 & Heq & _). split.
    + constructor; [exact IHs|]. apply Forall_forall. intros x Hx. apply IHi in Hx.
      destruct Hx as [(p & Hp & <-)|(q & Hq & <-)].
      * apply (run_end_gt i e p He). lia.
      * rewrite Hc. apply Hsn; lia.
    + intros x. cbn [In]. rewrite IHi. unfold key_from. split.
      * intros [<-|[(p & Hp & Hx)|(q & Hq & Hx)]].
        -- left. exists i. split; [lia|reflexivity].
        -- left. exists p. split; [lia|exact Hx].
        -- right. exists q. split; [lia|exact Hx].
      * intros [(p & Hp & Hx)|(q & Hq & Hx)].
        -- destruct (Z_le_gt_dec p e) as [L|G].
           ++ left. rewrite <- Hx. symmetry. apply Heq. lia.
           ++ right. left. exists p. split; [lia|exact Hx].
        -- destruct (Z.eq_dec q j) as [->|Hne]; [left; congruence|].
           right. right. exists q. split; [lia|exact Hx].
Qed.

Lemma W_all_keys E : W 0 0 E -> all_keys oks nks = map e_key E.
Proof.
  intros HW. destruct (W_keys _ _ _ HW) as [Hs Hi]. apply all_keys_unique; [exact Hs|].
  intros x. rewrite Hi. unfold key_from. rewrite !In_nthZ. split.
  - intros [(p & Hp & Hx)|(q & Hq & Hx)]; [left; exists p|right; exists q]; split; auto; lia.
  - intros [(p & Hp & Hx)|(q & Hq & Hx)]; [left; exists p|right; exists q]; split; auto; lia.
Qed.

(* the old positions of consecutive entries are consecutive and cover the old table *)
Fixpoint chain (cur:Z) (E:list entry) : Prop :=
  match E with
  | [] => cur = len oks
  | x :: E' => e_a x = cur /\ chain (if e_old x =? -1 then cur else e_old x + 1) E'
  end.

Lemma W_chain i j E : W i j E -> chain i E.
Proof.
  induction 1 as [i j Hi Hj|i j e E Hi Hj Hc He HW IH|i j E Hi Hj Hc HW IH|i j e E Hi Hj Hc He HW IH];
    cbn [chain e_a e_old].
  - exact Hi.
  - destruct He as (? & ? & _). replace (e =? -1) with false by (symmetry; apply Z.eqb_neq; lia). auto.
  - cbn. auto.
  - destruct He as (? & ? & _). replace (e =? -1) with false by (symmetry; apply Z.eqb_neq; lia). auto.
Qed.

End Walk.
