(* Proofs/MergeView.v — C02 (strengthening SC02): keys enter the merge only through comparisons.

   1. the relational join (join_pairs / merge_spec of Spec/MergeSpec.v, join_spec of Spec/JoinSpec.v) is
      invariant under any map of the key values that is injective on the values present;
   2. the streamed path of the repaired merge (ordered_merge MFixed), run on keys seen through a strictly
      monotone map f (an exact widening conversion, the encodings the harness uses), returns what it
      returns on the keys themselves: the destination of the relational join;
   3. a conversion that is NOT injective on the keys present — the wrap-around of a narrowing integer
      cast, the rounding of float64 to float32 or of a 64-bit integer to binary64, the truncation of a
      fixed string to a shorter width — changes the join: concrete witnesses. *)
From Coq Require Import ZArith List Lia Bool.
From EV Require Import Res Arr Join JoinSpec MapStream MapStreamSpec Merge MergeSpec KeyView
                       MergeBase MergeOrdered MergeTop MergeRefuted JoinAll MergeAll.
Import ListNotations.
Open Scope Z_scope.

Definition inj_on (f:Z -> Z) (S:list Z) : Prop :=
  forall x y, In x S -> In y S -> f x = f y -> x = y.
Definition mono_on (f:Z -> Z) (S:list Z) : Prop :=
  forall x y, In x S -> In y S -> x < y -> f x < f y.

Lemma mono_inj f S : mono_on f S -> inj_on f S.
Proof.
  intros H x y Hx Hy E. destruct (Z.lt_trichotomy x y) as [L|[L|L]]; [|exact L|].
  - specialize (H x y Hx Hy L). lia.
  - specialize (H y x Hy Hx L). lia.
Qed.

Lemma inj_on_incl f S T : (forall x, In x T -> In x S) -> inj_on f S -> inj_on f T.
Proof. intros Hi H x y Hx Hy. apply H; auto. Qed.

Lemma eqb_inj f x y : (f x = f y -> x = y) -> (f x =? f y) = (x =? y).
Proof.
  intros H. destruct (Z.eqb_spec x y) as [->|Hne]; [apply Z.eqb_refl|].
  apply Z.eqb_neq. intros E. apply Hne. apply H. exact E.
Qed.

(* ---- single-column join (Spec/JoinSpec.v) -------------------------------------------------- *)
Lemma matches_from_map f key R j0 :
  (forall x, In x R -> f x = f key -> x = key) ->
  matches_from (f key) (map f R) j0 = matches_from key R j0.
Proof.
  revert j0. induction R as [|x t IH]; intros j0 H; cbn [map matches_from]; [reflexivity|].
  rewrite (eqb_inj f x key) by (apply H; left; reflexivity).
  rewrite IH by (intros y Hy; apply H; right; exact Hy). reflexivity.
Qed.

Lemma left_join_from_map f inv L R i0 :
  inj_on f (L ++ R) ->
  left_join_from inv (map f L) (map f R) i0 = left_join_from inv L R i0.
Proof.
  revert i0. induction L as [|k t IH]; intros i0 H; cbn [map left_join_from]; [reflexivity|].
  unfold matches. rewrite matches_from_map.
  2:{ intros x Hx. apply H; apply in_or_app; [right; exact Hx | left; left; reflexivity]. }
  rewrite IH; [reflexivity|].
  eapply inj_on_incl; [|exact H]. intros x Hx. apply in_app_or in Hx. apply in_or_app.
  destruct Hx; [left; right; assumption | right; assumption].
Qed.

Lemma inner_join_from_map f L R i0 :
  inj_on f (L ++ R) ->
  inner_join_from (map f L) (map f R) i0 = inner_join_from L R i0.
Proof.
  revert i0. induction L as [|k t IH]; intros i0 H; cbn [map inner_join_from]; [reflexivity|].
  unfold matches. rewrite matches_from_map.
  2:{ intros x Hx. apply H; apply in_or_app; [right; exact Hx | left; left; reflexivity]. }
  rewrite IH; [reflexivity|].
  eapply inj_on_incl; [|exact H]. intros x Hx. apply in_app_or in Hx. apply in_or_app.
  destruct Hx; [left; right; assumption | right; assumption].
Qed.

Lemma join_spec_map f isl inv L R :
  inj_on f (L ++ R) -> join_spec isl inv (map f L) (map f R) = join_spec isl inv L R.
Proof.
  intros H. unfold join_spec, left_join, inner_join. destruct isl.
  - apply left_join_from_map; exact H.
  - apply inner_join_from_map; exact H.
Qed.

(* ---- key rows (Spec/MergeSpec.v) ------------------------------------------------------------ *)
Lemma name_eqb_map f a b :
  (forall x y, In x a -> In y b -> f x = f y -> x = y) ->
  name_eqb (map f a) (map f b) = name_eqb a b.
Proof.
  revert b. induction a as [|x a IH]; intros [|y b] H; cbn [map name_eqb]; try reflexivity.
  rewrite (eqb_inj f x y) by (apply H; left; reflexivity).
  rewrite IH by (intros u v Hu Hv; apply H; right; assumption). reflexivity.
Qed.

Definition inj_rows (f:Z -> Z) (L R:list (list Z)) : Prop := inj_on f (concat L ++ concat R).

Lemma inj_rows_pair f L R a b : inj_rows f L R -> In a (L ++ R) -> In b (L ++ R) ->
  forall x y, In x a -> In y b -> f x = f y -> x = y.
Proof.
  intros H Ha Hb x y Hx Hy. apply H.
  - rewrite <- concat_app. apply in_concat. exists a. split; assumption.
  - rewrite <- concat_app. apply in_concat. exists b. split; assumption.
Qed.

Lemma matches_rows_map f key R j0 :
  (forall r, In r R -> forall x y, In x r -> In y key -> f x = f y -> x = y) ->
  matches_rows (map f key) (map (map f) R) j0 = matches_rows key R j0.
Proof.
  revert j0. induction R as [|r t IH]; intros j0 H; cbn [map matches_rows]; [reflexivity|].
  rewrite name_eqb_map by (apply H; left; reflexivity).
  rewrite IH by (intros r' Hr'; apply H; right; exact Hr'). reflexivity.
Qed.

Lemma left_pairs_map f L R i0 :
  (forall a b, In a L -> In b R -> forall x y, In x b -> In y a -> f x = f y -> x = y) ->
  left_pairs (map (map f) L) (map (map f) R) i0 = left_pairs L R i0.
Proof.
  revert i0. induction L as [|k t IH]; intros i0 H; cbn [map left_pairs]; [reflexivity|].
  rewrite matches_rows_map by (intros r Hr; apply (H k r); [left; reflexivity | exact Hr]).
  rewrite IH by (intros a b Ha Hb; apply H; [right; exact Ha | exact Hb]). reflexivity.
Qed.

Lemma inner_pairs_map f L R i0 :
  (forall a b, In a L -> In b R -> forall x y, In x b -> In y a -> f x = f y -> x = y) ->
  inner_pairs (map (map f) L) (map (map f) R) i0 = inner_pairs L R i0.
Proof.
  revert i0. induction L as [|k t IH]; intros i0 H; cbn [map inner_pairs]; [reflexivity|].
  rewrite matches_rows_map by (intros r Hr; apply (H k r); [left; reflexivity | exact Hr]).
  rewrite IH by (intros a b Ha Hb; apply H; [right; exact Ha | exact Hb]). reflexivity.
Qed.

Lemma existsb_name_map f key L :
  (forall a, In a L -> forall x y, In x key -> In y a -> f x = f y -> x = y) ->
  existsb (name_eqb (map f key)) (map (map f) L) = existsb (name_eqb key) L.
Proof.
  induction L as [|a t IH]; intros H; cbn [map existsb]; [reflexivity|].
  rewrite name_eqb_map by (apply H; left; reflexivity).
  rewrite IH by (intros a' Ha'; apply H; right; exact Ha'). reflexivity.
Qed.

Lemma unmatched_right_map f L R j0 :
  (forall a b, In a L -> In b R -> forall x y, In x b -> In y a -> f x = f y -> x = y) ->
  unmatched_right (map (map f) L) (map (map f) R) j0 = unmatched_right L R j0.
Proof.
  revert j0. induction R as [|k t IH]; intros j0 H; cbn [map unmatched_right]; [reflexivity|].
  rewrite existsb_name_map by (intros a Ha; apply (H a k); [exact Ha | left; reflexivity]).
  rewrite IH by (intros a b Ha Hb; apply H; [exact Ha | right; exact Hb]). reflexivity.
Qed.

Theorem join_pairs_key_embedding f how L R :
  inj_rows f L R ->
  join_pairs how (map (map f) L) (map (map f) R) = join_pairs how L R.
Proof.
  intros H.
  assert (HLR : forall a b, In a L -> In b R -> forall x y, In x b -> In y a -> f x = f y -> x = y).
  { intros a b Ha Hb. apply (inj_rows_pair f L R b a H); apply in_or_app; [right|left]; assumption. }
  assert (HRL : forall a b, In a R -> In b L -> forall x y, In x b -> In y a -> f x = f y -> x = y).
  { intros a b Ha Hb. apply (inj_rows_pair f L R b a H); apply in_or_app; [left|right]; assumption. }
  unfold join_pairs.
  destruct (how =? 0); [apply left_pairs_map; exact HLR|].
  destruct (how =? 1); [rewrite left_pairs_map by exact HRL; reflexivity|].
  destruct (how =? 2); [apply inner_pairs_map; exact HLR|].
  rewrite left_pairs_map by exact HLR. rewrite unmatched_right_map by exact HLR. reflexivity.
Qed.

Lemma nthZ_map_in f c i : 0 <= i < len c -> nthZ (map f c) i = f (nthZ c i).
Proof.
  intros Hi. unfold nthZ, nthd. unfold len in Hi.
  rewrite (nth_indep (map f c) 0 (f 0)) by (rewrite map_length; lia).
  apply map_nth.
Qed.

Lemma nthZ_In c i : 0 <= i < len c -> In (nthZ c i) c.
Proof. intros Hi. unfold nthZ, nthd. apply nth_In. unfold len in Hi. lia. Qed.

Definition cols_len (n:Z) (cols:list (list Z)) : Prop := Forall (fun c => len c = n) cols.

Lemma key_rows_map f cols n : cols_len n cols ->
  key_rows (map (map f) cols) n = map (map f) (key_rows cols n).
Proof.
  intros Hc. unfold key_rows. rewrite map_map. apply map_ext_in. intros i Hi.
  apply in_seq in Hi. rewrite !map_map. apply map_ext_in. intros c Hin.
  unfold cols_len in Hc. rewrite Forall_forall in Hc. specialize (Hc c Hin).
  apply nthZ_map_in. lia.
Qed.

Lemma key_rows_values cols n r x : cols_len n cols -> In r (key_rows cols n) -> In x r -> In x (concat cols).
Proof.
  intros Hc Hr Hx. unfold key_rows in Hr. apply in_map_iff in Hr. destruct Hr as (i & <- & Hi).
  apply in_seq in Hi. apply in_map_iff in Hx. destruct Hx as (c & <- & Hin).
  apply in_concat. exists c. split; [exact Hin|].
  unfold cols_len in Hc. rewrite Forall_forall in Hc. specialize (Hc c Hin). apply nthZ_In. lia.
Qed.

Definition first_len (keys:list (list Z)) : Z := match keys with k :: _ => len k | [] => 0 end.

Lemma first_len_map f keys : first_len (map (map f) keys) = first_len keys.
Proof. destruct keys as [|k t]; cbn [map first_len]; [reflexivity|]. unfold len. rewrite map_length. reflexivity. Qed.

Theorem merge_pairs_key_embedding f how lkeys rkeys :
  cols_len (first_len lkeys) lkeys -> cols_len (first_len rkeys) rkeys ->
  inj_on f (concat lkeys ++ concat rkeys) ->
  merge_pairs how (map (map f) lkeys) (map (map f) rkeys) = merge_pairs how lkeys rkeys.
Proof.
  intros HL HR H. unfold merge_pairs. fold (first_len (map (map f) lkeys)) (first_len (map (map f) rkeys))
    (first_len lkeys) (first_len rkeys).
  rewrite !first_len_map. rewrite !key_rows_map by assumption.
  apply join_pairs_key_embedding.
  intros x y Hx Hy. apply H.
  - apply in_app_or in Hx. apply in_or_app. destruct Hx as [Hx|Hx]; apply in_concat in Hx; destruct Hx as (r & Hr & Hxr);
      [left; eapply key_rows_values; eassumption | right; eapply key_rows_values; eassumption].
  - apply in_app_or in Hy. apply in_or_app. destruct Hy as [Hy|Hy]; apply in_concat in Hy; destruct Hy as (r & Hr & Hyr);
      [left; eapply key_rows_values; eassumption | right; eapply key_rows_values; eassumption].
Qed.

Theorem merge_spec_key_embedding f how lkeys rkeys lcols rcols lsuf rsuf :
  cols_len (first_len lkeys) lkeys -> cols_len (first_len rkeys) rkeys ->
  inj_on f (concat lkeys ++ concat rkeys) ->
  merge_spec how (map (map f) lkeys) (map (map f) rkeys) lcols rcols lsuf rsuf
  = merge_spec how lkeys rkeys lcols rcols lsuf rsuf.
Proof.
  intros HL HR H. unfold merge_spec.
  change (join_pairs how (key_rows (map (map f) lkeys) (match map (map f) lkeys with k :: _ => len k | [] => 0 end))
                         (key_rows (map (map f) rkeys) (match map (map f) rkeys with k :: _ => len k | [] => 0 end)))
    with (merge_pairs how (map (map f) lkeys) (map (map f) rkeys)).
  rewrite (merge_pairs_key_embedding f how lkeys rkeys HL HR H). reflexivity.
Qed.

(* ---- the streamed path ------------------------------------------------------------------- *)
Lemma len_map_Z (f:Z -> Z) l : len (map f l) = len l.
Proof. unfold len. rewrite map_length. reflexivity. Qed.

Lemma sorted_map f l : mono_on f l -> sorted l -> sorted (map f l).
Proof.
  intros Hm Hs i j Hi Hij Hj. rewrite len_map_Z in Hj.
  rewrite !nthZ_map_in by lia.
  specialize (Hs i j Hi Hij Hj).
  destruct (Z.eq_dec (nthZ l i) (nthZ l j)) as [E|Hne]; [rewrite E; lia|].
  assert (nthZ l i < nthZ l j) by lia.
  specialize (Hm (nthZ l i) (nthZ l j) (nthZ_In l i ltac:(lia)) (nthZ_In l j ltac:(lia)) H). lia.
Qed.

Lemma ssorted_map f l : mono_on f l -> ssorted l -> ssorted (map f l).
Proof.
  intros Hm Hs i j Hi Hij Hj. rewrite len_map_Z in Hj.
  rewrite !nthZ_map_in by lia.
  specialize (Hs i j Hi Hij Hj).
  apply Hm; [apply nthZ_In; lia | apply nthZ_In; lia | exact Hs].
Qed.

Lemma windows_ok_map f cs l : inj_on f l -> windows_ok cs l -> windows_ok cs (map f l).
Proof.
  intros Hinj Hw a Ha Hlt. rewrite len_map_Z in Hlt.
  destruct (Hw a Ha Hlt) as (k & Hk & Hne). exists k. split; [exact Hk|].
  rewrite !nthZ_map_in by lia. intros E. apply Hne.
  apply Hinj; [apply nthZ_In; lia | apply nthZ_In; lia | exact E].
Qed.

Lemma mono_on_incl f S T : (forall x, In x T -> In x S) -> mono_on f S -> mono_on f T.
Proof. intros Hi H x y Hx Hy. apply H; auto. Qed.

Lemma jmaps_map f how lu ru lk rk inv :
  inj_on f (lk ++ rk) ->
  jmaps how lu ru (map f lk) (map f rk) inv = jmaps how lu ru lk rk inv.
Proof.
  intros H. unfold jmaps, sel_a, sel_b. destruct (how =? 1) eqn:E.
  - rewrite join_spec_map; [reflexivity|].
    intros x y Hx Hy. apply H; apply in_app_or in Hx; apply in_app_or in Hy; apply in_or_app; tauto.
  - rewrite join_spec_map by exact H. reflexivity.
Qed.

Lemma ordered_dest_map f how lu ru lk rk lcols rcols lsuf rsuf :
  inj_on f (lk ++ rk) ->
  ordered_dest how lu ru (map f lk) (map f rk) lcols rcols lsuf rsuf
  = ordered_dest how lu ru lk rk lcols rcols lsuf rsuf.
Proof.
  intros H. unfold ordered_dest. rewrite !len_map_Z. rewrite jmaps_map by exact H. reflexivity.
Qed.

Theorem ordered_merge_key_embedding :
  forall f how lu ru lk rk lcols rcols lsuf rsuf cs mcs vf ccs,
  mono_on f (lk ++ rk) ->
  how = 0 \/ how = 1 \/ how = 2 -> 1 <= cs -> 1 <= mcs -> 0 <= vf -> 1 <= ccs ->
  hints_truthful lu ru lk rk ->
  frame_ok (len lk) lcols (mcs * vf) -> frame_ok (len rk) rcols (mcs * vf) ->
  NoDup (frame_names (ordered_dest how lu ru lk rk lcols rcols lsuf rsuf)) ->
  chunks_ok (v_kind (sel_variant how lu ru)) cs (sel_a how lk rk) (sel_b how lk rk) ->
  ordered_merge MFixed how lu ru (map f lk) (map f rk) lcols rcols lsuf rsuf (len lk) (len rk) cs mcs vf ccs
  = Ok (ordered_dest how lu ru lk rk lcols rcols lsuf rsuf).
Proof.
  intros f how lu ru lk rk lcols rcols lsuf rsuf cs mcs vf ccs Hm Hhow Hcs Hmcs Hvf Hccs Hh Hfl Hfr Hnd Hck.
  pose proof (mono_inj f _ Hm) as Hinj.
  assert (Hml : mono_on f lk) by (eapply mono_on_incl; [|exact Hm]; intros; apply in_or_app; tauto).
  assert (Hmr : mono_on f rk) by (eapply mono_on_incl; [|exact Hm]; intros; apply in_or_app; tauto).
  rewrite <- (ordered_dest_map f how lu ru lk rk lcols rcols lsuf rsuf Hinj).
  rewrite <- (len_map_Z f lk) at 1. rewrite <- (len_map_Z f rk) at 1.
  apply ordered_merge_correct_all; try assumption.
  - destruct Hh as (H1 & H2 & H3 & H4). repeat split.
    + apply sorted_map; assumption.
    + apply sorted_map; assumption.
    + intros E. apply ssorted_map; [assumption | apply H3; exact E].
    + intros E. apply ssorted_map; [assumption | apply H4; exact E].
  - rewrite len_map_Z. exact Hfl.
  - rewrite len_map_Z. exact Hfr.
  - rewrite ordered_dest_map by exact Hinj. exact Hnd.
  - destruct Hck as (Hl & Hr). unfold sel_a, sel_b in *.
    assert (Hil : inj_on f lk) by (apply mono_inj; exact Hml).
    assert (Hir : inj_on f rk) by (apply mono_inj; exact Hmr).
    split; intros E; destruct (how =? 1); apply windows_ok_map; auto.
Qed.

(* ---- conversions that are not injective on the keys present change the join ---------------------- *)
(* int64 -> int32 wrap-around: the right key 2^32 + 2 is not the left key 2 *)
Lemma wrap_int32_breaks_join :
  join_pairs 0 [[2]] (map (map (wrap_signed 32)) [[2 ^ 32 + 2]]) <> join_pairs 0 [[2]] [[2 ^ 32 + 2]].
Proof. vm_compute. discriminate. Qed.

(* uint16 <- int64 wrap-around (what pandas 3.0 does to a sorted pair, F-C02h) *)
Lemma wrap_uint16_breaks_join :
  join_pairs 2 [[0]] (map (map (wrap_unsigned 16)) [[65536]]) <> join_pairs 2 [[0]] [[65536]].
Proof. vm_compute. discriminate. Qed.

(* float64 -> float32 rounding: 1 + 2^-30 (scaled by 2^60) is not 1 *)
Lemma round_float32_breaks_join :
  join_pairs 3 [[2 ^ 60]] (map (map (round_sig 24)) [[2 ^ 60 + 2 ^ 30]]) <> join_pairs 3 [[2 ^ 60]] [[2 ^ 60 + 2 ^ 30]].
Proof. vm_compute. discriminate. Qed.

(* S5 -> S3 truncation: b"abcde" is not b"abc" (8-byte big-endian encoding) *)
Definition enc_abc : Z := (97 * 256 + 98) * 256 + 99.
Definition enc_abcde : Z := ((enc_abc * 256 + 100) * 256 + 101).
Lemma trunc_S3_breaks_join :
  join_pairs 1 [[enc_abc * 2 ^ 40]] (map (map (trunc_bytes 8 3)) [[enc_abcde * 2 ^ 24]])
  <> join_pairs 1 [[enc_abc * 2 ^ 40]] [[enc_abcde * 2 ^ 24]].
Proof. vm_compute. discriminate. Qed.

(* F-C02i: comparison through binary64 joins the int64 key 2^53 + 1 to the key 2^53 *)
Lemma binary64_view_breaks_join :
  join_pairs 0 (key_rows (view_keys [1] [[2 ^ 53 + 1]]) 1) (key_rows (view_keys [1] [[2 ^ 53]]) 1)
  <> join_pairs 0 (key_rows [[2 ^ 53 + 1]] 1) (key_rows [[2 ^ 53]] 1).
Proof. vm_compute. discriminate. Qed.

(* ... and only from 2^53 on: below, the view is the identity *)
Lemma key_view_exact_below_2_53 kv z : Z.abs z < 2 ^ 53 -> key_view kv z = z.
Proof.
  intros H. unfold key_view. destruct (kv =? 1); [|reflexivity].
  unfold round_sig. destruct (Z.ltb_spec (Z.abs z) (2 ^ 53)); [reflexivity|lia].
Qed.

Lemma view_keys_exact kvs cols :
  Forall (fun c => Forall (fun z => Z.abs z < 2 ^ 53) c) cols -> view_keys kvs cols = cols.
Proof.
  revert kvs. induction cols as [|c t IH]; intros kvs H; [destruct kvs; reflexivity|].
  inversion H as [|? ? Hc Ht]; subst. destruct kvs as [|kv kvs']; cbn [view_keys]; [reflexivity|].
  rewrite IH by exact Ht. f_equal.
  rewrite <- (map_id c) at 2. apply map_ext_in. intros z Hz.
  rewrite Forall_forall in Hc. apply key_view_exact_below_2_53. apply Hc. exact Hz.
Qed.

Lemma view_keys_off cols : view_keys (map (fun _ => 0) cols) cols = cols.
Proof.
  induction cols as [|c t IH]; cbn [map view_keys]; [reflexivity|]. rewrite IH. f_equal.
  rewrite <- (map_id c) at 2. apply map_ext. intros z. reflexivity.
Qed.

(* ---- witnesses at the level of merge ------------------------------------------------------------ *)
(* the hypotheses of ordered_merge_key_embedding on a non-trivial input: float keys 0.5 < 1 = 1 < 1.5 and
   1 < 1.5 < 2^10 scaled by 2^60 ... seen through the scaling z |-> z * 2^60 of integer keys *)
Lemma key_embedding_example :
  let f := fun z => z * 2 ^ 60 in
  mono_on f ([1;1;2;3] ++ [1;3;4]) /\
  ordered_merge MFixed 2 false false (map f [1;1;2;3]) (map f [1;3;4])
     [([107], CFix [0] [0] [[1];[1];[2];[3]])] [([107], CFix [0] [0] [[1];[3];[4]])] [95;108] [95;114] 4 3 3 2 2 2
  = Ok [ (N_left_map, map_column [0;1;3]); (N_right_map, map_column [0;0;1]);
         ([107;95;108], CFix [0] [0] [[1];[1];[3]]); ([107;95;114], CFix [0] [0] [[1];[1];[3]]) ].
Proof.
  split.
  - intros x y _ _ H. lia.
  - vm_compute. reflexivity.
Qed.

(* F-C02i: int64 left keys 2^53, 2^53 + 1, float64 right key 2^53, hint-free merge: pandas casts both columns to
   float64 and joins both left rows to the right row; the relational join does not.  One bit lower, or when the
   pair is compared exactly, the same merge is the relational join. *)
Definition i_args (view:bool) (k:Z) : margs :=
  mk_margs MFixed 0 false false false false
           (view_keys [if view then 1 else 0] [[k; k + 1]]) (view_keys [if view then 1 else 0] [[k]])
           [(nV, numcol [10;20])] [(nW, numcol [30])] sufL sufR 64 64 8 64.
Lemma binary64_comparison_breaks_merge :
  merge join_pairs (i_args true (2 ^ 53)) = Ok (false, [(nV, numcol [10;20]); (nW, numcol [30;30])]) /\
  merge_spec 0 [[2 ^ 53; 2 ^ 53 + 1]] [[2 ^ 53]] [(nV, numcol [10;20])] [(nW, numcol [30])] sufL sufR
  = [(nV, numcol [10;20]); (nW, numcol [30;0])] /\
  merge join_pairs (i_args true (2 ^ 52)) = merge join_pairs (i_args false (2 ^ 52)) /\
  merge join_pairs (i_args false (2 ^ 53))
  = Ok (false, merge_spec 0 [[2 ^ 53; 2 ^ 53 + 1]] [[2 ^ 53]] [(nV, numcol [10;20])] [(nW, numcol [30])] sufL sufR
               ++ [(N_valid ++ sufR, CFix [0] [0] [[1];[0]])]).
Proof. split; [|split; [|split]]; vm_compute; reflexivity. Qed.
