(* Proofs/TransformBase.v — shared lemmas for the C06 proofs: list equality, fold_res/map_res,
   how a chunk laid out by mk_chunk is read back (row_view), prefix sums. *)
From Coq Require Import ZArith List Bool Lia ZifyBool.
From EV Require Import Res Arr Transform.
Import ListNotations.
Open Scope Z_scope.

Lemma len_length {A} (l:list A) : len l = Z.of_nat (length l).
Proof. reflexivity. Qed.

Lemma forallb_combine_eq (a b:list Z) : length a = length b ->
  forallb (fun p => fst p =? snd p) (combine a b) = true -> a = b.
Proof.
  revert b. induction a as [|x a IH]; intros [|y b] Hl H; cbn in *; try discriminate; try reflexivity.
  apply andb_prop in H. destruct H as [H1 H2]. apply Z.eqb_eq in H1. subst. f_equal. apply IH; [lia|exact H2].
Qed.

Lemma list_eqb_eq (a b:list Z) : list_eqb a b = true <-> a = b.
Proof.
  unfold list_eqb. split.
  - intros H. apply andb_prop in H. destruct H as [H1 H2]. apply Z.eqb_eq in H1. unfold len in H1.
    apply forallb_combine_eq; [lia|exact H2].
  - intros ->. rewrite Z.eqb_refl. cbn. induction b as [|y b IH]; cbn; [reflexivity|].
    rewrite Z.eqb_refl. exact IH.
Qed.

Lemma list_eqb_refl a : list_eqb a a = true.
Proof. apply list_eqb_eq. reflexivity. Qed.

Lemma list_eqb_neq a b : list_eqb a b = false <-> a <> b.
Proof.
  split.
  - intros H E. apply list_eqb_eq in E. congruence.
  - intros H. destruct (list_eqb a b) eqn:E; [|reflexivity]. apply list_eqb_eq in E. contradiction.
Qed.

(* ---- fold_res / map_res ---- *)
Lemma fold_res_app {S A} (f:S -> A -> res S) s l1 l2 :
  fold_res f s (l1 ++ l2) = bind (fold_res f s l1) (fun s' => fold_res f s' l2).
Proof.
  revert s. induction l1 as [|x l1 IH]; intros s; cbn; [reflexivity|].
  destruct (f s x); cbn; auto.
Qed.

Lemma map_res_ok {A B} (f:A -> res B) (g:A -> B) l :
  (forall x, In x l -> f x = Ok (g x)) -> map_res f l = Ok (map g l).
Proof.
  induction l as [|x l IH]; intros H; cbn; [reflexivity|].
  rewrite H by (left; reflexivity). cbn. rewrite IH by (intros; apply H; right; assumption). reflexivity.
Qed.

Lemma map_res_ext {A B} (f g:A -> res B) l :
  (forall x, In x l -> f x = g x) -> map_res f l = map_res g l.
Proof.
  induction l as [|x l IH]; intros H; cbn; [reflexivity|].
  rewrite H by (left; reflexivity). rewrite IH by (intros; apply H; right; assumption). reflexivity.
Qed.

Lemma map_res_map {A B C} (f:B -> res C) (g:A -> B) l :
  map_res f (map g l) = map_res (fun x => f (g x)) l.
Proof. induction l as [|x l IH]; cbn; [reflexivity|]. rewrite IH. reflexivity. Qed.

Lemma map_res_app {A B} (f:A -> res B) l1 l2 :
  map_res f (l1 ++ l2) =
  bind (map_res f l1) (fun r1 => bind (map_res f l2) (fun r2 => Ok (r1 ++ r2))).
Proof.
  induction l1 as [|x l1 IH]; cbn.
  - destruct (map_res f l2); reflexivity.
  - destruct (f x); cbn; auto. rewrite IH. destruct (map_res f l1); cbn; auto.
    destruct (map_res f l2); cbn; auto.
Qed.

Lemma map_res_length {A B} (f:A -> res B) l r : map_res f l = Ok r -> length r = length l.
Proof.
  revert r. induction l as [|x l IH]; intros r H; cbn in *.
  - inversion H. reflexivity.
  - destruct (f x); cbn in H; try discriminate. destruct (map_res f l); cbn in H; try discriminate.
    inversion H. cbn. f_equal. apply IH. reflexivity.
Qed.

(* ---- prefix sums ---- *)
Lemma psums_from_cons acc x l : psums_from acc (x :: l) = acc :: psums_from (acc + x) l.
Proof. reflexivity. Qed.

Lemma len_psums_from acc l : len (psums_from acc l) = len l + 1.
Proof. unfold len. rewrite psums_from_length. lia. Qed.

Lemma psums_from_app acc l1 l2 :
  psums_from acc (l1 ++ l2) = psums_from acc l1 ++ tl (psums_from (acc + sumZ l1) l2).
Proof.
  revert acc. induction l1 as [|x l1 IH]; intros acc.
  - cbn [app sumZ psums_from]. replace (acc + 0) with acc by lia. destruct l2; reflexivity.
  - cbn [app psums_from sumZ]. rewrite IH. cbn [app].
    replace (acc + (x + sumZ l1)) with (acc + x + sumZ l1) by lia. reflexivity.
Qed.

Lemma psums_from_nth acc pre x post :
  nth (length pre) (psums_from acc (pre ++ x :: post)) 0 = acc + sumZ pre /\
  nth (S (length pre)) (psums_from acc (pre ++ x :: post)) 0 = acc + sumZ pre + x.
Proof.
  revert acc. induction pre as [|y pre IH]; intros acc.
  - cbn [app psums_from length sumZ nth]. split; [lia|]. destruct post; cbn [psums_from nth]; lia.
  - cbn [app psums_from length sumZ nth]. destruct (IH (acc + y)) as [H1 H2].
    split; [rewrite H1|rewrite H2]; lia.
Qed.

Lemma psums_from_nth_last acc l : nth (length l) (psums_from acc l) 0 = acc + sumZ l.
Proof.
  revert acc. induction l as [|y l IH]; intros acc; cbn [psums_from length sumZ nth]; [lia|].
  rewrite IH. lia.
Qed.

Lemma sumZ_map_len_concat (l:list (list Z)) : sumZ (map len l) = len (concat l).
Proof.
  induction l as [|x l IH]; cbn [map sumZ concat]; [reflexivity|]. rewrite len_app, IH. reflexivity.
Qed.

(* ---- get on appended lists ---- *)
Lemma get_app_mid {A} site (a:list A) x b : get site (a ++ x :: b) (len a) = Ok x.
Proof.
  unfold get, len. destruct (Z.of_nat (length a) <? 0) eqn:E; [lia|].
  rewrite Nat2Z.id. rewrite nth_error_app2 by lia. rewrite Nat.sub_diag. reflexivity.
Qed.

Lemma get_nth {A} site (l:list A) (n:nat) d : (n < length l)%nat -> get site l (Z.of_nat n) = Ok (nth n l d).
Proof.
  intros H. rewrite (get_ok site d) by (unfold len; lia). unfold nthd. rewrite Nat2Z.id. reflexivity.
Qed.

Lemma set_app_mid {A} site (a:list A) x b v : set site (a ++ x :: b) (len a) v = Ok (a ++ v :: b).
Proof.
  rewrite set_ok by (rewrite len_app, len_cons; pose proof (len_nonneg b); pose proof (len_nonneg a); lia).
  f_equal. unfold upd, len. rewrite Nat2Z.id.
  induction a as [|y a IH]; cbn; [reflexivity|]. f_equal. exact IH.
Qed.

Lemma zeros_succ n : 0 <= n -> zeros (n + 1) = 0 :: zeros n.
Proof. intros H. unfold zeros. replace (Z.to_nat (n + 1)) with (S (Z.to_nat n)) by lia. reflexivity. Qed.

Lemma len_zeros n : 0 <= n -> len (zeros n) = n.
Proof. intros H. unfold zeros, len. rewrite repeat_length. lia. Qed.

Lemma len_repeat {A} (x:A) n : len (repeat x n) = Z.of_nat n.
Proof. unfold len. rewrite repeat_length. reflexivity. Qed.

(* ---- the view of one row of a chunk ---- *)
Inductive row_view (c:chunk) (row:Z) (cell:list Z) : Prop :=
| mkRowView (ks:Z) (A B:list Z)
    (Hrow : 0 <= row)
    (Hi0 : forall site, get site (c_inds c) row = Ok ks)
    (Hi1 : forall site, get site (c_inds c) (row + 1) = Ok (ks + len cell))
    (Hvals : c_vals c = A ++ cell ++ B)
    (Hbase : len A = c_off c + ks).

Lemma row_view_mk off slack tail pre cell post :
  0 <= off ->
  row_view (mk_chunk off slack tail (pre ++ cell :: post)) (len pre) cell.
Proof.
  intros Hoff.
  apply (mkRowView _ _ _ (sumZ (map len pre))
           (repeat 1 (Z.to_nat off) ++ concat pre) (concat post ++ repeat 2 (Z.to_nat slack))).
  - apply len_nonneg.
  - intros site. cbn [mk_chunk c_inds]. unfold psums. rewrite map_app. cbn [map].
    destruct (psums_from_nth 0 (map len pre) (len cell) (map len post)) as [H1 _].
    rewrite map_length in H1.
    replace (len pre) with (Z.of_nat (length pre)) by reflexivity.
    rewrite (get_nth site _ _ 0).
    + rewrite app_nth1; [rewrite H1; f_equal; lia|].
      rewrite psums_from_length, app_length, map_length. cbn. rewrite map_length. lia.
    + rewrite app_length, psums_from_length, app_length, map_length. cbn. rewrite map_length. lia.
  - intros site. cbn [mk_chunk c_inds]. unfold psums. rewrite map_app. cbn [map].
    destruct (psums_from_nth 0 (map len pre) (len cell) (map len post)) as [_ H2].
    rewrite map_length in H2.
    replace (len pre + 1) with (Z.of_nat (S (length pre))) by (unfold len; lia).
    rewrite (get_nth site _ _ 0).
    + rewrite app_nth1; [rewrite H2; f_equal; lia|].
      rewrite psums_from_length, app_length, map_length. cbn. rewrite map_length. lia.
    + rewrite app_length, psums_from_length, app_length, map_length. cbn. rewrite map_length. lia.
  - cbn [mk_chunk c_vals]. rewrite concat_app. cbn [concat]. rewrite <- !app_assoc. reflexivity.
  - cbn [mk_chunk c_off]. rewrite len_app, len_repeat, sumZ_map_len_concat. lia.
Qed.

Lemma mk_chunk_rows off slack tail cells : c_rows (mk_chunk off slack tail cells) = len cells.
Proof. reflexivity. Qed.

Lemma mk_chunk_len_inds off slack tail cells : 0 <= tail ->
  len (c_inds (mk_chunk off slack tail cells)) = len cells + 1 + tail.
Proof.
  intros H. cbn [mk_chunk c_inds]. rewrite len_app, len_repeat. unfold psums.
  rewrite len_psums_from. unfold len. rewrite map_length. lia.
Qed.

(* reading inside a row *)
Lemma get_in_cell site (A cell B:list Z) j :
  0 <= j < len cell -> get site (A ++ cell ++ B) (len A + j) = Ok (nthZ cell j).
Proof.
  intros H. rewrite (get_ok site 0).
  - f_equal. unfold nthZ. rewrite nthd_app_r by lia. replace (len A + j - len A) with j by lia.
    rewrite nthd_app_l by lia. reflexivity.
  - rewrite !len_app. pose proof (len_nonneg A). pose proof (len_nonneg B). lia.
Qed.
