(* Proofs/UniqueCoerce.v — C14: isin on integer columns is exact, whatever the magnitude of the
   values and whatever the test collection holds besides integers of the column's dtype (None
   entries, integers outside the dtype); and an implicit dtype coercion of column / test values is
   unobservable exactly when it is injective on the values involved. *)
From Coq Require Import ZArith List Lia Bool.
From EV Require Import Res Arr UniqueSpec Unique UniqueContainer.
Import ListNotations.
Open Scope Z_scope.

Lemma somes_map_Some {A} (l:list A) : somes (map Some l) = l.
Proof. induction l as [|a t IH]; cbn [map somes]; [reflexivity|rewrite IH; reflexivity]. Qed.

Lemma eqc_Z_true x y : eqc Z.compare x y = true <-> x = y.
Proof.
  unfold eqc. destruct (x ?= y) eqn:E.
  - apply Z.compare_eq_iff in E. split; [intros _; exact E|reflexivity].
  - split; [discriminate|]. intros H. subst y. rewrite Z.compare_refl in E. discriminate.
  - split; [discriminate|]. intros H. subst y. rewrite Z.compare_refl in E. discriminate.
Qed.

Lemma existsb_eqc_in x l : existsb (eqc Z.compare x) l = true <-> In x l.
Proof.
  rewrite existsb_exists. split.
  - intros [y [Hin E]]. apply eqc_Z_true in E. subst y. exact Hin.
  - intros Hin. exists x. split; [exact Hin|apply eqc_Z_true; reflexivity].
Qed.

Lemma bool_ext (a b:bool) : (a = true <-> b = true) -> a = b.
Proof. destruct a, b; intros [H1 H2]; try reflexivity; [symmetry; apply H1; reflexivity|apply H2; reflexivity]. Qed.

(* the repaired integer path = the specification, for every column whose values the dtype holds:
   dropping None entries and out-of-range integers is unobservable, beyond 2^53 as below *)
Theorem isin_int_exact lo hi (data:list Z) (tests:list (option Z)) :
  Forall (fun x => lo <= x <= hi) data ->
  apply_isin_int lo hi data tests = spec_isin Z.compare data tests.
Proof.
  intros Hd. unfold apply_isin_int, apply_isin_plain, exact_integer_tests, spec_isin.
  rewrite somes_map_Some. apply map_ext_in. intros x Hx.
  rewrite Forall_forall in Hd. specialize (Hd x Hx).
  apply bool_ext. rewrite !existsb_eqc_in, filter_In. unfold in_dtype.
  split; [intros [H _]; exact H|]. intros H. split; [exact H|].
  apply andb_true_iff. split; apply Z.leb_le; lia.
Qed.

(* a coercion that is injective on (column value, test value) pairs is unobservable ... *)
Theorem isin_coercion_injective (c:Z -> Z) (data:list Z) (tests:list (option Z)) :
  (forall x t, In x data -> In (Some t) tests -> c x = c t -> x = t) ->
  isin_coerced c data tests = spec_isin Z.compare data tests.
Proof.
  intros Hinj. unfold isin_coerced, spec_isin. rewrite map_map. apply map_ext_in. intros x Hx.
  apply bool_ext. rewrite !existsb_eqc_in, !in_somes. rewrite in_map_iff. split.
  - intros [[t|] [E Hin]]; cbn [option_map] in E; [|discriminate].
    injection E as E. rewrite (Hinj x t Hx Hin (eq_sym E)). exact Hin.
  - intros Hin. exists (Some x). split; [reflexivity|exact Hin].
Qed.

(* ... and one that merges a column value with a test value that is not a member is observable:
   the row is reported as a member (the false positive of every such defect) *)
Theorem isin_coercion_collision (c:Z -> Z) (data:list Z) (tests:list (option Z)) i t :
  0 <= i < len data -> In (Some t) tests -> c (nthZ data i) = c t -> ~ In (Some (nthZ data i)) tests ->
  nthd false (isin_coerced c data tests) i = true /\ nthd false (spec_isin Z.compare data tests) i = false.
Proof.
  intros Hi Hin Hc Hnot. unfold isin_coerced, spec_isin, nthZ in *. unfold nthd in *. unfold len in Hi.
  assert (Hn : (Z.to_nat i < length data)%nat) by lia.
  split.
  - rewrite map_map.
    rewrite (nth_indep _ false (existsb (eqc Z.compare (c 0)) (somes (map (option_map c) tests))))
      by (rewrite map_length; exact Hn).
    rewrite (map_nth (fun x => existsb (eqc Z.compare (c x)) (somes (map (option_map c) tests))) data 0).
    apply existsb_eqc_in. apply in_somes. apply in_map_iff. exists (Some t). split; [cbn [option_map]; rewrite Hc; reflexivity|exact Hin].
  - rewrite (nth_indep _ false (existsb (eqc Z.compare 0) (somes tests))) by (rewrite map_length; exact Hn).
    rewrite (map_nth (fun x => existsb (eqc Z.compare x) (somes tests)) data 0).
    apply not_true_is_false. intros E. apply existsb_eqc_in in E. apply in_somes in E. exact (Hnot E).
Qed.

(* the witnesses of the class: binary64 rounding (a None entry turned into NaN makes the test values
   float64), int64 <-> uint64 reinterpretation, narrowing to 32 bits *)
Example coerced_f64_refuted :
  isin_coerced f64_round [2 ^ 53 + 1; 5] [Some (2 ^ 53); None] = [true; false] /\
  spec_isin Z.compare [2 ^ 53 + 1; 5] [Some (2 ^ 53); None] = [false; false] /\
  apply_isin_int (- 2 ^ 63) (2 ^ 63 - 1) [2 ^ 53 + 1; 5] [Some (2 ^ 53); None] = [false; false].
Proof. vm_compute. repeat split. Qed.

Example coerced_wrap64_refuted :
  isin_coerced (wrap_signed 64) [2 ^ 64 - 1; 5] [Some (-1); None] = [true; false] /\
  apply_isin_int 0 (2 ^ 64 - 1) [2 ^ 64 - 1; 5] [Some (-1); None] = [false; false].
Proof. vm_compute. repeat split. Qed.

Example coerced_narrow32_refuted :
  isin_coerced (wrap_signed 32) [2 ^ 32 + 5; 5] [Some 5] = [true; true] /\
  apply_isin_int (- 2 ^ 63) (2 ^ 63 - 1) [2 ^ 32 + 5; 5] [Some 5] = [false; true].
Proof. vm_compute. repeat split. Qed.
