(* Proofs/FilterIndexFrames.v — from the kernels to fields and dataframes:
   every FieldDataOps.apply_* call computes `select_body` (gather of the decoded entries, stored
   canonically); DataFrame.apply_filter / apply_index / sort_values apply the SAME gather to
   every column (rows stay aligned), leave the source untouched when a destination is given,
   copy the metadata, and the in-place form yields the same content as the out-of-place form. *)
From Coq Require Import ZArith List Bool Lia Permutation Sorted.
From EV Require Import Res Arr StableSort StableSortProofs FilterIndex FilterIndexSpec
                       FilterIndexKernels FilterIndexSort.
Import ListNotations.
Open Scope Z_scope.

(* ------------------------------------------------------------------ decode o encode = id *)
Lemma slice_app_prefix (pre c rest:list Z) :
  slice (pre ++ c ++ rest) (len pre) (len pre + len c) = c.
Proof.
  unfold slice. replace (len pre + len c - len pre) with (len c) by lia.
  replace (Z.to_nat (len pre)) with (length pre) by (unfold len; lia).
  rewrite skipn_app_exact. replace (Z.to_nat (len c)) with (length c) by (unfold len; lia).
  apply firstn_app_exact.
Qed.

Lemma cells_of_psums_from (cs:list cell) : forall (pre:list Z),
  cells_of (psums_from (len pre) (lens cs)) (pre ++ concat cs) = cs.
Proof.
  induction cs as [|c t IH]; intros pre; [reflexivity|].
  cbn [lens map psums_from concat].
  destruct t as [|c2 t'].
  - cbn [map psums_from concat cells_of]. rewrite app_nil_r.
    replace (pre ++ c) with (pre ++ c ++ []) by (rewrite app_nil_r; reflexivity).
    rewrite slice_app_prefix. reflexivity.
  - specialize (IH (pre ++ c)). rewrite len_app in IH. rewrite <- app_assoc in IH.
    cbn [lens map psums_from] in *. cbn [cells_of].
    rewrite slice_app_prefix. f_equal. exact IH.
Qed.

Lemma cells_of_enc (cs:list cell) : cells_of (psums (lens cs)) (concat cs) = cs.
Proof. exact (cells_of_psums_from cs []). Qed.

(* ------------------------------------------------------------------ well-formed storage *)
Inductive wf_body : body -> Prop :=
| wf_dat d : wf_body (BDat d)
| wf_unwritten : wf_body (BIdx [] [])
| wf_idx cs : wf_body (BIdx (psums (lens cs)) (concat cs)).

Definition body_cells (b:body) : list cell := field_cells (mkField [] true b).

Lemma body_cells_idx cs : body_cells (BIdx (psums (lens cs)) (concat cs)) = cs.
Proof. apply cells_of_enc. Qed.

Lemma field_cells_body f : field_cells f = body_cells (fbody f).
Proof. destruct f; reflexivity. Qed.

Lemma field_len_cells f : wf_body (fbody f) -> field_len f = len (field_cells f).
Proof.
  destruct f as [mt w b]. cbn [fbody]. intros H. unfold field_len, field_cells. cbn [fbody].
  destruct H.
  - unfold len. rewrite map_length. reflexivity.
  - reflexivity.
  - rewrite cells_of_enc. rewrite len_psums. unfold lens, len. rewrite map_length. lia.
Qed.

(* ------------------------------------------------------------------ mask = gather o sel *)
Lemma mask_gather_gen {A} (d:A) : forall (l pre:list A) (m:list bool),
  length m = length l -> gather d (pre ++ l) (sel_from (len pre) m) = FilterIndex.mask l m.
Proof.
  induction l as [|x t IH]; intros pre m Hl; destruct m as [|b mt]; cbn in Hl; try lia; [reflexivity|].
  cbn [sel_from FilterIndex.mask].
  assert (E : pre ++ x :: t = (pre ++ [x]) ++ t) by (rewrite <- app_assoc; reflexivity).
  assert (IH' := IH (pre ++ [x]) mt). rewrite len_snoc in IH'. rewrite <- E in IH'.
  destruct b.
  - cbn [gather map]. fold (gather d (pre ++ x :: t) (sel_from (len pre + 1) mt)). rewrite IH' by lia.
    f_equal. rewrite nthd_app_r by lia. rewrite Z.sub_diag. reflexivity.
  - apply IH'. lia.
Qed.

Lemma mask_gather {A} (d:A) (l:list A) m : length m = length l -> FilterIndex.mask l m = gather d l (sel m).
Proof. intros H. symmetry. exact (mask_gather_gen d l [] m H). Qed.

Lemma sel_from_range i m x : In x (sel_from i m) -> i <= x < i + len m.
Proof.
  revert i. induction m as [|b t IH]; intros i H; cbn [sel_from] in H; [destruct H|].
  rewrite len_cons. pose proof (len_nonneg t).
  destruct b; [destruct H as [<-|H]; [lia|]|]; specialize (IH _ H); lia.
Qed.

Lemma sel_in_range m : in_range (len m) (sel m) = true.
Proof.
  unfold in_range. apply forallb_forall. intros x Hx. apply sel_from_range in Hx. lia.
Qed.

(* the filter semantics: the selected positions, ascending, are exactly the set entries *)
Lemma sel_from_spec i m x : In x (sel_from i m) <-> (i <= x /\ nth (Z.to_nat (x - i)) m false = true).
Proof.
  revert i. induction m as [|b t IH]; intros i; cbn [sel_from].
  - split; [intros []|]. intros [_ H]. destruct (Z.to_nat (x - i)); discriminate.
  - assert (Hstep : i + 1 <= x -> nth (Z.to_nat (x - i)) (b :: t) false = nth (Z.to_nat (x - (i + 1))) t false).
    { intros Hx. replace (Z.to_nat (x - i)) with (S (Z.to_nat (x - (i + 1)))) by lia. reflexivity. }
    destruct b; cbn [In]; rewrite IH; split.
    + intros [<-|[H1 H2]]; [split; [lia|]; rewrite Z.sub_diag; reflexivity|]. rewrite Hstep by lia. split; [lia|exact H2].
    + intros [H1 H2]. destruct (Z.eq_dec i x) as [->|Hne]; [left; reflexivity|right].
      rewrite Hstep in H2 by lia. split; [lia|exact H2].
    + intros [H1 H2]. rewrite Hstep by lia. split; [lia|exact H2].
    + intros [H1 H2]. destruct (Z.eq_dec i x) as [->|Hne]; [rewrite Z.sub_diag in H2; discriminate|].
      rewrite Hstep in H2 by lia. split; [lia|exact H2].
Qed.

Lemma sel_from_increasing i m : StronglySorted Z.lt (sel_from i m).
Proof.
  revert i. induction m as [|b t IH]; intros i; cbn [sel_from]; [constructor|].
  destruct b; [|apply IH]. constructor; [apply IH|].
  apply Forall_forall. intros x Hx. apply sel_from_range in Hx. lia.
Qed.

Theorem sel_spec m :
  StronglySorted Z.lt (sel m) /\ forall x, In x (sel m) <-> (0 <= x /\ nth (Z.to_nat x) m false = true).
Proof.
  split; [apply sel_from_increasing|]. intros x. unfold sel. rewrite sel_from_spec, Z.sub_0_r. reflexivity.
Qed.

(* ------------------------------------------------------------------ plain columns *)
Lemma dat_select d ps : select_body (BDat d) ps = BDat (gather 0 d ps).
Proof.
  unfold select_body, encode_like, gather. cbn [field_cells fbody]. f_equal. rewrite map_map.
  apply map_ext. intros p. unfold nthd.
  destruct (Nat.lt_ge_cases (Z.to_nat p) (length d)) as [H|H].
  - rewrite (nth_map_in _ 0) by exact H. reflexivity.
  - rewrite (nth_overflow d) by exact H. rewrite (nth_overflow (map (fun x : Z => [x]) d)) by (rewrite map_length; exact H). reflexivity.
Qed.

Lemma idx_select cs ps :
  select_body (BIdx (psums (lens cs)) (concat cs)) ps
  = BIdx (psums (lens (gather [] cs ps))) (concat (gather [] cs ps)).
Proof.
  unfold select_body, encode_like. cbn [field_cells fbody]. rewrite cells_of_enc. reflexivity.
Qed.

Lemma unwritten_select ps :
  select_body (BIdx [] []) ps = BIdx (psums (lens (gather [] [] ps))) (concat (gather [] [] ps)).
Proof. reflexivity. Qed.

Lemma np_mask_ok {A} (d:A) l m : len m = len l -> np_mask l m = Ok (gather d l (sel m)).
Proof.
  intros H. unfold np_mask. rewrite H, Z.eqb_refl. f_equal. apply mask_gather. unfold len in H. lia.
Qed.

Lemma truthy_bools m : truthy (bools_to_Z m) = m.
Proof.
  unfold truthy, bools_to_Z. rewrite map_map. rewrite <- (map_id m) at 2. apply map_ext.
  intros []; reflexivity.
Qed.

Lemma validate_filter_ok dt flt : (dt =? 0) || (dt =? 1) = true -> validate_filter dt flt = Ok (truthy flt).
Proof. intros H. unfold validate_filter. rewrite H. reflexivity. Qed.

Lemma len_truthy flt : len (truthy flt) = len flt.
Proof. unfold truthy, len. rewrite map_length. reflexivity. Qed.

(* ------------------------------------------------------------------ field level *)
Lemma field_len_idx cs : field_len (mkField [] true (BIdx (psums (lens cs)) (concat cs))) = len cs.
Proof.
  unfold field_len. cbn [fbody]. rewrite len_psums. unfold lens, len. rewrite map_length. lia.
Qed.

Lemma len_0_nil {A} (l:list A) : len l = 0 -> l = [].
Proof. destruct l; [reflexivity|]. rewrite len_cons. pose proof (len_nonneg l). lia. Qed.

Theorem field_filter_correct f dt flt target in_place :
  wf_body (fbody f) -> (dt =? 0) || (dt =? 1) = true -> len flt = field_len f ->
  in_place && is_some target = false ->
  field_apply_filter f dt flt target in_place
  = deliver f (select_body (fbody f) (sel (truthy flt))) target in_place.
Proof.
  intros Hwf Hdt Hlen Hflag. unfold field_apply_filter. rewrite Hflag.
  rewrite (validate_filter_ok _ _ Hdt). cbn [bind].
  destruct f as [mt w b]. cbn [fbody] in *. unfold field_len in Hlen. cbn [fbody] in Hlen.
  destruct Hwf as [d| |cs].
  - rewrite (np_mask_ok 0) by (rewrite len_truthy; exact Hlen). cbn [bind]. rewrite dat_select. reflexivity.
  - cbn in Hlen. apply len_0_nil in Hlen. subst flt. reflexivity.
  - assert (Hl : len flt = len cs).
    { rewrite Hlen, len_psums. unfold lens, len. rewrite map_length. lia. }
    rewrite filter_indexed_correct by (unfold truthy; rewrite map_length; unfold len in Hl; lia).
    unfold enc. cbn [bind]. rewrite idx_select.
    rewrite (mask_gather [] cs (truthy flt)) by (unfold truthy; rewrite map_length; unfold len in Hl; lia).
    reflexivity.
Qed.

Lemma in_range_0 idx : in_range 0 idx = true -> idx = [].
Proof. destruct idx as [|x t]; [reflexivity|]. cbn. intros H. apply andb_prop in H. lia. Qed.

Theorem field_index_correct f idx target in_place :
  wf_body (fbody f) -> in_range (field_len f) idx = true ->
  in_place && is_some target = false ->
  field_apply_index f idx target in_place = deliver f (select_body (fbody f) idx) target in_place.
Proof.
  intros Hwf Hr Hflag. unfold field_apply_index. rewrite Hflag.
  destruct f as [mt w b]. cbn [fbody] in *. unfold field_len in Hr. cbn [fbody] in Hr.
  destruct Hwf as [d| |cs].
  - rewrite (np_take_ok 0).
    + cbn [bind]. rewrite dat_select. reflexivity.
    + apply Forall_forall. intros k Hk. unfold in_range in Hr. rewrite forallb_forall in Hr.
      specialize (Hr k Hk). lia.
  - cbn in Hr. apply in_range_0 in Hr. subst idx. reflexivity.
  - assert (Hr' : in_range (len cs) idx = true).
    { rewrite len_psums in Hr. unfold lens in Hr. replace (len (map (@len Z) cs) + 1 - 1) with (len cs) in Hr
        by (unfold len; rewrite map_length; lia).
      rewrite Z.max_l in Hr by apply len_nonneg. exact Hr. }
    rewrite index_indexed_correct by (apply in_range_valid; exact Hr').
    unfold enc. cbn [bind]. rewrite idx_select, cell_at_gather by exact Hr'. reflexivity.
Qed.

(* ------------------------------------------------------------------ delivering the result *)
Lemma ds_put_any d x : ds_put d x = x.
Proof. unfold ds_put, ds_write, ds_clear. destruct (len d =? len x); reflexivity. Qed.

Definition same_kind (a b:body) : Prop :=
  match a, b with BIdx _ _, BIdx _ _ | BDat _, BDat _ => True | _, _ => False end.

Lemma select_kind b ps : same_kind b (select_body b ps).
Proof. destruct b; exact I. Qed.

Lemma deliver_in_place f b :
  fwr f = true -> deliver f b None true = Ok (mkFres (with_body f b) None (with_body f b)).
Proof.
  intros Hw. unfold deliver. rewrite Hw. cbn [negb]. destruct b; reflexivity.
Qed.

Lemma deliver_target f b t :
  same_kind (fbody t) b ->
  deliver f b (Some t) false = Ok (mkFres f (Some (with_body t b)) (with_body t b)).
Proof.
  intros Hk. unfold deliver. destruct b as [di dv|dd]; destruct (fbody t) as [ti tv|td]; try contradiction;
    rewrite ?ds_put_any; reflexivity.
Qed.

Lemma deliver_new f b :
  same_kind (fbody f) b ->
  deliver f b None false = Ok (mkFres f None (mkField (fmeta f) true b)).
Proof.
  intros Hk. unfold deliver, create_like, with_body. cbn [fmeta fwr].
  destruct b; reflexivity.
Qed.

(* "Writing to a destination leaves the source ... untouched" — trivial in the functional model *)
Theorem source_unchanged f b t r : deliver f b t false = Ok r -> r_src r = f.
Proof.
  unfold deliver. destruct t as [t|].
  - destruct b; destruct (fbody t); intros H; inversion H; reflexivity.
  - intros H; inversion H; reflexivity.
Qed.

(* "the in-place form produces the same content as the out-of-place form" and
   "destination columns keep the source column's type, dtype, fixed length and categorical key" *)
Theorem inplace_equals_outofplace f ps r1 r2 r3 :
  let b := select_body (fbody f) ps in
  deliver f b None true = Ok r1 ->
  deliver f b (Some (create_like f)) false = Ok r2 ->
  deliver f b None false = Ok r3 ->
  fbody (r_src r1) = b /\ fbody (r_ret r2) = b /\ fbody (r_ret r3) = b /\
  fmeta (r_src r1) = fmeta f /\ fmeta (r_ret r2) = fmeta f /\ fmeta (r_ret r3) = fmeta f /\
  r_src r2 = f /\ r_src r3 = f.
Proof.
  intros b H1 H2 H3.
  assert (Hk : same_kind (fbody f) b) by apply select_kind.
  assert (Hk2 : same_kind (fbody (create_like f)) b).
  { unfold create_like. cbn [fbody]. destruct (fbody f); exact Hk. }
  rewrite (deliver_target f b _ Hk2) in H2. rewrite (deliver_new f b Hk) in H3.
  unfold deliver in H1. destruct (negb (fwr f)); [discriminate|].
  inversion H2; inversion H3; subst; clear H2 H3.
  assert (E1 : r_src r1 = with_body f b) by (destruct b; inversion H1; reflexivity).
  rewrite E1. cbn. repeat split; reflexivity.
Qed.

(* ------------------------------------------------------------------ the boolean well-formedness test *)
Lemma skipn_add {A} (l:list A) a b : skipn (a + b) l = skipn b (skipn a l).
Proof. revert l. induction a as [|a IH]; intros l; [reflexivity|]. destruct l; cbn; [destruct b; reflexivity|apply IH]. Qed.

Lemma firstn_split {A} (l:list A) k m : firstn k l ++ firstn m (skipn k l) = firstn (k + m) l.
Proof.
  revert l. induction k as [|k IH]; intros l; [reflexivity|].
  destruct l; cbn; [destruct m; reflexivity|]. f_equal. apply IH.
Qed.

Lemma slice_split (v:list Z) a n L : 0 <= a -> a <= n -> n <= L ->
  slice v a n ++ slice v n L = slice v a L.
Proof.
  intros Ha Hn HL. unfold slice.
  replace (Z.to_nat n) with (Z.to_nat a + Z.to_nat (n - a))%nat by lia. rewrite skipn_add.
  rewrite firstn_split. f_equal. lia.
Qed.

Lemma sortedb_last_ge a t : sortedb (a :: t) = true -> a <= last (a :: t) 0.
Proof.
  revert a. induction t as [|n t IH]; intros a H; [cbn; lia|].
  cbn [sortedb] in H. apply andb_prop in H. destruct H as [H1 H2]. apply Z.leb_le in H1.
  specialize (IH n H2). change (last (a :: n :: t) 0) with (last (n :: t) 0). lia.
Qed.

Lemma enc_cells_of : forall t a v,
  sortedb (a :: t) = true -> 0 <= a -> last (a :: t) 0 <= len v ->
  psums_from a (lens (cells_of (a :: t) v)) = a :: t /\
  concat (cells_of (a :: t) v) = slice v a (last (a :: t) 0).
Proof.
  induction t as [|n t IH]; intros a v Hs Ha Hl.
  - cbn [cells_of lens map psums_from concat last]. split; [reflexivity|].
    unfold slice. rewrite Z.sub_diag. reflexivity.
  - pose proof Hs as Hs0. cbn [sortedb] in Hs. apply andb_prop in Hs. destruct Hs as [H1 H2]. apply Z.leb_le in H1.
    change (last (a :: n :: t) 0) with (last (n :: t) 0) in *.
    pose proof (sortedb_last_ge n t H2) as Hge.
    destruct (IH n v H2 ltac:(lia) Hl) as [IH1 IH2].
    change (cells_of (a :: n :: t) v) with (slice v a n :: cells_of (n :: t) v).
    cbn [lens map psums_from concat]. fold (lens (cells_of (n :: t) v)).
    rewrite len_slice by lia. replace (a + (n - a)) with n by lia. rewrite IH1, IH2.
    split; [reflexivity|]. apply slice_split; lia.
Qed.

Lemma wf_bodyb_sound b : wf_bodyb b = true -> wf_body b.
Proof.
  destruct b as [i v|d]; [|intros _; constructor].
  destruct i as [|i0 t]; cbn [wf_bodyb].
  - intros H. apply Z.eqb_eq in H. apply len_0_nil in H. subst v. constructor.
  - intros H. apply andb_prop in H. destruct H as [H H3]. apply andb_prop in H. destruct H as [H1 H2].
    apply Z.eqb_eq in H1. apply Z.eqb_eq in H3. subst i0.
    destruct (enc_cells_of t 0 v H2 ltac:(lia) ltac:(lia)) as [E1 E2].
    rewrite H3 in E2. rewrite slice_full in E2.
    rewrite <- E1 at 1. rewrite <- E2 at 2. apply wf_idx.
Qed.

(* ------------------------------------------------------------------ the column loops *)
Lemma has_name_app n d1 d2 : has_name n (d1 ++ d2) = has_name n d1 || has_name n d2.
Proof.
  induction d1 as [|[m f] t IH]; cbn [app has_name]; [reflexivity|]. rewrite IH. apply orb_assoc.
Qed.

Lemma disjoint_names_snoc cols ddf n f :
  disjoint_names cols ddf = true -> has_name n cols = false ->
  disjoint_names cols (ddf ++ [(n, f)]) = true.
Proof.
  induction cols as [|[m g] t IH]; cbn [disjoint_names has_name]; [reflexivity|].
  intros H Hn. apply andb_prop in H. destruct H as [H1 H2]. apply orb_false_elim in Hn. destruct Hn as [Hn1 Hn2].
  rewrite has_name_app. cbn [has_name]. rewrite orb_false_r.
  apply negb_true_iff in H1. rewrite H1.
  rewrite Z.eqb_sym in Hn1. rewrite Hn1. cbn. apply IH; assumption.
Qed.

Definition sel_col (ps:list Z) (wr:option bool) (nf:Z * field) : Z * field :=
  (fst nf, mkField (fmeta (snd nf)) (match wr with Some w => w | None => fwr (snd nf) end)
                   (select_body (fbody (snd nf)) ps)).

Lemma cols_to_ddf_ok (op:field -> option field -> bool -> res fres) ps : forall cols ddf,
  (forall nf t, In nf cols ->
     op (snd nf) (Some t) false = deliver (snd nf) (select_body (fbody (snd nf)) ps) (Some t) false) ->
  nodup_names cols = true -> disjoint_names cols ddf = true ->
  cols_to_ddf op cols ddf = Ok (cols, ddf ++ map (sel_col ps (Some true)) cols).
Proof.
  induction cols as [|[name f] t IH]; intros ddf Hop Hnd Hdj; cbn [cols_to_ddf map].
  - rewrite app_nil_r. reflexivity.
  - cbn [nodup_names disjoint_names] in Hnd, Hdj.
    apply andb_prop in Hnd. destruct Hnd as [Hn1 Hn2]. apply andb_prop in Hdj. destruct Hdj as [Hd1 Hd2].
    apply negb_true_iff in Hn1. apply negb_true_iff in Hd1. rewrite Hd1.
    pose proof (Hop (name, f) (create_like f) (or_introl eq_refl)) as H0. cbn [snd] in H0. rewrite H0.
    rewrite deliver_target.
    2:{ unfold create_like. cbn [fbody]. destruct (fbody f); exact I. }
    cbn [bind r_tgt r_src].
    rewrite IH.
    + cbn [bind]. rewrite <- app_assoc. reflexivity.
    + intros nf t' Hin. apply Hop. right. exact Hin.
    + exact Hn2.
    + apply disjoint_names_snoc; assumption.
Qed.

Lemma cols_in_place_ok (op:field -> option field -> bool -> res fres) ps : forall cols,
  (forall nf, In nf cols ->
     op (snd nf) None true = deliver (snd nf) (select_body (fbody (snd nf)) ps) None true) ->
  forallb (fun nf:Z * field => fwr (snd nf)) cols = true ->
  cols_in_place op cols = Ok (map (sel_col ps None) cols).
Proof.
  induction cols as [|[name f] t IH]; intros Hop Hw; cbn [cols_in_place map]; [reflexivity|].
  cbn [forallb snd] in Hw. apply andb_prop in Hw. destruct Hw as [Hw1 Hw2].
  pose proof (Hop (name, f) (or_introl eq_refl)) as H0. cbn [snd] in H0. rewrite H0.
  rewrite deliver_in_place by exact Hw1.
  cbn [bind r_src]. rewrite IH; [|intros nf Hin; apply Hop; right; exact Hin|exact Hw2].
  cbn [bind]. reflexivity.
Qed.

Lemma spec_select_eq cols ps ddf :
  spec_select cols ps ddf =
  match ddf with
  | Some d => (cols, Some (d ++ map (sel_col ps (Some true)) cols))
  | None => (map (sel_col ps None) cols, None)
  end.
Proof. destruct ddf; reflexivity. Qed.

Lemma frame_ok_in n cols nf : frame_ok n cols = true -> In nf cols ->
  wf_body (fbody (snd nf)) /\ field_len (snd nf) = n.
Proof.
  unfold frame_ok. rewrite forallb_forall. intros H Hin. specialize (H nf Hin).
  apply andb_prop in H. destruct H as [H1 H2]. split; [apply wf_bodyb_sound; exact H1|apply Z.eqb_eq; exact H2].
Qed.

(* ------------------------------------------------------------------ DataFrame.apply_filter *)
Theorem df_filter_correct cols dt flt ddf r :
  spec_filter cols dt flt ddf = Some r -> df_apply_filter cols dt flt ddf = Ok r.
Proof.
  unfold spec_filter. set (n := nrows cols).
  destruct (frame_ok n cols) eqn:Hok; [|discriminate].
  destruct (nodup_names cols) eqn:Hnd; [|discriminate].
  destruct (dest_ok cols ddf) eqn:Hdst; [|discriminate].
  destruct ((dt =? 0) || (dt =? 1)) eqn:Hdt; [|discriminate].
  cbn [andb]. destruct ((len flt =? n) || match cols with [] => true | _ => false end) eqn:Hlen; [|discriminate].
  intros H. inversion H; subst r; clear H.
  unfold df_apply_filter. rewrite (validate_filter_ok _ _ Hdt). cbn [bind].
  assert (Hop : forall nf t ip, In nf cols -> ip && is_some t = false ->
            field_apply_filter (snd nf) 0 (bools_to_Z (truthy flt)) t ip
            = deliver (snd nf) (select_body (fbody (snd nf)) (sel (truthy flt))) t ip).
  { intros nf t ip Hin Hf. destruct (frame_ok_in n cols nf Hok Hin) as [Hwf Hfl].
    rewrite field_filter_correct; [rewrite truthy_bools; reflexivity|exact Hwf|reflexivity| |exact Hf].
    unfold bools_to_Z. unfold len at 1. rewrite map_length. fold (len (truthy flt)). rewrite len_truthy, Hfl.
    destruct cols as [|c0 ct]; [destruct Hin|]. rewrite orb_false_r in Hlen. apply Z.eqb_eq. exact Hlen. }
  rewrite spec_select_eq. destruct ddf as [d|]; cbn [dest_ok] in Hdst.
  - rewrite (cols_to_ddf_ok _ (sel (truthy flt))); [reflexivity| |exact Hnd|exact Hdst].
    intros nf t Hin. apply Hop; [exact Hin|reflexivity].
  - rewrite (cols_in_place_ok _ (sel (truthy flt))); [reflexivity| |exact Hdst].
    intros nf Hin. apply Hop; [exact Hin|reflexivity].
Qed.

(* ------------------------------------------------------------------ DataFrame.apply_index *)
Lemma all_same_len_ok n : forall cols seen,
  frame_ok n cols = true -> (seen = None \/ seen = Some n) -> all_same_len cols seen = true.
Proof.
  induction cols as [|[name f] t IH]; intros seen Hok Hs; cbn [all_same_len]; [reflexivity|].
  unfold frame_ok in Hok. cbn [forallb snd] in Hok. apply andb_prop in Hok. destruct Hok as [H1 H2].
  apply andb_prop in H1. destruct H1 as [_ H1]. apply Z.eqb_eq in H1.
  destruct Hs as [->| ->].
  - apply IH; [exact H2|right; rewrite H1; reflexivity].
  - rewrite H1, Z.eqb_refl. cbn. apply IH; [exact H2|right; reflexivity].
Qed.

Theorem df_index_correct cols idx ddf r :
  spec_index cols idx ddf = Some r -> df_apply_index cols idx ddf = Ok r.
Proof.
  unfold spec_index. set (n := nrows cols).
  destruct (frame_ok n cols) eqn:Hok; [|discriminate].
  destruct (nodup_names cols) eqn:Hnd; [|discriminate].
  destruct (dest_ok cols ddf) eqn:Hdst; [|discriminate].
  destruct (in_range n idx) eqn:Hr; [|discriminate].
  cbn [andb]. intros H. inversion H; subst r; clear H.
  unfold df_apply_index.
  assert (Hop : forall nf t ip, In nf cols -> ip && is_some t = false ->
            field_apply_index (snd nf) idx t ip
            = deliver (snd nf) (select_body (fbody (snd nf)) idx) t ip).
  { intros nf t ip Hin Hf. destruct (frame_ok_in n cols nf Hok Hin) as [Hwf Hfl].
    apply field_index_correct; [exact Hwf|rewrite Hfl; exact Hr|exact Hf]. }
  rewrite spec_select_eq. destruct ddf as [d|]; cbn [dest_ok] in Hdst.
  - rewrite (cols_to_ddf_ok _ idx); [reflexivity| |exact Hnd|exact Hdst].
    intros nf t Hin. apply Hop; [exact Hin|reflexivity].
  - rewrite (all_same_len_ok n cols None Hok (or_introl eq_refl)). cbn [negb].
    rewrite (cols_in_place_ok _ idx); [reflexivity| |exact Hdst].
    intros nf Hin. apply Hop; [exact Hin|reflexivity].
Qed.

(* ------------------------------------------------------------------ DataFrame.sort_values *)
Lemma lookup_in k cols f : lookup k cols = Some f -> has_name k cols = true /\ exists k', In (k', f) cols.
Proof.
  induction cols as [|[m g] t IH]; cbn [lookup has_name]; [discriminate|].
  destruct (m =? k) eqn:E.
  - intros H. inversion H; subst g. split; [reflexivity|]. exists m. left. reflexivity.
  - intros H. destruct (IH H) as [H1 [k' H2]]. split; [exact H1|]. exists k'. right. exact H2.
Qed.

Lemma key_columns_readers cols : forall by_ kcs,
  key_columns cols by_ = Some kcs ->
  all_in by_ cols = true /\
  exists fields, readers_of by_ cols = Ok fields /\ map field_cells fields = kcs /\
                 Forall (fun f => exists k', In (k', f) cols) fields.
Proof.
  induction by_ as [|k t IH]; intros kcs H; cbn [key_columns fold_right] in H.
  - inversion H; subst. split; [reflexivity|]. exists []. repeat split. constructor.
  - fold (key_columns cols t) in H. destruct (lookup k cols) as [f|] eqn:El; [|discriminate].
    destruct (key_columns cols t) as [l|] eqn:Ek; [|discriminate]. inversion H; subst kcs; clear H.
    destruct (IH l eq_refl) as [Ha [fields [Hr [Hm Hf]]]].
    destruct (lookup_in k cols f El) as [Hn Hin].
    split; [cbn [all_in]; rewrite Hn, Ha; reflexivity|].
    exists (f :: fields). cbn [readers_of]. rewrite El, Hr. cbn [bind map]. rewrite Hm.
    repeat split. constructor; assumption.
Qed.

Lemma lexsort_in_range n kcs : 0 <= n -> in_range n (lexsort_perm (rows_of n kcs)) = true.
Proof.
  intros Hn. unfold in_range. apply forallb_forall. intros x Hx. unfold lexsort_perm in Hx.
  apply argsort_range in Hx. unfold len in Hx. rewrite rows_of_length in Hx. lia.
Qed.

Theorem sorted_index_correct cols by_ kcs :
  let n := nrows cols in
  by_ <> [] -> key_columns cols by_ = Some kcs -> frame_ok n cols = true ->
  exists fields, readers_of by_ cols = Ok fields /\
                 sorted_index_of fields = Ok (lexsort_perm (rows_of n kcs)) /\ 0 <= n.
Proof.
  intros n Hne Hk Hok.
  destruct (key_columns_readers cols by_ kcs Hk) as [_ [fields [Hr [Hm Hf]]]].
  exists fields. split; [exact Hr|].
  destruct fields as [|r0 rest].
  { destruct by_; [contradiction|]. cbn [readers_of] in Hr. destruct (lookup z cols); [|discriminate].
    destruct (readers_of by_ cols); discriminate. }
  assert (Hall : Forall (fun f => wf_body (fbody f) /\ field_len f = n) (r0 :: rest)).
  { eapply Forall_impl; [|exact Hf]. intros f [k' Hin]. exact (frame_ok_in n cols (k', f) Hok Hin). }
  pose proof (Forall_inv Hall) as [Hwf0 Hl0].
  assert (Hn : 0 <= n) by (rewrite <- Hl0, (field_len_cells r0 Hwf0); apply len_nonneg).
  split; [|exact Hn]. unfold sorted_index_of. rewrite Hl0, Hm.
  apply dataset_sort_index_lexsort; [rewrite <- Hm; discriminate|exact Hn|].
  rewrite <- Hm. apply Forall_forall. intros c Hc. apply in_map_iff in Hc. destruct Hc as [f [<- Hin]].
  rewrite Forall_forall in Hall. destruct (Hall f Hin) as [Hwf Hl]. rewrite <- (field_len_cells f Hwf). exact Hl.
Qed.

Theorem df_sort_correct cols by_ ddf r :
  spec_sort cols by_ ddf = Some r -> df_sort_values cols by_ ddf = Ok r.
Proof.
  unfold spec_sort. set (n := nrows cols).
  destruct by_ as [|k0 kt] eqn:Eby; [discriminate|]. rewrite <- Eby.
  destruct (key_columns cols by_) as [kcs|] eqn:Hk; [|rewrite Eby; discriminate].
  replace (match by_ with [] => None | _ :: _ => if frame_ok n cols && nodup_names cols && dest_ok cols ddf
             then Some (spec_select cols (lexsort_perm (rows_of n kcs)) ddf) else None end)
    with (if frame_ok n cols && nodup_names cols && dest_ok cols ddf
          then Some (spec_select cols (lexsort_perm (rows_of n kcs)) ddf) else None : option (frame * option frame))
    by (rewrite Eby; reflexivity).
  destruct (frame_ok n cols) eqn:Hok; [|discriminate].
  destruct (nodup_names cols) eqn:Hnd; [|discriminate].
  destruct (dest_ok cols ddf) eqn:Hdst; [|discriminate].
  cbn [andb]. intros H. inversion H; subst r; clear H.
  assert (Hne : by_ <> []) by (rewrite Eby; discriminate).
  destruct (sorted_index_correct cols by_ kcs Hne Hk Hok) as [fields [Hr [Hs Hn]]]. fold n in Hs, Hn.
  destruct (key_columns_readers cols by_ kcs Hk) as [Hall _].
  unfold df_sort_values, validate_selected_keys. rewrite Hall.
  replace (match by_ with [] => Raise E_ValueError | _ :: _ => Ok by_ end) with (Ok by_ : res (list Z))
    by (rewrite Eby; reflexivity).
  cbn [bind]. rewrite Hr. cbn [bind]. rewrite Hs. cbn [bind].
  apply df_index_correct. unfold spec_index. fold n. rewrite Hok, Hnd, Hdst, (lexsort_in_range n kcs Hn).
  reflexivity.
Qed.

(* ------------------------------------------------------------------ rows stay aligned *)
(* decoding what `select_body` stored gives back the gathered entries *)
Lemma body_cells_select b ps :
  wf_body b -> in_range (len (body_cells b)) ps = true ->
  body_cells (select_body b ps) = gather [] (body_cells b) ps.
Proof.
  intros Hwf Hr. destruct Hwf as [d| |cs].
  - rewrite dat_select. unfold body_cells, field_cells. cbn [fbody]. unfold gather. rewrite !map_map.
    apply map_ext_in. intros p Hp. unfold in_range in Hr. rewrite forallb_forall in Hr. specialize (Hr p Hp).
    unfold body_cells, field_cells in Hr. cbn [fbody] in Hr. unfold len in Hr. rewrite map_length in Hr.
    rewrite (nthd_map _ 0) by (unfold len; lia). reflexivity.
  - cbn in Hr. apply in_range_0 in Hr. subst ps. reflexivity.
  - rewrite idx_select. rewrite !body_cells_idx. reflexivity.
Qed.

(* the pure list fact: gathering every column by the same positions gathers the rows *)
Theorem columns_stay_aligned (colcells:list (list cell)) ps n :
  in_range n ps = true ->
  rows_of (len ps) (map (fun c => gather [] c ps) colcells) = gather [] (rows_of n colcells) ps.
Proof.
  intros Hr. unfold rows_of at 1. unfold gather at 2.
  replace (Z.to_nat (len ps)) with (length ps) by (unfold len; lia).
  transitivity (map (fun p => nthd [] (rows_of n colcells) p) (map (nthd 0 ps) (iota 0 (length ps))));
    [|rewrite map_nthd_iota; reflexivity].
  rewrite map_map.
  apply map_ext_in. intros i Hi. apply iota_In in Hi.
  assert (Hp : 0 <= nthd 0 ps i < n).
  { unfold in_range in Hr. rewrite forallb_forall in Hr. specialize (Hr (nthd 0 ps i)).
    assert (In (nthd 0 ps i) ps) by (unfold nthd; apply nth_In; lia). specialize (Hr H). lia. }
  rewrite rows_of_nthd by exact Hp. unfold row_at. rewrite map_map. apply map_ext. intros c.
  unfold gather. rewrite (nthd_map _ 0) by (unfold len; lia). reflexivity.
Qed.

(* rows of a frame = rows of its decoded columns *)
Definition frame_rows (cols:frame) : list (list cell) :=
  rows_of (nrows cols) (map (fun nf:Z * field => field_cells (snd nf)) cols).

Theorem select_rows_aligned cols ps :
  let n := nrows cols in
  cols <> [] -> frame_ok n cols = true -> in_range n ps = true ->
  frame_rows (map (sel_col ps None) cols) = gather [] (frame_rows cols) ps.
Proof.
  intros n Hne Hok Hr. unfold frame_rows. fold n.
  assert (Hcells : map (fun nf:Z * field => field_cells (snd nf)) (map (sel_col ps None) cols)
                   = map (fun c => gather [] c ps) (map (fun nf:Z * field => field_cells (snd nf)) cols)).
  { rewrite !map_map. apply map_ext_in. intros nf Hin. unfold sel_col. cbn [snd].
    destruct (frame_ok_in n cols nf Hok Hin) as [Hwf Hl].
    rewrite !field_cells_body. cbn [fbody]. apply body_cells_select; [exact Hwf|].
    rewrite <- field_cells_body, <- (field_len_cells _ Hwf), Hl. exact Hr. }
  rewrite Hcells.
  assert (Hn' : nrows (map (sel_col ps None) cols) = len ps).
  { destruct cols as [|[k f] t]; [contradiction|]. cbn [map nrows sel_col fst snd].
    destruct (frame_ok_in n ((k, f) :: t) (k, f) Hok (or_introl eq_refl)) as [Hwf Hl]. cbn [snd] in *.
    assert (Hwf' : wf_body (select_body (fbody f) ps)).
    { destruct Hwf as [d| |cs]; [rewrite dat_select; constructor| |rewrite idx_select; constructor].
      rewrite unwritten_select. constructor. }
    rewrite field_len_cells by exact Hwf'. rewrite field_cells_body. cbn [fbody].
    rewrite body_cells_select; [unfold gather, len; rewrite map_length; reflexivity|exact Hwf|].
    rewrite <- field_cells_body, <- (field_len_cells _ Hwf), Hl. exact Hr. }
  rewrite Hn'. apply columns_stay_aligned. exact Hr.
Qed.

(* ------------------------------------------------------------------ multiset of rows *)
Theorem sort_multiset_preserved {A} (d:A) (rows:list A) ps :
  Permutation ps (iota 0 (length rows)) -> Permutation (gather d rows ps) rows.
Proof.
  intros Hp. unfold gather. transitivity (map (nthd d rows) (iota 0 (length rows))).
  - apply Permutation_map. exact Hp.
  - rewrite map_nthd_iota. reflexivity.
Qed.

Lemma mask_sublist {A} (l:list A) : forall m, sublist (FilterIndex.mask l m) l.
Proof.
  induction l as [|x t IH]; intros m; [destruct m; constructor|].
  destruct m as [|b mt]; cbn [FilterIndex.mask].
  - clear IH. induction (x :: t) as [|y u IHu]; constructor. exact IHu.
  - destruct b; [apply sub_keep|apply sub_skip]; apply IH.
Qed.

Theorem filter_subset {A} (d:A) (rows:list A) m :
  length m = length rows -> sublist (gather d rows (sel m)) rows.
Proof. intros H. rewrite <- (mask_gather d rows m H). apply mask_sublist. Qed.

(* ------------------------------------------------------------------ Session.sort_on into another group *)
Theorem session_sort_on_dest_correct cols keys d r :
  spec_sort cols keys (Some d) = Some r -> session_sort_on cols keys (Some d) = Ok r.
Proof.
  unfold spec_sort. set (n := nrows cols).
  destruct keys as [|k0 kt] eqn:Eby; [discriminate|]. rewrite <- Eby.
  destruct (key_columns cols keys) as [kcs|] eqn:Hk; [|rewrite Eby; discriminate].
  replace (match keys with [] => None | _ :: _ => if frame_ok n cols && nodup_names cols && dest_ok cols (Some d)
             then Some (spec_select cols (lexsort_perm (rows_of n kcs)) (Some d)) else None end)
    with (if frame_ok n cols && nodup_names cols && dest_ok cols (Some d)
          then Some (spec_select cols (lexsort_perm (rows_of n kcs)) (Some d)) else None : option (frame * option frame))
    by (rewrite Eby; reflexivity).
  destruct (frame_ok n cols) eqn:Hok; [|discriminate].
  destruct (nodup_names cols) eqn:Hnd; [|discriminate].
  destruct (dest_ok cols (Some d)) eqn:Hdst; [|discriminate].
  cbn [andb]. intros H. inversion H; subst r; clear H.
  assert (Hne : keys <> []) by (rewrite Eby; discriminate).
  destruct (sorted_index_correct cols keys kcs Hne Hk Hok) as [fields [Hr [Hs Hn]]]. fold n in Hs, Hn.
  unfold session_sort_on. rewrite Hr. cbn [bind]. rewrite Hs. cbn [bind].
  rewrite (cols_to_ddf_ok _ (lexsort_perm (rows_of n kcs))); [reflexivity| |exact Hnd|exact Hdst].
  intros nf t Hin. destruct (frame_ok_in n cols nf Hok Hin) as [Hwf Hfl].
  apply field_index_correct; [exact Hwf|rewrite Hfl; apply lexsort_in_range; exact Hn|reflexivity].
Qed.

(* ------------------------------------------------------------------ Session.apply_* on an ndarray source *)
Theorem session_filter_array_correct src dt flt dest :
  (dt =? 0) || (dt =? 1) = true -> len flt = len src ->
  session_apply_filter_array src dt flt dest
  = Ok (gather 0 src (sel (truthy flt)),
        match dest with Some d => Some (d ++ gather 0 src (sel (truthy flt))) | None => None end).
Proof.
  intros Hdt Hl. unfold session_apply_filter_array. rewrite (validate_filter_ok _ _ Hdt). cbn [bind].
  rewrite (np_mask_ok 0) by (rewrite len_truthy; exact Hl). reflexivity.
Qed.

Theorem session_index_array_correct src idx dest :
  in_range (len src) idx = true ->
  session_apply_index_array src idx dest
  = Ok (gather 0 src idx, match dest with Some d => Some (d ++ gather 0 src idx) | None => None end).
Proof.
  intros Hr. unfold session_apply_index_array. rewrite (np_take_ok 0); [reflexivity|].
  apply Forall_forall. intros k Hk. unfold in_range in Hr. rewrite forallb_forall in Hr.
  specialize (Hr k Hk). lia.
Qed.

(* ------------------------------------------------------------------ Session.sort_on onto the same group *)
Lemma off_perm (a b:list (list Z)) : Permutation a b -> off a = off b.
Proof. unfold off, lens. induction 1; cbn [map sumZ]; lia. Qed.

Lemma with_body_same f : with_body f (fbody f) = f.
Proof. destruct f; reflexivity. Qed.

Lemma len_gather {A} (d:A) l ps : len (gather d l ps) = len ps.
Proof. unfold gather, len. rewrite map_length. reflexivity. Qed.

Definition sort_on_col (f:field) (ps:list Z) : res field :=
  do r <- field_apply_index f ps None false;
  do b <- match fbody f, fbody (r_ret r) with
          | BIdx i v, BIdx di dv => do i' <- h5_assign_all i di; do v' <- h5_assign_all v dv; Ok (BIdx i' v')
          | BDat d, BDat dd => do d' <- h5_assign_all d dd; Ok (BDat d')
          | _, _ => Raise E_Other
          end;
  Ok (with_body f b).

Lemma sort_on_col_ok f ps n :
  wf_body (fbody f) -> field_len f = n -> 0 <= n -> Permutation ps (iota 0 (Z.to_nat n)) ->
  sort_on_col f ps
  = Ok (if n =? 0 then f else mkField (fmeta f) (fwr f) (select_body (fbody f) ps)).
Proof.
  intros Hwf Hl Hn Hp.
  assert (Hlen : len ps = n).
  { unfold len. rewrite (Permutation_length Hp), iota_length. lia. }
  assert (Hr : in_range n ps = true).
  { unfold in_range. apply forallb_forall. intros x Hx. eapply Permutation_in in Hx; [|exact Hp].
    apply iota_In in Hx. lia. }
  unfold sort_on_col. rewrite field_index_correct; [|exact Hwf|rewrite Hl; exact Hr|reflexivity].
  rewrite deliver_new by apply select_kind. cbn [bind r_ret fbody].
  destruct f as [mt w b]. cbn [fbody fmeta fwr] in *. unfold field_len in Hl. cbn [fbody] in Hl.
  unfold with_body. cbn [fmeta fwr].
  destruct Hwf as [d| |cs].
  - rewrite dat_select. unfold h5_assign_all. rewrite len_gather, Hlen, Hl, Z.eqb_refl. cbn [bind].
    destruct (n =? 0) eqn:E; [|reflexivity].
    apply Z.eqb_eq in E. rewrite E in Hl, Hlen. apply len_0_nil in Hl. apply len_0_nil in Hlen. subst. reflexivity.
  - cbn in Hl. subst n. cbn in Hp. apply Permutation_sym, Permutation_nil in Hp. subst ps. reflexivity.
  - assert (Hcs : len cs = n).
    { rewrite len_psums in Hl. unfold lens in Hl. unfold len in *. rewrite map_length in Hl. lia. }
    rewrite idx_select. unfold h5_assign_all.
    assert (E1 : len (psums (lens cs)) = len (psums (lens (gather [] cs ps)))).
    { rewrite !len_psums. unfold lens, len. rewrite !map_length. unfold gather. rewrite map_length.
      unfold len in Hcs, Hlen. lia. }
    assert (E2 : len (concat cs) = len (concat (gather [] cs ps))).
    { rewrite !len_concat. symmetry. apply off_perm. apply sort_multiset_preserved.
      replace (length cs) with (Z.to_nat n) by (unfold len in Hcs; lia). exact Hp. }
    rewrite E1, E2, !Z.eqb_refl. cbn [bind].
    destruct (n =? 0) eqn:E; [|reflexivity].
    apply Z.eqb_eq in E. rewrite E in Hcs, Hlen. apply len_0_nil in Hcs. apply len_0_nil in Hlen. subst. reflexivity.
Qed.

Lemma sort_on_same_ok ps n : forall cols,
  frame_ok n cols = true -> 0 <= n -> Permutation ps (iota 0 (Z.to_nat n)) ->
  sort_on_same cols ps
  = Ok (map (fun p:(Z * field) * (Z * field) => if field_len (snd (fst p)) =? 0 then fst p else snd p)
            (combine cols (map (sel_col ps None) cols))).
Proof.
  induction cols as [|[name f] t IH]; intros Hok Hn Hp; cbn [sort_on_same map combine]; [reflexivity|].
  destruct (frame_ok_in n ((name, f) :: t) (name, f) Hok (or_introl eq_refl)) as [Hwf Hl]. cbn [snd] in *.
  pose proof (sort_on_col_ok f ps n Hwf Hl Hn Hp) as Hc. unfold sort_on_col in Hc.
  destruct (field_apply_index f ps None false) as [r| | |]; cbn [bind] in Hc |- *; try discriminate.
  destruct (match fbody f with
            | BIdx i v => match fbody (r_ret r) with
                          | BIdx di dv => do i' <- h5_assign_all i di; do v' <- h5_assign_all v dv; Ok (BIdx i' v')
                          | BDat _ => Raise E_Other end
            | BDat d => match fbody (r_ret r) with
                        | BIdx _ _ => Raise E_Other
                        | BDat dd => do d' <- h5_assign_all d dd; Ok (BDat d') end
            end) as [b| | |]; cbn [bind] in Hc |- *; try discriminate.
  rewrite IH; [|unfold frame_ok in *; cbn [forallb] in Hok; apply andb_prop in Hok; apply Hok|exact Hn|exact Hp].
  cbn [bind fst snd]. injection Hc as Hc'. rewrite Hc', Hl.
  destruct (n =? 0); unfold sel_col; cbn [fst snd]; reflexivity.
Qed.

Theorem session_sort_on_same_correct cols keys r :
  spec_sort_on cols keys None = Some r -> session_sort_on cols keys None = Ok r.
Proof.
  unfold spec_sort_on, spec_sort. set (n := nrows cols).
  destruct keys as [|k0 kt] eqn:Eby; [discriminate|]. rewrite <- Eby.
  destruct (key_columns cols keys) as [kcs|] eqn:Hk; [|rewrite Eby; discriminate].
  replace (match keys with [] => None | _ :: _ => if frame_ok n cols && nodup_names cols && dest_ok cols None
             then Some (spec_select cols (lexsort_perm (rows_of n kcs)) None) else None end)
    with (if frame_ok n cols && nodup_names cols && dest_ok cols None
          then Some (spec_select cols (lexsort_perm (rows_of n kcs)) None) else None : option (frame * option frame))
    by (rewrite Eby; reflexivity).
  destruct (frame_ok n cols) eqn:Hok; [|discriminate].
  destruct (nodup_names cols) eqn:Hnd; [|discriminate].
  destruct (dest_ok cols None) eqn:Hdst; [|discriminate].
  cbn [andb spec_select]. intros H. inversion H; subst r; clear H.
  assert (Hne : keys <> []) by (rewrite Eby; discriminate).
  destruct (sorted_index_correct cols keys kcs Hne Hk Hok) as [fields [Hr [Hs Hn]]]. fold n in Hs, Hn.
  unfold session_sort_on. rewrite Hr. cbn [bind]. rewrite Hs. cbn [bind].
  rewrite (sort_on_same_ok _ n cols Hok Hn); [reflexivity|].
  unfold lexsort_perm. rewrite <- (rows_of_length n kcs). apply argsort_perm.
Qed.
