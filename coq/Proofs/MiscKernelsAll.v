(* Proofs/MiscKernelsAll.v — the C10 reading of the correctness theorems (no OOB, no fuel exhaustion on valid
   input) and non-trivial examples satisfying the hypotheses of each theorem. *)
From Coq Require Import ZArith List Lia Bool.
From EV Require Import Res Arr MiscKernels MiscKernelsSpec MiscKernelsBase MiscKernelsChunks MiscKernelsSizes
  MiscKernelsInner MiscKernelsSort MiscKernelsStream.
Import ListNotations.
Open Scope Z_scope.

Definition safe {A} (r:res A) : Prop := (forall site, r <> OOB site) /\ r <> OutOfFuel.

Lemma ok_safe {A} (r:res A) a : r = Ok a -> safe r.
Proof. intros ->. split; [intros site|]; discriminate. Qed.

Lemma raise_safe {A} (r:res A) c : r = Raise c -> safe r.
Proof. intros ->. split; [intros site|]; discriminate. Qed.

(* every kernel of Model/MiscKernels.v, on every valid input: no out-of-bounds access, and it terminates *)
Theorem misc_kernels_safe :
  (forall length_ cs, 1 <= cs -> safe (chunks (chunks_fuel length_) length_ cs)) /\
  (forall left right, safe (ordered_left_map_result_size left right)) /\
  (forall left right, safe (ordered_outer_map_result_size_both_unique (outer_fuel left right) left right)) /\
  (forall d_i d_j left right lti rti, ilu_pre_b lti rti = true ->
     safe (ordered_inner_map_left_unique_partial (ilu_fuel left right) d_i d_j left right lti rti)) /\
  (forall L R, safe (ordered_inner_map_left_unique_streamed (ilus_fuel L R) L R)) /\
  (forall field, safe (ordered_get_last_as_filter true field)) /\
  (forall idx lens svals sidx dv di, ssp_pre_b idx lens svals sidx dv di = true ->
     safe (streaming_sort_partial (ssp_fuel lens) idx lens svals sidx dv di)) /\
  (forall D cs, 1 <= cs -> safe (data_iterator true (chunks_fuel (len D)) D cs)) /\
  (forall pk fk, safe (foreign_key_is_in_primary_key pk fk)) /\
  (forall field, safe (filter_duplicate_fields field)).
Proof.
  split; [intros; eapply ok_safe; apply chunks_correct; [assumption|apply le_n]|].
  split; [intros; eapply ok_safe; apply ordered_left_map_result_size_correct|].
  split; [intros; eapply ok_safe; apply ordered_outer_map_result_size_both_unique_correct; apply le_n|].
  split; [intros; eapply ok_safe; apply ordered_inner_map_left_unique_partial_correct; [assumption|apply le_n]|].
  split.
  { intros L R. destruct L as [|x L'].
    - eapply raise_safe. apply ordered_inner_map_left_unique_streamed_empty_raises. left; reflexivity.
    - destruct R as [|y R'].
      + eapply raise_safe. apply ordered_inner_map_left_unique_streamed_empty_raises. right; reflexivity.
      + eapply ok_safe. apply ordered_inner_map_left_unique_streamed_correct; [congruence|congruence|apply le_n]. }
  split; [intros; eapply ok_safe; apply ordered_get_last_as_filter_correct|].
  split; [intros; eapply ok_safe; apply streaming_sort_partial_correct; [assumption|apply le_n]|].
  split; [intros; eapply ok_safe; apply data_iterator_correct; [assumption|apply le_n]|].
  split; [intros; eapply ok_safe; apply foreign_key_is_in_primary_key_correct|].
  intros; eapply ok_safe; apply filter_duplicate_fields_correct.
Qed.

(* ------------------------------------------------------------------ examples (hypotheses are satisfiable, results non-trivial) *)
Example chunks_example : chunks (chunks_fuel 10) 10 4 = Ok [(0, 4); (4, 8); (8, 10)].
Proof. reflexivity. Qed.

Example left_size_example : ordered_left_map_result_size [1;1;2;2;3] [1;1;2;3] = Ok 4.
Proof. reflexivity. Qed.

Example outer_size_example :
  ordered_outer_map_result_size_both_unique (outer_fuel [0;2;3;4;6;8;9;10] [1;3;4;5;6;7])
    [0;2;3;4;6;8;9;10] [1;3;4;5;6;7] = Ok 11.
Proof. reflexivity. Qed.

Example ilu_partial_example :
  ilu_pre_b [0;0;0;0] [0;0;0;0] = true /\
  ordered_inner_map_left_unique_partial (ilu_fuel [10;20;30] [20;20;30;30;30;40]) 100 200
    [10;20;30] [20;20;30;30;30;40] [0;0;0;0] [0;0;0;0] = Ok (2, 4, 4, [101;101;102;102], [200;201;202;203]).
Proof. split; reflexivity. Qed.

Example last_example : ordered_get_last_as_filter true [1;1;2;3;3;5;5] = Ok [0;1;1;0;1;0;1].
Proof. reflexivity. Qed.

Example ssp_example :
  ssp_pre_b [0;1] [3;2] [[1;4;6]; [0;3]] [[10;11;12]; [20;21]] [0;0;0;0;0] [0;0;0;0;0] = true /\
  streaming_sort_partial (ssp_fuel [3;2]) [0;1] [3;2] [[1;4;6]; [0;3]] [[10;11;12]; [20;21]] [0;0;0;0;0] [0;0;0;0;0]
  = Ok (2, [1;2], [1;3;0;0;0], [10;21;0;0;0]).
Proof. split; reflexivity. Qed.

Example data_iterator_example : data_iterator true (chunks_fuel 5) [10;11;12;13;14] 2 = Ok [10;11;12;13;14].
Proof. reflexivity. Qed.

Example fk_example : foreign_key_is_in_primary_key [1;2;3] [3;4;1;1] = Ok [1;0;1;1].
Proof. reflexivity. Qed.

Example dup_example : filter_duplicate_fields [1;2;1;3;2] = Ok [1;1;0;1;0].
Proof. reflexivity. Qed.
