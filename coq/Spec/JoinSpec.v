(* Spec/JoinSpec.v — the relational join on key lists, as row-index pairs (C03, C02, C19). *)
From Coq Require Import ZArith List Bool.
Import ListNotations.
Open Scope Z_scope.

(* indices j0+k of the elements of R equal to key, ascending *)
Fixpoint matches_from (key:Z) (R:list Z) (j0:Z) : list Z :=
  match R with
  | [] => []
  | x :: t => if x =? key then j0 :: matches_from key t (j0 + 1) else matches_from key t (j0 + 1)
  end.
Definition matches (key:Z) (R:list Z) : list Z := matches_from key R 0.

(* left join: every left row in order, paired with each equal-keyed right row in order,
   or once with the invalid marker *)
Fixpoint left_join_from (inv:Z) (L R:list Z) (i0:Z) : list (Z * Z) :=
  match L with
  | [] => []
  | key :: t =>
    (match matches key R with
     | [] => [(i0, inv)]
     | ms => map (fun j => (i0, j)) ms
     end) ++ left_join_from inv t R (i0 + 1)
  end.
Definition left_join (inv:Z) (L R:list Z) : list (Z * Z) := left_join_from inv L R 0.

(* inner join: exactly the equal-keyed pairs in (left,right) order *)
Fixpoint inner_join_from (L R:list Z) (i0:Z) : list (Z * Z) :=
  match L with
  | [] => []
  | key :: t => map (fun j => (i0, j)) (matches key R) ++ inner_join_from t R (i0 + 1)
  end.
Definition inner_join (L R:list Z) : list (Z * Z) := inner_join_from L R 0.

Definition join_spec (is_left:bool) (inv:Z) (L R:list Z) : list (Z * Z) :=
  if is_left then left_join inv L R else inner_join L R.
